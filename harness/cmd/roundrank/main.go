// Engine for C35: generator ranking (node.Pool positions, round.computeMinerRanks, GetMinerRank,
// GetMinersByRank, chain.SetRandomSeed/SetRoundRank) and the per-round notarized block list
// (AddNotarizedBlock, UpdateNotarizedBlock, ...), all on the real packages. The oracle checks the
// property statement on the observed behaviour; cases go to the Coq model (Corr/Round.v).
package main

import (
	"encoding/hex"
	"fmt"
	"math"
	"math/big"
	"math/rand"
	"sort"
	"strings"

	"0chain.net/chaincore/block"
	"0chain.net/chaincore/chain"
	"0chain.net/chaincore/client"
	"0chain.net/chaincore/node"
	"0chain.net/chaincore/round"
	"0chain.net/core/memorystore"
	"github.com/0chain/common/core/logging"
	"go.uber.org/zap"
	"verifharness/vh"
)

// ---------------------------------------------------------------------------------- inputs

type rankIn struct {
	PubKeys []string `json:"pubkeys"` // distinct hex public keys (32 bytes)
	Order1  []int    `json:"order1"`  // AddNode sequence on node A (indices, may repeat)
	Order2  []int    `json:"order2"`  // AddNode sequence on node B (same set)
	Seed    int64    `json:"seed"`
	N       int      `json:"n"`        // minersNum handed to SetRandomSeed; -1 = via chain (pool size)
	Shuf1   []int    `json:"shuffle1"` // order of the slice handed to GetMinersByRank on A
	Shuf2   []int    `json:"shuffle2"`
	Pre     []seedOp `json:"pre,omitempty"` // earlier seed calls on node A's round only (other seed and/or miner count)
}

type seedOp struct {
	Notarized bool  `json:"notarized"`
	Seed      int64 `json:"seed"`
	N         int   `json:"n,omitempty"` // miner count of this call (0 = the history's default)
}
type seedIn struct {
	N   int      `json:"n"`
	Ops []seedOp `json:"ops"`
}

type bdef struct {
	Hash int `json:"hash"`
	Rank int `json:"rank"`
	Toc  int `json:"toc,omitempty"` // RoundTimeoutCount (a re-proposal after a round restart carries a higher one)
}
type bop struct {
	K string `json:"k"` // add|propose|update|best|heaviest
	B int    `json:"b"` // index into Blocks
}
type blocksIn struct {
	Blocks []bdef `json:"blocks"`
	Ops    []bop  `json:"ops"`
}

type input struct {
	Kind   string    `json:"kind"` // rank|seed|blocks
	Rank   *rankIn   `json:"rank,omitempty"`
	Seed   *seedIn   `json:"seed,omitempty"`
	Blocks *blocksIn `json:"blocks,omitempty"`
}

// ---------------------------------------------------------------------------------- rank cases

// idZ: the id as an integer for the model. Only the order of ids matters to the model; to keep
// the case files small the first 8 hex digits are used, which preserves the string order because
// the generator makes these prefixes pairwise distinct within a case (checked in runRank).
func idZ(id string) string {
	v, ok := new(big.Int).SetString(id[:8], 16)
	if !ok {
		panic("id not hex: " + id)
	}
	return v.String()
}

func natList(xs []int) string {
	out := make([]string, len(xs))
	for i, x := range xs {
		out[i] = fmt.Sprintf("%d", x)
	}
	return vh.List(out) + "%nat"
}

func newMiner(pk string) *node.Node {
	n := node.Provider()
	n.Type = node.NodeTypeMiner
	if err := n.SetPublicKey(pk); err != nil {
		panic(err)
	}
	return n
}

func buildPool(keys []string, order []int) *node.Pool {
	p := node.NewPool(node.NodeTypeMiner)
	for _, i := range order {
		if err := p.AddNode(newMiner(keys[i])); err != nil {
			panic(err)
		}
	}
	return p
}

func newChain(p *node.Pool) *chain.Chain {
	c := chain.Provider().(*chain.Chain)
	c.ChainConfig = chain.NewConfigImpl(&chain.ConfigData{MinGenerators: 2, GeneratorsPercent: 0.35})
	mb := block.NewMagicBlock()
	mb.Miners = p
	mb.Sharders = node.NewPool(node.NodeTypeSharder)
	c.SetMagicBlock(mb)
	return c
}

type rankObs struct {
	pool   []string       // ids in pool order
	setIdx []int          // SetIndex per pool position
	perm   []int          // stored permutation
	ranks  map[string]int // id -> GetMinerRank / SetRoundRank
	byRank []string
}

// observe one "node": its own pool (built in `order`), its own round, the seed set through the
// chain when n < 0, else directly on the round with minersNum n.
func observe(in *rankIn, order, shuf []int, pre []seedOp) rankObs {
	p := buildPool(in.PubKeys, order)
	var o rankObs
	nodes := p.CopyNodes()
	for _, nd := range nodes {
		o.pool = append(o.pool, nd.ID)
		o.setIdx = append(o.setIdx, nd.SetIndex)
	}
	r := round.NewRound(7)
	o.ranks = map[string]int{}
	for _, pc := range pre {
		if pc.Notarized {
			r.SetRandomSeedForNotarizedBlock(pc.Seed, pc.N)
		} else {
			r.SetRandomSeed(pc.Seed, pc.N)
		}
	}
	if len(pre) > 0 {
		// the call for the current (seed, miner set) arrives with a notarized block
		n := in.N
		if n < 0 {
			n = p.Size()
		}
		r.SetRandomSeedForNotarizedBlock(in.Seed, n)
		for _, nd := range nodes {
			o.ranks[nd.ID] = r.GetMinerRank(nd)
		}
	} else if in.N < 0 {
		c := newChain(p)
		c.AddRound(r)
		if in.Seed != 0 {
			c.SetRandomSeed(r, in.Seed)
		} else {
			r.SetRandomSeedForNotarizedBlock(in.Seed, c.GetMiners(7).Size())
		}
		for _, nd := range nodes {
			b := block.NewBlock("", 7)
			b.MinerID = nd.ID
			b.RoundRank = -99
			c.SetRoundRank(r, b)
			o.ranks[nd.ID] = b.RoundRank
		}
	} else {
		r.SetRandomSeedForNotarizedBlock(in.Seed, in.N)
		for _, nd := range nodes {
			o.ranks[nd.ID] = r.GetMinerRank(nd)
		}
	}
	o.perm = r.VerifMinerPerm()
	if len(shuf) > 0 {
		sl := make([]*node.Node, len(shuf))
		for i, k := range shuf {
			sl[i] = nodes[k]
		}
		for _, nd := range r.GetMinersByRank(sl) {
			o.byRank = append(o.byRank, nd.ID)
		}
	}
	return o
}

func sameStrs(a, b []string) bool {
	if len(a) != len(b) {
		return false
	}
	for i := range a {
		if a[i] != b[i] {
			return false
		}
	}
	return true
}

// runRank returns the Coq case, the first oracle failure and whether the case is non-trivial.
func runRank(in *rankIn) (string, string) {
	a := observe(in, in.Order1, in.Shuf1, in.Pre)
	b := observe(in, in.Order2, in.Shuf2, nil)
	fail := ""
	set := func(f string) {
		if fail == "" {
			fail = f
		}
	}
	// positions: same on both nodes, SetIndex = position = number of smaller ids
	if !sameStrs(a.pool, b.pool) {
		set("positions-depend-on-insertion-order")
	}
	for _, o := range []rankObs{a, b} {
		for i, id := range o.pool {
			smaller := 0
			for _, id2 := range o.pool {
				if id2 < id {
					smaller++
				}
			}
			if o.setIdx[i] != i || smaller != i {
				set("position-is-not-sorted-index")
			}
		}
	}
	// same seed, same set: same rank for every miner on both nodes
	for id, ra := range a.ranks {
		if rb, ok := b.ranks[id]; !ok || ra != rb {
			set("ranks-differ-across-nodes")
		}
	}
	n := len(a.pool)
	permLen := in.N
	if permLen < 0 {
		permLen = n
	}
	// the permutation is a permutation of 0..permLen-1
	seen := make([]bool, permLen)
	if len(a.perm) != permLen {
		set("ranks-not-a-permutation")
	}
	for _, v := range a.perm {
		if v < 0 || v >= permLen || seen[v] {
			set("ranks-not-a-permutation")
		} else {
			seen[v] = true
		}
	}
	if permLen == n {
		used := map[int]bool{}
		for _, r := range a.ranks {
			if r < 0 || r >= n || used[r] {
				set("ranks-not-a-permutation")
			}
			used[r] = true
		}
		if !sameStrs(a.byRank, b.byRank) {
			set("miners-by-rank-depends-on-slice-order")
		}
		if len(in.Shuf1) == n {
			got := append([]string{}, a.byRank...)
			sort.Strings(got)
			if !sameStrs(got, a.pool) {
				set("miners-by-rank-not-the-miner-set")
			}
		}
	}
	// draws of the real generator, recorded by asking it the way Perm does
	rng := rand.New(rand.NewSource(in.Seed))
	draws := make([]int, permLen)
	for i := range draws {
		draws[i] = rng.Intn(i + 1)
	}
	keys := make([]string, len(in.PubKeys))
	keyIdx := map[string]int{}
	prefixes := map[string]bool{}
	for i, pk := range in.PubKeys {
		id := newMiner(pk).ID
		keys[i] = idZ(id)
		keyIdx[id] = i
		if prefixes[id[:8]] {
			panic("id prefixes collide; generator must avoid this")
		}
		prefixes[id[:8]] = true
	}
	shuf := make([]int, len(in.Shuf1))
	for i, k := range in.Shuf1 {
		shuf[i] = keyIdx[a.pool[k]]
	}
	pool := make([]int, n)
	ranks := make([]string, n)
	for i, id := range a.pool {
		pool[i] = keyIdx[id]
		ranks[i] = vh.Z(int64(a.ranks[id]))
	}
	byr := make([]int, len(a.byRank))
	for i, id := range a.byRank {
		byr[i] = keyIdx[id]
	}
	c := fmt.Sprintf("RkCase %s %s %s %s %s %s %s %s", vh.List(keys), natList(in.Order1), natList(draws), natList(shuf),
		natList(pool), natList(a.perm), vh.List(ranks), natList(byr))
	return c, fail
}

func genRank(r *vh.Rand, big bool) *rankIn {
	n := r.Range(0, 9)
	if big {
		n = r.Range(10, 60)
	}
	in := &rankIn{}
	prefixes := map[string]bool{}
	for len(in.PubKeys) < n {
		pk := make([]byte, 32)
		for j := range pk {
			pk[j] = byte(r.Intn(256))
		}
		id := newMiner(hex.EncodeToString(pk)).ID
		if prefixes[id[:8]] {
			continue
		}
		prefixes[id[:8]] = true
		in.PubKeys = append(in.PubKeys, hex.EncodeToString(pk))
	}
	in.Order1 = r.Perm(n)
	in.Order2 = r.Perm(n)
	// repeated AddNode of a known key (replaces the node object)
	for k := r.Intn(3); k > 0 && n > 0; k-- {
		in.Order1 = append(in.Order1, r.Intn(n))
		pos := r.Intn(len(in.Order2) + 1)
		in.Order2 = append(in.Order2[:pos], append([]int{r.Intn(n)}, in.Order2[pos:]...)...)
	}
	seeds := []int64{0, 1, -1, 2, 42, math.MaxInt64, math.MinInt64, 1 << 31, 1<<53 + 1, -(1 << 40), 1<<63 - 2}
	if r.Chance(1, 2) {
		in.Seed = r.Pick64(seeds)
	} else {
		in.Seed = int64(r.U64())
	}
	in.N = -1
	switch r.Intn(8) {
	case 0:
		in.N = n // directly on the round
	case 1:
		if n > 0 && n <= 12 {
			in.N = r.Intn(n) // permutation shorter than the pool: rank -1 for the rest
		}
	case 2:
		in.N = n + r.Range(1, 3)
	}
	// node A's round already served an earlier configuration: same seed with another miner count,
	// another seed with the same count, or both
	if n > 0 && r.Chance(1, 3) {
		for k := r.Range(1, 2); k > 0; k-- {
			pc := seedOp{Notarized: r.Chance(2, 3), Seed: in.Seed, N: n}
			switch r.Intn(3) {
			case 0:
				pc.N = n + []int{-2, -1, 1, 2}[r.Intn(4)]
			case 1:
				pc.Seed = in.Seed + 1
			default:
				pc.Seed, pc.N = in.Seed^0x55, n+1
			}
			if pc.N < 1 {
				pc.N = 1
			}
			in.Pre = append(in.Pre, pc)
		}
	}
	if in.N < 0 || in.N == n || n <= 12 {
		in.Shuf1 = r.Perm(n)
		in.Shuf2 = r.Perm(n)
		if in.N >= 0 && in.N != n {
			in.Shuf2 = in.Shuf1 // ties between out-of-range nodes: result depends on the order handed in
		}
	}
	return in
}

// ---------------------------------------------------------------------------------- seed cases

func runSeed(in *seedIn) (string, string) {
	r := round.NewRound(9)
	fail := ""
	set := func(f string) {
		if fail == "" {
			fail = f
		}
	}
	ops := make([]string, len(in.Ops))
	cnt := func(o seedOp) int {
		if o.N > 0 {
			return o.N
		}
		return in.N
	}
	for i, o := range in.Ops {
		n := cnt(o)
		// was this call one the round must act on? (SetRandomSeed is ignored once the round has a seed)
		effective := o.Notarized || !r.HasRandomSeed()
		if o.Notarized {
			r.SetRandomSeedForNotarizedBlock(o.Seed, n)
			ops[i] = fmt.Sprintf("RsSetNotarized %s %d", vh.Z(o.Seed), n)
		} else {
			r.SetRandomSeed(o.Seed, n)
			ops[i] = fmt.Sprintf("RsSet %s %d", vh.Z(o.Seed), n)
		}
		if effective {
			// a fresh round that only ever saw this (seed, count) must hold the same ranks, and they
			// must be a permutation of 0..n-1 for the current miner count
			fresh := round.NewRound(9)
			fresh.SetRandomSeedForNotarizedBlock(o.Seed, n)
			got := r.VerifMinerPerm()
			if !sameInts(fresh.VerifMinerPerm(), got) {
				set("ranks-differ-from-fresh-round-same-seed-and-count")
			}
			seen := make([]bool, n)
			if len(got) != n {
				set("stored-ranks-not-a-permutation-of-current-miners")
			}
			for _, v := range got {
				if v < 0 || v >= n || seen[v] {
					set("stored-ranks-not-a-permutation-of-current-miners")
				} else {
					seen[v] = true
				}
			}
		}
		if r.HasRandomSeed() {
			ok := false
			for j := 0; j <= i; j++ {
				if in.Ops[j].Seed == r.GetRandomSeed() && sameInts(round.VerifComputeMinerRanks(in.Ops[j].Seed, cnt(in.Ops[j])), r.VerifMinerPerm()) {
					ok = true
				}
			}
			if !ok {
				set("ranks-not-from-stored-seed")
			}
		}
	}
	perm := r.VerifMinerPerm()
	permkey := "None"
	if perm != nil {
		permkey = "(Some (123456789, 0))" // the stored permutation belongs to no call made so far
		for i := len(in.Ops) - 1; i >= 0; i-- {
			if sameInts(round.VerifComputeMinerRanks(in.Ops[i].Seed, cnt(in.Ops[i])), perm) {
				permkey = vh.Some(vh.Pair(vh.Z(in.Ops[i].Seed), fmt.Sprintf("%d", cnt(in.Ops[i]))))
				break
			}
		}
	}
	return fmt.Sprintf("RsCase %s %s %s", vh.List(ops), vh.Z(r.GetRandomSeed()), permkey), fail
}

func sameInts(a, b []int) bool {
	if len(a) != len(b) {
		return false
	}
	for i := range a {
		if a[i] != b[i] {
			return false
		}
	}
	return true
}

func genSeed(r *vh.Rand) *seedIn {
	in := &seedIn{N: r.Range(8, 20)}
	seeds := []int64{0, 0, 5, 6, 7, -3, math.MaxInt64, math.MinInt64}
	varyN := r.Chance(2, 3) // the miner count changes between calls (magic block / view change)
	for k := r.Range(1, 8); k > 0; k-- {
		o := seedOp{Notarized: r.Chance(1, 2), Seed: r.Pick64(seeds)}
		if len(in.Ops) > 0 && r.Chance(1, 3) {
			o.Seed = in.Ops[len(in.Ops)-1].Seed // the same seed again
		}
		if varyN && r.Chance(1, 2) {
			o.N = in.N + r.Range(-3, 3)
			if o.N < 1 {
				o.N = 1
			}
		}
		in.Ops = append(in.Ops, o)
	}
	return in
}

// ---------------------------------------------------------------------------------- block cases

type bsnap struct {
	idx  int // index of the object in the table (-1 unknown)
	hash string
	rank int
	w    float64
}

type benv struct {
	objs []*block.Block
	idx  map[*block.Block]int
}

func (e *benv) snap(bs []*block.Block) []bsnap {
	out := make([]bsnap, len(bs))
	for i, b := range bs {
		k, ok := e.idx[b]
		if !ok {
			k = -1
		}
		out[i] = bsnap{k, b.Hash, b.RoundRank, b.Weight()}
	}
	return out
}

func sameSnap(a, b []bsnap) bool {
	if len(a) != len(b) {
		return false
	}
	for i := range a {
		if a[i].idx != b[i].idx {
			return false
		}
	}
	return true
}

func runBlocks(in *blocksIn) (cs string, fail string, kinds map[string]int) {
	kinds = map[string]int{}
	e := &benv{idx: map[*block.Block]int{}}
	for i, d := range in.Blocks {
		b := block.NewBlock("", 11)
		b.Hash = fmt.Sprintf("%064x", d.Hash)
		b.RoundRank = d.Rank
		b.RoundTimeoutCount = d.Toc
		e.objs = append(e.objs, b)
		e.idx[b] = i
	}
	r := round.NewRound(11)
	set := func(f string) {
		if fail == "" {
			fail = f
		}
	}
	var ops, outs []string
	for _, o := range in.Ops {
		pre := e.snap(r.GetNotarizedBlocks())
		preP := e.snap(r.GetProposedBlocks())
		var b *block.Block
		if o.B >= 0 && o.B < len(e.objs) {
			b = e.objs[o.B]
		}
		switch o.K {
		case "add":
			r.AddNotarizedBlock(b)
			ops = append(ops, fmt.Sprintf("IAdd %d", o.B))
			outs = append(outs, "ONone")
			post := e.snap(r.GetNotarizedBlocks())
			known := false
			for _, x := range pre {
				if x.hash == b.Hash {
					known = true
				}
			}
			if known {
				kinds["add-known-hash"]++
				if !sameSnap(pre, post) {
					set("add-known-hash-changed-list")
				}
			} else {
				want := map[int]bool{o.B: true}
				evicted := 0
				for _, x := range pre {
					if x.rank != b.RoundRank {
						want[x.idx] = true
					} else {
						evicted++
					}
				}
				if evicted > 0 {
					kinds["add-evicts-same-rank"]++
				} else {
					kinds["add-new"]++
				}
				got := map[int]bool{}
				for _, x := range post {
					got[x.idx] = true
				}
				if len(got) != len(want) || len(post) != len(want) {
					set("add-wrong-content")
				}
				for k := range want {
					if !got[k] {
						set("add-wrong-content")
					}
				}
			}
		case "propose":
			r.AddProposedBlock(b)
			ops = append(ops, fmt.Sprintf("IPropose %d", o.B))
			outs = append(outs, "ONone")
			kinds["propose"]++
			if !sameSnap(pre, e.snap(r.GetNotarizedBlocks())) {
				set("propose-changed-notarized")
			}
		case "update":
			r.UpdateNotarizedBlock(b)
			ops = append(ops, fmt.Sprintf("IUpdate %d", o.B))
			outs = append(outs, "ONone")
			post := e.snap(r.GetNotarizedBlocks())
			postP := e.snap(r.GetProposedBlocks())
			hit := false
			if len(post) != len(pre) || len(postP) != len(preP) {
				set("update-changed-other-entries")
			} else {
				for i, x := range post {
					if pre[i].hash == b.Hash {
						hit = true
						if pre[i].idx != o.B {
							kinds["update-other-object-same-hash"]++
						}
						// the property: the stored block with b's hash is now the given block
						if x.idx != o.B {
							set("update-keeps-old-block")
						}
					} else if x.idx != pre[i].idx {
						set("update-changed-other-entries")
					}
				}
				for i, x := range postP {
					if preP[i].hash == b.Hash {
						if x.idx != o.B {
							set("update-proposed-keeps-old-block")
						}
					} else if x.idx != preP[i].idx {
						set("update-changed-other-entries")
					}
				}
			}
			if hit {
				kinds["update-hit"]++
			} else {
				kinds["update-miss"]++
			}
		case "best", "heaviest":
			var got *block.Block
			if o.K == "best" {
				got = r.GetBestRankedNotarizedBlock()
				ops = append(ops, "IBest")
			} else {
				got = r.GetHeaviestNotarizedBlock()
				ops = append(ops, "IHeaviest")
			}
			kinds[o.K]++
			if got == nil {
				outs = append(outs, "(OBlk None)")
				if len(pre) != 0 {
					set(o.K + "-none-on-nonempty")
				}
			} else {
				k, ok := e.idx[got]
				if !ok {
					set(o.K + "-unknown-block")
					outs = append(outs, "(OBlk None)")
				} else {
					outs = append(outs, fmt.Sprintf("(OBlk (Some %d%%nat))", k))
				}
				for _, x := range pre {
					if o.K == "best" && x.rank < got.RoundRank {
						set("best-ranked-not-lowest-rank")
					}
					if o.K == "heaviest" && x.w > got.Weight() {
						set("heaviest-not-heaviest")
					}
				}
			}
		}
		// invariants of the notarized list after every operation
		post := e.snap(r.GetNotarizedBlocks())
		for i := range post {
			for j := i + 1; j < len(post); j++ {
				if post[i].rank == post[j].rank {
					set("two-notarized-blocks-same-rank")
				}
				if post[i].hash == post[j].hash {
					set("two-notarized-blocks-same-hash")
				}
			}
			if i > 0 && post[i-1].w < post[i].w {
				set("notarized-not-heaviest-first")
			}
		}
	}
	fin := func(s []bsnap) string {
		out := make([]int, len(s))
		for i, x := range s {
			out[i] = x.idx
			if x.idx < 0 {
				out[i] = len(in.Blocks) // an object the harness never made: no table entry
			}
		}
		return natList(out)
	}
	tbl := make([]string, len(in.Blocks))
	for i, d := range in.Blocks {
		tbl[i] = vh.Pair(fmt.Sprintf("%d", d.Hash), vh.Z(int64(d.Rank)))
	}
	cs = fmt.Sprintf("NbCase %s %s %s %s %s", vh.List(tbl), vh.List(ops), vh.List(outs),
		fin(e.snap(r.GetProposedBlocks())), fin(e.snap(r.GetNotarizedBlocks())))
	return cs, fail, kinds
}

func genBlocks(r *vh.Rand) *blocksIn {
	in := &blocksIn{}
	nh := r.Range(2, 5)
	ranks := []int{0, 1, 2, 3}
	// edge ranks: -1 (node missing from the permutation) weighs as much as 0, and every rank above
	// 1074 weighs 0. The order among equal weights is not part of the property, so a history uses
	// at most one rank of each such group (the oracle still evaluates the real Weight()).
	if r.Chance(1, 4) {
		ranks = [][]int{{-1, 1, 2, 1074, 2000}, {0, 1, 1073, 1074, 1075}, {-1, 3, 1074, 1076}}[r.Intn(3)]
	}
	// Objects with the same hash normally carry the same rank (the rank is a function of the
	// block's miner and the round). 1 history in 6 breaks this on purpose; such histories contain
	// no update (replacing a stored block by a differently ranked object is outside the property).
	mixed := r.Chance(1, 6)
	for h := 1; h <= nh; h++ {
		rank := ranks[r.Intn(len(ranks))]
		for k := r.Range(1, 3); k > 0; k-- {
			rk := rank
			if mixed && r.Chance(1, 3) {
				rk = ranks[r.Intn(len(ranks))]
			}
			// blocks of one rank arrive with increasing and decreasing timeout counts
			in.Blocks = append(in.Blocks, bdef{h, rk, r.Intn(4)})
		}
	}
	for k := r.Range(1, 25); k > 0; k-- {
		o := bop{B: r.Intn(len(in.Blocks))}
		switch x := r.Intn(10); {
		case x < 5:
			o.K = "add"
		case x < 6:
			o.K = "propose"
		case x < 8:
			o.K = "update"
			if mixed {
				o.K = "add"
			}
		case x < 9:
			o.K = "best"
		default:
			o.K = "heaviest"
		}
		in.Ops = append(in.Ops, o)
	}
	return in
}

func keyOf(in input) string {
	var b strings.Builder
	switch in.Kind {
	case "rank":
		fmt.Fprintf(&b, "rank|%v|%v|%v|%d|%d", in.Rank.PubKeys, in.Rank.Order1, in.Rank.Order2, in.Rank.Seed, in.Rank.N)
	case "seed":
		fmt.Fprintf(&b, "seed|%d|%v", in.Seed.N, in.Seed.Ops)
	default:
		fmt.Fprintf(&b, "blocks|%v|%v", in.Blocks.Blocks, in.Blocks.Ops)
	}
	return b.String()
}

// ---------------------------------------------------------------------------------- main

func main() {
	o := vh.ParseFlags()
	logging.Logger = zap.NewNop()
	logging.N2n = zap.NewNop()
	client.SetClientSignatureScheme("ed25519")
	round.SetupEntity(memorystore.GetStorageProvider())
	block.SetupEntity(memorystore.GetStorageProvider())

	rep := vh.NewReport("roundrank", "C35", o)
	rep.Rule = "rank: 0-9 (sometimes 10-60) miners with random public keys added in two different orders (with repeats) on two " +
		"node instances, seed from edge values or random, ranks read through chain.SetRandomSeed/SetRoundRank or directly " +
		"(also with a permutation shorter/longer than the pool; 1 in 3 with earlier seed calls on one node's round using the same seed and another miner count or another seed); seed: 1-8 SetRandomSeed/SetRandomSeedForNotarizedBlock calls on one round with repeated seeds and changing miner counts, each compared with a fresh round; " +
		"blocks: 1-25 ops (add/propose/update/best/heaviest) over 2-5 hashes with 1-3 objects each, ranks 0-3 or -1/1074-2000, " +
		"plus all op sequences over 4 objects up to a bound. Non-trivial = rank: >= 2 miners and different insertion orders; " +
		"seed: >= 2 ops with a non-zero seed; blocks: an eviction by rank, an ignored known hash and an update that hit; distinct by full input"
	cf := &vh.CasesFile{Imports: []string{"Base.Corr", "Model.Round", "Corr.Round"}, CaseType: "rk_case", CheckFn: "rk_check"}

	handle := func(in input, toCoq bool) {
		var cs, fail string
		nontriv := false
		switch in.Kind {
		case "rank":
			cs, fail = runRank(in.Rank)
			rep.Count("rank-case")
			if in.Rank.N >= 0 && in.Rank.N != len(in.Rank.PubKeys) {
				rep.Count("rank-perm-size-mismatch")
			}
			nontriv = len(in.Rank.PubKeys) >= 2 && !sameInts(in.Rank.Order1, in.Rank.Order2)
		case "seed":
			cs, fail = runSeed(in.Seed)
			rep.Count("seed-case")
			nz := 0
			for _, so := range in.Seed.Ops {
				if so.Seed != 0 {
					nz++
				}
			}
			nontriv = len(in.Seed.Ops) >= 2 && nz > 0
		case "blocks":
			var kinds map[string]int
			cs, fail, kinds = runBlocks(in.Blocks)
			for k, n := range kinds {
				rep.CountN(k, n)
			}
			nontriv = kinds["add-evicts-same-rank"] > 0 && kinds["add-known-hash"] > 0 && kinds["update-hit"] > 0
		default:
			panic("unknown input kind " + in.Kind)
		}
		rep.Case(keyOf(in), nontriv, in)
		if toCoq {
			cf.Add(cs)
			rep.CaseInputs = append(rep.CaseInputs, in)
		}
		if fail == "" {
			return
		}
		min := in
		if in.Kind == "blocks" {
			keep := vh.ShrinkIdx(len(in.Blocks.Ops), func(keep []int) bool {
				b2 := &blocksIn{Blocks: in.Blocks.Blocks}
				for _, i := range keep {
					b2.Ops = append(b2.Ops, in.Blocks.Ops[i])
				}
				_, f2, _ := runBlocks(b2)
				return f2 == fail
			})
			b2 := &blocksIn{Blocks: in.Blocks.Blocks}
			for _, i := range keep {
				b2.Ops = append(b2.Ops, in.Blocks.Ops[i])
			}
			min = input{Kind: "blocks", Blocks: compactBlocks(b2)}
		}
		if in.Kind == "seed" {
			keep := vh.ShrinkIdx(len(in.Seed.Ops), func(keep []int) bool {
				s2 := &seedIn{N: in.Seed.N}
				for _, i := range keep {
					s2.Ops = append(s2.Ops, in.Seed.Ops[i])
				}
				_, f2 := runSeed(s2)
				return f2 == fail
			})
			s2 := &seedIn{N: in.Seed.N}
			for _, i := range keep {
				s2.Ops = append(s2.Ops, in.Seed.Ops[i])
			}
			min = input{Kind: "seed", Seed: s2}
		}
		if in.Kind == "rank" {
			// drop miners while the failure stays
			keep := vh.ShrinkIdx(len(in.Rank.PubKeys), func(keep []int) bool {
				_, f2 := runRank(restrictRank(in.Rank, keep))
				return f2 == fail
			})
			min = input{Kind: "rank", Rank: restrictRank(in.Rank, keep)}
		}
		rep.Violate("C35:"+fail, "generator ranking / notarized blocks: "+fail, min)
	}

	finish := func() {
		files, err := cf.Write(o.Out, "C35")
		if err != nil {
			panic(err)
		}
		rep.CaseFiles = files
		rep.ShardSize = 400
		rep.Write(o.Out)
	}

	var rin input
	if o.LoadReplay(&rin) {
		handle(rin, true)
		finish()
		return
	}
	rnd := vh.NewRand(o.Seed)
	for i := 0; i < o.N(150, 1500); i++ {
		handle(input{Kind: "rank", Rank: genRank(rnd, i%10 == 9)}, true)
	}
	for i := 0; i < o.N(40, 400); i++ {
		handle(input{Kind: "seed", Seed: genSeed(rnd)}, true)
	}
	for i := 0; i < o.N(250, 2500); i++ {
		handle(input{Kind: "blocks", Blocks: genBlocks(rnd)}, true)
	}
	// exhaustive: all sequences over a small alphabet. Objects: 0,1 = same hash (two objects),
	// 2 = other hash with the same rank, 3 = third hash with another rank.
	objs := []bdef{{1, 0, 1}, {1, 0, 1}, {2, 0, 0}, {3, 1, 2}}
	var alpha []bop
	for i := range objs {
		alpha = append(alpha, bop{"add", i}, bop{"update", i})
	}
	alpha = append(alpha, bop{"propose", 0}, bop{"propose", 1}, bop{"best", 0})
	maxLen, coqLen := o.N(4, 5), o.N(2, 3)
	var rec func(cur []bop)
	rec = func(cur []bop) {
		if len(cur) > 0 {
			handle(input{Kind: "blocks", Blocks: &blocksIn{Blocks: objs, Ops: append([]bop{}, cur...)}}, len(cur) <= coqLen)
		}
		if len(cur) == maxLen {
			return
		}
		for _, a := range alpha {
			rec(append(cur, a))
		}
	}
	rec(nil)
	rep.Note("exhaustive: all sequences over %d block ops (4 objects: 2 of one hash, 1 same-rank other hash, 1 other rank) up to length %d on the implementation oracle; up to length %d also compared with the model", len(alpha), maxLen, coqLen)
	finish()
}

// compactBlocks drops the block objects no op refers to (renumbering the rest), when the failure
// is the same on the compacted history.
func compactBlocks(in *blocksIn) *blocksIn {
	m := map[int]int{}
	out := &blocksIn{}
	for _, o := range in.Ops {
		if o.K == "best" || o.K == "heaviest" {
			out.Ops = append(out.Ops, bop{K: o.K})
			continue
		}
		k, ok := m[o.B]
		if !ok {
			k = len(out.Blocks)
			m[o.B] = k
			out.Blocks = append(out.Blocks, in.Blocks[o.B])
		}
		out.Ops = append(out.Ops, bop{K: o.K, B: k})
	}
	_, f1, _ := runBlocks(in)
	_, f2, _ := runBlocks(out)
	if f1 == f2 && len(out.Blocks) > 0 {
		return out
	}
	return in
}

// restrictRank keeps only the miners with the given indices (renumbered).
func restrictRank(in *rankIn, keep []int) *rankIn {
	m := map[int]int{}
	out := &rankIn{Seed: in.Seed, N: in.N, Pre: in.Pre}
	for newI, oldI := range keep {
		m[oldI] = newI
		out.PubKeys = append(out.PubKeys, in.PubKeys[oldI])
	}
	f := func(xs []int) []int {
		var r []int
		for _, x := range xs {
			if y, ok := m[x]; ok {
				r = append(r, y)
			}
		}
		return r
	}
	out.Order1, out.Order2 = f(in.Order1), f(in.Order2)
	// shuffles index pool positions: rebuild as identity / reverse over the reduced pool
	if len(in.Shuf1) > 0 {
		for i := range keep {
			out.Shuf1 = append(out.Shuf1, i)
			out.Shuf2 = append(out.Shuf2, len(keep)-1-i)
		}
		if in.N >= 0 && in.N != len(in.PubKeys) {
			out.Shuf2 = out.Shuf1
		}
	}
	if in.N >= 0 {
		// keep the relation of N to the pool size
		out.N = in.N - len(in.PubKeys) + len(keep)
		if out.N < 0 {
			out.N = 0
		}
	}
	return out
}
