(* Model of smartcontract/multisigsc (sc.go register / vote / expiration queue, models.go)
   for property C21. Definitions only; proofs are in Proof/Multisig.v.
   Wallets, signers, threshold ids, proposal ids and recipients are integer tokens. Inputs recorded
   from the real run: whether the vote's signature verifies under the signer's registered key
   (state.SignedTransfer.VerifySignature, real BLS), whether the threshold signature could be
   reconstructed, and for register whether the wallet description passed the key/scheme checks. *)
From Coq Require Export List ZArith Bool Lia.
Export ListNotations.
Open Scope Z_scope.

Definition ms_week : Z := 604800.    (* ExpirationTime *)
Definition ms_max_signers : Z := 20.

Record ms_wallet := { mw_signers : list (Z * Z);   (* signer client, threshold id *)
                      mw_required : Z }.

Record ms_prop := { mp_expire : Z; mp_to : Z; mp_amount : Z; mp_votes : list Z; mp_executed : bool }.

(* proposals are keyed by (wallet, proposal id); the expiration queue lists the keys in creation order *)
Record ms_state := { ms_wallets : list (Z * ms_wallet);
                     ms_props : list ((Z * Z) * ms_prop);
                     ms_queue : list (Z * Z) }.

Definition ms_init : ms_state := {| ms_wallets := []; ms_props := []; ms_queue := [] |}.

Definition ms_ref_eqb (a b : Z * Z) : bool := (fst a =? fst b) && (snd a =? snd b).

Fixpoint ms_wallet_get (w : Z) (l : list (Z * ms_wallet)) : option ms_wallet :=
  match l with [] => None | (k, x) :: tl => if k =? w then Some x else ms_wallet_get w tl end.

Fixpoint ms_prop_get (r : Z * Z) (l : list ((Z * Z) * ms_prop)) : option ms_prop :=
  match l with [] => None | (k, x) :: tl => if ms_ref_eqb k r then Some x else ms_prop_get r tl end.

Fixpoint ms_prop_set (r : Z * Z) (p : ms_prop) (l : list ((Z * Z) * ms_prop)) : list ((Z * Z) * ms_prop) :=
  match l with
  | [] => [(r, p)]
  | (k, x) :: tl => if ms_ref_eqb k r then (k, p) :: tl else (k, x) :: ms_prop_set r p tl
  end.

Fixpoint ms_prop_del (r : Z * Z) (l : list ((Z * Z) * ms_prop)) : list ((Z * Z) * ms_prop) :=
  match l with
  | [] => []
  | (k, x) :: tl => if ms_ref_eqb k r then ms_prop_del r tl else (k, x) :: ms_prop_del r tl
  end.

Fixpoint ms_queue_del (r : Z * Z) (q : list (Z * Z)) : list (Z * Z) :=
  match q with [] => [] | k :: tl => if ms_ref_eqb k r then ms_queue_del r tl else k :: ms_queue_del r tl end.

Fixpoint ms_tid_of (signer : Z) (l : list (Z * Z)) : option Z :=
  match l with [] => None | (s, t) :: tl => if s =? signer then Some t else ms_tid_of signer tl end.

Fixpoint ms_memz (x : Z) (l : list Z) : bool :=
  match l with [] => false | y :: tl => (y =? x) || ms_memz x tl end.

Fixpoint ms_nodupz (l : list Z) : bool :=
  match l with [] => true | y :: tl => negb (ms_memz y tl) && ms_nodupz tl end.

(* the request: who sends it, block time, the vote (proposal id, transfer wallet -> to : amount),
   whether the payload is well formed (decodes, fields <= 256 bytes, amount > 0, signature present),
   whether the signature verifies under the sender's registered key, whether reconstruction works *)
Inductive ms_op :=
| MsRegister (client wallet : Z) (signers : list (Z * Z)) (required : Z) (keys_ok : bool)
| MsVote (signer now wallet pid to amount : Z) (wellformed sig_ok recover_ok : bool).

Inductive ms_out :=
| MsRegistered
| MsNeed (remaining : Z)                  (* "success n: need n more votes" *)
| MsAlreadyVoted (remaining : Z)
| MsAlreadyExecuted
| MsExecuted (from to amount : Z)         (* signed transfer queued *)
| MsFail.

(* pruneExpirationQueue: only the oldest proposal is looked at *)
Definition ms_prune_head (st : ms_state) (now : Z) : ms_state :=
  match ms_queue st with
  | [] => st
  | r :: _ =>
      let expired := match ms_prop_get r (ms_props st) with Some p => mp_expire p <=? now | None => 0 <=? now end in
      if expired then {| ms_wallets := ms_wallets st; ms_props := ms_prop_del r (ms_props st); ms_queue := ms_queue_del r (ms_queue st) |}
      else st
  end.

Definition ms_step (st : ms_state) (o : ms_op) : ms_state * ms_out :=
  match o with
  | MsRegister client wallet signers required keys_ok =>
      let n := Z.of_nat (length signers) in
      if negb (client =? wallet) || (ms_max_signers <? n) || (required <? 2) || (n <? required) ||
         negb (ms_nodupz (map snd signers)) || negb (ms_nodupz (map fst signers)) || negb keys_ok then (st, MsFail) else
      match ms_wallet_get wallet (ms_wallets st) with
      | Some _ => (st, MsFail)
      | None => ({| ms_wallets := (wallet, {| mw_signers := signers; mw_required := required |}) :: ms_wallets st;
                    ms_props := ms_props st; ms_queue := ms_queue st |}, MsRegistered)
      end
  | MsVote signer now wallet pid to amount wellformed sig_ok recover_ok =>
      let st1 := ms_prune_head st now in
      if negb wellformed then (st, MsFail) else
      let r := (wallet, pid) in
      (* findOrCreateProposal *)
      let found := ms_prop_get r (ms_props st1) in
      match (match found with
             | Some p => if mp_expire p <=? now then None else Some (p, st1)
             | None =>
                 let p := {| mp_expire := now + ms_week; mp_to := to; mp_amount := amount; mp_votes := []; mp_executed := false |} in
                 Some (p, {| ms_wallets := ms_wallets st1; ms_props := ms_prop_set r p (ms_props st1); ms_queue := ms_queue st1 ++ [r] |})
             end) with
      | None => (st, MsFail)                          (* proposal_expired *)
      | Some (p, st2) =>
          if negb ((mp_to p =? to) && (mp_amount p =? amount)) then (st, MsFail) else
          if mp_executed p then (st2, MsAlreadyExecuted) else
          match ms_wallet_get wallet (ms_wallets st2) with
          | None => (st, MsFail)
          | Some w =>
              match ms_tid_of signer (mw_signers w) with
              | None => (st, MsFail)
              | Some tid =>
                  if negb sig_ok then (st, MsFail) else
                  let remaining := mw_required w - Z.of_nat (length (mp_votes p)) in
                  if ms_memz tid (mp_votes p) then (st2, MsAlreadyVoted remaining) else
                  let p1 := {| mp_expire := mp_expire p; mp_to := mp_to p; mp_amount := mp_amount p;
                               mp_votes := mp_votes p ++ [tid]; mp_executed := false |} in
                  if 0 <? remaining - 1 then
                    ({| ms_wallets := ms_wallets st2; ms_props := ms_prop_set r p1 (ms_props st2); ms_queue := ms_queue st2 |},
                     MsNeed (remaining - 1))
                  else if negb recover_ok then (st, MsFail)
                  else
                    let p2 := {| mp_expire := mp_expire p; mp_to := mp_to p; mp_amount := mp_amount p;
                                 mp_votes := mp_votes p ++ [tid]; mp_executed := true |} in
                    ({| ms_wallets := ms_wallets st2; ms_props := ms_prop_set r p2 (ms_props st2); ms_queue := ms_queue st2 |},
                     MsExecuted wallet (mp_to p) (mp_amount p))
              end
          end
      end
  end.

Fixpoint ms_run (st : ms_state) (ops : list ms_op) : ms_state * list ms_out :=
  match ops with
  | [] => (st, [])
  | o :: tl => let '(st1, out) := ms_step st o in
               let '(st2, outs) := ms_run st1 tl in (st2, out :: outs)
  end.
