(* C43: Hard-fork behaviour switches exactly at the fork round.
   Only statements; each is closed by [exact] of a lemma in Proof/Activator.v.
   ac_with_activation l br = which callback WithActivation runs for a block of round br when the
   lookup of the fork's key gives l; ac_exec ops = the activator-relevant state after a history of
   fork records / deletions / corrupt values / trie damage. *)
From ZC Require Import Model.Activator Proof.Activator.
Open Scope Z_scope.

(* A fork recorded with round r: pre-fork rules exactly for blocks before r, post-fork from r on;
   stated after any history whose last write to the fork's key is that record. *)
Theorem C43_switch_exactly_at_fork_round :
  forall ops1 ops2 name r br,
  ac_broken (ac_exec ops1) = false ->
  forallb (fun o => negb (ac_touches name o)) ops2 = true ->
  ac_with_activation (ac_lookup_of (ac_exec (ops1 ++ AcRecord name r :: ops2)) name) br
    = if Z.ltb br r then AcBefore else AcAfter.
Proof. exact ac_behaviour_recorded. Qed.
Print Assumptions C43_switch_exactly_at_fork_round.

(* Recording through one add_hardfork transaction carrying a whole request map (name -> round,
   names distinct, ANY map): afterwards every submitted name reports its own submitted round and
   switches exactly there. *)
Theorem C43_add_hardfork_records_each_name_at_its_round :
  forall ops1 ops2 req n r br,
  ac_broken (ac_exec ops1) = false -> NoDup (map fst req) -> In (n, r) req ->
  forallb (fun o => negb (ac_touches n o)) ops2 = true ->
  ac_round_by_name (ac_lookup_of (ac_exec (ops1 ++ AcRecordMany req :: ops2)) n) = (r, AcOk) /\
  ac_with_activation (ac_lookup_of (ac_exec (ops1 ++ AcRecordMany req :: ops2)) n) br
    = if Z.ltb br r then AcBefore else AcAfter.
Proof. exact ac_behaviour_record_many. Qed.
Print Assumptions C43_add_hardfork_records_each_name_at_its_round.

Theorem C43_before_iff_lt :
  forall r br, ac_with_activation (AcFound r) br = AcBefore <-> br < r.
Proof. exact ac_found_before_iff. Qed.
Print Assumptions C43_before_iff_lt.

Theorem C43_after_iff_ge :
  forall r br, ac_with_activation (AcFound r) br = AcAfter <-> r <= br.
Proof. exact ac_found_after_iff. Qed.
Print Assumptions C43_after_iff_ge.

(* along a chain (non-decreasing block rounds) the rules switch once and never switch back;
   the switch is between r-1 and r *)
Theorem C43_switch_once :
  forall r br1 br2, br1 <= br2 ->
  ac_with_activation (AcFound r) br1 = AcAfter -> ac_with_activation (AcFound r) br2 = AcAfter.
Proof. exact ac_switch_once. Qed.
Print Assumptions C43_switch_once.

Theorem C43_switch_at :
  forall r, ac_with_activation (AcFound r) (r - 1) = AcBefore /\ ac_with_activation (AcFound r) r = AcAfter.
Proof. exact ac_switch_at. Qed.
Print Assumptions C43_switch_at.

(* A fork that was never recorded (no history op wrote its key, the trie is healthy) keeps the
   pre-fork rules for every block round below MaxInt64 (GetRoundByName answers MaxInt64). *)
Theorem C43_absent_fork_pre :
  forall ops name br,
  forallb (fun o => negb (ac_touches name o)) ops = true -> br < ac_maxint64 ->
  ac_with_activation (ac_lookup_of (ac_exec ops) name) br = AcBefore.
Proof. exact ac_behaviour_never_recorded. Qed.
Print Assumptions C43_absent_fork_pre.

(* A trie that cannot resolve a node: neither callback runs, the error is returned. *)
Theorem C43_node_not_found_propagates :
  forall ops1 ops2 name br be ae,
  let l := ac_lookup_of (ac_exec (ops1 ++ AcBreak :: ops2)) name in
  ac_with_activation l br = AcNone /\ ac_result (ac_with_activation l br) be ae = ac_node_not_found_token.
Proof. exact ac_behaviour_broken. Qed.
Print Assumptions C43_node_not_found_propagates.

(* Otherwise exactly one callback runs and its error is what WithActivation returns. *)
Theorem C43_exactly_one_branch :
  forall l br be ae, l <> AcNodeNotFound ->
  (ac_with_activation l br = AcBefore /\ ac_result (ac_with_activation l br) be ae = be) \/
  (ac_with_activation l br = AcAfter /\ ac_result (ac_with_activation l br) be ae = ae).
Proof. exact ac_exactly_one_branch. Qed.
Print Assumptions C43_exactly_one_branch.

(* Non-vacuity. *)
Example C43_example :
  snd (ac_run ac_init [AcQuery "electra" 10 7 8; AcRecord "electra" 100; AcRecord "demeter" 5;
                       AcQuery "electra" 99 7 8; AcQuery "electra" 100 7 8; AcQuery "demeter" 100 7 8;
                       AcQuery "apollo" 100 7 8; AcRecord "electra" 50; AcQuery "electra" 99 7 8;
                       AcGetRound "apollo"; AcBreak; AcQuery "electra" 99 7 8])
  = [AcRan AcBefore 7; AcDone; AcDone; AcRan AcBefore 7; AcRan AcAfter 8; AcRan AcAfter 8;
     AcRan AcBefore 7; AcDone; AcRan AcAfter 8; AcRound ac_maxint64 AcErrValueNotPresent; AcDone;
     AcRan AcNone (-1)].
Proof. vm_compute. reflexivity. Qed.

(* Documented edge (outside the domain: no chain reaches round 2^63-1): for a block of round
   MaxInt64 an unrecorded fork already runs the post-fork callback. *)
Example C43_absent_at_maxint64_edge :
  ac_with_activation AcAbsent ac_maxint64 = AcAfter.
Proof. vm_compute. reflexivity. Qed.
