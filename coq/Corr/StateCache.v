(* Correspondence for C07: a case is a history run on the real StateContext over real
   TransactionCache / BlockCache / StateCache and MPT for one entity type, with the token of the
   content every read returned (engine: one token per distinct deep content); [sc_check] re-runs
   the model with the type's copy discipline and compares read results and error classes. *)
From ZC Require Import Base.Corr Model.StateCache.
Open Scope Z_scope.

Record sc_case := { scc_mode : sc_mode; scc_ops : list sc_op; scc_obs : list sc_out }.

Definition sc_out_eqb (a b : sc_out) : bool :=
  match a, b with
  | SOData x, SOData y => option_eqb zz_eqb x y
  | SOOk, SOOk => true
  | SOErr, SOErr => true
  | _, _ => false
  end.

Definition sc_check (c : sc_case) : bool :=
  list_eqb sc_out_eqb (snd (sc_run (sc_init (scc_mode c)) (scc_ops c))) (scc_obs c).
