(* Model of LFB tickets (property C41): chaincore/chain/protocol_lfb_ticket.go
     LFBTicketHandler (decode, verifyLFBTicket, AddReceivedLFBTicket), verifyLFBTicket,
     StartLFBTicketWorker (latest; received batch, broadcast batch, get), BroadcastLFBTicket,
     the blank "kick" ticket injected locally with AddReceivedLFBTicket.
   Definitions only; proofs are in Proof/LFB.v. *)
From Coq Require Export List ZArith Bool Lia.
Export ListNotations.
Open Scope Z_scope.

(* nodes registered in the process-wide registry (node.RegisterNode, called by every
   Pool.AddNode of any magic block) *)
Inductive lf_kind := LfMiner | LfSharder.
Record lf_node := { lf_nid : Z; lf_nkind : lf_kind; lf_in_mb : bool (* member of the current magic block *) }.

(* a ticket arriving at the handler.  lf_sig_ok: the signature verifies under the public key
   registered for lf_signer (signature oracle; irrelevant when the signer is not registered) *)
Record lf_ticket := { lf_round : Z; lf_signer : Z; lf_sig_ok : bool; lf_hash : Z }.

Fixpoint lf_find (nodes : list lf_node) (id : Z) : option lf_node :=
  match nodes with
  | [] => None
  | n :: tl => if Z.eqb (lf_nid n) id then Some n else lf_find tl id
  end.

Definition lf_is_mb_sharder (n : lf_node) : bool :=
  match lf_nkind n with LfSharder => lf_in_mb n | LfMiner => false end.

(* verifyLFBTicket.  As written: node.GetNode(id) over the whole registry, then the signature.
   [fixed = true]: the signer is looked up among the sharders of the current magic block. *)
Definition lf_verify (fixed : bool) (nodes : list lf_node) (t : lf_ticket) : bool :=
  match lf_find nodes (lf_signer t) with
  | None => false
  | Some n => (if fixed then lf_is_mb_sharder n else true) && lf_sig_ok t
  end.

(* the ticket the worker reports *)
Inductive lf_origin := OOwn | OKick | ORemote (signer : Z).
Record lf_latest := { ll_round : Z; ll_origin : lf_origin; ll_hash : Z }.

Inductive lf_event :=
| LfRemote (batch : list lf_ticket)      (* tickets posted to the handler, drained by the worker in one go *)
| LfKick (round : Z)                      (* local blank ticket (Sign = "") *)
| LfBroadcast (batch : list (Z * Z))      (* own new LFBs (round, hash) pushed by BroadcastLFBTicket *)
| LfGet.

(* drain loop: the entry with the greatest round, the first one among equals *)
Fixpoint lf_pick {A} (rnd : A -> Z) (best : A) (l : list A) : A :=
  match l with
  | [] => best
  | x :: tl => if Z.ltb (rnd best) (rnd x) then lf_pick rnd x tl else lf_pick rnd best tl
  end.

Definition lf_recv (st : lf_latest) (batch : list lf_latest) : lf_latest :=
  match batch with
  | [] => st
  | x :: tl => let best := lf_pick ll_round x tl in
               if Z.leb (ll_round best) (ll_round st) then st else best
  end.

Definition lf_of_ticket (t : lf_ticket) : lf_latest :=
  {| ll_round := lf_round t; ll_origin := ORemote (lf_signer t); ll_hash := lf_hash t |}.

Definition lf_step (fixed : bool) (nodes : list lf_node) (self_sharder : bool) (st : lf_latest) (e : lf_event) : lf_latest :=
  match e with
  | LfRemote batch => lf_recv st (map lf_of_ticket (filter (lf_verify fixed nodes) batch))
  | LfKick r => lf_recv st [ {| ll_round := r; ll_origin := OKick; ll_hash := 0 |} ]
  | LfBroadcast batch =>
      if self_sharder
      then lf_recv st (map (fun rh => {| ll_round := fst rh; ll_origin := OOwn; ll_hash := snd rh |}) batch)
      else st
  | LfGet => st
  end.

(* states after each event *)
Fixpoint lf_run (fixed : bool) (nodes : list lf_node) (self_sharder : bool) (st : lf_latest) (evs : list lf_event) : list lf_latest :=
  match evs with
  | [] => []
  | e :: tl => let st' := lf_step fixed nodes self_sharder st e in st' :: lf_run fixed nodes self_sharder st' tl
  end.

(* the worker starts with its own ticket for the block it is started on *)
Definition lf_init (round hash : Z) : lf_latest := {| ll_round := round; ll_origin := OOwn; ll_hash := hash |}.
