// Engine for C25: runs op histories on the real smartcontract/partitions package over a real
// StateContext (in-memory MPT, transaction tries layered with chain.CreateTxnMPT and merged with
// MergeMPTChanges as the chain does), checks the property itself against a plain Go map
// (oracle, independent of the Coq model) and emits Gallina cases for Corr/Partitions.v.
package main

import (
	"errors"
	"fmt"
	"math/rand"
	"sort"
	"strconv"
	"strings"

	"0chain.net/chaincore/chain"
	"0chain.net/smartcontract/partitions"
	"github.com/0chain/common/core/statecache"
	"github.com/0chain/common/core/util"
	"github.com/tinylib/msgp/msgp"
	"verifharness/sc"
	"verifharness/vh"
)

// ---------- the item type stored in the partitions ----------

type pitem struct {
	ID string
	V  int64
}

func (p *pitem) GetID() string { return p.ID }
func (p *pitem) MarshalMsg(b []byte) ([]byte, error) {
	return msgp.AppendInt64(msgp.AppendString(b, p.ID), p.V), nil
}
func (p *pitem) UnmarshalMsg(b []byte) ([]byte, error) {
	id, rest, err := msgp.ReadStringBytes(b)
	if err != nil {
		return b, err
	}
	v, rest, err := msgp.ReadInt64Bytes(rest)
	if err != nil {
		return b, err
	}
	p.ID, p.V = id, v
	return rest, nil
}
func (p *pitem) Msgsize() int { return msgp.StringPrefixSize + len(p.ID) + msgp.Int64Size }

func idStr(id int64) string { return strconv.FormatInt(id, 10) }

// ---------- histories ----------

type op struct {
	K     string `json:"k"` // add get upditem update remove exist size foreach random save commit reload
	ID    int64  `json:"id,omitempty"`
	D     int64  `json:"d,omitempty"`
	Ferr  bool   `json:"ferr,omitempty"`
	RSeed int64  `json:"rseed,omitempty"` // seed of the *rand.Rand handed to GetRandomItems
}

type hist struct {
	Size   int  `json:"size"`
	Cached bool `json:"cached"` // run over a real block/transaction state cache instead of an empty one
	Ops    []op `json:"ops"`
}

const pname = "verif_parts"

// env is the chain-like environment: committed trie + current transaction trie/cache.
type env struct {
	base   util.MerklePatriciaTrieI
	scache *statecache.StateCache
	bc     *statecache.BlockCache
	tc     *statecache.TransactionCache
	txn    util.MerklePatriciaTrieI
	cached bool
	round  int64
}

func newEnv(cached bool) *env {
	e := &env{cached: cached, round: 1}
	e.base = sc.NewMPT()
	if cached {
		e.scache = statecache.NewStateCache()
		e.bc = statecache.NewBlockCache(e.scache, statecache.Block{Round: 1, Hash: "b1", PrevHash: "b0"})
	}
	e.begin()
	return e
}

func (e *env) begin() {
	if e.cached {
		e.tc = statecache.NewTransactionCache(e.bc)
	} else {
		e.tc = statecache.NewEmpty()
	}
	e.txn = chain.CreateTxnMPT(e.base, e.tc)
}

// commit: the transaction succeeded
func (e *env) commit() error {
	if err := e.base.MergeMPTChanges(e.txn); err != nil {
		return err
	}
	e.tc.Commit()
	e.begin()
	return nil
}

// rollback: the transaction failed, its trie and cache are dropped
func (e *env) rollback() { e.begin() }

// outputs in canonical form (also the Coq term)
type out struct {
	kind  string // ok exists notfound fn empty internal got bool nat items
	d     int64
	b     bool
	n     int
	items [][2]int64
}

func (o out) coq() string {
	switch o.kind {
	case "ok":
		return "POk"
	case "exists":
		return "PErrExists"
	case "notfound":
		return "PErrNotFound"
	case "fn":
		return "PErrFn"
	case "empty":
		return "PErrEmpty"
	case "internal":
		return "PInternal"
	case "got":
		return "(PGot " + vh.Z(o.d) + ")"
	case "bool":
		return "(PBool " + vh.Bool(o.b) + ")"
	case "nat":
		return "(PNat " + vh.Nat(o.n) + ")"
	case "items":
		xs := make([]string, len(o.items))
		for i, it := range o.items {
			xs[i] = vh.Pair(vh.Z(it[0]), vh.Z(it[1]))
		}
		return "(PItems " + vh.List(xs) + ")"
	}
	panic("bad out " + o.kind)
}

var errFn = errors.New("verif: callback failed")

func classify(err error) string {
	switch {
	case err == nil:
		return "ok"
	case partitions.ErrItemExist(err):
		return "exists"
	case partitions.ErrItemNotFound(err):
		return "notfound"
	case errors.Is(err, errFn):
		return "fn"
	default:
		return "internal"
	}
}

type result struct {
	outs    []out
	idxs    []int // recorded r.Intn draws per op (-1 when not a random op)
	fail    string
	failAt  int
	kinds   map[string]int
	maxLoc  int
	emptied bool
}

// run executes the history on the real code and evaluates the property after every call.
func run(h hist) (res result) {
	res.kinds = map[string]int{}
	res.failAt = -1
	fail := func(i int, k string) {
		if res.fail == "" {
			res.fail, res.failAt = k, i
		}
	}
	defer func() {
		if r := recover(); r != nil {
			fail(len(res.outs), "panic")
			for len(res.outs) < len(h.Ops) {
				res.outs = append(res.outs, out{kind: "internal"})
				res.idxs = append(res.idxs, -1)
			}
			res.kinds["panic"]++
		}
	}()
	e := newEnv(h.Cached)
	c := sc.NewCtx(e.txn, e.round, nil)
	p, err := partitions.CreateIfNotExists(c, pname, h.Size)
	if err != nil {
		panic(err)
	}
	if err := e.commit(); err != nil {
		panic(err)
	}
	cur := map[int64]int64{}   // the set the partitions stand for
	saved := map[int64]int64{} // as of the last commit
	copyMap := func(m map[int64]int64) map[int64]int64 {
		n := make(map[int64]int64, len(m))
		for k, v := range m {
			n[k] = v
		}
		return n
	}
	for i, o := range h.Ops {
		c := sc.NewCtx(e.txn, e.round, nil)
		var ot out
		idx := -1
		switch o.K {
		case "add":
			err := p.Add(c, &pitem{ID: idStr(o.ID), V: o.D})
			ot.kind = classify(err)
			_, had := cur[o.ID]
			switch {
			case had && ot.kind != "exists":
				fail(i, "add-duplicate-accepted")
			case !had && ot.kind != "ok":
				fail(i, "add-rejected")
			}
			if ot.kind == "ok" {
				cur[o.ID] = o.D
			}
			res.kinds["add-"+ot.kind]++
		case "get":
			var it pitem
			_, err := p.Get(c, idStr(o.ID), &it)
			ot.kind = classify(err)
			want, had := cur[o.ID]
			if err == nil {
				ot = out{kind: "got", d: it.V}
				if !had || want != it.V || it.ID != idStr(o.ID) {
					fail(i, "get-wrong-item")
				}
			} else if had || ot.kind != "notfound" {
				fail(i, "get-missed-member")
			}
			res.kinds["get-"+ot.kind]++
		case "upditem":
			err := p.UpdateItem(c, &pitem{ID: idStr(o.ID), V: o.D})
			ot.kind = classify(err)
			_, had := cur[o.ID]
			if had != (ot.kind == "ok") || (!had && ot.kind != "notfound") {
				fail(i, "update-result")
			}
			if ot.kind == "ok" {
				cur[o.ID] = o.D
			}
			res.kinds["upditem-"+ot.kind]++
		case "update":
			_, err := p.Update(c, idStr(o.ID), func(data []byte) ([]byte, error) {
				if o.Ferr {
					return nil, errFn
				}
				var it pitem
				if _, err := it.UnmarshalMsg(data); err != nil {
					return nil, err
				}
				it.V += o.D
				return it.MarshalMsg(nil)
			})
			ot.kind = classify(err)
			old, had := cur[o.ID]
			switch {
			case !had && ot.kind != "notfound":
				fail(i, "update-result")
			case had && o.Ferr && ot.kind != "fn":
				fail(i, "update-result")
			case had && !o.Ferr && ot.kind != "ok":
				fail(i, "update-result")
			}
			if ot.kind == "ok" {
				cur[o.ID] = old + o.D
			}
			res.kinds["update-"+ot.kind]++
		case "remove":
			err := p.Remove(c, idStr(o.ID))
			ot.kind = classify(err)
			_, had := cur[o.ID]
			if had != (ot.kind == "ok") || (!had && ot.kind != "notfound") {
				fail(i, "remove-result")
			}
			if ot.kind == "ok" {
				delete(cur, o.ID)
				if len(cur) == 0 {
					res.emptied = true
				}
			}
			res.kinds["remove-"+ot.kind]++
		case "exist":
			ok, err := p.Exist(c, idStr(o.ID))
			if err != nil {
				ot.kind = "internal"
				fail(i, "exist-error")
			} else {
				ot = out{kind: "bool", b: ok}
				if _, had := cur[o.ID]; had != ok {
					fail(i, "exist-disagrees")
				}
			}
			res.kinds["exist"]++
		case "size":
			n, err := p.Size(c)
			if err != nil {
				ot.kind = "internal"
				fail(i, "size-error")
			} else {
				ot = out{kind: "nat", n: n}
				if n != len(cur) {
					fail(i, "size-not-exact")
				}
			}
			res.kinds["size"]++
		case "foreach":
			var got [][2]int64
			perPart := map[int]int{}
			maxPart := -1
			bad := false
			err := p.ForEach(c, func(pi int, id string, data []byte) bool {
				var it pitem
				if _, err := it.UnmarshalMsg(data); err != nil || it.ID != id {
					bad = true
				}
				n, err := strconv.ParseInt(id, 10, 64)
				if err != nil {
					bad = true
				}
				got = append(got, [2]int64{n, it.V})
				perPart[pi]++
				if pi > maxPart {
					maxPart = pi
				}
				return false
			})
			if err != nil || bad {
				ot.kind = "internal"
				fail(i, "foreach-error")
			} else {
				sort.Slice(got, func(a, b int) bool { return got[a][0] < got[b][0] })
				ot = out{kind: "items", items: got}
				for k := 1; k < len(got); k++ {
					if got[k-1][0] == got[k][0] {
						fail(i, "foreach-duplicate")
					}
				}
				if len(got) != len(cur) {
					fail(i, "foreach-set-differs")
				}
				for _, it := range got {
					if v, ok := cur[it[0]]; !ok || v != it[1] {
						fail(i, "foreach-set-differs")
					}
				}
				for pi := 0; pi < maxPart; pi++ {
					if perPart[pi] != h.Size {
						fail(i, "partition-not-full")
					}
				}
				if maxPart >= 0 && perPart[maxPart] > h.Size {
					fail(i, "partition-over-full")
				}
				if maxPart > res.maxLoc {
					res.maxLoc = maxPart
				}
			}
			res.kinds["foreach"]++
		case "random":
			if n := len(cur); n > 0 {
				idx = rand.New(rand.NewSource(o.RSeed)).Intn(n) // the draw the package will make
			} else {
				idx = 0
			}
			var its []pitem
			err := p.GetRandomItems(c, rand.New(rand.NewSource(o.RSeed)), &its)
			if err != nil {
				if len(cur) == 0 {
					ot.kind = "empty"
				} else {
					ot.kind = "internal"
					fail(i, "random-error")
				}
			} else {
				var got [][2]int64
				for _, it := range its {
					n, _ := strconv.ParseInt(it.ID, 10, 64)
					got = append(got, [2]int64{n, it.V})
				}
				ot = out{kind: "items", items: got}
				want := h.Size
				if len(cur) < want {
					want = len(cur)
				}
				if len(cur) == 0 {
					fail(i, "random-on-empty")
				}
				if len(got) != want {
					fail(i, "random-count")
				}
				seen := map[int64]bool{}
				for _, it := range got {
					if seen[it[0]] {
						fail(i, "random-not-distinct")
					}
					seen[it[0]] = true
					if v, ok := cur[it[0]]; !ok || v != it[1] {
						fail(i, "random-not-member")
					}
				}
			}
			res.kinds["random-"+ot.kind]++
		case "save":
			if err := p.Save(c); err != nil {
				ot.kind = "internal"
				fail(i, "save-error")
			} else {
				ot.kind = "ok"
			}
			res.kinds["save"]++
		case "commit":
			err := p.Save(c)
			if err == nil {
				err = e.commit()
			}
			if err != nil {
				ot.kind = "internal"
				fail(i, "save-error")
			} else {
				ot.kind = "ok"
				saved = copyMap(cur)
			}
			res.kinds["commit"]++
		case "reload":
			e.rollback()
			np, err := partitions.GetPartitions(sc.NewCtx(e.txn, e.round, nil), pname)
			if err != nil {
				ot.kind = "internal"
				fail(i, "reload-error")
			} else {
				p = np
				ot.kind = "ok"
				cur = copyMap(saved)
			}
			res.kinds["reload"]++
		default:
			panic("unknown op " + o.K)
		}
		if ot.kind == "internal" {
			fail(i, "internal-error")
		}
		res.outs = append(res.outs, ot)
		res.idxs = append(res.idxs, idx)
	}
	return res
}

func coqCase(h hist, r result) string {
	ops := make([]string, len(h.Ops))
	outs := make([]string, len(h.Ops))
	for i, o := range h.Ops {
		switch o.K {
		case "add":
			ops[i] = fmt.Sprintf("PAdd %s %s", vh.Z(o.ID), vh.Z(o.D))
		case "get":
			ops[i] = "PGet " + vh.Z(o.ID)
		case "upditem":
			ops[i] = fmt.Sprintf("PUpdateItem %s %s", vh.Z(o.ID), vh.Z(o.D))
		case "update":
			ops[i] = fmt.Sprintf("PUpdate %s %s %s", vh.Z(o.ID), vh.Z(o.D), vh.Bool(o.Ferr))
		case "remove":
			ops[i] = "PRemove " + vh.Z(o.ID)
		case "exist":
			ops[i] = "PExist " + vh.Z(o.ID)
		case "size":
			ops[i] = "PSize"
		case "foreach":
			ops[i] = "PForEach"
		case "random":
			ops[i] = "PRandom " + vh.Nat(r.idxs[i])
		case "save":
			ops[i] = "PSave"
		case "commit":
			ops[i] = "PCommit"
		case "reload":
			ops[i] = "PReload"
		}
		outs[i] = r.outs[i].coq()
	}
	return fmt.Sprintf("{| ptc_size := %s; ptc_ops := %s; ptc_obs := %s |}", vh.Nat(h.Size), vh.List(ops), vh.List(outs))
}

func key(h hist) string {
	var b strings.Builder
	fmt.Fprintf(&b, "%d/%v", h.Size, h.Cached)
	for _, o := range h.Ops {
		fmt.Fprintf(&b, "|%s,%d,%d,%v,%d", o.K, o.ID, o.D, o.Ferr, o.RSeed)
	}
	return b.String()
}

// ---------- generators ----------

var edgeData = []int64{0, 1, -1, 1 << 53, (1 << 53) + 1, -(1 << 62), 1 << 62, 255, 256, 65536}
var edgeIDs = []int64{-1, 9223372036854775807, -9223372036854775808, 1 << 53}

func audit(ids []int64) []op {
	ops := []op{{K: "size"}, {K: "foreach"}}
	for _, id := range ids {
		ops = append(ops, op{K: "exist", ID: id})
	}
	return ops
}

func universe(r *vh.Rand, size int) []int64 {
	n := r.Range(size+1, 4*size+4)
	ids := make([]int64, n)
	for i := range ids {
		ids[i] = int64(i + 1)
	}
	if r.Chance(1, 4) {
		for i := 0; i < len(edgeIDs) && i < len(ids); i++ {
			ids[len(ids)-1-i] = edgeIDs[i]
		}
	}
	return ids
}

func genData(r *vh.Rand) int64 {
	if r.Chance(1, 6) {
		return r.Pick64(edgeData)
	}
	return int64(r.Range(-50, 50))
}

// mixed random history
func genMixed(r *vh.Rand, n int) hist {
	h := hist{Size: r.Range(1, 5), Cached: r.Bool()}
	ids := universe(r, h.Size)
	// a phase bias so that the set both grows over several partitions and drains to empty
	for len(h.Ops) < n {
		phaseLen := r.Range(5, 40)
		addW := r.Range(1, 8)
		remW := r.Range(1, 8)
		for k := 0; k < phaseLen && len(h.Ops) < n; k++ {
			id := r.Pick64(ids)
			x := r.Intn(addW + remW + 8)
			switch {
			case x < addW:
				h.Ops = append(h.Ops, op{K: "add", ID: id, D: genData(r)})
			case x < addW+remW:
				h.Ops = append(h.Ops, op{K: "remove", ID: id})
			default:
				switch r.Intn(14) {
				case 0, 1:
					h.Ops = append(h.Ops, op{K: "get", ID: id})
				case 2:
					h.Ops = append(h.Ops, op{K: "exist", ID: id})
				case 3:
					h.Ops = append(h.Ops, op{K: "upditem", ID: id, D: genData(r)})
				case 4:
					h.Ops = append(h.Ops, op{K: "update", ID: id, D: int64(r.Range(-9, 9)), Ferr: r.Chance(1, 5)})
				case 5:
					h.Ops = append(h.Ops, op{K: "size"})
				case 6:
					h.Ops = append(h.Ops, op{K: "foreach"})
				case 7, 8:
					h.Ops = append(h.Ops, op{K: "random", RSeed: int64(r.Intn(1 << 30))})
				case 9:
					h.Ops = append(h.Ops, op{K: "save"})
				case 10, 11:
					h.Ops = append(h.Ops, op{K: "commit"})
					if r.Bool() {
						h.Ops = append(h.Ops, op{K: "reload"})
					}
				case 12:
					h.Ops = append(h.Ops, op{K: "reload"})
				default:
					h.Ops = append(h.Ops, op{K: "get", ID: id})
				}
			}
		}
	}
	h.Ops = append(h.Ops, audit(ids)...)
	return h
}

// fill k partitions (+ tail), optionally commit/reload, then remove from one chosen position,
// audit, and re-add the removed id: covers every (partition, slot) position and the removals
// that empty the tail.
func genPositional(size, parts, tail, victim int, reloadBefore, reloadAfter, cached bool) hist {
	h := hist{Size: size, Cached: cached}
	total := parts*size + tail
	ids := make([]int64, total)
	for i := range ids {
		ids[i] = int64(i + 1)
		h.Ops = append(h.Ops, op{K: "add", ID: ids[i], D: int64(10 * (i + 1))})
	}
	if reloadBefore {
		h.Ops = append(h.Ops, op{K: "commit"}, op{K: "reload"})
	}
	h.Ops = append(h.Ops, op{K: "remove", ID: ids[victim]}, op{K: "remove", ID: ids[victim]}, op{K: "get", ID: ids[victim]})
	h.Ops = append(h.Ops, audit(ids)...)
	if reloadAfter {
		h.Ops = append(h.Ops, op{K: "commit"}, op{K: "reload"})
		h.Ops = append(h.Ops, audit(ids)...)
	}
	h.Ops = append(h.Ops, op{K: "add", ID: ids[victim], D: 7}, op{K: "random", RSeed: int64(victim)})
	h.Ops = append(h.Ops, audit(ids)...)
	h.Ops = append(h.Ops, op{K: "commit"}, op{K: "reload"})
	h.Ops = append(h.Ops, audit(ids)...)
	return h
}

// grow to several partitions, then drain completely in a random order with reloads in between
func genDrain(r *vh.Rand) hist {
	h := hist{Size: r.Range(1, 5), Cached: r.Bool()}
	total := r.Range(h.Size, 4*h.Size+2)
	ids := make([]int64, total)
	for i := range ids {
		ids[i] = int64(i + 1)
		h.Ops = append(h.Ops, op{K: "add", ID: ids[i], D: genData(r)})
		if r.Chance(1, 7) {
			h.Ops = append(h.Ops, op{K: "commit"}, op{K: "reload"})
		}
	}
	for _, j := range r.Perm(total) {
		h.Ops = append(h.Ops, op{K: "remove", ID: ids[j]})
		switch r.Intn(8) {
		case 0:
			h.Ops = append(h.Ops, op{K: "commit"}, op{K: "reload"})
		case 1:
			h.Ops = append(h.Ops, op{K: "foreach"}, op{K: "size"})
		case 2:
			h.Ops = append(h.Ops, op{K: "random", RSeed: int64(r.Intn(1000))})
		case 3:
			h.Ops = append(h.Ops, op{K: "add", ID: ids[j], D: genData(r)}, op{K: "remove", ID: ids[r.Intn(total)]})
		}
	}
	h.Ops = append(h.Ops, audit(ids)...)
	for i := 0; i < total && i < 2*h.Size+1; i++ { // id reuse after the drain
		h.Ops = append(h.Ops, op{K: "add", ID: ids[i], D: genData(r)})
	}
	h.Ops = append(h.Ops, op{K: "commit"}, op{K: "reload"})
	h.Ops = append(h.Ops, audit(ids)...)
	return h
}

// malformed stream: calls on absent ids, duplicates, failing callbacks, sampling an empty set,
// reload without commit, repeated commits
func genMalformed(r *vh.Rand) hist {
	h := hist{Size: r.Range(1, 5), Cached: r.Bool()}
	ids := []int64{1, 2, 3, -1, 9223372036854775807}
	n := r.Range(10, 40)
	for i := 0; i < n; i++ {
		id := r.Pick64(ids)
		switch r.Intn(12) {
		case 0:
			h.Ops = append(h.Ops, op{K: "remove", ID: id})
		case 1:
			h.Ops = append(h.Ops, op{K: "get", ID: id})
		case 2:
			h.Ops = append(h.Ops, op{K: "update", ID: id, D: 1, Ferr: r.Bool()})
		case 3:
			h.Ops = append(h.Ops, op{K: "upditem", ID: id, D: genData(r)})
		case 4:
			h.Ops = append(h.Ops, op{K: "random", RSeed: int64(i)})
		case 5:
			h.Ops = append(h.Ops, op{K: "add", ID: id, D: genData(r)}, op{K: "add", ID: id, D: genData(r)})
		case 6:
			h.Ops = append(h.Ops, op{K: "reload"})
		case 7:
			h.Ops = append(h.Ops, op{K: "commit"}, op{K: "commit"})
		case 8:
			h.Ops = append(h.Ops, op{K: "save"}, op{K: "reload"})
		case 9:
			h.Ops = append(h.Ops, op{K: "add", ID: id, D: genData(r)}, op{K: "reload"}, op{K: "add", ID: id, D: genData(r)})
		default:
			h.Ops = append(h.Ops, op{K: "exist", ID: id})
		}
	}
	h.Ops = append(h.Ops, audit(ids)...)
	return h
}

func subHist(h hist, keep []int) hist {
	h2 := hist{Size: h.Size, Cached: h.Cached}
	for _, i := range keep {
		h2.Ops = append(h2.Ops, h.Ops[i])
	}
	return h2
}

func main() {
	o := vh.ParseFlags()
	sc.Init()
	rep := vh.NewReport("partitions", "C25", o)
	rep.Rule = "histories of add/get/update/updateItem/remove/exist/size/forEach/getRandomItems/save/commit/reload over partition sizes 1-5 " +
		"(mixed random with growth and drain phases, positional removals from every partition and slot with and without reloads, " +
		"full drains in random order with id reuse, a malformed stream, exhaustive short sequences); half run over a real block/transaction " +
		"state cache; non-trivial = at least one accepted add, one accepted remove, one rejected call, one reload or commit, and two or more partitions at some point; distinct by full op list"
	cf := &vh.CasesFile{Imports: []string{"Base.Corr", "Model.Partitions", "Corr.Partitions"}, CaseType: "pt_case", CheckFn: "pt_check", Shard: 100}

	handle := func(h hist, toCoq bool) {
		r := run(h)
		for k, n := range r.kinds {
			rep.CountN(k, n)
		}
		rejected := r.kinds["add-exists"] + r.kinds["remove-notfound"] + r.kinds["get-notfound"] + r.kinds["update-notfound"] +
			r.kinds["upditem-notfound"] + r.kinds["update-fn"] + r.kinds["random-empty"]
		nontriv := r.kinds["add-ok"] > 0 && r.kinds["remove-ok"] > 0 && rejected > 0 &&
			r.kinds["reload"]+r.kinds["commit"] > 0 && r.maxLoc >= 1
		rep.Case(key(h), nontriv, h)
		rep.Count(fmt.Sprintf("size-%d", h.Size))
		if h.Cached {
			rep.Count("over-state-cache")
		}
		if r.emptied {
			rep.Count("drained-to-empty")
		}
		if toCoq {
			cf.Add(coqCase(h, r))
			rep.CaseInputs = append(rep.CaseInputs, h)
		}
		if r.fail != "" {
			keep := vh.ShrinkIdx(len(h.Ops), func(keep []int) bool {
				return run(subHist(h, keep)).fail == r.fail
			})
			rep.Violate("C25:"+r.fail, "partitions disagree with the set they stand for: "+r.fail, subHist(h, keep))
		}
	}
	finish := func() {
		files, err := cf.Write(o.Out, "C25")
		if err != nil {
			panic(err)
		}
		rep.CaseFiles = files
		rep.ShardSize = 100
		rep.Write(o.Out)
	}

	var rh hist
	if o.LoadReplay(&rh) {
		handle(rh, true)
		finish()
		return
	}
	rnd := vh.NewRand(o.Seed)
	// 1. mixed histories, 10-400 ops
	for i := 0; i < o.N(120, 1500); i++ {
		n := rnd.Range(10, 120)
		if rnd.Chance(1, 8) {
			n = rnd.Range(200, 400)
		}
		handle(genMixed(rnd, n), true)
	}
	// 2. positional removals: every size, 0-3 full partitions, every tail length, every victim
	pos := 0
	for size := 1; size <= 5; size++ {
		for parts := 0; parts <= 3; parts++ {
			for tail := 0; tail <= size; tail++ {
				total := parts*size + tail
				for victim := 0; victim < total; victim++ {
					for variant := 0; variant < 4; variant++ {
						pos++
						// all of them go through the oracle; a seed-dependent sample goes to the model
						toCoq := rnd.Chance(o.N(1, 4), 12)
						handle(genPositional(size, parts, tail, victim, variant&1 == 1, variant&2 == 2, (pos+variant)%2 == 0), toCoq)
					}
				}
			}
		}
	}
	rep.Note("positional: %d histories = sizes 1-5 x 0-3 full partitions x every tail length x every victim position x 4 reload variants", pos)
	// 3. drains and the malformed stream
	for i := 0; i < o.N(60, 600); i++ {
		handle(genDrain(rnd), true)
	}
	for i := 0; i < o.N(60, 600); i++ {
		handle(genMalformed(rnd), true)
	}
	// 4. exhaustive short sequences over add/remove of 3 ids, commit, reload (sizes 1 and 2),
	//    each followed by a full audit
	alpha := []op{{K: "commit"}, {K: "reload"}}
	ids := []int64{1, 2, 3}
	if o.Thorough() {
		ids = []int64{1, 2, 3, 4}
	}
	for _, id := range ids {
		alpha = append(alpha, op{K: "add", ID: id, D: id}, op{K: "remove", ID: id})
	}
	maxLen := o.N(4, 5)
	coqLen := o.N(2, 3)
	nex := 0
	var rec func(cur []op)
	rec = func(cur []op) {
		if len(cur) > 0 {
			for size := 1; size <= 2; size++ {
				nex++
				h := hist{Size: size, Cached: nex%2 == 0, Ops: append(append([]op{}, cur...), audit(ids)...)}
				handle(h, len(cur) <= coqLen)
			}
		}
		if len(cur) == maxLen {
			return
		}
		for _, a := range alpha {
			rec(append(cur, a))
		}
	}
	rec(nil)
	rep.Note("exhaustive: all sequences over %d ops (add/remove of %d ids, commit, reload) up to length %d, sizes 1-2, each followed by size/forEach/exist-all; up to length %d also compared with the model",
		len(alpha), len(ids), maxLen, coqLen)
	finish()
}
