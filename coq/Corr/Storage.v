(* Correspondence for engine E-storage: a case is one history executed on the real storagesc
   (initial projection after setup, the transactions with their recorded oracle values, whether
   each was accepted, a digest of the projection after every transaction and the full flattened
   projection at the end); [ss_check] re-runs the model and compares. *)
From Coq Require Import ZArith List Bool.
From ZC Require Import Base.Corr Model.F64 Model.Storage.
Import ListNotations.
Open Scope Z_scope.

Definition ss_b2z (b : bool) : Z := if b then 1 else 0.
Definition ss_oz (o : option Z) : Z := match o with Some z => z | None => -1 end.
(* an enterprise allocation has no challenge pool node (the model keeps Some 0 for it) *)
Definition ss_cpz (a : ss_alloc) : Z := if al_ent a then -1 else ss_oz (al_cp a).

Definition ss_flat_ba (d : ss_balloc) : list Z :=
  [ba_blobber d; ba_size d; ba_wp d; ba_rp d; ba_cpiv d; ba_chreward d; ba_penalty d; ba_returned d; ba_readrew d;
   ba_used d; ba_lf d; ba_ls d; ba_tot d; ba_open d; ba_succ d; ba_fail d; ba_root d] ++
  match ba_lwm d with Some (sz, ts, p) => [1; sz; ts; p] | None => [0; 0; 0; 0] end.

Definition ss_flat_oc (o : ss_oc) : list Z := [oc_id o; oc_blobber o; oc_created o; oc_round o].

Definition ss_flat_alloc (a : ss_alloc) : list Z :=
  [al_id a; al_owner a; al_start a; al_exp a; al_size a; al_data a; al_parity a; al_wpool a; al_mtc a; al_mb a; al_mtv a;
   ss_b2z (al_tpe a); al_used a; al_tot a; al_open a; al_succ a; al_fail a; ss_cpz a; ss_b2z (al_chnode a); al_tu a;
   Z.of_nat (length (al_bas a))] ++ flat_map ss_flat_ba (al_bas a) ++
  [Z.of_nat (length (al_ocs a))] ++ flat_map ss_flat_oc (al_ocs a).

Definition ss_flat_blobber (b : ss_blobber) : list Z :=
  [bl_id b; bl_cap b; bl_allocd b; bl_saved b; ss_b2z (bl_killed b); ss_b2z (bl_shut b); ss_b2z (bl_notavail b);
   bl_wp b; bl_rp b; bl_offers b; ss_b2z (bl_spkilled b); bl_rewards b; Z.of_nat (length (bl_pools b))] ++ bl_pools b.

Definition ss_flat_validator (v : ss_validator) : list Z := [vl_id v; vl_stake v; ss_b2z (vl_killed v); vl_rewards v].

Definition ss_flat_assigner (s : ss_state) (k : Z) : list Z :=
  match ss_find_assigner k (st_assigners s) with
  | Some a => [1; as_indiv a; as_total a; as_redeemed a; as_key a; Z.of_nat (length (as_nonces a))] ++ as_nonces a
  | None => [0]
  end.

Definition ss_flat (keys : list Z) (akeys : list Z) (rkeys : list (Z * Z * Z)) (nchal : nat) (s : ss_state) : list Z :=
  [Z.of_nat (length (st_allocs s))] ++ flat_map ss_flat_alloc (st_allocs s) ++
  flat_map ss_flat_blobber (st_blobbers s) ++ flat_map ss_flat_validator (st_validators s) ++
  flat_map (fun k => [ss_oz (ss_assoc k (st_rpools s)); ss_assoc0 k (st_bals s)]) keys ++
  flat_map (ss_flat_assigner s) akeys ++
  map (fun '(b, c, a) => ss_oz (ss_read_last b c a (st_reads s))) rkeys ++
  map (fun i => match ss_find_chal (Z.of_nat i) (st_chals s) with Some _ => 1 | None => 0 end) (seq 1 nchal).

(* digest compared after every transaction *)
Definition ss_digest (c : ss_conf) (s : ss_state) : list Z :=
  [Z.of_nat (length (st_allocs s));
   ss_sum (map (fun a => ss_cpz a) (st_allocs s));
   ss_sum (map al_wpool (st_allocs s));
   ss_sum (map (fun a => ss_sum_cpiv (al_bas a)) (st_allocs s));
   ss_sum (map bl_allocd (st_blobbers s));
   ss_sum (map bl_offers (st_blobbers s));
   ss_sum (map bl_rewards (st_blobbers s)) + ss_sum (map vl_rewards (st_validators s));
   ss_sum (map ss_stake (st_blobbers s));
   ss_sum (map snd (st_rpools s));
   ss_bal s (cf_sc c)].

Fixpoint ss_run_dig (c : ss_conf) (s : ss_state) (evs : list ss_ev) : ss_state * list (bool * list Z) :=
  match evs with
  | [] => (s, [])
  | EvTxn t :: tl =>
      let '(s1, ok) := ss_step_w c s t in
      let '(s2, r) := ss_run_dig c s1 tl in
      (s2, (ok, ss_digest c s1) :: r)
  | EvTimeUnit tu :: tl =>
      let c' := cf_with_tu c tu in
      let '(s2, r) := ss_run_dig c' s tl in
      (s2, (true, ss_digest c' s) :: r)
  end.

Record ss_case := {
  sc_conf : ss_conf;
  sc_init : ss_state;
  sc_ops : list ss_ev;
  sc_obs : list (bool * list Z);       (* accepted?, digest after the transaction *)
  sc_keys : list Z; sc_akeys : list Z; sc_rkeys : list (Z * Z * Z); sc_nchal : nat;
  sc_final : list Z
}.

Definition ss_obs_eqb (a b : bool * list Z) : bool :=
  Bool.eqb (fst a) (fst b) && list_eqb Z.eqb (snd a) (snd b).

Definition ss_check (k : ss_case) : bool :=
  let '(s, obs) := ss_run_dig (sc_conf k) (sc_init k) (sc_ops k) in
  list_eqb ss_obs_eqb obs (sc_obs k) &&
  list_eqb Z.eqb (ss_flat (sc_keys k) (sc_akeys k) (sc_rkeys k) (sc_nchal k) s) (sc_final k).

(* diagnostics used while developing: index of the first diverging transaction and both digests *)
Fixpoint ss_first_diff (i : nat) (a b : list (bool * list Z)) : option (nat * (bool * list Z) * (bool * list Z)) :=
  match a, b with
  | x :: ta, y :: tb => if ss_obs_eqb x y then ss_first_diff (S i) ta tb else Some (i, x, y)
  | _, _ => None
  end.
Definition ss_diag (k : ss_case) :=
  let '(s, obs) := ss_run_dig (sc_conf k) (sc_init k) (sc_ops k) in
  (ss_first_diff 0 obs (sc_obs k), ss_flat (sc_keys k) (sc_akeys k) (sc_rkeys k) (sc_nchal k) s).
