(* The lock-section facts generated from chaincore/round/entity.go (Gen/RoundSections.v) that the
   sequential model of C37 rests on: test and write of AddVRFShare and of Restart lie in one
   write-locked section of the round mutex.  Breaks when the source moves one of them out. *)
From ZC Require Import Gen.RoundSections.

Lemma rsec_add_vrf_share_one_section : rsec_add_vrf_share_atomic = true.
Proof. reflexivity. Qed.

Lemma rsec_restart_one_section : rsec_restart_atomic = true.
Proof. reflexivity. Qed.
