// Fan-in obligations (property C06).
//
// A fan-in function starts one goroutine per item, each calling a callback parameter, and returns one error of
// the many. If it sends errors of the callback through a plain `chan error` (no index, not sorted before one is
// chosen) the error that surfaces is the one of the goroutine that finished first: harmless only when every such
// error is the same whatever item produced it. The translator therefore emits one site per CALL of a fan-in
// function (directly or through a function that forwards its own callback parameter), resolves the callback and
// classifies what the callback can return as an error, transitively through the functions of the repository:
//
//	FanInOrdered  the fan-in function sends no error through a plain error channel (all errors carry the index)
//	FanInConst    every error of the callback is a constant (errors.New / sentinel / format of item-independent
//	              values) or comes from outside the repository sources (the state store)
//	FanInValue    some error text is formatted from non-string data loaded for the item (an enum, a number)
//	FanInItem     some error text mentions the item: its id, a string derived from it, a string field of the
//	              loaded value - or the analysis cannot tell (fail closed)
package main

import (
	"fmt"
	"go/ast"
	"go/token"
	"go/types"
	"strings"
)

type pkgInfo struct {
	path    string
	files   []*ast.File
	names   []string
	inScope []bool
	info    *types.Info
}

type declRef struct {
	fd *ast.FuncDecl
	pi *pkgInfo
}

var pkgInfos []*pkgInfo
var decls = map[string]*declRef{}

func funcKey(f *types.Func) string {
	if o := f.Origin(); o != nil {
		f = o
	}
	return f.FullName()
}

type fanFn struct {
	cbParam   int
	itemArgs  map[int]bool // callback arguments that differ per item
	unordered bool
	name      string
}

var fans = map[string]*fanFn{}

// callee of a call expression as a *types.Func (nil: function value, conversion, builtin)
func calleeOf(info *types.Info, c *ast.CallExpr) *types.Func {
	fun := c.Fun
	for {
		switch x := fun.(type) {
		case *ast.ParenExpr:
			fun = x.X
			continue
		case *ast.IndexExpr:
			fun = x.X
			continue
		case *ast.IndexListExpr:
			fun = x.X
			continue
		}
		break
	}
	switch x := fun.(type) {
	case *ast.Ident:
		f, _ := info.Uses[x].(*types.Func)
		return f
	case *ast.SelectorExpr:
		f, _ := info.Uses[x.Sel].(*types.Func)
		return f
	}
	return nil
}

func paramObjs(info *types.Info, ft *ast.FuncType) []types.Object {
	var out []types.Object
	if ft.Params == nil {
		return nil
	}
	for _, p := range ft.Params.List {
		if len(p.Names) == 0 {
			out = append(out, nil)
		}
		for _, n := range p.Names {
			out = append(out, info.Defs[n])
		}
	}
	return out
}

func isErrorType(t types.Type) bool {
	return t != nil && types.Identical(t, types.Universe.Lookup("error").Type())
}

func isStringKind(t types.Type) bool {
	if t == nil {
		return false
	}
	b, ok := t.Underlying().(*types.Basic)
	return ok && b.Info()&types.IsString != 0
}

func indexDecls() {
	for _, pi := range pkgInfos {
		for _, af := range pi.files {
			for _, d := range af.Decls {
				fd, ok := d.(*ast.FuncDecl)
				if !ok || fd.Body == nil {
					continue
				}
				if f, ok := pi.info.Defs[fd.Name].(*types.Func); ok {
					decls[funcKey(f)] = &declRef{fd, pi}
				}
			}
		}
	}
}

func findFans() {
	// leaves: a go statement whose function literal calls a func-typed parameter
	for key, d := range decls {
		info := d.pi.info
		ps := paramObjs(info, d.fd.Type)
		isParam := map[types.Object]int{}
		for i, p := range ps {
			if p != nil {
				isParam[p] = i
			}
		}
		ast.Inspect(d.fd.Body, func(n ast.Node) bool {
			g, ok := n.(*ast.GoStmt)
			if !ok {
				return true
			}
			lit, ok := g.Call.Fun.(*ast.FuncLit)
			if !ok {
				return true
			}
			ff := &fanFn{cbParam: -1, itemArgs: map[int]bool{}, name: d.fd.Name.Name}
			ast.Inspect(lit.Body, func(m ast.Node) bool {
				switch x := m.(type) {
				case *ast.CallExpr:
					if id, ok := x.Fun.(*ast.Ident); ok {
						if i, ok := isParam[info.Uses[id]]; ok {
							if _, isSig := ps[i].Type().Underlying().(*types.Signature); isSig {
								ff.cbParam = i
								for ai, a := range x.Args {
									if aid, ok := a.(*ast.Ident); ok {
										if _, own := isParam[info.Uses[aid]]; own {
											continue
										}
									}
									ff.itemArgs[ai] = true
								}
							}
						}
					}
				case *ast.SendStmt:
					if tv, ok := info.Types[x.Chan]; ok {
						if ch, ok := tv.Type.Underlying().(*types.Chan); ok && isErrorType(ch.Elem()) {
							ff.unordered = true
						}
					}
				}
				return true
			})
			if ff.cbParam >= 0 {
				fans[key] = ff
			}
			return true
		})
	}
	// forwarders: pass an own func-typed parameter on as the callback
	for round := 0; round < 5; round++ {
		changed := false
		for key, d := range decls {
			if fans[key] != nil {
				continue
			}
			info := d.pi.info
			ps := paramObjs(info, d.fd.Type)
			ast.Inspect(d.fd.Body, func(n ast.Node) bool {
				c, ok := n.(*ast.CallExpr)
				if !ok {
					return true
				}
				f := calleeOf(info, c)
				if f == nil {
					return true
				}
				ff := fans[funcKey(f)]
				if ff == nil || ff.cbParam >= len(c.Args) {
					return true
				}
				if id, ok := c.Args[ff.cbParam].(*ast.Ident); ok {
					for i, p := range ps {
						if p != nil && info.Uses[id] == p {
							fans[key] = &fanFn{cbParam: i, itemArgs: ff.itemArgs, unordered: ff.unordered, name: d.fd.Name.Name}
							changed = true
						}
					}
				}
				return true
			})
		}
		if !changed {
			break
		}
	}
}

// ---------- what errors a callback can return ----------

const (
	sevNone = iota
	sevConst
	sevExternal
	sevValue
	sevItem
)

type finding struct {
	sev int
	why string
}

func (f *finding) add(sev int, why string) {
	if sev > f.sev {
		f.sev, f.why = sev, why
	}
}

type fnCtx struct {
	pi    *pkgInfo
	body  *ast.BlockStmt
	ftype *ast.FuncType
	lvl   map[types.Object]int // 1 value-dependent, 2 identifies the item
}

func pos(n ast.Node) string {
	p := fset.Position(n.Pos())
	f := p.Filename
	if i := strings.Index(f, "0chain.net/"); i >= 0 {
		f = f[i+len("0chain.net/"):]
	}
	return fmt.Sprintf("%s:%d", f, p.Line)
}

func rootIdent(e ast.Expr) *ast.Ident {
	for {
		switch x := e.(type) {
		case *ast.Ident:
			return x
		case *ast.SelectorExpr:
			e = x.X
		case *ast.IndexExpr:
			e = x.X
		case *ast.StarExpr:
			e = x.X
		case *ast.ParenExpr:
			e = x.X
		case *ast.UnaryExpr:
			e = x.X
		default:
			return nil
		}
	}
}

func (c *fnCtx) obj(id *ast.Ident) types.Object {
	if o := c.pi.info.Uses[id]; o != nil {
		return o
	}
	return c.pi.info.Defs[id]
}

// how much an expression tells about the item: 0 nothing, 1 non-string data loaded for it, 2 identifies it
func (c *fnCtx) level(e ast.Expr) int {
	info := c.pi.info
	max := func(a, b int) int {
		if a > b {
			return a
		}
		return b
	}
	stringly := func(l int, e ast.Expr) int {
		if l >= 1 {
			if tv, ok := info.Types[e]; ok && isStringKind(tv.Type) {
				return 2
			}
		}
		return l
	}
	switch x := e.(type) {
	case nil:
		return 0
	case *ast.Ident:
		if o := c.obj(x); o != nil {
			return c.lvl[o]
		}
		return 0
	case *ast.BasicLit, *ast.FuncLit:
		return 0
	case *ast.ParenExpr:
		return c.level(x.X)
	case *ast.StarExpr:
		return c.level(x.X)
	case *ast.UnaryExpr:
		return c.level(x.X)
	case *ast.TypeAssertExpr:
		return c.level(x.X)
	case *ast.BinaryExpr:
		return stringly(max(c.level(x.X), c.level(x.Y)), e)
	case *ast.SelectorExpr:
		if id, ok := x.X.(*ast.Ident); ok {
			if _, isPkg := info.Uses[id].(*types.PkgName); isPkg {
				return 0
			}
		}
		return stringly(c.level(x.X), e)
	case *ast.IndexExpr:
		return stringly(max(c.level(x.X), c.level(x.Index)), e)
	case *ast.SliceExpr:
		return stringly(c.level(x.X), e)
	case *ast.CompositeLit:
		l := 0
		for _, el := range x.Elts {
			if kv, ok := el.(*ast.KeyValueExpr); ok {
				el = kv.Value
			}
			l = max(l, c.level(el))
		}
		return l
	case *ast.KeyValueExpr:
		return c.level(x.Value)
	case *ast.CallExpr:
		l := 0
		for _, a := range x.Args {
			l = max(l, c.level(a))
		}
		if se, ok := x.Fun.(*ast.SelectorExpr); ok {
			rl := c.level(se.X)
			// enum.String() and the like: a name for a non-string basic value says what the value says
			if len(x.Args) == 0 && rl == 1 {
				if tv, ok := info.Types[se.X]; ok {
					if b, ok := tv.Type.Underlying().(*types.Basic); ok && b.Info()&types.IsString == 0 {
						return 1
					}
				}
			}
			l = max(l, rl)
		}
		return stringly(l, e)
	}
	return 2 // unknown expression form: fail closed
}

func (c *fnCtx) raise(id *ast.Ident, l int) bool {
	if id == nil || id.Name == "_" || l == 0 {
		return false
	}
	o := c.obj(id)
	if o == nil {
		return false
	}
	if v, ok := o.(*types.Var); !ok || isErrorType(v.Type()) {
		return false
	}
	if c.lvl[o] < l {
		c.lvl[o] = l
		return true
	}
	return false
}

// propagate the levels through assignments and out-parameters until nothing changes
func (c *fnCtx) propagate() {
	info := c.pi.info
	for round := 0; round < 6; round++ {
		changed := false
		ast.Inspect(c.body, func(n ast.Node) bool {
			switch x := n.(type) {
			case *ast.AssignStmt:
				if len(x.Rhs) == 1 && len(x.Lhs) > 1 {
					l := c.level(x.Rhs[0])
					for _, lh := range x.Lhs {
						changed = c.raise(rootIdent(lh), l) || changed
					}
				} else {
					for i, lh := range x.Lhs {
						if i < len(x.Rhs) {
							l := c.level(x.Rhs[i])
							id := rootIdent(lh)
							// a string field set from the item id makes the holder identify the item only through
							// that field: the holder itself becomes value-dependent, its string fields identify
							if _, isSel := lh.(*ast.SelectorExpr); isSel && l == 2 {
								l = 1
							}
							changed = c.raise(id, l) || changed
						}
					}
				}
			case *ast.RangeStmt:
				l := c.level(x.X)
				if id, ok := x.Key.(*ast.Ident); ok {
					changed = c.raise(id, l) || changed
				}
				if id, ok := x.Value.(*ast.Ident); ok {
					changed = c.raise(id, l) || changed
				}
			case *ast.CallExpr:
				// out-parameters: with an argument that depends on the item, every reference argument and the
				// receiver may be filled with data of the item
				l := 0
				for _, a := range x.Args {
					if la := c.level(a); la > l {
						l = la
					}
				}
				if l == 0 {
					return true
				}
				refLike := func(e ast.Expr) bool {
					if u, ok := e.(*ast.UnaryExpr); ok && u.Op == token.AND {
						return true
					}
					if tv, ok := info.Types[e]; ok && tv.Type != nil {
						switch tv.Type.Underlying().(type) {
						case *types.Pointer, *types.Map, *types.Slice, *types.Interface:
							return true
						}
					}
					return false
				}
				for _, a := range x.Args {
					if refLike(a) && c.level(a) == 0 {
						changed = c.raise(rootIdent(a), 1) || changed
					}
				}
				if se, ok := x.Fun.(*ast.SelectorExpr); ok && refLike(se.X) && c.level(se.X) == 0 {
					if id := rootIdent(se.X); id != nil {
						if _, isPkg := info.Uses[id].(*types.PkgName); !isPkg {
							changed = c.raise(id, 1) || changed
						}
					}
				}
			}
			return true
		})
		if !changed {
			return
		}
	}
}

var errorCtorPkgs = map[string]bool{"fmt": true, "errors": true, "0chain.net/core/common": true, "github.com/0chain/errors": true,
	"github.com/0chain/common/core/common": true, "github.com/pkg/errors": true}

var memo = map[string]finding{}

// errors of the function body (callback or callee) given the levels of its parameters / receiver
func analyseFn(pi *pkgInfo, ftype *ast.FuncType, recv *ast.FieldList, body *ast.BlockStmt, plv []int, rlv int, depth int, key string) finding {
	mk := fmt.Sprintf("%s|%v|%d", key, plv, rlv)
	if key != "" {
		if f, ok := memo[mk]; ok {
			return f
		}
		memo[mk] = finding{} // recursion guard
	}
	c := &fnCtx{pi: pi, body: body, ftype: ftype, lvl: map[types.Object]int{}}
	for i, p := range paramObjs(pi.info, ftype) {
		if p != nil && i < len(plv) && plv[i] > 0 {
			c.lvl[p] = plv[i]
		}
	}
	if recv != nil && rlv > 0 {
		for _, f := range recv.List {
			for _, n := range f.Names {
				if o := pi.info.Defs[n]; o != nil {
					c.lvl[o] = rlv
				}
			}
		}
	}
	c.propagate()
	var out finding
	// named error results
	var namedErr types.Object
	nres := 0
	if ftype.Results != nil {
		for _, r := range ftype.Results.List {
			k := len(r.Names)
			if k == 0 {
				k = 1
			}
			nres += k
			for _, n := range r.Names {
				if o := pi.info.Defs[n]; o != nil && isErrorType(o.Type()) {
					namedErr = o
				}
			}
		}
	}
	var walk func(n ast.Node) bool
	walk = func(n ast.Node) bool {
		switch x := n.(type) {
		case *ast.FuncLit:
			return false
		case *ast.ReturnStmt:
			if len(x.Results) == 0 {
				if namedErr != nil {
					c.errOfObj(namedErr, x, depth, &out, map[types.Object]bool{})
				}
				return true
			}
			if len(x.Results) == 1 && nres > 1 {
				// return f(...)
				c.errOfExpr(x.Results[0], depth, &out, map[types.Object]bool{})
				return true
			}
			last := x.Results[len(x.Results)-1]
			if tv, ok := pi.info.Types[last]; ok && (isErrorType(tv.Type) || tv.IsNil() || implementsError(tv.Type)) {
				c.errOfExpr(last, depth, &out, map[types.Object]bool{})
			}
		}
		return true
	}
	ast.Inspect(body, walk)
	if key != "" {
		memo[mk] = out
	}
	return out
}

func implementsError(t types.Type) bool {
	if t == nil {
		return false
	}
	it, _ := types.Universe.Lookup("error").Type().Underlying().(*types.Interface)
	return types.Implements(t, it)
}

// all assignments to an error variable
func (c *fnCtx) errOfObj(o types.Object, at ast.Node, depth int, out *finding, seen map[types.Object]bool) {
	if seen[o] {
		return
	}
	seen[o] = true
	if v, ok := o.(*types.Var); ok && v.Parent() != nil && v.Parent() == v.Pkg().Scope() {
		out.add(sevConst, "")
		return
	}
	found := false
	ast.Inspect(c.body, func(n ast.Node) bool {
		switch x := n.(type) {
		case *ast.AssignStmt:
			for i, lh := range x.Lhs {
				id, ok := lh.(*ast.Ident)
				if !ok || c.obj(id) != o {
					continue
				}
				found = true
				if len(x.Rhs) == 1 {
					c.errOfExpr(x.Rhs[0], depth, out, seen)
				} else if i < len(x.Rhs) {
					c.errOfExpr(x.Rhs[i], depth, out, seen)
				}
			}
		case *ast.ValueSpec:
			for i, nm := range x.Names {
				if c.pi.info.Defs[nm] == o && i < len(x.Values) {
					found = true
					c.errOfExpr(x.Values[i], depth, out, seen)
				}
			}
		}
		return true
	})
	if !found {
		out.add(sevItem, pos(at)+": error variable "+o.Name()+" is not assigned in the function (cannot follow)")
	}
}

func (c *fnCtx) errOfExpr(e ast.Expr, depth int, out *finding, seen map[types.Object]bool) {
	info := c.pi.info
	switch x := e.(type) {
	case *ast.ParenExpr:
		c.errOfExpr(x.X, depth, out, seen)
		return
	case *ast.Ident:
		if x.Name == "nil" {
			return
		}
		if o := c.obj(x); o != nil {
			c.errOfObj(o, x, depth, out, seen)
			return
		}
	case *ast.SelectorExpr:
		if id, ok := x.X.(*ast.Ident); ok {
			if _, isPkg := info.Uses[id].(*types.PkgName); isPkg {
				out.add(sevConst, "") // sentinel of another package
				return
			}
		}
	case *ast.CallExpr:
		f := calleeOf(info, x)
		if f == nil {
			// conversion or function value
			if tv, ok := info.Types[x.Fun]; ok && tv.IsType() && len(x.Args) == 1 {
				c.errOfExpr(x.Args[0], depth, out, seen)
				return
			}
			out.add(sevItem, pos(x)+": error from a function value (cannot follow)")
			return
		}
		if f.Pkg() != nil && errorCtorPkgs[f.Pkg().Path()] {
			// an error constructor: the text is made of the arguments
			l := 0
			for _, a := range x.Args {
				if tv, ok := info.Types[a]; ok && implementsError(tv.Type) && !tv.IsNil() {
					c.errOfExpr(a, depth, out, seen) // wrapping
					continue
				}
				// err.Error() of an error variable
				if call, ok := a.(*ast.CallExpr); ok && len(call.Args) == 0 {
					if se, ok := call.Fun.(*ast.SelectorExpr); ok && se.Sel.Name == "Error" {
						if tv, ok := info.Types[se.X]; ok && implementsError(tv.Type) {
							c.errOfExpr(se.X, depth, out, seen)
							continue
						}
					}
				}
				if la := c.level(a); la > l {
					l = la
				}
			}
			switch l {
			case 0:
				out.add(sevConst, "")
			case 1:
				out.add(sevValue, pos(x)+": "+f.Name()+" formats data loaded for the item")
			default:
				out.add(sevItem, pos(x)+": "+f.Name()+" mentions the item (its id or a string of the loaded value)")
			}
			return
		}
		d := decls[funcKey(f)]
		if d == nil {
			out.add(sevExternal, pos(x)+": "+f.Name()+" (no source in scope)")
			return
		}
		if depth >= 6 {
			out.add(sevItem, pos(x)+": call depth exceeded (cannot follow)")
			return
		}
		var plv []int
		for _, a := range x.Args {
			plv = append(plv, c.level(a))
		}
		rlv := 0
		if se, ok := x.Fun.(*ast.SelectorExpr); ok {
			if id, ok := se.X.(*ast.Ident); !ok || func() bool { _, isPkg := info.Uses[id].(*types.PkgName); return !isPkg }() {
				rlv = c.level(se.X)
			}
		}
		sub := analyseFn(d.pi, d.fd.Type, d.fd.Recv, d.fd.Body, plv, rlv, depth+1, funcKey(f))
		out.add(sub.sev, sub.why)
		return
	}
	out.add(sevItem, pos(e)+": error expression of unknown form (cannot follow)")
}

// sites for every call of a fan-in function in the reported files
func fanInSites(add func(rel, fn string, n ast.Node, kind, class, why string)) {
	indexDecls()
	findFans()
	for _, pi := range pkgInfos {
		for fi, af := range pi.files {
			if !pi.inScope[fi] {
				continue
			}
			rel := strings.TrimPrefix(pi.path, "0chain.net/") + "/" + pi.names[fi]
			for _, d := range af.Decls {
				fd, ok := d.(*ast.FuncDecl)
				if !ok || fd.Body == nil {
					continue
				}
				fn := fd.Name.Name
				if fd.Recv != nil && len(fd.Recv.List) == 1 {
					t := fd.Recv.List[0].Type
					if s, ok := t.(*ast.StarExpr); ok {
						t = s.X
					}
					fn = types.ExprString(t) + "." + fn
				}
				ownParams := map[types.Object]bool{}
				for _, p := range paramObjs(pi.info, fd.Type) {
					if p != nil {
						ownParams[p] = true
					}
				}
				ast.Inspect(fd.Body, func(n ast.Node) bool {
					c, ok := n.(*ast.CallExpr)
					if !ok {
						return true
					}
					f := calleeOf(pi.info, c)
					if f == nil {
						return true
					}
					ff := fans[funcKey(f)]
					if ff == nil || ff.cbParam >= len(c.Args) {
						return true
					}
					cb := c.Args[ff.cbParam]
					if id, ok := cb.(*ast.Ident); ok && ownParams[pi.info.Uses[id]] {
						return true // a forwarder: its callers carry the obligation
					}
					if !ff.unordered {
						add(rel, fn, c, "FanIn", "FanInOrdered", ff.name+": every error carries its index")
						return true
					}
					plvOf := func(n int) []int {
						plv := make([]int, n)
						for i := range plv {
							if ff.itemArgs[i] {
								plv[i] = 2
							}
						}
						return plv
					}
					var res finding
					switch x := cb.(type) {
					case *ast.FuncLit:
						res = analyseFn(pi, x.Type, nil, x.Body, plvOf(x.Type.Params.NumFields()), 0, 0, "")
					default:
						var cf *types.Func
						switch y := cb.(type) {
						case *ast.Ident:
							cf, _ = pi.info.Uses[y].(*types.Func)
						case *ast.SelectorExpr:
							cf, _ = pi.info.Uses[y.Sel].(*types.Func)
						}
						if cf == nil || decls[funcKey(cf)] == nil {
							res = finding{sevItem, pos(cb) + ": callback cannot be resolved to a function of the repository"}
						} else {
							d := decls[funcKey(cf)]
							res = analyseFn(d.pi, d.fd.Type, d.fd.Recv, d.fd.Body, plvOf(d.fd.Type.Params.NumFields()), 0, 0, funcKey(cf))
						}
					}
					class := "FanInConst"
					why := ff.name + ": errors of the callback are item-independent"
					switch {
					case res.sev >= sevItem:
						class, why = "FanInItem", ff.name+" surfaces the error of whichever goroutine finishes first; "+res.why
					case res.sev == sevValue:
						class, why = "FanInValue", ff.name+" surfaces the error of whichever goroutine finishes first; "+res.why
					}
					add(rel, fn, c, "FanIn", class, why)
					return true
				})
			}
		}
	}
}
