(* The binary64 product of the reward split is within 1 + value_left/2^50 of the exact share
   (C10 proportionality).  Uses Flocq (IEEE754.BinarySingleNaN, Prop.Relative) to reason about the
   SpecFloat operations of Model/F64.v; the real-number axioms of the Coq standard library come
   in through Flocq/Reals and are confined to this file. *)
From Coq Require Import ZArith Reals Lia Lra Psatz Floats.SpecFloat.
From Flocq Require Import Core BinarySingleNaN Relative.
Require Flocq.IEEE754.PrimFloat.
From ZC Require Import Model.StakePool Proof.StakePool.
Open Scope R_scope.

Local Notation Hp := Flocq.IEEE754.PrimFloat.Hprec.
Local Notation Hm := Flocq.IEEE754.PrimFloat.Hmax.
Local Notation bf := (binary_float 53 1024).
Local Instance Hp53 : Prec_gt_0 53 := eq_refl.
Local Instance Hm53 : Prec_lt_emax 53 1024 := eq_refl.
Definition f64_RN (x : R) : R := round radix2 (FLT_exp (3 - 1024 - 53) 53) ZnearestE x.

Lemma f64_RN_abs_le : forall x e, (3 - 1024 - 53 <= e)%Z -> Rabs x <= bpow radix2 e -> Rabs (f64_RN x) <= bpow radix2 e.
Proof.
  intros x e He Hx. unfold f64_RN. apply abs_round_le_generic; try typeclasses eauto; [|exact Hx].
  apply generic_format_FLT_bpow; [typeclasses eauto|exact He].
Qed.

Lemma f64_of_Z_correct : forall n, (0 <= n < 2 ^ 64)%Z ->
  exists x : bf, f64_of_Z n = B2SF x /\ B2R x = f64_RN (IZR n) /\ is_finite x = true.
Proof.
  intros n Hn. exists (binary_normalize 53 1024 Hp Hm mode_NE n 0 false).
  split; [unfold f64_of_Z; apply Flocq.IEEE754.PrimFloat.binary_normalize_equiv|].
  pose proof (binary_normalize_correct 53 1024 Hp Hm mode_NE n 0 false) as H. cbv zeta in H.
  assert (E : F2R (Float radix2 n 0) = IZR n) by (unfold F2R; simpl; ring).
  rewrite E in H. rewrite Rlt_bool_true in H.
  - destruct H as (H1 & H2 & _). split; [exact H1|exact H2].
  - apply Rle_lt_trans with (bpow radix2 64).
    + apply (f64_RN_abs_le (IZR n) 64); [lia|]. rewrite Rabs_pos_eq by (apply IZR_le; lia).
      change (bpow radix2 64) with (IZR (2 ^ 64)). apply IZR_le. lia.
    + apply bpow_lt. lia.
Qed.

Lemma f64_div_equiv : forall x y : bf, f64_div (B2SF x) (B2SF y) = B2SF (Bdiv mode_NE x y).
Proof.
  intros [sx|sx| |sx mx ex Bx] [sy|sy| |sy my ey By]; try reflexivity.
  simpl. rewrite B2SF_SF2B. unfold f64_div, f64_prec, f64_emax. cbn [SFdiv].
  set (melz := SFdiv_core_binary _ _ _ _ _ _). destruct melz as [[mz ez] lz].
  apply Flocq.IEEE754.PrimFloat.binary_round_aux_equiv.
Qed.

Lemma f64_mul_equiv : forall x y : bf, f64_mul (B2SF x) (B2SF y) = B2SF (Bmult mode_NE x y).
Proof.
  intros [sx|sx| |sx mx ex Bx] [sy|sy| |sy my ey By]; try reflexivity.
  simpl. rewrite B2SF_SF2B. apply Flocq.IEEE754.PrimFloat.binary_round_aux_equiv.
Qed.

(* ---------- real arithmetic: five roundings, each with relative error <= 2^-53 ---------- *)

Definition u53 : R := / 9007199254740992.

Lemma u53_eq : / 2 * bpow radix2 (- 53 + 1) = u53.
Proof.
  unfold u53. change (bpow radix2 (- 53 + 1)) with (/ IZR 4503599627370496). lra.
Qed.

Lemma f64_RN_rel : forall x, bpow radix2 (- 1022) <= Rabs x ->
  exists d, Rabs d <= u53 /\ f64_RN x = x * (1 + d).
Proof.
  intros x Hx. unfold f64_RN. rewrite <- u53_eq.
  apply (relative_error_N_FLT_ex radix2 (3 - 1024 - 53) 53 Hp53 (fun x => negb (Z.even x)) x). exact Hx.
Qed.

Lemma f64_prod_bounds : forall lo hi lo' hi' x y, 0 < lo -> lo <= x <= hi -> 0 < lo' -> lo' <= y <= hi' ->
  lo * lo' <= x * y <= hi * hi'.
Proof. intros. split; nra. Qed.

(* K = (1+d1)(1+d3)(1+d4)(1+d5)/(1+d2) is within 2^-50 of 1 *)
Lemma f64_five_roundings : forall d1 d2 d3 d4 d5,
  Rabs d1 <= u53 -> Rabs d2 <= u53 -> Rabs d3 <= u53 -> Rabs d4 <= u53 -> Rabs d5 <= u53 ->
  Rabs ((1 + d4) * ((1 + d1) / (1 + d2) * (1 + d3)) * (1 + d5) - 1) <= 8 * u53.
Proof.
  intros d1 d2 d3 d4 d5 H1 H2 H3 H4 H5.
  apply Rabs_le_inv in H1, H2, H3, H4, H5. unfold u53 in *.
  set (u := / 9007199254740992) in *.
  assert (Hu : u = / 9007199254740992) by reflexivity.
  assert (B : forall d, - u <= d <= u -> 1 - u <= 1 + d <= 1 + u) by (intros; lra).
  pose proof (B _ H1) as A1. pose proof (B _ H2) as A2. pose proof (B _ H3) as A3.
  pose proof (B _ H4) as A4. pose proof (B _ H5) as A5.
  assert (Hlo : 0 < 1 - u) by lra.
  pose proof (f64_prod_bounds _ _ _ _ _ _ Hlo A1 Hlo A3) as P13.
  assert (Hlo2 : 0 < (1 - u) * (1 - u)) by nra.
  pose proof (f64_prod_bounds _ _ _ _ _ _ Hlo2 P13 Hlo A4) as P134.
  assert (Hlo3 : 0 < (1 - u) * (1 - u) * (1 - u)) by nra.
  pose proof (f64_prod_bounds _ _ _ _ _ _ Hlo3 P134 Hlo A5) as N.
  set (n := (1 + d1) * (1 + d3) * (1 + d4) * (1 + d5)) in *.
  replace ((1 + d4) * ((1 + d1) / (1 + d2) * (1 + d3)) * (1 + d5)) with (n / (1 + d2))
    by (unfold n; field; lra).
  assert (Hd : 0 < 1 + d2) by lra.
  apply Rabs_le. split.
  - apply Rle_trans with ((1 - u) * (1 - u) * (1 - u) * (1 - u) / (1 + u) - 1).
    + assert ((1 - 8 * u) * (1 + u) <= (1 - u) * (1 - u) * (1 - u) * (1 - u)) by (rewrite Hu; lra).
      assert (1 - 8 * u <= (1 - u) * (1 - u) * (1 - u) * (1 - u) / (1 + u)).
      { apply Rmult_le_reg_r with (1 + u); [lra|]. unfold Rdiv. rewrite Rmult_assoc, Rinv_l by lra. lra. }
      lra.
    + apply Rplus_le_compat_r. apply Rle_trans with (n / (1 + u)).
      * unfold Rdiv. apply Rmult_le_compat_r; [left; apply Rinv_0_lt_compat; lra|lra].
      * unfold Rdiv. apply Rmult_le_compat_l; [nra|]. apply Rinv_le_contravar; lra.
  - apply Rle_trans with ((1 + u) * (1 + u) * (1 + u) * (1 + u) / (1 - u) - 1).
    + apply Rplus_le_compat_r. apply Rle_trans with (n / (1 - u)).
      * unfold Rdiv. apply Rmult_le_compat_l; [nra|]. apply Rinv_le_contravar; lra.
      * unfold Rdiv. apply Rmult_le_compat_r; [left; apply Rinv_0_lt_compat; lra|lra].
    + assert ((1 + u) * (1 + u) * (1 + u) * (1 + u) <= (1 + 8 * u) * (1 - u)) by (rewrite Hu; lra).
      assert ((1 + u) * (1 + u) * (1 + u) * (1 + u) / (1 - u) <= 1 + 8 * u).
      { apply Rmult_le_reg_r with (1 - u); [lra|]. unfold Rdiv. rewrite Rmult_assoc, Rinv_l by lra. lra. }
      lra.
Qed.

(* ---------- the real value computed by the Go expression ---------- *)

Lemma f64_RN_0 : f64_RN 0 = 0.
Proof. unfold f64_RN. apply round_0. typeclasses eauto. Qed.

Lemma f64_RN_ge_bpow : forall x e, (3 - 1024 - 53 <= e)%Z -> bpow radix2 e <= x -> bpow radix2 e <= f64_RN x.
Proof.
  intros x e He Hx. unfold f64_RN. apply round_ge_generic; try typeclasses eauto; [|exact Hx].
  apply generic_format_FLT_bpow; [typeclasses eauto|exact He].
Qed.

Lemma f64_RN_le_bpow : forall x e, (3 - 1024 - 53 <= e)%Z -> 0 <= x <= bpow radix2 e -> 0 <= f64_RN x <= bpow radix2 e.
Proof.
  intros x e He Hx. split.
  - rewrite <- f64_RN_0. unfold f64_RN. apply round_le; try typeclasses eauto. lra.
  - pose proof (f64_RN_abs_le x e He) as H. rewrite Rabs_pos_eq in H by lra.
    specialize (H (proj2 Hx)). apply Rle_trans with (2 := H). apply Rle_abs.
Qed.

Definition f64_share_R (vl b s : Z) : R :=
  f64_RN (f64_RN (IZR vl) * f64_RN (f64_RN (IZR b) / f64_RN (IZR s))).

Lemma f64_share_real : forall vl b s, (0 <= b <= s)%Z -> (0 < s < 2 ^ 64)%Z -> (0 <= vl < 2 ^ 63)%Z ->
  let q := f64_RN (f64_RN (IZR b) / f64_RN (IZR s)) in
  1 <= f64_RN (IZR s) /\ 0 <= q <= bpow radix2 64 /\ 0 <= f64_RN (IZR vl) <= bpow radix2 63 /\
  Rabs (f64_share_R vl b s - IZR vl * IZR b / IZR s) <= IZR vl * (8 * u53).
Proof.
  intros vl b s Hb Hs Hv q.
  assert (HS1 : 1 <= IZR s) by (apply IZR_le; lia).
  assert (HS64 : IZR s <= bpow radix2 64) by (change (bpow radix2 64) with (IZR (2 ^ 64)); apply IZR_le; lia).
  assert (HB0 : 0 <= IZR b) by (apply IZR_le; lia).
  assert (HBS : IZR b <= IZR s) by (apply IZR_le; lia).
  assert (HV0 : 0 <= IZR vl) by (apply IZR_le; lia).
  assert (HV63 : IZR vl <= bpow radix2 63) by (change (bpow radix2 63) with (IZR (2 ^ 63)); apply IZR_le; lia).
  assert (Hrs1 : 1 <= f64_RN (IZR s)) by (apply (f64_RN_ge_bpow (IZR s) 0); [lia|exact HS1]).
  assert (Hrb : 0 <= f64_RN (IZR b) <= bpow radix2 64) by (apply f64_RN_le_bpow; [lia|lra]).
  assert (Hrv : 0 <= f64_RN (IZR vl) <= bpow radix2 63) by (apply f64_RN_le_bpow; [lia|lra]).
  assert (Hquo : 0 <= f64_RN (IZR b) / f64_RN (IZR s) <= bpow radix2 64).
  { split; [apply Rmult_le_pos; [lra|left; apply Rinv_0_lt_compat; lra]|].
    apply Rle_trans with (f64_RN (IZR b) / 1); [|lra].
    unfold Rdiv. apply Rmult_le_compat_l; [lra|]. apply Rinv_le_contravar; lra. }
  assert (Hq : 0 <= q <= bpow radix2 64) by (apply f64_RN_le_bpow; [lia|exact Hquo]).
  split; [exact Hrs1|]. split; [exact Hq|]. split; [exact Hrv|].
  unfold f64_share_R. fold q.
  destruct (Z.eq_dec b 0) as [->|Hbn].
  { assert (q = 0) by (unfold q; rewrite f64_RN_0; unfold Rdiv; rewrite Rmult_0_l; apply f64_RN_0).
    rewrite H, Rmult_0_r, f64_RN_0. unfold Rdiv. rewrite Rmult_0_r, Rmult_0_l, Rminus_0_r, Rabs_R0.
    apply Rmult_le_pos; [lra|unfold u53; lra]. }
  destruct (Z.eq_dec vl 0) as [->|Hvn].
  { rewrite f64_RN_0, Rmult_0_l, f64_RN_0. unfold Rdiv. rewrite !Rmult_0_l, Rminus_0_r, Rabs_R0. lra. }
  assert (HB1 : 1 <= IZR b) by (apply IZR_le; lia).
  assert (HV1 : 1 <= IZR vl) by (apply IZR_le; lia).
  assert (Hsmall : forall e, (- 1022 <= e)%Z -> bpow radix2 (- 1022) <= bpow radix2 e) by (intros; apply bpow_le; assumption).
  assert (Hone : bpow radix2 (- 1022) <= 1) by (change 1 with (bpow radix2 0); apply bpow_le; lia).
  destruct (f64_RN_rel (IZR b)) as (d1 & D1 & E1); [rewrite Rabs_pos_eq; lra|].
  destruct (f64_RN_rel (IZR s)) as (d2 & D2 & E2); [rewrite Rabs_pos_eq; lra|].
  destruct (f64_RN_rel (IZR vl)) as (d4 & D4 & E4); [rewrite Rabs_pos_eq; lra|].
  assert (Hrb1 : 1 <= f64_RN (IZR b)) by (apply (f64_RN_ge_bpow (IZR b) 0); [lia|exact HB1]).
  assert (Hrv1 : 1 <= f64_RN (IZR vl)) by (apply (f64_RN_ge_bpow (IZR vl) 0); [lia|exact HV1]).
  assert (Hrs64 : f64_RN (IZR s) <= bpow radix2 64) by (apply f64_RN_le_bpow; [lia|lra]).
  assert (Hquo_lo : bpow radix2 (- 64) <= f64_RN (IZR b) / f64_RN (IZR s)).
  { change (bpow radix2 (- 64)) with (/ bpow radix2 64). apply Rle_trans with (1 / f64_RN (IZR s)).
    - unfold Rdiv. rewrite Rmult_1_l. apply Rinv_le_contravar; lra.
    - unfold Rdiv. apply Rmult_le_compat_r; [left; apply Rinv_0_lt_compat; lra|lra]. }
  destruct (f64_RN_rel (f64_RN (IZR b) / f64_RN (IZR s))) as (d3 & D3 & E3).
  { rewrite Rabs_pos_eq by lra. apply Rle_trans with (2 := Hquo_lo). apply Hsmall. lia. }
  assert (Hq_lo : bpow radix2 (- 64) <= q) by (apply f64_RN_ge_bpow; [lia|exact Hquo_lo]).
  assert (Hb64 : 0 < bpow radix2 (- 64)) by apply bpow_gt_0.
  destruct (f64_RN_rel (f64_RN (IZR vl) * q)) as (d5 & D5 & E5).
  { rewrite Rabs_pos_eq by nra. apply Rle_trans with (bpow radix2 (- 64)); [apply Hsmall; lia|]. nra. }
  rewrite E5. unfold q at 1. rewrite E3, E1, E2, E4.
  pose proof (f64_five_roundings d1 d2 d3 d4 d5 D1 D2 D3 D4 D5) as HK.
  set (K := (1 + d4) * ((1 + d1) / (1 + d2) * (1 + d3)) * (1 + d5)) in *.
  assert (Hd2 : 1 + d2 <> 0).
  { apply Rabs_le_inv in D2. unfold u53 in D2. lra. }
  replace (IZR vl * (1 + d4) * (IZR b * (1 + d1) / (IZR s * (1 + d2)) * (1 + d3)) * (1 + d5) - IZR vl * IZR b / IZR s)
    with (IZR vl * IZR b / IZR s * (K - 1)) by (unfold K; field; split; lra).
  rewrite Rabs_mult. rewrite (Rabs_pos_eq (IZR vl * IZR b / IZR s)).
  - apply Rmult_le_compat; [| apply Rabs_pos | | exact HK].
    + apply Rmult_le_pos; [nra|left; apply Rinv_0_lt_compat; lra].
    + apply Rle_trans with (IZR vl * IZR s / IZR s); [|right; field; lra].
      unfold Rdiv. apply Rmult_le_compat_r; [left; apply Rinv_0_lt_compat; lra|nra].
  - apply Rmult_le_pos; [nra|left; apply Rinv_0_lt_compat; lra].
Qed.

(* ---------- the SpecFloat computation equals that real value ---------- *)

Lemma f64_share_float : forall vl b s, (0 <= b <= s)%Z -> (0 < s < 2 ^ 64)%Z -> (0 <= vl < 2 ^ 63)%Z ->
  exists x : bf, f64_mul (f64_of_Z vl) (f64_div (f64_of_Z b) (f64_of_Z s)) = B2SF x /\
    is_finite x = true /\ B2R x = f64_share_R vl b s.
Proof.
  intros vl b s Hb Hs Hv.
  destruct (f64_share_real vl b s Hb Hs Hv) as (Hrs1 & Hq & Hrv & _).
  destruct (f64_of_Z_correct b ltac:(lia)) as (xb & Eb & Rb & Fb).
  destruct (f64_of_Z_correct s ltac:(lia)) as (xs & Es & Rs & Fs).
  destruct (f64_of_Z_correct vl ltac:(lia)) as (xv & Ev & Rv & Fv).
  rewrite Eb, Es, Ev, f64_div_equiv, f64_mul_equiv.
  assert (Hne : B2R xs <> 0) by (rewrite Rs; lra).
  pose proof (Bdiv_correct 53 1024 Hp53 Hm53 mode_NE xb xs Hne) as HD.
  change (round radix2 (fexp 53 1024) (round_mode mode_NE)) with f64_RN in HD.
  rewrite Rb, Rs in HD. rewrite Rlt_bool_true in HD.
  2:{ rewrite Rabs_pos_eq by lra. apply Rle_lt_trans with (bpow radix2 64); [lra|apply bpow_lt; lia]. }
  destruct HD as (HD1 & HD2 & _).
  pose proof (Bmult_correct 53 1024 Hp53 Hm53 mode_NE xv (Bdiv mode_NE xb xs)) as HM.
  change (round radix2 (fexp 53 1024) (round_mode mode_NE)) with f64_RN in HM.
  rewrite Rv, HD1 in HM. rewrite Rlt_bool_true in HM.
  2:{ apply Rle_lt_trans with (bpow radix2 127); [|apply bpow_lt; lia].
      apply f64_RN_abs_le; [lia|]. rewrite Rabs_pos_eq by nra.
      change (bpow radix2 127) with (bpow radix2 (63 + 64)). rewrite bpow_plus. nra. }
  destruct HM as (HM1 & HM2 & _).
  exists (Bmult mode_NE xv (Bdiv mode_NE xb xs)).
  split; [reflexivity|]. split; [rewrite HM2, HD2, Fv, Fb; reflexivity|]. exact HM1.
Qed.

(* ---------- truncation: uint64(x) = floor x for a finite 0 <= x < 2^64 ---------- *)

Lemma f64_floor_quot : forall m k a r, (0 < k)%Z -> (m = k * a + r)%Z -> (0 <= r < k)%Z ->
  IZR a <= IZR m / IZR k < IZR a + 1.
Proof.
  intros m k a r Hk -> Hr. rewrite plus_IZR, mult_IZR.
  assert (0 < IZR k) by (apply IZR_lt; lia).
  assert (0 <= IZR r < IZR k) by (split; [apply IZR_le|apply IZR_lt]; lia).
  replace ((IZR k * IZR a + IZR r) / IZR k) with (IZR a + IZR r / IZR k) by (field; lra).
  assert (0 <= IZR r / IZR k < 1).
  { split; [apply Rmult_le_pos; [lra|left; apply Rinv_0_lt_compat; lra]|].
    apply Rmult_lt_reg_r with (IZR k); [lra|]. unfold Rdiv. rewrite Rmult_assoc, Rinv_l by lra. lra. }
  lra.
Qed.

Lemma f64_to_u64_floor : forall x : bf, is_finite x = true -> 0 <= B2R x < IZR (2 ^ 64) ->
  (0 <= f64_to_u64 (B2SF x))%Z /\ IZR (f64_to_u64 (B2SF x)) <= B2R x < IZR (f64_to_u64 (B2SF x)) + 1.
Proof.
  intros [sx|sx| |sx m e Hx] Hf Hr; try discriminate.
  - simpl. vm_compute f64_to_u64. split; [lia|]. simpl. lra.
  - simpl B2SF. simpl B2R in *.
    destruct sx.
    { exfalso. assert (F2R (Float radix2 (cond_Zopp true (Z.pos m)) e) < 0) by (apply F2R_lt_0; simpl; lia). lra. }
    simpl cond_Zopp in *.
    unfold f64_to_u64, f64_trunc.
    set (a := if (0 <=? e)%Z then Z.shiftl (Z.pos m) e else Z.shiftr (Z.pos m) (- e)).
    assert (Ha : (0 <= a)%Z /\ IZR a <= F2R (Float radix2 (Z.pos m) e) < IZR a + 1).
    { unfold a, F2R. simpl Fnum. simpl Fexp. destruct (Z.leb_spec 0 e) as [He|He].
      - rewrite Z.shiftl_mul_pow2 by lia. split; [apply Z.mul_nonneg_nonneg; [lia|apply Z.pow_nonneg; lia]|].
        rewrite mult_IZR. rewrite <- (IZR_Zpower radix2 e He). change (radix_val radix2) with 2%Z. lra.
      - rewrite Z.shiftr_div_pow2 by lia.
        assert (Hk : (0 < 2 ^ (- e))%Z) by (apply Z.pow_pos_nonneg; lia).
        split; [apply Z.div_pos; lia|].
        replace (bpow radix2 e) with (/ IZR (2 ^ (- e))).
        + apply (f64_floor_quot (Z.pos m) (2 ^ (- e)) _ (Z.pos m mod 2 ^ (- e)) Hk).
          * apply Z.div_mod. lia.
          * apply Z.mod_pos_bound. lia.
        + replace e with (- (- e))%Z at 2 by lia. rewrite bpow_opp. rewrite <- (IZR_Zpower radix2 (- e)) by lia. reflexivity. }
    destruct Ha as [Ha0 Ha1].
    assert (Hlt : (a < 2 ^ 64)%Z) by (apply lt_IZR; lra).
    destruct (Z.ltb_spec a (2 ^ 64)); [|lia]. destruct (Z.ltb_spec (- 2 ^ 63) a); [|lia]. simpl andb. cbv iota.
    rewrite Z.mod_small by lia. split; [exact Ha0|exact Ha1].
Qed.

(* ---------- the bound ---------- *)

(* reward_i = Coin(float64(valueLeft) * (float64(b_i) / float64(stake))) as Go computes it is
   within 2 + floor(valueLeft / 2^50) of valueLeft * b_i / stake *)
Theorem sp_sharef_go_accurate : forall vl b s r,
  (0 <= b <= s)%Z -> (0 < s < 2 ^ 64)%Z -> (0 <= vl < 2 ^ 63)%Z ->
  sp_sharef_go vl b s = Some r ->
  (Z.abs (r * s - vl * b) <= (2 + vl / 2 ^ 50) * s)%Z.
Proof.
  intros vl b s r Hb Hs Hv H.
  assert (Hr : r = f64_to_u64 (f64_mul (f64_of_Z vl) (f64_div (f64_of_Z b) (f64_of_Z s)))).
  { unfold sp_sharef_go, f64_mult_coin, f64_float_to_coin in H.
    destruct (f64_ltb _ _); [discriminate|]. cbv zeta in H.
    destruct (f64_ltb _ _); [discriminate|]. inversion H. reflexivity. }
  destruct (f64_share_float vl b s Hb Hs Hv) as (x & Ex & Fx & Rx).
  destruct (f64_share_real vl b s Hb Hs Hv) as (Hrs1 & Hq & Hrv & Herr).
  rewrite Ex in Hr.
  assert (HS1 : 1 <= IZR s) by (apply IZR_le; lia).
  assert (HB0 : 0 <= IZR b) by (apply IZR_le; lia).
  assert (HBS : IZR b <= IZR s) by (apply IZR_le; lia).
  assert (HV0 : 0 <= IZR vl) by (apply IZR_le; lia).
  assert (HV63 : IZR vl <= IZR (2 ^ 63) - 1) by (rewrite <- minus_IZR; apply IZR_le; lia).
  set (E := IZR vl * IZR b / IZR s) in *.
  assert (HE : 0 <= E <= IZR vl).
  { unfold E. split; [apply Rmult_le_pos; [nra|left; apply Rinv_0_lt_compat; lra]|].
    apply Rle_trans with (IZR vl * IZR s / IZR s); [|right; field; lra].
    unfold Rdiv. apply Rmult_le_compat_r; [left; apply Rinv_0_lt_compat; lra|nra]. }
  assert (Hp0 : 0 <= f64_share_R vl b s).
  { unfold f64_share_R. apply (f64_RN_le_bpow _ 127); [lia|]. split; [nra|].
    change (bpow radix2 127) with (bpow radix2 (63 + 64)). rewrite bpow_plus. nra. }
  apply Rabs_le_inv in Herr.
  assert (H8u : 8 * u53 = / IZR (2 ^ 50)) by (unfold u53; simpl; lra).
  assert (Hp64 : f64_share_R vl b s < IZR (2 ^ 64)).
  { assert (IZR vl * (8 * u53) <= IZR vl) by (unfold u53; nra). simpl in *. lra. }
  destruct (f64_to_u64_floor x Fx) as [Hr0 Hfl]; [rewrite Rx; split; assumption|].
  rewrite <- Hr, Rx in Hfl. rewrite <- Hr in Hr0.
  (* valueLeft / 2^50 as a real is below its integer quotient + 1 *)
  assert (Hdiv : IZR vl / IZR (2 ^ 50) < IZR (vl / 2 ^ 50) + 1).
  { apply (f64_floor_quot vl (2 ^ 50) (vl / 2 ^ 50) (vl mod 2 ^ 50)); [lia|apply Z.div_mod; lia|apply Z.mod_pos_bound; lia]. }
  assert (Hq0 : (0 <= vl / 2 ^ 50)%Z) by (apply Z.div_pos; lia).
  rewrite H8u in Herr. fold (Rdiv (IZR vl) (IZR (2 ^ 50))) in Herr.
  assert (Hreal : Rabs (IZR r * IZR s - IZR vl * IZR b) < (2 + IZR (vl / 2 ^ 50)) * IZR s).
  { replace (IZR r * IZR s - IZR vl * IZR b) with ((IZR r - E) * IZR s) by (unfold E; field; lra).
    rewrite Rabs_mult, (Rabs_pos_eq (IZR s)) by lra.
    apply Rmult_lt_compat_r; [lra|]. apply Rabs_def1; lra. }
  apply Z.lt_le_incl. apply lt_IZR.
  rewrite abs_IZR, minus_IZR, !mult_IZR, plus_IZR. exact Hreal.
Qed.

(* ---------- proportionality with the concrete binary64 code ---------- *)

Theorem sp_share_proportional_f64 : forall sp value sp' charge incs stake,
  sp_wf sp -> (0 < value < 2 ^ 63)%Z -> (sp_total_rewards sp + value < sp_max)%Z ->
  sp_stake sp = Some stake ->
  sp_distribute_body sp_chargef_go sp_sharef_go sp value = SpOk (sp', charge, incs) -> sp_pools sp <> [] ->
  exists e, sp_cred (sp_pools sp) e (sp_pools sp') /\ sp_sum e = (value - charge)%Z /\
    forall i, (i < length (sp_pools sp))%nat ->
      (Z.abs (nth i e 0%Z * stake - (value - charge) * dp_bal (nth i (sp_pools sp) sp_dflt))
       <= ((Z.of_nat (length (sp_pools sp)) + 1) * (2 + value / 2 ^ 50) + 1) * stake)%Z.
Proof.
  intros sp value sp' charge incs stake Hwf Hv Hsum Hst H Hne.
  assert (Hq : (0 <= value / 2 ^ 50)%Z) by (apply Z.div_pos; lia).
  apply (sp_share_proportional sp_chargef_go sp_sharef_go (2 + value / 2 ^ 50) value) with (incs := incs); try assumption; try lia.
  - exact sp_sharef_go_nonneg.
  - intros vl b s r Hs Hb Hvl Hr.
    apply Z.le_trans with ((2 + vl / 2 ^ 50) * s)%Z.
    + apply sp_sharef_go_accurate; [exact Hb|unfold sp_max in Hs; lia|lia|exact Hr].
    + apply Z.mul_le_mono_nonneg_r; [lia|]. apply Zplus_le_compat_l. apply Z.div_le_mono; lia.
  - apply sp_chargef_go_nonneg.
Qed.
