(* Proofs about the order buffer model (property C46). *)
From ZC Require Import Model.OrderBuffer.
From Coq Require Import Sorting.Permutation.
Open Scope Z_scope.

Definition ob_sorted (l : list ob_item) : Prop :=
  forall i j, (i <= j)%nat -> (j < length l)%nat ->
    ob_round (nth i l ob_dflt) <= ob_round (nth j l ob_dflt).

Definition ob_upper_bound (l : list ob_item) (r : Z) (idx : nat) : Prop :=
  (idx <= length l)%nat /\
  (forall i, (i < idx)%nat -> ob_round (nth i l ob_dflt) <= r) /\
  (forall i, (idx <= i)%nat -> (i < length l)%nat -> r < ob_round (nth i l ob_dflt)).

Lemma div2_bounds a b : (a < b)%nat -> (a <= Nat.div (a + b) 2 /\ Nat.div (a + b) 2 < b)%nat.
Proof.
  intros H. split.
  - apply Nat.div_le_lower_bound; lia.
  - apply Nat.div_lt_upper_bound; lia.
Qed.

Lemma ob_search_go_spec fuel : forall buf r left right,
  ob_sorted buf ->
  (left <= right)%nat -> (right <= length buf)%nat -> (right - left < fuel)%nat ->
  (forall i, (i < left)%nat -> ob_round (nth i buf ob_dflt) <= r) ->
  (forall i, (right <= i)%nat -> (i < length buf)%nat -> r < ob_round (nth i buf ob_dflt)) ->
  exists idx, ob_search_go fuel buf r left right = Some idx /\ ob_upper_bound buf r idx.
Proof.
  induction fuel as [|f IH]; intros buf r left right Hs Hlr Hrl Hf Hlo Hhi; [lia|].
  cbn [ob_search_go].
  destruct (Nat.ltb left right) eqn:Hlt.
  - apply Nat.ltb_lt in Hlt.
    destruct (div2_bounds left right Hlt) as [Hm1 Hm2].
    set (m := Nat.div (left + right) 2) in *.
    destruct (Z.leb (ob_round (nth m buf ob_dflt)) r) eqn:Hle.
    + apply Z.leb_le in Hle.
      apply IH; try assumption; try lia.
      intros i Hi. assert (Hx := Hs i m ltac:(lia) ltac:(lia)). lia.
    + apply Z.leb_gt in Hle.
      apply IH; try assumption; try lia.
      intros i Hi Hil. assert (Hx := Hs m i ltac:(lia) ltac:(lia)). lia.
  - apply Nat.ltb_ge in Hlt. assert (left = right) by lia. subst right.
    exists left. split; [reflexivity|]. repeat split; auto.
Qed.

Lemma ob_search_spec buf r :
  ob_sorted buf -> exists idx, ob_search buf r = Some idx /\ ob_upper_bound buf r idx.
Proof.
  intros Hs. unfold ob_search.
  apply ob_search_go_spec; auto; try lia; intros; lia.
Qed.

Lemma nth_firstn_lt {A} (l : list A) n i d : (i < n)%nat -> nth i (firstn n l) d = nth i l d.
Proof.
  revert n i. induction l as [|x xs IH]; intros n i H.
  - rewrite firstn_nil. reflexivity.
  - destruct n; [lia|]. destruct i; cbn; [reflexivity|]. apply IH. lia.
Qed.

Lemma nth_skipn_add {A} n (l : list A) i d : nth i (skipn n l) d = nth (n + i) l d.
Proof.
  revert l. induction n as [|n IH]; intros l; [reflexivity|].
  destruct l as [|x xs]; cbn [skipn Nat.add nth]; [destruct i; reflexivity|]. apply IH.
Qed.

Lemma nth_insert_at idx it l i :
  (idx <= length l)%nat ->
  nth i (ob_insert_at idx it l) ob_dflt =
    if Nat.ltb i idx then nth i l ob_dflt
    else if Nat.eqb i idx then it else nth (i - 1) l ob_dflt.
Proof.
  intros Hidx. unfold ob_insert_at.
  assert (Hfl : length (firstn idx l) = idx) by (rewrite firstn_length; lia).
  destruct (Nat.ltb i idx) eqn:H1.
  - apply Nat.ltb_lt in H1. rewrite app_nth1 by lia. apply nth_firstn_lt. assumption.
  - apply Nat.ltb_ge in H1. rewrite app_nth2 by lia. rewrite Hfl.
    destruct (Nat.eqb i idx) eqn:H2.
    + apply Nat.eqb_eq in H2. subst. rewrite Nat.sub_diag. reflexivity.
    + apply Nat.eqb_neq in H2. destruct (i - idx)%nat as [|k] eqn:Hk; [lia|].
      cbn [nth]. rewrite nth_skipn_add. f_equal. lia.
Qed.

Lemma length_insert_at idx it l : length (ob_insert_at idx it l) = S (length l).
Proof.
  unfold ob_insert_at. rewrite app_length. cbn [length].
  rewrite firstn_length, skipn_length. lia.
Qed.

Lemma insert_at_sorted l r d idx :
  ob_sorted l -> ob_upper_bound l r idx -> ob_sorted (ob_insert_at idx (r, d) l).
Proof.
  intros Hs (Hidx & Hlo & Hhi) i j Hij Hj.
  rewrite length_insert_at in Hj.
  rewrite !nth_insert_at by assumption.
  destruct (Nat.ltb_spec i idx) as [Hi|Hi]; destruct (Nat.ltb_spec j idx) as [Hjj|Hjj]; try lia.
  - apply Hs; lia.
  - destruct (Nat.eqb_spec j idx) as [Hje|Hje].
    + cbn. apply Hlo; assumption.
    + assert (H1 := Hlo i Hi). assert (H2 := Hhi (j - 1)%nat ltac:(lia) ltac:(lia)). lia.
  - destruct (Nat.eqb_spec i idx) as [Hie|Hie]; destruct (Nat.eqb_spec j idx) as [Hje|Hje]; try lia.
    + cbn. assert (H2 := Hhi (j - 1)%nat ltac:(lia) ltac:(lia)). lia.
    + apply Hs; lia.
Qed.

Lemma firstn_sorted n l : ob_sorted l -> ob_sorted (firstn n l).
Proof.
  intros Hs i j Hij Hj. rewrite firstn_length in Hj.
  rewrite !nth_firstn_lt by lia. apply Hs; lia.
Qed.

Lemma tl_sorted x l : ob_sorted (x :: l) -> ob_sorted l.
Proof. intros Hs i j Hij Hj. apply (Hs (S i) (S j)); cbn; lia. Qed.

Lemma nil_sorted : ob_sorted [].
Proof. intros i j _ H. cbn in H. lia. Qed.

(* ---- the invariant and its preservation ---- *)

Definition ob_inv (b : ob_buf) : Prop :=
  ob_sorted (ob_items b) /\ (length (ob_items b) <= ob_max b)%nat.

Lemma ob_new_inv max : ob_inv (ob_new max).
Proof. split; [apply nil_sorted | cbn; lia]. Qed.

(* What Add does, stated without the search: the item is inserted after every entry
   with round <= r, then the buffer is cut to its capacity. *)
Lemma ob_add_spec b r d :
  ob_sorted (ob_items b) ->
  exists idx, ob_upper_bound (ob_items b) r idx /\
    ((exists i, idx = S i /\ ob_data (nth i (ob_items b) ob_dflt) = d /\ ob_add b r d = ObOk b) \/
     ((idx = O \/ exists i, idx = S i /\ ob_data (nth i (ob_items b) ob_dflt) <> d) /\
      ob_add b r d = ObOk {| ob_max := ob_max b;
        ob_items := firstn (ob_max b) (ob_insert_at idx (r, d) (ob_items b)) |} /\
      (length (ob_items b) < ob_max b ->
         ob_add b r d = ObOk {| ob_max := ob_max b;
           ob_items := ob_insert_at idx (r, d) (ob_items b) |})%nat)).
Proof.
  intros Hs. destruct (ob_search_spec (ob_items b) r Hs) as (idx & Hsearch & Hub).
  exists idx. split; [assumption|]. unfold ob_add. rewrite Hsearch.
  set (l := ob_insert_at idx (r, d) (ob_items b)).
  assert (Hcut : (if Nat.ltb (ob_max b) (length l) then firstn (ob_max b) l else l)
                 = firstn (ob_max b) l).
  { destruct (Nat.ltb (ob_max b) (length l)) eqn:E; [reflexivity|].
    apply Nat.ltb_ge in E. symmetry. apply firstn_all2. assumption. }
  destruct idx as [|i].
  - right. split; [left; reflexivity|]. rewrite Hcut. split; [reflexivity|].
    intros Hlt. f_equal. f_equal. apply firstn_all2. unfold l. rewrite length_insert_at. lia.
  - destruct (Z.eqb (ob_data (nth i (ob_items b) ob_dflt)) d) eqn:E.
    + apply Z.eqb_eq in E. left. exists i. auto.
    + apply Z.eqb_neq in E. right. split; [right; exists i; auto|].
      rewrite Hcut. split; [reflexivity|].
      intros Hlt. f_equal. f_equal. apply firstn_all2. unfold l. rewrite length_insert_at. lia.
Qed.

Lemma ob_add_never_out_of_fuel b r d :
  ob_sorted (ob_items b) -> ob_add b r d <> ObOutOfFuel.
Proof.
  intros Hs. destruct (ob_add_spec b r d Hs) as (idx & _ & [(i & _ & _ & H)|(_ & H & _)]);
    rewrite H; discriminate.
Qed.

Lemma ob_add_inv b r d b' : ob_inv b -> ob_add b r d = ObOk b' -> ob_inv b'.
Proof.
  intros [Hs Hl] H.
  destruct (ob_add_spec b r d Hs) as (idx & Hub & [(i & _ & _ & H')|(_ & H' & _)]);
    rewrite H' in H; inversion H; subst b'; clear H.
  - split; assumption.
  - split; cbn [ob_items ob_max].
    + apply firstn_sorted. apply insert_at_sorted; assumption.
    + rewrite firstn_length. lia.
Qed.

Lemma ob_add_max b r d b' : ob_add b r d = ObOk b' -> ob_max b' = ob_max b.
Proof.
  unfold ob_add. destruct (ob_search (ob_items b) r) as [idx|]; [|discriminate].
  match goal with |- (if ?c then _ else _) = _ -> _ => destruct c end;
    intros H; inversion H; reflexivity.
Qed.

Lemma ob_pop_inv b b' x : ob_inv b -> ob_pop b = (b', x) -> ob_inv b'.
Proof.
  intros [Hs Hl]. unfold ob_pop. destruct (ob_items b) as [|y tl] eqn:E; intros H; inversion H; subst.
  - split; rewrite ?E; assumption.
  - split; cbn [ob_items ob_max]; [eapply tl_sorted; eassumption | cbn in Hl; lia].
Qed.

Lemma ob_step_inv b o : ob_inv b -> ob_inv (fst (ob_step b o)).
Proof.
  intros Hi. destruct o as [r d| |]; cbn [ob_step].
  - destruct (ob_add b r d) as [b'|] eqn:E; cbn [fst]; [eapply ob_add_inv; eassumption | assumption].
  - assumption.
  - destruct (ob_pop b) as [b' x] eqn:E. cbn [fst]. eapply ob_pop_inv; eassumption.
Qed.

Lemma ob_step_max b o : ob_max (fst (ob_step b o)) = ob_max b.
Proof.
  destruct o as [r d| |]; cbn [ob_step].
  - destruct (ob_add b r d) as [b'|] eqn:E; cbn [fst]; [eapply ob_add_max; eassumption | reflexivity].
  - reflexivity.
  - unfold ob_pop. destruct (ob_items b); reflexivity.
Qed.

Lemma ob_run_fst b ops : fst (ob_run b ops) = fold_left (fun s o => fst (ob_step s o)) ops b.
Proof.
  revert b. induction ops as [|o tl IH]; intros b; cbn [ob_run fold_left]; [reflexivity|].
  destruct (ob_step b o) as [b1 out] eqn:E1. destruct (ob_run b1 tl) as [b2 outs] eqn:E2.
  cbn [fst]. rewrite <- IH, E2. reflexivity.
Qed.

Lemma ob_run_inv ops : forall b, ob_inv b -> ob_inv (fst (ob_run b ops)).
Proof.
  induction ops as [|o tl IH]; intros b Hi; cbn [ob_run]; [exact Hi|].
  destruct (ob_step b o) as [b1 out] eqn:E1. destruct (ob_run b1 tl) as [b2 outs] eqn:E2.
  cbn [fst]. specialize (IH b1). rewrite E2 in IH. apply IH.
  replace b1 with (fst (ob_step b o)) by (rewrite E1; reflexivity). apply ob_step_inv. exact Hi.
Qed.

(* ---- lowest round first ---- *)

Lemma sorted_head_min x l : ob_sorted (x :: l) -> forall y, In y (x :: l) -> ob_round x <= ob_round y.
Proof.
  intros Hs y Hy. destruct (In_nth _ _ ob_dflt Hy) as (j & Hj & Hn).
  rewrite <- Hn. apply (Hs O j); [lia | assumption].
Qed.

Lemma ob_first_is_min b x :
  ob_inv b -> ob_first b = Some x -> In x (ob_items b) /\ forall y, In y (ob_items b) -> ob_round x <= ob_round y.
Proof.
  intros [Hs _]. unfold ob_first. destruct (ob_items b) as [|z tl]; cbn; [discriminate|].
  intros H; inversion H; subst z. split; [left; reflexivity|]. apply sorted_head_min. assumption.
Qed.

Lemma ob_pop_is_min b b' x :
  ob_inv b -> ob_pop b = (b', Some x) ->
  ob_items b = x :: ob_items b' /\ forall y, In y (ob_items b) -> ob_round x <= ob_round y.
Proof.
  intros [Hs _]. unfold ob_pop. destruct (ob_items b) as [|z tl] eqn:E; intros H; inversion H; subst.
  split; [reflexivity|]. apply sorted_head_min. first [assumption | rewrite <- E; assumption].
Qed.

Lemma ob_first_none_iff_empty b : ob_first b = None <-> ob_items b = [].
Proof. unfold ob_first. destruct (ob_items b); cbn; split; intros H; congruence. Qed.

(* ---- drops only the highest-round entries ---- *)

Lemma insert_at_perm idx it l : Permutation (it :: l) (ob_insert_at idx it l).
Proof.
  unfold ob_insert_at. rewrite <- (firstn_skipn idx l) at 1. apply Permutation_middle.
Qed.

Lemma sorted_split_le n l :
  ob_sorted l -> forall x y, In x (firstn n l) -> In y (skipn n l) -> ob_round x <= ob_round y.
Proof.
  intros Hs x y Hx Hy.
  destruct (In_nth _ _ ob_dflt Hx) as (i & Hi & Hxi).
  destruct (In_nth _ _ ob_dflt Hy) as (j & Hj & Hyj).
  rewrite firstn_length in Hi. rewrite skipn_length in Hj.
  rewrite nth_firstn_lt in Hxi by lia.
  assert (Hyj' : nth (n + j) l ob_dflt = y).
  { rewrite <- (firstn_skipn n l) at 1. rewrite app_nth2; rewrite firstn_length; [|lia].
    replace (n + j - Nat.min n (length l))%nat with j by lia. assumption. }
  rewrite <- Hxi, <- Hyj'. apply Hs; lia.
Qed.

(* A non-ignored Add keeps a prefix of the sorted list (it :: old items) and what it
   drops (the suffix beyond the capacity) has rounds >= every kept entry. *)
Lemma ob_add_drops_largest b r d b' :
  ob_inv b -> ob_add b r d = ObOk b' -> b' <> b ->
  exists full, Permutation ((r, d) :: ob_items b) full /\ ob_sorted full /\
    ob_items b' = firstn (ob_max b) full /\
    (forall x y, In x (ob_items b') -> In y (skipn (ob_max b) full) -> ob_round x <= ob_round y) /\
    (length (skipn (ob_max b) full) <= 1)%nat.
Proof.
  intros [Hs Hl] H Hne.
  destruct (ob_add_spec b r d Hs) as (idx & Hub & [(i & _ & _ & H')|(_ & H' & _)]);
    rewrite H' in H; inversion H; subst b'; clear H; [congruence|].
  exists (ob_insert_at idx (r, d) (ob_items b)). cbn [ob_items].
  assert (Hsorted : ob_sorted (ob_insert_at idx (r, d) (ob_items b)))
    by (apply insert_at_sorted; assumption).
  repeat split.
  - apply insert_at_perm.
  - assumption.
  - intros x y. apply sorted_split_le. assumption.
  - rewrite skipn_length, length_insert_at. lia.
Qed.

(* ---- exact repeats are ignored ---- *)

(* If (r,d) is already the last entry with round <= r, Add leaves the buffer unchanged. *)
Lemma ob_add_repeat_ignored b r d i :
  ob_inv b -> (i < length (ob_items b))%nat -> nth i (ob_items b) ob_dflt = (r, d) ->
  (forall j, (i < j)%nat -> (j < length (ob_items b))%nat -> r < ob_round (nth j (ob_items b) ob_dflt)) ->
  ob_add b r d = ObOk b.
Proof.
  intros [Hs Hl] Hi Hn Hafter.
  destruct (ob_add_spec b r d Hs) as (idx & (Hidx & Hlo & Hhi) & Hcases).
  assert (idx = S i).
  { destruct (Nat.lt_trichotomy idx (S i)) as [Hlt|[Heq|Hgt]]; [|assumption|].
    - assert (Hx := Hhi i ltac:(lia) Hi). rewrite Hn in Hx. cbn in Hx. lia.
    - assert (Hx := Hlo (S i) ltac:(lia)). assert (Hy := Hafter (S i) ltac:(lia) ltac:(lia)). lia. }
  subst idx.
  destruct Hcases as [(i' & Hi' & _ & H)|([Hz|(i' & Hi' & Hd)] & _)]; [assumption|lia|].
  inversion Hi'; subst i'. rewrite Hn in Hd. cbn in Hd. congruence.
Qed.

(* ---- histories ---- *)

Definition ob_no_fuel_out (outs : list ob_out) : Prop := ~ In OutFuel outs.

Lemma ob_run_no_fuel ops : forall b, ob_inv b -> ob_no_fuel_out (snd (ob_run b ops)).
Proof.
  induction ops as [|o tl IH]; intros b Hi; cbn [ob_run]; [intros []|].
  destruct (ob_step b o) as [b1 out] eqn:E1. destruct (ob_run b1 tl) as [b2 outs] eqn:E2.
  cbn [snd]. intros [H|H].
  - subst out. destruct o as [r d| |]; cbn [ob_step] in E1.
    + destruct (ob_add b r d) eqn:E; [inversion E1|].
      exfalso. eapply ob_add_never_out_of_fuel; [apply Hi | eassumption].
    + inversion E1.
    + destruct (ob_pop b); inversion E1.
  - assert (Hi1 : ob_inv b1).
    { replace b1 with (fst (ob_step b o)) by (rewrite E1; reflexivity). apply ob_step_inv. exact Hi. }
    specialize (IH b1 Hi1). rewrite E2 in IH. apply IH. exact H.
Qed.

(* Every item handed out at any point of any history is a minimum-round entry of the
   buffer as it stood at that point. *)
Lemma ob_history_hands_out_min max ops1 o x :
  let b := fst (ob_run (ob_new max) ops1) in
  (o = OpFirst \/ o = OpPop) ->
  snd (ob_step b o) = OutItem (Some x) ->
  In x (ob_items b) /\ forall y, In y (ob_items b) -> ob_round x <= ob_round y.
Proof.
  intros b Ho Hout.
  assert (Hi : ob_inv b) by (apply ob_run_inv, ob_new_inv).
  destruct Ho; subst o; cbn [ob_step] in Hout.
  - cbn in Hout. inversion Hout as [H1]. apply ob_first_is_min; assumption.
  - destruct (ob_pop b) as [b' y] eqn:E. cbn in Hout. inversion Hout; subst y.
    destruct (ob_pop_is_min b b' x Hi E) as [Hitems Hmin]. split; [|assumption].
    rewrite Hitems. left. reflexivity.
Qed.

Lemma ob_run_max ops : forall b, ob_max (fst (ob_run b ops)) = ob_max b.
Proof.
  induction ops as [|o tl IH]; intros b; cbn [ob_run]; [reflexivity|].
  destruct (ob_step b o) as [b1 out] eqn:E1. destruct (ob_run b1 tl) as [b2 outs] eqn:E2.
  cbn [fst]. specialize (IH b1). rewrite E2 in IH. cbn [fst] in IH. rewrite IH.
  replace b1 with (fst (ob_step b o)) by (rewrite E1; reflexivity). apply ob_step_max.
Qed.

Lemma ob_reachable_sorted_and_bounded max ops :
  let b := fst (ob_run (ob_new max) ops) in
    ob_sorted (ob_items b) /\ (length (ob_items b) <= max)%nat /\
    ~ In OutFuel (snd (ob_run (ob_new max) ops)).
Proof.
  intros b.
  assert (Hi : ob_inv b) by (apply ob_run_inv, ob_new_inv).
  assert (Hm : ob_max b = max) by (unfold b; rewrite ob_run_max; reflexivity).
  destruct Hi as [H1 H2]. split; [exact H1|]. split; [lia|].
  apply ob_run_no_fuel, ob_new_inv.
Qed.
