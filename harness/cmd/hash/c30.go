package main

// C30: transaction signature binds fields. Real signed transactions (both client schemes) are
// tampered field by field and pushed through the real acceptance path
// ComputeProperties -> ValidateWrtTime (VerifyHash, VerifySignature, VerifyOutputHash).

import (
	"context"
	"encoding/hex"
	"encoding/json"
	"fmt"
	"reflect"
	"sort"
	"strings"

	"0chain.net/chaincore/block"
	"0chain.net/chaincore/client"
	"0chain.net/chaincore/transaction"
	"0chain.net/core/common"
	"0chain.net/core/config"
	"0chain.net/core/encryption"
	"github.com/spf13/viper"
	"verifharness/vh"
)

// acceptTxn is the path a submitted transaction takes.
func acceptTxn(t *transaction.Transaction, now common.Timestamp) (stage string, err error) {
	if err = t.ComputeProperties(); err != nil {
		return "props", err
	}
	if err = t.ValidateWrtTime(context.Background(), now); err != nil {
		return "validate", err
	}
	return "", nil
}

func txVerdict(stage string, err error) string {
	if err == nil {
		return "TxOk"
	}
	if stage == "props" {
		switch {
		case strings.Contains(err.Error(), "invalid smart contract data"):
			return "TxBadScData"
		case err == transaction.ErrTxnMissingPublicKey:
			return "TxNoPublicKey"
		default:
			return "TxKeyIdMismatch"
		}
	}
	if err == config.ErrSupportedChain {
		return "TxBadChain"
	}
	switch errCode(err) {
	case "invalid_request":
		return "TxBadTo"
	case "hash_mismatch":
		return "TxHashMismatch"
	case "invalid_signature":
		return "TxBadSignature"
	}
	return "TxSigError"
}

// txCase builds the model's validation input from independently computed pieces of the real
// code (never from the verdict), then runs the real acceptance path for the verdict.
func blockSuffix(b bool) string {
	if b {
		return "B"
	}
	return ""
}

// blockAccepts runs the transaction through the path a received block takes:
// Block.ComputeProperties (-> txn.ComputeProperties) and the real miner.ValidateTransactions.
func blockAccepts(t0 *transaction.Transaction, scheme string, now common.Timestamp) (accepted bool, pn string) {
	// ValidateTransactions panics inside a worker goroutine (unrecoverable) when the key of a
	// transaction does not decode; such transactions are kept off the block path
	if _, err := verifierFor(scheme, t0.PublicKey); err != nil {
		return false, ""
	}
	c, mc := getChain()
	viper.Set("server_chain.client.signature_scheme", scheme)
	setBatchSize(c, 2)
	t := t0.Clone()
	b := &block.Block{}
	b.Round = 1
	b.CreationDate = now
	b.Txns = []*transaction.Transaction{t}
	var err error
	pn = safely(func() {
		if err = b.ComputeProperties(); err != nil {
			return
		}
		err = mc.ValidateTransactions(context.Background(), b)
	})
	return pn == "" && err == nil, pn
}

func txCase(t0 *transaction.Transaction, scheme string, now common.Timestamp) (coq string, verdict string) {
	return txCaseOn(t0, scheme, now, false)
}

func txCaseOn(t0 *transaction.Transaction, scheme string, now common.Timestamp, block bool) (coq string, verdict string) {
	t := t0.Clone()
	scOK := true
	if t.TransactionType == transaction.TxnTypeSmartContract {
		scOK = json.Unmarshal([]byte(t.TransactionData), &transaction.SmartContractData{}) == nil
	}
	keyID := "None"
	after := t.ClientID
	if b, err := hex.DecodeString(t.PublicKey); err == nil {
		id := encryption.Hash(b)
		keyID = vh.Some(vh.Str(id))
		if t.ClientID == "" {
			after = id
		}
	}
	c := t.Clone()
	c.ClientID = after
	computed := c.ComputeHash()
	sig := "None"
	if ss, err := verifierFor(scheme, t.PublicKey); err == nil {
		var ok bool
		var verr error
		if p := safely(func() { ok, verr = ss.Verify(t.Signature, t.Hash) }); p == "" && verr == nil {
			sig = vh.Some(vh.Bool(ok))
		}
	}
	coq = fmt.Sprintf("(HcTx%s {| txi_sc_data_ok := %s; txi_pk_empty := %s; txi_client_empty := %s; txi_key_id := %s; txi_client := %s; txi_to := %s; txi_to_is_hash := %s; txi_chain_ok := %s; txi_hash := %s; txi_in_time := %s; txi_computed := %s; txi_sig := %s; txi_output_hash := %s; txi_output_computed := %s |} ",
		blockSuffix(block), vh.Bool(scOK), vh.Bool(t.PublicKey == ""), vh.Bool(t.ClientID == ""), keyID, vh.Str(t.ClientID), vh.Str(t.ToClientID),
		vh.Bool(encryption.IsHash(t.ToClientID)), vh.Bool(config.ValidChain(t.ChainID) == nil), vh.Str(t.Hash),
		vh.Bool(common.WithinTime(int64(now), int64(t.CreationDate), transaction.TXN_TIME_TOLERANCE)),
		vh.Str(computed), sig, vh.Str(t.OutputHash), vh.Str(t.ComputeOutputHash()))
	if block {
		ok, _ := blockAccepts(t0, scheme, now)
		return coq + vh.Bool(ok) + ")", vh.Bool(ok)
	}
	var stage string
	var err error
	run := t0.Clone()
	if p := safely(func() { stage, err = acceptTxn(run, now) }); p != "" {
		stage, err = "validate", fmt.Errorf("panic: %s", p)
	}
	verdict = txVerdict(stage, err)
	return coq + verdict + ")", verdict
}

// blockOracle: the block path may accept only what the submission path's conditions allow:
// stored hash = hash of the contents, signature valid for that hash under the key whose hash is the id.
func blockOracle(t0 *transaction.Transaction, scheme string, now common.Timestamp) (accepted bool, fail, why string) {
	t := t0.Clone()
	if t.OutputHash == "" { // ValidateTransactions insists on an output hash
		t.OutputHash = t.ComputeOutputHash()
	}
	ok, pn := blockAccepts(t, scheme, now)
	if pn != "" {
		return false, "C30:block-validation-panics", pn
	}
	if !ok {
		return false, "", ""
	}
	h := t.Clone()
	if err := h.ComputeProperties(); err != nil {
		return true, "C30:key-id-mismatch-accepted", "block path accepts a transaction that ComputeProperties rejects"
	}
	if h.ComputeHash() != t.Hash {
		return true, "C30:hash-mismatch-accepted", "block path (ComputeProperties + miner.ValidateTransactions) accepts a transaction whose Hash is not the hash of its contents"
	}
	ss, err := verifierFor(scheme, t.PublicKey)
	if err != nil {
		return true, "C30:bad-signature-accepted", "block path accepts a transaction whose public key does not decode"
	}
	if v, _, _ := verifyNoPanic(ss, t.Signature, t.Hash); !v {
		return true, "C30:bad-signature-accepted", "block path accepts a transaction whose signature does not verify"
	}
	return true, "", ""
}

func txnObject(t *transaction.Transaction) (obj, hashes string) {
	var ls []leaf
	scalarLeaves(reflect.ValueOf(t).Elem(), "", &ls)
	var kv, hs []string
	seen := map[string]bool{}
	for _, l := range ls {
		if s, ok := coqVal(l.v); ok {
			kv = append(kv, vh.Pair(vh.Str(l.path), s))
		}
		if l.v.Kind() == reflect.String && !seen[l.v.String()] {
			seen[l.v.String()] = true
			hs = append(hs, vh.Pair(vh.Str(l.v.String()), vh.Str(encryption.Hash(l.v.String()))))
		}
	}
	return vh.List(kv), vh.List(hs)
}

func txnPaths(t *transaction.Transaction) []string {
	var ls []leaf
	scalarLeaves(reflect.ValueOf(t).Elem(), "", &ls)
	var ps []string
	for _, l := range ls {
		ps = append(ps, l.path)
	}
	sort.Strings(ps)
	return ps
}

func mutateTxn(t *transaction.Transaction, path string, r *vh.Rand) bool {
	if path == "TransactionType" {
		types := []int{transaction.TxnTypeSend, transaction.TxnTypeData, transaction.TxnTypeSmartContract}
		for {
			nt := types[r.Intn(3)]
			if nt != t.TransactionType {
				t.TransactionType = nt
				return true
			}
		}
	}
	var ls []leaf
	scalarLeaves(reflect.ValueOf(t).Elem(), "", &ls)
	for _, l := range ls {
		if l.path == path {
			mutateScalar(l.v, r)
			return true
		}
	}
	return false
}

var c30Required = map[string]string{
	"CreationDate": "time", "Nonce": "nonce", "ClientID": "sender", "ToClientID": "recipient",
	"Value": "value", "TransactionData": "data", "Fee": "fee", "TransactionType": "type",
}

type c30Input struct {
	item
	Scheme string `json:"scheme"`
}

func runC30(o vh.Opts) {
	initEnv()
	rep := vh.NewReport("hash", "C30", o)
	rep.Rule = "random real signed transactions for both client schemes (send / data / smart-contract types, edge values for value, nonce, fee, " +
		"empty or derived client id, empty recipient); per transaction every exported scalar field is mutated one at a time (hash and signature kept) " +
		"and pushed through ComputeProperties+ValidateWrtTime; plus tampered hash, tampered / foreign / replayed signature, swapped public key, " +
		"swapped sender, stale time; every tampered transaction is also put in a block and run through Block.ComputeProperties + the real miner.ValidateTransactions (aggregate path for bls0chain). Non-trivial = the untampered transaction is accepted, at least one tampering is rejected and at least one is accepted; " +
		"distinct by (seed, scheme, index)"
	cf := &vh.CasesFile{Imports: []string{"Base.Corr", "Model.HashEnc", "Corr.HashEnc"}, CaseType: "hc_case", CheckFn: "hc_check"}
	addCase := func(term string, in interface{}) {
		cf.Add(term)
		rep.CaseInputs = append(rep.CaseInputs, in)
	}

	handle := func(in c30Input, toCoq bool) {
		client.SetClientSignatureScheme(in.Scheme)
		now := common.Timestamp(1700000000 + int64(in.Index)*7)
		fresh := func() (*transaction.Transaction, encryption.SignatureScheme) {
			t, k := genTxn(in.rand(), in.Scheme, int64(now))
			if in.Index%3 == 1 {
				t.TransactionOutput = "result " + t.Hash[:6]
				t.OutputHash = t.ComputeOutputHash()
			}
			if in.Index%4 == 2 { // a relay may drop the client id: ComputeProperties derives it again
				t.ClientID = ""
			}
			return t, k
		}
		t0, _ := fresh()
		rawBase := t0.ComputeHash() // HashData of the fields as they are (client id possibly blank)
		rep.Count("scheme-" + in.Scheme)
		rep.Count(fmt.Sprintf("type-%d", t0.TransactionType))
		if toCoq {
			obj, hs := txnObject(t0)
			addCase(fmt.Sprintf("(HcData true %s %s [] (Some %s))", obj, hs, vh.Str(t0.HashData())), in)
			c, _ := txCase(t0, in.Scheme, now)
			addCase(c, in)
		}
		if stage, err := acceptTxn(t0.Clone(), now); err != nil {
			rep.Violate("C30:valid-transaction-rejected", fmt.Sprintf("a correctly hashed and signed transaction is rejected at %s: %v", stage, err), in)
			return
		}
		accepted, rejected := 0, 0
		mr := in.rand().Fork()
		// 1. one mutation per field
		for _, p := range txnPaths(t0) {
			t, _ := fresh()
			if !mutateTxn(t, p, mr) {
				continue
			}
			ch := t.ComputeHash() != rawBase
			mi := in
			mi.Tamper = p
			if toCoq {
				addCase(fmt.Sprintf("(HcMut true false %s %s)", vh.Str(p), vh.Bool(ch)), mi)
				c, _ := txCase(t, in.Scheme, now)
				addCase(c, mi)
			}
			var stage string
			var err error
			if pn := safely(func() { stage, err = acceptTxn(t.Clone(), now) }); pn != "" {
				rep.Count("panic-on-" + p)
				err = fmt.Errorf("panic")
			}
			v := txVerdict(stage, err)
			rep.Count("field-" + p + "-" + v)
			if err == nil {
				accepted++
			} else {
				rejected++
			}
			if acc, bf, why := blockOracle(t, in.Scheme, now); bf != "" {
				mi.Note = "block path, field " + p
				rep.Violate(bf, why+" (tampered "+p+")", mi)
			} else {
				rep.Count(fmt.Sprintf("block-field-%s-%v", p, acc))
			}
			if toCoq {
				tb := t.Clone()
				if tb.OutputHash == "" {
					tb.OutputHash = tb.ComputeOutputHash()
				}
				cb, _ := txCaseOn(tb, in.Scheme, now, true)
				addCase(cb, mi)
			}
			if name, req := c30Required[p]; req && err == nil {
				mi.Note = "required: " + name
				rep.Violate("C30:field-not-bound:"+p, fmt.Sprintf("changing %s (%s) of a signed transaction: hash changed=%v, still accepted by ComputeProperties+ValidateWrtTime", p, name, ch), mi)
			}
		}
		// 2. malformed stream
		type tam struct {
			name string
			f    func(t *transaction.Transaction, k encryption.SignatureScheme)
			must string
		}
		otherKey := schemeKey(mr, in.Scheme)
		tams := []tam{
			{"hash-bit-resigned", func(t *transaction.Transaction, k encryption.SignatureScheme) {
				t.Hash = flipHexBit(t.Hash, mr.Intn(256))
				t.Signature, _ = k.Sign(t.Hash)
			}, "C30:hash-mismatch-accepted"},
			{"hash-last-bit-resigned", func(t *transaction.Transaction, k encryption.SignatureScheme) {
				t.Hash = flipHexBit(t.Hash, 255)
				t.Signature, _ = k.Sign(t.Hash)
			}, "C30:hash-mismatch-accepted"},
			{"hash-upper-case", func(t *transaction.Transaction, k encryption.SignatureScheme) { t.Hash = strings.ToUpper(t.Hash) }, "C30:hash-mismatch-accepted"},
			{"hash-one-letter-case", func(t *transaction.Transaction, k encryption.SignatureScheme) { t.Hash = flipOneLetterCase(t.Hash, mr) }, "C30:hash-mismatch-accepted"},
			{"sig-bit", func(t *transaction.Transaction, k encryption.SignatureScheme) {
				t.Signature = flipHexBit(t.Signature, mr.Intn(len(t.Signature)*4))
			}, "C30:bad-signature-accepted"},
			{"sig-foreign-key", func(t *transaction.Transaction, k encryption.SignatureScheme) { t.Signature, _ = otherKey.Sign(t.Hash) }, "C30:bad-signature-accepted"},
			{"sig-of-other-hash", func(t *transaction.Transaction, k encryption.SignatureScheme) { t.Signature, _ = k.Sign(randHash(mr)) }, "C30:bad-signature-accepted"},
			{"sig-empty", func(t *transaction.Transaction, k encryption.SignatureScheme) { t.Signature = "" }, "C30:bad-signature-accepted"},
			{"pk-foreign", func(t *transaction.Transaction, k encryption.SignatureScheme) { t.PublicKey = otherKey.GetPublicKey() }, "C30:key-id-mismatch-accepted"},
			{"pk-foreign-resigned", func(t *transaction.Transaction, k encryption.SignatureScheme) {
				t.PublicKey = otherKey.GetPublicKey()
				t.Signature, _ = otherKey.Sign(t.Hash)
			}, "C30:key-id-mismatch-accepted"},
			{"sender-and-key-foreign-resigned-old-hash", func(t *transaction.Transaction, k encryption.SignatureScheme) {
				t.PublicKey = otherKey.GetPublicKey()
				t.ClientID = ""
				t.Signature, _ = otherKey.Sign(t.Hash)
			}, "C30:sender-swap-accepted"},
			{"pk-empty", func(t *transaction.Transaction, k encryption.SignatureScheme) { t.PublicKey = "" }, "C30:key-id-mismatch-accepted"},
			{"hash-empty", func(t *transaction.Transaction, k encryption.SignatureScheme) { t.Hash = "" }, "C30:hash-mismatch-accepted"},
			{"time-stale", func(t *transaction.Transaction, k encryption.SignatureScheme) {
				t.CreationDate = now - common.Timestamp(transaction.TXN_TIME_TOLERANCE) - 1
				_, _ = t.Sign(k)
			}, "C30:stale-accepted"},
			{"to-self", func(t *transaction.Transaction, k encryption.SignatureScheme) {
				t.ToClientID = t.ClientID
				_, _ = t.Sign(k)
			}, "C30:self-transfer-accepted"},
			{"to-not-hash", func(t *transaction.Transaction, k encryption.SignatureScheme) {
				t.ToClientID = "zz"
				_, _ = t.Sign(k)
			}, "C30:bad-recipient-accepted"},
			{"wrong-chain", func(t *transaction.Transaction, k encryption.SignatureScheme) { t.ChainID = randHash(mr) }, "C30:wrong-chain-accepted"},
			{"output-hash-bit", func(t *transaction.Transaction, k encryption.SignatureScheme) {
				t.TransactionOutput = "o"
				t.OutputHash = flipHexBit(t.ComputeOutputHash(), mr.Intn(256))
			}, "C30:output-mismatch-accepted"},
			{"sc-data-not-json", func(t *transaction.Transaction, k encryption.SignatureScheme) {
				t.TransactionType = transaction.TxnTypeSmartContract
				t.TransactionData = "{not json"
				_, _ = t.Sign(k)
			}, "C30:bad-sc-data-accepted"},
		}
		for _, tm := range tams {
			t, k := fresh()
			tm.f(t, k)
			if strings.HasPrefix(tm.name, "hash-") && tm.name != "hash-empty" && t.Hash == t.ComputeHash() {
				continue // no letter to change: not a tampering
			}
			mi := in
			mi.Tamper = tm.name
			if toCoq {
				c, _ := txCase(t, in.Scheme, now)
				addCase(c, mi)
			}
			var stage string
			var err error
			if pn := safely(func() { stage, err = acceptTxn(t.Clone(), now) }); pn != "" {
				rep.Count("panic-on-" + tm.name)
				err = fmt.Errorf("panic")
			}
			rep.Count("tamper-" + tm.name + "-" + txVerdict(stage, err))
			if acc, bf, why := blockOracle(t, in.Scheme, now); bf != "" {
				mi.Note = "block path, " + tm.name
				rep.Violate(bf, why+" ("+tm.name+")", mi)
			} else {
				rep.Count(fmt.Sprintf("block-tamper-%s-%v", tm.name, acc))
			}
			if err == nil {
				accepted++
				rep.Violate(tm.must, "ComputeProperties+ValidateWrtTime accept a transaction with "+tm.name, mi)
			} else {
				rejected++
			}
		}
		rep.Case(fmt.Sprintf("%d/%s/%d", in.Seed, in.Scheme, in.Index), accepted > 0 && rejected > 0, in)
	}

	var rin c30Input
	if o.LoadReplay(&rin) {
		handle(rin, true)
	} else {
		n := o.N(60, 1500)
		coqTx := o.N(5, 40)
		for _, scheme := range []string{encryption.SignatureSchemeBls0chain, encryption.SignatureSchemeEd25519} {
			for i := 0; i < n; i++ {
				in := c30Input{item: item{Prop: "C30", Stream: "txns-" + scheme, Seed: o.Seed, Index: i}, Scheme: scheme}
				handle(in, i < coqTx)
			}
		}
	}
	files, err := cf.Write(o.Out, "C30")
	if err != nil {
		panic(err)
	}
	rep.CaseFiles = files
	rep.ShardSize = 400
	rep.Write(o.Out)
}
