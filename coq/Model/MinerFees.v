(* Model of smartcontract/minersc/fees.go payFees, payShardersAndDelegates and
   GlobalNode.splitByShareRatio (models.go), with view change disabled (property C22).
   Definitions only, prefix mf_.  Builds on Model/StakePool.v (DistributeRewardsRandN).
   Recorded from the real run: which miner node is rewarded when the generator's node is
   missing or killed (rand.Intn), the rewarded sharders in their shuffled order, and the
   rand.Perm draws of every node (same seed for every call of one payFees). *)
From ZC Require Export Model.StakePool.
Open Scope Z_scope.

Record mf_gn := { gn_share_ratio : f64; gn_block_reward : Z; gn_reward_rate : f64;
                  gn_nmd : Z;   (* num_miner_delegates_rewarded *)
                  gn_nsd : Z }. (* num_sharder_delegates_rewarded *)

Record mf_node := { nd_id : Z; nd_killed : bool; nd_sp : sp_pool }.
Definition mf_with_sp (n : mf_node) (sp : sp_pool) : mf_node :=
  {| nd_id := nd_id n; nd_killed := nd_killed n; nd_sp := sp |}.

Record mf_block := { bk_round : Z; bk_miner : Z; bk_fees : list Z }.

(* Float64ToCoin(float64(x) * ShareRatio) *)
Definition mf_splitf_go (ratio : f64) (x : Z) : option Z := f64_float_to_coin (f64_mul (f64_of_Z x) ratio).

(* sumFee: checked sum, then Int64() *)
Fixpoint mf_sum_fees (l : list Z) (acc : Z) : option Z :=
  match l with
  | [] => sp_int64 acc
  | f :: tl => match sp_add_coin acc f with Some a => mf_sum_fees tl a | None => None end
  end.

(* per sharder moveValue of payShardersAndDelegates: reward/n, the first reward%n get one more *)
Fixpoint mf_shares_from (q r : Z) (i : Z) (k : nat) : list Z :=
  match k with
  | O => []
  | S k' => (q + (if i <? r then 1 else 0)) :: mf_shares_from q r (i + 1) k'
  end.
Definition mf_shares (reward : Z) (k : nat) : list Z :=
  let n := Z.of_nat k in mf_shares_from (reward / n) (reward mod n) 0 k.

Section Pay.
  Variable chargef : f64 -> Z -> option Z.
  Variable sharef : Z -> Z -> Z -> option Z.
  Variable splitf : f64 -> Z -> option Z.

  (* splitByShareRatio: miner = Coin(float), sharders = MinusCoin(x, miner) *)
  Definition mf_split (ratio : f64) (x : Z) : option (Z * Z) :=
    match splitf ratio x with
    | None => None
    | Some m => if m >? x then None else Some (m, x - m)
    end.

  (* pay value_i to node_i (DistributeRewardsRandN with that node's draws), in order *)
  Fixpoint mf_pay_nodes (nodes : list mf_node) (vals : list Z) (n : Z) (draws : list (list nat)) : sp_res (list mf_node) :=
    match nodes, vals with
    | nd :: tl, v :: vtl =>
        let d := match draws with d :: _ => d | [] => [] end in
        match sp_distribute_randn chargef sharef (nd_sp nd) v n d with
        | SpOk sp' =>
            match mf_pay_nodes tl vtl n (match draws with _ :: dtl => dtl | [] => [] end) with
            | SpOk tl' => SpOk (mf_with_sp nd sp' :: tl')
            | SpErr => SpErr
            | SpPanic => SpPanic
            end
        | SpErr => SpErr
        | SpPanic => SpPanic
        end
    | _, _ => SpOk nodes
    end.

  (* payShardersAndDelegates *)
  Definition mf_pay_sharders (gn : mf_gn) (sharders : list mf_node) (reward : Z) (draws : list (list nat)) : sp_res (list mf_node) :=
    match sharders with
    | [] => SpOk []   (* if n == 0 { return nil }: no sharder to reward *)
    | _ :: _ => mf_pay_nodes sharders (mf_shares reward (length sharders)) (gn_nsd gn) draws
    end.

  (* payFees after the view-change part.  [miner] = the node that getRewardedMiner returned,
     [sharders] = rewardSharders, [live] = len(getLiveSharderIds) > 0 *)
  Definition mf_pay_fees (gn : mf_gn) (bk : mf_block) (client in_round : Z)
             (miner : option mf_node) (live : bool) (sharders : list mf_node)
             (mdraws : list nat) (sdraws : list (list nat)) : sp_res (option mf_node * list mf_node) :=
    if negb (client =? bk_miner bk) then SpErr       (* "not block generator" *)
    else if negb (in_round =? bk_round bk) then SpErr (* "bad round" *)
    else
      match mf_sum_fees (bk_fees bk) 0, f64_mult_coin (gn_block_reward gn) (gn_reward_rate gn) with
      | Some fees, Some block_reward =>
          match mf_split (gn_share_ratio gn) block_reward, mf_split (gn_share_ratio gn) fees with
          | Some (mr, sr), Some (mfe, sfe) =>
              let miner_res :=
                match miner with
                | None => SpOk None
                | Some m =>
                    match sp_distribute_randn chargef sharef (nd_sp m) mr (gn_nmd gn) mdraws with
                    | SpOk sp1 =>
                        match sp_distribute_randn chargef sharef sp1 mfe (gn_nmd gn) mdraws with
                        | SpOk sp2 => SpOk (Some (mf_with_sp m sp2))
                        | SpErr => SpErr
                        | SpPanic => SpPanic
                        end
                    | SpErr => SpErr
                    | SpPanic => SpPanic
                    end
                end in
              match miner_res with
              | SpOk miner' =>
                  if live then
                    match mf_pay_sharders gn sharders sfe sdraws with
                    | SpOk s1 =>
                        match mf_pay_sharders gn s1 sr sdraws with
                        | SpOk s2 => SpOk (miner', s2)
                        | SpErr => SpErr
                        | SpPanic => SpPanic
                        end
                    | SpErr => SpErr
                    | SpPanic => SpPanic
                    end
                  else SpOk (miner', sharders)
              | SpErr => SpErr
              | SpPanic => SpPanic
              end
          | _, _ => SpErr
          end
      | _, _ => SpErr
      end.
End Pay.

(* ---------- block level: validate the block's transactions, then execute them ---------- *)

(* function-name tokens: 1 = "payFees"; 0 = an ordinary (not built-in) transaction *)
Definition mf_fn_pay_fees : Z := 1.

Inductive mf_txn := TxPay (client in_round : Z) | TxOther (fn : Z).
Definition mf_txn_name (t : mf_txn) : Z := match t with TxPay _ _ => mf_fn_pay_fees | TxOther fn => fn end.

(* miner.ValidateTransactions: one table of the built-in function names seen so far, shared by
   all validation batches; a second built-in transaction of the same name rejects the block *)
Fixpoint mf_block_valid (builtin : Z -> bool) (seen : list Z) (txns : list Z) : bool :=
  match txns with
  | [] => true
  | f :: tl => if builtin f then (if existsb (Z.eqb f) seen then false else mf_block_valid builtin (f :: seen) tl)
               else mf_block_valid builtin seen tl
  end.

Section Block.
  Variable chargef : f64 -> Z -> option Z.
  Variable sharef : Z -> Z -> Z -> option Z.
  Variable splitf : f64 -> Z -> option Z.
  Variables (gn : mf_gn) (bk : mf_block) (live : bool) (md : list nat) (sd : list (list nat)).

  Definition mf_state : Type := (option mf_node * list mf_node)%type.

  Definition mf_pay (st : mf_state) (client in_round : Z) : sp_res mf_state :=
    mf_pay_fees chargef sharef splitf gn bk client in_round (fst st) live (snd st) md sd.

  (* executing the transactions of a block in order; a failed transaction changes nothing;
     transactions other than payFees do not touch the miner / sharder stake pools *)
  Fixpoint mf_run_block (st : mf_state) (txns : list mf_txn) : mf_state :=
    match txns with
    | [] => st
    | TxPay c r :: tl => match mf_pay st c r with SpOk st' => mf_run_block st' tl | _ => mf_run_block st tl end
    | TxOther _ :: tl => mf_run_block st tl
    end.
End Block.
