(* Lockset model for C44 (data-race freedom of shared protocol structures).
   Static side: the access table produced by harness/translators/locktable (coq/Gen/LockTable.v)
   and the boolean discipline check over it.  Dynamic side: traces of acquire / release / access
   events per goroutine with mutex exclusion, happens-before and data race.
   Definitions only; proofs are in Proof/Lockset.v. *)
From Coq Require Export List String Bool Arith Lia.
Export ListNotations.
Open Scope string_scope.

(* one row of the table: an access to a field made by an entry method with some mutexes held *)
Record lt_access := mk_access {
  la_type : string;                 (* struct that declares the field / function owning a shared local *)
  la_field : string;
  la_method : string;               (* entry method (exported API) or goroutine label *)
  la_write : bool;
  la_atomic : bool;                 (* sync/atomic access *)
  la_locks : list (string * bool);  (* mutexes of the same object held at the access; true = exclusive (Lock) *)
  la_multi : bool;                  (* two goroutines may run this entry at the same time on one object *)
  la_pos : string                   (* file:line, informational *)
}.

(* exclusion list entry (checks/C44_allow.json): le_defect = confirmed race kept as a finding,
   otherwise a justified benign entry.  kind: "method" | "field" | "pair" *)
Record lt_exclusion := mk_excl {
  le_defect : bool;
  le_kind : string;
  le_type : string;
  le_field : string;
  le_method : string;
  le_other : string
}.

(* ---------- static check ---------- *)

Definition lt_same_loc (a b : lt_access) : bool :=
  String.eqb (la_type a) (la_type b) && String.eqb (la_field a) (la_field b).

(* two table rows that can touch the same memory from two goroutines, at least one writing, not both atomic *)
Definition lt_conflict (a b : lt_access) : bool :=
  lt_same_loc a b && (la_write a || la_write b) && negb (la_atomic a && la_atomic b) &&
  (negb (String.eqb (la_method a) (la_method b)) || (la_multi a && la_multi b)).

(* a mutex held by both, by at least one of them exclusively *)
Definition lt_common (a b : lt_access) : bool :=
  existsb (fun la => existsb (fun lb => String.eqb (fst la) (fst lb) && (snd la || snd lb)) (la_locks b)) (la_locks a).

Definition lt_excl_matches (e : lt_exclusion) (a b : lt_access) : bool :=
  if String.eqb (le_kind e) "method" then
    ((String.eqb (le_type e) "*" || String.eqb (le_type e) (la_type a)) && String.eqb (le_method e) (la_method a)) ||
    ((String.eqb (le_type e) "*" || String.eqb (le_type e) (la_type b)) && String.eqb (le_method e) (la_method b))
  else if String.eqb (le_kind e) "field" then
    String.eqb (le_type e) (la_type a) && String.eqb (le_field e) (la_field a)
  else if String.eqb (le_kind e) "pair" then
    String.eqb (le_type e) (la_type a) && String.eqb (le_field e) (la_field a) &&
    ((String.eqb (le_method e) (la_method a) && String.eqb (le_other e) (la_method b)) ||
     (String.eqb (le_method e) (la_method b) && String.eqb (le_other e) (la_method a)))
  else false.

Definition lt_excluded (ex : list lt_exclusion) (a b : lt_access) : bool :=
  existsb (fun e => lt_excl_matches e a b) ex.

Definition lt_ok (ex : list lt_exclusion) (a b : lt_access) : bool :=
  negb (lt_conflict a b) || lt_common a b || lt_excluded ex a b.

Definition lt_disciplined (ex : list lt_exclusion) (tbl : list lt_access) : bool :=
  forallb (fun a => forallb (fun b => lt_ok ex a b) tbl) tbl.

(* offending pairs as signatures "Type.field:methodA/methodB" (both orders appear; the engine sorts) *)
Definition lt_sig (a b : lt_access) : string :=
  la_type a ++ "." ++ la_field a ++ ":" ++ la_method a ++ "/" ++ la_method b.

Definition lt_offenders (ex : list lt_exclusion) (tbl : list lt_access) : list string :=
  flat_map (fun a => flat_map (fun b => if lt_ok ex a b then [] else [lt_sig a b]) tbl) tbl.

Definition lt_benign (ex : list lt_exclusion) : list lt_exclusion := filter (fun e => negb (le_defect e)) ex.
Definition lt_defects (ex : list lt_exclusion) : list lt_exclusion := filter le_defect ex.

(* ---------- dynamic model ---------- *)

(* goroutine ids and object ids are numbers; a mutex is (object, name); a location is (object, type, field) *)
Inductive ls_event :=
| EAcq (t o : nat) (m : string) (excl : bool)
| ERel (t o : nat) (m : string) (excl : bool)
| EAcc (t o : nat) (a : lt_access).

Definition ls_thread (e : ls_event) : nat :=
  match e with EAcq t _ _ _ => t | ERel t _ _ _ => t | EAcc t _ _ => t end.

Definition ls_trace := list ls_event.

(* goroutine t holds mutex (o, m) in mode ex just before position i *)
Definition ls_holds (tr : ls_trace) (i t o : nat) (m : string) (ex : bool) : Prop :=
  exists k, k < i /\ nth_error tr k = Some (EAcq t o m ex) /\
            forall k', k < k' -> k' < i -> nth_error tr k' <> Some (ERel t o m ex).

(* mutex exclusion: two goroutines hold the same mutex at the same time only as readers *)
Definition ls_wf_mutex (tr : ls_trace) : Prop :=
  forall i t1 t2 o m e1 e2, t1 <> t2 -> ls_holds tr i t1 o m e1 -> ls_holds tr i t2 o m e2 ->
    e1 = false /\ e2 = false.

(* every access is made with (at least) the locks its table row lists *)
Definition ls_respects (tr : ls_trace) : Prop :=
  forall i t o a, nth_error tr i = Some (EAcc t o a) ->
    forall m ex, In (m, ex) (la_locks a) -> ls_holds tr i t o m ex.

Definition ls_from_table (tbl : list lt_access) (tr : ls_trace) : Prop :=
  forall i t o a, nth_error tr i = Some (EAcc t o a) -> In a tbl.

(* an entry that is not re-entrant (the parent of a goroutine fan-out) runs in one goroutine per object *)
Definition ls_threads_ok (tr : ls_trace) : Prop :=
  forall i j t1 t2 o a b, nth_error tr i = Some (EAcc t1 o a) -> nth_error tr j = Some (EAcc t2 o b) ->
    t1 <> t2 -> la_method a = la_method b -> la_multi a = true.

(* happens-before: program order, and release -> later acquire of the same mutex when one side is exclusive
   (sync.Mutex / sync.RWMutex in the Go memory model).  Atomic accesses add no edge (fewer edges = more races) *)
Inductive ls_hb (tr : ls_trace) : nat -> nat -> Prop :=
| hb_po : forall i j e1 e2, i < j -> nth_error tr i = Some e1 -> nth_error tr j = Some e2 ->
    ls_thread e1 = ls_thread e2 -> ls_hb tr i j
| hb_sw : forall i j t1 t2 o m e1 e2, i < j -> nth_error tr i = Some (ERel t1 o m e1) ->
    nth_error tr j = Some (EAcq t2 o m e2) -> e1 = true \/ e2 = true -> ls_hb tr i j
| hb_trans : forall i j k, ls_hb tr i j -> ls_hb tr j k -> ls_hb tr i k.

Definition ls_conflict (a b : lt_access) : Prop :=
  la_type a = la_type b /\ la_field a = la_field b /\ (la_write a = true \/ la_write b = true) /\
  ~ (la_atomic a = true /\ la_atomic b = true).

(* a data race: two conflicting accesses of different goroutines to the same object, unordered *)
Definition ls_race (tr : ls_trace) (i j : nat) (a b : lt_access) : Prop :=
  exists t1 t2 o, i < j /\ nth_error tr i = Some (EAcc t1 o a) /\ nth_error tr j = Some (EAcc t2 o b) /\
    t1 <> t2 /\ ls_conflict a b /\ ~ ls_hb tr i j.
