// racestress: two-goroutine stress programs for C44, meant to be built with `go build -race`.
// For a pair "Type.field:methodA/methodB" it creates one shared object of the analysed type and
// calls the two entry methods concurrently (arguments synthesised by reflection); for the shared
// locals of miner.ValidateTransactions it runs the real ValidateTransactions on a block whose
// batches all stop early.  Parent mode (-pairs a,b,c) re-executes itself once per pair with
// GORACE=halt_on_error=1 and prints one JSON line per pair with the detector's report.
package main

import (
	"bytes"
	"context"
	"encoding/json"
	"flag"
	"fmt"
	"os"
	"os/exec"
	"reflect"
	"regexp"
	"strings"
	"sync"
	"time"

	"0chain.net/chaincore/block"
	"0chain.net/chaincore/node"
	"0chain.net/chaincore/round"
	"0chain.net/chaincore/transaction"
	"0chain.net/core/common"
	"0chain.net/core/datastore"
	"0chain.net/smartcontract/dbs/event"
	"github.com/0chain/common/core/statecache"
	"github.com/0chain/common/core/util"
	"verifharness/conch"
	"verifharness/sc"
)

type stubChainer struct{}

func (stubChainer) GetPreviousBlock(context.Context, *block.Block) *block.Block { return nil }
func (stubChainer) GetBlockStateChange(*block.Block) error                     { return nil }
func (stubChainer) ComputeState(context.Context, *block.Block, ...chan struct{}) error {
	return nil
}
func (stubChainer) GetStateDB() util.NodeDB { return util.NewMemoryNodeDB() }
func (stubChainer) UpdateState(context.Context, *block.Block, util.MerklePatriciaTrieI, *transaction.Transaction, *statecache.BlockCache, ...chan struct{}) ([]event.Event, error) {
	return nil, nil
}
func (stubChainer) GetEventDb() *event.EventDb            { return nil }
func (stubChainer) GetStateCache() *statecache.StateCache { return statecache.NewStateCache() }

var ctr int

func newBlock() *block.Block {
	ctr++
	b := block.NewBlock("chain", 5)
	b.Hash = fmt.Sprintf("h%d", ctr%3)
	b.RoundRank = ctr % 2
	b.MinerID = "m"
	return b
}

func arg(t reflect.Type) reflect.Value {
	switch t.String() {
	case "context.Context":
		return reflect.ValueOf(context.Background())
	case "*block.Block":
		return reflect.ValueOf(newBlock())
	case "*block.VerificationTicket":
		ctr++
		return reflect.ValueOf(&block.VerificationTicket{VerifierID: fmt.Sprintf("v%d", ctr)})
	case "[]*block.VerificationTicket":
		ctr++
		return reflect.ValueOf([]*block.VerificationTicket{{VerifierID: fmt.Sprintf("v%d", ctr)}})
	case "*node.Pool":
		return reflect.ValueOf(node.NewPool(node.NodeTypeMiner))
	case "*node.Node":
		return reflect.ValueOf(&node.Node{})
	case "block.Chainer":
		return reflect.ValueOf(stubChainer{})
	case "*block.StateChange":
		return reflect.ValueOf(&block.StateChange{})
	case "util.MerklePatriciaTrieI":
		return reflect.ValueOf(util.NewMerklePatriciaTrie(util.NewMemoryNodeDB(), 1, nil, statecache.NewEmpty()))
	case "util.NodeDB":
		return reflect.ValueOf(util.NewMemoryNodeDB())
	case "time.Time":
		return reflect.ValueOf(time.Now())
	}
	v := reflect.New(t).Elem()
	switch t.Kind() {
	case reflect.Int, reflect.Int8, reflect.Int16, reflect.Int32, reflect.Int64:
		ctr++
		v.SetInt(int64(1 + ctr%5))
	case reflect.String:
		v.SetString("x")
	case reflect.Bool:
		v.SetBool(true)
	}
	return v
}

func call(obj reflect.Value, name string) {
	defer func() { _ = recover() }()
	m := obj.MethodByName(name)
	if !m.IsValid() {
		panic("no method " + name)
	}
	mt := m.Type()
	var args []reflect.Value
	for i := 0; i < mt.NumIn(); i++ {
		if mt.IsVariadic() && i == mt.NumIn()-1 {
			break
		}
		args = append(args, arg(mt.In(i)))
	}
	m.Call(args)
}

func prep() {
	sc.Init()
	round.SetupEntity(nil)
	block.SetupEntity(nil)
	block.SetupBlockSummaryEntity(nil)
	common.SetupRootContext(context.Background())
	node.Self = &node.SelfNode{Node: &node.Node{}}
}

func runStruct(typ, ma, mb string) {
	prep()
	var obj reflect.Value
	switch typ {
	case "Round", "timeoutCounter":
		r := round.NewRound(7)
		r.SetRandomSeed(11, 3)
		r.AddNotarizedBlock(newBlock()) // Clone dereferences r.Block
		r.ResetPhase(round.ShareVRF)
		obj = reflect.ValueOf(r)
	default:
		b := newBlock()
		pb := newBlock()
		b.SetPreviousBlock(pb)
		b.Txns = []*transaction.Transaction{}
		obj = reflect.ValueOf(b)
	}
	// arguments are synthesised per call inside each goroutine; the counter is per-goroutine noise only
	var wg sync.WaitGroup
	var mu sync.Mutex // protects only the argument counter, released before the call
	for _, name := range []string{ma, mb} {
		wg.Add(1)
		go func(name string) {
			defer wg.Done()
			for i := 0; i < 400; i++ {
				mu.Lock()
				m := obj.MethodByName(name)
				var args []reflect.Value
				if m.IsValid() {
					mt := m.Type()
					for k := 0; k < mt.NumIn(); k++ {
						if mt.IsVariadic() && k == mt.NumIn()-1 {
							break
						}
						args = append(args, arg(mt.In(k)))
					}
				}
				mu.Unlock()
				func() {
					defer func() { _ = recover() }()
					if m.IsValid() {
						m.Call(args)
					}
				}()
			}
		}(name)
	}
	wg.Wait()
}

// runAlias: one ticket list with spare capacity merged into two blocks, then different tickets
// merged into both concurrently (slice aliasing across objects).
func runAlias() {
	mk := func(id string) *block.VerificationTicket { return &block.VerificationTicket{VerifierID: id} }
	for it := 0; it < 300; it++ {
		shared := make([]*block.VerificationTicket, 2, 8)
		shared[0], shared[1] = mk("s1"), mk("s2")
		a, b := &block.Block{}, &block.Block{}
		a.MergeVerificationTickets(shared)
		b.MergeVerificationTickets(shared)
		var wg sync.WaitGroup
		wg.Add(2)
		go func() { defer wg.Done(); a.MergeVerificationTickets([]*block.VerificationTicket{mk("a1")}) }()
		go func() { defer wg.Done(); b.MergeVerificationTickets([]*block.VerificationTicket{mk("b1")}) }()
		wg.Wait()
	}
}

// runGetter: readers iterate the slice GetNotarizedBlocks returned while writers replace the slot
// in place (same-rank re-proposal with another hash, UpdateNotarizedBlock); n blocks in the round.
func runGetter(n int) {
	prep()
	for it := 0; it < 40; it++ {
		r := round.NewRound(7)
		var first *block.Block
		for i := 0; i < n; i++ {
			b := newBlock()
			b.Hash, b.RoundRank = fmt.Sprintf("g%d", i), i
			if i == 0 {
				first = b
			}
			r.AddNotarizedBlock(b)
		}
		var wg sync.WaitGroup
		wg.Add(2)
		go func() {
			defer wg.Done()
			for k := 0; k < 50; k++ {
				s := r.GetNotarizedBlocks()
				for j := 0; j < 20; j++ {
					for _, b := range s {
						_ = b.Hash
					}
				}
			}
		}()
		go func() {
			defer wg.Done()
			for k := 0; k < 50; k++ {
				nb := newBlock()
				nb.Hash, nb.RoundRank = fmt.Sprintf("w%d", k), 0
				r.AddNotarizedBlock(nb)
				if first != nil {
					ub := newBlock()
					ub.Hash, ub.RoundRank = nb.Hash, 0
					r.UpdateNotarizedBlock(ub)
				}
			}
		}()
		wg.Wait()
	}
}

func runValidateTransactions() {
	conch.Setup()
	defer conch.Cleanup()
	now := common.Now()
	m := conch.NewMiner(conch.Cfg{MaxBlockCost: 1000, TransferCost: 1, FutureNonce: 5, MaxByteSize: 1 << 20, BatchSize: 2}, nil, 10, now)
	defer m.Close()
	for it := 0; it < 20; it++ {
		b := m.NewBlock(10)
		for i := 0; i < 40; i++ {
			t := transaction.Provider().(*transaction.Transaction)
			t.Hash = fmt.Sprintf("t%d", i)
			b.Txns = append(b.Txns, t)
		}
		m.C.SetCurrentRound(15) // every batch sees a round mismatch: cancel and roundMismatch are set by all workers
		_ = m.MC.ValidateTransactions(context.Background(), b)
		m.C.SetCurrentRound(10) // batches stop at the missing output hash: cancel is set by all workers
		_ = m.MC.ValidateTransactions(context.Background(), b)
	}
	time.Sleep(50 * time.Millisecond)
}

var reFrame = regexp.MustCompile(`([A-Za-z0-9_./-]+\.go:\d+)`)

type res struct {
	Pair   string   `json:"pair"`
	Race   bool     `json:"race"`
	Frames []string `json:"frames"`
	Report string   `json:"report"`
}

func main() {
	pairs := flag.String("pairs", "", "comma separated Type.field:methodA/methodB")
	one := flag.String("one", "", "internal: run one pair in this process")
	flag.Parse()
	if *one != "" {
		tf, ms, _ := strings.Cut(*one, ":")
		typ, _, _ := strings.Cut(tf, ".")
		ma, mb, _ := strings.Cut(ms, "/")
		if strings.HasPrefix(ma, "getter") {
			runGetter(int(ma[len(ma)-1] - '0'))
		} else if ma == "alias" {
			runAlias()
		} else if typ == "ValidateTransactions" {
			runValidateTransactions()
		} else {
			runStruct(typ, ma, mb)
		}
		return
	}
	_ = datastore.Key("")
	for _, p := range strings.Split(*pairs, ",") {
		if p == "" {
			continue
		}
		cmd := exec.Command(os.Args[0], "-one", p)
		cmd.Env = append(os.Environ(), "GORACE=halt_on_error=0 exitcode=0")
		var out bytes.Buffer
		cmd.Stderr = &out
		cmd.Stdout = &out
		dir, _ := os.MkdirTemp("/var/tmp/vs", "conc-race-")
		cmd.Dir = dir
		_ = cmd.Run()
		_ = os.RemoveAll(dir)
		r := res{Pair: p}
		txt := out.String()
		seen := map[string]bool{}
		for _, rep := range strings.Split(txt, "WARNING: DATA RACE")[1:] {
			if j := strings.Index(rep, "=================="); j > 0 {
				rep = rep[:j]
			}
			// innermost repository line and repository function names of the two access stacks
			var two, fns []string
			for _, blk := range strings.Split(rep, "\n\n") {
				if len(two) == 2 || strings.HasPrefix(strings.TrimSpace(blk), "Goroutine") {
					break
				}
				first := ""
				var names []string
				lines := strings.Split(blk, "\n")
				for li := 0; li+1 < len(lines); li++ {
					fn := strings.TrimSpace(lines[li])
					loc := reFrame.FindString(lines[li+1])
					if !strings.HasPrefix(fn, "0chain.net/") || loc == "" || !strings.Contains(loc, "0chain.net/") {
						continue
					}
					if first == "" {
						first = loc[strings.LastIndex(loc, "/")+1:]
					}
					fn = strings.TrimSuffix(fn, "()")
					names = append(names, fn[strings.LastIndex(fn, ".")+1:])
				}
				if first != "" {
					two = append(two, first)
					fns = append(fns, strings.Join(names, ";"))
				}
			}
			if len(two) == 2 {
				k := two[0] + "|" + two[1]
				if !seen[k] {
					seen[k] = true
					r.Frames = append(r.Frames, k+"|"+fns[0]+"|"+fns[1])
					if len(r.Report) < 6000 {
						if len(rep) > 1500 {
							rep = rep[:1500]
						}
						r.Report += "WARNING: DATA RACE" + rep + "\n"
					}
				}
			}
			r.Race = true
		}
		b, _ := json.Marshal(r)
		fmt.Println(string(b))
	}
}
