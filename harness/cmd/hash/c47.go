package main

// C47: client signatures verify exactly for the signing key; client id = hash of public key.
// Both real schemes (core/encryption bls0chain.go, ed25519.go) and chaincore/client.

import (
	"bytes"
	"context"
	"encoding/hex"
	"encoding/json"
	"fmt"
	"strings"

	"0chain.net/chaincore/client"
	"0chain.net/chaincore/transaction"
	"0chain.net/core/encryption"
	"verifharness/vh"
)

type c47Input struct {
	item
	Scheme string `json:"scheme"`
}

// verifyNoPanic: (accepted, errored, panicked)
func verifyNoPanic(ss encryption.SignatureScheme, sig, hash string) (ok, errd bool, pn string) {
	pn = safely(func() {
		var err error
		ok, err = ss.Verify(sig, hash)
		errd = err != nil
		if err != nil {
			ok = false
		}
	})
	if pn != "" {
		ok = false
	}
	return
}

func runC47(o vh.Opts) {
	initEnv()
	rep := vh.NewReport("hash", "C47", o)
	rep.Rule = "random key pairs and hashes for both client schemes; genuine signatures (real Sign), foreign key, foreign hash, algebraic " +
		"perturbations of BLS signatures and keys (added points, negation, doubling, key sums), single-bit flips of signature / public key / hash, " +
		"malformed encodings; client id derivation and Client.Validate on genuine and tampered ids. Non-trivial = the genuine signature verified and " +
		"at least 3 different tamperings were rejected; distinct by (seed, scheme, index)"
	cf := &vh.CasesFile{Imports: []string{"Base.Corr", "Model.SigAlg", "Corr.SigAlg"}, CaseType: "sc_case", CheckFn: "sc_check"}
	addCase := func(term string, in interface{}) {
		cf.Add(term)
		rep.CaseInputs = append(rep.CaseInputs, in)
	}

	// checkID: clients built through every construction path, for one key given in one accepted
	// spelling; after each path the stored key must be the hashed key, stably.
	checkID := func(in c47Input, scheme, pk string, sign func(hash string) string, toCoqID bool) {
		ctx := context.Background()
		fail := func(note string) {
			mi := in
			mi.Note = note
			rep.Violate("C47:client-id-not-key-hash", note, mi)
		}
		consistent := func(c *client.Client) string {
			dec, err := hex.DecodeString(c.PublicKey)
			if err != nil {
				return "stored PublicKey is not hex"
			}
			want := encryption.Hash(dec)
			id, err := client.GetIDFromPublicKey(c.PublicKey)
			switch {
			case c.ID != want:
				return "ID != Hash(decode(stored PublicKey))"
			case err != nil || id != c.ID:
				return "GetIDFromPublicKey(stored PublicKey) != ID"
			case encryption.VerifyPublicKeyClientID(c.PublicKey, c.ID) != nil:
				return "VerifyPublicKeyClientID(stored PublicKey, ID) fails"
			case !bytes.Equal(c.PublicKeyBytes, dec):
				return "PublicKeyBytes != decode(stored PublicKey)"
			case c.Validate(ctx) != nil:
				return "Client.Validate rejects the client"
			}
			return ""
		}
		newC := func() *client.Client { return client.NewClient(client.SignatureScheme(scheme)) }
		type path struct {
			name string
			mk   func() (*client.Client, error)
		}
		base := func() (*client.Client, error) { c := newC(); return c, c.SetPublicKey(pk) }
		paths := []path{
			{"NewClient+SetPublicKey", base},
			{"Provider+SetPublicKey", func() (*client.Client, error) {
				c := client.Provider().(*client.Client)
				c.SetSignatureSchemeType(scheme)
				return c, c.SetPublicKey(pk)
			}},
			{"PublicKey+ComputeProperties", func() (*client.Client, error) {
				c := newC()
				c.PublicKey = pk
				return c, c.ComputeProperties()
			}},
			{"json-decode+ComputeProperties", func() (*client.Client, error) {
				c := newC()
				if err := json.Unmarshal([]byte(`{"id":"`+randHash(in.rand())+`","public_key":"`+pk+`"}`), c); err != nil {
					return c, err
				}
				return c, c.ComputeProperties()
			}},
			{"json-round-trip", func() (*client.Client, error) {
				src, err := base()
				if err != nil {
					return src, err
				}
				buf, err := json.Marshal(src)
				if err != nil {
					return src, err
				}
				c := newC()
				if err := json.Unmarshal(buf, c); err != nil {
					return c, err
				}
				return c, c.ComputeProperties()
			}},
			{"msgpack-round-trip", func() (*client.Client, error) {
				src, err := base()
				if err != nil {
					return src, err
				}
				buf, err := src.MarshalMsg(nil)
				if err != nil {
					return src, err
				}
				c := newC()
				if _, err := c.UnmarshalMsg(buf); err != nil {
					return c, err
				}
				return c, c.ComputeProperties()
			}},
			{"Clone", func() (*client.Client, error) {
				src, err := base()
				return src.Clone(), err
			}},
			{"Copy", func() (*client.Client, error) {
				src, err := base()
				c := newC()
				c.Copy(src)
				return c, err
			}},
			{"SetPublicKey-twice", func() (*client.Client, error) {
				c := newC()
				_ = c.SetPublicKey(schemeKey(in.rand().Fork(), scheme).GetPublicKey())
				return c, c.SetPublicKey(pk)
			}},
			{"SetPublicKey-then-bad-key-rollback", func() (*client.Client, error) {
				c, err := base()
				if c.SetPublicKey("zz-not-hex") == nil {
					return c, fmt.Errorf("non-hex key accepted")
				}
				return c, err
			}},
			{"SetSignatureScheme", func() (*client.Client, error) {
				ss, err := verifierFor(scheme, pk)
				if err != nil {
					return nil, err
				}
				c := newC()
				return c, c.SetSignatureScheme(ss)
			}},
		}
		h := randHash(in.rand())
		sig := sign(h)
		for _, p := range paths {
			rep.Count("client-id-path-" + p.name)
			var c *client.Client
			var err error
			if pn := safely(func() { c, err = p.mk() }); pn != "" || err != nil || c == nil {
				fail(fmt.Sprintf("%s: construction failed for a valid %s key (%d hex chars): %v %s", p.name, scheme, len(pk), err, pn))
				continue
			}
			if why := consistent(c); why != "" {
				fail(fmt.Sprintf("%s (%s key, %d hex chars): %s", p.name, scheme, len(pk), why))
				continue
			}
			id0, pk0 := c.ID, c.PublicKey
			// verification through the client (decodes the key lazily when needed) must work and keep the id
			if ok, err := c.Verify(sig, h); err != nil || !ok {
				fail(fmt.Sprintf("%s (%s key, %d hex chars): Client.Verify rejects the genuine signature: %v", p.name, scheme, len(pk), err))
				continue
			}
			if why := consistent(c); why != "" || c.ID != id0 {
				fail(fmt.Sprintf("%s (%s key, %d hex chars): after Client.Verify: %s (id changed: %v)", p.name, scheme, len(pk), why, c.ID != id0))
				continue
			}
			// stability under Clone and encode/decode
			cl := c.Clone()
			var viaJSON, viaMsgp client.Client
			viaJSON.SetSignatureSchemeType(scheme)
			viaMsgp.SetSignatureSchemeType(scheme)
			jb, _ := json.Marshal(c)
			mb, _ := c.MarshalMsg(nil)
			e1 := json.Unmarshal(jb, &viaJSON)
			if e1 == nil {
				e1 = viaJSON.ComputeProperties()
			}
			_, e2 := viaMsgp.UnmarshalMsg(mb)
			if e2 == nil {
				e2 = viaMsgp.ComputeProperties()
			}
			switch {
			case cl.ID != c.ID || cl.PublicKey != c.PublicKey || consistent(cl) != "":
				fail(fmt.Sprintf("%s (%s key, %d hex chars): Clone() gives id %s key %d chars, original id %s", p.name, scheme, len(pk), cl.ID, len(cl.PublicKey), c.ID))
			case e1 != nil || viaJSON.ID != c.ID || viaJSON.PublicKey != c.PublicKey:
				fail(fmt.Sprintf("%s (%s key, %d hex chars): JSON round trip + ComputeProperties changes the id or key (%v)", p.name, scheme, len(pk), e1))
			case e2 != nil || viaMsgp.ID != c.ID || viaMsgp.PublicKey != c.PublicKey:
				fail(fmt.Sprintf("%s (%s key, %d hex chars): msgpack round trip + ComputeProperties changes the id or key (%v)", p.name, scheme, len(pk), e2))
			case c.PublicKey != pk0:
				fail(fmt.Sprintf("%s: stored key changed", p.name))
			}
			// a tampered id / key must be rejected
			c2 := c.Clone()
			c2.ID = flipHexBit(c.ID, in.rand().Intn(256))
			if c2.Validate(ctx) == nil {
				fail(p.name + ": Client.Validate accepts an id that is not the key hash")
			} else if encryption.VerifyPublicKeyClientID(c.PublicKey, c2.ID) == nil {
				fail(p.name + ": VerifyPublicKeyClientID accepts an id that is not the key hash")
			} else if encryption.VerifyPublicKeyClientID(flipHexBit(c.PublicKey, in.rand().Intn(len(c.PublicKey)*4)), c.ID) == nil {
				fail(p.name + ": VerifyPublicKeyClientID accepts another key for the id")
			}
		}
		// every acceptor of a (public key, client id) pair, with the id in several spellings:
		// accepted => the id is exactly (string equality) the canonical hash of the stored key
		if cb, err := base(); err == nil {
			canon := encryption.Hash(cb.PublicKeyBytes)
			other := encryption.Hash(mustHex(schemeKey(in.rand().Fork(), scheme).GetPublicKey()))
			mixed := flipOneLetterCase(canon, in.rand())
			spell := []struct{ name, id string }{
				{"canonical", canon}, {"upper-case", strings.ToUpper(canon)}, {"mixed-case", mixed},
				{"0x-prefix", "0x" + canon}, {"leading-space", " " + canon}, {"trailing-space", canon + " "},
				{"trailing-newline", canon + "\n"}, {"truncated", canon[:len(canon)-2]}, {"extended", canon + "00"},
				{"other-key-hash", other}, {"upper-other-key-hash", strings.ToUpper(other)},
			}
			accs := []struct {
				name string
				f    func(id string) bool
			}{
				{"VerifyPublicKeyClientID", func(id string) bool { return encryption.VerifyPublicKeyClientID(cb.PublicKey, id) == nil }},
				{"Transaction.ComputeClientID", func(id string) bool {
					t := &transaction.Transaction{}
					t.PublicKey, t.ClientID = cb.PublicKey, id
					return t.ComputeClientID() == nil
				}},
				{"Transaction.ComputeProperties", func(id string) bool {
					t := &transaction.Transaction{}
					t.PublicKey, t.ClientID = cb.PublicKey, id
					return t.ComputeProperties() == nil
				}},
				{"Client.Validate", func(id string) bool {
					c := cb.Clone()
					c.ID = id
					return c.Validate(ctx) == nil
				}},
			}
			for _, a := range accs {
				for _, sp := range spell {
					if sp.id == canon && sp.name != "canonical" {
						continue // the hash had no letter: not another spelling
					}
					var ok bool
					if pn := safely(func() { ok = a.f(sp.id) }); pn != "" {
						ok = false
					}
					rep.Count(fmt.Sprintf("id-%s-%s-%v", a.name, sp.name, ok))
					mi := in
					mi.Tamper = a.name + "/" + sp.name
					if toCoqID {
						addCase(fmt.Sprintf("(ScId %s %s %s)", vh.Str(sp.id), vh.Str(canon), vh.Bool(ok)), mi)
					}
					switch {
					case ok && sp.id != canon:
						mi.Note = fmt.Sprintf("%s accepts client id %q for a %s key whose hash is %q", a.name, sp.id, scheme, canon)
						rep.Violate("C47:noncanonical-client-id-accepted", mi.Note, mi)
					case !ok && sp.id == canon:
						rep.Violate("C47:client-id-not-key-hash", a.name+" rejects the canonical hash of the key as client id", mi)
					}
				}
			}
		}
		c3 := newC()
		if c3.Validate(ctx) == nil {
			fail("Client.Validate accepts an empty id")
		}
		rep.Count(fmt.Sprintf("client-id-spelling-%s-%d-hex-chars", scheme, len(pk)))
	}

	handleBLS := func(in c47Input, toCoq bool) {
		r := in.rand()
		w := newWorld(r, 3)
		m, m2, p := r.Intn(4), 4+r.Intn(3), 8+r.Intn(4)
		c := int64(r.Range(1, 1000))
		type chk struct {
			name   string
			key    sscalar
			msg    int
			sig    spoint
			expect bool
			kind   string
		}
		chks := []chk{
			{"genuine", key(0), m, genuine(0, m), true, "C47:valid-signature-rejected"},
			{"genuine-key1", key(1), m2, genuine(1, m2), true, "C47:valid-signature-rejected"},
			{"other-key", key(1), m, genuine(0, m), false, "C47:other-key-accepted"},
			{"other-key-2", key(2), m, genuine(0, m), false, "C47:other-key-accepted"},
			{"other-hash", key(0), m2, genuine(0, m), false, "C47:other-hash-accepted"},
			{"other-hash-2", key(0), p, genuine(0, m), false, "C47:other-hash-accepted"},
			{"plus-foreign-point", key(0), m, append(genuine(0, m), pterm{sscalar{{c, -1}}, p}), false, "C47:tampered-signature-accepted"},
			{"plus-multiple-of-hash-point", key(0), m, append(genuine(0, m), pterm{sscalar{{c, -1}}, m}), false, "C47:tampered-signature-accepted"},
			{"negated", key(0), m, spoint{{sscalar{{-1, 0}}, m}}, false, "C47:tampered-signature-accepted"},
			{"doubled", key(0), m, spoint{{sscalar{{2, 0}}, m}}, false, "C47:tampered-signature-accepted"},
			{"key-plus-one", sscalar{{1, 0}, {1, -1}}, m, genuine(0, m), false, "C47:other-key-accepted"},
			{"key-doubled-sig-doubled", sscalar{{2, 0}}, m, spoint{{sscalar{{2, 0}}, m}}, true, "C47:valid-signature-rejected"},
			{"key-sum-sig-sum", sscalar{{1, 0}, {1, 1}}, m, spoint{{key(0), m}, {key(1), m}}, true, "C47:valid-signature-rejected"},
			{"key-sum-one-sig", sscalar{{1, 0}, {1, 1}}, m, genuine(0, m), false, "C47:other-key-accepted"},
		}
		rejected := 0
		genuineOK := false
		// the real Sign must produce sk.H(m) (the shape the model assumes)
		if s, err := w.signer(0).Sign(w.msg(m)); err != nil || s != w.sigHex(genuine(0, m)) {
			rep.Violate("C47:model-shape:bls-sign", "BLS0ChainScheme.Sign is not secret key times hash-to-curve of the raw hash", in)
		}
		for _, ck := range chks {
			ss, err := w.verifier(ck.key)
			if err != nil {
				panic(err)
			}
			ok, _, pn := verifyNoPanic(ss, w.sigHex(ck.sig), w.msg(ck.msg))
			if pn != "" {
				rep.Count("panic-bls-" + ck.name)
			}
			rep.Count(fmt.Sprintf("bls-%s-%v", ck.name, ok))
			if ck.name == "genuine" && ok {
				genuineOK = true
			}
			if !ok {
				rejected++
			}
			mi := in
			mi.Tamper = ck.name
			if ok != ck.expect {
				rep.Violate(ck.kind, fmt.Sprintf("bls0chain %s: Verify=%v", ck.name, ok), mi)
			}
			if toCoq {
				n := ck.sig.maxIdx()
				if ck.msg > n {
					n = ck.msg
				}
				addCase(fmt.Sprintf("(ScBls %s %s %s %s %s)", vh.Nat(n+1), ck.key.coq(), vh.Nat(ck.msg), ck.sig.coq(), vh.Bool(ok)), mi)
			}
		}
		// single-bit tampering and malformed encodings
		ss, _ := w.verifier(key(0))
		sig, hash, pub := w.sigHex(genuine(0, m)), w.msg(m), w.pubHex(key(0))
		for k := 0; k < o.N(8, 40); k++ {
			mi := in
			var ok bool
			var pn string
			switch k % 3 {
			case 0:
				mi.Tamper = "sig-bit"
				ok, _, pn = verifyNoPanic(ss, flipHexBit(sig, r.Intn(len(sig)*4)), hash)
			case 1:
				mi.Tamper = "hash-bit"
				ok, _, pn = verifyNoPanic(ss, sig, flipHexBit(hash, r.Intn(256)))
			default:
				mi.Tamper = "key-bit"
				s2 := encryption.NewBLS0ChainScheme()
				if err := s2.SetPublicKey(flipHexBit(pub, r.Intn(len(pub)*4))); err != nil {
					rep.Count("bls-key-bit-undecodable")
					rejected++
					continue
				}
				ok, _, pn = verifyNoPanic(s2, sig, hash)
			}
			if pn != "" {
				rep.Count("panic-bls-" + mi.Tamper)
			}
			rep.Count(fmt.Sprintf("bls-%s-%v", mi.Tamper, ok))
			if ok {
				rep.Violate("C47:tampered-"+mi.Tamper+"-accepted", "bls0chain: a single flipped bit ("+mi.Tamper+") still verifies", mi)
			} else {
				rejected++
			}
		}
		for _, bad := range []string{"", "zz", "00", sig[:len(sig)-2], sig + "00", "(1,2)", "(zz,zz)", "(", "()"} {
			ok, _, pn := verifyNoPanic(ss, bad, hash)
			if pn != "" {
				rep.Count("bls-malformed-signature-panics")
			}
			if ok {
				mi := in
				mi.Tamper = "malformed:" + bad
				rep.Violate("C47:malformed-signature-accepted", "bls0chain accepts a malformed signature "+bad, mi)
			}
		}
		signer0 := w.signer(0)
		signBLS := func(h string) string { sg, _ := signer0.Sign(h); return sg }
		checkID(in, encryption.SignatureSchemeBls0chain, pub, signBLS, toCoq && in.Index < 2)
		// the same key in the long MIRACL wallet spelling (converted by MiraclToHerumiPK)
		mpk := miraclPK(pub)
		if len(mpk) != 258 || encryption.MiraclToHerumiPK(mpk) != pub {
			rep.Violate("C47:model-shape:miracl-key", "the MIRACL spelling built by the engine does not convert back to the herumi key", in)
		} else {
			checkID(in, encryption.SignatureSchemeBls0chain, mpk, signBLS, toCoq && in.Index < 2)
		}
		rep.Case(fmt.Sprintf("%d/bls/%d", in.Seed, in.Index), genuineOK && rejected >= 3, in)
	}

	handleED := func(in c47Input, toCoq bool) {
		r := in.rand()
		k0, k1 := edKey(r), edKey(r)
		h0, h1 := randHash(r), randHash(r)
		sig, err := k0.Sign(h0)
		if err != nil {
			panic(err)
		}
		v0, _ := verifierFor(encryption.SignatureSchemeEd25519, k0.GetPublicKey())
		v1, _ := verifierFor(encryption.SignatureSchemeEd25519, k1.GetPublicKey())
		rejected := 0
		genuineOK := false
		emit := func(name string, ss encryption.SignatureScheme, s, h string, expect bool, kind string, signer, verifier, ms, mv, tamper int) {
			ok, _, pn := verifyNoPanic(ss, s, h)
			if pn != "" {
				rep.Count("panic-ed-" + name)
			}
			rep.Count(fmt.Sprintf("ed-%s-%v", name, ok))
			mi := in
			mi.Tamper = name
			if ok != expect {
				rep.Violate(kind, fmt.Sprintf("ed25519 %s: Verify=%v", name, ok), mi)
			}
			if name == "genuine" && ok {
				genuineOK = true
			}
			if !ok {
				rejected++
			}
			if toCoq {
				addCase(fmt.Sprintf("(ScEd %s %s %s %s %s %s)", vh.Nat(signer), vh.Nat(verifier), vh.Nat(ms), vh.Nat(mv), vh.Nat(tamper), vh.Bool(ok)), mi)
			}
		}
		emit("genuine", v0, sig, h0, true, "C47:valid-signature-rejected", 0, 0, 0, 0, 0)
		emit("other-key", v1, sig, h0, false, "C47:other-key-accepted", 0, 1, 0, 0, 0)
		emit("other-hash", v0, sig, h1, false, "C47:other-hash-accepted", 0, 0, 0, 1, 0)
		for k := 0; k < o.N(3, 12); k++ {
			emit("sig-R-bit", v0, flipHexBit(sig, r.Intn(256)), h0, false, "C47:tampered-sig-bit-accepted", 0, 0, 0, 0, 2)
			emit("sig-S-bit", v0, flipHexBit(sig, 256+r.Intn(256)), h0, false, "C47:tampered-sig-bit-accepted", 0, 0, 0, 0, 1)
			emit("hash-bit", v0, sig, flipHexBit(h0, r.Intn(256)), false, "C47:tampered-hash-bit-accepted", 0, 0, 0, 1, 0)
			vb, err := verifierFor(encryption.SignatureSchemeEd25519, flipHexBit(k0.GetPublicKey(), r.Intn(256)))
			if err == nil {
				emit("key-bit", vb, sig, h0, false, "C47:tampered-key-bit-accepted", 0, 1, 0, 0, 0)
			}
		}
		for _, bad := range []string{"", "zz", "00", sig[:len(sig)-2], sig + "00"} {
			ok, _, pn := verifyNoPanic(v0, bad, h0)
			if pn != "" {
				rep.Count("ed-malformed-signature-panics")
			}
			if ok {
				mi := in
				mi.Tamper = "malformed:" + bad
				rep.Violate("C47:malformed-signature-accepted", "ed25519 accepts a malformed signature", mi)
			}
		}
		checkID(in, encryption.SignatureSchemeEd25519, k0.GetPublicKey(), func(h string) string { sg, _ := k0.Sign(h); return sg }, toCoq && in.Index < 2)
		rep.Case(fmt.Sprintf("%d/ed/%d", in.Seed, in.Index), genuineOK && rejected >= 3, in)
	}

	var rin c47Input
	if o.LoadReplay(&rin) {
		if rin.Scheme == encryption.SignatureSchemeEd25519 {
			handleED(rin, true)
		} else {
			handleBLS(rin, true)
		}
	} else {
		n := o.N(60, 1500)
		coqN := o.N(12, 60)
		for i := 0; i < n; i++ {
			handleBLS(c47Input{item: item{Prop: "C47", Stream: "bls", Seed: o.Seed, Index: i}, Scheme: encryption.SignatureSchemeBls0chain}, i < coqN)
			handleED(c47Input{item: item{Prop: "C47", Stream: "ed", Seed: o.Seed, Index: i}, Scheme: encryption.SignatureSchemeEd25519}, i < coqN)
		}
	}
	files, err := cf.Write(o.Out, "C47")
	if err != nil {
		panic(err)
	}
	rep.CaseFiles = files
	rep.ShardSize = 400
	rep.Write(o.Out)
}
