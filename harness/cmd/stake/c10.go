package main

// C10: reward distribution splits the amount exactly. Runs DistributeRewards and
// DistributeRewardsRandN of the real smartcontract/stakepool package.

import (
	"fmt"
	"math"
	"math/big"
	"strings"

	cstate "0chain.net/chaincore/chain/state"
	"0chain.net/smartcontract/stakepool"
	"0chain.net/smartcontract/stakepool/spenum"
	"github.com/0chain/common/core/currency"
	"verifharness/sc"
	"verifharness/vh"
)

type dpoolIn struct {
	Bal    uint64 `json:"bal"`
	Reward uint64 `json:"reward"`
}

type distIn struct {
	Pools     []dpoolIn `json:"pools"`
	Reward    uint64    `json:"reward"`
	MinStake  uint64    `json:"min_stake"`
	RatioBits uint64    `json:"ratio_bits"` // math.Float64bits(ServiceChargeRatio)
	Ratio     string    `json:"ratio"`      // informational
	Killed    bool      `json:"killed"`
	Value     uint64    `json:"value"`
	RandN     *int      `json:"rand_n,omitempty"` // nil: DistributeRewards
	Seed      int64     `json:"seed,omitempty"`
	Demeter   bool      `json:"demeter,omitempty"` // "demeter" hard fork active
}

type distOut struct {
	Outcome int // 0 ok, 1 error, 2 panic
	Err     string
	Reward  uint64
	Pools   []dpoolIn
	Sel     []int // selected indices (RandN only), in selection order
}

func (in *distIn) ratio() float64 { return math.Float64frombits(in.RatioBits) }

func buildSP(in *distIn) *stakepool.StakePool {
	sp := stakepool.NewStakePool()
	sp.Reward = currency.Coin(in.Reward)
	sp.Settings.ServiceChargeRatio = in.ratio()
	sp.Settings.MinStake = currency.Coin(in.MinStake)
	sp.Settings.DelegateWallet = hexID(9999)
	sp.Settings.MaxNumDelegates = 1000
	sp.HasBeenKilled = in.Killed
	for i, p := range in.Pools {
		id := hexID(i + 1)
		sp.Pools[id] = &stakepool.DelegatePool{Balance: currency.Coin(p.Bal), Reward: currency.Coin(p.Reward), DelegateID: id}
	}
	return sp
}

func runDist(in *distIn) (out distOut) {
	mpt := sc.NewMPT()
	ctx := sc.NewCtx(mpt, 100, nil)
	if in.Demeter {
		if _, err := ctx.InsertTrieNode("hardfork:demeter", cstate.NewHardFork("demeter", 1)); err != nil {
			panic(err)
		}
	}
	sp := buildSP(in)
	if in.RandN != nil {
		func() {
			defer func() { _ = recover() }() // rand.Perm panics for a negative n; the real call below reports it
			idx := map[string]int{}
			for i := range in.Pools {
				idx[hexID(i+1)] = i
			}
			for _, p := range buildSP(in).VerifGetRandPools(ctx, in.Seed, *in.RandN) {
				out.Sel = append(out.Sel, idx[p.DelegateID])
			}
		}()
	}
	func() {
		defer func() {
			if r := recover(); r != nil {
				out.Outcome = 2
				out.Err = fmt.Sprint(r)
			}
		}()
		var err error
		if in.RandN == nil {
			err = sp.DistributeRewards(currency.Coin(in.Value), hexID(7777), spenum.Blobber, spenum.BlockRewardBlobber, ctx)
		} else {
			err = sp.DistributeRewardsRandN(currency.Coin(in.Value), hexID(7777), spenum.Miner, in.Seed, *in.RandN, spenum.BlockRewardMiner, ctx)
		}
		if err != nil {
			out.Outcome = 1
			out.Err = err.Error()
		}
	}()
	out.Reward = uint64(sp.Reward)
	for i := range in.Pools {
		p := sp.Pools[hexID(i+1)]
		if p == nil {
			out.Pools = append(out.Pools, dpoolIn{})
			continue
		}
		out.Pools = append(out.Pools, dpoolIn{uint64(p.Balance), uint64(p.Reward)})
	}
	return out
}

// oracleDist evaluates the C10 statement on what the real code did. "" = holds / not applicable.
func oracleDist(in *distIn, out *distOut, kinds map[string]int) string {
	if len(out.Pools) != len(in.Pools) {
		return "pool-set-changed"
	}
	// premises of the property: ratio in [0,1]; outstanding rewards + value still fit in uint64
	tot := bz(in.Reward)
	stake := new(big.Int)
	for _, p := range in.Pools {
		tot.Add(tot, bz(p.Reward))
		stake.Add(stake, bz(p.Bal))
	}
	lim := new(big.Int).Lsh(big.NewInt(1), 64)
	if !inUnit(in.ratio()) {
		kinds["outside:ratio-not-in-unit"]++
		return ""
	}
	if new(big.Int).Add(tot, bz(in.Value)).Cmp(lim) >= 0 {
		kinds["outside:rewards-overflow-uint64"]++
		return ""
	}
	if out.Outcome == 2 {
		return "panic"
	}
	if out.Outcome == 1 {
		kinds["err"]++
		return ""
	}
	for i := range in.Pools {
		if out.Pools[i].Bal != in.Pools[i].Bal {
			return "balance-changed"
		}
		if out.Pools[i].Reward < in.Pools[i].Reward {
			return "reward-decreased"
		}
	}
	if out.Reward < in.Reward {
		return "reward-decreased"
	}
	dsp := out.Reward - in.Reward
	dsum := bz(dsp)
	credited := 0
	for i := range in.Pools {
		d := out.Pools[i].Reward - in.Pools[i].Reward
		dsum.Add(dsum, bz(d))
		if d > 0 {
			credited++
		}
	}
	skip := in.Value == 0 || in.Killed || stake.Cmp(bz(in.MinStake)) < 0
	if skip {
		kinds["skip(killed/understaked/zero)"]++
		if dsum.Sign() != 0 {
			return "killed-or-understaked-credited"
		}
		return ""
	}
	kinds["paid"]++
	// the pools the payment is divided among, and their stake
	among := make([]int, 0, len(in.Pools))
	if in.RandN == nil {
		for i := range in.Pools {
			among = append(among, i)
		}
	} else {
		among = out.Sel
		insel := map[int]bool{}
		for _, i := range out.Sel {
			insel[i] = true
		}
		if *in.RandN >= 0 && len(out.Sel) > *in.RandN && *in.RandN < len(in.Pools) {
			return "randn-selects-more-than-n"
		}
		for i := range in.Pools {
			if !insel[i] && out.Pools[i].Reward != in.Pools[i].Reward {
				return "randn-credits-unselected"
			}
		}
		if *in.RandN >= 0 && credited > *in.RandN {
			return "randn-credits-more-than-n"
		}
	}
	selStake := new(big.Int)
	for _, i := range among {
		selStake.Add(selStake, bz(in.Pools[i].Bal))
	}
	if dsum.Cmp(bz(in.Value)) != 0 {
		if dsp > in.Value {
			return "charge-exceeds-value" // F-10a: Coin(ratio*float64(value)) > value, value-charge wraps
		}
		if in.RandN != nil && len(in.Pools) > 0 && selStake.Sign() == 0 && dsum.Cmp(bz(dsp)) == 0 && dsp < in.Value {
			return "randn-zero-stake-selection-drops-reward"
		}
		return "split-not-exact"
	}
	if credited >= 2 {
		kinds["paid:>=2-delegates-credited"]++
	}
	// proportionality up to rounding: |d_i*stake - vl*b_i| <= ((n+1)*eps+1)*stake, eps = 1 + ceil(vl/2^50)
	if len(among) > 0 && selStake.Sign() > 0 {
		vl := bz(in.Value - dsp)
		eps := new(big.Int).Add(big.NewInt(2), new(big.Int).Rsh(vl, 50))
		bound := new(big.Int).Mul(big.NewInt(int64(len(among)+1)), eps)
		bound.Add(bound, big.NewInt(1)).Mul(bound, selStake)
		for _, i := range among {
			d := bz(out.Pools[i].Reward - in.Pools[i].Reward)
			lhs := new(big.Int).Mul(d, selStake)
			lhs.Sub(lhs, new(big.Int).Mul(vl, bz(in.Pools[i].Bal)))
			if lhs.Abs(lhs).Cmp(bound) > 0 {
				return "share-not-proportional"
			}
		}
	}
	return ""
}

func coqDist(in *distIn, out *distOut) string {
	ps := make([]string, len(in.Pools))
	for i, p := range in.Pools {
		ps[i] = vh.Pair(vh.ZU(p.Bal), vh.ZU(p.Reward))
	}
	randn := "None"
	if in.RandN != nil {
		randn = vh.Some(vh.Pair(vh.Z(int64(*in.RandN)), vh.NatList(out.Sel)))
	}
	outs := make([]string, len(out.Pools))
	for i, p := range out.Pools {
		outs[i] = vh.ZU(p.Reward)
	}
	return fmt.Sprintf("{| spd_pools := %s; spd_reward := %s; spd_minstake := %s; spd_charge_bits := %s; spd_killed := %s; "+
		"spd_value := %s; spd_randn := %s; spd_out := %d; spd_out_reward := %s; spd_out_pools := %s |}",
		vh.List(ps), vh.ZU(in.Reward), vh.ZU(in.MinStake), vh.ZU(in.RatioBits), vh.Bool(in.Killed),
		vh.ZU(in.Value), randn, out.Outcome, vh.ZU(out.Reward), vh.List(outs))
}

func genDist(r *vh.Rand) *distIn {
	in := &distIn{}
	n := r.Range(0, 6)
	if r.Chance(1, 12) {
		n = r.Range(7, 30)
	}
	extreme := r.Chance(1, 4) // near-overflow values anywhere
	for i := 0; i < n; i++ {
		var p dpoolIn
		switch {
		case r.Chance(1, 6):
			p.Bal = 0
		case extreme:
			p.Bal = genCoin(r)
		default:
			p.Bal = genRealistic(r)
		}
		switch {
		case r.Chance(2, 3):
			p.Reward = 0
		case extreme && r.Chance(1, 3):
			p.Reward = genCoin(r)
		default:
			p.Reward = uint64(r.Intn(1000000))
		}
		in.Pools = append(in.Pools, p)
	}
	if r.Chance(1, 2) {
		in.Reward = genRealistic(r) % 1e12
	}
	if extreme && r.Chance(1, 4) {
		in.Reward = genCoin(r)
	}
	if r.Chance(1, 5) {
		in.MinStake = genRealistic(r)
	}
	f := genRatio(r, true)
	in.RatioBits = math.Float64bits(f)
	in.Killed = r.Chance(1, 12)
	if extreme {
		in.Value = genCoin(r)
	} else {
		in.Value = genRealistic(r)
	}
	if r.Chance(1, 2) {
		var k int
		switch r.Intn(8) {
		case 0:
			k = 0
		case 1:
			k = 1
		case 2:
			k = n
		case 3:
			k = n + 1
		case 4:
			k = 1000
		default:
			k = r.Range(0, n+1)
		}
		in.RandN = &k
		in.Seed = int64(r.U64())
		in.Demeter = r.Bool()
	}
	return in
}

func fixedDist() []*distIn {
	one := math.Float64bits(1.0)
	k1, k0 := 1, 0
	return []*distIn{
		{Pools: []dpoolIn{{1, 0}, {2, 0}, {3, 0}}, RatioBits: math.Float64bits(0.3), Value: 1000},
		{Pools: []dpoolIn{{100, 0}, {100, 0}}, RatioBits: one, Value: two53 + 3}, // F-10a
		{Pools: []dpoolIn{{100, 0}}, RatioBits: one, Value: two53 + 3},
		{Pools: []dpoolIn{{0, 0}, {100, 0}}, RatioBits: math.Float64bits(0.1), Value: 1000, RandN: &k1, Seed: 1},
		{Pools: []dpoolIn{{5, 0}, {100, 0}}, RatioBits: math.Float64bits(0.1), Value: 1000, RandN: &k0, Seed: 1},
		{Pools: []dpoolIn{{0, 0}, {0, 0}}, RatioBits: math.Float64bits(0.5), Value: 10}, // F-10b "no stake"
		{Pools: []dpoolIn{{5, 0}, {5, 0}}, RatioBits: one, Value: maxU64},
		{Pools: nil, RatioBits: math.Float64bits(0.5), Value: 77},
		{Pools: []dpoolIn{{1, maxU64}, {1, 0}, {1, 0}}, RatioBits: 0, Value: 2}, // Reward++ wraps (outside the premise)
		{Pools: []dpoolIn{{maxTokenSupply, 0}, {1, 0}, {two53 + 1, 5}}, RatioBits: math.Float64bits(0.25), Value: maxTokenSupply},
	}
}

func distKey(in *distIn) string {
	var b strings.Builder
	fmt.Fprintf(&b, "%d|%d|%d|%v|%d|", in.Reward, in.MinStake, in.RatioBits, in.Killed, in.Value)
	if in.RandN != nil {
		fmt.Fprintf(&b, "n%d,%d,%v|", *in.RandN, in.Seed, in.Demeter)
	}
	for _, p := range in.Pools {
		fmt.Fprintf(&b, "%d,%d;", p.Bal, p.Reward)
	}
	return b.String()
}

func shrinkDist(in *distIn, sig string) *distIn {
	fails := func(c *distIn) bool {
		o := runDist(c)
		return oracleDist(c, &o, map[string]int{}) == sig
	}
	keep := vh.ShrinkIdx(len(in.Pools), func(keep []int) bool {
		c := *in
		c.Pools = nil
		for _, i := range keep {
			c.Pools = append(c.Pools, in.Pools[i])
		}
		return fails(&c)
	})
	c := *in
	c.Pools = nil
	for _, i := range keep {
		c.Pools = append(c.Pools, in.Pools[i])
	}
	// simplify scalars while the same failure persists
	try := func(f func(d *distIn)) {
		d := c
		d.Pools = append([]dpoolIn{}, c.Pools...)
		f(&d)
		if fails(&d) {
			c = d
		}
	}
	try(func(d *distIn) { d.Reward = 0 })
	try(func(d *distIn) { d.MinStake = 0 })
	try(func(d *distIn) { d.Demeter = false })
	for i := range c.Pools {
		i := i
		try(func(d *distIn) { d.Pools[i].Reward = 0 })
		try(func(d *distIn) { d.Pools[i].Bal = 100 })
		try(func(d *distIn) { d.Pools[i].Bal = 1 })
	}
	c.Ratio = fmt.Sprint(c.ratio())
	return &c
}

func runC10(o vh.Opts) {
	sc.Init()
	rep := vh.NewReport("stake", "C10", o)
	rep.Rule = "one case = one DistributeRewards / DistributeRewardsRandN call of the real stakepool package on a real StateContext: " +
		"0-6 (1 in 12: 7-30) delegate pools, balances/rewards/values realistic (< 4e18) or, 1 case in 4, from the uint64 edge set " +
		"(0,1,2^53+-k,4e18,2^63,2^64-1), ratio edge/random in [0,1] (1 in 25 malformed: negative, >1, NaN, Inf), killed 1 in 12, min stake 1 in 5, " +
		"half of the cases random-N (N in 0,1,len,len+1,1000,random; both hard-fork variants) + fixed regression cases; " +
		"non-trivial = succeeded, provider eligible, value > 0 and at least 2 delegates credited; distinct by full input"
	rep.Note("oracle premises: ratio in [0,1] and outstanding rewards + value < 2^64; cases outside are still compared with the model (histogram keys outside:*)")
	cf := &vh.CasesFile{Imports: []string{"Base.Corr", "Model.StakePool", "Corr.StakePool"}, CaseType: "spd_case", CheckFn: "spd_check"}
	handle := func(in *distIn) {
		in.Ratio = fmt.Sprint(in.ratio())
		out := runDist(in)
		kinds := map[string]int{}
		sig := oracleDist(in, &out, kinds)
		for k, n := range kinds {
			rep.CountN(k, n)
		}
		if in.RandN == nil {
			rep.Count("op:DistributeRewards")
		} else {
			rep.Count("op:DistributeRewardsRandN")
		}
		rep.Count([]string{"out:ok", "out:error", "out:panic"}[out.Outcome])
		rep.Case(distKey(in), kinds["paid:>=2-delegates-credited"] > 0, in)
		cf.Add(coqDist(in, &out))
		rep.CaseInputs = append(rep.CaseInputs, in)
		if sig != "" {
			rep.Count("violation:" + sig)
			m := shrinkDist(in, sig)
			mo := runDist(m)
			rep.Violate("C10:"+sig, fmt.Sprintf("reward distribution: %s (observed provider reward %d -> %d, delegates %v, outcome %d %s)",
				sig, m.Reward, mo.Reward, mo.Pools, mo.Outcome, mo.Err), m)
		}
	}
	var rin distIn
	if o.LoadReplay(&rin) {
		handle(&rin)
		finish(o, rep, cf, "C10")
		return
	}
	for _, in := range fixedDist() {
		handle(in)
	}
	rnd := vh.NewRand(o.Seed)
	for i := 0; i < o.N(520, 6000); i++ {
		handle(genDist(rnd))
	}
	finish(o, rep, cf, "C10")
}
