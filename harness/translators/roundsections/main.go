// Translator "roundsections" (property C37): emits coq/Gen/RoundSections.v from
// chaincore/round/entity.go of /repo (or $VERIF_REPO) with go/ast.
//
// Fact extracted for (*Round).AddVRFShare and (*Round).Restart: the statements of the method
// body are walked in order; every r.mutex.Lock() opens a new write section, r.mutex.RLock() a new
// read section, Unlock/RUnlock closes it (a deferred unlock keeps it open to the end). For
// AddVRFShare the section of the test that mentions `threshold` and the section of the insert
// `r.shares[...] = ...` are recorded; for Restart the section of the `>= Share` test and of the
// reset (r.initialize()). The model treats test+write as ONE atomic step; that is only right when
// both lie in the same write section.
//
// Fails closed on anything it does not recognise.
package main

import (
	"fmt"
	"go/ast"
	"go/parser"
	"go/token"
	"os"
	"path/filepath"
	"strings"
)

func die(f string, a ...interface{}) {
	fmt.Fprintf(os.Stderr, "roundsections translator: "+f+"\n", a...)
	os.Exit(1)
}

func repo() string {
	if r := os.Getenv("VERIF_REPO"); r != "" {
		return r
	}
	return "/repo"
}

type section struct {
	id    int  // 0 = no lock held
	write bool // write section
}

// mutexCall: r.mutex.<name>() -> name
func mutexCall(e ast.Expr) string {
	c, ok := e.(*ast.CallExpr)
	if !ok {
		return ""
	}
	sel, ok := c.Fun.(*ast.SelectorExpr)
	if !ok {
		return ""
	}
	inner, ok := sel.X.(*ast.SelectorExpr)
	if !ok || inner.Sel.Name != "mutex" {
		return ""
	}
	if id, ok := inner.X.(*ast.Ident); !ok || id.Name != "r" {
		return ""
	}
	return sel.Sel.Name
}

func mentions(n ast.Node, pred func(ast.Node) bool) bool {
	found := false
	ast.Inspect(n, func(x ast.Node) bool {
		if x != nil && pred(x) {
			found = true
		}
		return !found
	})
	return found
}

// walk the top-level statements of a method body; `test` and `write` classify statements
func analyse(fn *ast.FuncDecl, test, write func(ast.Stmt) bool) (testSec, writeSec section) {
	cur := section{}
	next := 0
	nt, nw := 0, 0
	for _, st := range fn.Body.List {
		if es, ok := st.(*ast.ExprStmt); ok {
			switch mutexCall(es.X) {
			case "Lock":
				next++
				cur = section{next, true}
				continue
			case "RLock":
				next++
				cur = section{next, false}
				continue
			case "Unlock", "RUnlock":
				cur = section{}
				continue
			}
		}
		if ds, ok := st.(*ast.DeferStmt); ok {
			if n := mutexCall(ds.Call); n == "Unlock" || n == "RUnlock" {
				continue // stays open to the end
			}
		}
		// an unlock inside a branch (e.g. the rejected path of Restart) is followed by a return: ignored
		if test(st) {
			testSec = cur
			nt++
		}
		if write(st) {
			writeSec = cur
			nw++
		}
	}
	if nt != 1 || nw != 1 {
		die("%s: expected exactly one test and one write statement, found %d and %d", fn.Name.Name, nt, nw)
	}
	return
}

func isIdent(name string) func(ast.Node) bool {
	return func(n ast.Node) bool { id, ok := n.(*ast.Ident); return ok && id.Name == name }
}

func main() {
	path := filepath.Join(repo(), "code/go/0chain.net/chaincore/round/entity.go")
	f, err := parser.ParseFile(token.NewFileSet(), path, nil, 0)
	if err != nil {
		die("parse %s: %v", path, err)
	}
	methods := map[string]*ast.FuncDecl{}
	for _, d := range f.Decls {
		fd, ok := d.(*ast.FuncDecl)
		if !ok || fd.Recv == nil || len(fd.Recv.List) != 1 {
			continue
		}
		if se, ok := fd.Recv.List[0].Type.(*ast.StarExpr); ok {
			if id, ok := se.X.(*ast.Ident); ok && id.Name == "Round" {
				methods[fd.Name.Name] = fd
			}
		}
	}
	add, ok := methods["AddVRFShare"]
	if !ok {
		die("(*Round).AddVRFShare not found")
	}
	rst, ok := methods["Restart"]
	if !ok {
		die("(*Round).Restart not found")
	}
	// AddVRFShare: the statement that mentions `threshold` in a comparison (an if, or an assignment
	// whose value is tested later); the insert r.shares[k] = v
	aT, aW := analyse(add,
		func(st ast.Stmt) bool {
			if _, isExpr := st.(*ast.ExprStmt); isExpr {
				return false // logging calls mention threshold too
			}
			return mentions(st, func(n ast.Node) bool {
				be, ok := n.(*ast.BinaryExpr)
				return ok && (be.Op == token.GEQ || be.Op == token.GTR || be.Op == token.LSS || be.Op == token.LEQ) &&
					(mentions(be.X, isIdent("threshold")) || mentions(be.Y, isIdent("threshold")))
			})
		},
		func(st ast.Stmt) bool {
			as, ok := st.(*ast.AssignStmt)
			if !ok || len(as.Lhs) != 1 {
				return false
			}
			ix, ok := as.Lhs[0].(*ast.IndexExpr)
			if !ok {
				return false
			}
			sel, ok := ix.X.(*ast.SelectorExpr)
			return ok && sel.Sel.Name == "shares"
		})
	// Restart: the `>= Share` test and the reset r.initialize()
	rT, rW := analyse(rst,
		func(st ast.Stmt) bool {
			is, ok := st.(*ast.IfStmt)
			return ok && mentions(is.Cond, isIdent("Share"))
		},
		func(st ast.Stmt) bool {
			es, ok := st.(*ast.ExprStmt)
			if !ok {
				return false
			}
			c, ok := es.X.(*ast.CallExpr)
			if !ok {
				return false
			}
			sel, ok := c.Fun.(*ast.SelectorExpr)
			return ok && sel.Sel.Name == "initialize"
		})
	one := func(t, w section) bool { return t.id != 0 && t.id == w.id && w.write }
	b2 := func(b bool) string {
		if b {
			return "true"
		}
		return "false"
	}
	var b strings.Builder
	b.WriteString("(* Generated by harness/translators/roundsections from chaincore/round/entity.go - do not edit.\n")
	b.WriteString("   Whether the test and the write of a method lie in one write-locked section of r.mutex\n")
	b.WriteString("   (section numbers count the Lock/RLock calls of the method body; 0 = no lock held). *)\n")
	fmt.Fprintf(&b, "Definition rsec_add_vrf_share_test : nat * bool := (%d, %s).\n", aT.id, b2(aT.write))
	fmt.Fprintf(&b, "Definition rsec_add_vrf_share_insert : nat * bool := (%d, %s).\n", aW.id, b2(aW.write))
	fmt.Fprintf(&b, "Definition rsec_add_vrf_share_atomic : bool := %s.\n", b2(one(aT, aW)))
	fmt.Fprintf(&b, "Definition rsec_restart_test : nat * bool := (%d, %s).\n", rT.id, b2(rT.write))
	fmt.Fprintf(&b, "Definition rsec_restart_reset : nat * bool := (%d, %s).\n", rW.id, b2(rW.write))
	fmt.Fprintf(&b, "Definition rsec_restart_atomic : bool := %s.\n", b2(one(rT, rW)))
	out := filepath.Join("..", "coq", "Gen", "RoundSections.v")
	old, _ := os.ReadFile(out)
	if string(old) == b.String() {
		fmt.Println("round sections unchanged")
		return
	}
	if err := os.WriteFile(out, []byte(b.String()), 0o644); err != nil {
		die("%v", err)
	}
	fmt.Println("round sections rewritten:", out)
}
