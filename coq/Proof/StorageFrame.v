(* Frame lemmas: which components of the state an operation leaves untouched.
   st_misc = (read pools, assigners, read counters). *)
From Coq Require Import ZArith List Bool Lia.
From ZC Require Import Model.F64 Model.Storage Proof.StorageUtil.
Import ListNotations.
Open Scope Z_scope.

Definition st_misc (s : ss_state) := (st_rpools s, st_assigners s, st_reads s).

(* break a successful monadic computation into its successful parts *)
Ltac crush1 H :=
  match type of H with
  | ss_bind _ _ = Some _ => let x := fresh "x" in let E := fresh "E" in apply ss_bind_some in H; destruct H as [x [E H]]
  | (if ?b then _ else _) = Some _ => let B := fresh "B" in destruct b eqn:B
  | (let '(_, _) := ?x in _) = Some _ => destruct x
  | (match ?x with _ => _ end) = Some _ => let M := fresh "M" in destruct x eqn:M
  | None = Some _ => discriminate H
  end.
Ltac crush H := repeat (crush1 H); try discriminate; repeat match goal with Hx : _ = Some _ |- _ => crush1 Hx end; try discriminate.

Lemma ss_transfer_misc : forall s f t v s', ss_transfer s f t v = Some s' -> st_misc s' = st_misc s.
Proof. unfold ss_transfer; intros. crush H; inversion H; reflexivity. Qed.

Lemma ss_lock_from_misc : forall c s cl v s', ss_lock_from c s cl v = Some s' -> st_misc s' = st_misc s.
Proof. unfold ss_lock_from; intros. crush H. eapply ss_transfer_misc; eauto. Qed.

(* turn the results of already-framed functions into equations, then conclude *)
Ltac misc_base :=
  repeat match goal with
  | Hx : ss_lock_from _ _ _ _ = Some _ |- _ => apply ss_lock_from_misc in Hx
  | Hx : ss_transfer _ _ _ _ = Some _ |- _ => apply ss_transfer_misc in Hx
  | Hx : Some _ = Some _ |- _ => inversion Hx; subst; clear Hx
  end.
Ltac misc_done := unfold st_misc in *; cbn in *; congruence.

Lemma ss_new_alloc_misc : forall c s now id owner payer value tv data parity size bl rr wr tpe s',
  ss_new_alloc c s now id owner payer value tv data parity size bl rr wr tpe = Some s' -> st_misc s' = st_misc s.
Proof. unfold ss_new_alloc; intros. crush H; misc_base; misc_done. Qed.

Lemma ss_wp_lock_misc : forall c s a b v s', ss_wp_lock c s a b v = Some s' -> st_misc s' = st_misc s.
Proof. unfold ss_wp_lock; intros. crush H; misc_base; misc_done. Qed.

Lemma ss_commit_misc : forall c s sender alloc client root prev size ts sig s',
  ss_commit c s sender alloc client root prev size ts sig = Some s' -> st_misc s' = st_misc s.
Proof. unfold ss_commit; intros. crush H; misc_base; misc_done. Qed.

Lemma ss_gen_chal_misc : forall c s now round al bl ch s', ss_gen_chal c s now round al bl ch = Some s' -> st_misc s' = st_misc s.
Proof. unfold ss_gen_chal; intros. crush H; misc_base; misc_done. Qed.

Lemma ss_penalty_misc : forall c s a b ls lf vals s' a', ss_penalty c s a b ls lf vals = Some (s', a') -> st_misc s' = st_misc s.
Proof. unfold ss_penalty; intros. crush H; misc_base; misc_done. Qed.

Lemma ss_reward_misc : forall c s a b lf vals s' a', ss_reward c s a b lf vals = Some (s', a') -> st_misc s' = st_misc s.
Proof. unfold ss_reward; intros. crush H; misc_base; misc_done. Qed.

Ltac misc_chal :=
  repeat match goal with
  | Hx : ss_penalty _ _ _ _ _ _ _ = Some _ |- _ => apply ss_penalty_misc in Hx
  | Hx : ss_reward _ _ _ _ _ _ = Some _ |- _ => apply ss_reward_misc in Hx
  end.

Lemma ss_chal_resp_misc : forall c s now round sender ch tok pass vals s',
  ss_chal_resp c s now round sender ch tok pass vals = Some s' -> st_misc s' = st_misc s.
Proof. unfold ss_chal_resp; intros. crush H; misc_base; misc_chal; misc_done. Qed.

Lemma ss_close_misc : forall c s now round a s', ss_close c s now round a = Some s' -> st_misc s' = st_misc s.
Proof. unfold ss_close; intros. crush H; misc_base; misc_done. Qed.

Lemma ss_finalize_misc : forall c s now round sender al s', ss_finalize c s now round sender al = Some s' -> st_misc s' = st_misc s.
Proof. unfold ss_finalize; intros. crush H. eapply ss_close_misc; eauto. Qed.
Lemma ss_cancel_misc : forall c s now round sender al s', ss_cancel c s now round sender al = Some s' -> st_misc s' = st_misc s.
Proof. unfold ss_cancel; intros. crush H. eapply ss_close_misc; eauto. Qed.

Lemma ss_replace_misc : forall c s now round a r nb s' a' f, ss_replace c s now round a r nb = Some (s', a', f) -> st_misc s' = st_misc s.
Proof. unfold ss_replace; intros. crush H; misc_base; misc_done. Qed.

Lemma ss_change_blobbers_misc : forall c s now round a add rem s' a' f,
  ss_change_blobbers c s now round a add rem = Some (s', a', f) -> st_misc s' = st_misc s.
Proof.
  unfold ss_change_blobbers; intros. crush H; misc_base;
    repeat match goal with Hx : ss_replace _ _ _ _ _ _ _ = Some _ |- _ => apply ss_replace_misc in Hx end; misc_done.
Qed.

Lemma ss_extend_misc : forall c s now a size s' a' f, ss_extend c s now a size = Some (s', a', f) -> st_misc s' = st_misc s.
Proof. unfold ss_extend; intros. crush H; misc_base; misc_done. Qed.

Lemma ss_update_f_misc : forall c s now round sender alloc value size ext tpe add rem own s' f,
  ss_update_f c s now round sender alloc value size ext tpe add rem own = Some (s', f) -> st_misc s' = st_misc s.
Proof.
  unfold ss_update_f; intros. crush H; misc_base;
    repeat match goal with
    | Hx : ss_extend _ _ _ _ _ = Some _ |- _ => apply ss_extend_misc in Hx
    | Hx : ss_change_blobbers _ _ _ _ _ _ _ = Some _ |- _ => apply ss_change_blobbers_misc in Hx
    end; misc_done.
Qed.

Lemma ss_kill_misc : forall c s a b s', ss_kill c s a b = Some s' -> st_misc s' = st_misc s.
Proof. unfold ss_kill; intros. crush H; misc_base; misc_done. Qed.
Lemma ss_shutdown_misc : forall c s a b s', ss_shutdown c s a b = Some s' -> st_misc s' = st_misc s.
Proof. unfold ss_shutdown; intros. crush H; misc_base; misc_done. Qed.
Lemma ss_upd_blobber_misc : forall c s a b cap wp rp na s', ss_upd_blobber c s a b cap wp rp na = Some s' -> st_misc s' = st_misc s.
Proof. unfold ss_upd_blobber; intros. crush H; misc_base; misc_done. Qed.
