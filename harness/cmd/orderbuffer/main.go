// Engine for C46: runs op sequences on the real core/util/orderbuffer, checks the property
// on the implementation (oracle) and emits cases for the Coq model.
package main

import (
	"encoding/json"
	"flag"
	"fmt"
	"os"
	"os/exec"
	"path/filepath"
	"sort"
	"strings"
	"sync"

	"0chain.net/core/util/orderbuffer"
	"verifharness/vh"
)

type op struct {
	Kind string `json:"k"` // add|first|pop
	R    int64  `json:"r,omitempty"`
	D    int64  `json:"d,omitempty"`
}

type hist struct {
	Max     int    `json:"max"`
	Ops     []op   `json:"ops,omitempty"`
	Threads [][]op `json:"threads,omitempty"` // concurrent use: one op list per goroutine
}

type item struct{ r, d int64 }

func snapshot(b *orderbuffer.OrderBuffer) []item {
	out := make([]item, len(b.Buffer))
	for i, it := range b.Buffer {
		out[i] = item{it.Round, it.Data.(int64)}
	}
	return out
}

// run executes the history on the real code; returns coq outputs, final buffer and the first
// oracle failure ("" if none).
func run(h hist) (outs []string, final []item, fail string, kinds map[string]int) {
	kinds = map[string]int{}
	b := orderbuffer.New(h.Max)
	for _, o := range h.Ops {
		pre := snapshot(b)
		switch o.Kind {
		case "add":
			b.Add(o.R, o.D)
			outs = append(outs, "OutAdd")
			post := snapshot(b)
			if f := checkAdd(h.Max, pre, post, item{o.R, o.D}, kinds); f != "" && fail == "" {
				fail = f
			}
		case "first", "pop":
			var it orderbuffer.Item
			var ok bool
			if o.Kind == "first" {
				it, ok = b.First()
			} else {
				it, ok = b.Pop()
			}
			post := snapshot(b)
			if !ok {
				outs = append(outs, "(OutItem None)")
				kinds[o.Kind+"-empty"]++
				if len(pre) != 0 && fail == "" {
					fail = "handout-none-on-nonempty"
				}
			} else {
				got := item{it.Round, it.Data.(int64)}
				outs = append(outs, fmt.Sprintf("(OutItem (Some (%s, %s)))", vh.Z(got.r), vh.Z(got.d)))
				kinds[o.Kind+"-item"]++
				if fail == "" {
					fail = checkHandout(o.Kind, pre, post, got)
				}
			}
		}
		post := snapshot(b)
		if fail == "" {
			if len(post) > h.Max {
				fail = "over-capacity"
			}
			for i := 1; i < len(post); i++ {
				if post[i-1].r > post[i].r {
					fail = "unsorted"
				}
			}
		}
	}
	return outs, snapshot(b), fail, kinds
}

func checkHandout(kind string, pre, post []item, got item) string {
	if len(pre) == 0 {
		return "handout-from-empty"
	}
	found := false
	for _, p := range pre {
		if p == got {
			found = true
		}
		if p.r < got.r {
			return "handout-not-lowest-round"
		}
	}
	if !found {
		return "handout-not-member"
	}
	if kind == "first" && !sameItems(pre, post) {
		return "first-changed-buffer"
	}
	if kind == "pop" {
		// post must be pre minus one occurrence of got
		exp := removeOne(pre, got)
		if !sameMultiset(exp, post) {
			return "pop-removed-wrong-entries"
		}
	}
	return ""
}

func sameItems(a, b []item) bool {
	if len(a) != len(b) {
		return false
	}
	for i := range a {
		if a[i] != b[i] {
			return false
		}
	}
	return true
}
func removeOne(a []item, x item) []item {
	out := []item{}
	done := false
	for _, y := range a {
		if y == x && !done {
			done = true
			continue
		}
		out = append(out, y)
	}
	return out
}
func sortItems(a []item) []item {
	c := append([]item{}, a...)
	sort.Slice(c, func(i, j int) bool {
		if c[i].r != c[j].r {
			return c[i].r < c[j].r
		}
		return c[i].d < c[j].d
	})
	return c
}
func sameMultiset(a, b []item) bool { return sameItems(sortItems(a), sortItems(b)) }

// checkAdd: the property-level contract of Add.
func checkAdd(max int, pre, post []item, x item, kinds map[string]int) string {
	// position of the last entry with round <= x.r (pre is sorted when the property held so far)
	pos := -1
	for i, p := range pre {
		if p.r <= x.r {
			pos = i
		}
	}
	if pos >= 0 && pre[pos] == x {
		kinds["add-exact-repeat"]++
		if !sameItems(pre, post) {
			return "exact-repeat-not-ignored"
		}
		return ""
	}
	if sameItems(pre, post) {
		// ignored although not an exact repeat: the code ignores when the Data at that position is
		// equal (round not compared); recorded, and allowed only in that case
		if pos >= 0 && pre[pos].d == x.d {
			kinds["add-same-data-other-round-ignored"]++
			return ""
		}
		if max == 0 || (len(pre) == max && x.r >= pre[len(pre)-1].r) {
			kinds["add-dropped-new-highest"]++
			return "" // the new entry is itself the highest and was the one dropped
		}
		return "add-lost-new-entry"
	}
	all := append(append([]item{}, pre...), x)
	want := len(all)
	if want > max {
		want = max
	}
	if len(post) != want {
		return "add-wrong-size"
	}
	// post must be a sub-multiset of all, dropped = all - post must have rounds >= every kept round
	rest := append([]item{}, all...)
	for _, p := range post {
		n := len(rest)
		rest = removeOne(rest, p)
		if len(rest) == n {
			return "add-invented-entry"
		}
	}
	if len(rest) > 0 {
		kinds["add-dropped"]++
	} else {
		kinds["add-inserted"]++
	}
	for _, d := range rest {
		for _, k := range post {
			if d.r < k.r {
				return "dropped-not-highest-round"
			}
		}
	}
	return ""
}

func coqCase(h hist, outs []string, final []item) string {
	ops := make([]string, len(h.Ops))
	for i, o := range h.Ops {
		switch o.Kind {
		case "add":
			ops[i] = fmt.Sprintf("OpAdd %s %s", vh.Z(o.R), vh.Z(o.D))
		case "first":
			ops[i] = "OpFirst"
		default:
			ops[i] = "OpPop"
		}
	}
	fin := make([]string, len(final))
	for i, it := range final {
		fin[i] = vh.Pair(vh.Z(it.r), vh.Z(it.d))
	}
	return fmt.Sprintf("{| obc_max := %s; obc_ops := %s; obc_outs := %s; obc_final := %s |}",
		vh.Nat(h.Max), vh.List(ops), vh.List(outs), vh.List(fin))
}

func genHist(r *vh.Rand) hist {
	h := hist{Max: r.Range(0, 5)}
	if r.Chance(1, 10) {
		h.Max = r.Range(6, 20)
	}
	n := r.Range(1, 40)
	rounds := []int64{0, 1, 2, 3, 4, 5, 6}
	if r.Chance(1, 5) {
		rounds = []int64{-3, -1, 0, 1, 1 << 40, 9223372036854775807, -9223372036854775808, 7}
	}
	for i := 0; i < n; i++ {
		switch x := r.Intn(10); {
		case x < 7:
			h.Ops = append(h.Ops, op{"add", r.Pick64(rounds), int64(r.Intn(3))})
		case x < 8:
			h.Ops = append(h.Ops, op{Kind: "first"})
		default:
			h.Ops = append(h.Ops, op{Kind: "pop"})
		}
	}
	return h
}

func key(h hist) string {
	var b strings.Builder
	fmt.Fprintf(&b, "%d", h.Max)
	for _, o := range h.Ops {
		fmt.Fprintf(&b, "|%s,%d,%d", o.Kind, o.R, o.D)
	}
	return b.String()
}

// runConcurrent runs one op list per goroutine on a shared buffer and checks what must hold for
// every interleaving of whole operations: final buffer sorted and within capacity, every item handed
// out or left over was added (no invention, no duplication), nothing panics.
func runConcurrent(h hist) (fail string) {
	b := orderbuffer.New(h.Max)
	var wg sync.WaitGroup
	var mu sync.Mutex
	popped := map[item]int{}
	panicked := false
	for _, ops := range h.Threads {
		wg.Add(1)
		go func(ops []op) {
			defer wg.Done()
			defer func() {
				if r := recover(); r != nil {
					mu.Lock()
					panicked = true
					mu.Unlock()
				}
			}()
			for _, o := range ops {
				switch o.Kind {
				case "add":
					b.Add(o.R, o.D)
				case "first":
					b.First()
				default:
					if it, ok := b.Pop(); ok {
						mu.Lock()
						popped[item{it.Round, it.Data.(int64)}]++
						mu.Unlock()
					}
				}
			}
		}(ops)
	}
	wg.Wait()
	if panicked {
		return "concurrent-panic"
	}
	added := map[item]int{}
	for _, ops := range h.Threads {
		for _, o := range ops {
			if o.Kind == "add" {
				added[item{o.R, o.D}]++
			}
		}
	}
	final := snapshot(b)
	if len(final) > h.Max {
		return "concurrent-over-capacity"
	}
	for i := 1; i < len(final); i++ {
		if final[i-1].r > final[i].r {
			return "concurrent-unsorted"
		}
	}
	seen := map[item]int{}
	for k, n := range popped {
		seen[k] += n
	}
	for _, it := range final {
		seen[it]++
	}
	for k, n := range seen {
		if n > added[k] {
			return "concurrent-invented-or-duplicated-entry"
		}
	}
	return ""
}

// stressChild runs the concurrent histories of a batch file in this (child) process so that a Go
// runtime fatal error (not recoverable) is observed by the parent as a crash of that batch.
func stressChild(path string) {
	data, err := os.ReadFile(path)
	if err != nil {
		panic(err)
	}
	var hs []hist
	if err := json.Unmarshal(data, &hs); err != nil {
		panic(err)
	}
	for i, h := range hs {
		if f := runConcurrent(h); f != "" {
			fmt.Printf("FAIL %d %s\n", i, f)
		}
	}
	fmt.Println("DONE")
}

// stressBatch runs a batch in a child process; returns index->failure, and crashed=true if the child died.
func stressBatch(dir string, hs []hist) (map[int]string, bool, string) {
	path := filepath.Join(dir, "stress_batch.json")
	data, _ := json.Marshal(hs)
	if err := os.WriteFile(path, data, 0o644); err != nil {
		panic(err)
	}
	cmd := exec.Command(os.Args[0], "-out", dir, "-stress-child", path)
	out, err := cmd.CombinedOutput()
	fails := map[int]string{}
	done := false
	for _, ln := range strings.Split(string(out), "\n") {
		var i int
		var f string
		if n, _ := fmt.Sscanf(ln, "FAIL %d %s", &i, &f); n == 2 {
			fails[i] = f
		}
		if ln == "DONE" {
			done = true
		}
	}
	tail := string(out)
	if len(tail) > 400 {
		tail = tail[:400]
	}
	return fails, err != nil || !done, tail
}

var stressChildFlag = flag.String("stress-child", "", "internal: run a batch of concurrent histories")

func main() {
	o := vh.ParseFlags()
	if *stressChildFlag != "" {
		stressChild(*stressChildFlag)
		return
	}
	rep := vh.NewReport("orderbuffer", "C46", o)
	rep.Rule = "random op sequences (70% add over 7 colliding rounds x 3 data values, first, pop; capacity 0-5, sometimes 6-20; " +
		"1 in 5 histories uses extreme int64 rounds) + exhaustive short sequences; non-trivial = at least one add was inserted, " +
		"one entry was dropped or ignored, and one item was handed out; distinct by full op list"
	cf := &vh.CasesFile{Imports: []string{"Base.Corr", "Model.OrderBuffer", "Corr.OrderBuffer"}, CaseType: "ob_case", CheckFn: "ob_check"}

	handle := func(h hist, toCoq bool) {
		outs, final, fail, kinds := run(h)
		for k, n := range kinds {
			rep.CountN(k, n)
		}
		nontriv := kinds["add-inserted"] > 0 && (kinds["add-dropped"]+kinds["add-exact-repeat"]+kinds["add-dropped-new-highest"] > 0) &&
			(kinds["pop-item"]+kinds["first-item"] > 0)
		rep.Case(key(h), nontriv, h)
		if toCoq {
			cf.Add(coqCase(h, outs, final))
			rep.CaseInputs = append(rep.CaseInputs, h)
		}
		if fail != "" {
			keep := vh.ShrinkIdx(len(h.Ops), func(keep []int) bool {
				h2 := hist{Max: h.Max}
				for _, i := range keep {
					h2.Ops = append(h2.Ops, h.Ops[i])
				}
				_, _, f2, _ := run(h2)
				return f2 == fail
			})
			h2 := hist{Max: h.Max}
			for _, i := range keep {
				h2.Ops = append(h2.Ops, h.Ops[i])
			}
			rep.Violate("C46:"+fail, "order buffer "+fail, h2)
		}
	}

	var rh hist
	if o.LoadReplay(&rh) {
		if len(rh.Threads) > 0 {
			batch := make([]hist, 500)
			for i := range batch {
				batch[i] = rh
			}
			fails, crashed, tail := stressBatch(o.Out, batch)
			for _, f := range fails {
				rep.Violate("C46:"+f, "order buffer under concurrent use: "+f, rh)
			}
			if crashed {
				rep.Violate("C46:concurrent-crash", "Go runtime fatal error under concurrent use: "+tail, rh)
			}
			rep.Case("replay", true, rh)
		} else {
			handle(rh, true)
		}
		files, err := cf.Write(o.Out, "C46")
		if err != nil {
			panic(err)
		}
		rep.CaseFiles = files
		rep.ShardSize = 400
		rep.Write(o.Out)
		return
	}
	rnd := vh.NewRand(o.Seed)
	for i := 0; i < o.N(400, 4000); i++ {
		handle(genHist(rnd), true)
	}
	// exhaustive short sequences: alphabet = add over 3 rounds x 2 data, first, pop
	alpha := []op{{Kind: "first"}, {Kind: "pop"}}
	for r := int64(1); r <= 3; r++ {
		for d := int64(0); d < 2; d++ {
			alpha = append(alpha, op{"add", r, d})
		}
	}
	maxLen := o.N(4, 6)
	coqLen := o.N(2, 3)
	var rec func(cur []op)
	rec = func(cur []op) {
		if len(cur) > 0 {
			for max := 1; max <= 3; max++ {
				handle(hist{Max: max, Ops: append([]op{}, cur...)}, len(cur) <= coqLen && max <= 2)
			}
		}
		if len(cur) == maxLen {
			return
		}
		for _, a := range alpha {
			rec(append(cur, a))
		}
	}
	rec(nil)
	// concurrent use: distinct data per goroutine so that conservation is checkable
	var batch []hist
	for i := 0; i < o.N(300, 5000); i++ {
		h := hist{Max: rnd.Range(1, 8)}
		nt := rnd.Range(2, 6)
		for t := 0; t < nt; t++ {
			var ops []op
			for k := 0; k < rnd.Range(20, 300); k++ {
				switch x := rnd.Intn(10); {
				case x < 6:
					ops = append(ops, op{"add", int64(rnd.Intn(6)), int64(t*1000 + k)})
				case x < 7:
					ops = append(ops, op{Kind: "first"})
				default:
					ops = append(ops, op{Kind: "pop"})
				}
			}
			h.Threads = append(h.Threads, ops)
		}
		rep.Count("concurrent-run")
		batch = append(batch, h)
	}
	for lo := 0; lo < len(batch); lo += 50 {
		hi := lo + 50
		if hi > len(batch) {
			hi = len(batch)
		}
		fails, crashed, tail := stressBatch(o.Out, batch[lo:hi])
		for i, f := range fails {
			rep.Violate("C46:"+f, "order buffer under concurrent use: "+f, batch[lo+i])
		}
		if crashed {
			rep.Violate("C46:concurrent-crash", "Go runtime fatal error under concurrent use: "+tail, batch[lo])
		}
	}
	rep.Note("exhaustive: all sequences over %d ops up to length %d, capacities 1-3, run on the implementation oracle; up to length %d also compared with the model", len(alpha), maxLen, coqLen)
	files, err := cf.Write(o.Out, "C46")
	if err != nil {
		panic(err)
	}
	rep.CaseFiles = files
	rep.ShardSize = 400
	rep.Write(o.Out)
}
