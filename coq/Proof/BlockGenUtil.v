(* List and arithmetic utilities for Proof/BlockGen.v (C45). *)
From ZC Require Import Model.BlockGen.
From Coq Require Import Sorting.Permutation.
Open Scope Z_scope.

(* ---------- order-preserving sublists ---------- *)
Inductive bg_sub {A} : list A -> list A -> Prop :=
| bg_sub_nil : bg_sub [] []
| bg_sub_skip : forall x l1 l2, bg_sub l1 l2 -> bg_sub l1 (x :: l2)
| bg_sub_take : forall x l1 l2, bg_sub l1 l2 -> bg_sub (x :: l1) (x :: l2).

Lemma bg_sub_nil_l {A} (l : list A) : bg_sub [] l.
Proof. induction l; constructor; auto. Qed.

Lemma bg_sub_refl {A} (l : list A) : bg_sub l l.
Proof. induction l; [constructor | apply bg_sub_take; auto]. Qed.

Lemma bg_sub_in {A} (l1 l2 : list A) : bg_sub l1 l2 -> forall x, In x l1 -> In x l2.
Proof.
  induction 1; intros y Hy; simpl in *; auto.
  destruct Hy; auto.
Qed.

Lemma bg_sub_map {A B} (f : A -> B) (l1 l2 : list A) : bg_sub l1 l2 -> bg_sub (map f l1) (map f l2).
Proof. induction 1; simpl; [constructor | apply bg_sub_skip; auto | apply bg_sub_take; auto]. Qed.

Lemma bg_sub_filter {A} (p : A -> bool) (l1 l2 : list A) :
  bg_sub l1 l2 -> bg_sub (filter p l1) (filter p l2).
Proof.
  induction 1; simpl; try constructor.
  - destruct (p x); [apply bg_sub_skip|]; auto.
  - destruct (p x); [apply bg_sub_take|]; auto.
Qed.

Lemma bg_sub_nodup {A} (l1 l2 : list A) : bg_sub l1 l2 -> NoDup l2 -> NoDup l1.
Proof.
  induction 1; intros Hn; auto.
  - inversion Hn; auto.
  - inversion Hn; subst. constructor; auto.
    intro Hx. apply H2. eapply bg_sub_in; eauto.
Qed.

Lemma bg_sub_snoc_skip {A} (l1 l2 : list A) x : bg_sub l1 l2 -> bg_sub l1 (l2 ++ [x]).
Proof.
  induction 1; simpl; [apply bg_sub_nil_l | apply bg_sub_skip; auto | apply bg_sub_take; auto].
Qed.

Lemma bg_sub_snoc_take {A} (l1 l2 : list A) x : bg_sub l1 l2 -> bg_sub (l1 ++ [x]) (l2 ++ [x]).
Proof.
  induction 1; simpl; [apply bg_sub_take; constructor | apply bg_sub_skip; auto | apply bg_sub_take; auto].
Qed.

(* ---------- boolean duplicate test ---------- *)
Lemma bg_existsb_eqb_in (x : Z) (l : list Z) : existsb (Z.eqb x) l = true <-> In x l.
Proof.
  rewrite existsb_exists. split.
  - intros [y [Hy He]]. apply Z.eqb_eq in He. subst; auto.
  - intros H. exists x. split; auto. apply Z.eqb_refl.
Qed.

Lemma bg_nodupb_spec (l : list Z) : bg_nodupb l = true <-> NoDup l.
Proof.
  induction l as [|x r IH]; simpl.
  - split; auto. constructor.
  - rewrite andb_true_iff, negb_true_iff, IH. split.
    + intros [Hx Hr]. constructor; auto.
      intro Hin. apply bg_existsb_eqb_in in Hin. congruence.
    + intros Hn. inversion Hn; subst. split; auto.
      destruct (existsb (Z.eqb x) r) eqn:E; auto.
      apply bg_existsb_eqb_in in E. contradiction.
Qed.

Lemma bg_nodup_app {A} (l1 l2 : list A) :
  NoDup l1 -> NoDup l2 -> (forall x, In x l1 -> ~ In x l2) -> NoDup (l1 ++ l2).
Proof.
  induction l1 as [|a r IH]; simpl; intros H1 H2 Hd; auto.
  inversion H1; subst. constructor.
  - rewrite in_app_iff. intros [H|H]; auto. eapply Hd; eauto.
  - apply IH; auto.
Qed.

(* ---------- wrap ---------- *)
Lemma bg_wrap_small z : - 2 ^ 63 <= z < 2 ^ 63 -> bg_wrap z = z.
Proof.
  intros H. unfold bg_wrap. rewrite Z.mod_small; lia.
Qed.

Lemma bg_wrap_succ_diff n : bg_wrap (bg_wrap (n + 1) - n) = 1.
Proof.
  unfold bg_wrap.
  replace ((n + 1 + 2 ^ 63) mod 2 ^ 64 - 2 ^ 63 - n + 2 ^ 63) with ((n + 1 + 2 ^ 63) mod 2 ^ 64 - n) by lia.
  rewrite Zminus_mod_idemp_l.
  replace (n + 1 + 2 ^ 63 - n) with (1 + 2 ^ 63) by lia.
  reflexivity.
Qed.

(* ---------- exact (unwrapped) cost sums ---------- *)
Fixpoint bg_sum_exact (l : list bg_txn) : option Z :=
  match l with
  | [] => Some 0
  | t :: r => match bt_cost t, bg_sum_exact r with
              | Some c, Some s => Some (c + s)
              | _, _ => None
              end
  end.

Definition bg_cost_ok (t : bg_txn) : Prop := exists c, bt_cost t = Some c /\ 0 <= c < 2 ^ 63.

Lemma bg_sum_exact_app l1 l2 s1 s2 :
  bg_sum_exact l1 = Some s1 -> bg_sum_exact l2 = Some s2 -> bg_sum_exact (l1 ++ l2) = Some (s1 + s2).
Proof.
  revert s1. induction l1 as [|t r IH]; simpl; intros s1 H1 H2.
  - inversion H1; subst. rewrite H2. f_equal.
  - destruct (bt_cost t); try discriminate.
    destruct (bg_sum_exact r) eqn:E; try discriminate.
    inversion H1; subst. rewrite (IH z0 eq_refl H2). f_equal. lia.
Qed.

Lemma bg_sum_exact_nonneg l s : Forall bg_cost_ok l -> bg_sum_exact l = Some s -> 0 <= s.
Proof.
  revert s. induction l as [|t r IH]; simpl; intros s Hf Hs.
  - inversion Hs; lia.
  - inversion Hf; subst. destruct H1 as [c [Hc Hr]]. rewrite Hc in Hs.
    destruct (bg_sum_exact r) eqn:E; try discriminate. inversion Hs; subst.
    specialize (IH z H2 eq_refl). lia.
Qed.

Lemma bg_sum_exact_total l : Forall bg_cost_ok l -> exists s, bg_sum_exact l = Some s.
Proof.
  induction 1 as [|t r [c [Hc _]] _ [s Hs]]; simpl; eauto.
  rewrite Hc, Hs. eauto.
Qed.

Lemma bg_sum_exact_sub l1 l2 s2 :
  bg_sub l1 l2 -> Forall bg_cost_ok l2 -> bg_sum_exact l2 = Some s2 ->
  exists s1, bg_sum_exact l1 = Some s1 /\ 0 <= s1 <= s2.
Proof.
  intros Hs. revert s2. induction Hs; intros s2 Hf H2; simpl in *.
  - inversion H2; subst. exists 0. split; auto. lia.
  - inversion Hf; subst. destruct H1 as [c [Hc Hr]]. rewrite Hc in H2.
    destruct (bg_sum_exact l2) eqn:E; try discriminate. inversion H2; subst.
    destruct (IHHs z H3 eq_refl) as [s1 [H1 Hle]]. exists s1. split; auto. lia.
  - inversion Hf; subst. destruct H1 as [c [Hc Hr]]. rewrite Hc in *.
    destruct (bg_sum_exact l2) eqn:E; try discriminate. inversion H2; subst.
    destruct (IHHs z H3 eq_refl) as [s1 [H1 Hle]]. rewrite H1. exists (c + s1). split; auto. lia.
Qed.

(* the wrapped fold of the code equals the exact sum while everything stays below 2^63 *)
Lemma bg_sum_costs_exact l acc s :
  Forall bg_cost_ok l -> bg_sum_exact l = Some s -> 0 <= acc -> acc + s < 2 ^ 63 ->
  bg_sum_costs l acc = Some (acc + s).
Proof.
  revert acc s. induction l as [|t r IH]; simpl; intros acc s Hf Hs Ha Hb.
  - inversion Hs; subst. f_equal. lia.
  - inversion Hf; subst. destruct H1 as [c [Hc Hr]]. rewrite Hc in *.
    destruct (bg_sum_exact r) eqn:E; try discriminate. inversion Hs; subst.
    pose proof (bg_sum_exact_nonneg _ _ H2 E).
    rewrite bg_wrap_small by lia.
    rewrite (IH (acc + c) z H2 eq_refl) by lia. f_equal. lia.
Qed.

(* the verifier's guarded loop accepts exactly when the exact sum stays within the limit *)
Lemma bg_ver_costs_exact max l acc s :
  Forall bg_cost_ok l -> bg_sum_exact l = Some s -> 0 <= acc -> acc + s <= max -> max < 2 ^ 63 ->
  bg_ver_costs max l acc = Some (acc + s).
Proof.
  revert acc s. induction l as [|t r IH]; simpl; intros acc s Hf Hs Ha Hb Hm.
  - inversion Hs; subst. f_equal. lia.
  - inversion Hf; subst. destruct H1 as [c [Hc Hr]]. rewrite Hc in *.
    destruct (bg_sum_exact r) eqn:E; try discriminate. inversion Hs; subst.
    pose proof (bg_sum_exact_nonneg _ _ H2 E).
    rewrite (bg_wrap_small (max - acc)) by lia.
    destruct (Z.ltb_spec (max - acc) c); [lia|].
    rewrite bg_wrap_small by lia.
    rewrite (IH (acc + c) z H2 eq_refl) by lia. f_equal. lia.
Qed.

(* ---------- per-sender nonce continuity (statement helpers) ---------- *)
(* [nz c] is the last nonce used by sender c; a list is consecutive when every transaction's nonce
   is the successor (in int64 arithmetic) of its sender's last nonce *)
Definition bg_upd (nz : Z -> Z) (t : bg_txn) : Z -> Z :=
  fun c => if c =? bt_client t then bt_nonce t else nz c.

Fixpoint bg_consec (nz : Z -> Z) (l : list bg_txn) : Prop :=
  match l with
  | [] => True
  | t :: r => bg_wrap (bt_nonce t - nz (bt_client t)) = 1 /\ bg_consec (bg_upd nz t) r
  end.

Fixpoint bg_nzfold (nz : Z -> Z) (l : list bg_txn) : Z -> Z :=
  match l with
  | [] => nz
  | t :: r => bg_nzfold (bg_upd nz t) r
  end.

Lemma bg_nzfold_snoc nz l t : bg_nzfold nz (l ++ [t]) = bg_upd (bg_nzfold nz l) t.
Proof. revert nz. induction l; simpl; intros; auto. Qed.

Lemma bg_consec_snoc nz l t :
  bg_consec nz (l ++ [t]) <-> bg_consec nz l /\ bg_wrap (bt_nonce t - bg_nzfold nz l (bt_client t)) = 1.
Proof.
  revert nz. induction l as [|a r IH]; simpl; intros nz.
  - tauto.
  - rewrite IH. tauto.
Qed.
