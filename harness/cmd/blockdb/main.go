// Engine for C26: writes records through the real sharder/blockdb (Create, WriteData*, Save),
// reopens the database (Open uses fixedKeyArrayIndex) and looks up present and absent keys,
// repeats the lookups on truncated copies of the two files (crash points), and saves/reads real
// blocks through sharder/blockstore.  Lookups run in a child process with a watchdog so that a
// lookup that never returns is observed as "timeout" (and its spinning goroutine dies with the
// child).  The oracle is the property statement; one Gallina case per database is emitted.
package main

import (
	"bytes"
	"encoding/hex"
	"encoding/json"
	"fmt"
	"io"
	"os"
	"os/exec"
	"path/filepath"
	"reflect"
	"runtime"
	"sort"
	"strings"
	"sync"
	"time"

	"0chain.net/chaincore/block"
	"0chain.net/chaincore/transaction"
	"0chain.net/core/common"
	"0chain.net/core/datastore"
	"0chain.net/core/memorystore"
	"0chain.net/sharder/blockdb"
	"0chain.net/sharder/blockstore"
	"github.com/0chain/common/core/currency"
	"github.com/0chain/common/core/logging"
	"verifharness/vh"
)

// ---------- records ----------

type rawRec struct {
	key  string
	data []byte
}

func (r *rawRec) GetKey() blockdb.Key { return blockdb.Key(r.key) }
func (r *rawRec) Encode(w io.Writer) error {
	_, err := w.Write(r.data)
	return err
}
func (r *rawRec) Decode(rd io.Reader) error {
	b, err := io.ReadAll(rd)
	r.data = b
	return err
}

type rawHdr struct{ data []byte }

func (h *rawHdr) Encode(w io.Writer) error { _, err := w.Write(h.data); return err }
func (h *rawHdr) Decode(rd io.Reader) error {
	b, err := io.ReadAll(rd)
	h.data = b
	return err
}

// ---------- replayable input ----------

type recIn struct {
	K string `json:"k"` // hex
	P string `json:"p"` // hex
}
type cutIn struct {
	D int `json:"d"` // bytes of the data file that survive
	H int `json:"h"` // bytes of the header file that survive
}
type hist struct {
	Kind     string   `json:"kind"` // db | store
	Klen     int      `json:"klen,omitempty"`
	Compress bool     `json:"compress,omitempty"`
	Hdr      *string  `json:"hdr,omitempty"`
	Recs     []recIn  `json:"recs,omitempty"`
	Lookups  []string `json:"lookups,omitempty"`
	Cuts     []cutIn  `json:"cuts,omitempty"`
	CutLooks []string `json:"cut_lookups,omitempty"`
	Session  []string `json:"session,omitempty"` // lookups performed one after the other on one open handle
	Blocks   []blkIn  `json:"blocks,omitempty"`
	// a writer that died before Save at the same path: records it wrote + a torn tail
	Old     []recIn `json:"old,omitempty"`
	OldTail string  `json:"old_tail,omitempty"`
	HasOld  bool    `json:"has_old,omitempty"`
}

func unhex(s string) []byte {
	b, err := hex.DecodeString(s)
	if err != nil {
		panic(err)
	}
	return b
}

// ---------- worker: lookups with a watchdog ----------

type task struct {
	ID       int    `json:"id"`
	File     string `json:"file"`
	Klen     int    `json:"klen"`
	Compress bool   `json:"compress"`
	HasHdr   bool   `json:"has_hdr"`
	OpenOnly bool   `json:"open_only"`
	Key      string `json:"key"` // hex
	Keys     []string `json:"keys,omitempty"` // session: all these lookups, in this order, on ONE open handle
}
type result struct {
	ID   int    `json:"id"`
	Kind string `json:"kind"` // opened|openerr|openpanic|rec|notfound|err|panic|timeout
	Data string `json:"data"` // hex: record payload or header payload
	Multi []result `json:"multi,omitempty"` // session: one result per key
}

func runTask(t task) (res result) {
	res.ID = t.ID
	stage := "open"
	defer func() {
		if r := recover(); r != nil {
			if stage == "open" {
				res.Kind = "openpanic"
			} else {
				res.Kind = "panic"
			}
		}
	}()
	db, err := blockdb.NewBlockDB(t.File, int8(t.Klen), t.Compress)
	if err != nil {
		res.Kind = "openerr"
		return
	}
	var h *rawHdr
	if t.HasHdr {
		h = &rawHdr{}
		db.SetDBHeader(h)
	}
	if err := db.Open(); err != nil {
		res.Kind = "openerr"
		return
	}
	defer db.Close()
	if t.OpenOnly {
		res.Kind = "opened"
		if h != nil {
			res.Data = hex.EncodeToString(h.data)
		}
		return
	}
	stage = "read"
	if len(t.Keys) > 0 {
		res.Kind = "session"
		for _, k := range t.Keys {
			res.Multi = append(res.Multi, readOne(db, k))
		}
		return
	}
	rec := &rawRec{}
	err = db.Read(blockdb.Key(unhex(t.Key)), rec)
	switch {
	case err == nil:
		res.Kind = "rec"
		res.Data = hex.EncodeToString(rec.data)
	case err == blockdb.ErrKeyNotFound:
		res.Kind = "notfound"
	default:
		res.Kind = "err"
	}
	return
}

// readOne: one lookup on an already open handle.
func readOne(db *blockdb.BlockDB, key string) (r result) {
	defer func() {
		if recover() != nil {
			r.Kind = "panic"
		}
	}()
	rec := &rawRec{}
	err := db.Read(blockdb.Key(unhex(key)), rec)
	switch {
	case err == nil:
		r.Kind = "rec"
		r.Data = hex.EncodeToString(rec.data)
	case err == blockdb.ErrKeyNotFound:
		r.Kind = "notfound"
	default:
		r.Kind = "err"
	}
	return
}

const watchdog = 2 * time.Second

func workerMain() {
	runtime.GOMAXPROCS(2)
	var tasks []task
	if err := json.NewDecoder(os.Stdin).Decode(&tasks); err != nil {
		panic(err)
	}
	out := make([]result, len(tasks))
	done := make([]bool, len(tasks))
	ch := make(chan struct {
		i int
		r result
	}, len(tasks))
	for i, t := range tasks {
		go func(i int, t task) {
			r := runTask(t)
			ch <- struct {
				i int
				r result
			}{i, r}
		}(i, t)
	}
	left := len(tasks)
	timer := time.NewTimer(watchdog)
	for left > 0 {
		select {
		case x := <-ch:
			out[x.i], done[x.i] = x.r, true
			left--
			// quiet period restarts whenever something still completes
			if !timer.Stop() {
				select {
				case <-timer.C:
				default:
				}
			}
			timer.Reset(watchdog)
		case <-timer.C:
			for i := range tasks {
				if !done[i] {
					out[i] = result{ID: tasks[i].ID, Kind: "timeout"}
				}
			}
			left = 0
		}
	}
	_ = json.NewEncoder(os.Stdout).Encode(out)
	os.Exit(0) // kills goroutines that are still spinning
}

func runWorker(tasks []task) []result {
	exe, err := os.Executable()
	if err != nil {
		panic(err)
	}
	in, _ := json.Marshal(tasks)
	cmd := exec.Command(exe, "-worker")
	cmd.Stdin = bytes.NewReader(in)
	var out bytes.Buffer
	cmd.Stdout = &out
	cmd.Stderr = io.Discard
	if err := cmd.Run(); err != nil {
		panic(fmt.Sprintf("worker: %v", err))
	}
	var res []result
	if err := json.Unmarshal(out.Bytes(), &res); err != nil {
		panic(fmt.Sprintf("worker output: %v", err))
	}
	return res
}

// runTasks executes all tasks in child processes: tasks expected to return (present keys,
// opens) in large chunks, tasks that look up absent keys in small chunks; 3 children at a time.
func runTasks(tasks []task, slow map[int]bool) map[int]result {
	var fast, slowT []task
	for _, t := range tasks {
		if slow[t.ID] {
			slowT = append(slowT, t)
		} else {
			fast = append(fast, t)
		}
	}
	var chunks [][]task
	for i := 0; i < len(fast); i += 400 {
		chunks = append(chunks, fast[i:min(i+400, len(fast))])
	}
	for i := 0; i < len(slowT); i += 128 {
		chunks = append(chunks, slowT[i:min(i+128, len(slowT))])
	}
	res := map[int]result{}
	var mu sync.Mutex
	sem := make(chan struct{}, 3)
	var wg sync.WaitGroup
	for _, c := range chunks {
		wg.Add(1)
		sem <- struct{}{}
		go func(c []task) {
			defer wg.Done()
			defer func() { <-sem }()
			rs := runWorker(c)
			mu.Lock()
			for _, r := range rs {
				res[r.ID] = r
			}
			mu.Unlock()
		}(c)
	}
	wg.Wait()
	return res
}

// ---------- one database history ----------

type dbRun struct {
	h          hist
	dir        string
	old        []byte   // data file left by the crashed first writer
	wlen       int      // bytes written by the second writer
	data, hdr  []byte   // the files the real code wrote
	stored     [][]byte // stored payload per write (parsed from the data file in write order)
	layoutOK   bool
	openID     int
	lookIDs    []int
	sessionID  int
	cutOpenIDs []int
	cutLookIDs [][]int
	writeErr   string
}

var zstd = func() *common.ZStdCompDe { z := common.NewZStdCompDe(); z.SetLevel(10); return z }()

func writeDB(h hist, dir string) *dbRun {
	r := &dbRun{h: h, dir: dir}
	file := filepath.Join(dir, "db")
	if h.HasOld {
		// first attempt: Create, some WriteData, then the process dies (no Save)
		db0, err := blockdb.NewBlockDB(file, int8(h.Klen), h.Compress)
		if err != nil {
			panic(err)
		}
		if err := db0.Create(); err != nil {
			panic(err)
		}
		for _, rc := range h.Old {
			_ = db0.WriteData(&rawRec{key: string(unhex(rc.K)), data: unhex(rc.P)})
		}
		_ = db0.Close()
		if h.OldTail != "" {
			f, err := os.OpenFile(file+".dat", os.O_WRONLY|os.O_APPEND, 0o644)
			if err != nil {
				panic(err)
			}
			_, _ = f.Write(unhex(h.OldTail))
			_ = f.Close()
		}
		r.old, _ = os.ReadFile(file + ".dat")
	}
	db, err := blockdb.NewBlockDB(file, int8(h.Klen), h.Compress)
	if err != nil {
		panic(err)
	}
	if h.Hdr != nil {
		db.SetDBHeader(&rawHdr{data: unhex(*h.Hdr)})
	}
	if err := db.Create(); err != nil {
		panic(err)
	}
	for _, rc := range h.Recs {
		if err := db.WriteData(&rawRec{key: string(unhex(rc.K)), data: unhex(rc.P)}); err != nil {
			r.writeErr = err.Error()
		}
	}
	if err := db.Save(); err != nil {
		r.writeErr = err.Error()
	}
	r.data, _ = os.ReadFile(file + ".dat")
	r.hdr, _ = os.ReadFile(file + ".idx")
	// stored payloads in write order
	d := r.data
	r.layoutOK = true
	for range h.Recs {
		if len(d) < 4 {
			r.layoutOK = false
			break
		}
		n := int(int32(uint32(d[0]) | uint32(d[1])<<8 | uint32(d[2])<<16 | uint32(d[3])<<24))
		if n < 0 || len(d) < 4+n {
			r.layoutOK = false
			break
		}
		r.stored = append(r.stored, d[4:4+n])
		d = d[4+n:]
	}
	r.wlen = len(r.data) - len(d)
	// behind the written records only what was left of the old file may remain
	var tail []byte
	if r.wlen < len(r.old) {
		tail = r.old[r.wlen:]
	}
	if !bytes.Equal(d, tail) {
		r.layoutOK = false
	}
	return r
}

// lastWritten: payload most recently written under key (nil,false when never written)
func lastWritten(h hist, key string) ([]byte, int, bool) {
	for i := len(h.Recs) - 1; i >= 0; i-- {
		if h.Recs[i].K == key {
			return unhex(h.Recs[i].P), i, true
		}
	}
	return nil, -1, false
}

// ---------- block store ----------

type txIn struct {
	Hash   string `json:"hash"`
	Client string `json:"client"`
	To     string `json:"to"`
	Data   string `json:"data"`
	Value  uint64 `json:"value"`
	Fee    uint64 `json:"fee"`
	Nonce  int64  `json:"nonce"`
	TS     int64  `json:"ts"`
	Out    string `json:"out"`
	Status int    `json:"status"`
}
type blkIn struct {
	Hash     string `json:"hash"`
	Prev     string `json:"prev"`
	Round    int64  `json:"round"`
	Seed     int64  `json:"seed"`
	Miner    string `json:"miner"`
	State    string `json:"state"` // hex
	Sig      string `json:"sig"`
	Txns     []txIn `json:"txns"`
	MB       bool   `json:"mb"`
	MBHash   string `json:"mb_hash"`
	MBStart  int64  `json:"mb_start"`
	MBNumber int64  `json:"mb_number"`
	Tickets  int    `json:"tickets"`
	// other encoders used in the same process right before this block is written (pooled
	// encoder state must not leak): tomsgpack | frommsgpack | tojson | writejson
	Pre []string `json:"pre,omitempty"`
	// header / transaction fields forced to their zero value (names below), and non-default
	// values for the fields that block.Provider() pre-fills
	Zero    []string `json:"zero,omitempty"`
	Version string   `json:"version,omitempty"`
	Chain   string   `json:"chain,omitempty"`
}

var zeroable = []string{"creation_date", "version", "chain_id", "round", "prev_hash", "miner_id", "state_hash", "signature",
	"seed", "timeout_count", "lfmb_hash", "lfmb_round", "running_txn_count", "state_changes_count", "empty_txns",
	"txn_chain_id", "txn_creation_date", "txn_value_fee_nonce", "txn_strings", "txn_version"}

func hasZero(in blkIn, f string) bool {
	for _, z := range in.Zero {
		if z == f {
			return true
		}
	}
	return false
}

func mkBlock(in blkIn) *block.Block {
	b := block.NewBlock("chain-verif", in.Round)
	b.Hash = in.Hash
	b.PrevHash = in.Prev
	b.RoundRandomSeed = in.Seed
	b.MinerID = in.Miner
	b.ClientStateHash = unhex(in.State)
	b.Signature = in.Sig
	b.CreationDate = common.Timestamp(1700000000 + in.Round)
	b.LatestFinalizedMagicBlockHash = "lfmb-" + in.Prev
	b.LatestFinalizedMagicBlockRound = in.Round / 2
	b.RunningTxnCount = int64(len(in.Txns)) + in.Round
	b.StateChangesCount = len(in.Txns) * 3
	for _, t := range in.Txns {
		tx := &transaction.Transaction{}
		tx.Hash = t.Hash
		tx.ClientID = t.Client
		tx.ToClientID = t.To
		tx.TransactionData = t.Data
		tx.Value = currency.Coin(t.Value)
		tx.Fee = currency.Coin(t.Fee)
		tx.Nonce = t.Nonce
		tx.CreationDate = common.Timestamp(t.TS)
		tx.TransactionOutput = t.Out
		tx.OutputHash = "oh-" + t.Hash
		tx.Status = t.Status
		tx.ChainID = "chain-verif"
		tx.Signature = "sig-" + t.Hash
		b.Txns = append(b.Txns, tx)
	}
	for _, tx := range b.Txns {
		tx.Version = "1.0"
	}
	for i := 0; i < in.Tickets; i++ {
		b.VerificationTickets = append(b.VerificationTickets, &block.VerificationTicket{VerifierID: fmt.Sprintf("v%d", i), Signature: fmt.Sprintf("s%d-%s", i, in.Hash)})
	}
	b.RoundTimeoutCount = int(in.Round % 5)
	if in.Version != "" {
		b.Version = in.Version
	}
	if in.Chain != "" {
		b.ChainID = in.Chain
	}
	for _, z := range in.Zero {
		switch z {
		case "creation_date":
			b.CreationDate = 0
		case "version":
			b.Version = ""
		case "chain_id":
			b.ChainID = ""
		case "round":
			b.Round = 0
		case "prev_hash":
			b.PrevHash = ""
		case "miner_id":
			b.MinerID = ""
		case "state_hash":
			b.ClientStateHash = nil
		case "signature":
			b.Signature = ""
		case "seed":
			b.RoundRandomSeed = 0
		case "timeout_count":
			b.RoundTimeoutCount = 0
		case "lfmb_hash":
			b.LatestFinalizedMagicBlockHash = ""
		case "lfmb_round":
			b.LatestFinalizedMagicBlockRound = 0
		case "running_txn_count":
			b.RunningTxnCount = 0
		case "state_changes_count":
			b.StateChangesCount = 0
		case "empty_txns":
			b.Txns = []*transaction.Transaction{}
		}
		for _, tx := range b.Txns {
			switch z {
			case "txn_chain_id":
				tx.ChainID = ""
			case "txn_creation_date":
				tx.CreationDate = 0
			case "txn_value_fee_nonce":
				tx.Value, tx.Fee, tx.Nonce, tx.Status = 0, 0, 0, 0
			case "txn_strings":
				tx.ClientID, tx.ToClientID, tx.TransactionData, tx.TransactionOutput, tx.OutputHash, tx.Signature, tx.PublicKey = "", "", "", "", "", "", ""
			case "txn_version":
				tx.Version = ""
			}
		}
	}
	if in.MB {
		mb := block.NewMagicBlock()
		mb.Hash = in.MBHash
		mb.PreviousMagicBlockHash = "prev-" + in.MBHash
		mb.MagicBlockNumber = in.MBNumber
		mb.StartingRound = in.MBStart
		mb.T, mb.K, mb.N = 2, 3, 4
		b.MagicBlock = mb
	}
	return b
}

// canon: JSON view of a block (hash, header, transactions with outputs, magic block) with
// null/empty containers dropped, so that nil vs empty is not a difference.
func canon(v interface{}) string {
	raw, err := json.Marshal(v)
	if err != nil {
		return "marshal-error:" + err.Error()
	}
	var x interface{}
	_ = json.Unmarshal(raw, &x)
	out, _ := json.Marshal(strip(x))
	return string(out)
}
func strip(x interface{}) interface{} {
	switch t := x.(type) {
	case map[string]interface{}:
		m := map[string]interface{}{}
		for k, v := range t {
			s := strip(v)
			if s != nil {
				m[k] = s
			}
		}
		if len(m) == 0 {
			return nil
		}
		return m
	case []interface{}:
		if len(t) == 0 {
			return nil
		}
		o := make([]interface{}, len(t))
		for i, v := range t {
			o[i] = strip(v)
		}
		return o
	}
	return x
}

var storeOnce sync.Once

// runStore: writes the blocks through BlockStore.Write, reads every hash back.
func runStore(h hist, dir string, kinds map[string]int) string {
	storeOnce.Do(func() {
		logging.InitLogging("development", "")
		block.SetupEntity(memorystore.GetStorageProvider())
	})
	blockstore.Init(dir, nil)
	st := blockstore.GetStore()
	last := map[string]*block.Block{}
	var order []string
	fail := ""
	for _, in := range h.Blocks {
		b := mkBlock(in)
		for _, pre := range in.Pre {
			func() {
				defer func() { _ = recover() }()
				switch pre {
				case "tomsgpack":
					_ = datastore.ToMsgpack(b).Len()
				case "frommsgpack":
					// the n2n / memory-store codec: what it encodes it decodes to an equal block
					buf := datastore.ToMsgpack(b).Bytes()
					nb := block.Provider().(*block.Block)
					if err := common.FromMsgpack(buf, nb); err == nil && canon(nb) != canon(b) && fail == "" {
						fail = "msgpack-entity-codec-read-back-differs"
					}
				case "tojson":
					_ = datastore.ToJSON(b).Len()
				case "writejson":
					_ = datastore.WriteJSON(io.Discard, b)
				}
				kinds["interleaved-"+pre]++
			}()
		}
		if err := st.Write(b); err != nil {
			kinds["store-write-error"]++
			if len(in.Hash) >= 5 && fail == "" {
				fail = "store-write-failed"
			}
			continue
		}
		kinds["store-write"]++
		if _, ok := last[in.Hash]; !ok {
			order = append(order, in.Hash)
		}
		last[in.Hash] = b
		if b.MagicBlock != nil && b.Round == b.MagicBlock.StartingRound {
			kinds["store-write-magic-block-copy"]++
			if _, ok := last[in.MBHash]; !ok {
				order = append(order, in.MBHash)
			}
			last[in.MBHash] = b
		}
	}
	for _, hash := range order {
		want := last[hash]
		got, err := st.Read(hash)
		if err != nil {
			if os.Getenv("VERIF_DEBUG") != "" {
				fmt.Fprintln(os.Stderr, "READ ERR", err, "zero:", h.Blocks)
			}
			if fail == "" {
				fail = "store-read-failed"
			}
			continue
		}
		kinds["store-read"]++
		if canon(got) != canon(want) && fail == "" {
			fail = "store-read-back-differs"
		}
		if got.Hash != want.Hash && fail == "" {
			fail = "store-read-back-hash"
		}
		if !reflect.DeepEqual(got.ClientStateHash, want.ClientStateHash) && fail == "" {
			fail = "store-read-back-differs"
		}
	}
	// a hash that was never written
	if _, err := st.Read("00000absent"); err == nil {
		if fail == "" {
			fail = "store-absent-hash-returns-block"
		}
	} else {
		kinds["store-absent-not-found"]++
	}
	return fail
}

// ---------- generators ----------

func randBytes(r *vh.Rand, n int, alpha []byte) []byte {
	b := make([]byte, n)
	for i := range b {
		if alpha != nil {
			b[i] = alpha[r.Intn(len(alpha))]
		} else {
			b[i] = byte(r.Intn(256))
		}
	}
	return b
}

func genDB(r *vh.Rand, big bool) hist {
	h := hist{Kind: "db"}
	klens := []int{1, 1, 2, 2, 3, 4, 8, 16}
	if big {
		klens = append(klens, 32, 64, 64, 118)
	}
	h.Klen = klens[r.Intn(len(klens))]
	h.Compress = r.Chance(1, 4)
	if r.Chance(1, 3) {
		s := hex.EncodeToString(randBytes(r, r.Range(0, 12), nil))
		h.Hdr = &s
	}
	alpha := []byte{0, 1, 2, 127, 128, 254, 255}
	if r.Chance(1, 3) {
		alpha = nil
	}
	n := r.Range(0, 12)
	if big {
		n = r.Range(0, 60)
	}
	large := 0
	switch {
	case !big && r.Chance(1, 30):
		large = 3 // just above 4 KB (kept rare: every byte is a Gallina list element)
		n = r.Range(10, 12)
	case big && r.Chance(1, 4):
		large = 2
		n = r.Range(30, 60)
	case big && r.Chance(1, 3):
		large = 1
		n = r.Range(10, 40)
	}
	if large == 0 && r.Chance(1, 12) {
		n = 0
	}
	if large == 0 && r.Chance(1, 8) {
		n = 1
	}
	var keys []string
	for i := 0; i < n; i++ {
		var k string
		if len(keys) > 0 && r.Chance(1, 8) {
			k = keys[r.Intn(len(keys))] // written again: the later record wins
		} else {
			k = hex.EncodeToString(randBytes(r, h.Klen, alpha))
		}
		keys = append(keys, k)
		pl := r.Range(0, 24)
		if r.Chance(1, 10) {
			pl = 0
		}
		if big && r.Chance(1, 10) {
			pl = r.Range(200, 3000)
		}
		if large == 3 {
			pl = r.Range(420, 460)
		} else if large == 1 { // data file well above the 4 KB of a bufio.Reader
			pl = r.Range(300, 700)
		} else if large == 2 { // above 64 KB
			pl = r.Range(1500, 4000)
		}
		var p []byte
		if r.Bool() {
			p = randBytes(r, pl, nil)
		} else {
			p = bytes.Repeat([]byte{byte(r.Intn(256))}, pl) // compressible
		}
		h.Recs = append(h.Recs, recIn{K: k, P: hex.EncodeToString(p)})
	}
	// 1 in 3: a writer died at this path before Save, leaving a data file of some length
	if r.Chance(1, 3) {
		h.HasOld = true
		no := r.Range(0, n+3)
		for i := 0; i < no; i++ {
			k := hex.EncodeToString(randBytes(r, h.Klen, alpha))
			if len(keys) > 0 && r.Bool() {
				k = keys[r.Intn(len(keys))]
			}
			h.Old = append(h.Old, recIn{K: k, P: hex.EncodeToString(randBytes(r, r.Range(0, 30), nil))})
		}
		if r.Bool() {
			h.OldTail = hex.EncodeToString(randBytes(r, r.Range(1, 9), nil))
		}
	}
	// lookups: every written key, plus absent keys around them
	seen := map[string]bool{}
	add := func(k string) {
		if !seen[k] {
			seen[k] = true
			h.Lookups = append(h.Lookups, k)
		}
	}
	for _, k := range keys {
		add(k)
	}
	absent := func() string {
		switch r.Intn(7) {
		case 0:
			return hex.EncodeToString(bytes.Repeat([]byte{0}, h.Klen)) // below (or equal to) the smallest
		case 1:
			return hex.EncodeToString(bytes.Repeat([]byte{255}, h.Klen)) // above the largest
		case 2, 3:
			if len(keys) > 0 { // neighbour of a stored key
				b := unhex(keys[r.Intn(len(keys))])
				if r.Bool() {
					b[len(b)-1]++
				} else {
					b[len(b)-1]--
				}
				return hex.EncodeToString(b)
			}
		case 4:
			if h.Klen > 1 { // shorter than the configured key length
				return hex.EncodeToString(randBytes(r, h.Klen-1, alpha))
			}
		case 5: // longer
			return hex.EncodeToString(randBytes(r, h.Klen+1, alpha))
		}
		return hex.EncodeToString(randBytes(r, h.Klen, alpha))
	}
	na := r.Range(2, 5)
	for i := 0; i < na; i++ {
		add(absent())
	}
	// one open handle, many lookups: reverse order, repeats, random order, absent keys in between
	{
		var ks []string
		for i := len(keys) - 1; i >= 0; i-- {
			ks = append(ks, keys[i])
		}
		extra := len(keys) + 3
		if !big && extra > 7 {
			extra = 7
		}
		for i := 0; i < extra; i++ {
			if len(keys) > 0 && !r.Chance(1, 4) {
				k := keys[r.Intn(len(keys))]
				ks = append(ks, k)
				if r.Chance(1, 3) {
					ks = append(ks, k) // the same key again
				}
			} else {
				ks = append(ks, absent())
			}
		}
		h.Session = ks
	}
	// crash points: the files cut at sampled byte positions (sizes are known only after
	// writing; -1 placeholders are resolved by resolveCuts)
	nc := 4
	if big {
		nc = 8
	}
	for i := 0; i < nc; i++ {
		h.Cuts = append(h.Cuts, cutIn{D: -1 - r.Intn(1<<20), H: -1 - r.Intn(1<<20)})
	}
	for i := 0; i < 3 && i < len(keys); i++ {
		k := keys[r.Intn(len(keys))]
		dup := false
		for _, x := range h.CutLooks {
			dup = dup || x == k
		}
		if !dup {
			h.CutLooks = append(h.CutLooks, k)
		}
	}
	h.CutLooks = append(h.CutLooks, absent())
	return h
}

// resolveCuts turns the placeholders into byte positions: header cuts favour the boundaries
// (nothing, inside numKeys, inside the index, index complete, inside the dbHeader, complete),
// data cuts favour the last record.
func resolveCuts(h *hist, dataLen, hdrLen, idxLen int, recStarts []int) {
	for i, c := range h.Cuts {
		seq := h.HasOld // over a leftover file only sequential crash states are meaningful
		if c.D >= 0 && c.H >= 0 {
			continue
		}
		x, y := -1-c.D, -1-c.H
		var d, hh int
		switch i % 4 {
		case 0: // crash while writing data: no header yet
			hh = 0
			d = pick(x, dataLen)
		case 1: // crash inside the last record, header complete (files written independently)
			hh = hdrLen
			if len(recStarts) > 0 {
				s := recStarts[len(recStarts)-1]
				d = s + pick(x, dataLen-s)
			} else {
				d = pick(x, dataLen)
			}
		case 2: // crash while writing the header
			d = dataLen
			hh = pick(y, hdrLen)
		default:
			d = pick(x, dataLen)
			switch y % 4 {
			case 0:
				hh = idxLen
			case 1:
				hh = pick(y/4, 5)
			default:
				hh = pick(y/4, hdrLen)
			}
		}
		if hh > hdrLen {
			hh = hdrLen
		}
		if seq && hh > 0 {
			d = dataLen // the header is written after all the data
		}
		h.Cuts[i] = cutIn{D: d, H: hh}
	}
}
func pick(x, n int) int {
	if n <= 0 {
		return 0
	}
	switch x % 5 {
	case 0:
		return n - 1
	case 1:
		return n
	}
	return (x / 5) % (n + 1)
}

func genStore(r *vh.Rand) hist {
	h := hist{Kind: "store"}
	n := r.Range(1, 12)
	hx := func(n int) string { return hex.EncodeToString(randBytes(r, n, nil)) }
	var hashes []string
	for i := 0; i < n; i++ {
		in := blkIn{Hash: hx(32), Prev: hx(32), Round: int64(r.Range(1, 1<<20)), Seed: int64(r.U64()), Miner: hx(32), State: hx(32), Sig: hx(48), Tickets: r.Range(0, 3)}
		if len(hashes) > 0 && r.Chance(1, 6) {
			in.Hash = hashes[r.Intn(len(hashes))] // written again under the same hash
		}
		hashes = append(hashes, in.Hash)
		nt := r.Range(0, 5)
		for j := 0; j < nt; j++ {
			vals := []uint64{0, 1, 1 << 53, 1<<63 - 1, 1 << 63, 1<<64 - 1, uint64(r.Intn(1000000))}
			in.Txns = append(in.Txns, txIn{Hash: hx(32), Client: hx(32), To: hx(32), Data: string(randBytes(r, r.Range(0, 40), []byte("abc{}\":, \x00\xff"))),
				Value: r.PickU64(vals), Fee: r.PickU64(vals), Nonce: int64(r.Range(0, 100)), TS: int64(r.Range(0, 1<<31)), Out: string(randBytes(r, r.Range(0, 30), []byte("xyz\n\\\"é"))), Status: r.Range(0, 3)})
		}
		if r.Chance(1, 3) {
			in.MB = true
			in.MBHash = hx(32)
			in.MBNumber = int64(r.Range(1, 50))
			in.MBStart = in.Round
			if r.Chance(1, 3) {
				in.MBStart = in.Round - 1 // carries a magic block, not its starting round
			}
		}
		// every field at its zero value, one at a time (cycling) and in combination, and values
		// that differ from what block.Provider() pre-fills
		switch r.Intn(4) {
		case 0:
			in.Zero = []string{zeroable[(i+int(in.Round))%len(zeroable)]}
		case 1:
			for _, z := range zeroable {
				if r.Chance(1, 3) {
					in.Zero = append(in.Zero, z)
				}
			}
		case 2:
			in.Zero = append([]string{}, zeroable...)
		}
		if r.Bool() {
			in.Version, in.Chain = "2.7", hx(32)
		}
		for k := r.Intn(4); k > 0; k-- {
			in.Pre = append(in.Pre, []string{"tomsgpack", "frommsgpack", "tojson", "writejson", "tomsgpack"}[r.Intn(5)])
		}
		h.Blocks = append(h.Blocks, in)
	}
	return h
}

// ---------- Coq printing ----------

func zbytes(b []byte) string { return vh.Bytes(b) }

func outTerm(r result, compress bool) string {
	switch r.Kind {
	case "rec":
		return "(OcRec " + zbytes(unhex(r.Data)) + ")"
	case "notfound":
		return "OcNotFound"
	case "timeout":
		return "OcTimeout"
	case "err":
		return "OcErr"
	case "panic":
		return "OcPanic"
	}
	return "OcOpenFailed"
}

func openTerm(r result) string {
	switch r.Kind {
	case "opened":
		return "(OoOk " + zbytes(unhex(r.Data)) + ")"
	case "openerr":
		return "OoErr"
	}
	return "OoPanic"
}

func key(h hist) string {
	b, _ := json.Marshal(h)
	return string(b)
}

func main() {
	if len(os.Args) > 1 && os.Args[1] == "-worker" {
		workerMain()
		return
	}
	o := vh.ParseFlags()
	rep := vh.NewReport("blockdb", "C26", o)
	rep.CaseInputs = []interface{}{}
	rep.Rule = "databases: key length 1-16 (oracle-only runs also 32/64/118), 0-12 (0-60) records over a colliding byte alphabet, " +
		"1 in 8 keys written twice, payloads 0-24 bytes (sometimes 200-3000), 1 in 4 compressed, 1 in 3 with a dbHeader; lookups = every written key + 2-5 absent keys " +
		"(below, above, neighbours, shorter, longer, random), each on a fresh handle, plus a session of many lookups on ONE open handle (reverse write order, repeats, random order, absent keys in between; data files below 4 KB, above 4 KB and above 64 KB); 4-8 crash cuts of the two files (no header, torn last record, torn header, both); " +
		"1 in 3 databases are written over the data file of a writer that died before Save at the same path (0..n+3 records + torn tail; crash cuts then sequential); block store: 1-6 blocks with 0-5 transactions, edge coin values, rewritten hashes, magic blocks at/off their starting round. " +
		"non-trivial db = at least 2 distinct keys read back and at least one absent-key lookup and one crash cut whose Open failed and one that opened; " +
		"non-trivial store = at least one block with transactions read back; distinct by full input"
	cf := &vh.CasesFile{Imports: []string{"Base.Corr", "Model.BlockDB", "Corr.BlockDB"}, CaseType: "bdc_case", CheckFn: "bdc_check", Shard: 60}

	scratch := filepath.Join("/var/tmp/vs", fmt.Sprintf("codec-c26-%d", os.Getpid()))
	_ = os.RemoveAll(scratch)
	if err := os.MkdirAll(scratch, 0o755); err != nil {
		panic(err)
	}
	defer os.RemoveAll(scratch)

	type item struct {
		h     hist
		toCoq bool
		run   *dbRun
	}
	var items []*item
	var rh hist
	if o.LoadReplay(&rh) {
		items = append(items, &item{h: rh, toCoq: rh.Kind == "db"})
	} else {
		rnd := vh.NewRand(o.Seed)
		for i := 0; i < o.N(110, 900); i++ {
			items = append(items, &item{h: genDB(rnd, false), toCoq: true})
		}
		for i := 0; i < o.N(30, 400); i++ {
			items = append(items, &item{h: genDB(rnd, true), toCoq: false})
		}
		for i := 0; i < o.N(40, 400); i++ {
			items = append(items, &item{h: genStore(rnd)})
		}
	}

	// compression round trip (the hypothesis of the theorems) on the real library
	{
		rnd := vh.NewRand(o.Seed + 77)
		for i := 0; i < 50; i++ {
			x := randBytes(rnd, rnd.Range(0, 400), nil)
			if i%2 == 0 {
				x = bytes.Repeat([]byte{byte(i)}, rnd.Range(0, 5000))
			}
			c, err := zstd.Compress(x)
			var y []byte
			if err == nil {
				y, err = zstd.Decompress(c)
			}
			if err != nil || !bytes.Equal(x, y) {
				rep.Violate("C26:compression-round-trip", "zstd Decompress(Compress(x)) != x", hex.EncodeToString(x))
			}
			rep.Count("zstd-round-trip")
		}
	}

	// phase A: write every database with the real code, lay out the crash copies, plan lookups
	var tasks []task
	slow := map[int]bool{}
	nextID := 0
	newTask := func(t task, isSlow bool) int {
		t.ID = nextID
		nextID++
		tasks = append(tasks, t)
		if isSlow {
			slow[t.ID] = true
		}
		return t.ID
	}
	for i, it := range items {
		if it.h.Kind != "db" {
			continue
		}
		dir := filepath.Join(scratch, fmt.Sprintf("h%d", i))
		_ = os.MkdirAll(dir, 0o755)
		run := writeDB(it.h, dir)
		it.run = run
		// positions for the cuts
		var starts []int
		pos := 0
		for _, s := range run.stored {
			starts = append(starts, pos)
			pos += 4 + len(s)
		}
		distinct := map[string]bool{}
		for _, rc := range it.h.Recs {
			distinct[rc.K] = true
		}
		idxLen := 4 + len(distinct)*(it.h.Klen+9)
		resolveCuts(&it.h, run.wlen, len(run.hdr), idxLen, starts)
		run.h = it.h
		base := task{File: filepath.Join(dir, "db"), Klen: it.h.Klen, Compress: it.h.Compress, HasHdr: it.h.Hdr != nil}
		t := base
		t.OpenOnly = true
		run.openID = newTask(t, false)
		for _, k := range it.h.Lookups {
			t := base
			t.Key = k
			_, _, present := lastWritten(it.h, k)
			run.lookIDs = append(run.lookIDs, newTask(t, !present))
		}
		run.sessionID = -1
		if len(it.h.Session) > 0 {
			t := base
			t.Keys = it.h.Session
			run.sessionID = newTask(t, false)
		}
		for ci, c := range it.h.Cuts {
			cdir := filepath.Join(dir, fmt.Sprintf("c%d", ci))
			_ = os.MkdirAll(cdir, 0o755)
			d, hh := c.D, c.H
			if d > run.wlen {
				d = run.wlen
			}
			if hh > len(run.hdr) {
				hh = len(run.hdr)
			}
			cutData := append([]byte{}, run.data[:d]...)
			if d < len(run.old) {
				cutData = append(cutData, run.old[d:]...)
			}
			_ = os.WriteFile(filepath.Join(cdir, "db.dat"), cutData, 0o644)
			if hh > 0 { // a crash before Save leaves no header file at all
				_ = os.WriteFile(filepath.Join(cdir, "db.idx"), run.hdr[:hh], 0o644)
			}
			cb := base
			cb.File = filepath.Join(cdir, "db")
			t := cb
			t.OpenOnly = true
			run.cutOpenIDs = append(run.cutOpenIDs, newTask(t, false))
			var ids []int
			for _, k := range it.h.CutLooks {
				t := cb
				t.Key = k
				_, _, present := lastWritten(it.h, k)
				if !present && len(it.h.Cuts) > 1 && ci%4 != 3 {
					ids = append(ids, -1) // absent keys are looked up in every fourth cut only
					continue
				}
				ids = append(ids, newTask(t, !present))
			}
			run.cutLookIDs = append(run.cutLookIDs, ids)
		}
	}

	// phase B: the lookups, in children with a watchdog
	t0 := time.Now()
	res := runTasks(tasks, slow)
	rep.Note("%d lookups/opens on the real code in child processes (watchdog %v of silence = timeout), %.1fs", len(tasks), watchdog, time.Since(t0).Seconds())

	// phase C: oracle + cases
	type candT struct {
		h   hist
		key string
		cut int
	}
	cand := map[string]candT{}
	for i, it := range items {
		kinds := map[string]int{}
		fail := ""
		if it.h.Kind == "store" {
			dir := filepath.Join(scratch, fmt.Sprintf("s%d", i))
			fail = runStore(it.h, dir, kinds)
			_ = os.RemoveAll(dir)
			for k, n := range kinds {
				rep.CountN(k, n)
			}
			nt := false
			for _, b := range it.h.Blocks {
				nt = nt || len(b.Txns) > 0
			}
			rep.Case(key(it.h), nt && kinds["store-read"] > 0, it.h)
			if fail != "" {
				// minimise: drop blocks while it still fails
				keep := vh.ShrinkIdx(len(it.h.Blocks), func(keep []int) bool {
					h2 := hist{Kind: "store"}
					for _, j := range keep {
						h2.Blocks = append(h2.Blocks, it.h.Blocks[j])
					}
					d2 := filepath.Join(scratch, "shrink")
					f2 := runStore(h2, d2, map[string]int{})
					_ = os.RemoveAll(d2)
					return f2 == fail
				})
				h2 := hist{Kind: "store"}
				for _, j := range keep {
					h2.Blocks = append(h2.Blocks, it.h.Blocks[j])
				}
				rep.Violate("C26:"+fail, "block store: "+fail, h2)
			}
			continue
		}
		run := it.run
		h := it.h
		type fkT struct {
			key string
			cut int
		}
		fails := map[string]fkT{}
		addFail := func(f, k string, cut int) {
			if _, ok := fails[f]; !ok {
				fails[f] = fkT{k, cut}
			}
		}
		if run.writeErr != "" {
			addFail("write-error", "", -1)
		}
		if h.HasOld {
			if len(run.old) > run.wlen {
				kinds["recreate-leftover-longer-than-new-data"]++
			} else if len(run.old) > 0 {
				kinds["recreate-leftover-not-longer"]++
			} else {
				kinds["recreate-leftover-empty"]++
			}
		}
		if !run.layoutOK {
			kinds["data-file-layout-unexpected"]++ // not a property failure by itself; the model comparison reports it
		}
		// stored payloads decode to what was written
		if run.layoutOK {
			for j, rc := range h.Recs {
				want := unhex(rc.P)
				got := run.stored[j]
				if h.Compress {
					var err error
					got, err = zstd.Decompress(got)
					if err != nil {
						got = nil
					}
				}
				if !bytes.Equal(got, want) {
					kinds["stored-record-differs"]++
				}
			}
		}
		// reopened database
		op := res[run.openID]
		if op.Kind != "opened" {
			addFail("open-after-save-failed", "", -1)
		} else if h.Hdr != nil && op.Data != *h.Hdr {
			addFail("header-read-back-differs", "", -1)
		}
		distinctRead := 0
		for j, k := range h.Lookups {
			r := res[run.lookIDs[j]]
			want, _, present := lastWritten(h, k)
			if present {
				switch {
				case r.Kind == "rec" && bytes.Equal(unhex(r.Data), want):
					kinds["present-key-read-back"]++
					distinctRead++
				case r.Kind == "rec":
					kinds["present-key-wrong-record"]++
					addFail("present-key-wrong-record", k, -1)
				case r.Kind == "timeout":
					addFail("present-key-lookup-hangs", k, -1)
				default:
					kinds["present-key-"+r.Kind]++
					addFail("present-key-not-read", k, -1)
				}
			} else {
				switch r.Kind {
				case "notfound":
					kinds["absent-key-not-found"]++
				case "timeout":
					kinds["absent-key-timeout"]++
					addFail("absent-key-lookup-hangs", k, -1)
				case "rec":
					kinds["absent-key-returns-record"]++
					addFail("absent-key-returns-record", k, -1)
				default:
					kinds["absent-key-"+r.Kind]++
					addFail("absent-key-" + r.Kind, k, -1)
				}
			}
		}
		// many lookups on one open handle: every one returns exactly the record of its key
		var sess []result
		if run.sessionID >= 0 {
			sr := res[run.sessionID]
			sess = sr.Multi
			if sr.Kind != "session" || len(sess) != len(h.Session) {
				if sr.Kind == "timeout" {
					addFail("same-handle-lookup-hangs", "", -1)
				} else {
					addFail("same-handle-session-failed", "", -1)
				}
				sess = nil
			}
			for j, r := range sess {
				k := h.Session[j]
				want, _, present := lastWritten(h, k)
				switch {
				case present && r.Kind == "rec" && bytes.Equal(unhex(r.Data), want):
					kinds["same-handle-read-back"]++
				case present:
					kinds["same-handle-"+r.Kind+"-for-present-key"]++
					addFail("same-handle-read-returns-another-record", k, -1)
				case r.Kind == "notfound":
					kinds["same-handle-absent-not-found"]++
				default:
					kinds["same-handle-absent-"+r.Kind]++
					addFail("same-handle-absent-key-"+r.Kind, k, -1)
				}
			}
		}
		// crash cuts
		cutFailed, cutOpened := 0, 0
		for ci := range h.Cuts {
			op := res[run.cutOpenIDs[ci]]
			switch op.Kind {
			case "openpanic":
				kinds["cut-open-panic"]++
				addFail("crash-prefix-open-panics", "", ci)
				continue
			case "openerr":
				kinds["cut-open-fails"]++
				cutFailed++
				continue
			}
			kinds["cut-open-ok"]++
			cutOpened++
			for j, k := range h.CutLooks {
				if run.cutLookIDs[ci][j] < 0 {
					continue
				}
				r := res[run.cutLookIDs[ci][j]]
				want, _, present := lastWritten(h, k)
				switch r.Kind {
				case "rec":
					if !present || !bytes.Equal(unhex(r.Data), want) {
						addFail("crash-prefix-wrong-record", k, ci)
					} else {
						kinds["cut-read-ok"]++
					}
				case "panic":
					addFail("crash-prefix-read-panics", k, ci)
				case "timeout":
					if present {
						addFail("present-key-lookup-hangs", k, ci)
					} else {
						kinds["cut-absent-key-timeout"]++
						addFail("absent-key-lookup-hangs", k, ci)
					}
				default:
					kinds["cut-read-"+r.Kind]++
				}
			}
		}
		for k, n := range kinds {
			rep.CountN(k, n)
		}
		absentN := 0
		for _, k := range h.Lookups {
			if _, _, p := lastWritten(h, k); !p {
				absentN++
			}
		}
		rep.Case(key(h), distinctRead >= 2 && absentN > 0 && cutFailed > 0 && cutOpened > 0, h)
		if it.toCoq {
			var ws, looks, cuts, plain []string
			for j, rc := range h.Recs {
				st := unhex(rc.P)
				if run.layoutOK {
					st = run.stored[j]
				}
				ws = append(ws, vh.Pair(zbytes(unhex(rc.K)), zbytes(st)))
				if h.Compress {
					plain = append(plain, zbytes(unhex(rc.P)))
				}
			}
			sh := []byte{}
			if h.Hdr != nil {
				sh = unhex(*h.Hdr)
				if h.Compress { // stored header = what the real code wrote after the index
					distinct := map[string]bool{}
					for _, rc := range h.Recs {
						distinct[rc.K] = true
					}
					n := 4 + len(distinct)*(h.Klen+9)
					if n <= len(run.hdr) {
						sh = run.hdr[n:]
					}
				}
			}
			for j, k := range h.Lookups {
				looks = append(looks, vh.Pair(zbytes(unhex(k)), outTerm(res[run.lookIDs[j]], h.Compress)))
			}
			var sessT []string
			for j, r := range sess {
				sessT = append(sessT, vh.Pair(zbytes(unhex(h.Session[j])), outTerm(r, h.Compress)))
			}
			for ci, c := range h.Cuts {
				var cl []string
				for j, k := range h.CutLooks {
					if run.cutLookIDs[ci][j] < 0 {
						continue
					}
					cl = append(cl, vh.Pair(zbytes(unhex(k)), outTerm(res[run.cutLookIDs[ci][j]], h.Compress)))
				}
				cuts = append(cuts, fmt.Sprintf("{| bdc_cut_d := %s; bdc_cut_h := %s; bdc_cut_open := %s; bdc_cut_looks := %s |}",
					vh.Nat(c.D), vh.Nat(c.H), openTerm(res[run.cutOpenIDs[ci]]), vh.List(cl)))
			}
			hdrPlain := "None"
			if h.Hdr != nil {
				hdrPlain = vh.Some(zbytes(unhex(*h.Hdr)))
			}
			cf.Add(fmt.Sprintf("{| bdc_klen := %s; bdc_comp := %s; bdc_ws := %s; bdc_plain := %s; bdc_sh := %s; bdc_hdr_plain := %s; bdc_old := %s; bdc_data := %s; bdc_hdr := %s; bdc_open_out := %s; bdc_looks := %s; bdc_session := %s; bdc_cuts := %s |}",
				vh.Nat(h.Klen), vh.Bool(h.Compress), vh.List(ws), vh.List(plain), zbytes(sh), hdrPlain, zbytes(run.old), zbytes(run.data), zbytes(run.hdr),
				openTerm(res[run.openID]), vh.List(looks), vh.List(sessT), vh.List(cuts)))
			rep.CaseInputs = append(rep.CaseInputs, h)
		}
		for fail, fk := range fails {
			// minimal replay: only the failing lookup / cut; the smallest such history per
			// signature is kept and shrunk after the loop
			failKey, failCut := fk.key, fk.cut
			h2 := h
			if failKey != "" {
				if failCut >= 0 {
					h2.Lookups = nil
					h2.CutLooks = []string{failKey}
					h2.Cuts = []cutIn{h.Cuts[failCut]}
				} else if strings.HasPrefix(fail, "same-handle") {
					h2.Lookups = nil
					h2.Cuts = nil
					h2.CutLooks = nil
				} else {
					h2.Lookups = []string{failKey}
					h2.Session = nil
					h2.Cuts = nil
					h2.CutLooks = nil
				}
			} else if failCut >= 0 {
				h2.Cuts = []cutIn{h.Cuts[failCut]}
			}
			if old, ok := cand[fail]; !ok || len(h2.Recs)+len(h2.Old) < len(old.h.Recs)+len(old.h.Old) {
				cand[fail] = candT{h2, failKey, failCut}
			}
		}
	}
	var sigs []string
	for f := range cand {
		sigs = append(sigs, f)
	}
	sort.Strings(sigs)
	deadline := time.Now().Add(12 * time.Second)
	for _, fail := range sigs {
		c := cand[fail]
		h2 := c.h
		if c.cut < 0 && !strings.Contains(fail, "hangs") {
			keep := vh.ShrinkIdx(len(h2.Recs), func(keep []int) bool {
				if time.Now().After(deadline) {
					return false
				}
				h3 := h2
				h3.Recs = nil
				for _, j := range keep {
					h3.Recs = append(h3.Recs, h2.Recs[j])
				}
				return quickFail(h3, scratch) == fail
			})
			var recs []recIn
			for _, j := range keep {
				recs = append(recs, h2.Recs[j])
			}
			h2.Recs = recs
		}
		rep.Violate("C26:"+fail, "block db: "+fail+" (key "+c.key+")", h2)
	}
	sortNotes(rep)
	files, err := cf.Write(o.Out, "C26")
	if err != nil {
		panic(err)
	}
	rep.CaseFiles = files
	rep.ShardSize = 60
	rep.Write(o.Out)
}

func sortNotes(rep *vh.Report) { sort.Strings(rep.Notes) }

// quickFail re-runs a reduced history (lookups only, no cuts) and returns its first failure.
func quickFail(h hist, scratch string) string {
	dir := filepath.Join(scratch, "shrink")
	_ = os.RemoveAll(dir)
	_ = os.MkdirAll(dir, 0o755)
	defer os.RemoveAll(dir)
	run := writeDB(h, dir)
	if run.writeErr != "" {
		return "write-error"
	}
	var tasks []task
	slow := map[int]bool{}
	for i, k := range h.Lookups {
		_, _, present := lastWritten(h, k)
		tasks = append(tasks, task{ID: i, File: filepath.Join(dir, "db"), Klen: h.Klen, Compress: h.Compress, HasHdr: h.Hdr != nil, Key: k})
		slow[i] = !present
	}
	res := runTasks(tasks, slow)
	for i, k := range h.Lookups {
		want, _, present := lastWritten(h, k)
		r := res[i]
		if present {
			switch {
			case r.Kind == "rec" && bytes.Equal(unhex(r.Data), want):
			case r.Kind == "rec":
				return "present-key-wrong-record"
			case r.Kind == "timeout":
				return "present-key-lookup-hangs"
			default:
				return "present-key-not-read"
			}
		} else {
			switch r.Kind {
			case "notfound":
			case "timeout":
				return "absent-key-lookup-hangs"
			case "rec":
				return "absent-key-returns-record"
			default:
				return "absent-key-" + r.Kind
			}
		}
	}
	return ""
}

var _ = strings.Join
