(* C12: an allocation's challenge pool equals its blobbers' outstanding values.
   Only statements; each is closed by [exact] of a lemma of Proof/Storage.v.
   [st_c12 s]: for every open allocation of the model state the challenge pool node exists and its
   balance is the sum of the per-blobber ChallengePoolIntegralValue (all values >= 0, the sum fits
   uint64, the write pool is >= 0).
   Two defects found by this check were repaired in /repo and the model follows the repaired code:
   24f47c9 (replaceBlobber's killed branch did not save the challenge pool) and f86df8b
   (adjustChallengePool subtracted from ChallengePoolIntegralValue unchecked). *)
From Coq Require Import ZArith List Bool.
From ZC Require Import Model.F64 Model.Storage Proof.StorageUtil Proof.Storage Proof.StorageWitness.
Import ListNotations.
Open Scope Z_scope.

(* Every modelled transaction (new/free allocation, write-pool lock, commit connection
   upload/delete/rollback, challenge generation, challenge response pass/fail with penalty and
   reward, update allocation extend/add/replace incl. killed blobbers, finalize, cancel, read pool
   lock/unlock, read marker, kill/shutdown blobber, blobber settings, assigner registration), accepted
   or rejected, keeps the equality.  [ss_op_wf]: transaction values are >= 0 and a passed challenge
   rewards at least one validator (num_validators_rewarded >= 1 is enforced by Config.validate). *)
Theorem C12_step :
  forall c s t, st_c12 s -> ss_op_wf (snd t) -> st_c12 (fst (ss_step c s t)).
Proof.
  intros c s [[now round] o] Hs Hwf. unfold ss_step. cbn [snd] in Hwf.
  destruct (ss_apply c s now round o) as [s'|] eqn:E; cbn; [exact (ss_apply_c12 _ _ _ _ _ _ Hs Hwf E) | exact Hs].
Qed.
Print Assumptions C12_step.

(* Lifted over histories, starting from any state satisfying the equality (e.g. no allocations). *)
Theorem C12_history :
  forall c ts s, st_c12 s -> Forall (fun t => ss_op_wf (snd t)) ts -> st_c12 (fst (ss_run c s ts)).
Proof. exact ss_run_c12. Qed.
Print Assumptions C12_history.

Theorem C12_initial : forall s, st_allocs s = [] -> st_c12 s.
Proof. exact st_c12_no_allocs. Qed.
Print Assumptions C12_initial.

(* The only unchecked uint64 operation left on the per-blobber value (`+= change` in
   adjustChallengePool) never wraps on a state satisfying the equality. *)
Theorem C12_unchecked_add_never_wraps :
  forall c s now round o, st_c12 s -> ss_op_wf o -> ss_fired c s now round o = false.
Proof. exact ss_never_fired. Qed.
Print Assumptions C12_unchecked_add_never_wraps.

(* Closing (finalize or cancel) removes the allocation together with its pool. *)
Theorem C12_close_removes_pool :
  forall c s now round a s',
    NoDup (map al_id (st_allocs s)) -> ss_close c s now round a = Some s' -> ss_find_alloc (al_id a) (st_allocs s') = None.
Proof. exact ss_close_removes. Qed.
Print Assumptions C12_close_removes_pool.

(* Non-vacuity 1: replacing a killed blobber (repaired path) debits the pool by the blobber's value. *)
Example C12_replace_killed_example :
  st_c12b sw_killed_state = true /\
  snd (ss_step sw_conf sw_killed_state sw_killed_txn) = true /\
  map (fun a => (al_cp a, map ba_cpiv (al_bas a), al_mb a)) (st_allocs (fst (ss_step sw_conf sw_killed_state sw_killed_txn)))
    = [(Some 0, [0; 0], 97384982)].
Proof. vm_compute. repeat split; reflexivity. Qed.

(* Non-vacuity 2: an extension whose negative adjustment exceeds the blobber's value is rejected
   (repaired path) and leaves the state as it was. *)
Example C12_adjust_rejected_example :
  st_c12b sw_wrap_state = true /\ ss_step sw_conf sw_wrap_state sw_wrap_txn = (sw_wrap_state, false).
Proof. vm_compute. split; reflexivity. Qed.

(* Non-vacuity 3: an upload moves tokens into the pool, a lock tops up the write pool and the
   owner's cancel closes the allocation; the equality holds with a non-zero pool in between. *)
Example C12_example :
  snd (ss_run sw_conf sw_killed_state sw_ok_txns) = [true; true; true] /\
  map (fun a => (al_cp a, map ba_cpiv (al_bas a))) (st_allocs (fst (ss_run sw_conf sw_killed_state (firstn 2 sw_ok_txns))))
    = [(Some 98350693, [97384982; 965711])] /\
  st_allocs (fst (ss_run sw_conf sw_killed_state sw_ok_txns)) = [].
Proof. vm_compute. repeat split; reflexivity. Qed.
