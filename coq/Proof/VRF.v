(* Lemmas about Model/VRF.v: only verified shares are admitted, one per miner, at most t;
   no seed below t; every set of admitted shares that yields a seed yields the same one. *)
From mathcomp Require Import all_ssreflect ssralg poly.
From ZC Require Import Model.DKG Model.VRFAdmit Model.VRF Proof.DKG.
Set Implicit Arguments.
Unset Strict Implicit.
Unset Printing Implicit Defensive.
Import GRing.Theory.
Local Open Scope ring_scope.

(* stdlib list functions used by Model/VRFAdmit.v in MathComp terms *)
Lemma vrf_lengthE (A : Type) (l : seq A) : length l = size l.
Proof. by elim: l => //= _ l ->. Qed.

Lemma vrf_lebE (m n : nat) : Nat.leb m n = (m <= n)%N.
Proof. by elim: m n => [|m IH] [|n] //=; rewrite IH. Qed.

Lemma vrf_existsbE (A : Type) (p : A -> bool) (l : seq A) : List.existsb p l = has p l.
Proof. by elim: l => //= x l ->. Qed.

Lemma vrf_appE (A : Type) (l1 l2 : seq A) : app l1 l2 = l1 ++ l2.
Proof. by []. Qed.

(* what contributeMpk records has exactly t coefficients *)
Lemma vrf_mpk_accept_size (A : Type) (t : nat) (member already : bool) (cs : seq A) :
  va_mpk_accept t member already (size cs) -> size cs = t.
Proof. by rewrite /va_mpk_accept => /andP[_ /PeanoNat.Nat.eqb_spec]. Qed.

Lemma vrf_accepted_polys_t (A : eqType) (t : nat) (css : seq (seq A)) :
  all (fun cs => va_mpk_accept t true false (size cs)) css -> all (fun cs => size cs <= t)%N css.
Proof. by move=> /allP h; apply/allP => cs csin; rewrite (vrf_mpk_accept_size (h cs csin)). Qed.

Section VRFProof.
Variable F : fieldType.
Variables G1 G2 GT : lmodType F.
Variable g2 : G2.
Variable M : Type.
Variable H : M -> G1.
Variable e : G1 -> G2 -> GT.
Variable Seed : Type.
Variable seed_of : G1 -> Seed.
Hypothesis e_linl : forall a x y, e (a *: x) y = a *: e x y.
Hypothesis e_linr : forall a x y, e x (a *: y) = a *: e x y.
(* non-degeneracy of the pairing in its first argument *)
Hypothesis e_inj : forall x y, e x g2 = e y g2 -> x = y.

Variable css : seq (seq F).     (* the dealers' polynomials *)
Variable members : seq F.       (* party ids of the magic block's miners *)
Variable m : M.                 (* the round's message *)
Variable t : nat.

Let mpks := [seq dkg_mpk g2 cs | cs <- css].
Let verify := vrf_verify g2 H e mpks members m.
Let ids (st : seq (vrf_ev G1)) : seq F := [seq (ev.2).1 | ev <- st].
Let add := vrf_add g2 H e t mpks members m.
Let run := vrf_run g2 H e t mpks members m.

Definition vrf_inv (st : seq (vrf_ev G1)) : bool :=
  [&& all verify st, uniq (ids st) & (size st <= t)%N].

Lemma vrf_add_accepts st ev : (add st ev).2 -> [/\ ev.1, verify ev & (add st ev).1 = rcons st ev].
Proof.
rewrite /add /vrf_add /va_add.
case: (ev.1) => //=; case: (List.existsb _ _) => //=; case: (Nat.leb _ _) => //=.
by rewrite -/verify; case: (verify ev) => //= _; split=> //; rewrite vrf_appE cats1.
Qed.

Lemma vrf_add_rejects st ev : ~~ (add st ev).2 -> (add st ev).1 = st.
Proof.
rewrite /add /vrf_add /va_add.
case: (ev.1) => //=; case: (List.existsb _ _) => //=; case: (Nat.leb _ _) => //=.
by case: (vrf_verify _ _ _ _ _ _ _).
Qed.

Lemma vrf_add_inv st ev : vrf_inv st -> vrf_inv (add st ev).1.
Proof.
move=> inv; case ok: (add st ev).2; last by rewrite vrf_add_rejects ?ok.
case: (vrf_add_accepts ok) => tc ver ->.
move: ok; rewrite /add /vrf_add /va_add tc /= vrf_existsbE vrf_lebE vrf_lengthE.
case hs: (has _ _) => //=; case: (leqP t (size st)) => //= lt _.
case/and3P: inv => av uq sz.
rewrite /vrf_inv all_rcons ver av /= size_rcons lt andbT.
rewrite /ids map_rcons rcons_uniq uq andbT.
apply/negP => /mapP[ev' in' eq']; move/negP: hs; apply.
by apply/hasP; exists ev' => //; rewrite /vrf_same eq'.
Qed.

Lemma vrf_run_inv st evs : vrf_inv st -> vrf_inv (run st evs).1.
Proof.
elim: evs st => [|ev evs IH] st inv //=.
rewrite /run /vrf_run /= -/(vrf_add g2 H e t mpks members m st ev) -/(add st ev).
case ea: (add st ev) => [st1 ok] /=.
have inv1 : vrf_inv st1 by have := vrf_add_inv ev inv; rewrite ea.
have := IH st1 inv1; rewrite /run /vrf_run.
by case: (va_run _ _ _ _ _ _) => st2 oks.
Qed.

Lemma vrf_inv_nil : vrf_inv [::].
Proof. by []. Qed.

(* a share counted by AddVRFShare is one that verifies *)
Lemma vrf_invalid_never_counted evs :
  let st := (run [::] evs).1 in
  [/\ all verify st, uniq (ids st) & (size st <= t)%N].
Proof. by have /and3P[] := vrf_run_inv evs vrf_inv_nil. Qed.

(* growth: the number of admitted shares is bounded by the number of verifying events *)
Lemma vrf_run_size st evs :
  (size (run st evs).1 <= size st + count (fun ev => ev.1 && verify ev) evs)%N.
Proof.
elim: evs st => [|ev evs IH] st /=; first by rewrite addn0.
rewrite /run /vrf_run /= -/(vrf_add g2 H e t mpks members m st ev) -/(add st ev).
case ea: (add st ev) => [st1 ok] /=.
have := IH st1; rewrite /run /vrf_run; case: (va_run _ _ _ _ _ _) => st2 oks /= le2.
apply: leq_trans le2 _; rewrite addnA leq_add2r.
case okb: ok.
  have := @vrf_add_accepts st ev; rewrite ea /= okb => /(_ isT) [-> -> ->].
  by rewrite size_rcons addn1.
have := @vrf_add_rejects st ev; rewrite ea /= okb => /(_ isT) ->.
exact: leq_addr.
Qed.

Lemma vrf_below_t_no_seed evs :
  (count (fun ev => ev.1 && verify ev) evs < t)%N ->
  vrf_seed seed_of t (run [::] evs).1 = None.
Proof.
move=> lt; rewrite /vrf_seed /va_has_seed vrf_lebE vrf_lengthE.
by rewrite leqNgt (leq_ltn_trans (vrf_run_size [::] evs) _).
Qed.

Lemma vrf_below_t_no_seed_state (st : seq (vrf_ev G1)) :
  (size st < t)%N -> vrf_seed seed_of t st = None.
Proof. by move=> lt; rewrite /vrf_seed /va_has_seed vrf_lebE vrf_lengthE leqNgt lt. Qed.

(* a verifying share is the honest share of its sender *)
Lemma vrf_verify_honest ev :
  verify ev -> (ev.2).1 \in members /\ (ev.2).2 = dkg_sign H (dkg_sk css (ev.2).1) m.
Proof.
case/andP=> mem; rewrite /mpks dkg_gpk_at_mpks /dkg_verify /dkg_pub e_linr -e_linl => /eqP eq.
by split=> //; apply: e_inj.
Qed.

Hypothesis t_pos : (0 < t)%N.
Hypothesis members_nz : 0 \notin members.
Hypothesis polys_t : all (fun cs => size cs <= t)%N css.

(* every set of at least t verified shares of distinct miners gives the seed of the group signature *)
Lemma vrf_seed_of_verified st :
  all verify st -> uniq (ids st) -> (t <= size st)%N ->
  vrf_seed seed_of t st = Some (seed_of (dkg_sign H (dkg_gsk css) m)).
Proof.
move=> av uq sz; rewrite /vrf_seed /va_has_seed vrf_lebE vrf_lengthE sz.
have -> : [seq ev.2 | ev <- st] = dkg_sig_shares H css (ids st) m.
  rewrite /dkg_sig_shares /ids -map_comp; apply/eq_in_map => ev evin /=.
  have [_ eq] := vrf_verify_honest (allP av _ evin).
  by rewrite -eq; case: (ev.2).
rewrite dkg_recover_any_t_subset //.
- by rewrite /ids size_map (leq_trans t_pos).
- apply/negP => /mapP[ev evin eq0]; have [mem _] := vrf_verify_honest (allP av _ evin).
  by move/negP: members_nz; apply; rewrite eq0.
- rewrite /ids size_map; apply/allP => cs csin.
  exact: leq_trans (allP polys_t _ csin) sz.
Qed.

(* two miners that both complete the VRF, from any two share streams, get the same seed *)
Lemma vrf_seed_agreement evs1 evs2 s1 s2 :
  vrf_seed seed_of t (run [::] evs1).1 = Some s1 ->
  vrf_seed seed_of t (run [::] evs2).1 = Some s2 ->
  s1 = s2 /\ s1 = seed_of (dkg_sign H (dkg_gsk css) m).
Proof.
have seedE evs s : vrf_seed seed_of t (run [::] evs).1 = Some s ->
    s = seed_of (dkg_sign H (dkg_gsk css) m).
  have [av uq _] := vrf_invalid_never_counted evs.
  case sz: (t <= size (run [::] evs).1)%N.
    by rewrite (vrf_seed_of_verified av uq sz) => -[].
  by rewrite vrf_below_t_no_seed_state // ltnNge sz.
by move=> /seedE -> /seedE ->.
Qed.

End VRFProof.

(* ---- histories with restarts ---- *)
Section VRFHist.
Variable F : fieldType.
Variables G1 G2 GT : lmodType F.
Variable g2 : G2.
Variable M : Type.
Variable H : M -> G1.
Variable e : G1 -> G2 -> GT.
Variable Seed : Type.
Variable seed_of : G1 -> Seed.
Hypothesis e_linl : forall a x y, e (a *: x) y = a *: e x y.
Hypothesis e_linr : forall a x y, e x (a *: y) = a *: e x y.
Hypothesis e_inj : forall x y, e x g2 = e y g2 -> x = y.
Variable css : seq (seq F).
Variable members : seq F.
Variable t : nat.
Hypothesis t_pos : (0 < t)%N.
Hypothesis members_nz : 0 \notin members.
Hypothesis polys_t : all (fun cs => size cs <= t)%N css.

Let mpks := [seq dkg_mpk g2 cs | cs <- css].

(* after any history the admitted shares verify against the CURRENT message, one per miner, <= t *)
Lemma vrf_hrun_inv (s : M * seq (vrf_ev G1)) (hs : seq (vrf_hev G1 M)) :
  vrf_inv g2 H e css members s.1 t s.2 ->
  let s' := vrf_hrun g2 H e t mpks members s hs in
  vrf_inv g2 H e css members s'.1 t s'.2.
Proof.
elim: hs s => [|h hs IH] s inv //=; apply: IH.
case: h => [ev|m'] /=; last exact: vrf_inv_nil.
exact: vrf_add_inv.
Qed.

Lemma vrf_hist_seed (m0 : M) (hs : seq (vrf_hev G1 M)) (sd : Seed) :
  let s' := vrf_hrun g2 H e t mpks members (m0, [::]) hs in
  vrf_seed seed_of t s'.2 = Some sd -> sd = seed_of (dkg_sign H (dkg_gsk css) s'.1).
Proof.
move=> s'.
have /and3P[av uq _] : vrf_inv g2 H e css members s'.1 t s'.2.
  by apply: vrf_hrun_inv; apply: vrf_inv_nil.
case sz: (t <= size s'.2)%N.
  by rewrite (vrf_seed_of_verified seed_of e_linl e_linr e_inj t_pos members_nz polys_t av uq sz) => -[].
by rewrite vrf_below_t_no_seed_state // ltnNge sz.
Qed.

(* two miners, any two histories of shares and restarts: if they end under the same message and
   both have a seed, the seeds are equal (the hash of the group signature on that message) *)
Lemma vrf_hist_seed_agreement (m1 m2 : M) (hs1 hs2 : seq (vrf_hev G1 M)) (sd1 sd2 : Seed) :
  let s1 := vrf_hrun g2 H e t mpks members (m1, [::]) hs1 in
  let s2 := vrf_hrun g2 H e t mpks members (m2, [::]) hs2 in
  s1.1 = s2.1 ->
  vrf_seed seed_of t s1.2 = Some sd1 -> vrf_seed seed_of t s2.2 = Some sd2 ->
  sd1 = sd2 /\ sd1 = seed_of (dkg_sign H (dkg_gsk css) s1.1).
Proof. by move=> s1 s2 eqm /vrf_hist_seed -> /vrf_hist_seed ->; rewrite eqm. Qed.

(* a restart empties the admitted set *)
Lemma vrf_restart_empties (s : M * seq (vrf_ev G1)) (m' : M) :
  vrf_hstep g2 H e t mpks members s (VRestart G1 m') = (m', [::]).
Proof. by []. Qed.

End VRFHist.

Lemma vrf_seed_agreement_accepted :
  forall (F : fieldType) (G1 G2 GT : lmodType F) (g2 : G2) (M : Type) (H : M -> G1)
         (e : G1 -> G2 -> GT) (Seed : Type) (seed_of : G1 -> Seed),
    (forall a x y, e (a *: x) y = a *: e x y) -> (forall a x y, e x (a *: y) = a *: e x y) ->
    (forall x y, e x g2 = e y g2 -> x = y) ->
  forall (css : seq (seq F)) (members : seq F) (m : M) (t : nat),
    (0 < t)%N -> 0 \notin members ->
    all (fun cs => va_mpk_accept t true false (size cs)) css ->
  forall (evs1 evs2 : seq (vrf_ev G1)) (s1 s2 : Seed),
    let mpks := [seq dkg_mpk g2 cs | cs <- css] in
    vrf_seed seed_of t (vrf_run g2 H e t mpks members m [::] evs1).1 = Some s1 ->
    vrf_seed seed_of t (vrf_run g2 H e t mpks members m [::] evs2).1 = Some s2 ->
    s1 = s2 /\ s1 = seed_of (dkg_sign H (dkg_gsk css) m).
Proof.
exact (fun F G1 G2 GT g2 M H e Seed seed_of el er ei css members m t tp nz acc =>
         @vrf_seed_agreement F G1 G2 GT g2 M H e Seed seed_of el er ei css members m t tp nz
                             (vrf_accepted_polys_t acc)).
Qed.
