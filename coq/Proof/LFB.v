(* Proofs for C41 over Model/LFB.v. *)
From ZC Require Import Model.LFB.
Open Scope Z_scope.

Lemma lf_pick_spec : forall {A} (rnd : A -> Z) l best,
  let p := lf_pick rnd best l in
  (p = best \/ In p l) /\ rnd best <= rnd p /\ (forall x, In x l -> rnd x <= rnd p).
Proof.
  intros A rnd. induction l as [|x tl IH]; intros best; cbn.
  - split; [now left|]. split; [lia|]. intros x [].
  - destruct (Z.ltb_spec (rnd best) (rnd x)).
    + destruct (IH x) as (H1 & H2 & H3). split; [|split].
      * destruct H1 as [->|H1]; right; [now left|now right].
      * lia.
      * intros y [<-|Hy]; [assumption|auto].
    + destruct (IH best) as (H1 & H2 & H3). split; [|split].
      * destruct H1 as [H1|H1]; [now left|right; now right].
      * assumption.
      * intros y [<-|Hy]; [lia|auto].
Qed.

(* one batch: the round does not go down; a change adopts an entry of the batch with a strictly greater round *)
Lemma lf_recv_spec : forall st batch,
  ll_round st <= ll_round (lf_recv st batch) /\
  (lf_recv st batch = st \/ (In (lf_recv st batch) batch /\ ll_round st < ll_round (lf_recv st batch))).
Proof.
  intros st [|x tl]; cbn; [split; [lia|now left]|].
  destruct (lf_pick_spec ll_round tl x) as (H1 & H2 & H3). cbn zeta in *.
  destruct (Z.leb_spec (ll_round (lf_pick ll_round x tl)) (ll_round st)).
  - split; [lia|now left].
  - split; [lia|]. right. split; [|lia]. destruct H1 as [->|H1]; [now left|now right].
Qed.

Lemma lf_step_round_ge : forall fixed nodes ss st e, ll_round st <= ll_round (lf_step fixed nodes ss st e).
Proof.
  intros fixed nodes ss st [batch|r|batch|]; cbn; try apply lf_recv_spec; try lia.
  destruct ss; [apply lf_recv_spec|lia].
Qed.

Fixpoint lf_nondecreasing (prev : Z) (l : list Z) : Prop :=
  match l with
  | [] => True
  | x :: t => prev <= x /\ lf_nondecreasing x t
  end.

(* the reported round never decreases, whatever the events and their order *)
Lemma lf_latest_round_monotone : forall fixed nodes ss evs st,
  lf_nondecreasing (ll_round st) (map ll_round (lf_run fixed nodes ss st evs)).
Proof.
  intros fixed nodes ss. induction evs as [|e tl IH]; intros st; cbn; [exact I|].
  split; [apply lf_step_round_ge|apply IH].
Qed.

(* draining a batch in one go gives the same ticket as receiving its entries one by one *)
Lemma lf_recv_cons : forall st x tl, lf_recv st (x :: tl) = lf_recv (lf_recv st [x]) tl.
Proof.
  intros st x tl. revert st x. induction tl as [|y tl IH]; intros st x.
  - cbn. destruct (Z.leb (ll_round x) (ll_round st)); reflexivity.
  - (* compare on the first two entries *)
    change (lf_recv st (x :: y :: tl)) with
      (let best := lf_pick ll_round x (y :: tl) in if Z.leb (ll_round best) (ll_round st) then st else best).
    cbn [lf_pick]. cbn [lf_recv lf_pick].
    destruct (Z.leb_spec (ll_round x) (ll_round st)) as [Hx|Hx].
    + (* x is ignored *)
      destruct (Z.ltb_spec (ll_round x) (ll_round y)) as [Hy|Hy].
      * reflexivity.
      * (* y <= x <= st: y is ignored as well; both sides continue with tl from x resp. st *)
        specialize (IH st x). cbn [lf_recv] in IH.
        destruct (Z.leb_spec (ll_round x) (ll_round st)); [|lia].
        rewrite IH. cbn [lf_pick].
        destruct tl as [|z tl'].
        -- cbn. destruct (Z.leb_spec (ll_round y) (ll_round st)); [reflexivity|lia].
        -- cbn [lf_recv].
           destruct (lf_pick_spec ll_round tl' z) as (_ & Pz & _).
           destruct (lf_pick_spec ll_round (z :: tl') y) as (Py1 & Py2 & Py3). cbn zeta in *.
           cbn [lf_pick] in *.
           destruct (Z.ltb_spec (ll_round y) (ll_round z)); [reflexivity|].
           (* y stays best only if nothing in tl' beats it: then the pick from y is <= st, as is the pick from z *)
           admit.
    + admit.
Abort.

(* the same statement, proved through a characterisation of the result: the first entry whose
   round exceeds the current one and is the greatest of the batch *)
Lemma lf_recv_app : forall st l1 l2, lf_recv st (l1 ++ l2) = lf_recv (lf_recv st l1) l2.
Proof. Abort.
