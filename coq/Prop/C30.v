(* C30: Transaction signatures bind every field that affects execution.
   The field table hf_txn is GENERATED from Transaction.HashData by harness/translators/hashfields.
   Only statements; each is closed by [exact] of a lemma in Proof/HashEnc.v or Proof/HashFields.v. *)
From ZC Require Import Model.HashEnc Proof.HashEnc Gen.HashFields Proof.HashFields.
Open Scope string_scope.

(* Accepted (ComputeProperties then ValidateWrtTime) implies: the public key hashes to the client
   id, the stored hash is the hash of the contents, the signature over that hash verifies under
   that public key (oracle), and the output hash, when present, matches *)
Theorem C30_accepted_implies_hash_and_signature : forall i, tx_accept i = TxOk ->
  txi_sc_data_ok i = true /\ txi_pk_empty i = false /\
  txi_key_id i = Some (tx_client_after i) /\
  txi_chain_ok i = true /\ txi_hash i <> "" /\ txi_in_time i = true /\
  tx_client_after i <> txi_to i /\
  txi_hash i = txi_computed i /\ txi_sig i = Some true /\
  (txi_output_hash i = "" \/ txi_output_hash i = txi_output_computed i).
Proof. exact tx_accept_ok. Qed.
Print Assumptions C30_accepted_implies_hash_and_signature.

(* two transactions with the same hash agree on every field HashData writes *)
Theorem C30_hash_commits_to_listed_fields : forall Hash mh leaf, he_ideal Hash mh leaf ->
  forall o1 o2 h,
    he_raw_ok hf_txn o1 -> he_raw_ok hf_txn o2 -> he_txns_wf leaf o1 -> he_txns_wf leaf o2 ->
    he_hash Hash (he_mroot mh) hf_txn o1 = Some h ->
    he_hash Hash (he_mroot mh) hf_txn o2 = Some h ->
    forall e, In e hf_txn ->
      he_piece Hash (he_mroot mh) e o1 = he_piece Hash (he_mroot mh) e o2 /\
      (he_piece Hash (he_mroot mh) e o1 <> Some None -> he_eff e o1 = he_eff e o2).
Proof. exact hf_txn_commits. Qed.
Print Assumptions C30_hash_commits_to_listed_fields.

(* Tampering with any field in the table (hash and signature kept) turns an accepted transaction
   into a rejected one; Hash injective with hex output *)
Theorem C30_tampering_listed_field_rejected_partial : forall Hash mroot,
  (forall a b, Hash a = Hash b -> a = b) -> (forall s, he_nocolon (Hash s) = true) ->
  (forall l, he_nocolon (mroot l) = true) ->
  forall env o o',
    he_raw_ok hf_txn (tx_hashed Hash mroot hf_txn env o) ->
    he_raw_ok hf_txn (tx_hashed Hash mroot hf_txn env o') ->
    he_hash Hash mroot hf_txn (tx_hashed Hash mroot hf_txn env o) <> None ->
    he_hash Hash mroot hf_txn (tx_hashed Hash mroot hf_txn env o') <> None ->
    he_str o' "Hash" = he_str o "Hash" ->
    (exists e, In e hf_txn /\
       he_eff e (tx_hashed Hash mroot hf_txn env o) <> he_eff e (tx_hashed Hash mroot hf_txn env o')) ->
    tx_accept (tx_in_of Hash mroot hf_txn env o) = TxOk ->
    tx_accept (tx_in_of Hash mroot hf_txn env o') <> TxOk.
Proof. exact hf_txn_tampered_rejected. Qed.
Print Assumptions C30_tampering_listed_field_rejected_partial.

(* --- coverage of the fields the property names --- *)

Definition C30_required_fields_covered : Prop := he_missing hf_txn C30_required = [].

Theorem C30_required_fields_covered_refuted : ~ C30_required_fields_covered.
Proof. exact hf_txn_required_not_all_covered. Qed.
Print Assumptions C30_required_fields_covered_refuted.

Theorem C30_only_fee_and_type_missing : he_missing hf_txn C30_required = ["Fee"; "TransactionType"].
Proof. exact hf_txn_missing. Qed.
Print Assumptions C30_only_fee_and_type_missing.

Theorem C30_required_fields_covered_partial : forall f, In f C30_required ->
  f <> "Fee" -> f <> "TransactionType" -> he_mem f (he_covered hf_txn) = true.
Proof. exact hf_txn_covered_except_fee_type. Qed.
Print Assumptions C30_required_fields_covered_partial.

(* the fee of a transaction can be set to anything: same verdict *)
Theorem C30_fee_not_bound : forall Hash mroot env o v,
  tx_accept (tx_in_of Hash mroot hf_txn env (he_upd o "Fee" v)) =
  tx_accept (tx_in_of Hash mroot hf_txn env o).
Proof. exact hf_txn_fee_free. Qed.
Print Assumptions C30_fee_not_bound.

(* so can the type, as long as the data still parses for the new type *)
Theorem C30_type_not_bound : forall Hash mroot env o v,
  txe_sc_ok env v (o "TransactionData") = txe_sc_ok env (o "TransactionType") (o "TransactionData") ->
  tx_accept (tx_in_of Hash mroot hf_txn env (he_upd o "TransactionType" v)) =
  tx_accept (tx_in_of Hash mroot hf_txn env o).
Proof. exact hf_txn_type_free. Qed.
Print Assumptions C30_type_not_bound.

(* Non-vacuity: a concrete transaction is accepted, with any fee and type *)
Example C30_example_accepted : forall Hash mroot fee ty, (forall s, Hash s <> "") ->
  tx_accept (tx_in_of Hash mroot hf_txn hf_env_ok (hf_with_hash Hash mroot (hf_txn_example fee ty))) = TxOk.
Proof. exact hf_txn_example_accepted. Qed.

Example C30_example_data : forall Hash mroot,
  he_data Hash mroot hf_txn (hf_txn_example 0 0) =
  Some ("1700000000:4:c1:d2:500:" ++ Hash "{}").
Proof. intros. vm_compute. reflexivity. Qed.
