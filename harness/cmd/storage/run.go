package main

import (
	"fmt"
	"sort"

	"0chain.net/core/encryption"
	"0chain.net/smartcontract/storagesc"
	"github.com/0chain/common/core/currency"
	"verifharness/sc"
	"verifharness/stg"
)

// ---------- key pool (deterministic, shared by all histories of a process) ----------

var keyCache = map[string]*stg.Key{}

func key(label string) *stg.Key {
	if k, ok := keyCache[label]; ok {
		return k
	}
	k := stg.NewKey(label)
	keyCache[label] = k
	return k
}

// assSalt: salt of the history being run (runs are strictly sequential)
var assSalt string

func refKey(ref int) *stg.Key {
	switch {
	case ref >= refSC:
		return &stg.Key{ID: stg.ADDRESS}
	case ref >= refAssigner:
		// assigner identities are private to a history (code that remembers something per assigner id in the
		// process must not carry it from one history, or one shrink attempt, to the next)
		return key(fmt.Sprint("fa", ref-refAssigner, "-", assSalt))
	case ref >= refVStaker:
		return key(fmt.Sprint("vs", ref-refVStaker))
	case ref >= refStaker2:
		return key(fmt.Sprint("t", ref-refStaker2))
	case ref >= refStaker:
		return key(fmt.Sprint("s", ref-refStaker))
	case ref >= refWallet:
		return key(fmt.Sprint("w", ref-refWallet))
	case ref >= refOwner:
		return key("owner")
	case ref >= refValidator:
		return key(fmt.Sprint("v", ref-refValidator))
	case ref >= refClient:
		return key(fmt.Sprint("c", ref-refClient))
	default:
		return key(fmt.Sprint("b", ref))
	}
}

// ---------- projection ----------

type OC struct {
	Ch      int // challenge number
	Blobber int
	Created int64
	Round   int64
}

type BAProj struct {
	Blobber                                              int
	Size                                                 int64
	WP, RP, CPIV, ChReward, Penalty, Returned, ReadRew   uint64
	Offer                                                uint64
	Used, LF, LS, Tot, Open, Succ, Fail                  int64
	HasLWM                                               bool
	LWMSize, LWMTs                                       int64
	Root, LWMPrev                                        int // root numbers tracked by the engine (0 = empty)
}

type AllocProj struct {
	Label, Owner                    int
	ID                              string
	Start, Exp, Size                int64
	Data, Parity                    int
	WP, MTC, MB, MTV                uint64
	Finalized, Canceled, TPE        bool
	Used, Tot, Open, Succ, Fail     int64
	CP                              uint64
	HasCP                           bool
	BAs                             []BAProj
	OpenCh                          []OC
	HasChNode                       bool
	TU                              int64 // allocation's own TimeUnit (ns)
	Enterprise                      bool
	RRMin, RRMax, WRMin, WRMax      uint64 // price ranges given at creation (tracked by the engine)
}

type BlobProj struct {
	Present, SPPresent             bool
	Cap, Allocd, Saved             int64
	Killed, Shut, NotAvail         bool
	WP, RP, Offers, MinStake       uint64
	SPKilled                       bool
	Pools                          []uint64
	Rewards                        uint64
	SPIdent                        string // who this stake pool belongs to: delegate wallet, service charge, delegate pool ids and owners
}

type ValProj struct {
	Present  bool
	Stake    uint64
	Killed   bool
	MinStake uint64
	Rewards  uint64
	NPools   int
}

type AssProj struct {
	Indiv, Total, Redeemed uint64
	Nonces                 []int64
	Key                    int // number of the registered public key (assKey generation; -1 = not one of the engine's keys)
}

type Snap struct {
	Allocs  map[int]*AllocProj // by label; absent allocation = nil entry
	Blob    []BlobProj
	Val     []ValProj
	RP      map[int]uint64 // read pools that exist
	Bal     map[int]uint64 // balances of all tracked entities (including refSC)
	Ass     map[int]*AssProj
	ReadCtr map[[3]int]int64 // (blobber, client ref, alloc label) -> last counter
	Chals   map[int]bool     // challenge nodes present
	TU      int64            // conf.TimeUnit in ns as stored now
}

// ---------- run state ----------

type StepObs struct {
	Kind      string
	Op        Op
	Now       int64
	Round     int64
	OK        bool
	Err       string
	Transfers []stg.Transfer
	Sender    string // real txn.ClientID
	Func      string // real function name
	Value     uint64 // real txn.Value
	Model     string // Gallina op term
	Post      *Snap
}

type Run struct {
	H       Hist
	W       *stg.World
	Now     int64
	Allocs  map[int]string // label -> allocation id (bound when the creation succeeded)
	AllocRR map[int][4]uint64
	IDRef   map[string]int // entity id -> reference
	ChNum   map[string]int // challenge id -> number
	ChID    map[int]string
	Roots   map[[2]int]int // (label, blobber) -> current root number
	LWMPrev map[[2]int]int
	NRoot   int
	Pre     *Snap
	Init    *Snap
	Steps   []StepObs
	Track   []int // entity refs whose balances are tracked
	Kinds   map[string]int
	ReadKeys [][3]int // (blobber, client, label) triples for which a read marker was submitted
	readSeen map[[3]int]bool
}

func fakeID(s string) string { return encryption.Hash("verif fake " + s) }

func (r *Run) allocID(label int) string {
	if id, ok := r.Allocs[label]; ok {
		return id
	}
	return fakeID(fmt.Sprint("alloc", label))
}

func (r *Run) ref(id string) int {
	if v, ok := r.IDRef[id]; ok {
		return v
	}
	return -1
}

// assKey: the g-th key pair of the assigner with reference `ass` (0 = the one derived from its id)
func assKey(ass, g int) *stg.Key {
	if g <= 0 {
		return refKey(ass)
	}
	return key(fmt.Sprintf("assigner-%d-key-%d-%s", ass, g, assSalt))
}

const intruderKeyNum = 99

func rootStr(n int) string {
	if n == 0 {
		return ""
	}
	return encryption.Hash(fmt.Sprint("root", n))
}

// NewRun builds the world: config, forks, partitions, blobbers with staked delegates,
// validators, funded clients. Setup uses real transactions (add_blobber, stake_pool_lock,
// add_validator); it panics when one of them fails (a broken setup is an engine bug).
func NewRun(h Hist) *Run {
	assSalt = h.Salt
	r := &Run{H: h, W: stg.NewWorld(h.Salt), Now: 1_000_000, Allocs: map[int]string{}, AllocRR: map[int][4]uint64{},
		IDRef: map[string]int{}, ChNum: map[string]int{}, ChID: map[int]string{}, Roots: map[[2]int]int{}, LWMPrev: map[[2]int]int{}, Kinds: map[string]int{}, readSeen: map[[3]int]bool{}}
	w := r.W
	reg := func(ref int) *stg.Key {
		k := refKey(ref)
		r.IDRef[k.ID] = ref
		r.Track = append(r.Track, ref)
		return k
	}
	owner := reg(refOwner)
	reg(refSC)
	w.InstallConfig(h.Conf, owner.ID)
	w.SetBalance(owner.ID, h.OwnerBal)
	must := func(res stg.Result, what string) {
		if !res.OK {
			panic(fmt.Sprintf("setup %s failed: %s", what, res.Err))
		}
	}
	for i, b := range h.Blobbers {
		bk := reg(i)
		wk := reg(refWallet + i)
		must(w.Exec(bk, "add_blobber", stg.AddBlobberInput(bk, b.Cap, b.WP, b.RP, wk.ID, b.Charge, "http://b"+fmt.Sprint(i), h.Ent), 0, r.Now), "add_blobber")
		sk := reg(refStaker + i)
		if b.Stake > 0 {
			w.SetBalance(sk.ID, b.Stake)
			must(w.Exec(sk, "stake_pool_lock", stg.StakeInput(0, bk.ID), b.Stake, r.Now), "stake")
		}
		if b.Stake2 > 0 {
			tk := reg(refStaker2 + i)
			w.SetBalance(tk.ID, b.Stake2)
			must(w.Exec(tk, "stake_pool_lock", stg.StakeInput(0, bk.ID), b.Stake2, r.Now), "stake2")
		}
	}
	for i := 0; i < h.NVal; i++ {
		vk := reg(refValidator + i)
		must(w.Exec(vk, "add_validator", stg.AddValidatorInput(vk, key(fmt.Sprint("vw", i)).ID, "http://v"+fmt.Sprint(i)), 0, r.Now), "add_validator")
		sk := reg(refVStaker + i)
		w.SetBalance(sk.ID, h.VStake)
		must(w.Exec(sk, "stake_pool_lock", stg.StakeInput(1, vk.ID), h.VStake, r.Now), "vstake")
	}
	for i := 0; i < h.NCli; i++ {
		ck := reg(refClient + i)
		w.SetBalance(ck.ID, h.CliBal)
	}
	for i := 0; i < 2; i++ {
		reg(refAssigner + i)
	}
	r.Pre = r.Snapshot()
	r.Init = r.Pre
	return r
}

func (r *Run) hasBA(s *Snap, kk [2]int) bool {
	a := s.Allocs[kk[0]]
	if a == nil {
		return false
	}
	for _, d := range a.BAs {
		if d.Blobber == kk[1] {
			return true
		}
	}
	return false
}

func (r *Run) Snapshot() *Snap {
	ctx := r.W.View()
	s := &Snap{Allocs: map[int]*AllocProj{}, RP: map[int]uint64{}, Bal: map[int]uint64{}, Ass: map[int]*AssProj{},
		ReadCtr: map[[3]int]int64{}, Chals: map[int]bool{}}
	labels := make([]int, 0, len(r.Allocs))
	for l := range r.Allocs {
		labels = append(labels, l)
	}
	sort.Ints(labels)
	for _, l := range labels {
		id := r.Allocs[l]
		a, err := storagesc.VerifAllocation(id, ctx)
		if err != nil {
			panic(err)
		}
		cp, hasCP, err := storagesc.VerifChallengePool(id, ctx)
		if err != nil {
			panic(err)
		}
		if a == nil {
			if hasCP {
				// keep a stub so the oracle sees the orphan pool
				s.Allocs[l] = &AllocProj{Label: l, ID: id, Finalized: true, CP: cp, HasCP: true, Owner: -2}
			} else {
				s.Allocs[l] = nil
			}
			continue
		}
		rr := r.AllocRR[l]
		p := &AllocProj{Label: l, ID: id, Owner: r.ref(a.Owner), Start: a.Start, Exp: a.Expiration, Size: a.Size, Data: a.DataShards,
			Parity: a.ParityShards, WP: a.WritePool, MTC: a.MovedToChallenge, MB: a.MovedBack, MTV: a.MovedToValidators,
			Finalized: a.Finalized, Canceled: a.Canceled, TPE: a.ThirdParty, Used: a.UsedSize, Tot: a.TotalCh, Open: a.OpenCh,
			Succ: a.SuccessCh, Fail: a.FailedCh, CP: cp, HasCP: hasCP, Enterprise: a.Enterprise,
			RRMin: rr[0], RRMax: rr[1], WRMin: rr[2], WRMax: rr[3]}
		for _, d := range a.BAs {
			bi := r.ref(d.BlobberID)
			p.BAs = append(p.BAs, BAProj{Blobber: bi, Size: d.Size, WP: d.WritePrice, RP: d.ReadPrice, CPIV: d.CPIV, ChReward: d.ChallengeReward,
				Penalty: d.Penalty, Returned: d.Returned, ReadRew: d.ReadReward, Offer: d.Offer, Used: d.UsedSize, LF: d.LatestFinalized,
				LS: d.LatestSuccessful, Tot: d.TotalCh, Open: d.OpenCh, Succ: d.SuccessCh, Fail: d.FailedCh, HasLWM: d.HasLWM,
				LWMSize: d.LWMSize, LWMTs: d.LWMTimestamp, Root: r.Roots[[2]int{l, bi}], LWMPrev: r.LWMPrev[[2]int{l, bi}]})
		}
		ocs, has, err := storagesc.VerifOpenChallenges(id, ctx)
		if err != nil {
			panic(err)
		}
		p.HasChNode = has
		p.TU = a.TimeUnit
		for _, oc := range ocs {
			p.OpenCh = append(p.OpenCh, OC{Ch: r.chNum(oc.ID), Blobber: r.ref(oc.BlobberID), Created: oc.Created, Round: oc.RoundCreated})
		}
		s.Allocs[l] = p
	}
	// a blobber that left an allocation (replaced / removed) starts from an empty root if it joins again:
	// forget the engine-side root numbers of pairs that are no longer part of the real state
	for kk := range r.Roots {
		if !r.hasBA(s, kk) {
			delete(r.Roots, kk)
		}
	}
	for kk := range r.LWMPrev {
		if !r.hasBA(s, kk) {
			delete(r.LWMPrev, kk)
		}
	}
	// allocation-challenge nodes outlive their allocation; keep numbering stable only
	for i := range r.H.Blobbers {
		k := refKey(i)
		b, err := storagesc.VerifBlobberNode(k.ID, ctx)
		if err != nil {
			panic(err)
		}
		sp, err := storagesc.VerifStakePoolOf(0, k.ID, ctx)
		if err != nil {
			panic(err)
		}
		var bp BlobProj
		if b != nil {
			bp = BlobProj{Present: true, Cap: b.Capacity, Allocd: b.Allocated, Saved: b.SavedData, Killed: b.Killed, Shut: b.ShutDown,
				NotAvail: b.NotAvailable, WP: b.WritePrice, RP: b.ReadPrice}
		}
		if sp != nil {
			bp.SPPresent = true
			bp.Offers, bp.SPKilled, bp.MinStake, bp.Rewards = sp.TotalOffers, sp.Killed, sp.MinStake, sp.Reward
			bp.SPIdent = fmt.Sprintf("%s|%v", sp.Wallet, sp.Charge)
			for _, dp := range sp.Pools {
				bp.Pools = append(bp.Pools, dp.Balance)
				bp.Rewards += dp.Reward
				bp.SPIdent += "|" + dp.PoolID + ":" + dp.Delegate
			}
		}
		s.Blob = append(s.Blob, bp)
	}
	for i := 0; i < r.H.NVal; i++ {
		k := refKey(refValidator + i)
		sp, err := storagesc.VerifStakePoolOf(1, k.ID, ctx)
		if err != nil {
			panic(err)
		}
		var vp ValProj
		if sp != nil {
			vp.Present, vp.Killed, vp.MinStake, vp.Rewards, vp.NPools = true, sp.Killed, sp.MinStake, sp.Reward, len(sp.Pools)
			for _, dp := range sp.Pools {
				vp.Stake += dp.Balance
				vp.Rewards += dp.Reward
			}
		}
		s.Val = append(s.Val, vp)
	}
	for _, ref := range r.Track {
		k := refKey(ref)
		s.Bal[ref] = sc.Balance(ctx, k.ID)
		if v, ok, err := storagesc.VerifReadPool(k.ID, ctx); err != nil {
			panic(err)
		} else if ok {
			s.RP[ref] = v
		}
		if ref >= refAssigner && ref < refSC {
			a, err := storagesc.VerifAssignerNode(k.ID, ctx)
			if err != nil {
				panic(err)
			}
			if a != nil {
				kn := -1
				for g := 0; g < 4; g++ {
					if assKey(ref, g).PK == a.PublicKey {
						kn = g
					}
				}
				s.Ass[ref] = &AssProj{Indiv: a.IndividualLimit, Total: a.TotalLimit, Redeemed: a.CurrentRedeemed, Nonces: a.RedeemedNonces, Key: kn}
			}
		}
	}
	for _, k := range r.ReadKeys {
		id, bound := r.Allocs[k[2]]
		if !bound {
			continue
		}
		c, ok, err := storagesc.VerifReadCounter(refKey(k[0]).ID, refKey(k[1]).ID, id, ctx)
		if err != nil {
			panic(err)
		}
		if ok {
			s.ReadCtr[k] = c
		}
	}
	for n, id := range r.ChID {
		_, _, _, present, err := storagesc.VerifChallengeNode(id, ctx)
		if err != nil {
			panic(err)
		}
		if present {
			s.Chals[n] = true
		}
	}
	if cf, err := storagesc.VerifGetConfig(ctx); err == nil && cf != nil {
		s.TU = int64(cf.TimeUnit)
	}
	return s
}

func (r *Run) chNum(id string) int {
	if n, ok := r.ChNum[id]; ok {
		return n
	}
	n := len(r.ChNum) + 1
	r.ChNum[id] = n
	r.ChID[n] = id
	return n
}

func blobIDs(bl []int) []string {
	out := make([]string, len(bl))
	for i, b := range bl {
		if b >= 0 && b < 64 {
			out[i] = refKey(b).ID
		} else {
			out[i] = fakeID(fmt.Sprint("blobber", b))
		}
	}
	return out
}

func parseZCN(f float64) (uint64, bool) {
	c, err := currency.ParseZCN(f)
	return uint64(c), err == nil
}
