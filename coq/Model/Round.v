(* Model of the generator ranking and of the per-round notarized/proposed block lists
   (property C35).  Code modelled:
     chaincore/node/node_pool.go   Pool.AddNode, computeNodePositions (SetIndex)
     chaincore/round/entity.go     computeMinerRanks (math/rand Perm), SetRandomSeed,
                                   SetRandomSeedForNotarizedBlock, GetMinerRank, GetMinersByRank,
                                   AddNotarizedBlock, UpdateNotarizedBlock, AddProposedBlock,
                                   GetBestRankedNotarizedBlock, GetHeaviestNotarizedBlock
     chaincore/block/entity.go     Block.Weight
   Definitions only; proofs are in Proof/Round.v. *)
From Coq Require Export List ZArith Bool Arith Lia.
Export ListNotations.
Open Scope Z_scope.

(* ------------------------------------------------------------------------------------------ *)
(* 1. Node positions.  A node id is the SHA3 hex string of its public key (always 64 hex
      digits); Go compares the strings with <, which for equal-length lowercase hex strings is
      the numeric order of the 256-bit value: ids are modelled as that integer. *)

(* Stable insertion sort by an integer key, ascending: the slice is processed left to right, each
   element is inserted after the entries that are not greater.  This is what sort.SliceStable
   computes; sort.Slice computes the same on fewer than 12 elements (it is an insertion sort
   there) and on any length when the keys are pairwise different (only one sorted result). *)
Fixpoint rk_insert {A : Type} (key : A -> Z) (x : A) (l : list A) : list A :=
  match l with
  | [] => [x]
  | y :: t => if Z.ltb (key x) (key y) then x :: l else y :: rk_insert key x t
  end.
Definition rk_isort {A : Type} (key : A -> Z) (l : list A) : list A :=
  fold_left (fun acc x => rk_insert key x acc) l [].

(* sort.SliceStable(np.Nodes, key_i < key_j) *)
Definition rk_sort (l : list Z) : list Z := rk_isort (fun x => x) l.

(* Pool.AddNode: append when the key is new (a known key replaces the node object in place:
   the key list does not change), then computeNodePositions sorts the whole slice *)
Definition rk_add_node (pool : list Z) (id : Z) : list Z :=
  if existsb (Z.eqb id) pool then rk_sort pool else rk_sort (pool ++ [id]).

Definition rk_build (ids : list Z) : list Z := fold_left rk_add_node ids [].

(* node.SetIndex = position in np.Nodes after computeNodePositions *)
Fixpoint rk_index (id : Z) (pool : list Z) : option nat :=
  match pool with
  | [] => None
  | y :: t => if Z.eqb id y then Some O
              else match rk_index id t with Some k => Some (S k) | None => None end
  end.

(* ------------------------------------------------------------------------------------------ *)
(* 2. computeMinerRanks(seed, n) = rand.New(rand.NewSource(seed)).Perm(n).
      math/rand.Perm:  m := make([]int, n); for i := 0; i < n; i++ { j := r.Intn(i+1); m[i] = m[j]; m[j] = i }
      The draws j_0 .. j_(n-1) are an input (recorded from the real generator). *)

Fixpoint rk_set_nth (j : nat) (v : nat) (l : list nat) : list nat :=
  match l, j with
  | [], _ => []
  | _ :: t, O => v :: t
  | x :: t, S j' => x :: rk_set_nth j' v t
  end.

Definition rk_perm_step (m : list nat) (j : nat) : list nat :=
  let i := length m in
  rk_set_nth j i (m ++ [nth j m 0%nat]).   (* m[i] = m[j] (m[i] is still 0 when j = i); m[j] = i *)

Definition rk_perm (draws : list nat) : list nat := fold_left rk_perm_step draws [].

(* Intn(i+1) returns a value in [0, i] *)
Fixpoint rk_draws_ok_from (i : nat) (draws : list nat) : bool :=
  match draws with
  | [] => true
  | j :: t => Nat.leb j i && rk_draws_ok_from (S i) t
  end.
Definition rk_draws_ok (draws : list nat) : bool := rk_draws_ok_from 0 draws.

(* GetMinerRank(miner): -1 when miner.SetIndex >= len(minerPerm), else minerPerm[SetIndex].
   None = the id is not a member of the pool (the Go call takes a node object of the pool). *)
Definition rk_rank (pool : list Z) (perm : list nat) (id : Z) : option Z :=
  match rk_index id pool with
  | None => None
  | Some k => Some (if Nat.ltb k (length perm) then Z.of_nat (nth k perm 0%nat) else -1)
  end.

(* GetMinersByRank(nodes): sort.Slice with less(i,j) = rank_i > rank_j, where a node whose
   SetIndex is outside the permutation counts as 0.  Keys are pairwise different when the
   permutation has the size of the pool, so the unstable sort has one possible result. *)
Definition rk_sortkey (pool : list Z) (perm : list nat) (id : Z) : Z :=
  match rk_index id pool with
  | Some k => if Nat.ltb k (length perm) then Z.of_nat (nth k perm 0%nat) else 0
  | None => 0
  end.

Definition rk_by_rank (pool : list Z) (perm : list nat) (nodes : list Z) : list Z :=
  rk_isort (fun id => - rk_sortkey pool perm id) nodes.     (* descending: less(i,j) = key_i > key_j *)

(* ------------------------------------------------------------------------------------------ *)
(* 3. Which call the stored permutation belongs to.
      SetRandomSeed(seed, n): no-op when the round already has a (non-zero) seed;
      SetRandomSeedForNotarizedBlock(seed, n): always.  Both recompute the permutation from
      (seed, n).  State = (RandomSeed, the (seed, miner count) the permutation was computed from). *)
Record rs_state := { rs_seed : Z; rs_permkey : option (Z * Z) }.
Definition rs_init : rs_state := {| rs_seed := 0; rs_permkey := None |}.
Inductive rs_op := RsSet (seed n : Z) | RsSetNotarized (seed n : Z).
Definition rs_step (s : rs_state) (o : rs_op) : rs_state :=
  match o with
  | RsSet seed n => if Z.eqb (rs_seed s) 0 then {| rs_seed := seed; rs_permkey := Some (seed, n) |} else s
  | RsSetNotarized seed n => {| rs_seed := seed; rs_permkey := Some (seed, n) |}
  end.
Definition rs_run (ops : list rs_op) : rs_state := fold_left rs_step ops rs_init.

(* ------------------------------------------------------------------------------------------ *)
(* 4. Notarized and proposed blocks of a round.  A block object is (hash, rank, token): the
      token stands for the Go pointer (two different objects may carry the same hash). *)
Record nb_block := { nb_hash : Z; nb_rank : Z; nb_tok : Z }.

Definition nb_block_eqb (a b : nb_block) : bool :=
  Z.eqb (nb_hash a) (nb_hash b) && Z.eqb (nb_rank a) (nb_rank b) && Z.eqb (nb_tok a) (nb_tok b).

(* Block.Weight: w := 1.0; for i := 0; i < RoundRank; i++ { w /= 2 }.  In float64 this is
   exactly 2^-rank for 0 <= rank <= 1074, 1.0 for rank <= 0 and 0 for rank >= 1075; so
   "heavier" is "smaller key" for key = min(max(rank,0),1075). *)
Definition nb_wkey (rank : Z) : Z := Z.min (Z.max rank 0) 1075.

Record nb_round := { nb_proposed : list nb_block; nb_notarized : list nb_block }.
Definition nb_init : nb_round := {| nb_proposed := []; nb_notarized := [] |}.

(* sort.Slice(rnb, Weight_i > Weight_j) and sort.SliceStable(blocks, RoundRank_i < RoundRank_j) *)
Definition nb_by_weight (l : list nb_block) := rk_isort (fun b => nb_wkey (nb_rank b)) l.
Definition nb_by_rank (l : list nb_block) := rk_isort nb_rank l.

(* addProposedBlock: replace the first entry with that hash, else append and sort by rank *)
Fixpoint nb_replace_first (b : nb_block) (l : list nb_block) : option (list nb_block) :=
  match l with
  | [] => None
  | x :: t => if Z.eqb (nb_hash x) (nb_hash b) then Some (b :: t)
              else match nb_replace_first b t with Some t' => Some (x :: t') | None => None end
  end.
Definition nb_add_proposed_list (l : list nb_block) (b : nb_block) : list nb_block :=
  match nb_replace_first b l with
  | Some l' => l'
  | None => nb_by_rank (l ++ [b])
  end.

(* the loop of AddNotarizedBlock: None = a block with this hash is already there (return);
   Some found = index of the last block with the same rank seen (or none) *)
Fixpoint nb_scan (l : list nb_block) (b : nb_block) (i : nat) (found : option nat) : option (option nat) :=
  match l with
  | [] => Some found
  | x :: t => if Z.eqb (nb_hash x) (nb_hash b) then None
              else nb_scan t b (S i) (if Z.eqb (nb_rank x) (nb_rank b) then Some i else found)
  end.

Definition nb_remove_at (i : nat) (l : list nb_block) : list nb_block := firstn i l ++ skipn (S i) l.

Definition nb_add_notarized (r : nb_round) (b : nb_block) : nb_round :=
  let p := nb_add_proposed_list (nb_proposed r) b in
  match nb_scan (nb_notarized r) b 0%nat None with
  | None => {| nb_proposed := p; nb_notarized := nb_notarized r |}
  | Some found =>
      let l := match found with Some i => nb_remove_at i (nb_notarized r) | None => nb_notarized r end in
      {| nb_proposed := p; nb_notarized := nb_by_weight (l ++ [b]) |}
  end.

(* UpdateNotarizedBlock(b).  As written in the code the notarized loop stores the loop
   variable back ([r.notarizedBlocks[i] = nb]), i.e. it changes nothing; [fixed = true] is the
   repaired behaviour ([= b]).  The proposed list is updated in both. *)
Definition nb_replace_all (b : nb_block) (l : list nb_block) : list nb_block :=
  map (fun x => if Z.eqb (nb_hash x) (nb_hash b) then b else x) l.

Definition nb_update (fixed : bool) (r : nb_round) (b : nb_block) : nb_round :=
  {| nb_proposed := nb_replace_all b (nb_proposed r);
     nb_notarized := if fixed then nb_replace_all b (nb_notarized r)
                     else map (fun nb => if Z.eqb (nb_hash nb) (nb_hash b) then nb else nb) (nb_notarized r) |}.

(* GetBestRankedNotarizedBlock sorts r.notarizedBlocks in place by rank when it has more than
   one entry, and returns the first *)
Definition nb_best_ranked (r : nb_round) : nb_round * option nb_block :=
  match nb_notarized r with
  | [] => (r, None)
  | [x] => (r, Some x)
  | l => let l' := nb_by_rank l in
         ({| nb_proposed := nb_proposed r; nb_notarized := l' |}, hd_error l')
  end.

Inductive nb_op :=
| NbAdd (b : nb_block) | NbPropose (b : nb_block) | NbUpdate (b : nb_block) | NbBest | NbHeaviest.
Inductive nb_out := NbNone | NbBlock (o : option nb_block).

Definition nb_step (fixed : bool) (r : nb_round) (o : nb_op) : nb_round * nb_out :=
  match o with
  | NbAdd b => (nb_add_notarized r b, NbNone)
  | NbPropose b => ({| nb_proposed := nb_add_proposed_list (nb_proposed r) b; nb_notarized := nb_notarized r |}, NbNone)
  | NbUpdate b => (nb_update fixed r b, NbNone)
  | NbBest => let '(r', x) := nb_best_ranked r in (r', NbBlock x)
  | NbHeaviest => (r, NbBlock (hd_error (nb_notarized r)))
  end.

Fixpoint nb_run (fixed : bool) (r : nb_round) (ops : list nb_op) : nb_round * list nb_out :=
  match ops with
  | [] => (r, [])
  | o :: tl => let '(r1, out) := nb_step fixed r o in
               let '(r2, outs) := nb_run fixed r1 tl in (r2, out :: outs)
  end.
