(* Correspondence for C40: a case is an op list run on the real round.roundStartingStorage
   held by a real chain.Chain (GetMagicBlock, GetMagicBlockNoOffset, GetPrevMagicBlock,
   PruneRoundStorage) with the outputs observed; [rs_check] re-runs the model and compares the
   outputs, the final starting rounds and Get at each of them. *)
From ZC Require Import Base.Corr Model.RoundStorage.
Open Scope Z_scope.

Record rs_case := { rsc_ops : list rs_op; rsc_outs : list rs_out;
                    rsc_rounds : list Z; rsc_ents : list (option Z); rsc_count : Z }.

Definition rs_out_eqb (a b : rs_out) : bool :=
  match a, b with
  | RsOk, RsOk => true
  | RsErr, RsErr => true
  | RsEnt x, RsEnt y => option_eqb Z.eqb x y
  | RsInt x, RsInt y => Z.eqb x y
  | RsList x, RsList y => list_eqb Z.eqb x y
  | _, _ => false
  end.

Definition rs_check (c : rs_case) : bool :=
  let '(s, outs) := rs_run rs_new (rsc_ops c) in
  list_eqb rs_out_eqb outs (rsc_outs c) &&
  list_eqb Z.eqb (rs_rounds s) (rsc_rounds c) &&
  list_eqb (option_eqb Z.eqb) (map (rs_get s) (rs_rounds s)) (rsc_ents c) &&
  Z.eqb (Z.of_nat (length (rs_items s))) (rsc_count c).
