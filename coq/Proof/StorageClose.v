(* E-storage proofs, C14: closing an allocation. *)
From Coq Require Import ZArith List Bool Lia.
From ZC Require Import Model.F64 Model.Storage Proof.StorageUtil Proof.StorageFrame Proof.Storage.
Import ListNotations.
Open Scope Z_scope.

(* ---------- who may close, and when ---------- *)

Lemma ss_finalize_auth : forall c s now round sender alloc s',
  ss_finalize c s now round sender alloc = Some s' ->
  exists a, ss_find_alloc alloc (st_allocs s) = Some a /\
            (sender = al_owner a \/ exists d, ss_find_ba sender (al_bas a) = Some d) /\ al_exp a <= now /\
            ss_close c s now round a = Some s'.
Proof.
  unfold ss_finalize; intros c s now round sender alloc s' H. bind_as H a Ea. guard_inv H. guard_inv H. guard_inv H.
  exists a. split; [exact Ea|]. split; [|split; [apply Z.leb_le; exact G0 | exact H]].
  apply orb_true_iff in G. destruct G as [G|G]; [left; apply Z.eqb_eq in G; auto|].
  right. destruct (ss_find_ba sender (al_bas a)) as [d|]; [eauto | discriminate].
Qed.

Lemma ss_cancel_auth : forall c s now round sender alloc s',
  ss_cancel c s now round sender alloc = Some s' ->
  exists a, ss_find_alloc alloc (st_allocs s) = Some a /\ sender = al_owner a /\ now <= al_exp a /\
            ss_close c s now round a = Some s'.
Proof.
  unfold ss_cancel; intros c s now round sender alloc s' H. bind_as H a Ea. guard_inv H. guard_inv H. guard_inv H.
  exists a. apply Z.eqb_eq in G. apply Z.leb_le in G0. auto.
Qed.

(* ---------- once: nothing is accepted for an allocation that is gone ---------- *)

Lemma ss_gone_rejects : forall c s now round id,
  ss_find_alloc id (st_allocs s) = None ->
  (forall sender, ss_finalize c s now round sender id = None) /\
  (forall sender, ss_cancel c s now round sender id = None) /\
  (forall sender v, ss_wp_lock c s sender id v = None) /\
  (forall sender client root prev size ts sig, ss_commit c s sender id client root prev size ts sig = None) /\
  (forall sender v size ext tpe add rem own, ss_update c s now round sender id v size ext tpe add rem own = None) /\
  (forall client b ts ctr i sg, ss_read c s client b id ts ctr i sg = None) /\
  (forall b ch, ss_gen_chal c s now round id b ch = None).
Proof.
  intros c s now round id Hn. repeat split; intros.
  - unfold ss_finalize. rewrite Hn. reflexivity.
  - unfold ss_cancel. rewrite Hn. reflexivity.
  - unfold ss_wp_lock. destruct (ss_guard (negb (id =? -1))); [|reflexivity]. cbn.
    destruct (ss_guard (cf_min_lock_w c <=? v)); [|reflexivity]. cbn.
    destruct (ss_lock_from c s sender v) as [s1|] eqn:E; [|reflexivity]. cbn.
    apply ss_lock_from_allocs in E. rewrite E, Hn. reflexivity.
  - unfold ss_commit. destruct (ss_guard (negb (ts =? 0))); [|reflexivity]. cbn. rewrite Hn. reflexivity.
  - unfold ss_update, ss_update_f. rewrite Hn. reflexivity.
  - unfold ss_read. destruct (ss_guard i); [|reflexivity]. cbn.
    destruct (ss_guard ((0 <? ctr) && negb (ts =? 0))); [|reflexivity]. cbn.
    destruct (ss_guard _); [|reflexivity]. cbn. destruct (ss_guard sg); [|reflexivity]. cbn. rewrite Hn. reflexivity.
  - unfold ss_gen_chal. rewrite Hn. reflexivity.
Qed.

(* ---------- what closing pays ---------- *)

Definition ss_total_rewards (bls : list ss_blobber) : Z := ss_sum (map bl_rewards bls).

Lemma ss_distribute_le : forall b v b', ss_distribute b v = Some b' -> 0 <= v ->
  bl_id b' = bl_id b /\ bl_rewards b <= bl_rewards b' <= bl_rewards b + v.
Proof.
  unfold ss_distribute; intros b v b' H Hv.
  destruct ((v =? 0) || bl_spkilled b || (ss_stake b <? bl_minstake b)); [inversion H; subst; split; [reflexivity | lia]|].
  destruct (bl_pools b); [inversion H; subst; cbn; split; [reflexivity | lia]|].
  destruct (ss_stake b =? 0); [discriminate|]. inversion H; subst; cbn; split; [reflexivity | lia].
Qed.

Lemma ss_total_rewards_set : forall b' bls b, ss_find_blobber (bl_id b') bls = Some b ->
  ss_total_rewards (ss_set_blobber b' bls) = ss_total_rewards bls - bl_rewards b + bl_rewards b'.
Proof.
  unfold ss_total_rewards. induction bls as [|x tl IH]; cbn; intros b H; [discriminate|].
  destruct (Z.eqb_spec (bl_id x) (bl_id b')).
  - inversion H; subst. cbn. lia.
  - cbn. rewrite (IH _ H). lia.
Qed.

Lemma ss_find_blobber_id : forall id bls b, ss_find_blobber id bls = Some b -> bl_id b = id.
Proof.
  induction bls as [|x tl IH]; cbn; intros b H; [discriminate|].
  destruct (Z.eqb_spec (bl_id x) id); [inversion H; subst; auto | auto].
Qed.

Lemma ss_sp_slash_rewards : forall b o sl b' m, ss_sp_slash b o sl = Some (b', m) -> bl_rewards b' = bl_rewards b /\ bl_id b' = bl_id b.
Proof.
  unfold ss_sp_slash; intros. destruct ((o =? 0) || (sl =? 0)); [inversion H; subst; auto|].
  bind_as H [p mv] E. inversion H; subst. auto.
Qed.

(* pass payments: the stake pool gains at most the reward; the reward comes out of the blobber's value *)
Lemma ss_fin_pay_rewards : forall c a cpbal b d rate now b' d' reward pen,
  ss_fin_pay c a cpbal b d rate now = Some (b', d', reward, pen) -> 0 <= ba_cpiv d ->
  bl_id b' = bl_id b /\ bl_rewards b <= bl_rewards b' <= bl_rewards b + reward /\ 0 <= reward <= ba_cpiv d.
Proof.
  intros c a cpbal b d rate now b' d' reward pen H Hn.
  pose proof (ss_fin_pay_some _ _ _ _ _ _ _ _ _ _ _ H Hn) as [_ [Hsum [Hr0 [Hp0 Hd0]]]].
  unfold ss_fin_pay in H. destruct (ba_lf d =? 0); [inversion H; subst; repeat split; lia|].
  bind_as H [[b1 d1] pmove] E.
  assert (H1 : bl_id b1 = bl_id b /\ bl_rewards b1 = bl_rewards b).
  { destruct (ba_lf d <=? ba_ls d); [inversion E; subst; auto|].
    bind_as E rdtu E1. bind_as E dtu0 E2. bind_as E [dd move] E3. bind_as E ret E4. bind_as E sl E5.
    destruct (f64_ltb f64_zero (cf_slash c) && (0 <? move) && (0 <? sl)).
    - bind_as E [bb dp] E6. bind_as E p E7. inversion E; subst. apply ss_sp_slash_rewards in E6. tauto.
    - inversion E; subst. auto. }
  destruct H1 as [Hid Hrw].
  destruct (now <=? ba_lf d1); [inversion H; subst; repeat split; lia|].
  bind_as H rdtu E1. bind_as H dtu0 E2.
  destruct ((0 <? al_used a) && (0 <? cpbal) && f64_ltb f64_zero rate).
  - bind_as H rw E3. bind_as H cv E4. bind_as H b2 E5. inversion H; subst.
    apply f64_mult_coin_range in E3. apply ss_distribute_le in E5; [|lia]. destruct E5 as [Hid2 Hr2].
    repeat split; try lia; congruence.
  - inversion H; subst. repeat split; lia.
Qed.

Lemma ss_reduce_offer_rewards : forall b v b', ss_reduce_offer b v = Some b' -> bl_rewards b' = bl_rewards b /\ bl_id b' = bl_id b.
Proof. unfold ss_reduce_offer; intros. bind_as H o E. inversion H; subst. auto. Qed.

Lemma ss_fin_loop_rewards : forall c a cpbal now bas rates bls bas' bls' paid,
  ss_fin_loop c a cpbal now bas rates bls = Some (bas', bls', paid) -> Forall (fun d => 0 <= ba_cpiv d) bas ->
  0 <= paid <= ss_sum_cpiv bas /\ ss_total_rewards bls <= ss_total_rewards bls' <= ss_total_rewards bls + paid.
Proof.
  unfold ss_sum_cpiv.
  induction bas as [|d tl IH]; cbn [ss_fin_loop]; intros rates bls bas' bls' paid H Hn.
  - inversion H; subst. cbn. lia.
  - destruct rates as [|r rtl]; [discriminate|]. inversion Hn as [|? ? Hd Htl]; subst.
    bind_as H b Eb. bind_as H b0 E0. bind_as H [[[b1 d1] reward] pen] E1. bind_as H [[ds bl2] sum] E2. bind_as H sum' E3.
    inversion H; subst. clear H.
    apply ss_reduce_offer_rewards in E0. destruct E0 as [Hr0 Hid0].
    apply ss_fin_pay_rewards in E1; [|exact Hd]. destruct E1 as [Hid1 [Hr1 Hrw]].
    apply ss_add_coin_some in E3. destruct E3 as [-> _].
    destruct (IH _ _ _ _ _ E2 Htl) as [Hp Ht].
    assert (Hf : ss_find_blobber (bl_id b1) bls = Some b).
    { rewrite Hid1, Hid0. pose proof (ss_find_blobber_id _ _ _ Eb) as Hx. rewrite Hx. exact Eb. }
    rewrite (ss_total_rewards_set _ _ _ Hf) in Ht. cbn. lia.
Qed.

Lemma ss_cancel_loop_rewards : forall cc total bas rates bls bls' charged,
  ss_cancel_loop cc total bas rates bls = Some (bls', charged) ->
  0 <= charged /\ ss_total_rewards bls <= ss_total_rewards bls' <= ss_total_rewards bls + charged.
Proof.
  induction bas as [|d tl IH]; cbn [ss_cancel_loop]; intros rates bls bls' charged H.
  - inversion H; subst. lia.
  - destruct rates as [|r rtl]; [discriminate|].
    bind_as H b Eb. bind_as H b1 E1. bind_as H [bl2 sum] E2. bind_as H sum' E3. inversion H; subst. clear H.
    assert (Hsh : 0 <= ss_cancel_share cc total d r).
    { unfold ss_cancel_share. destruct (f64_float_to_coin _) eqn:Ec; [apply f64_float_to_coin_range in Ec; lia | lia]. }
    apply ss_distribute_le in E1; [|exact Hsh]. destruct E1 as [Hid Hr].
    apply ss_add_coin_some in E3. destruct E3 as [-> _].
    destruct (IH _ _ _ _ E2) as [Hc Ht].
    assert (Hf : ss_find_blobber (bl_id b1) bls = Some b).
    { rewrite Hid. pose proof (ss_find_blobber_id _ _ _ Eb) as Hx. rewrite Hx. exact Eb. }
    rewrite (ss_total_rewards_set _ _ _ Hf) in Ht. lia.
Qed.

Lemma ss_release_loop_rewards : forall bas bls bls', ss_release_loop bas bls = Some bls' -> ss_total_rewards bls' = ss_total_rewards bls.
Proof.
  induction bas as [|d tl IH]; cbn [ss_release_loop]; intros bls bls' H.
  - inversion H; reflexivity.
  - bind_as H b Eb. guard_inv H. rewrite (IH _ _ H).
    assert (Hf : ss_find_blobber (bl_id (bl_with_sizes b (bl_allocd b - ba_size d) (bl_saved b - ba_used d))) bls = Some b).
    { cbn. pose proof (ss_find_blobber_id _ _ _ Eb) as Hx. rewrite Hx. exact Eb. }
    rewrite (ss_total_rewards_set _ _ _ Hf). cbn. lia.
Qed.

Lemma ss_transfer_bals : forall s f t v s', ss_transfer s f t v = Some s' -> f <> t -> 0 <= v ->
  ss_bal s' f = ss_bal s f - v /\ ss_bal s' t = ss_bal s t + v /\ st_blobbers s' = st_blobbers s.
Proof.
  unfold ss_transfer; intros s f t v s' H Hne Hv. destruct (Z.eqb_spec v 0).
  - inversion H; subst. repeat split; lia.
  - destruct (Z.ltb_spec (ss_bal s f) v); [discriminate|]. inversion H; subst. unfold ss_bal; cbn.
    rewrite !ss_assoc0_set.
    destruct (Z.eqb_spec f t); [contradiction|]. rewrite Z.eqb_refl.
    destruct (Z.eqb_spec t f); [congruence|]. rewrite Z.eqb_refl. repeat split; lia.
Qed.

(* closing: what leaves the pools goes to the blobbers' stake pools (at most) and to the owner (exactly the rest) *)
Theorem ss_close_spec : forall c s now round a s',
  al_c12 a -> al_owner a <> cf_sc c -> ss_close c s now round a = Some s' ->
  exists cp paid charged refund,
    al_cp a = Some cp /\ 0 <= paid <= cp /\ 0 <= charged /\
    refund = al_wpool a + cp - paid - charged /\ 0 <= refund /\
    ss_bal s' (al_owner a) = ss_bal s (al_owner a) + refund /\
    ss_bal s' (cf_sc c) = ss_bal s (cf_sc c) - refund /\
    ss_total_rewards (st_blobbers s) <= ss_total_rewards (st_blobbers s') <= ss_total_rewards (st_blobbers s) + paid + charged /\
    st_allocs s' = ss_del_alloc (al_id a) (st_allocs s).
Proof.
  unfold ss_close; intros c s now round a s' Ha Hown H.
  remember (ss_settle_all c round a) as r eqn:Er. destruct r as [[a1 rates] gone]. symmetry in Er.
  assert (Ha1 : al_c12 a1) by (eapply al_c12_money_eq; [eapply ss_settle_all_money; eauto | exact Ha]).
  assert (Hm : al_money a1 = al_money a) by (eapply ss_settle_all_money; eauto).
  bind_as H cp Ecp. bind_as H [[bas bls1] paid] E1. bind_as H cp1 E2. bind_as H mb E3. bind_as H w E4. guard_inv H. bind_as H due E5.
  bind_as H [bls2 w2] E6. bind_as H bls3 E7. bind_as H s2 E8. inversion H; subst. clear H.
  assert (Hcpa : al_cp a = Some cp) by (unfold al_money in Hm; inversion Hm; congruence).
  assert (Hwa : al_wpool a1 = al_wpool a) by (unfold al_money in Hm; inversion Hm; congruence).
  assert (Hnn : Forall (fun d => 0 <= ba_cpiv d) (al_bas a1)) by (destruct Ha1 as [_ [Hn _]]; apply cpivs_nonneg_Forall; exact Hn).
  pose proof (al_c12_cp _ Ha1) as Hcp1. rewrite Ecp in Hcp1. inversion Hcp1; subst cp. clear Hcp1.
  pose proof (al_c12_wpool _ Ha1) as Hw1.
  apply ss_fin_loop_rewards in E1; [|exact Hnn]. destruct E1 as [Hp Hr1].
  apply ss_minus_coin_some in E2. destruct E2 as [-> Hle].
  apply ss_add_coin_some in E4. destruct E4 as [-> _].
  assert (Hc : exists charged, 0 <= charged /\ w2 = al_wpool a1 + (ss_sum_cpiv (al_bas a1) - paid) - charged /\ 0 <= w2 /\
                               ss_total_rewards bls1 <= ss_total_rewards bls2 <= ss_total_rewards bls1 + charged).
  { destruct due as [cc|].
    - bind_as E6 total Et. bind_as E6 [bls' charged] El. bind_as E6 w' Ew. guard_inv E6. inversion E6; subst.
      apply ss_cancel_loop_rewards in El. destruct El as [Hc0 Hrc]. apply ss_minus_coin_some in Ew. destruct Ew as [-> Hlew].
      exists charged. repeat split; auto; lia.
    - inversion E6; subst. exists 0. repeat split; lia. }
  destruct Hc as [charged [Hc0 [Hw2 [Hw20 Hr2]]]].
  apply ss_release_loop_rewards in E7.
  pose proof (ss_transfer_allocs _ _ _ _ _ E8) as Hal.
  apply ss_transfer_bals in E8; [|cbn; congruence|exact Hw20]. destruct E8 as [Hb1 [Hb2 Hbl]].
  exists (ss_sum_cpiv (al_bas a1)), paid, charged, w2. cbn [st_blobbers st_with_allocs st_allocs].
  rewrite Hbl. cbn [st_blobbers st_with_chals st_with_blobbers]. rewrite E7.
  unfold ss_bal in *. cbn [st_bals st_with_chals st_with_blobbers st_with_allocs] in *.
  repeat split; auto; try lia.
  rewrite Hal. reflexivity.
Qed.
