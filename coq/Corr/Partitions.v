(* Correspondence for C25: a case is an op list run on the real partitions package (real
   StateContext over an in-memory MPT, transaction tries layered as the chain does) together
   with the canonicalised outputs it produced; [pt_check] re-runs the model step by step and
   compares the observables the property talks about:
   - result class of every mutating call, payload of Get, Exist, Size;
   - ForEach: the same set of (id, payload) (implementation output arrives sorted by id);
   - GetRandomItems: same count, distinct ids, every returned item is a member of the model's set. *)
From ZC Require Import Base.Corr Model.Partitions.
Open Scope Z_scope.

Record pt_case := { ptc_size : nat; ptc_ops : list pt_op; ptc_obs : list pt_out }.

Definition pt_item_mem (it : pt_item) (l : list pt_item) : bool := existsb (zz_eqb it) l.

Fixpoint pt_strictly_sorted (l : list pt_item) : bool :=
  match l with
  | [] => true
  | x :: tl => match tl with [] => true | y :: _ => Z.ltb (fst x) (fst y) && pt_strictly_sorted tl end
  end.

Fixpoint pt_distinct_ids (l : list pt_item) : bool :=
  match l with
  | [] => true
  | x :: tl => negb (existsb (fun y => Z.eqb (fst x) (fst y)) tl) && pt_distinct_ids tl
  end.

Definition pt_out_agree (o : pt_op) (ws : pt_ws) (model obs : pt_out) : bool :=
  match model, obs with
  | POk, POk | PErrExists, PErrExists | PErrNotFound, PErrNotFound | PErrFn, PErrFn
  | PErrEmpty, PErrEmpty | PInternal, PInternal => true
  | PGot a, PGot b => Z.eqb a b
  | PBool a, PBool b => Bool.eqb a b
  | PNat a, PNat b => Nat.eqb a b
  | PItems a, PItems b =>
      match o with
      | PRandom _ =>
          Nat.eqb (length a) (length b) && pt_distinct_ids b && (let abs := pt_abs ws in forallb (fun it => pt_item_mem it abs) b)
      | _ =>
          Nat.eqb (length a) (length b) && pt_strictly_sorted b && forallb (fun it => pt_item_mem it a) b
      end
  | _, _ => false
  end.

Fixpoint pt_check_from (st : pt_state) (ops : list pt_op) (obs : list pt_out) : bool :=
  match ops, obs with
  | [], [] => true
  | o :: ops', x :: obs' =>
      let '(st1, out) := pt_step st o in
      pt_out_agree o (ps_ws st) out x && pt_check_from st1 ops' obs'
  | _, _ => false
  end.

Definition pt_check (c : pt_case) : bool := pt_check_from (pt_init (ptc_size c)) (ptc_ops c) (ptc_obs c).
