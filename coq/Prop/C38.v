(* C38: The view-change phase machine follows its schedule.
   Only statements; each is closed by [exact] of a lemma in Proof/Phases.v. The phase tables are
   Gen/PhaseTable.v (regenerated from smartcontract/minersc on every run). *)
From ZC Require Import Model.Phases Proof.Phases.
Open Scope Z_scope.

(* the cycle Start -> Contribute -> Share -> Publish -> Wait -> Start, read off the generated tables *)
Theorem C38_phase_order :
  map ph_next [ph_Start; ph_Contribute; ph_Share; ph_Publish; ph_Wait] = [ph_Contribute; ph_Share; ph_Publish; ph_Wait; ph_Start].
Proof. exact ph_cycle. Qed.
Print Assumptions C38_phase_order.

(* setPhaseNode changes the phase only when view change is enabled and the current phase has run for its
   configured rounds; then either the move function and the phase function succeeded and the phase is the
   next of the cycle, or one of them failed and the phase is Start with one more restart *)
Theorem C38_phase_advances_only_on_schedule :
  forall rounds is_vc pn o pn' out kind,
    ph_set_phase_node rounds is_vc pn o = (pn', out, kind) ->
    pn_phase pn' <> pn_phase pn ->
    is_vc = true /\ rounds (pn_phase pn) <= pn_current pn - pn_start pn /\ pn_start pn' = pn_current pn /\
    ((pn_phase pn' = ph_next (pn_phase pn) /\ o_move o = FOk /\ (ph_has_func (pn_phase pn) = true -> o_func o = FOk)) \/
     (pn_phase pn' = ph_Start /\ pn_restarts pn' = pn_restarts pn + 1 /\
        (o_move o = FErr \/ (o_move o = FOk /\ o_func o = FErr)))).
Proof. exact ph_advances_only_on_schedule. Qed.
Print Assumptions C38_phase_advances_only_on_schedule.

(* the same over the stored node of consecutive blocks: a phase is left no earlier than its rounds after
   the block in which it was entered (pn_start) *)
Theorem C38_phase_dwell_time :
  forall rounds is_vc s b s' rs out pn pn',
    vc_block_step rounds is_vc s b = (s', rs, out) ->
    vs_pn s = Some pn -> vs_pn s' = Some pn' -> pn_phase pn' <> pn_phase pn ->
    is_vc = true /\ rounds (pn_phase pn) <= b_round b - pn_start pn /\ pn_start pn' = b_round b /\
    (pn_phase pn' = ph_next (pn_phase pn) \/ (pn_phase pn' = ph_Start /\ pn_restarts pn' = pn_restarts pn + 1)).
Proof. exact vc_block_phase_change. Qed.
Print Assumptions C38_phase_dwell_time.

(* when the schedule is due and everything succeeds the phase does advance *)
Theorem C38_due_and_ok_advances :
  forall rounds is_vc pn o,
    ph_due rounds is_vc pn = true -> ph_has_move (pn_phase pn) = true -> o_move o = FOk ->
    (ph_has_func (pn_phase pn) = true -> o_func o = FOk) ->
    ph_set_phase_node rounds is_vc pn o = (ph_advance pn, PSaved, KAdvance).
Proof. exact ph_success_advances. Qed.
Print Assumptions C38_due_and_ok_advances.

(* otherwise the key generation restarts at Start: phase Start from this round, one more restart, all lists emptied *)
Theorem C38_failed_move_restarts :
  forall rounds is_vc pn o,
    ph_due rounds is_vc pn = true -> ph_has_move (pn_phase pn) = true -> o_restart_ok o = true ->
    (o_move o = FErr \/ (o_move o = FOk /\ ph_has_func (pn_phase pn) = true /\ o_func o = FErr)) ->
    ph_set_phase_node rounds is_vc pn o = (ph_restart pn, PSaved, KRestart).
Proof. exact ph_failed_move_restarts. Qed.
Print Assumptions C38_failed_move_restarts.

Theorem C38_restart_clears_dkg : forall phase fresh d, dk_after_step phase KRestart fresh d = dk_cleared.
Proof. exact dk_restart_clears. Qed.
Print Assumptions C38_restart_clears_dkg.

(* a DKG transaction that is not accepted changes nothing *)
Theorem C38_rejected_dkg_txn_changes_nothing :
  forall phase d t d' r, dk_exec phase d t = (d', r) -> r <> DAccept -> d' = d.
Proof. exact dk_exec_not_accepted_unchanged. Qed.
Print Assumptions C38_rejected_dkg_txn_changes_nothing.

(* public keys: only in Contribute, only from a member of the DKG set, only with T entries, recorded for the
   sender (whatever "ID" the input carries), once per miner *)
Theorem C38_mpk_accepted_only_in_phase_once_per_miner :
  forall phase d s c dec n d',
    dk_contribute phase d s c dec n = (d', DAccept) ->
    phase = ph_Contribute /\ dk_mem s (dk_miners d) = true /\ dec = true /\ n = dk_T d /\
    dk_mem s (dk_mpks d) = false /\ dk_mpks d' = s :: dk_mpks d /\ dk_miners d' = dk_miners d /\ dk_T d' = dk_T d.
Proof. exact dk_contribute_accept. Qed.
Print Assumptions C38_mpk_accepted_only_in_phase_once_per_miner.

Theorem C38_mpk_once_per_miner :
  forall phase d s c dec n, dk_mem s (dk_mpks d) = true -> snd (dk_contribute phase d s c dec n) = DReject.
Proof. exact dk_contribute_once. Qed.
Print Assumptions C38_mpk_once_per_miner.

Theorem C38_mpk_recorded_for_sender :
  forall phase d s c c' dec n, dk_contribute phase d s c dec n = dk_contribute phase d s c' dec n.
Proof. exact dk_contribute_ignores_claim. Qed.
Print Assumptions C38_mpk_recorded_for_sender.

(* shares: only in Publish, only from a member of the DKG set, once per sender, at least K-1 entries, every
   entry present and valid (a verified signature of the keyed miner or a share that validates against the
   sender's own MPK) *)
Theorem C38_share_accepted_only_from_participating_miner :
  forall phase d s dec idk es d',
    dk_share phase d s dec idk es = (d', DAccept) ->
    phase = ph_Publish /\ dk_mem s (dk_gsos d) = false /\ dk_mem s (dk_miners d) = true /\ dec = true /\
    dk_K d - 1 <= Z.of_nat (List.length es) /\ Forall so_entry_ok es /\ ~ In SoNil es /\ dk_gsos d' = s :: dk_gsos d.
Proof. exact dk_share_accept. Qed.
Print Assumptions C38_share_accepted_only_from_participating_miner.

Theorem C38_share_once_per_sender :
  forall phase d s dec idk es, dk_mem s (dk_gsos d) = true -> snd (dk_share phase d s dec idk es) = DReject.
Proof. exact dk_share_once. Qed.
Print Assumptions C38_share_once_per_sender.

(* invalid DKG transactions are rejected, never fatal *)
Theorem C38_dkg_txn_never_panics : forall phase d t, snd (dk_exec phase d t) <> DPanic.
Proof. exact dk_exec_never_panics. Qed.
Print Assumptions C38_dkg_txn_never_panics.

(* wait confirmations: only in Wait, once per sender *)
Theorem C38_wait_accepted_only_in_phase :
  forall phase d s d', dk_wait phase d s = (d', DAccept) ->
    phase = ph_Wait /\ dk_mem s (dk_waited d) = false /\ dk_waited d' = s :: dk_waited d.
Proof. exact dk_wait_accept. Qed.
Print Assumptions C38_wait_accepted_only_in_phase.

Theorem C38_wait_once_per_sender : forall phase d s, dk_mem s (dk_waited d) = true -> snd (dk_wait phase d s) = DReject.
Proof. exact dk_wait_once. Qed.
Print Assumptions C38_wait_once_per_sender.

(* the new magic block keeps a member of the previous set: x_percent = p/q is validated to lie in (0; 1], the
   candidates contain a previous member (checked by reduceNodes / moveToShareOrPublish), n >= 1 slots *)
Theorem C38_magic_block_keeps_prev_miner :
  forall is_prev p q n prev others,
    0 < p <= q -> 1 <= n -> prev <> [] -> (forall x, In x prev -> is_prev x = true) ->
    exists l, rd_select (rd_ceil p q n) prev others = Some l /\ rd_has_prev is_prev l = true.
Proof. exact rd_magic_block_keeps_prev. Qed.
Print Assumptions C38_magic_block_keeps_prev_miner.

(* the same for whatever positive number the float computation int(ceil(x_percent * n)) yields *)
Theorem C38_magic_block_keeps_prev_miner_any_ceil :
  forall is_prev ceilx prev others, 1 <= ceilx -> prev <> [] -> (forall p, In p prev -> is_prev p = true) ->
    exists l, rd_select ceilx prev others = Some l /\ rd_has_prev is_prev l = true.
Proof. exact rd_select_keeps_prev. Qed.
Print Assumptions C38_magic_block_keeps_prev_miner_any_ceil.

(* sharders: reduceShardersList always returns a list with a previous sharder and does not panic *)
Theorem C38_magic_block_keeps_prev_sharder :
  forall is_prev ceilx prev others, 0 <= ceilx -> prev <> [] -> (forall p, In p prev -> is_prev p = true) ->
    exists l, rd_sharders is_prev ceilx prev others = Some l /\ rd_has_prev is_prev l = true.
Proof. exact rd_sharders_ok. Qed.
Print Assumptions C38_magic_block_keeps_prev_sharder.

(* Non-vacuity: nine blocks over the generated tables: Start -> Contribute -> Share -> Publish with accepted,
   duplicate, out-of-set, wrong-size and out-of-phase transactions, then a failed move and the restart *)
Example C38_example :
  let '(s, l) := pw_run {| vs_pn := None; vs_dk := dk_cleared |} pw_history in
  map snd l = [PSaved; PSaved; PSaved; PSaved; PSaved; PSaved; PSaved; PSaved; PSaved] /\
  map fst l = [[]; [DReject]; []; [DAccept; DReject; DReject; DReject; DReject]; [DAccept]; []; []; [DAccept; DReject; DReject; DReject]; []] /\
  vs_pn s = Some {| pn_phase := 0; pn_start := 9; pn_current := 9; pn_restarts := 1 |} /\ vs_dk s = dk_cleared.
Proof. exact pw_history_result. Qed.

Example C38_example_share_admission :
  snd (dk_share ph_Publish pw_dk 99 true false [SoSign true; SoSign true]) = DReject /\
  snd (dk_share ph_Publish pw_dk 1 true true [SoNil; SoNil]) = DReject /\
  snd (dk_share ph_Publish pw_dk 1 true false [SoShare true true; SoSign true]) = DReject /\
  snd (dk_share ph_Publish pw_dk 1 true true [SoShare true true; SoSign true]) = DAccept.
Proof. exact pw_stranger_share_refused. Qed.

Example C38_example_mpk_for_sender :
  dk_mpks (fst (dk_contribute ph_Contribute pw_dk0 1 2 true 3)) = [1] /\
  snd (dk_contribute ph_Contribute (fst (dk_contribute ph_Contribute pw_dk0 1 2 true 3)) 2 2 true 3) = DAccept /\
  snd (dk_contribute ph_Contribute (fst (dk_contribute ph_Contribute pw_dk0 1 2 true 3)) 1 3 true 3) = DReject.
Proof. exact pw_contribute_for_other. Qed.

Example C38_example_selection :
  rd_ceil 7 10 2 = 2 /\ rd_select (rd_ceil 7 10 2) [1] [2; 3] = Some [1; 2; 3] /\
  rd_sharders pw_is_prev 0 [1] [2; 3] = Some [2; 3; 1].
Proof. exact pw_selection_example. Qed.
