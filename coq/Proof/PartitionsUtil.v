(* List / association-list lemmas used by the partitions proofs (property C25). *)
From ZC Require Import Model.Partitions Model.PartitionsSpec.
From Coq Require Import Sorting.Permutation.
Open Scope Z_scope.

Definition pt_ids (l : list pt_item) : list Z := map fst l.

(* ---------- association lists ---------- *)
Section AlistLemmas.
  Context {K V : Type} (eqb : K -> K -> bool) (eqb_spec : forall a b, reflect (a = b) (eqb a b)).
  Notation get := (@pt_al_get K V eqb).
  Notation del := (@pt_al_del K V eqb).
  Notation set := (@pt_al_set K V eqb).

  Lemma al_get_del_eq k l : get k (del k l) = None.
  Proof.
    induction l as [|[k' v] tl IH]; cbn; [reflexivity|].
    destruct (eqb_spec k k') as [->|Hne]; [exact IH|].
    cbn. destruct (eqb_spec k k'); [contradiction|exact IH].
  Qed.

  Lemma al_get_del_ne k k' l : k <> k' -> get k (del k' l) = get k l.
  Proof.
    intros Hne. induction l as [|[k2 v] tl IH]; cbn; [reflexivity|].
    destruct (eqb_spec k' k2) as [->|H2].
    - destruct (eqb_spec k k2); [contradiction|exact IH].
    - cbn. destruct (eqb_spec k k2); [reflexivity|exact IH].
  Qed.

  Lemma al_get_set_eq k v l : get k (set k v l) = Some v.
  Proof. unfold pt_al_set. cbn. destruct (eqb_spec k k); [reflexivity|contradiction]. Qed.

  Lemma al_get_set_ne k k' v l : k <> k' -> get k (set k' v l) = get k l.
  Proof.
    intros Hne. unfold pt_al_set. cbn. destruct (eqb_spec k k'); [contradiction|].
    apply al_get_del_ne. exact Hne.
  Qed.

  Lemma al_del_checked_some k l v :
    get k l = Some v -> pt_al_del_checked eqb k l = Some (del k l).
  Proof. intros H. unfold pt_al_del_checked. rewrite H. reflexivity. Qed.
End AlistLemmas.

Definition nat_get_del_eq {V} := @al_get_del_eq nat V Nat.eqb Nat.eqb_spec.
Definition nat_get_del_ne {V} := @al_get_del_ne nat V Nat.eqb Nat.eqb_spec.
Definition nat_get_set_eq {V} := @al_get_set_eq nat V Nat.eqb Nat.eqb_spec.
Definition nat_get_set_ne {V} := @al_get_set_ne nat V Nat.eqb Nat.eqb_spec.
Definition z_get_del_eq {V} := @al_get_del_eq Z V Z.eqb Z.eqb_spec.
Definition z_get_del_ne {V} := @al_get_del_ne Z V Z.eqb Z.eqb_spec.
Definition z_get_set_eq {V} := @al_get_set_eq Z V Z.eqb Z.eqb_spec.
Definition z_get_set_ne {V} := @al_get_set_ne Z V Z.eqb Z.eqb_spec.

(* ---------- find / has ---------- *)
Lemma pt_find_some id l idx d :
  pt_find id l = Some (idx, d) ->
  exists X1 X2, l = X1 ++ (id, d) :: X2 /\ length X1 = idx /\ ~ In id (pt_ids X1).
Proof.
  revert idx. induction l as [|[k d0] tl IH]; intros idx H; cbn in H; [discriminate|].
  destruct (Z.eqb_spec k id) as [->|Hne].
  - inversion H; subst. exists [], tl. repeat split; auto.
  - destruct (pt_find id tl) as [[i d']|] eqn:E; [|discriminate].
    inversion H; subst. destruct (IH i eq_refl) as (X1 & X2 & -> & Hl & Hn).
    exists ((k, d0) :: X1), X2. repeat split; cbn; auto.
    intros [Hk|Hk]; [congruence|contradiction].
Qed.

Lemma pt_find_none id l : pt_find id l = None <-> ~ In id (pt_ids l).
Proof.
  induction l as [|[k d0] tl IH]; cbn; [tauto|].
  destruct (Z.eqb_spec k id) as [->|Hne].
  - split; [discriminate|]. intros H. exfalso. apply H. left. reflexivity.
  - destruct (pt_find id tl) as [[i d']|].
    + split; [discriminate|]. intros H. exfalso.
      assert (Hx : ~ In id (pt_ids tl)) by (intros Hc; apply H; right; exact Hc).
      apply IH in Hx. discriminate.
    + split; [|reflexivity]. intros _ [Hk|Hk]; [congruence|]. apply IH in Hk; auto.
Qed.

Lemma pt_find_in id l : In id (pt_ids l) -> exists idx d, pt_find id l = Some (idx, d).
Proof.
  intros H. destruct (pt_find id l) as [[i d]|] eqn:E; [eauto|].
  apply pt_find_none in E. contradiction.
Qed.

Lemma pt_has_true id l : pt_has id l = true <-> In id (pt_ids l).
Proof.
  unfold pt_has. destruct (pt_find id l) as [[i d]|] eqn:E.
  - split; [|reflexivity]. intros _. destruct (pt_find_some _ _ _ _ E) as (X1 & X2 & -> & _ & _).
    unfold pt_ids. rewrite map_app. apply in_or_app. right. left. reflexivity.
  - split; [discriminate|]. intros H. apply pt_find_none in E. contradiction.
Qed.

Lemma pt_has_false id l : pt_has id l = false <-> ~ In id (pt_ids l).
Proof.
  rewrite <- pt_has_true. destruct (pt_has id l); split; intros H; try congruence; try tauto.
Qed.

Lemma pt_ids_app a b : pt_ids (a ++ b) = pt_ids a ++ pt_ids b.
Proof. apply map_app. Qed.

(* with unique ids the found payload is the one in the list *)
Lemma pt_find_unique id d l :
  NoDup (pt_ids l) -> In (id, d) l -> exists idx, pt_find id l = Some (idx, d).
Proof.
  intros Hnd Hin.
  assert (Hid : In id (pt_ids l)) by (apply (in_map fst) in Hin; exact Hin).
  destruct (pt_find_in _ _ Hid) as (idx & d' & Hf). exists idx. rewrite Hf.
  destruct (pt_find_some _ _ _ _ Hf) as (X1 & X2 & -> & _ & Hn1).
  rewrite pt_ids_app in Hnd. cbn in Hnd. apply NoDup_remove_2 in Hnd.
  apply in_app_or in Hin. destruct Hin as [Hin|[Hin|Hin]].
  - exfalso. apply Hn1. apply (in_map fst) in Hin. exact Hin.
  - inversion Hin; reflexivity.
  - exfalso. apply Hnd. apply in_or_app. right. apply (in_map fst) in Hin. exact Hin.
Qed.

(* ---------- swap_remove / set_data / cut_tail ---------- *)
Lemma pt_swap_remove_split X1 x X2 :
  Permutation (pt_swap_remove (length X1) (X1 ++ x :: X2)) (X1 ++ X2) /\
  length (pt_swap_remove (length X1) (X1 ++ x :: X2)) = length (X1 ++ X2).
Proof.
  induction X1 as [|y X1 IH]; cbn [length app pt_swap_remove].
  - destruct X2 as [|z X2]; [split; [constructor|reflexivity]|].
    assert (Hne : z :: X2 <> []) by discriminate.
    pose proof (app_removelast_last x Hne) as Hsplit.
    remember (z :: X2) as tl eqn:Etl.
    assert (Hp : Permutation (last tl x :: removelast tl) (removelast tl ++ [last tl x]))
      by apply Permutation_cons_append.
    assert (Hl : length tl = length (removelast tl ++ [last tl x])) by (rewrite <- Hsplit; reflexivity).
    rewrite <- Hsplit in Hp. rewrite app_length in Hl. cbn [length] in Hl.
    split; [exact Hp|cbn [length]; lia].
  - destruct IH as [IH1 IH2]. split; [apply perm_skip; exact IH1|cbn; rewrite IH2; reflexivity].
Qed.

Lemma pt_set_data_split X1 k d0 X2 d :
  pt_set_data (length X1) d (X1 ++ (k, d0) :: X2) = X1 ++ (k, d) :: X2.
Proof.
  induction X1 as [|[k1 d1] X1 IH]; cbn; [reflexivity|]. rewrite IH. reflexivity.
Qed.

Lemma pt_cut_tail_some l :
  l <> [] -> exists rest rep, pt_cut_tail l = Some (rest, rep) /\ l = rest ++ [rep].
Proof.
  intros Hne. destruct l as [|x tl]; [contradiction|].
  exists (removelast (x :: tl)), (last (x :: tl) x). split; [reflexivity|].
  apply app_removelast_last. discriminate.
Qed.

(* ---------- flat_map over an index range ---------- *)
Lemma flat_map_seq_split {A} (f : nat -> list A) n l :
  (l < n)%nat ->
  flat_map f (seq 0 n) = flat_map f (seq 0 l) ++ f l ++ flat_map f (seq (S l) (n - S l)).
Proof.
  intros H. replace n with (l + S (n - S l))%nat at 1 by lia.
  rewrite seq_app, flat_map_app. cbn [seq flat_map Nat.add]. reflexivity.
Qed.

Lemma flat_map_seq_ext {A} (f g : nat -> list A) a n :
  (forall i, (a <= i < a + n)%nat -> f i = g i) -> flat_map f (seq a n) = flat_map g (seq a n).
Proof.
  revert a. induction n as [|n IH]; intros a H; cbn [seq flat_map]; [reflexivity|].
  rewrite (H a) by lia. f_equal. apply IH. intros i Hi. apply H. lia.
Qed.

Lemma flat_map_seq_S {A} (f : nat -> list A) n :
  flat_map f (seq 0 (S n)) = flat_map f (seq 0 n) ++ f n.
Proof. rewrite seq_S, flat_map_app. cbn. rewrite app_nil_r. reflexivity. Qed.

Lemma in_flat_map_seq {A} (f : nat -> list A) n x :
  In x (flat_map f (seq 0 n)) <-> exists i, (i < n)%nat /\ In x (f i).
Proof.
  rewrite in_flat_map. split; intros (i & Hi & Hx); exists i; split; auto.
  - apply in_seq in Hi. lia.
  - apply in_seq. lia.
Qed.

(* replacing one segment of A ++ X ++ B ++ L (and the tail) *)
Lemma perm_frame {A} (e a x x' b l l' : list A) :
  Permutation (x ++ l) (e ++ x' ++ l') ->
  Permutation (a ++ x ++ b ++ l) (e ++ a ++ x' ++ b ++ l').
Proof.
  intros H.
  transitivity (a ++ b ++ (x ++ l)).
  { apply Permutation_app_head. rewrite app_assoc. rewrite (app_assoc b).
    apply Permutation_app_tail. apply Permutation_app_comm. }
  rewrite H.
  transitivity (e ++ a ++ b ++ x' ++ l').
  { rewrite !app_assoc. apply Permutation_app_tail. apply Permutation_app_tail.
    rewrite <- !app_assoc. rewrite (app_assoc a b e). apply Permutation_app_comm. }
  apply Permutation_app_head. apply Permutation_app_head.
  rewrite !app_assoc. apply Permutation_app_tail. apply Permutation_app_comm.
Qed.

(* ---------- unique ids ---------- *)
Lemma nodup_ids_perm l l' : Permutation l l' -> NoDup (pt_ids l) -> NoDup (pt_ids l').
Proof. intros H. apply Permutation_NoDup. apply Permutation_map. exact H. Qed.

Lemma nodup_app_l {A} (a b : list A) : NoDup (a ++ b) -> NoDup a.
Proof.
  induction a as [|x a IH]; cbn; intros H; [constructor|].
  inversion H; subst. constructor; [|apply IH; assumption].
  intros Hc. apply H2. apply in_or_app. left. exact Hc.
Qed.
Lemma nodup_app_r {A} (a b : list A) : NoDup (a ++ b) -> NoDup b.
Proof.
  induction a as [|x a IH]; cbn; intros H; [exact H|]. inversion H; subst. apply IH. assumption.
Qed.
Lemma nodup_ids_app_l a b : NoDup (pt_ids (a ++ b)) -> NoDup (pt_ids a).
Proof. rewrite pt_ids_app. apply nodup_app_l. Qed.
Lemma nodup_ids_app_r a b : NoDup (pt_ids (a ++ b)) -> NoDup (pt_ids b).
Proof. rewrite pt_ids_app. apply nodup_app_r. Qed.

Lemma nodup_app_disjoint {A} (a b : list A) x : NoDup (a ++ b) -> In x a -> In x b -> False.
Proof.
  induction a as [|y a IH]; cbn; intros Hnd Ha Hb; [contradiction|].
  inversion Hnd; subst. destruct Ha as [->|Ha].
  - apply H1. apply in_or_app. right. exact Hb.
  - apply IH; assumption.
Qed.

Lemma nodup_ids_disjoint a b id : NoDup (pt_ids (a ++ b)) -> In id (pt_ids a) -> In id (pt_ids b) -> False.
Proof. rewrite pt_ids_app. apply nodup_app_disjoint. Qed.

Lemma nodup_ids_cons_inv x l : NoDup (pt_ids (x :: l)) -> ~ In (fst x) (pt_ids l) /\ NoDup (pt_ids l).
Proof. cbn. intros H. inversion H; auto. Qed.

(* with unique ids, same-id members are the same pair *)
Lemma nodup_ids_in_inj l id d d' : NoDup (pt_ids l) -> In (id, d) l -> In (id, d') l -> d = d'.
Proof.
  intros Hnd H1 H2. destruct (pt_find_unique _ _ _ Hnd H1) as (i1 & E1).
  destruct (pt_find_unique _ _ _ Hnd H2) as (i2 & E2). congruence.
Qed.

(* ---------- the specification map under permutation ---------- *)
Lemma sp_get_in m k d : NoDup (pt_ids m) -> (sp_get k m = Some d <-> In (k, d) m).
Proof.
  unfold sp_get. induction m as [|[k' d'] tl IH]; cbn; intros Hnd.
  - split; [discriminate|tauto].
  - inversion Hnd as [|? ? Hni Hnd']; subst. destruct (Z.eqb_spec k k') as [->|Hne].
    + split.
      * intros H; inversion H; left; reflexivity.
      * intros [H|H]; [inversion H; reflexivity|]. exfalso. apply Hni.
        apply (in_map fst) in H. exact H.
    + rewrite (IH Hnd'). split; [tauto|]. intros [H|H]; [congruence|exact H].
Qed.

Lemma sp_get_none m k : sp_get k m = None <-> ~ In k (pt_ids m).
Proof.
  unfold sp_get. induction m as [|[k' d'] tl IH]; cbn; [tauto|].
  destruct (Z.eqb_spec k k') as [->|Hne].
  - split; [discriminate|]. intros H. exfalso. apply H. left. reflexivity.
  - rewrite IH. split; [|tauto]. intros H [Hc|Hc]; [congruence|tauto].
Qed.

Lemma sp_del_perm m k d :
  NoDup (pt_ids m) -> sp_get k m = Some d -> Permutation m ((k, d) :: sp_del k m).
Proof.
  unfold sp_get, sp_del. induction m as [|[k' d'] tl IH]; cbn; intros Hnd H; [discriminate|].
  inversion Hnd as [|? ? Hni Hnd']; subst. destruct (Z.eqb_spec k k') as [->|Hne].
  - inversion H; subst. apply perm_skip.
    assert (Hx : forall l : sp_map, ~ In k' (pt_ids l) -> pt_al_del Z.eqb k' l = l).
    { induction l as [|[k2 d2] l IHl]; cbn; intros Hn; [reflexivity|].
      destruct (Z.eqb_spec k' k2) as [->|]; [exfalso; apply Hn; left; reflexivity|].
      rewrite IHl; [reflexivity|]. intros Hc. apply Hn. right. exact Hc. }
    rewrite Hx by exact Hni. reflexivity.
  - rewrite perm_swap. apply perm_skip. apply IH; assumption.
Qed.

Lemma sp_put_perm m k d0 d :
  NoDup (pt_ids m) -> sp_get k m = Some d0 ->
  exists rest, Permutation m ((k, d0) :: rest) /\ Permutation (sp_put k d m) ((k, d) :: rest).
Proof.
  unfold sp_get. induction m as [|[k' d'] tl IH]; cbn; intros Hnd H; [discriminate|].
  inversion Hnd as [|? ? Hni Hnd']; subst. destruct (Z.eqb_spec k k') as [->|Hne].
  - inversion H; subst. exists tl. split; reflexivity.
  - destruct (IH Hnd' H) as (rest & H1 & H2). exists ((k', d') :: rest). split.
    + rewrite H1. apply perm_swap.
    + rewrite H2. apply perm_swap.
Qed.

Lemma perm_get m m' k :
  NoDup (pt_ids m) -> Permutation m m' -> sp_get k m' = sp_get k m.
Proof.
  intros Hnd Hp. assert (Hnd' : NoDup (pt_ids m')) by (eapply nodup_ids_perm; eassumption).
  destruct (sp_get k m) as [d|] eqn:E.
  - apply sp_get_in in E; [|exact Hnd]. apply sp_get_in; [exact Hnd'|].
    eapply Permutation_in; eassumption.
  - apply sp_get_none in E. apply sp_get_none. intros Hc. apply E.
    eapply Permutation_in; [apply Permutation_sym, Permutation_map; exact Hp|exact Hc].
Qed.
