(* Model of smartcontract/vestingsc/vesting.go (property C16): add, trigger, unlock (owner /
   destination), stop, delete on one vesting pool.  Definitions only.
   Coins are uint64 (option at currency.AddCoin/MinusCoin, explicit mod 2^64 at the unchecked
   [vp.Balance - need]); timestamps are int64 seconds (assumed far from overflow). The share
   function is a parameter of the model: [vs_share_int] is what destination.unlock computes
   (the whole remainder at the end, else bits.Mul64/bits.Div64: left * period / full rounded down,
   an error when period < 0 or period >= full); [vs_share_f64] is what it computed before commit
   2bd0df4 of /repo (currency.MultFloat64(left, float64(period)/float64(full)), ratio 1.0 at the
   end, on Coq.Floats.SpecFloat through Model/F64.v), kept as the record of that defect. *)
From Coq Require Export List ZArith Bool Lia.
From ZC Require Export Model.F64.
Export ListNotations.
Open Scope Z_scope.

Definition vs_two64 : Z := 18446744073709551616.
Definition vs_contract : Z := -1.   (* the vesting contract wallet (txn.ToClientID) *)

Definition vs_add_coin (a b : Z) : option Z := if a + b <? vs_two64 then Some (a + b) else None.
Definition vs_minus_coin (a b : Z) : option Z := if a <? b then None else Some (a - b).

(* share left period full ending = amount to vest now (None = currency error) *)
Definition vs_share_fn := Z -> Z -> Z -> bool -> option Z.

Definition vs_share_int : vs_share_fn := fun lft period full ending =>
  if ending then Some lft
  else if (period <? 0) || (full <=? period) then None
  else Some (lft * period / full).

Definition vs_share_f64 : vs_share_fn := fun lft period full ending =>
  let ratio := if ending then f64_of_Z 1 else f64_div (f64_of_Z period) (f64_of_Z full) in
  f64_mult_coin lft ratio.

Record vs_dest := { vd_id : Z; vd_amount : Z; vd_vested : Z; vd_last : Z; vd_move : Z }.

Record vs_pool := { vp_balance : Z; vp_start : Z; vp_expire : Z; vp_dests : list vs_dest; vp_owner : Z }.

Record vs_conf := { vc_min_lock : Z; vc_min_dur : Z; vc_max_dur : Z; vc_max_dests : Z }.  (* durations in ns *)

Definition vs_set_dests (p : vs_pool) (ds : list vs_dest) : vs_pool :=
  {| vp_balance := vp_balance p; vp_start := vp_start p; vp_expire := vp_expire p; vp_dests := ds; vp_owner := vp_owner p |}.
Definition vs_set_balance (p : vs_pool) (b : Z) : vs_pool :=
  {| vp_balance := b; vp_start := vp_start p; vp_expire := vp_expire p; vp_dests := vp_dests p; vp_owner := vp_owner p |}.

(* destination.unlock (dry = false) followed by destination.move: amount and updated destination *)
Definition vs_unlock (share : vs_share_fn) (d : vs_dest) (now end_ : Z) : option (Z * vs_dest) :=
  match vs_minus_coin (vd_amount d) (vd_vested d) with
  | None => None
  | Some lft =>
      match share lft (now - vd_move d) (end_ - vd_move d) (now =? end_) with
      | None => None
      | Some a =>
          if 0 <? a then
            match vs_add_coin (vd_vested d) a with
            | None => None
            | Some v => Some (a, {| vd_id := vd_id d; vd_amount := vd_amount d; vd_vested := v; vd_last := now; vd_move := now |})
            end
          else Some (0, {| vd_id := vd_id d; vd_amount := vd_amount d; vd_vested := vd_vested d; vd_last := now; vd_move := vd_move d |})
      end
  end.

Definition vs_clamp (p : vs_pool) (now : Z) : Z :=
  if vp_expire p <? now then vp_expire p else if now <? vp_start p then vp_start p else now.

(* the loop of vestingPool.trigger: unlock every destination in order, draining the pool *)
Fixpoint vs_trigger_loop (share : vs_share_fn) (ds : list vs_dest) (bal now end_ : Z)
  : option (Z * list vs_dest * list (Z * Z * Z)) :=
  match ds with
  | [] => Some (bal, [], [])
  | d :: tl =>
      match vs_unlock share d now end_ with
      | None => None
      | Some (a, d') =>
          if a =? 0 then
            match vs_trigger_loop share tl bal now end_ with
            | None => None
            | Some (b2, ds2, tr2) => Some (b2, d' :: ds2, tr2)
            end
          else if bal <? a then None   (* DrainPool: value exceeds balance *)
          else
            match vs_trigger_loop share tl (bal - a) now end_ with
            | None => None
            | Some (b2, ds2, tr2) => Some (b2, d' :: ds2, (vs_contract, vd_id d, a) :: tr2)
            end
      end
  end.

(* vestingPool.trigger *)
Definition vs_pool_trigger (share : vs_share_fn) (p : vs_pool) (now : Z) : option (vs_pool * list (Z * Z * Z)) :=
  if vp_balance p =? 0 then None else
  match vs_trigger_loop share (vp_dests p) (vp_balance p) (vs_clamp p now) (vp_expire p) with
  | None => None
  | Some (b, ds, tr) => Some (vs_set_dests (vs_set_balance p b) ds, tr)
  end.

(* replace the first destination with this id *)
Fixpoint vs_replace_first (id : Z) (d' : vs_dest) (ds : list vs_dest) : list vs_dest :=
  match ds with
  | [] => []
  | d :: tl => if vd_id d =? id then d' :: tl else d :: vs_replace_first id d' tl
  end.

Fixpoint vs_find (id : Z) (ds : list vs_dest) : option vs_dest :=
  match ds with
  | [] => None
  | d :: tl => if vd_id d =? id then Some d else vs_find id tl
  end.

Inductive vs_vest_res := VestOk (p : vs_pool) (tr : list (Z * Z * Z)) | VestZero (p : vs_pool) | VestErr.

(* vestingPool.vest: trigger for one destination *)
Definition vs_pool_vest (share : vs_share_fn) (p : vs_pool) (dest now : Z) : vs_vest_res :=
  match vs_find dest (vp_dests p) with
  | None => VestErr
  | Some d =>
      match vs_unlock share d (vs_clamp p now) (vp_expire p) with
      | None => VestErr
      | Some (a, d') =>
          let p' := vs_set_dests p (vs_replace_first dest d' (vp_dests p)) in
          if a =? 0 then VestZero p'
          else if vp_balance p <? a then VestErr
          else VestOk (vs_set_balance p' (vp_balance p - a)) [(vs_contract, dest, a)]
      end
  end.

(* sum of destination.left over the pool; None on a currency error *)
Fixpoint vs_need (ds : list vs_dest) : option Z :=
  match ds with
  | [] => Some 0
  | d :: tl =>
      match vs_need tl, vs_minus_coin (vd_amount d) (vd_vested d) with
      | Some n, Some l => vs_add_coin n l
      | _, _ => None
      end
  end.

(* vestingPool.excess: [vp.Balance - need] is an unchecked uint64 subtraction *)
Definition vs_excess (p : vs_pool) : option Z :=
  match vs_need (vp_dests p) with
  | None => None
  | Some need => Some ((vp_balance p - need) mod vs_two64)
  end.

(* vestingPool.drain (caller already known to be the owner) *)
Definition vs_pool_drain (p : vs_pool) : option (vs_pool * list (Z * Z * Z)) :=
  match vs_excess p with
  | None => None
  | Some over =>
      if over =? 0 then None
      else if vp_balance p <? over then None
      else Some (vs_set_balance p (vp_balance p - over), [(vs_contract, vp_owner p, over)])
  end.

Fixpoint vs_want (ds : list (Z * Z)) : option Z :=
  match ds with
  | [] => Some 0
  | (_, a) :: tl => match vs_want tl with Some w => vs_add_coin w a | None => None end
  end.

(* The Go loop adds left to right; addition of non-negative numbers with an overflow check gives
   the same result (error or sum) in either direction. *)

Inductive vs_op :=
| VsAdd (client now value : Z) (bal : option Z) (start dur : Z) (dests : list (Z * Z))
| VsTrigger (client now : Z)
| VsUnlock (client now : Z)
| VsStop (client now dest : Z)
| VsDelete (client now : Z).

Inductive vs_out := VsOk (tr : list (Z * Z * Z)) | VsFail.

Definition vs_second : Z := 1000000000.

Definition vs_step (share : vs_share_fn) (conf : vs_conf) (st : option vs_pool) (o : vs_op) : option vs_pool * vs_out :=
  match o, st with
  | VsAdd client now value bal start dur dests, None =>
      let start := if start =? 0 then now else start in
      if (start <? now) || (dur <? vc_min_dur conf) || (vc_max_dur conf <? dur) ||
         (Z.of_nat (length dests) =? 0) || (vc_max_dests conf <? Z.of_nat (length dests)) then (st, VsFail) else
      match vs_want dests with
      | None => (st, VsFail)
      | Some want =>
          if (value <? want) || (value <? vc_min_lock conf) then (st, VsFail) else
          match bal with
          | None => (st, VsFail)
          | Some b =>
              if (b <? value) || (value =? 0) then (st, VsFail) else
              (Some {| vp_balance := value; vp_start := start; vp_expire := start + Z.quot dur vs_second;
                       vp_dests := map (fun ia => {| vd_id := fst ia; vd_amount := snd ia; vd_vested := 0; vd_last := start; vd_move := start |}) dests;
                       vp_owner := client |},
               VsOk [(client, vs_contract, value)])
          end
      end
  | VsAdd _ _ _ _ _ _ _, Some _ => (st, VsFail)   (* one pool per history in this model *)
  | _, None => (st, VsFail)
  | VsTrigger client now, Some p =>
      if negb (client =? vp_owner p) || (Z.of_nat (length (vp_dests p)) =? 0) then (st, VsFail) else
      match vs_pool_trigger share p now with
      | None => (st, VsFail)
      | Some (p', tr) => (Some p', VsOk tr)
      end
  | VsUnlock client now, Some p =>
      if client =? vp_owner p then
        match vs_pool_drain p with
        | None => (st, VsFail)
        | Some (p', tr) => (Some p', VsOk tr)
        end
      else
        match vs_pool_vest share p client now with
        | VestOk p' tr => (Some p', VsOk tr)
        | _ => (st, VsFail)
        end
  | VsStop client now dest, Some p =>
      if negb (client =? vp_owner p) || (vp_expire p <? now) then (st, VsFail) else
      match vs_pool_vest share p dest now with
      | VestErr => (st, VsFail)
      | VestOk p' tr => (Some (vs_set_dests p' (filter (fun d => negb (vd_id d =? dest)) (vp_dests p'))), VsOk tr)
      | VestZero p' => (Some (vs_set_dests p' (filter (fun d => negb (vd_id d =? dest)) (vp_dests p'))), VsOk [])
      end
  | VsDelete client now, Some p =>
      if negb (client =? vp_owner p) then (st, VsFail) else
      let r1 := if 0 <? vp_balance p then vs_pool_trigger share p now else Some (p, []) in
      match r1 with
      | None => (st, VsFail)
      | Some (p1, tr1) =>
          let p2 := vs_set_dests p1 [] in
          let r2 := if 0 <? vp_balance p2 then vs_pool_drain p2 else Some (p2, []) in
          match r2 with
          | None => (st, VsFail)
          | Some (_, tr2) => (None, VsOk (tr1 ++ tr2))
          end
      end
  end.

Fixpoint vs_run (share : vs_share_fn) (conf : vs_conf) (st : option vs_pool) (ops : list vs_op)
  : option vs_pool * list vs_out :=
  match ops with
  | [] => (st, [])
  | o :: tl => let '(st1, out) := vs_step share conf st o in
               let '(st2, outs) := vs_run share conf st1 tl in (st2, out :: outs)
  end.
