(* Float facts for C16, proved with Flocq (IEEE754.BinarySingleNaN relates Coq.Floats.SpecFloat
   operations to rounding of real numbers): what currency.MultFloat64(left, ratio) returns for a
   remainder below 2^53.  Depends on the axioms of the standard library's real numbers. *)
From Coq Require Import ZArith Reals Lia Lra Bool Floats.SpecFloat.
From Flocq Require Import Core.Core IEEE754.BinarySingleNaN.
From Flocq Require IEEE754.PrimFloat.
From ZC Require Import Model.F64 Model.Vesting Proof.Vesting.
Open Scope Z_scope.

Notation Hp := Flocq.IEEE754.PrimFloat.Hprec.
Notation Hm := Flocq.IEEE754.PrimFloat.Hmax.
Notation B := (binary_float 53 1024).
Notation RN := (round radix2 (fexp 53 1024) (round_mode mode_NE)).
Notation fmt := (generic_format radix2 (fexp 53 1024)).

#[local] Existing Instance Flocq.IEEE754.PrimFloat.Hprec.
#[local] Existing Instance Flocq.IEEE754.PrimFloat.Hmax.

Definition bofZ (z : Z) : B := binary_normalize 53 1024 Hp Hm mode_NE z 0 false.

Lemma f64_of_Z_B : forall z, f64_of_Z z = B2SF (bofZ z).
Proof. intros z. exact (Flocq.IEEE754.PrimFloat.binary_normalize_equiv z 0 false). Qed.

Lemma vexp : Valid_exp (fexp 53 1024).
Proof. apply (fexp_correct 53 1024). exact Hp. Qed.
Lemma vrnd : Valid_rnd (round_mode mode_NE).
Proof. apply valid_rnd_round_mode. Qed.
#[local] Existing Instance vexp.
#[local] Existing Instance vrnd.

Lemma fmt_bpow : forall e, (-1000 <= e < 1024)%Z -> fmt (bpow radix2 e).
Proof.
  intros e He. apply generic_format_bpow. unfold fexp, FLT_exp, emin. lia.
Qed.

Lemma SFmul_B : forall x y : B, SFmul 53 1024 (B2SF x) (B2SF y) = B2SF (Bmult mode_NE x y).
Proof.
  intros [sx|sx| |sx mx ex Bx] [sy|sy| |sy my ey By]; try reflexivity.
  simpl. rewrite B2SF_SF2B. apply Flocq.IEEE754.PrimFloat.binary_round_aux_equiv.
Qed.

Lemma SFdiv_B : forall x y : B, SFdiv 53 1024 (B2SF x) (B2SF y) = B2SF (Bdiv mode_NE x y).
Proof.
  intros [sx|sx| |sx mx ex Bx] [sy|sy| |sy my ey By]; try reflexivity.
  simpl. rewrite B2SF_SF2B.
  set (melz := SFdiv_core_binary _ _ _ _ _ _). destruct melz as [[mz ez] lz].
  apply Flocq.IEEE754.PrimFloat.binary_round_aux_equiv.
Qed.

Lemma F2R_int : forall z, F2R (Float radix2 z 0) = IZR z.
Proof. intros z. unfold F2R. simpl. ring. Qed.

Lemma bpow_IZR : forall e, 0 <= e -> bpow radix2 e = IZR (2 ^ e).
Proof. intros e He. rewrite <- (IZR_Zpower radix2) by exact He. reflexivity. Qed.

Lemma bofZ_R : forall z, Z.abs z <= 2 ^ 64 ->
  B2R (bofZ z) = RN (IZR z) /\ is_finite (bofZ z) = true /\
  (IZR z < 0 -> Bsign (bofZ z) = true)%R.
Proof.
  intros z Hz. unfold bofZ.
  pose proof (binary_normalize_correct 53 1024 Hp Hm mode_NE z 0 false) as H.
  cbv zeta in H. rewrite F2R_int in H.
  rewrite Rlt_bool_true in H.
  - destruct H as (H1 & H2 & H3). repeat split; auto.
    intros Hneg. rewrite H3. rewrite Rcompare_Lt by exact Hneg. reflexivity.
  - apply Rle_lt_trans with (bpow radix2 64).
    + apply abs_round_le_generic; [exact vexp|exact vrnd|apply fmt_bpow; lia|].
      rewrite <- abs_IZR. rewrite bpow_IZR by lia. apply IZR_le. exact Hz.
    + apply bpow_lt. lia.
Qed.

Lemma fmt_small_int : forall z, Z.abs z < 2 ^ 53 -> fmt (IZR z).
Proof.
  intros z Hz. rewrite <- F2R_int. apply generic_format_F2R. intros Hz0.
  rewrite F2R_int. unfold cexp, fexp, FLT_exp, emin.
  assert (mag radix2 (IZR z) <= 53)%Z.
  { apply mag_le_bpow.
    - intros H0. apply eq_IZR in H0. contradiction.
    - rewrite <- abs_IZR. rewrite bpow_IZR by lia. apply IZR_lt. exact Hz. }
  lia.
Qed.

Lemma RN_small : forall z, Z.abs z < 2 ^ 53 -> RN (IZR z) = IZR z.
Proof. intros z Hz. apply round_generic; [exact vrnd|apply fmt_small_int; exact Hz]. Qed.

Lemma RN_mono : forall x y, (x <= y)%R -> (RN x <= RN y)%R.
Proof. intros x y H. apply round_le; [exact vexp|exact vrnd|exact H]. Qed.

Lemma ltb_zero : forall x : B, is_finite x = true ->
  f64_ltb (B2SF x) f64_zero = Rlt_bool (B2R x) 0.
Proof.
  intros x Hx. unfold f64_ltb, SFltb, f64_zero.
  change (S754_zero false) with (B2SF (B754_zero false : B)).
  change (SFcompare (B2SF x) (B2SF (B754_zero false : B))) with (Bcompare x (B754_zero false)).
  rewrite Bcompare_correct by (exact Hx || reflexivity).
  simpl B2R. unfold Rlt_bool. destruct (Rcompare (B2R x) 0); reflexivity.
Qed.

Lemma trunc_nonneg : forall x : B, is_finite x = true -> (0 <= B2R x)%R ->
  f64_trunc (B2SF x) = Some (Zfloor (B2R x)).
Proof.
  intros [s|s| |s m e Hb] Hf H0; try discriminate.
  - simpl. rewrite Zfloor_IZR. reflexivity.
  - simpl B2SF. simpl B2R in *. unfold f64_trunc.
    destruct s.
    + exfalso. assert (F2R (Float radix2 (cond_Zopp true (Zpos m)) e) < 0)%R by (apply F2R_lt_0; simpl; lia). lra.
    + simpl cond_Zopp in *. f_equal. unfold F2R. simpl Fnum. simpl Fexp.
      destruct (0 <=? e) eqn:E.
      * apply Z.leb_le in E. rewrite Z.shiftl_mul_pow2 by exact E.
        rewrite bpow_IZR by exact E. rewrite <- mult_IZR. rewrite Zfloor_IZR. reflexivity.
      * apply Z.leb_gt in E. rewrite Z.shiftr_div_pow2 by lia.
        replace e with (- - e) at 2 by lia. rewrite bpow_opp. rewrite bpow_IZR by lia.
        fold (Rdiv (IZR (Zpos m)) (IZR (2 ^ - e))). rewrite Zfloor_div; [reflexivity|].
        apply Z.pow_nonzero; lia.
Qed.

Lemma mult_coin_core : forall lft (r : B), 0 <= lft < 2 ^ 53 -> is_finite r = true ->
  (0 <= B2R r <= 1)%R ->
  exists z, f64_mult_coin lft (B2SF r) = Some z /\ 0 <= z <= lft /\ (B2R r = 1%R -> z = lft).
Proof.
  intros lft r Hl Hr [Hr0 Hr1].
  destruct (bofZ_R lft) as (HL & HLf & _); [lia|].
  rewrite RN_small in HL by lia.
  assert (HL0 : (0 <= IZR lft)%R) by (apply IZR_le; lia).
  set (q := (IZR lft * B2R r)%R).
  assert (Hq : (0 <= q <= IZR lft)%R).
  { unfold q. split; [apply Rmult_le_pos; assumption|].
    rewrite <- (Rmult_1_r (IZR lft)) at 2. apply Rmult_le_compat_l; assumption. }
  assert (HRq : (0 <= RN q <= IZR lft)%R).
  { split.
    - apply round_ge_generic; [exact vexp|exact vrnd|apply generic_format_0|apply Hq].
    - apply round_le_generic; [exact vexp|exact vrnd|apply fmt_small_int; lia|apply Hq]. }
  pose proof (Bmult_correct 53 1024 Hp Hm mode_NE (bofZ lft) r) as HM.
  rewrite HL in HM. fold q in HM.
  rewrite Rlt_bool_true in HM.
  2:{ apply Rle_lt_trans with (IZR lft).
      - rewrite Rabs_pos_eq by apply HRq. apply HRq.
      - apply Rlt_trans with (bpow radix2 53); [rewrite bpow_IZR by lia; apply IZR_lt; lia|apply bpow_lt; lia]. }
  destruct HM as (HM1 & HM2 & _). rewrite HLf, Hr in HM2. simpl in HM2.
  set (y := Bmult mode_NE (bofZ lft) r) in *.
  exists (Zfloor (RN q)).
  assert (Hz : 0 <= Zfloor (RN q) <= lft).
  { split.
    - rewrite <- (Zfloor_IZR 0). apply Zfloor_le. apply HRq.
    - rewrite <- (Zfloor_IZR lft). apply Zfloor_le. apply HRq. }
  split; [|split; [exact Hz|]].
  - unfold f64_mult_coin.
    rewrite ltb_zero by exact Hr. rewrite Rlt_bool_false by exact Hr0.
    unfold f64_mul, f64_prec, f64_emax. rewrite f64_of_Z_B, SFmul_B. fold y.
    rewrite ltb_zero by exact HM2. rewrite HM1. rewrite Rlt_bool_false by apply HRq.
    unfold f64_float_to_coin. rewrite ltb_zero by exact HM2. rewrite HM1. rewrite Rlt_bool_false by apply HRq.
    unfold f64_to_u64. rewrite trunc_nonneg by (exact HM2 || (rewrite HM1; apply HRq)).
    rewrite HM1.
    assert (E1 : (Zfloor (RN q) <? 2 ^ 64) = true) by (apply Z.ltb_lt; lia).
    assert (E2 : (- 2 ^ 63 <? Zfloor (RN q)) = true) by (apply Z.ltb_lt; lia).
    rewrite E1, E2. simpl andb. rewrite Z.mod_small by lia. reflexivity.
  - intros H1. unfold q. rewrite H1, Rmult_1_r. rewrite RN_small by lia. apply Zfloor_IZR.
Qed.

Lemma bofZ_pos : forall z, 1 <= z <= 2 ^ 64 -> (1 <= B2R (bofZ z))%R.
Proof.
  intros z Hz. destruct (bofZ_R z) as (H & _); [lia|]. rewrite H.
  apply round_ge_generic; [exact vexp|exact vrnd| |apply IZR_le; lia].
  change 1%R with (bpow radix2 0). apply fmt_bpow. lia.
Qed.

Lemma bofZ_le64 : forall z, Z.abs z <= 2 ^ 64 -> (Rabs (B2R (bofZ z)) <= bpow radix2 64)%R.
Proof.
  intros z Hz. destruct (bofZ_R z) as (H & _); [lia|]. rewrite H.
  apply abs_round_le_generic; [exact vexp|exact vrnd|apply fmt_bpow; lia|].
  rewrite <- abs_IZR. rewrite bpow_IZR by lia. apply IZR_le. exact Hz.
Qed.

(* ratio of a period inside the vesting range *)
Lemma ratio_unit : forall p f, 0 <= p <= f -> 1 <= f <= 2 ^ 63 ->
  exists r : B, f64_div (f64_of_Z p) (f64_of_Z f) = B2SF r /\ is_finite r = true /\ (0 <= B2R r <= 1)%R.
Proof.
  intros p f Hpp Hf. exists (Bdiv mode_NE (bofZ p) (bofZ f)).
  unfold f64_div. rewrite !f64_of_Z_B. split; [apply SFdiv_B|].
  destruct (bofZ_R p) as (HP & HPf & _); [lia|].
  destruct (bofZ_R f) as (HF & HFf & _); [lia|].
  pose proof (bofZ_pos f ltac:(lia)) as HF1.
  assert (HP0 : (0 <= B2R (bofZ p))%R).
  { rewrite HP. apply round_ge_generic; [exact vexp|exact vrnd|apply generic_format_0|apply IZR_le; lia]. }
  assert (HPF : (B2R (bofZ p) <= B2R (bofZ f))%R).
  { rewrite HP, HF. apply RN_mono. apply IZR_le. lia. }
  set (q := (B2R (bofZ p) / B2R (bofZ f))%R).
  assert (Hq : (0 <= q <= 1)%R).
  { unfold q. split.
    - apply Rmult_le_pos; [exact HP0|]. left. apply Rinv_0_lt_compat. lra.
    - apply Rmult_le_reg_r with (B2R (bofZ f)); [lra|]. unfold Rdiv.
      rewrite Rmult_assoc, Rinv_l by lra. lra. }
  assert (HRq : (0 <= RN q <= 1)%R).
  { split.
    - apply round_ge_generic; [exact vexp|exact vrnd|apply generic_format_0|apply Hq].
    - apply round_le_generic; [exact vexp|exact vrnd| |apply Hq].
      change 1%R with (bpow radix2 0). apply fmt_bpow. lia. }
  pose proof (Bdiv_correct 53 1024 Hp Hm mode_NE (bofZ p) (bofZ f)) as HD.
  specialize (HD ltac:(lra)). fold q in HD.
  rewrite Rlt_bool_true in HD.
  2:{ rewrite Rabs_pos_eq by apply HRq. apply Rle_lt_trans with 1%R; [apply HRq|].
      change 1%R with (bpow radix2 0). apply bpow_lt. lia. }
  destruct HD as (HD1 & HD2 & _). rewrite HD1, HD2, HPf. split; [reflexivity|exact HRq].
Qed.

(* a period before the last transfer (negative) makes MultFloat64 fail *)
Lemma ratio_negative : forall lft p f, - 2 ^ 63 <= p < 0 -> 0 <= f <= 2 ^ 63 ->
  f64_mult_coin lft (f64_div (f64_of_Z p) (f64_of_Z f)) = None.
Proof.
  intros lft p f Hpp Hf.
  destruct (bofZ_R p) as (HP & HPf & HPs); [lia|].
  assert (HPn : (B2R (bofZ p) <= -1)%R).
  { rewrite HP. replace (-1)%R with (- bpow radix2 0)%R by (simpl; lra).
    apply round_le_generic; [exact vexp|exact vrnd| |simpl; apply (IZR_le p (-1)); lia].
    apply generic_format_opp. apply fmt_bpow. lia. }
  destruct (Z.eq_dec f 0) as [F0|F0].
  - subst f. rewrite f64_of_Z_B.
    specialize (HPs ltac:(apply IZR_lt; lia)).
    destruct (bofZ p) as [s|s| |s m e Hb]; try discriminate; simpl in HPn; try lra.
    simpl in HPs. subst s. reflexivity.
  - unfold f64_div. rewrite !f64_of_Z_B, SFdiv_B.
    destruct (bofZ_R f) as (HF & HFf & _); [lia|].
    pose proof (bofZ_pos f ltac:(lia)) as HF1.
    pose proof (bofZ_le64 f ltac:(lia)) as HF64. rewrite Rabs_pos_eq in HF64 by lra.
    set (q := (B2R (bofZ p) / B2R (bofZ f))%R).
    assert (Hq : (q <= - bpow radix2 (-64))%R).
    { unfold q, Rdiv. replace (bpow radix2 (-64)) with (/ bpow radix2 64)%R by (rewrite <- bpow_opp; reflexivity).
      assert (H1 : (/ bpow radix2 64 <= / B2R (bofZ f))%R) by (apply Rinv_le; lra).
      assert (H2 : (0 < / bpow radix2 64)%R) by (apply Rinv_0_lt_compat; apply bpow_gt_0).
      nra. }
    assert (HRq : (RN q <= - bpow radix2 (-64))%R).
    { apply round_le_generic; [exact vexp|exact vrnd| |exact Hq].
      apply generic_format_opp. apply fmt_bpow. lia. }
    assert (Hpos : (0 < bpow radix2 (-64))%R) by apply bpow_gt_0.
    assert (Hqa : (Rabs q <= bpow radix2 64)%R).
    { unfold q, Rdiv. rewrite Rabs_mult. pose proof (bofZ_le64 p ltac:(lia)) as HP64.
      rewrite Rabs_inv. rewrite (Rabs_pos_eq (B2R (bofZ f))) by lra.
      assert (0 < / B2R (bofZ f) <= 1)%R.
      { split; [apply Rinv_0_lt_compat; lra|]. rewrite <- Rinv_1. apply Rinv_le; lra. }
      pose proof (Rabs_pos (B2R (bofZ p))). nra. }
    pose proof (Bdiv_correct 53 1024 Hp Hm mode_NE (bofZ p) (bofZ f)) as HD.
    specialize (HD ltac:(lra)). fold q in HD.
    rewrite Rlt_bool_true in HD.
    2:{ apply Rle_lt_trans with (bpow radix2 64); [|apply bpow_lt; lia].
        apply abs_round_le_generic; [exact vexp|exact vrnd|apply fmt_bpow; lia|exact Hqa]. }
    destruct HD as (HD1 & HD2 & _). rewrite HPf in HD2.
    unfold f64_mult_coin. rewrite ltb_zero by exact HD2. rewrite HD1.
    rewrite Rlt_bool_true by lra. reflexivity.
Qed.

(* ---------- what the float64 share of destination.unlock guarantees below 2^53 ---------- *)
Theorem vs_share_f64_small : forall lft p f, 0 <= lft < 2 ^ 53 ->
  vs_share_f64 lft p f true = Some lft /\
  (0 <= p <= f -> 1 <= f <= 2 ^ 63 ->
     exists a, vs_share_f64 lft p f false = Some a /\ 0 <= a <= lft) /\
  (- 2 ^ 63 <= p < 0 -> 0 <= f <= 2 ^ 63 -> vs_share_f64 lft p f false = None).
Proof.
  intros lft p f Hl. unfold vs_share_f64. split; [|split].
  - rewrite f64_of_Z_B.
    destruct (bofZ_R 1) as (H1 & H1f & _); [lia|]. rewrite RN_small in H1 by lia.
    destruct (mult_coin_core lft (bofZ 1) Hl H1f) as (z & Hz & _ & Hz1); [rewrite H1; lra|].
    rewrite Hz. f_equal. apply Hz1. exact H1.
  - intros Hpp Hf. destruct (ratio_unit p f Hpp Hf) as (r & Hr & Hrf & Hr01).
    rewrite Hr. destruct (mult_coin_core lft r Hl Hrf Hr01) as (z & Hz & Hz0 & _).
    exists z. split; assumption.
  - intros Hpp Hf. apply ratio_negative; assumption.
Qed.

(* the code's float64 share meets the specification for remainders below 2^53 *)
Theorem vs_share_f64_spec53 : vs_share_spec (2 ^ 53) vs_share_f64.
Proof.
  split.
  - intros l p f Hl. apply (vs_share_f64_small l p f Hl).
  - intros l p f Hl Hpf Hf. apply (vs_share_f64_small l p f Hl); [lia|unfold vs_two63 in Hf; lia].
  - intros l p f Hl Hpp Hf. apply (vs_share_f64_small l p f Hl); unfold vs_two63 in *; lia.
Qed.

Lemma vs_bound53 : 0 < 2 ^ 53 <= vs_two64.
Proof. unfold vs_two64. lia. Qed.

(* the generic lemmas instantiated for the code's share function, amounts below 2^53 *)
Lemma vs_f64_run_inv : forall conf ops, Forall (vs_op_wf (2 ^ 53)) ops ->
  vs_st_inv (2 ^ 53) (fst (vs_run vs_share_f64 conf None ops)).
Proof. intros conf ops Hwf. exact (vs_run_inv _ _ vs_bound53 vs_share_f64_spec53 conf ops None I Hwf). Qed.

Lemma vs_f64_exact_at_expiry : forall conf p c now d, vs_inv (2 ^ 53) p ->
  c <> vp_owner p -> vp_expire p <= now -> vs_find c (vp_dests p) = Some d -> 0 < vs_rem d ->
  exists p' d', vs_step vs_share_f64 conf (Some p) (VsUnlock c now) = (Some p', VsOk [(vs_contract, c, vs_rem d)]) /\
    vs_find c (vp_dests p') = Some d' /\ vd_vested d' = vd_amount d' /\ vd_amount d' = vd_amount d /\
    vp_balance p' = vp_balance p - vs_rem d.
Proof. exact (vs_dest_unlock_at_expiry _ _ vs_bound53 vs_share_f64_spec53). Qed.

Lemma vs_f64_owner_unlock : forall conf p now, vs_inv (2 ^ 53) p ->
  let excess := vp_balance p - vs_rem_sum (vp_dests p) in
  vs_step vs_share_f64 conf (Some p) (VsUnlock (vp_owner p) now) =
  if excess =? 0 then (Some p, VsFail)
  else (Some (vs_set_balance p (vs_rem_sum (vp_dests p))), VsOk [(vs_contract, vp_owner p, excess)]).
Proof. exact (vs_owner_unlock_spec (2 ^ 53) vs_share_f64). Qed.

Lemma vs_f64_delete : forall conf p now, vs_inv (2 ^ 53) p ->
  Forall (fun d => vd_move d <= vs_clamp p now) (vp_dests p) ->
  exists tr, vs_step vs_share_f64 conf (Some p) (VsDelete (vp_owner p) now) = (None, VsOk tr) /\
             vs_tr_sum tr = vp_balance p.
Proof. exact (vs_delete_spec _ _ vs_bound53 vs_share_f64_spec53). Qed.
