(* Lock discipline of the orderbuffer methods, decided on the table generated from the Go source
   (Gen/OrderBufferLocks.v, translator harness/translators/oblocks). *)
From Coq Require Import List String Bool.
From ZC Require Import Gen.OrderBufferLocks.
Import ListNotations.
Open Scope string_scope.

Definition obm_find (tbl : list ob_method) (n : string) : option ob_method :=
  find (fun m => String.eqb (obm_name m) n) tbl.

(* callers of method n in the table *)
Definition obm_callers (tbl : list ob_method) (n : string) : list ob_method :=
  filter (fun m => existsb (String.eqb n) (obm_calls m)) tbl.

(* A method that touches the shared fields is either exported and holds the mutex for its whole
   body (Lock; defer Unlock as first statements, no other Unlock), or is unexported, does not lock
   (the mutex is not re-entrant) and is called only by methods that hold the mutex. A locking method
   never calls another locking method (self-deadlock). *)
Definition obm_ok (tbl : list ob_method) (m : ob_method) : bool :=
  (if obm_touches m then
     if obm_exported m then obm_locked m
     else negb (obm_locked m) && forallb obm_locked (obm_callers tbl (obm_name m))
                              && negb (match obm_callers tbl (obm_name m) with [] => true | _ => false end)
   else true)
  && (if obm_locked m then
        forallb (fun c => match obm_find tbl c with Some cm => negb (obm_locked cm) | None => true end) (obm_calls m)
      else true).

Definition ob_disciplined (tbl : list ob_method) : bool := forallb (obm_ok tbl) tbl.

(* the operations the model covers must exist in the source *)
Definition ob_has_api (tbl : list ob_method) : bool :=
  forallb (fun n => match obm_find tbl n with Some m => obm_exported m | None => false end) ["Add"; "First"; "Pop"].
