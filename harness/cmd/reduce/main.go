// Engine for C39: calls the real SimpleNodes.reduce (through verif_hooks_pure1.go), directly and
// through DKGMinerNodes.reduceNodes with a real previous magic block; checks the property statement
// on the observed selection (oracle) and emits every call as a case for the Coq model.
package main

import (
	"encoding/hex"
	"fmt"
	"math"
	"math/rand"
	"sort"
	"strings"
	"sync"

	"0chain.net/chaincore/block"
	cstate "0chain.net/chaincore/chain/state"
	"0chain.net/chaincore/node"
	"0chain.net/chaincore/transaction"
	"0chain.net/core/datastore"
	"0chain.net/core/encryption"
	"0chain.net/smartcontract/minersc"
	"github.com/0chain/common/core/currency"
	"verifharness/sc"
	"verifharness/vh"
)

type cand struct {
	ID    int    `json:"id"` // direct path: the id string is the 3-digit decimal; miners path: index of a generated node
	Stake uint64 `json:"stake"`
	Prev  bool   `json:"prev,omitempty"`
}

type input struct {
	Cands     []cand  `json:"cands"`
	NilPool   bool    `json:"nil_pool,omitempty"`   // pass a nil Pooler (no previous magic block)
	ExtraPrev []int   `json:"extra_prev,omitempty"` // previous members that are not candidates
	Limit     int     `json:"limit"`
	XP        float64 `json:"xp"`
	Seed      int64   `json:"seed"`
	Path      string  `json:"path,omitempty"` // "" = SimpleNodes.reduce directly; "miners" = DKGMinerNodes.reduceNodes(final)
	// Conc != nil: a concurrent batch -- goroutine g runs the selections Conc[g] one after the other while the
	// other goroutines run theirs; every result must equal the result of the same selection run alone
	Conc [][]input `json:"conc,omitempty"`
}

type setPool map[string]bool

func (p setPool) HasNode(id string) bool { return p[id] }

// ---------- ids ----------

var pkCache = map[int]string{}

func minerID(i int) string {
	if s, ok := pkCache[i]; ok {
		return s
	}
	pk := make([]byte, 32)
	pk[0], pk[1], pk[2] = byte(i), byte(i>>8), 0x5a
	s := encryption.Hash(pk)
	pkCache[i] = s
	return s
}

func idStr(in input, i int) string {
	if in.Path == "miners" {
		return minerID(i)
	}
	return fmt.Sprintf("%03d", i)
}

func mkNode(i int) *node.Node {
	n := node.Provider()
	n.Type = node.NodeTypeMiner
	n.SetSignatureSchemeType("ed25519")
	pk := make([]byte, 32)
	pk[0], pk[1], pk[2] = byte(i), byte(i>>8), 0x5a
	n.PublicKey = hex.EncodeToString(pk)
	return n
}

// ---------- the real code ----------

func mkSimple(id string, stake uint64) *minersc.SimpleNode {
	sn := &minersc.SimpleNode{}
	sn.ID = id
	sn.TotalStaked = currency.Coin(stake)
	return sn
}

type observed struct {
	ids   []string // sorted
	ret   int
	panic bool
	err   string
}

func runReal(in input, reverse bool) (o observed) {
	defer func() {
		if e := recover(); e != nil {
			o = observed{panic: true}
		}
	}()
	order := make([]int, len(in.Cands))
	for i := range order {
		order[i] = i
		if reverse {
			order[i] = len(in.Cands) - 1 - i
		}
	}
	sns := minersc.NewSimpleNodes()
	for _, i := range order {
		c := in.Cands[i]
		sns[idStr(in, c.ID)] = mkSimple(idStr(in, c.ID), c.Stake)
	}
	var prevIDs []string
	for _, c := range in.Cands {
		if c.Prev {
			prevIDs = append(prevIDs, idStr(in, c.ID))
		}
	}
	for _, e := range in.ExtraPrev {
		prevIDs = append(prevIDs, idStr(in, e))
	}
	switch in.Path {
	case "miners":
		mb := block.NewMagicBlock()
		mb.Miners = node.NewPool(node.NodeTypeMiner)
		mb.Sharders = node.NewPool(node.NodeTypeSharder)
		add := func(i int) {
			if err := mb.Miners.AddNode(mkNode(i)); err != nil {
				panic(err)
			}
		}
		for _, c := range in.Cands {
			if c.Prev {
				add(c.ID)
			}
		}
		for _, e := range in.ExtraPrev {
			add(e)
		}
		lfmb := &block.Block{}
		lfmb.MagicBlock = mb
		lfmb.RoundRandomSeed = in.Seed
		bk := &block.Block{}
		bk.Round = 10
		txn := &transaction.Transaction{HashIDField: datastore.HashIDField{Hash: encryption.Hash("verif txn")}}
		ctx := cstate.NewStateContext(bk, sc.NewMPT(), txn,
			func(int64) *block.MagicBlock { return mb },
			func() *block.Block { return lfmb },
			func() *block.MagicBlock { return mb },
			func() encryption.SignatureScheme { return &encryption.BLS0ChainScheme{} },
			func() *block.Block { return lfmb },
			nil)
		gn := &minersc.GlobalNode{}
		gn.MaxN = in.Limit
		gn.XPercent = in.XP
		d := minersc.NewDKGMinerNodes()
		d.MinN = 0
		d.SimpleNodes = sns
		if err := minersc.VerifReduceNodes(d, true, gn, ctx); err != nil {
			return observed{err: err.Error()}
		}
		sns = d.SimpleNodes
		o.ret = int(math.MinInt32) // reduceNodes does not return the size
	default:
		var pool minersc.Pooler
		if !in.NilPool {
			p := setPool{}
			for _, id := range prevIDs {
				p[id] = true
			}
			pool = p
		}
		o.ret = minersc.VerifReduce(sns, in.Limit, in.XP, in.Seed, pool)
	}
	for k := range sns {
		o.ids = append(o.ids, k)
	}
	sort.Strings(o.ids)
	return o
}

// ---------- oracle: the property statement, from the inputs alone ----------

type rc struct {
	id    string
	stake uint64
	prev  bool
}

func before(a, b rc) bool { // stake desc, id asc
	if a.stake != b.stake {
		return a.stake > b.stake
	}
	return a.id < b.id
}

type verdict struct {
	fails   []string
	trigger bool
	tieSize int
	ties    bool
}

func oracle(in input, obs observed, kinds map[string]int) (v verdict) {
	fail := func(f string) { v.fails = append(v.fails, f) }
	n := len(in.Cands)
	maxn := in.Limit
	if n < maxn {
		maxn = n
	}
	xc := int(math.Ceil(in.XP * float64(maxn)))
	if in.Limit < 0 || xc < 0 || xc > maxn {
		kinds["outside-domain"]++
		return
	}
	if obs.panic {
		fail("panic-inside-the-domain")
		return
	}
	if obs.err != "" {
		kinds["rejected-by-reducenodes:"+strings.SplitN(obs.err, ":", 2)[0]]++
		return
	}
	sel := map[string]bool{}
	for _, id := range obs.ids {
		sel[id] = true
	}
	var cs []rc
	byID := map[string]rc{}
	for _, c := range in.Cands {
		r := rc{idStr(in, c.ID), c.Stake, c.Prev && !(in.NilPool && in.Path == "")}
		cs = append(cs, r)
		byID[r.id] = r
	}
	// 1. exactly the smaller of the limit and the number of candidates, all of them candidates
	if len(obs.ids) != maxn || (obs.ret != int(math.MinInt32) && obs.ret != maxn) {
		fail("size-not-min-of-limit-and-candidates")
	}
	for _, id := range obs.ids {
		if _, ok := byID[id]; !ok {
			fail("selected-node-is-not-a-candidate")
			return
		}
	}
	// 2. the required number of previous members, the highest staked ones
	var P []rc
	for _, r := range cs {
		if r.prev {
			P = append(P, r)
		}
	}
	x := len(P)
	if xc < x {
		x = xc
	}
	inP := 0
	for _, p := range P {
		if sel[p.id] {
			inP++
		}
	}
	if inP < x {
		fail("fewer-previous-members-than-required")
	}
	for _, p := range P {
		for _, q := range P {
			if !sel[p.id] && sel[q.id] && p.stake > q.stake {
				fail("previous-member-with-lower-stake-preferred")
			}
		}
	}
	// 3. otherwise higher stake is preferred
	for _, u := range cs {
		for _, w := range cs {
			if !sel[u.id] && sel[w.id] && w.stake < u.stake {
				better := 0
				for _, p := range P {
					if p.stake > w.stake {
						better++
					}
				}
				if !(w.prev && better < x) {
					fail("lower-stake-selected-over-higher-stake")
				}
			}
		}
	}
	// 4. ties at the cut-off stake: only the seed decides. Reference: quota = first x previous members in
	// (stake desc, id asc) order; rest sorted the same way; everything strictly above the cut-off stake;
	// then the first free slots of Perm(seed, #tied) applied to ALL tied candidates.
	sort.Slice(P, func(i, j int) bool { return before(P[i], P[j]) })
	quota := map[string]bool{}
	for _, p := range P[:x] {
		quota[p.id] = true
	}
	var rest []rc
	for _, r := range cs {
		if !quota[r.id] {
			rest = append(rest, r)
		}
	}
	sort.Slice(rest, func(i, j int) bool { return before(rest[i], rest[j]) })
	y := maxn - x
	if y > 0 && len(rest) > y {
		v.ties = true
		cut := rest[y-1].stake
		var above, tied []rc
		for _, r := range rest {
			if r.stake > cut {
				above = append(above, r)
			} else if r.stake == cut {
				tied = append(tied, r)
			}
		}
		v.tieSize = len(tied)
		v.trigger = len(above) == 0 && len(tied) >= 2
		expect := map[string]bool{}
		for id := range quota {
			expect[id] = true
		}
		for _, a := range above {
			expect[a.id] = true
		}
		room := y - len(above)
		for _, j := range rand.New(rand.NewSource(in.Seed)).Perm(len(tied)) {
			if room > 0 {
				expect[tied[j].id] = true
				room--
			}
		}
		if len(tied) > y-len(above) {
			kinds["oracle-tie-broken-by-seed"]++
		}
		if !sameSet(expect, sel) {
			// is it exactly the known deviation? lowest id of the tie group taken, the others permuted
			dev := map[string]bool{}
			if v.trigger {
				for id := range quota {
					dev[id] = true
				}
				dev[tied[0].id] = true
				room := y - 1
				for _, j := range rand.New(rand.NewSource(in.Seed)).Perm(len(tied) - 1) {
					if room > 0 {
						dev[tied[1+j].id] = true
						room--
					}
				}
			}
			if v.trigger && sameSet(dev, sel) {
				fail("tie-group-at-top-lowest-id-bypasses-seed")
			} else {
				fail("tie-choice-not-by-seeded-permutation")
			}
		}
	}
	return
}

func sameSet(a, b map[string]bool) bool {
	if len(a) != len(b) {
		return false
	}
	for k := range a {
		if !b[k] {
			return false
		}
	}
	return true
}

type result struct {
	fails   []string
	kinds   map[string]int
	coq     string
	nontriv bool
}

func run(in input) result {
	res := result{kinds: map[string]int{}}
	obs := runReal(in, false)
	v := oracle(in, obs, res.kinds)
	res.fails = v.fails
	// 5. identical for identical inputs (other map insertion order, fresh objects)
	obs2 := runReal(in, true)
	if obs.panic != obs2.panic || strings.Join(obs.ids, ",") != strings.Join(obs2.ids, ",") || obs.ret != obs2.ret {
		res.fails = append(res.fails, "result-differs-for-identical-inputs")
	}
	if v.trigger {
		res.kinds["tie-group-opens-the-remaining-list"]++
	}
	if v.ties {
		res.kinds["more-candidates-than-slots"]++
	} else {
		res.kinds["all-remaining-fit-or-no-slot"]++
	}
	if obs.panic {
		res.kinds["panic"]++
	}
	res.kinds["path-"+map[string]string{"": "reduce", "miners": "reducenodes"}[in.Path]]++
	res.nontriv = v.ties && v.tieSize >= 2 && !obs.panic

	// ---- Coq case (ids renamed to their rank among all ids of the case) ----
	var all []string
	for _, c := range in.Cands {
		all = append(all, idStr(in, c.ID))
	}
	for _, e := range in.ExtraPrev {
		all = append(all, idStr(in, e))
	}
	sort.Strings(all)
	rank := map[string]int{}
	for _, s := range all {
		if _, ok := rank[s]; !ok {
			rank[s] = len(rank)
		}
	}
	var nodes, prev []string
	for _, c := range in.Cands {
		nodes = append(nodes, vh.Pair(fmt.Sprint(rank[idStr(in, c.ID)]), vh.ZU(c.Stake)))
		if c.Prev {
			prev = append(prev, fmt.Sprint(rank[idStr(in, c.ID)]))
		}
	}
	for _, e := range in.ExtraPrev {
		prev = append(prev, fmt.Sprint(rank[idStr(in, e)]))
	}
	prevT := "(Some " + vh.List(prev) + ")"
	if in.NilPool && in.Path == "" {
		prevT = "None"
	}
	maxn := in.Limit
	if len(in.Cands) < maxn {
		maxn = len(in.Cands)
	}
	xc := int(math.Ceil(in.XP * float64(maxn)))
	var perms []string
	for k := 0; k <= len(in.Cands); k++ {
		perms = append(perms, vh.NatList(rand.New(rand.NewSource(in.Seed)).Perm(k)))
	}
	selT := "None"
	ret := obs.ret
	if !obs.panic && obs.err == "" {
		var ids []string
		for _, id := range obs.ids {
			ids = append(ids, fmt.Sprint(rank[id]))
		}
		selT = "(Some " + vh.List(ids) + ")"
		if ret == int(math.MinInt32) {
			ret = maxn
		}
	}
	if obs.err != "" {
		res.coq = "" // reduceNodes refused before reduce was called: nothing to compare
	} else {
		res.coq = fmt.Sprintf("{| rdc_nodes := %s; rdc_prev := %s; rdc_limit := %s; rdc_xc := %s; rdc_perms := %s; rdc_sel := %s; rdc_ret := %s |}",
			vh.List(nodes), prevT, vh.Z(int64(in.Limit)), vh.Z(int64(xc)), vh.List(perms), selT, vh.Z(int64(ret)))
	}
	return res
}

// ---------- concurrent selections ----------

func obsKey(o observed) string {
	return fmt.Sprintf("%v|%d|%s|%s", o.panic, o.ret, o.err, strings.Join(o.ids, ","))
}

// runBatch runs the batch `rounds` times; returns (g, i) of the first selection whose concurrent result
// differs from its sequential result, the observation, or g = -1
func runBatch(conc [][]input, rounds int) (int, int, observed) {
	seq := make([][]string, len(conc))
	for g := range conc {
		for _, in := range conc[g] {
			seq[g] = append(seq[g], obsKey(runReal(in, false)))
		}
	}
	for r := 0; r < rounds; r++ {
		type bad struct {
			g, i int
			o    observed
		}
		var mu sync.Mutex
		var first *bad
		var wg sync.WaitGroup
		start := make(chan struct{})
		for g := range conc {
			wg.Add(1)
			go func(g int) {
				defer wg.Done()
				<-start
				for i, in := range conc[g] {
					o := runReal(in, false)
					if obsKey(o) != seq[g][i] {
						mu.Lock()
						if first == nil {
							first = &bad{g, i, o}
						}
						mu.Unlock()
						return
					}
				}
			}(g)
		}
		close(start)
		wg.Wait()
		if first != nil {
			return first.g, first.i, first.o
		}
	}
	return -1, -1, observed{}
}

// a tie-heavy selection: many candidates tied at the cut-off stake, more candidates than slots
func genTied(r *vh.Rand) input {
	var in input
	n := r.Range(8, 24)
	ids := r.Perm(40)
	top := r.Intn(3)
	for i := 0; i < n; i++ {
		st := uint64(10)
		if i < top {
			st = 20
		}
		in.Cands = append(in.Cands, cand{ID: ids[i], Stake: st})
	}
	in.Limit = r.Range(top+1, n-1)
	in.Seed = int64(r.U64())
	in.NilPool = true
	return in
}

func genBatch(r *vh.Rand, perG int) [][]input {
	g := r.Range(4, 8)
	conc := make([][]input, g)
	for i := range conc {
		for j := 0; j < perG; j++ {
			conc[i] = append(conc[i], genTied(r))
		}
	}
	return conc
}

// ---------- generators ----------

var stakeSets = [][]uint64{
	{10, 10, 10, 20, 20, 30, 5, 0},
	{100},
	{1, 2, 3, 4, 5, 6, 7, 8, 9, 10, 11, 12},
	{0, 1, 1 << 53, 1<<53 + 1, 1<<53 - 1, 1 << 63, math.MaxUint64, math.MaxUint64 - 1},
	{7, 7, 7, 9},
}

func gen(r *vh.Rand, malformed bool) input {
	var in input
	n := r.Range(0, 10)
	if r.Chance(1, 10) {
		n = r.Range(11, 16)
	}
	ss := stakeSets[r.Intn(len(stakeSets))]
	ids := r.Perm(40)
	prevRate := r.Intn(4) // 0: no previous members among the candidates
	for i := 0; i < n; i++ {
		in.Cands = append(in.Cands, cand{ID: ids[i], Stake: r.PickU64(ss), Prev: prevRate > 0 && r.Chance(prevRate, 4)})
	}
	for i := 0; i < r.Intn(3); i++ {
		in.ExtraPrev = append(in.ExtraPrev, ids[n+i])
	}
	lims := []int{0, 1, 2, 3, n / 2, n - 1, n, n + 1, n + 7}
	in.Limit = lims[r.Intn(len(lims))]
	if in.Limit < 0 {
		in.Limit = 0
	}
	in.XP = []float64{0, 0.1, 0.25, 0.35, 0.5, 0.7, 0.99, 1}[r.Intn(8)]
	in.Seed = int64(r.U64())
	if r.Chance(1, 3) {
		in.Seed = int64(r.Intn(5))
	}
	in.NilPool = r.Chance(1, 8)
	if r.Chance(1, 5) {
		in.Path = "miners"
		in.NilPool = false
	}
	if malformed {
		switch r.Intn(4) {
		case 0:
			in.XP = []float64{1.5, 2, 17}[r.Intn(3)]
		case 1:
			in.XP = []float64{-0.5, -1}[r.Intn(2)]
		case 2:
			in.Limit = -1 - r.Intn(3)
		default:
			in.Seed = []int64{math.MinInt64, math.MaxInt64, -1}[r.Intn(3)]
		}
	}
	return in
}

func key(in input) string {
	var b strings.Builder
	fmt.Fprintf(&b, "%s|%d|%v|%d|%v|%v", in.Path, in.Limit, in.XP, in.Seed, in.NilPool, in.ExtraPrev)
	for _, c := range in.Cands {
		fmt.Fprintf(&b, "|%d,%d,%v", c.ID, c.Stake, c.Prev)
	}
	return b.String()
}

func main() {
	o := vh.ParseFlags()
	sc.Init()
	rep := vh.NewReport("reduce", "C39", o)
	rep.Rule = "calls of the real SimpleNodes.reduce (4 in 5 directly with a set-backed or nil Pooler, 1 in 5 through DKGMinerNodes.reduceNodes(final) with a real previous magic block and node pool): 0-16 candidates, stakes from tie-rich sets and " +
		"uint64 edge values (0, 1, 2^53+-1, 2^63, 2^64-1), previous members among and outside the candidates, limit in {0,1,2,3,n/2,n-1,n,n+1,n+7}, x_percent in {0,.1,.25,.35,.5,.7,.99,1}, random and small seeds; malformed stream: x_percent > 1 or < 0, negative limit, extreme seeds " +
		"(model correspondence only); exhaustive: all stake assignments over {1,2} for <=5 candidates x limit x 3 seeds; each input is run twice (map built in both orders); concurrent stream: batches of 4-8 goroutines x 150 tie-heavy selections (8-24 candidates, most tied at the cut-off, own seeds) run at the same time, every result compared with the same selection run alone. non-trivial = more candidates than free slots with at least two tied at the cut-off stake"
	cf := &vh.CasesFile{Imports: []string{"Base.Corr", "Model.Reduce", "Corr.Reduce"}, CaseType: "rd_case", CheckFn: "rd_check", Shard: 100}

	handle := func(in input, toCoq bool) {
		res := run(in)
		for k, n := range res.kinds {
			rep.CountN(k, n)
		}
		rep.Case(key(in), res.nontriv, in)
		if toCoq && res.coq != "" {
			cf.Add(res.coq)
			rep.CaseInputs = append(rep.CaseInputs, in)
		}
		for _, f := range res.fails {
			has := func(in2 input) bool {
				for _, x := range run(in2).fails {
					if x == f {
						return true
					}
				}
				return false
			}
			mk := func(keep []int) input {
				in2 := in
				in2.Cands = nil
				for _, i := range keep {
					in2.Cands = append(in2.Cands, in.Cands[i])
				}
				return in2
			}
			keep := vh.ShrinkIdx(len(in.Cands), func(keep []int) bool { return has(mk(keep)) })
			in2 := mk(keep)
			// smaller numbers where the failure survives
			try := func(f func(*input)) {
				c := in2
				c.Cands = append([]cand{}, in2.Cands...)
				f(&c)
				if has(c) {
					in2 = c
				}
			}
			try(func(c *input) { c.ExtraPrev = nil })
			try(func(c *input) { c.XP = 0 })
			try(func(c *input) { c.Path = "" })
			try(func(c *input) { c.Seed = 1 })
			try(func(c *input) { c.Limit = 1 })
			try(func(c *input) {
				for i := range c.Cands {
					c.Cands[i].Prev = false
				}
			})
			try(func(c *input) {
				for i := range c.Cands {
					c.Cands[i].ID = i + 1
				}
			})
			// fewer candidates under a small seed
			func() {
				for k := 1; k < len(in2.Cands); k++ {
					for seed := int64(0); seed <= 20; seed++ {
						c := in2
						c.Cands = append([]cand{}, in2.Cands[:k]...)
						c.Seed = seed
						if has(c) {
							in2 = c
							return
						}
					}
				}
			}()
			rep.Violate("C39:"+f, "view-change node selection: "+f, in2)
		}
	}
	finish := func() {
		files, err := cf.Write(o.Out, "C39")
		if err != nil {
			panic(err)
		}
		rep.CaseFiles = files
		rep.ShardSize = 100
		rep.Write(o.Out)
	}
	handleBatch := func(conc [][]input, rounds int) bool {
		rep.Count("concurrent-batches")
		nsel := 0
		for _, l := range conc {
			nsel += len(l)
		}
		rep.CountN("concurrent-selections", nsel*rounds)
		g, i, obs := runBatch(conc, rounds)
		if g < 0 {
			return false
		}
		// the model's answer is the sequential one: emit the deviating observation as a case as well
		in := conc[g][i]
		res := run(in)
		_ = res
		// smallest batch that still shows it: two goroutines repeating two selections
		small := [][]input{{in}, {conc[(g+1)%len(conc)][0]}}
		for k := 0; k < 200; k++ {
			small[0] = append(small[0], in)
			small[1] = append(small[1], small[1][0])
		}
		replay := input{Conc: conc}
		if sg, _, _ := runBatch(small, 20); sg >= 0 {
			replay = input{Conc: [][]input{{in}, {small[1][0]}}}
		}
		rep.Violate("C39:result-differs-when-selections-run-concurrently",
			fmt.Sprintf("view-change node selection: a selection run while other selections run in other goroutines chose %v instead of its sequential result (replay repeats the batch; a two-goroutine replay repeats each selection 200 times)", obs.ids), replay)
		return true
	}
	var rin input
	if o.LoadReplay(&rin) {
		rep.Note("replay of one input")
		if rin.Conc != nil {
			conc := rin.Conc
			if len(conc) == 2 && len(conc[0]) == 1 && len(conc[1]) == 1 {
				a, b := conc[0][0], conc[1][0]
				for k := 0; k < 200; k++ {
					conc[0] = append(conc[0], a)
					conc[1] = append(conc[1], b)
				}
			}
			handle(conc[0][0], true) // the model's (sequential) answers for the first selections, as cases
			handle(conc[len(conc)-1][0], true)
			handleBatch(conc, 50)
		} else {
			handle(rin, true)
		}
		finish()
		return
	}
	rnd := vh.NewRand(o.Seed)
	for i := 0; i < o.N(400, 5000); i++ {
		handle(gen(rnd, false), i < o.N(300, 3000))
	}
	for i := 0; i < o.N(80, 800); i++ {
		handle(gen(rnd, true), true)
	}
	// concurrent stream: batches of 4-8 goroutines, each running tie-heavy selections with its own seeds
	for b := 0; b < o.N(6, 40); b++ {
		conc := genBatch(rnd, o.N(150, 400))
		if handleBatch(conc, 2) {
			break
		}
		// a few of them also go to the model (their concurrent results equal the sequential ones here)
		for g := 0; g < 2; g++ {
			handle(conc[g][0], true)
		}
	}
	// exhaustive small scope
	nExh := 0
	for n := 1; n <= o.N(5, 7); n++ {
		for mask := 0; mask < 1<<uint(n); mask++ {
			for limit := 0; limit <= n; limit++ {
				for seed := int64(1); seed <= 3; seed++ {
					in := input{Limit: limit, Seed: seed, NilPool: true}
					for i := 0; i < n; i++ {
						in.Cands = append(in.Cands, cand{ID: i + 1, Stake: uint64(1 + (mask>>uint(i))&1)})
					}
					nExh++
					handle(in, nExh%o.N(40, 10) == 0)
				}
			}
		}
	}
	rep.Note("exhaustive: %d inputs = every assignment of stakes {1,2} to 1..%d candidates x every limit x seeds 1..3, checked by the oracle; every %d-th also compared with the model", nExh, o.N(5, 7), o.N(40, 10))
	finish()
}
