package main

import "verifharness/vh"

// genHist2 generates a history while tracking which keys are present at the transaction / block /
// base level, so that it knows how many objects the caller holds and aims mutations at them.
func genHist2(t vtype, r *vh.Rand, n int) hist {
	h := hist{Type: t.name}
	keys := r.Range(1, 3)
	txn, blk, base := map[int]bool{}, map[int]bool{}, map[int]bool{}
	cp := func(m map[int]bool) map[int]bool {
		c := map[int]bool{}
		for k, v := range m {
			c[k] = v
		}
		return c
	}
	nh := 0
	get := func(k int) {
		h.Ops = append(h.Ops, op{K: "get", Key: k})
		if txn[k] {
			nh++
		}
	}
	allGets := func() {
		for k := 0; k < keys; k++ {
			get(k)
		}
	}
	pickHandle := func() int { return nh - 1 - r.Intn(min(nh, 4)) }
	for len(h.Ops) < n {
		k := r.Intn(keys)
		switch x := r.Intn(24); {
		case x < 4:
			h.Ops = append(h.Ops, op{K: "ins", Key: k, Seed: r.U64()%1000 + 1})
			nh++
			txn[k] = true
		case x < 7:
			get(k)
		case x < 12 && nh > 0:
			h.Ops = append(h.Ops, op{K: "mut", I: pickHandle()})
			if r.Chance(2, 3) {
				allGets()
			}
		case x < 14 && nh > 0:
			h.Ops = append(h.Ops, op{K: "insh", Key: k, I: pickHandle()})
			txn[k] = true
		case x < 15:
			h.Ops = append(h.Ops, op{K: "del", Key: k})
			delete(txn, k)
		case x < 17:
			h.Ops = append(h.Ops, op{K: "ctxn"})
			blk = cp(txn)
			if r.Bool() {
				allGets()
			}
		case x < 19:
			h.Ops = append(h.Ops, op{K: "dtxn"})
			txn = cp(blk)
			allGets()
		case x < 20:
			if r.Bool() {
				h.Ops = append(h.Ops, op{K: "ctxn"})
				blk = cp(txn)
			} else {
				h.Ops = append(h.Ops, op{K: "dtxn"})
				txn = cp(blk)
			}
			h.Ops = append(h.Ops, op{K: "cblk"})
			base = cp(blk)
			allGets()
		case x < 21:
			h.Ops = append(h.Ops, op{K: "dblk"})
			blk = cp(base)
			txn = cp(base)
			allGets()
		case x >= 22:
			if !inflatable[t.name] {
				get(k)
				break
			}
			// an insert the trie rejects, then look at the same transaction and at the next one
			h.Ops = append(h.Ops, op{K: "insbig", Key: k, Seed: r.U64()%1000 + 1})
			allGets()
			if r.Bool() {
				h.Ops = append(h.Ops, op{K: "ctxn"})
				blk = cp(txn)
				allGets()
			}
		default:
			// malformed: operations on objects the caller does not hold, delete of an absent key
			h.Ops = append(h.Ops, op{K: "mut", I: nh + 3}, op{K: "insh", Key: k, I: nh + 5})
			if !txn[(k+1)%keys] {
				h.Ops = append(h.Ops, op{K: "del", Key: (k + 1) % keys})
			}
		}
	}
	if r.Bool() {
		h.Ops = append(h.Ops, op{K: "dtxn"})
		txn = cp(blk)
	}
	allGets()
	return h
}
