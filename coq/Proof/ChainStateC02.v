(* C02: a failing contract call only pays its fee and consumes its nonce. *)
From ZC Require Import Model.ChainState Proof.ChainState.
Open Scope Z_scope.

Lemma cs_update_ideal_chargeable : forall cfg st round tx msg st' status out evs,
    tx_type tx = TSC ->
    cs_update_ideal cfg st round tx (SCChargeable msg) = Applied st' status out evs ->
    cs_finish cfg (tx_hash tx, round) tx (st_accts st) (st_nodes st) [] [] [EvError msg] 2 (Some msg)
    = Applied st' status out evs.
Proof.
  intros cfg st round tx msg st' status out evs TY H. unfold cs_update_ideal in H. rewrite TY in H.
  destruct (st_accts st) eqn:EA; [destruct (st_nodes st) eqn:ENo; [discriminate|]|];
    (destruct (cs_max_supply <? tx_value tx); [discriminate|];
     destruct (negb (cs_nonce_ok _ tx)); [discriminate|];
     destruct (negb (cs_validate_ok cfg tx)); [discriminate|]; exact H).
Qed.

Definition cs_user_event (m : list (Z * cs_acct)) (id : Z) : cs_event :=
  EvUser id (cs_bal m id) (cs_nonce m id).

Lemma cs_c02_chargeable : forall cfg st round tx msg st' status out evs,
    cs_canon_accts (st_accts st) -> cs_canon_txn cfg tx (SCChargeable msg) ->
    tx_type tx = TSC ->
    cs_update_state cfg st round tx (SCChargeable msg) = Applied st' status out evs ->
    let fee := cs_fee_of cfg tx in
    let from := tx_from tx in
    let miner := cfg_miner cfg in
    st_nodes st' = st_nodes st /\ status = 2 /\ out = Some msg /\
    (fee <> 0 -> from <> miner) /\
    (forall id, id <> from -> (fee <> 0 -> id <> miner) -> cs_get id (st_accts st') = cs_get id (st_accts st)) /\
    cs_bal (st_accts st') from = cs_bal (st_accts st) from - fee /\
    (from <> miner -> cs_bal (st_accts st') miner = cs_bal (st_accts st) miner + fee) /\
    cs_nonce (st_accts st') from = cs_wrap_i64 (cs_nonce (st_accts st) from + 1) /\
    (forall id, id <> from -> cs_nonce (st_accts st') id = cs_nonce (st_accts st) id) /\
    exists users,
      evs = EvError msg ::
            (if cfg_events cfg
             then (if cs_nonce (st_accts st) from =? 0 then [EvUnique] else []) ++ users
             else []) /\
      (forall e, In e users ->
                 e = cs_user_event (st_accts st') from \/ (fee <> 0 /\ e = cs_user_event (st_accts st') miner)).
Proof.
  intros cfg st round tx msg st' status out evs Cs Ct TY H fee from miner.
  rewrite cs_update_state_canon_eq in H by assumption.
  pose proof (cs_update_ideal_effect _ _ _ _ _ _ _ _ _ H) as Eff. cbv zeta in Eff.
  destruct Eff as (_ & Bal & Nf & No & Get & _ & _).
  apply cs_update_ideal_chargeable in H; [|exact TY].
  apply cs_finish_applied in H. destruct H as (m2 & ue2 & A & B & Nodes & St & Out & Ev).
  cbn [app] in A. rewrite app_nil_r in A.
  assert (Q : cs_queued cfg tx (SCChargeable msg) = cs_fee_transfers cfg tx).
  { unfold cs_queued. rewrite TY. reflexivity. }
  rewrite Q in Bal, Get.
  (* the single fee transfer *)
  assert (FeeFacts :
    (fee <> 0 -> from <> miner) /\
    (forall id, cs_inflow (cs_fee_transfers cfg tx) id = if miner =? id then fee else 0) /\
    (forall id, cs_outflow (cs_fee_transfers cfg tx) id = if from =? id then fee else 0) /\
    ue2 = (if fee =? 0 then []
           else cs_put miner (cs_user_of m2 (tx_hash tx, round) miner)
                  (cs_put from (cs_user_of m2 (tx_hash tx, round) from) []))).
  { unfold cs_fee_transfers, fee, cs_fee_of in *. destruct (cfg_fee cfg).
    - cbn [cs_apply_transfers] in A.
      destruct (cs_transfer_assert _ _ _) as [m1| |] eqn:TA; try discriminate.
      cbn [tr_amt tr_to tr_from] in A. inversion A; subst m1 ue2; clear A.
      apply cs_transfer_assert_ok in TA. apply cs_transfer_amount_ok in TA.
      cbn [tr_amt tr_to tr_from] in TA.
      split; [|split; [|split]].
      + intros NZ. destruct TA as [[Z0 _]|(_ & NE & _)]; [contradiction|exact NE].
      + intros id. cbn [cs_inflow tr_to tr_amt]. fold miner. destruct (miner =? id); lia.
      + intros id. cbn [cs_outflow tr_from tr_amt]. fold from. destruct (from =? id); lia.
      + reflexivity.
    - cbn [cs_apply_transfers] in A. inversion A; subst. split; [|split; [|split]].
      + intros NZ. contradiction NZ. reflexivity.
      + intros id. cbn. destruct (miner =? id); reflexivity.
      + intros id. cbn. destruct (from =? id); reflexivity.
      + reflexivity. }
  destruct FeeFacts as (NEq & In_ & Out_ & UE).
  split; [exact Nodes|]. split; [exact St|]. split; [exact Out|]. split; [exact NEq|].
  split; [|split; [|split; [|split; [|split]]]].
  - intros id NF NM. apply Get; [exact NF|].
    intros t It NZ. unfold cs_fee_transfers in It. fold fee in It.
    unfold cs_fee_of in *. destruct (cfg_fee cfg); [|destruct It].
    destruct It as [<-|[]]. cbn [tr_amt tr_from tr_to] in *. split; [exact NF|apply NM; exact NZ].
  - rewrite Bal, In_, Out_. fold from. rewrite Z.eqb_refl.
    destruct (Z.eqb_spec miner from) as [E|NE]; [|lia].
    destruct (Z.eq_dec fee 0) as [->|NZ]; [lia|]. exfalso. apply (NEq NZ). symmetry. exact E.
  - intros NE. rewrite Bal, In_, Out_. rewrite Z.eqb_refl.
    destruct (Z.eqb_spec from miner); [contradiction|]. lia.
  - exact Nf.
  - exact No.
  - (* events *)
    destruct (cs_increment_nonce (tx_hash tx, round) m2 (tx_from tx)) as [[m3 first] u] eqn:EI.
    cbn [fst snd] in B, Ev.
    pose proof (cs_increment_nonce_spec _ _ _ _ _ _ EI) as (_ & B3 & N3 & N3o & _ & _ & Fst & Uu).
    assert (A' := A). apply cs_apply_transfers_ok in A'. destruct A' as (_ & N2 & _).
    exists (map (fun p => EvUser (fst p) (fst (snd p)) (snd (snd p))) (cs_put (tx_from tx) u ue2)).
    split.
    + rewrite Ev. destruct (cfg_events cfg); [|reflexivity].
      cbn [app]. rewrite Fst, N2. reflexivity.
    + intros e Ie. apply in_map_iff in Ie. destruct Ie as ([k [b n]] & <- & Ip). cbn [fst snd].
      rewrite B. fold from in Ip, Uu, N3, N3o |- *.
      assert (Um : forall id, id <> from -> cs_user_of m2 (tx_hash tx, round) id = (cs_bal m3 id, cs_nonce m3 id)).
      { intros id NE. unfold cs_user_of. rewrite cs_acct_of_bal, cs_acct_of_nonce, B3, N3o by exact NE. reflexivity. }
      rewrite UE in Ip. unfold cs_user_event. rewrite Uu in Ip.
      assert (FromCase : (from, (cs_bal m3 from, cs_nonce m3 from)) = (k, (b, n)) ->
                         EvUser k b n = EvUser from (cs_bal m3 from) (cs_nonce m3 from)).
      { intros Eq. injection Eq as <- <- <-. reflexivity. }
      destruct (Z.eqb_spec fee 0) as [Z0|NZ].
      * cbn [cs_put] in Ip. destruct Ip as [Ip|[]]. left. apply FromCase. exact Ip.
      * pose proof (NEq NZ) as NE.
        rewrite (Um miner) in Ip by congruence.
        assert (MinerCase : (miner, (cs_bal m3 miner, cs_nonce m3 miner)) = (k, (b, n)) ->
                            EvUser k b n = EvUser miner (cs_bal m3 miner) (cs_nonce m3 miner)).
        { intros Eq. injection Eq as <- <- <-. reflexivity. }
        cbn [cs_put] in Ip.
        destruct (Z.eqb_spec miner from) as [E|_]; [exfalso; apply NE; symmetry; exact E|].
        destruct (Z.ltb_spec miner from) as [Lt|Ge].
        -- cbn [cs_put] in Ip.
           destruct (Z.eqb_spec from miner); [contradiction|].
           destruct (Z.ltb_spec from miner); [lia|].
           cbn [cs_put] in Ip. rewrite Z.eqb_refl in Ip.
           destruct Ip as [Ip|[Ip|[]]].
           ++ right. split; [exact NZ|]. apply MinerCase. exact Ip.
           ++ left. apply FromCase. exact Ip.
        -- cbn [cs_put] in Ip. rewrite Z.eqb_refl in Ip.
           destruct Ip as [Ip|[Ip|[]]].
           ++ left. apply FromCase. exact Ip.
           ++ right. split; [exact NZ|]. apply MinerCase. exact Ip.
Qed.

(* the state is independent of everything the failing call did: by construction the chargeable
   oracle result carries nothing but the error text *)
Lemma cs_c02_internal_rejected : forall cfg st round tx,
    tx_type tx = TSC -> cs_is_applied (cs_update_state cfg st round tx SCInternal) = false.
Proof.
  intros cfg st round tx TY. unfold cs_update_state, cs_update_ideal. rewrite TY.
  destruct (st_accts st); [destruct (st_nodes st); [reflexivity|]|];
    (destruct (cs_max_supply <? tx_value tx); [reflexivity|];
     destruct (negb (cs_nonce_ok _ tx)); [reflexivity|];
     destruct (negb (cs_validate_ok cfg tx)); reflexivity).
Qed.

(* ---------- later reads ---------- *)
(* What a later call reads through the state context (transaction cache, block cache, state
   cache, trie) is, in the model, the committed node map [st_nodes].  The writes of the calls that
   were applied successfully, in order: *)
Fixpoint cs_committed_writes (cfg : cs_cfg) (st : cs_state) (h : list cs_item) : list (Z * option Z) :=
  match h with
  | [] => []
  | (round, tx, r) :: tl =>
      let o := cs_update_state cfg st round tx r in
      (match o, tx_type tx, r with
       | Applied _ _ _ _, TSC, SCOk ws _ _ _ _ => ws
       | _, _, _ => []
       end) ++ cs_committed_writes cfg (cs_post st o) tl
  end.

Lemma cs_apply_writes_app : forall a b n, cs_apply_writes (a ++ b) n = cs_apply_writes b (cs_apply_writes a n).
Proof. intros. unfold cs_apply_writes. apply fold_left_app. Qed.

Lemma cs_update_state_nodes : forall cfg st round tx r st' s o e,
    cs_update_state cfg st round tx r = Applied st' s o e -> st_nodes st' = cs_nodes_after st tx r.
Proof.
  intros cfg st round tx r st' s o e H. unfold cs_update_state in H.
  destruct (cs_update_ideal cfg st round tx r) as [st0 s0 o0 e0| |] eqn:E; try discriminate.
  inversion H; subst. cbn [st_nodes].
  apply cs_update_ideal_applied in E. destruct E as (_ & _ & _ & _ & N & _). exact N.
Qed.

(* the nodes after any history are the initial nodes overwritten by the writes of the successfully
   applied calls only: whatever a chargeably failed, internally failed or rejected call wrote while
   it ran is invisible to every later read *)
Lemma cs_c02_nodes_after_history : forall cfg h st,
    st_nodes (cs_run cfg st h) = cs_apply_writes (cs_committed_writes cfg st h) (st_nodes st).
Proof.
  intros cfg h. unfold cs_run. induction h as [|[[round tx] r] tl IH]; intros st.
  - reflexivity.
  - cbn [fold_left cs_committed_writes]. rewrite IH, cs_apply_writes_app. unfold cs_step.
    destruct (cs_update_state cfg st round tx r) as [st' s o e| |] eqn:E; cbn [cs_post].
    + f_equal. rewrite (cs_update_state_nodes _ _ _ _ _ _ _ _ _ E). unfold cs_nodes_after.
      destruct (tx_type tx); try reflexivity; destruct r; reflexivity.
    + destruct (tx_type tx); try reflexivity; destruct r; reflexivity.
    + destruct (tx_type tx); try reflexivity; destruct r; reflexivity.
Qed.

Lemma cs_c02_failed_call_invisible : forall cfg st round tx r k,
    (forall ws trs sg evs out, r <> SCOk ws trs sg evs out) ->
    cs_get k (st_nodes (cs_post st (cs_update_state cfg st round tx r))) = cs_get k (st_nodes st).
Proof.
  intros cfg st round tx r k NOk.
  destruct (cs_update_state cfg st round tx r) as [st' s o e| |] eqn:E; cbn [cs_post]; try reflexivity.
  rewrite (cs_update_state_nodes _ _ _ _ _ _ _ _ _ E). unfold cs_nodes_after.
  destruct (tx_type tx); try reflexivity; destruct r; try reflexivity.
  exfalso. eapply NOk. reflexivity.
Qed.
