(* C45: Blocks built by an honest generator pass honest verification.
   Only statements; each is closed by [exact] of a lemma in Proof/BlockGen.v.

   All theorems quantify over the state type and over the per-transaction state update [apply]
   (chain.UpdateState), the nonce lookup [snonce], the state root and the change count: ANY
   functions.  [bg_generate] / [bg_verify] are the models of generateBlock / VerifyBlock in
   Model/BlockGen.v. *)
From ZC Require Import Model.BlockGen Proof.BlockGenUtil Proof.BlockGen Corr.BlockGen.
Open Scope Z_scope.

(* The model is the tree with the fixes 1f71793 (pool transactions named like a built-in are skipped)
   and fe583b6 (cost comparisons against the remaining budget).  Before them the statement was false
   for pools with a built-in function name or a math.MaxInt cost; it now holds for them too.
   Time admission: generator (validateTransaction) and verifier (ValidateWrtTimeForBlock) are the same
   function bg_within (bc_bdate cfg) (bt_cdate t) (bc_tol cfg) of the block's creation date, the
   transaction's creation date and the tolerance; the wall clock is not an input of the model (the
   engine checks on the real code that included transactions satisfy it for the real block date).
   Hypotheses, spelled out:
   [bg_pool_ok pool]   every pool transaction passed admission (bt_valid: hash, signature, ids), the cost
                       EstimateTransactionCostFee hands to the pool iteration equals the cost
                       EstimateTransactionCost gives the verifier (bt_gcost = bt_cost; the engine checks this
                       on the real code for every pool transaction), and every estimated cost is a
                       non-negative Go int, i.e. in [0, 2^63) (math.MaxInt included);
   [bg_bis_ok cfg pool bis bic]  the cost limit is a Go int not below the total cost [bic] of the
                       built-in transactions, which are valid, dated with the block, pairwise different in
                       hash and name and different in hash from every pool transaction. *)

(* Main theorem (full statement): for every admitted pool (any order, any mix of valid/past/future/
   duplicate nonces, any function names, any costs up to math.MaxInt) and every previous state, the block the generator returns is accepted by a verifier
   that starts from the same state, and the verifier recomputes the same root, outputs and change
   count. *)
Theorem C45_generated_block_verifies :
  forall (state : Type) (apply : state -> bg_txn -> option (state * bg_out))
         (snonce : state -> Z -> option Z) (root chg : state -> Z)
         cfg st0 pool bis bic b,
    bg_pool_ok pool -> bg_bis_ok cfg pool bis bic ->
    bg_generate state apply snonce root chg cfg st0 pool bis = GenOk b ->
    bg_verify state apply root chg cfg st0 b = VerOk (bk_root b) (map snd (bk_txns b)) (bk_chg b).
Proof. exact bg_generated_block_verifies. Qed.
Print Assumptions C45_generated_block_verifies.

(* No transaction twice. *)
Theorem C45_no_dup_txn :
  forall (state : Type) (apply : state -> bg_txn -> option (state * bg_out))
         (snonce : state -> Z -> option Z) (root chg : state -> Z)
         cfg st0 pool bis bic b,
    bg_bis_ok cfg pool bis bic ->
    bg_generate state apply snonce root chg cfg st0 pool bis = GenOk b ->
    NoDup (map bt_hash (map fst (bk_txns b))).
Proof. exact bg_no_dup_txn. Qed.
Print Assumptions C45_no_dup_txn.

(* Unconditionally: the block is a duplicate-free selection of pool transactions followed by the
   built-in templates, each used at most once and in order. *)
Theorem C45_block_shape :
  forall (state : Type) (apply : state -> bg_txn -> option (state * bg_out))
         (snonce : state -> Z -> option Z) (root chg : state -> Z)
         cfg st0 pool bis b,
    bg_generate state apply snonce root chg cfg st0 pool bis = GenOk b ->
    exists pp bp, bk_txns b = pp ++ bp /\ NoDup (map bt_hash (map fst pp)) /\
                  Forall (fun t => In t pool /\ bt_fname t = 0) (map fst pp) /\ bg_bipart (map fst bp) bis.
Proof. exact bg_no_dup_pool_part. Qed.
Print Assumptions C45_block_shape.

(* Each sender's nonces are consecutive (in int64 arithmetic, as the code compares them), starting
   after the nonce recorded in the previous state, provided the state update stores the nonce of
   the transaction it applies (which validateNonce/incrementNonce do). *)
Theorem C45_nonces_consecutive :
  forall (state : Type) (apply : state -> bg_txn -> option (state * bg_out))
         (snonce : state -> Z -> option Z) (root chg : state -> Z)
         cfg st0,
    (forall st t st' o c, apply st t = Some (st', o) ->
       bg_nz state snonce st' c = if c =? bt_client t then bt_nonce t else bg_nz state snonce st c) ->
    forall pool bis b,
    Forall (fun x => bt_client x = bc_miner cfg) bis ->
    bg_generate state apply snonce root chg cfg st0 pool bis = GenOk b ->
    bg_consec (bg_nz state snonce st0) (map fst (bk_txns b)).
Proof. exact bg_nonces_consecutive. Qed.
Print Assumptions C45_nonces_consecutive.

(* The exact (mathematical) sum of the costs stays within the limit, for all non-negative int costs. *)
Theorem C45_cost_le_limit :
  forall (state : Type) (apply : state -> bg_txn -> option (state * bg_out))
         (snonce : state -> Z -> option Z) (root chg : state -> Z)
         cfg st0 pool bis bic b,
    bg_bis_ok cfg pool bis bic -> bg_pool_gcost_ok pool -> bg_pool_costs_ok pool ->
    bg_generate state apply snonce root chg cfg st0 pool bis = GenOk b ->
    exists s, bg_sum_exact (map fst (bk_txns b)) = Some s /\ s <= bc_maxcost cfg.
Proof. exact bg_cost_le_limit. Qed.
Print Assumptions C45_cost_le_limit.

(* A built-in name occurs at most once. *)
Theorem C45_builtin_at_most_once :
  forall (state : Type) (apply : state -> bg_txn -> option (state * bg_out))
         (snonce : state -> Z -> option Z) (root chg : state -> Z)
         cfg st0 pool bis b,
    bg_generate state apply snonce root chg cfg st0 pool bis = GenOk b ->
    NoDup (bg_builtin_names bis) ->
    forall k, k <> 0 -> (bg_count k (map bt_fname (map fst (bk_txns b))) <= 1)%nat.
Proof. exact bg_builtin_at_most_once. Qed.
Print Assumptions C45_builtin_at_most_once.

(* ---------- the former counterexamples (before 1f71793 / fe583b6) now verify ---------- *)
Definition c45_cfg : bg_cfg :=
  {| bc_maxcost := 100; bc_maxbytes := 1000000; bc_tol := 600; bc_bdate := 5000; bc_miner := 999; bc_fee := false; bc_minfee := 0 |}.
Definition c45_txn (h c n cost fn kind v to : Z) : bg_txn :=
  {| bt_hash := h; bt_client := c; bt_nonce := n; bt_fee := 0; bt_cdate := 5000; bt_valbig := false;
     bt_cost := Some cost; bt_gcost := Some cost; bt_gfee := 0; bt_exempt := false; bt_size := 10; bt_fname := fn; bt_valid := true; bt_kind := kind;
     bt_value := v; bt_to := to |}.

(* two admitted contract calls named "payFees" (name 1), one ordinary call: the named ones are left out *)
Definition c45_pool_named : list bg_txn :=
  [c45_txn 0 1 1 5 1 1 0 0; c45_txn 1 2 1 5 1 1 0 0; c45_txn 2 3 1 5 0 1 0 0].
(* a call of a function missing from the cost table (cost math.MaxInt) between ordinary calls *)
Definition c45_pool_maxint : list bg_txn :=
  [c45_txn 0 1 1 10 0 1 0 0; c45_txn 1 1 2 (2 ^ 63 - 1) 0 3 0 0;
   c45_txn 2 2 1 80 0 1 0 0; c45_txn 3 2 2 80 0 1 0 0].

Example C45_named_pool_verifies :
  match bg_generate bgc_state (bgc_apply false) bgc_snonce (fun _ => 0) (fun _ => 0) c45_cfg [] c45_pool_named [] with
  | GenOk b => map (fun p => bt_hash (fst p)) (bk_txns b) = [2] /\
               bg_verify bgc_state (bgc_apply false) (fun _ => 0) (fun _ => 0) c45_cfg [] b
               = VerOk (bk_root b) (map snd (bk_txns b)) (bk_chg b)
  | _ => False
  end.
Proof. vm_compute. split; reflexivity. Qed.

Example C45_maxint_pool_verifies :
  match bg_generate bgc_state (bgc_apply false) bgc_snonce (fun _ => 0) (fun _ => 0) c45_cfg [] c45_pool_maxint [] with
  | GenOk b => map (fun p => bt_hash (fst p)) (bk_txns b) = [0; 2] /\
               bg_verify bgc_state (bgc_apply false) (fun _ => 0) (fun _ => 0) c45_cfg [] b
               = VerOk (bk_root b) (map snd (bk_txns b)) (bk_chg b)
  | _ => False
  end.
Proof. vm_compute. split; reflexivity. Qed.

(* the hypothesis bt_gcost = bt_cost is needed: three calls budgeted at 0 by the pool iteration but
   costing 40 each for the verifier are all packed under a limit of 100 and the block is rejected *)
Definition c45_pool_costsrc : list bg_txn :=
  map (fun t => {| bt_hash := bt_hash t; bt_client := bt_client t; bt_nonce := bt_nonce t; bt_fee := 0;
                   bt_cdate := bt_cdate t; bt_valbig := false; bt_cost := Some 40; bt_gcost := Some 0;
                   bt_gfee := 0; bt_exempt := true; bt_size := 10; bt_fname := 0; bt_valid := true;
                   bt_kind := 1; bt_value := 0; bt_to := 0 |})
      [c45_txn 0 1 1 40 0 1 0 0; c45_txn 1 1 2 40 0 1 0 0; c45_txn 2 1 3 40 0 1 0 0].

Example C45_cost_source_mismatch_rejected :
  match bg_generate bgc_state (bgc_apply false) bgc_snonce (fun _ => 0) (fun _ => 0) c45_cfg [] c45_pool_costsrc [] with
  | GenOk b => map (fun p => bt_hash (fst p)) (bk_txns b) = [0; 1; 2] /\
               bg_verify bgc_state (bgc_apply false) (fun _ => 0) (fun _ => 0) c45_cfg [] b = VerFail 3
  | _ => False
  end.
Proof. vm_compute. split; reflexivity. Qed.

(* ---------- non-vacuity ---------- *)
(* accounts: client 1 (nonce 0, balance 100), client 2 (nonce 3, balance 5).  Pool (iteration
   order): a future transaction of 1, the current one of 1, a past one of 2, the current one of 2,
   a second transaction with the same nonce, a send over the balance, a call that would pass the
   cost limit.  One built-in template. *)
Definition c45_accts : bgc_state := [(1, (0, 100)); (2, (3, 5))].
Definition c45_pool : list bg_txn :=
  [c45_txn 0 1 2 10 0 1 0 0; c45_txn 1 1 1 10 0 0 40 2; c45_txn 2 2 3 10 0 1 0 0; c45_txn 3 2 4 10 0 2 0 0;
   c45_txn 4 2 4 10 0 1 0 0; c45_txn 5 2 5 10 0 0 500 1; c45_txn 6 1 3 70 0 1 0 0].
Definition c45_bis : list bg_txn := [c45_txn 1002 999 0 20 2 5 0 0].

Example C45_example_hypotheses : bg_pool_ok c45_pool /\ bg_bis_ok c45_cfg c45_pool c45_bis 20.
Proof.
  split.
  - constructor.
    + intros t Ht. repeat (destruct Ht as [<-|Ht]; [reflexivity|]). destruct Ht.
    + intros t Ht. repeat (destruct Ht as [<-|Ht]; [reflexivity|]). destruct Ht.
    + intros t c Ht Hc. repeat (destruct Ht as [<-|Ht]; [inversion Hc; lia|]). destruct Ht.
  - constructor; simpl; try lia; try reflexivity.
    + repeat constructor. exists 20. split; [reflexivity|lia].
    + repeat constructor.
    + repeat constructor.
    + repeat constructor. intros [].
    + intros t b Ht [<-|[]]. repeat (destruct Ht as [<-|Ht]; [simpl; lia|]). destruct Ht.
    + repeat constructor. intros [].
Qed.

Example C45_example_run :
  match bg_generate bgc_state (bgc_apply false) bgc_snonce (fun _ => 0) (fun _ => 0) c45_cfg c45_accts c45_pool c45_bis with
  | GenOk b => map (fun p => bt_hash (fst p)) (bk_txns b) = [1; 3; 0; 1002] /\
               bg_verify bgc_state (bgc_apply false) (fun _ => 0) (fun _ => 0) c45_cfg c45_accts b
               = VerOk (bk_root b) (map snd (bk_txns b)) (bk_chg b)
  | _ => False
  end.
Proof. vm_compute. split; reflexivity. Qed.
