// Package ct: helpers shared by the contract engines (faucet, zcn, vesting, multisig):
// transaction-scoped tries that are merged only when the contract call succeeded, as
// chain.updateState does (CreateTxnMPT / MergeMPTChanges), and client id helpers.
package ct

import (
	"fmt"

	"0chain.net/core/encryption"
	"github.com/0chain/common/core/statecache"
	"github.com/0chain/common/core/util"
)

// ID returns a valid client id (64 hex digits) for a label.
func ID(label string, i int) string { return encryption.Hash(fmt.Sprintf("verif %s %d", label, i)) }

// Begin opens a transaction-level trie over base (same construction as chain.CreateTxnMPT).
func Begin(base util.MerklePatriciaTrieI) util.MerklePatriciaTrieI {
	tdb := util.NewLevelNodeDB(util.NewMemoryNodeDB(), base.GetNodeDB(), false)
	return util.NewMerklePatriciaTrie(tdb, base.GetVersion(), base.GetRoot(), statecache.NewEmpty())
}

// Commit merges the changes of a transaction-level trie into base.
func Commit(base, txn util.MerklePatriciaTrieI) {
	if err := base.MergeMPTChanges(txn); err != nil {
		panic(err)
	}
}

// Root is the hex root of a trie.
func Root(m util.MerklePatriciaTrieI) string { return util.ToHex(m.GetRoot()) }
