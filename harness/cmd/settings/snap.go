package main

import (
	"encoding/json"
	"fmt"
	"math"
	"math/big"
	"os"
	"reflect"
	"sort"
	"strings"

	cstate "0chain.net/chaincore/chain/state"
	"0chain.net/core/config"
	"0chain.net/core/viper"
	"0chain.net/smartcontract/faucetsc"
	"0chain.net/smartcontract/minersc"
	"0chain.net/smartcontract/storagesc"
	"0chain.net/smartcontract/vestingsc"
	"0chain.net/smartcontract/zcnsc"
	"github.com/0chain/common/core/util"
	"verifharness/sc"
	"verifharness/vh"
)

// contracts (index = Coq st_contract constructor)
const (
	kGlobals = iota
	kMiner
	kStorage
	kFaucet
	kVesting
	kZcn
	nContracts
)

var kName = []string{"globals", "minersc", "storagesc", "faucetsc", "vestingsc", "zcnsc"}
var kCoq = []string{"KGlobals", "KMiner", "KStorage", "KFaucet", "KVesting", "KZcn"}
var kFunc = []string{"update_globals", "update_settings", "update_settings", "update-settings", "vestingsc-update-settings", "update-global-config"}
var kAddr = []string{minersc.ADDRESS, minersc.ADDRESS, storagesc.ADDRESS, faucetsc.ADDRESS, vestingsc.ADDRESS, zcnsc.ADDRESS}

func repoRoot() string {
	if r := os.Getenv("VERIF_REPO"); r != "" {
		return r
	}
	return "/repo"
}

func setupConfig() {
	sc.Init()
	if err := viper.ReadConfigFile(repoRoot() + "/docker.local/config/0chain.yaml"); err != nil {
		panic(err)
	}
	if err := config.SmartContractConfig.ReadConfigFile(repoRoot() + "/docker.local/config/sc.yaml"); err != nil {
		panic(err)
	}
}

// snapshot: setting name -> Coq st_val term ("SvZ 5", "SvF <bits>", "SvB true", "SvS "..."")
type snap map[string]string

func svZ(z *big.Int) string {
	if z.Sign() < 0 {
		return "SvZ (" + z.String() + ")"
	}
	return "SvZ " + z.String()
}
func svI(i int64) string   { return svZ(big.NewInt(i)) }
func svU(u uint64) string  { return svZ(new(big.Int).SetUint64(u)) }
func svF(f float64) string { return fmt.Sprintf("SvF %d", math.Float64bits(f)) }
func svB(b bool) string    { return "SvB " + vh.Bool(b) }
func svS(s string) string  { return "SvS " + vh.Str(s) }

func valOf(v reflect.Value) (string, bool) {
	switch v.Kind() {
	case reflect.Int, reflect.Int64, reflect.Int32:
		return svI(v.Int()), true
	case reflect.Uint64, reflect.Uint32, reflect.Uint:
		return svU(v.Uint()), true
	case reflect.Float64:
		return svF(v.Float()), true
	case reflect.Bool:
		return svB(v.Bool()), true
	case reflect.String:
		return svS(v.String()), true
	}
	return "", false
}

// snapStruct reads every scalar field by its json tag, and the cost map as "cost.<k>".
func snapStruct(x interface{}) snap {
	out := snap{}
	v := reflect.ValueOf(x)
	if v.Kind() == reflect.Ptr {
		v = v.Elem()
	}
	t := v.Type()
	for i := 0; i < t.NumField(); i++ {
		tag := strings.Split(t.Field(i).Tag.Get("json"), ",")[0]
		if tag == "" || tag == "-" {
			continue
		}
		f := v.Field(i)
		if f.Kind() == reflect.Map && tag == "cost" {
			for _, k := range f.MapKeys() {
				out["cost."+k.String()] = svI(f.MapIndex(k).Int())
			}
			continue
		}
		if s, ok := valOf(f); ok {
			out[tag] = s
		}
	}
	return out
}

func snapGlobals(ctx cstate.StateContextI) snap {
	gs := &minersc.GlobalSettings{Fields: map[string]string{}}
	if err := ctx.GetTrieNode(minersc.GLOBALS_KEY, gs); err != nil {
		panic(err)
	}
	out := snap{"#version": svI(gs.Version)}
	for k, v := range gs.Fields {
		out[k] = svS(v)
	}
	return out
}

func snapMiner(ctx cstate.StateContextI) snap {
	gn, err := minersc.GetGlobalNode(ctx)
	if err != nil {
		panic(err)
	}
	all := snapStruct(gn)
	out := snap{}
	for k, v := range all {
		if _, ok := minersc.Settings[k]; ok || strings.HasPrefix(k, "cost.") {
			out[k] = v
		}
	}
	return out
}

func snapStorage(ctx cstate.StateContextI) snap {
	conf, err := storagesc.VerifGovGetConfig(ctx)
	if err != nil {
		panic(err)
	}
	out := snap{}
	for _, name := range storagesc.SettingName {
		if strings.HasPrefix(name, "cost.") {
			continue
		}
		s, ok := valOf(reflect.ValueOf(storagesc.VerifGovGet(conf, name)))
		if !ok {
			panic("storagesc setting of unexpected kind: " + name)
		}
		out[name] = s
	}
	for k, v := range conf.Cost {
		out["cost."+k] = svI(int64(v))
	}
	return out
}

func snapFaucet(ctx cstate.StateContextI) snap {
	gn, err := faucetsc.VerifGovGlobalNode(ctx)
	if err != nil {
		panic(err)
	}
	return snapStruct(gn.FaucetConfig)
}

func snapZcn(ctx cstate.StateContextI) snap {
	gn, err := zcnsc.GetGlobalNode(ctx)
	if err != nil {
		panic(err)
	}
	return snapStruct(gn.ZCNSConfig)
}

func snapVesting(ctx cstate.StateContextI) snap {
	b, err := vestingsc.VerifGovConfigJSON(ctx)
	if err != nil {
		panic(err)
	}
	dec := json.NewDecoder(strings.NewReader(string(b)))
	dec.UseNumber()
	m := map[string]interface{}{}
	if err := dec.Decode(&m); err != nil {
		panic(err)
	}
	out := snap{}
	for k, v := range m {
		switch x := v.(type) {
		case json.Number:
			z, ok := new(big.Int).SetString(x.String(), 10)
			if !ok {
				panic("vesting config: non-integer number " + x.String())
			}
			out[k] = svZ(z)
		case string:
			out[k] = svS(x)
		case map[string]interface{}:
			for ck, cv := range x {
				z, _ := new(big.Int).SetString(cv.(json.Number).String(), 10)
				out["cost."+ck] = svZ(z)
			}
		case nil:
		default:
			panic(fmt.Sprintf("vesting config: unexpected field %s %T", k, v))
		}
	}
	return out
}

func snapOf(k int, ctx cstate.StateContextI) snap {
	switch k {
	case kGlobals:
		return snapGlobals(ctx)
	case kMiner:
		return snapMiner(ctx)
	case kStorage:
		return snapStorage(ctx)
	case kFaucet:
		return snapFaucet(ctx)
	case kVesting:
		return snapVesting(ctx)
	default:
		return snapZcn(ctx)
	}
}

func snapAll(ctx cstate.StateContextI) [nContracts]snap {
	var a [nContracts]snap
	for k := 0; k < nContracts; k++ {
		a[k] = snapOf(k, ctx)
	}
	return a
}

// pending changes node of storagesc (key -> raw value)
func pendingOf(ctx cstate.StateContextI) map[string]string {
	p, err := storagesc.VerifGovSettingChanges(ctx)
	if err != nil {
		panic(err)
	}
	out := map[string]string{}
	for k, v := range p.Fields {
		out[k] = v
	}
	return out
}

func snapEq(a, b snap) bool {
	if len(a) != len(b) {
		return false
	}
	for k, v := range a {
		if w, ok := b[k]; !ok || w != v {
			return false
		}
	}
	return true
}

// diff: settings whose value in b differs from a (or are new in b); deleted settings reported with value "<deleted>"
func snapDiff(a, b snap) snap {
	d := snap{}
	for k, v := range b {
		if w, ok := a[k]; !ok || w != v {
			d[k] = v
		}
	}
	for k := range a {
		if _, ok := b[k]; !ok {
			d[k] = "<deleted>"
		}
	}
	return d
}

func sortedKeys(m map[string]string) []string {
	ks := make([]string, 0, len(m))
	for k := range m {
		ks = append(ks, k)
	}
	sort.Strings(ks)
	return ks
}

func coqStore(s snap) string {
	xs := []string{}
	for _, k := range sortedKeys(s) {
		xs = append(xs, vh.Pair(vh.Str(k), s[k]))
	}
	return vh.List(xs)
}

// validateStored runs the contract's own validation predicate on the stored node.
func validateStored(k int, ctx cstate.StateContextI) error {
	switch k {
	case kMiner:
		gn, err := minersc.GetGlobalNode(ctx)
		if err != nil {
			return err
		}
		return minersc.VerifGovValidate(gn)
	case kStorage:
		conf, err := storagesc.VerifGovGetConfig(ctx)
		if err != nil {
			return err
		}
		return storagesc.VerifGovValidate(conf)
	case kFaucet:
		gn, err := faucetsc.VerifGovGlobalNode(ctx)
		if err != nil {
			return err
		}
		return faucetsc.VerifGovValidate(gn)
	case kVesting:
		return vestingsc.VerifGovValidateStored(ctx)
	case kZcn:
		gn, err := zcnsc.GetGlobalNode(ctx)
		if err != nil {
			return err
		}
		return gn.Validate()
	}
	return nil
}

// freshState builds a state with every contract's settings initialised from docker.local/config/sc.yaml.
func freshState(demeter, cached bool) (*cstate.StateContext, util.MerklePatriciaTrieI) {
	var mpt util.MerklePatriciaTrieI
	if cached {
		mpt, _, _ = sc.NewCachedMPT(newStateCache(), "", "b1")
	} else {
		mpt = sc.NewMPT()
	}
	ctx := sc.NewCtx(mpt, 10, nil)
	must(minersc.InitConfig(ctx))
	must(storagesc.InitConfig(ctx))
	must(faucetsc.InitConfig(ctx))
	must(vestingsc.InitConfig(ctx))
	must(zcnsc.InitConfig(ctx))
	// docker.local/config/sc.yaml has zcnsc min_stake: 0, which zcnsc's own Validate rejects; the
	// owner repairs it first (through the real update function) so that histories start from a valid node
	gn, err := zcnsc.GetGlobalNode(ctx)
	must(err)
	_, err = contracts[kZcn].Execute(sc.Txn("setup", gn.OwnerId, zcnsc.ADDRESS, 0, 1700000000), "update-global-config", []byte(`{"fields":{"min_stake":"1"}}`), ctx)
	must(err)
	if demeter {
		hf := cstate.NewHardFork("demeter", 0)
		_, err := ctx.InsertTrieNode(hf.GetKey(), hf)
		must(err)
	}
	return ctx, mpt
}

func must(err error) {
	if err != nil {
		panic(err)
	}
}
