(* Correspondence for C06. The engine (harness/cmd/determinism) executes each scenario several times in fresh
   processes and hands over what it saw:
     DcRuns      the digests of the executions of a scenario in which no listed finding is triggered
                 (the model, C06_exec_oracle_independent, says: all equal);
     DcFirstErr  a governance request given as the error code of each entry (None = acceptable) and the
                 error code observed in each execution (the model, nd_first_error over some iteration order,
                 says: no error iff no entry has one; otherwise the error of one of the failing entries). *)
From ZC Require Import Base.Corr Model.Determinism.
Open Scope Z_scope.

Inductive det_case :=
  | DcRuns (digests : list Z)
  | DcFirstErr (errs : list (option Z)) (observed : list (option Z)).

Definition opt_z_eqb (a b : option Z) : bool :=
  match a, b with Some x, Some y => Z.eqb x y | None, None => true | _, _ => false end.

Definition det_check (c : det_case) : bool :=
  match c with
  | DcRuns [] => true
  | DcRuns (d :: tl) => forallb (Z.eqb d) tl
  | DcFirstErr errs obs =>
      (* the outcomes of nd_first_error over the permutations of errs *)
      let expected_none := opt_z_eqb (nd_first_error (option Z) (fun e => e) errs) None in
      forallb (fun o => match o with
                        | None => expected_none
                        | Some _ => (negb expected_none && existsb (opt_z_eqb o) errs)%bool
                        end) obs
  end.
