(* C25: how each elementary change of the structure acts on the invariant, stated purely over
   the observations (no concrete state). *)
From ZC Require Import Model.Partitions Model.PartitionsSpec Proof.PartitionsUtil Proof.PartitionsInv.
From Coq Require Import Sorting.Permutation.
Open Scope Z_scope.

Lemma nodup_snoc {A} (l : list A) x : NoDup l -> ~ In x l -> NoDup (l ++ [x]).
Proof.
  intros Hnd Hni. apply Permutation_NoDup with (l := x :: l).
  - apply Permutation_cons_append.
  - constructor; assumption.
Qed.

Lemma pt_ids_flat_map E n :
  pt_ids (flat_map E (seq 0 n)) = flat_map (fun i => pt_ids (E i)) (seq 0 n).
Proof.
  unfold pt_ids. generalize (seq 0 n). induction l as [|a l IH]; cbn; [reflexivity|].
  rewrite map_app. f_equal. exact IH.
Qed.

Lemma flat_ids_ext E E' n L L' :
  (forall i, (i < n)%nat -> pt_ids (E' i) = pt_ids (E i)) -> pt_ids L' = pt_ids L ->
  pt_ids (pt_flat E' n L') = pt_ids (pt_flat E n L).
Proof.
  intros HE HL. unfold pt_flat. rewrite !pt_ids_app, HL. f_equal.
  rewrite !pt_ids_flat_map. apply flat_map_seq_ext. intros i Hi. apply HE. lia.
Qed.

Lemma pt_ids_length l : length (pt_ids l) = length l.
Proof. apply map_length. Qed.

Lemma in_ids_perm l l' id : Permutation l l' -> In id (pt_ids l) -> In id (pt_ids l').
Proof. intros H. apply Permutation_in. apply Permutation_map. exact H. Qed.

(* replacing the content of partition l and of Last *)
Lemma flat_replace E E' n L L' l :
  (l < n)%nat -> (forall j, j <> l -> E' j = E j) ->
  pt_flat E n L = flat_map E (seq 0 l) ++ E l ++ flat_map E (seq (S l) (n - S l)) ++ L /\
  pt_flat E' n L' = flat_map E (seq 0 l) ++ E' l ++ flat_map E (seq (S l) (n - S l)) ++ L'.
Proof.
  intros Hl HE. split; [apply flat_split; exact Hl|].
  rewrite (flat_split E' n L' l Hl). f_equal; [|f_equal; f_equal].
  - apply flat_map_seq_ext. intros i Hi. apply HE. lia.
  - apply flat_map_seq_ext. intros i Hi. apply HE. lia.
Qed.

Section Sem.
  Context (size n : nat) (L : list pt_item) (E : nat -> list pt_item) (T C : Z -> option nat)
          (Pt : nat -> option (list pt_item)) (Ch : nat -> option pt_part).

  (* S1: append to Last *)
  Lemma core_add_last id d :
    pt_core None size n L E T C Pt Ch -> T id = None -> ~ In id (pt_ids L) -> (length L < size)%nat ->
    pt_core None size n (L ++ [(id, d)]) E T C Pt Ch /\
    pt_flat E n (L ++ [(id, d)]) = pt_flat E n L ++ [(id, d)].
  Proof.
    intros Hc HT Hni Hlen.
    assert (Hflat : pt_flat E n (L ++ [(id, d)]) = pt_flat E n L ++ [(id, d)])
      by (unfold pt_flat; rewrite app_assoc; reflexivity).
    split; [|exact Hflat]. destruct Hc as [H1 H2 H4 H5 H6 Hs H7 H8 H9].
    constructor; auto.
    - rewrite app_length. cbn. lia.
    - rewrite Hflat, pt_ids_app. cbn. apply nodup_snoc; [exact H5|].
      intros Hin. apply in_flat_ids in Hin. destruct Hin as [(i & Hi & Hin)|Hin]; [|contradiction].
      assert (Hx : T id = Some i) by (apply H6; auto). congruence.
    - intros id0 l0 Hst. discriminate.
  Qed.

  (* S2: pack *)
  Lemma core_pack E' T' C' Pt' Ch' lastp :
    pt_core None size n L E T C Pt Ch -> length L = size -> pp_items lastp = L ->
    (forall j, (j < n)%nat -> E' j = E j) -> E' n = L ->
    (forall k, T' k = if pt_has k L then Some n else T k) ->
    (forall k, C' k = if pt_has k L then Some n else C k) ->
    (forall j, j <> n -> Pt' j = Pt j) -> Pt' n = Some L ->
    (forall j, j <> n -> Ch' j = Ch j) -> Ch' n = Some lastp ->
    pt_core None size (S n) [] E' T' C' Pt' Ch' /\ pt_flat E' (S n) [] = pt_flat E n L.
  Proof.
    intros Hc Hlen Hlp HE HEn HT HC HPt HPtn HCh HChn.
    assert (Hflat : pt_flat E' (S n) [] = pt_flat E n L).
    { unfold pt_flat. rewrite flat_map_seq_S, app_nil_r, HEn. f_equal.
      apply flat_map_seq_ext. intros i Hi. apply HE. lia. }
    split; [|exact Hflat]. pose proof Hc as [H1 H2 H4 H5 H6 Hs H7 H8 H9].
    constructor; auto.
    - cbn. lia.
    - intros i Hi. destruct (Nat.eq_dec i n) as [->|Hne]; [rewrite HEn; exact Hlen|].
      rewrite HE by lia. apply H4. lia.
    - rewrite Hflat. exact H5.
    - intros id l. rewrite HT. destruct (pt_has id L) eqn:Hh.
      + apply pt_has_true in Hh. split.
        * intros Heq. inversion Heq; subst. left. split; [lia|]. rewrite HEn. exact Hh.
        * intros [[Hl Hin]|Hst]; [|discriminate]. destruct (Nat.eq_dec l n) as [->|Hne]; [reflexivity|].
          exfalso. rewrite HE in Hin by lia.
          eapply flat_part_last_disjoint with (i := l); [exact H5| | |]; [lia|exact Hin|exact Hh].
      + apply pt_has_false in Hh. rewrite H6. split.
        * intros [[Hl Hin]|Hst]; [|discriminate]. left. split; [lia|]. rewrite HE by exact Hl. exact Hin.
        * intros [[Hl Hin]|Hst]; [|discriminate]. left.
          destruct (Nat.eq_dec l n) as [->|Hne]; [rewrite HEn in Hin; contradiction|].
          split; [lia|]. rewrite HE in Hin by lia. exact Hin.
    - intros id l Hst. discriminate.
    - intros id l. rewrite HC, HT. destruct (pt_has id L); [auto|apply H7].
    - intros i p Hp. destruct (Nat.eq_dec i n) as [->|Hne].
      + rewrite HChn in Hp. injection Hp as <-. split; [lia|]. intros _. rewrite HPtn, Hlp. reflexivity.
      + rewrite HCh in Hp by exact Hne. destruct (H8 i p Hp) as [Hi Hx]. split; [lia|].
        rewrite HPt by exact Hne. exact Hx.
    - intros i Hi. destruct (Nat.eq_dec i n) as [->|Hne]; [rewrite HPtn; discriminate|].
      rewrite HPt by exact Hne. apply H9. lia.
  Qed.

  (* S3/S4: payload changes keep every id where it is *)
  Lemma core_same_ids stale E' L' Ch' :
    pt_core stale size n L E T C Pt Ch ->
    (forall i, (i < n)%nat -> pt_ids (E' i) = pt_ids (E i)) -> pt_ids L' = pt_ids L ->
    (forall i p, Ch' i = Some p -> (i < n)%nat /\ (pp_changed p = false -> Pt i = Some (pp_items p))) ->
    pt_core stale size n L' E' T C Pt Ch'.
  Proof.
    intros [H1 H2 H4 H5 H6 Hs H7 H8 H9] HE HL HCh.
    assert (Hflat : pt_ids (pt_flat E' n L') = pt_ids (pt_flat E n L)) by (apply flat_ids_ext; assumption).
    constructor; auto.
    - rewrite <- pt_ids_length, HL, pt_ids_length. exact H2.
    - intros i Hi. rewrite <- pt_ids_length, HE, pt_ids_length by exact Hi. auto.
    - rewrite Hflat. exact H5.
    - intros id l. rewrite H6. split; (intros [[Hl Hin]|Hst]; [left; split; [exact Hl|]|right; exact Hst]).
      + rewrite HE by exact Hl. exact Hin.
      + rewrite <- HE by exact Hl. exact Hin.
    - intros id l Hst. rewrite Hflat. eauto.
  Qed.

  (* S5: an item leaves Last *)
  Lemma core_remove_last (X1 X2 : list pt_item) id d (L' : list pt_item) :
    pt_core None size n L E T C Pt Ch -> L = X1 ++ (id, d) :: X2 -> Permutation L' (X1 ++ X2) ->
    pt_core None size n L' E T C Pt Ch /\ Permutation (pt_flat E n L) ((id, d) :: pt_flat E n L').
  Proof.
    intros [H1 H2 H4 H5 H6 Hs H7 H8 H9] HL Hp.
    assert (Hperm : Permutation (pt_flat E n L) ((id, d) :: pt_flat E n L')).
    { unfold pt_flat. rewrite HL, Hp. rewrite app_assoc. rewrite <- Permutation_middle.
      rewrite <- app_assoc. reflexivity. }
    split; [|exact Hperm]. constructor; auto.
    - pose proof (Permutation_length Hp) as Hlen. subst L. rewrite app_length in *. cbn [length] in *. lia.
    - apply (nodup_ids_perm _ _ Hperm) in H5. cbn in H5. inversion H5; assumption.
    - intros id0 l0 Hst. discriminate.
  Qed.

  (* S6: an item leaves partition l; the tail of Last takes its place *)
  Lemma core_move l (X1 X2 : list pt_item) id d (rest : list pt_item) (rep : pt_item) (Xr : list pt_item) E' T' C' Ch' :
    pt_core None size n L E T C Pt Ch ->
    (l < n)%nat -> E l = X1 ++ (id, d) :: X2 -> L = rest ++ [rep] -> Permutation Xr (X1 ++ X2) ->
    E' l = Xr ++ [rep] -> (forall j, j <> l -> E' j = E j) ->
    (forall k, T' k = if Z.eqb k (fst rep) then Some l else T k) ->
    (forall k, C' k = if Z.eqb k (fst rep) then Some l else C k) ->
    (forall j, j <> l -> Ch' j = Ch j) ->
    (forall p, Ch' l = Some p -> pp_changed p = true) ->
    pt_core (Some (id, l)) size n rest E' T' C' Pt Ch' /\
    Permutation (pt_flat E n L) ((id, d) :: pt_flat E' n rest).
  Proof.
    intros Hc Hl HEl HL HXr HEl' HE' HT' HC' HCh' HChl.
    pose proof Hc as [H1 H2 H4 H5 H6 Hs H7 H8 H9].
    destruct (flat_replace E E' n L rest l Hl HE') as [HF HF'].
    set (A := flat_map E (seq 0 l)) in *. set (B := flat_map E (seq (S l) (n - S l))) in *.
    assert (Hperm : Permutation (pt_flat E n L) ((id, d) :: pt_flat E' n rest)).
    { rewrite HF, HF'. apply (perm_frame [(id, d)]). rewrite HEl, HEl', HL, HXr.
      change ([(id, d)] ++ ((X1 ++ X2) ++ [rep]) ++ rest) with ((id, d) :: ((X1 ++ X2) ++ [rep]) ++ rest).
      rewrite <- (app_assoc X1 ((id, d) :: X2)). change (((id, d) :: X2) ++ rest ++ [rep]) with ((id, d) :: X2 ++ rest ++ [rep]).
      rewrite <- (Permutation_middle X1 (X2 ++ rest ++ [rep]) (id, d)). apply perm_skip.
      rewrite <- (app_assoc (X1 ++ X2)), <- !(app_assoc X1 X2).
      apply Permutation_app_head. apply Permutation_app_head. apply Permutation_app_comm. }
    assert (Hnd' : NoDup (pt_ids ((id, d) :: pt_flat E' n rest))) by (eapply nodup_ids_perm; eassumption).
    cbn [pt_ids map fst] in Hnd'. apply NoDup_cons_iff in Hnd'. destruct Hnd' as [Hid_fresh Hnd''].
    fold (pt_ids (pt_flat E' n rest)) in Hid_fresh, Hnd''.
    assert (Hrep_L : In (fst rep) (pt_ids L)).
    { rewrite HL, pt_ids_app. apply in_or_app. right. left. reflexivity. }
    assert (Hid_l : In id (pt_ids (E l))).
    { rewrite HEl, pt_ids_app. apply in_or_app. right. left. reflexivity. }
    assert (Hne : id <> fst rep).
    { intros ->. eapply flat_part_last_disjoint with (i := l); [exact H5|exact Hl|exact Hid_l|exact Hrep_L]. }
    assert (Hin_l' : forall k, In k (pt_ids (E' l)) <-> (k = fst rep \/ (In k (pt_ids (E l)) /\ k <> id))).
    { intros k. rewrite HEl', HEl, !pt_ids_app. cbn. rewrite !in_app_iff. cbn.
      assert (Hx : In k (pt_ids Xr) <-> In k (pt_ids (X1 ++ X2))).
      { split; apply in_ids_perm; [exact HXr|symmetry; exact HXr]. }
      rewrite Hx, pt_ids_app, in_app_iff.
      assert (Hndl : NoDup (pt_ids (E l))) by (eapply flat_part_nodup; eassumption).
      rewrite HEl, pt_ids_app in Hndl. cbn in Hndl. apply NoDup_remove_2 in Hndl.
      rewrite in_app_iff in Hndl. split.
      - intros [[Hk|Hk]|[Hk|[]]]; [right|right|left; congruence]; (split; [tauto|intros ->; tauto]).
      - intros [->|[[Hk|[Hk|Hk]] Hnk]]; [right; left; reflexivity|tauto|congruence|tauto]. }
    split; [|exact Hperm]. constructor; auto.
    - subst L. rewrite app_length in H2. cbn in H2. lia.
    - intros i Hi. destruct (Nat.eq_dec i l) as [->|Hil].
      + rewrite HEl', app_length. apply Permutation_length in HXr. rewrite HXr.
        pose proof (H4 l Hl) as Hx. rewrite HEl in Hx. rewrite app_length in *. cbn in *. lia.
      + rewrite HE' by exact Hil. auto.
    - intros k l0. rewrite HT'. destruct (Z.eqb_spec k (fst rep)) as [->|Hk].
      + split.
        * intros Heq; inversion Heq; subst. left. split; [exact Hl|]. apply Hin_l'. left. reflexivity.
        * intros [[Hl0 Hin]|Hst]; [|inversion Hst; congruence].
          destruct (Nat.eq_dec l0 l) as [->|Hne0]; [reflexivity|]. exfalso.
          rewrite HE' in Hin by exact Hne0.
          eapply flat_part_last_disjoint with (i := l0); [exact H5|exact Hl0|exact Hin|exact Hrep_L].
      + rewrite H6. split.
        * intros [[Hl0 Hin]|Hst]; [|discriminate].
          destruct (Z.eq_dec k id) as [->|Hkid].
          { right. f_equal. f_equal. destruct (Nat.eq_dec l0 l) as [->|Hne0]; [reflexivity|]. exfalso.
            eapply flat_parts_disjoint with (i := l0) (j := l); [exact H5| | | | |]; eauto. }
          left. split; [exact Hl0|]. destruct (Nat.eq_dec l0 l) as [->|Hne0].
          { apply Hin_l'. right. auto. }
          rewrite HE' by exact Hne0. exact Hin.
        * intros [[Hl0 Hin]|Hst].
          { left. split; [exact Hl0|]. destruct (Nat.eq_dec l0 l) as [->|Hne0].
            - apply Hin_l' in Hin. destruct Hin as [->|[Hin _]]; [contradiction|exact Hin].
            - rewrite HE' in Hin by exact Hne0. exact Hin. }
          inversion Hst; subst. left. split; [exact Hl|exact Hid_l].
    - intros id0 l0 Hst. inversion Hst; subst. exact Hid_fresh.
    - intros k l0. rewrite HC', HT'. destruct (Z.eqb k (fst rep)); [auto|apply H7].
    - intros i p Hp. destruct (Nat.eq_dec i l) as [->|Hil].
      + split; [exact Hl|]. intros Hf. rewrite (HChl p Hp) in Hf. discriminate.
      + rewrite HCh' in Hp by exact Hil. auto.
  Qed.

  (* S8: the stale location entry is dropped *)
  Lemma core_drop_stale id l T' C' :
    pt_core (Some (id, l)) size n L E T C Pt Ch ->
    (forall k, T' k = if Z.eqb k id then None else T k) ->
    (forall k, C' k = if Z.eqb k id then None else C k) ->
    pt_core None size n L E T' C' Pt Ch.
  Proof.
    intros [H1 H2 H4 H5 H6 Hs H7 H8 H9] HT' HC'. constructor; auto.
    - intros k l0. rewrite HT'. destruct (Z.eqb_spec k id) as [->|Hk].
      + split; [discriminate|]. intros [[Hl0 Hin]|Hst]; [|discriminate]. exfalso.
        apply (Hs id l eq_refl). apply in_flat_ids. left. eauto.
      + rewrite H6. split; (intros [Hx|Hst]; [left; exact Hx|]); [inversion Hst; congruence|discriminate].
    - intros id0 l0 Hst. discriminate.
    - intros k l0. rewrite HC', HT'. destruct (Z.eqb k id); [discriminate|apply H7].
  Qed.

  (* S9: loadLocations *)
  Lemma core_lcache_fill stale i C' :
    pt_core stale size n L E T C Pt Ch -> (i < n)%nat ->
    (forall k, C' k = if pt_has k (E i) then Some i else C k) ->
    pt_core stale size n L E T C' Pt Ch.
  Proof.
    intros [H1 H2 H4 H5 H6 Hs H7 H8 H9] Hi HC'. constructor; auto.
    intros k l0. rewrite HC'. destruct (pt_has k (E i)) eqn:Hh; [|apply H7].
    intros Heq; inversion Heq; subst. apply pt_has_true in Hh. apply H6. left. auto.
  Qed.

  (* S10 / S11: the cache and the persisted partition nodes change, the contents do not *)
  Lemma core_cache_trie stale Pt' Ch' :
    pt_core stale size n L E T C Pt Ch ->
    (forall i p, Ch' i = Some p -> (i < n)%nat /\ (pp_changed p = false -> Pt' i = Some (pp_items p))) ->
    (forall i, (i < n)%nat -> Pt' i <> None) ->
    pt_core stale size n L E T C Pt' Ch'.
  Proof. intros [H1 H2 H4 H5 H6 Hs H7 H8 H9] HCh HPt. constructor; auto. Qed.
End Sem.

(* S7: Last is empty, the previous partition becomes Last *)
Lemma core_load_prev stale size pl E T C Pt Ch T' C' Pt' Ch' :
  pt_core stale size (S pl) [] E T C Pt Ch ->
  (forall k, T' k = if pt_has k (E pl) then None else T k) ->
  (forall k, C' k = if pt_has k (E pl) then None else C k) ->
  (forall j, j <> pl -> Pt' j = Pt j) ->
  (forall j, j <> pl -> Ch' j = Ch j) -> Ch' pl = None ->
  pt_core stale size pl (E pl) E T' C' Pt' Ch' /\ pt_flat E pl (E pl) = pt_flat E (S pl) [] /\ E pl <> [].
Proof.
  intros [H1 H2 H4 H5 H6 Hs H7 H8 H9] HT' HC' HPt' HCh' HChpl.
  assert (Hflat : pt_flat E pl (E pl) = pt_flat E (S pl) []).
  { unfold pt_flat. rewrite flat_map_seq_S, app_nil_r. reflexivity. }
  assert (Hlen : length (E pl) = size) by (apply H4; lia).
  split; [|split; [exact Hflat|]].
  2:{ intros Hnil. rewrite Hnil in Hlen. cbn in Hlen. lia. }
  constructor; try solve [auto | intros i Hi; apply H4; lia].
  - lia.
  - rewrite Hflat. exact H5.
  - intros k l0. rewrite HT'. destruct (pt_has k (E pl)) eqn:Hh.
    + apply pt_has_true in Hh. split; [discriminate|]. intros [[Hl0 Hin]|Hst]; exfalso.
      * eapply flat_parts_disjoint with (i := l0) (j := pl); [exact H5| | | | |]; eauto; lia.
      * apply (Hs k l0 Hst). apply in_flat_ids. left. exists pl. split; [lia|exact Hh].
    + apply pt_has_false in Hh. rewrite H6. split.
      * intros [[Hl0 Hin]|Hst]; [|right; exact Hst]. left. split; [|exact Hin].
        destruct (Nat.eq_dec l0 pl) as [->|Hne]; [contradiction|lia].
      * intros [[Hl0 Hin]|Hst]; [left; split; [lia|exact Hin]|right; exact Hst].
  - intros id l Hst. rewrite Hflat. eauto.
  - intros k l0. rewrite HC', HT'. destruct (pt_has k (E pl)); [discriminate|apply H7].
  - intros i p Hp. destruct (Nat.eq_dec i pl) as [->|Hne]; [congruence|].
    rewrite HCh' in Hp by exact Hne. destruct (H8 i p Hp) as [Hi Hx]. split; [lia|].
    rewrite HPt' by exact Hne. exact Hx.
  - intros i Hi. rewrite HPt' by lia. apply H9. lia.
Qed.
