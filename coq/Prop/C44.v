(* C44: Shared protocol structures are free of data races.
   Only statements; each is closed by [exact] of a lemma in Proof/Lockset.v / Proof/LockTableCheck.v.

   [lt_table] (coq/Gen/LockTable.v) is regenerated from the Go sources on every run: every field
   access of every method of round.Round, block.Block (and their embedded structs) and every shared
   local of the goroutines started in miner/protocol_block.go, with the mutexes held.  [lt_excl]
   is the exclusion list checks/C44_allow.json (benign entries with a justification, and confirmed
   races kept as findings). *)
From ZC Require Import Model.Lockset Proof.Lockset Gen.LockTable Proof.LockTableCheck.
Open Scope string_scope.

(* Generic: if every pair of conflicting non-atomic accesses that meet in a trace holds a common
   mutex (one side exclusively), no execution that respects mutex exclusion has a data race. *)
Theorem C44_lockset_discipline_race_free :
  forall tr : ls_trace, ls_wf_mutex tr -> ls_respects tr ->
  (forall i j t1 t2 o a b, nth_error tr i = Some (EAcc t1 o a) -> nth_error tr j = Some (EAcc t2 o b) ->
     t1 <> t2 -> ls_conflict a b ->
     exists m ea eb, In (m, ea) (la_locks a) /\ In (m, eb) (la_locks b) /\ (ea = true \/ eb = true)) ->
  forall i j a b, ~ ls_race tr i j a b.
Proof. exact ls_lockset_discipline_race_free. Qed.
Print Assumptions C44_lockset_discipline_race_free.

(* The generated table passes the boolean check (forallb over all pairs of rows). *)
Theorem C44_table_disciplined : lt_disciplined lt_excl lt_table = true.
Proof. exact lt_table_disciplined. Qed.
Print Assumptions C44_table_disciplined.

(* Hence: in every execution of the analysed methods (any number of goroutines and objects, any
   interleaving that respects the mutexes), a data race can only be between two accesses that the
   exclusion list names. *)
Theorem C44_no_race_for_table :
  forall tr, ls_wf_mutex tr -> ls_respects tr -> ls_from_table lt_table tr -> ls_threads_ok tr ->
  forall i j a b, ls_race tr i j a b -> lt_excluded lt_excl a b = true.
Proof. exact (ls_no_race_for_table lt_excl lt_table lt_table_disciplined). Qed.
Print Assumptions C44_no_race_for_table.

(* The check is exact for the model: whatever the tree, the table is race free modulo the benign
   entries iff the search for an offending pair finds none. *)
Theorem C44_verdict :
  match lt_first_offender (lt_benign lt_excl) lt_table with
  | Some _ => ~ ls_race_free_modulo (lt_benign lt_excl) lt_table
  | None => ls_race_free_modulo (lt_benign lt_excl) lt_table
  end.
Proof. exact (ls_verdict (lt_benign lt_excl) lt_table). Qed.
Print Assumptions C44_verdict.

(* Full statement: no data race at all outside the benign entries.  It is false of the current
   tree: an offending pair exists and has a legal racy execution (Proof/Lockset.v: ls_witness). *)
Definition C44_full_statement : Prop := ls_race_free_modulo (lt_benign lt_excl) lt_table.

Theorem C44_full_statement_refuted : ~ C44_full_statement.
Proof.
  unfold C44_full_statement. pose proof C44_verdict as H.
  destruct (lt_first_offender (lt_benign lt_excl) lt_table) eqn:E; [exact H|].
  exfalso. exact (lt_table_has_offender E).
Qed.
Print Assumptions C44_full_statement_refuted.

(* Every entry kept as a defect still names an undisciplined pair (the list is not stale). *)
Theorem C44_listed_defects_offend :
  forallb (fun e => existsb (fun p => lt_excl_matches e (fst p) (snd p)) lt_offending_pairs) (lt_defects lt_excl) = true.
Proof. exact lt_listed_defects_offend. Qed.
Print Assumptions C44_listed_defects_offend.

(* Non-vacuity: a two-goroutine execution over rows of the table that satisfies all hypotheses and
   in which two accesses to Round.notarizedBlocks by AddNotarizedBlock (under Lock) and
   GetHeaviestNotarizedBlock (under RLock) are ordered by the mutex. *)
Definition c44_w : lt_access := mk_access "Round" "notarizedBlocks" "AddNotarizedBlock" true false [("Round.mutex", true)] true "example".
Definition c44_r : lt_access := mk_access "Round" "notarizedBlocks" "GetHeaviestNotarizedBlock" false false [("Round.mutex", false)] true "example".
Definition c44_trace : ls_trace :=
  [EAcq 1 0 "Round.mutex" true; EAcc 1 0 c44_w; ERel 1 0 "Round.mutex" true;
   EAcq 2 0 "Round.mutex" false; EAcc 2 0 c44_r; ERel 2 0 "Round.mutex" false].

Example C44_example_conflict_protected : lt_conflict c44_w c44_r = true /\ lt_common c44_w c44_r = true.
Proof. vm_compute. split; reflexivity. Qed.

Example C44_example_ordered : ls_hb c44_trace 1 4.
Proof.
  apply hb_trans with (j := 2).
  - eapply hb_po; [lia|reflexivity|reflexivity|reflexivity].
  - apply hb_trans with (j := 3).
    + eapply hb_sw; [lia|reflexivity|reflexivity|left; reflexivity].
    + eapply hb_po; [lia|reflexivity|reflexivity|reflexivity].
Qed.
