(* Model of the round state machine (property C37): chaincore/round/entity.go
     phase:       SetPhase/setPhase (forward only), ResetPhase, GetPhase, Restart
     VRF shares:  AddVRFShare, GetVRFShares
     timeouts:    SetTimeoutCount, IncrementTimeoutCount (+ checkCap), AddTimeoutVote, GetTimeoutCount
     finalizing:  SetFinalizing, SetFinalized, Finalize, ResetFinalizingStateIfNotFinalized,
                  ResetFinalizingState, IsFinalized, IsFinalizing
     AddNotarizedBlock (only its effect on the phase)
   The round mutex is explicit: [sm_held = true] means r.mutex was left locked by an operation
   that returned; every later operation that takes it never returns ([Blocked]).
   Second part: setPhase as two atomic steps (load, then store) run by several threads.
   Definitions only; proofs are in Proof/RoundSM.v. *)
From Coq Require Export List ZArith Bool Arith Lia.
Export ListNotations.
Open Scope Z_scope.

(* Phase: ShareVRF 0, Verify 1, Notarize 2, Share 3, Complete 4 (int32; any value can be passed).
   FinalizingState: NotFinalized 0, RoundStateFinalizing 1, RoundStateFinalized 2. *)
Definition sm_Share : Z := 3.

Record sm_state := {
  sm_number : Z;                 (* round number *)
  sm_phase : Z;
  sm_fin : Z;
  sm_shares : list Z;            (* parties whose VRF share is stored (map keys) *)
  sm_tcount : Z;                 (* timeoutCounter.count (Go int, 64 bit) *)
  sm_votes : list (Z * Z);       (* timeoutCounter.votes: miner id -> voted count, newest first *)
  sm_tperm : list Z;             (* timeoutCounter.perm; [] = not computed yet *)
  sm_held : bool                 (* r.mutex left locked *)
}.

Definition sm_init (number : Z) : sm_state :=
  {| sm_number := number; sm_phase := 0; sm_fin := 0; sm_shares := []; sm_tcount := 0;
     sm_votes := []; sm_tperm := []; sm_held := false |}.

Inductive sm_op :=
| SmSetPhase (p : Z) | SmResetPhase (p : Z) | SmGetPhase
| SmRestart
| SmAddShare (party threshold : Z) | SmGetShares
| SmAddNotarized
| SmSetTimeout (c : Z) (cap : Z)   (* cap: the configured timeout cap (read only by the repaired variant) *)
| SmIncTimeout (prrs : Z) (perm : list Z) (self : Z) (cap : Z)
    (* perm: the miner order rankTimeoutCounters computes from prrs (recorded from the real run,
       used only when no order is stored yet); self: this node's id; cap: the configured
       server_chain.round_timeouts.timeout_cap read by checkCap *)
| SmVote (num id : Z) | SmGetTimeout
| SmSetFinalizing | SmSetFinalized | SmFinalize | SmResetFinIfNot | SmResetFin
| SmIsFinalized | SmIsFinalizing.

Inductive sm_val := VUnit | VBool (b : bool) | VInt (z : Z) | VSet (l : list Z) | VRestartRejected.
Inductive sm_res := Ret (v : sm_val) | Blocked.

(* Go int arithmetic wraps *)
Definition sm_wrap64 (z : Z) : Z := (z + 2^63) mod 2^64 - 2^63.

Definition sm_with_phase (s : sm_state) (p : Z) : sm_state :=
  {| sm_number := sm_number s; sm_phase := p; sm_fin := sm_fin s; sm_shares := sm_shares s;
     sm_tcount := sm_tcount s; sm_votes := sm_votes s; sm_tperm := sm_tperm s; sm_held := sm_held s |}.
Definition sm_with_fin (s : sm_state) (f : Z) : sm_state :=
  {| sm_number := sm_number s; sm_phase := sm_phase s; sm_fin := f; sm_shares := sm_shares s;
     sm_tcount := sm_tcount s; sm_votes := sm_votes s; sm_tperm := sm_tperm s; sm_held := sm_held s |}.
Definition sm_with_shares (s : sm_state) (l : list Z) : sm_state :=
  {| sm_number := sm_number s; sm_phase := sm_phase s; sm_fin := sm_fin s; sm_shares := l;
     sm_tcount := sm_tcount s; sm_votes := sm_votes s; sm_tperm := sm_tperm s; sm_held := sm_held s |}.
Definition sm_with_timeout (s : sm_state) (c : Z) (v : list (Z * Z)) (p : list Z) : sm_state :=
  {| sm_number := sm_number s; sm_phase := sm_phase s; sm_fin := sm_fin s; sm_shares := sm_shares s;
     sm_tcount := c; sm_votes := v; sm_tperm := p; sm_held := sm_held s |}.
Definition sm_with_held (s : sm_state) (h : bool) : sm_state :=
  {| sm_number := sm_number s; sm_phase := sm_phase s; sm_fin := sm_fin s; sm_shares := sm_shares s;
     sm_tcount := sm_tcount s; sm_votes := sm_votes s; sm_tperm := sm_tperm s; sm_held := h |}.

(* setPhase: if state > r.getState() { store } *)
Definition sm_set_phase (s : sm_state) (p : Z) : sm_state :=
  if Z.ltb (sm_phase s) p then sm_with_phase s p else s.

(* isFinalized: finalizingState == RoundStateFinalized || number == 0 *)
Definition sm_finalized (s : sm_state) : bool := Z.eqb (sm_fin s) 2 || Z.eqb (sm_number s) 0.

Fixpoint sm_vote_lookup (id : Z) (votes : list (Z * Z)) : option Z :=
  match votes with
  | [] => None
  | (k, v) :: t => if Z.eqb k id then Some v else sm_vote_lookup id t
  end.

(* for _, minerID := range tc.perm { if self: continue; if vote, ok := votes[id]; ok { if count < vote { count = vote; break } } } *)
Fixpoint sm_scan_votes (perm : list Z) (self : Z) (votes : list (Z * Z)) (count : Z) : Z :=
  match perm with
  | [] => count
  | id :: t =>
      if Z.eqb id self then sm_scan_votes t self votes count
      else match sm_vote_lookup id votes with
           | Some v => if Z.ltb count v then v else sm_scan_votes t self votes count
           | None => sm_scan_votes t self votes count
           end
  end.

(* checkCap: if timeoutCap > 0 && tc.count > timeoutCap { tc.count = timeoutCap } *)
Definition sm_check_cap (cap c : Z) : Z := if Z.ltb 0 cap && Z.ltb cap c then cap else c.

(* Which repairs are applied.  All [false] = the code as written.
     fx_restart:  Restart unlocks the mutex on the rejected path;
     fx_clamp:    SetTimeoutCount clamps its argument to the configured cap (when positive);
     fx_saturate: IncrementTimeoutCount does not increment past MaxInt64. *)
Record sm_fix := { fx_restart : bool; fx_clamp : bool; fx_saturate : bool }.
Definition sm_as_written : sm_fix := {| fx_restart := false; fx_clamp := false; fx_saturate := false |}.
Definition sm_repaired : sm_fix := {| fx_restart := true; fx_clamp := true; fx_saturate := true |}.

(* IncrementTimeoutCount (votes map is never nil for rounds made by the Provider) *)
Definition sm_inc_timeout (fx : sm_fix) (s : sm_state) (prrs : Z) (perm : list Z) (self cap : Z) : sm_state :=
  if Z.eqb prrs 0 then s
  else
    let perm' := match sm_tperm s with [] => perm | p => p end in
    let from := sm_tcount s in
    let c1 := sm_scan_votes perm' self (sm_votes s) from in
    let c2 := if Z.eqb c1 from
              then (if fx_saturate fx && Z.eqb c1 (2^63 - 1) then c1 else sm_wrap64 (c1 + 1))
              else c1 in
    sm_with_timeout s (sm_check_cap cap c2) [] perm'.

(* operations that take r.mutex (Lock or RLock) *)
Definition sm_needs_lock (o : sm_op) : bool :=
  match o with
  | SmRestart | SmAddShare _ _ | SmGetShares | SmAddNotarized
  | SmSetFinalizing | SmSetFinalized | SmFinalize | SmResetFinIfNot | SmResetFin
  | SmIsFinalized | SmIsFinalizing => true
  | _ => false
  end.

Definition sm_step (fx : sm_fix) (s : sm_state) (o : sm_op) : sm_state * sm_res :=
  if sm_needs_lock o && sm_held s then (s, Blocked)
  else
  match o with
  | SmSetPhase p => (sm_set_phase s p, Ret VUnit)
  | SmResetPhase p => (sm_with_phase s p, Ret VUnit)
  | SmGetPhase => (s, Ret (VInt (sm_phase s)))
  | SmRestart =>
      if Z.leb sm_Share (sm_phase s)
      then (sm_with_held s (negb (fx_restart fx)), Ret VRestartRejected)
      else (sm_with_phase (sm_with_shares s []) 0, Ret VUnit)
  | SmAddShare party threshold =>
      if Z.leb threshold (Z.of_nat (length (sm_shares s))) then (s, Ret (VBool false))
      else if existsb (Z.eqb party) (sm_shares s) then (s, Ret (VBool false))
      else (sm_with_shares (sm_set_phase s 0) (sm_shares s ++ [party]), Ret (VBool true))
  | SmGetShares => (s, Ret (VSet (sm_shares s)))
  | SmAddNotarized => (sm_set_phase s sm_Share, Ret VUnit)
  | SmSetTimeout c cap =>
      let c' := if fx_clamp fx then sm_check_cap cap c else c in
      if Z.leb c' (sm_tcount s) then (s, Ret (VBool false))
      else (sm_with_timeout s c' (sm_votes s) (sm_tperm s), Ret (VBool true))
  | SmIncTimeout prrs perm self cap => (sm_inc_timeout fx s prrs perm self cap, Ret VUnit)
  | SmVote num id => (sm_with_timeout s (sm_tcount s) ((id, num) :: sm_votes s) (sm_tperm s), Ret VUnit)
  | SmGetTimeout => (s, Ret (VInt (sm_tcount s)))
  | SmSetFinalizing =>
      if sm_finalized s || Z.eqb (sm_fin s) 1 then (s, Ret (VBool false))
      else (sm_with_fin s 1, Ret (VBool true))
  | SmSetFinalized => (sm_with_fin s 2, Ret VUnit)
  | SmFinalize => (sm_with_fin s 2, Ret VUnit)
  | SmResetFinIfNot => if sm_finalized s then (s, Ret VUnit) else (sm_with_fin s 0, Ret VUnit)
  | SmResetFin => (sm_with_fin s 0, Ret VUnit)
  | SmIsFinalized => (s, Ret (VBool (sm_finalized s)))
  | SmIsFinalizing => (s, Ret (VBool (Z.eqb (sm_fin s) 1)))
  end.

(* run a history: list of states after each op, and the results *)
Fixpoint sm_run (fx : sm_fix) (s : sm_state) (ops : list sm_op) : list (sm_state * sm_res) :=
  match ops with
  | [] => []
  | o :: tl => let '(s1, r) := sm_step fx s o in (s1, r) :: sm_run fx s1 tl
  end.

(* ------------------------------------------------------------------------------------------ *)
(* setPhase under concurrency.  Memory = the phase word; a thread running setPhase(arg) does
   an atomic load, then (if arg > loaded) an atomic store.  [cas = true] is the repair: the
   store is a compare-and-swap against the loaded value, retried from the load on failure. *)
Inductive cs_pc := CsStart | CsLoaded (v : Z) | CsDone.
Record cs_thread := { cs_arg : Z; cs_at : cs_pc }.

Definition cs_thread_step (cas : bool) (mem : Z) (t : cs_thread) : Z * cs_thread :=
  match cs_at t with
  | CsStart => (mem, {| cs_arg := cs_arg t; cs_at := CsLoaded mem |})
  | CsLoaded v =>
      if Z.ltb v (cs_arg t) then
        if cas then
          if Z.eqb mem v then (cs_arg t, {| cs_arg := cs_arg t; cs_at := CsDone |})
          else (mem, {| cs_arg := cs_arg t; cs_at := CsStart |})
        else (cs_arg t, {| cs_arg := cs_arg t; cs_at := CsDone |})
      else (mem, {| cs_arg := cs_arg t; cs_at := CsDone |})
  | CsDone => (mem, t)
  end.

Fixpoint cs_update (i : nat) (t : cs_thread) (ts : list cs_thread) : list cs_thread :=
  match ts, i with
  | [], _ => []
  | _ :: r, O => t :: r
  | x :: r, S j => x :: cs_update j t r
  end.

(* a schedule is the list of thread indices that take the next atomic step; returns the
   successive memory values *)
Fixpoint cs_run (cas : bool) (mem : Z) (ts : list cs_thread) (sched : list nat) : list Z :=
  match sched with
  | [] => []
  | i :: tl =>
      match nth_error ts i with
      | None => mem :: cs_run cas mem ts tl
      | Some t => let '(mem', t') := cs_thread_step cas mem t in
                  mem' :: cs_run cas mem' (cs_update i t' ts) tl
      end
  end.

Definition cs_threads (args : list Z) : list cs_thread := map (fun a => {| cs_arg := a; cs_at := CsStart |}) args.

Fixpoint cs_nondecreasing (prev : Z) (l : list Z) : bool :=
  match l with
  | [] => true
  | x :: t => Z.leb prev x && cs_nondecreasing x t
  end.

(* the threads after a schedule (cs_run gives the memory values) *)
Fixpoint cs_final (cas : bool) (mem : Z) (ts : list cs_thread) (sched : list nat) : Z * list cs_thread :=
  match sched with
  | [] => (mem, ts)
  | i :: tl =>
      match nth_error ts i with
      | None => cs_final cas mem ts tl
      | Some t => let '(mem', t') := cs_thread_step cas mem t in cs_final cas mem' (cs_update i t' ts) tl
      end
  end.

(* A variant of the compare-and-swap loop that does NOT load again after a failed swap
   (cur := load; for arg > cur { if CAS(cur, arg) { return } }): the thread stays where it is. *)
Definition cs_stale_step (mem : Z) (t : cs_thread) : Z * cs_thread :=
  match cs_at t with
  | CsStart => (mem, {| cs_arg := cs_arg t; cs_at := CsLoaded mem |})
  | CsLoaded v =>
      if Z.ltb v (cs_arg t) then
        if Z.eqb mem v then (cs_arg t, {| cs_arg := cs_arg t; cs_at := CsDone |}) else (mem, t)
      else (mem, {| cs_arg := cs_arg t; cs_at := CsDone |})
  | CsDone => (mem, t)
  end.

Fixpoint cs_stale_final (mem : Z) (ts : list cs_thread) (sched : list nat) : Z * list cs_thread :=
  match sched with
  | [] => (mem, ts)
  | i :: tl =>
      match nth_error ts i with
      | None => cs_stale_final mem ts tl
      | Some t => let '(mem', t') := cs_stale_step mem t in cs_stale_final mem' (cs_update i t' ts) tl
      end
  end.

(* ------------------------------------------------------------------------------------------ *)
(* Restart against a concurrent AddNotarizedBlock.  Restart = test (phase < Share) + reset; under
   the round mutex the two are one step (RaCheck immediately followed by RaAct); a variant that
   tests before taking the mutex lets RaNotarize come in between.
   State: phase, number of notarized blocks, and whether the pending Restart passed its test. *)
Inductive ra_step := RaCheck | RaAct | RaNotarize.
Record ra_state := { ra_phase : Z; ra_blocks : nat; ra_passed : bool }.

Definition ra_exec (s : ra_state) (st : ra_step) : ra_state :=
  match st with
  | RaCheck => {| ra_phase := ra_phase s; ra_blocks := ra_blocks s; ra_passed := Z.ltb (ra_phase s) sm_Share |}
  | RaAct => if ra_passed s then {| ra_phase := 0; ra_blocks := 0%nat; ra_passed := false |}
             else {| ra_phase := ra_phase s; ra_blocks := ra_blocks s; ra_passed := false |}
  | RaNotarize => {| ra_phase := Z.max (ra_phase s) sm_Share; ra_blocks := S (ra_blocks s); ra_passed := ra_passed s |}
  end.

Definition ra_run (phase : Z) (sched : list ra_step) : ra_state :=
  fold_left ra_exec sched {| ra_phase := phase; ra_blocks := 0%nat; ra_passed := false |}.

(* once AddNotarizedBlock has run, the round is at Share or later and holds the block *)
Definition ra_safe (s : ra_state) : bool := Z.leb sm_Share (ra_phase s) && Nat.leb 1 (ra_blocks s).

(* ------------------------------------------------------------------------------------------ *)
(* AddVRFShare by several threads (one miner each).  AddVRFShare = test (fewer than threshold
   shares, no share of this miner) + insert; under one write-locked section the two are one
   step (AvCheck i immediately followed by AvInsert i). *)
Inductive av_step := AvCheck (i : nat) | AvInsert (i : nat).
Record av_state := { av_shares : list nat; av_passed : list nat }.

Definition av_exec (threshold : nat) (s : av_state) (st : av_step) : av_state :=
  match st with
  | AvCheck i =>
      if Nat.ltb (length (av_shares s)) threshold
      then {| av_shares := av_shares s; av_passed := i :: av_passed s |} else s
  | AvInsert i =>
      if existsb (Nat.eqb i) (av_passed s) && negb (existsb (Nat.eqb i) (av_shares s))
      then {| av_shares := i :: av_shares s; av_passed := filter (fun j => negb (Nat.eqb i j)) (av_passed s) |}
      else {| av_shares := av_shares s; av_passed := filter (fun j => negb (Nat.eqb i j)) (av_passed s) |}
  end.

Definition av_run (threshold : nat) (sched : list av_step) : av_state :=
  fold_left (av_exec threshold) sched {| av_shares := []; av_passed := [] |}.

(* every thread runs test+insert as one step, in the given order *)
Definition av_atomic_schedule (threads : list nat) : list av_step :=
  flat_map (fun i => [AvCheck i; AvInsert i]) threads.
