(* Correspondence for C22: one case = one payFees transaction executed by minersc.Execute on a
   real state (real GlobalNode, miner / sharder nodes, magic block), with the recorded choices
   (rewarded miner, rewarded sharders in shuffled order, rand.Perm draws per node). *)
From ZC Require Import Base.Corr Model.StakePool Model.MinerFees.
Open Scope Z_scope.

Record mfc_node := { mfn_id : Z; mfn_dead : bool; mfn_minstake : Z; mfn_charge_bits : Z; mfn_reward : Z;
                     mfn_pools : list (Z * Z) }.   (* (balance, reward) in delegate id order *)

Record mfc_case := {
  mfc_ratio_bits : Z; mfc_block_reward : Z; mfc_rate_bits : Z; mfc_nmd : Z; mfc_nsd : Z;
  mfc_round : Z; mfc_generator : Z; mfc_fees : list Z;
  mfc_client : Z; mfc_in_round : Z;
  mfc_block_names : list Z;        (* function-name tokens of the block's transactions (1 = payFees, 0 = ordinary) *)
  mfc_block_accepted : bool;       (* result of the real miner.ValidateTransactions *)
  mfc_miner : option mfc_node; mfc_live : bool; mfc_sharders : list mfc_node;
  mfc_mdraws : list nat; mfc_sdraws : list (list nat);
  mfc_out : Z;                                    (* 0 ok, 1 error, 2 panic *)
  mfc_out_miner : option (Z * list Z);            (* provider reward, delegate rewards *)
  mfc_out_sharders : list (Z * list Z)
}.

Fixpoint mfc_mk_pools (i : Z) (l : list (Z * Z)) : list sp_dpool :=
  match l with
  | [] => []
  | (b, r) :: tl => {| dp_id := i; dp_bal := b; dp_reward := r; dp_status := 0; dp_staked_at := 0 |} :: mfc_mk_pools (i + 1) tl
  end.

Definition mfc_mk_node (n : mfc_node) : mf_node :=
  {| nd_id := mfn_id n; nd_killed := false;
     nd_sp := {| sp_pools := mfc_mk_pools 1 (mfn_pools n); sp_reward := mfn_reward n;
                 sp_set := {| ss_wallet := 0; ss_maxdel := 0; ss_minstake := mfn_minstake n; ss_charge := f64_of_bits (mfn_charge_bits n) |};
                 sp_killed := mfn_dead n |} |}.

Definition mfc_node_eqb (n : mf_node) (x : Z * list Z) : bool :=
  (sp_reward (nd_sp n) =? fst x) && list_eqb Z.eqb (map dp_reward (sp_pools (nd_sp n))) (snd x).

Fixpoint mfc_nodes_eqb (l : list mf_node) (xs : list (Z * list Z)) : bool :=
  match l, xs with
  | [], [] => true
  | n :: tl, x :: xtl => mfc_node_eqb n x && mfc_nodes_eqb tl xtl
  | _, _ => false
  end.

Definition mfc_builtin (fn : Z) : bool := (1 <=? fn) && (fn <=? 4).

Definition mfc_check (c : mfc_case) : bool :=
  Bool.eqb (mf_block_valid mfc_builtin [] (mfc_block_names c)) (mfc_block_accepted c) &&
  if negb (mfc_block_accepted c) then true else
  let gn := {| gn_share_ratio := f64_of_bits (mfc_ratio_bits c); gn_block_reward := mfc_block_reward c;
               gn_reward_rate := f64_of_bits (mfc_rate_bits c); gn_nmd := mfc_nmd c; gn_nsd := mfc_nsd c |} in
  let bk := {| bk_round := mfc_round c; bk_miner := mfc_generator c; bk_fees := mfc_fees c |} in
  match mf_pay_fees sp_chargef_go sp_sharef_go mf_splitf_go gn bk (mfc_client c) (mfc_in_round c)
          (option_map mfc_mk_node (mfc_miner c)) (mfc_live c) (map mfc_mk_node (mfc_sharders c))
          (mfc_mdraws c) (mfc_sdraws c) with
  | SpOk (m, ss) =>
      (mfc_out c =? 0) &&
      match m, mfc_out_miner c with
      | None, None => true
      | Some n, Some x => mfc_node_eqb n x
      | _, _ => false
      end && mfc_nodes_eqb ss (mfc_out_sharders c)
  | SpErr => mfc_out c =? 1
  | SpPanic => mfc_out c =? 2
  end.
