// Package chainh drives the real chain.Chain.UpdateState over an in-memory MPT with a
// script contract registered in smartcontract.ContractMap (engine E-chain, C01-C05).
package chainh

import (
	"context"
	"encoding/hex"
	"encoding/json"
	"errors"
	"fmt"
	"net/url"
	"sort"
	"strings"
	"time"

	"0chain.net/chaincore/block"
	"0chain.net/chaincore/chain"
	cstate "0chain.net/chaincore/chain/state"
	"0chain.net/chaincore/smartcontract"
	"0chain.net/chaincore/state"
	"0chain.net/chaincore/transaction"
	"0chain.net/core/common"
	"0chain.net/core/config"
	"0chain.net/core/datastore"
	"0chain.net/core/encryption"
	"0chain.net/miner"
	"0chain.net/smartcontract/dbs/event"
	"0chain.net/smartcontract/faucetsc"
	"0chain.net/smartcontract/stakepool"
	"0chain.net/smartcontract/stakepool/spenum"
	"0chain.net/smartcontract/vestingsc"
	"0chain.net/smartcontract/zcnsc"
	sci "0chain.net/chaincore/smartcontractinterface"
	"0chain.net/smartcontract/minersc"
	"github.com/0chain/common/core/currency"
	"github.com/0chain/common/core/statecache"
	"github.com/0chain/common/core/util"
	"verifharness/sc"
)

// ---------- identifier universe ----------
// Accounts are small integers in the histories and in the Coq cases:
//   0 = miner contract wallet (fee sink), 1 = script contract, 2 = a contract address that is
//   not registered, 3.. = clients; negative = a string that is not a 64-hex hash.

const (
	IDMiner    = 0
	IDScript   = 1
	IDNoSC     = 2
	FirstUser  = 3
	IDFaucet   = 12 // wallets of the real contracts (histories with Real set)
	IDVesting  = 13
	IDZcn      = 14
	MaxAccount = 16
)

var (
	ScriptAddress = encryption.Hash("verif script contract")
	noSCAddress   = encryption.Hash("verif unregistered contract")
)

// UpperBase: account id UpperBase+i is the upper-case hex spelling of account i (a different
// string, hence a different account, that encryption.IsHash accepts as well).
const UpperBase = 100

// ExtraBase: account number ExtraBase+k is the k-th address of the history's own address table
// (SetExtra): 64-hex strings taken from contract node keys.
const ExtraBase = 200

var extraAddrs []string

func SetExtra(a []string) { extraAddrs = a; acctIndex = nil }

func AccountID(i int) string {
	switch {
	case i >= ExtraBase:
		if i-ExtraBase < len(extraAddrs) {
			return extraAddrs[i-ExtraBase]
		}
		return encryption.Hash(fmt.Sprintf("verif extra %d", i))
	case i >= UpperBase:
		return strings.ToUpper(AccountID(i - UpperBase))
	case i < 0:
		return fmt.Sprintf("not-a-hash-%d", -i)
	case i == IDMiner:
		return minersc.ADDRESS
	case i == IDScript:
		return ScriptAddress
	case i == IDNoSC:
		return noSCAddress
	case i == IDFaucet:
		return faucetsc.ADDRESS
	case i == IDVesting:
		return vestingsc.ADDRESS
	case i == IDZcn:
		return zcnsc.ADDRESS
	}
	return encryption.Hash(fmt.Sprintf("verif client %d", i))
}

// StrictIDs probes the real encryption.IsHash: does it refuse a 64-digit hex string that is not
// in lower case?  (An input of the model: cfg_strict_ids.)
func StrictIDs() bool { return !encryption.IsHash(strings.ToUpper(encryption.Hash("verif probe"))) }

func TxnHash(i int) string { return encryption.Hash(fmt.Sprintf("verif txn %d", i)) }
func NodeKey(i int) string { return fmt.Sprintf("verif:node:%d", i) }

// ---------- script contract ----------

// ScOp is one action of the script contract.
type ScOp struct {
	K    string `json:"k"`             // w(rite) d(elete) r(ead) t(ransfer) s(igned transfer) e(vent)
	Key  int    `json:"key,omitempty"` // node key (w, d), event tag (e)
	Val  int64  `json:"val,omitempty"`
	From int    `json:"from,omitempty"`
	To   int    `json:"to,omitempty"`
	Amt  uint64 `json:"amt,omitempty"`
}

// Script is the transaction input of the script contract.
type Script struct {
	Ops  []ScOp `json:"ops"`
	Mode string `json:"mode"` // ok | fail (chargeable error) | internal (context error) | nodenotfound | flaky (block mode: context error on the first attempt only)
	Out  int    `json:"out"`  // output token / error token
}

// NodeVal is the value the script contract stores in the MPT.
type NodeVal struct{ V int64 }

func (n *NodeVal) MarshalMsg(b []byte) ([]byte, error) {
	return append(b, []byte(fmt.Sprintf("%d", n.V))...), nil
}
func (n *NodeVal) UnmarshalMsg(b []byte) ([]byte, error) {
	_, err := fmt.Sscanf(string(b), "%d", &n.V)
	return nil, err
}
func (n *NodeVal) Msgsize() int { return 24 }

// CacheableFrom: node keys from this index on hold CNode values, which implement
// statecache.Value: StateContext.GetTrieNode / InsertTrieNode route them through the
// transaction cache -> block cache -> state cache, like partitions, allocations, global nodes.
const CacheableFrom = 8

// CNode is a cacheable node value (same encoding as NodeVal).
type CNode struct{ NodeVal }

func (n *CNode) Clone() statecache.Value { c := *n; return &c }
func (n *CNode) CopyFrom(v interface{}) bool {
	o, ok := v.(*CNode)
	if !ok {
		return false
	}
	n.V = o.V
	return true
}

func nodeValue(key int, val int64) util.MPTSerializable {
	if key >= CacheableFrom {
		return &CNode{NodeVal{val}}
	}
	return &NodeVal{val}
}

// Read is one GetTrieNode the script contract performed: after Pos of its own writes it asked for
// Key; Seen is what the context (cache layers) answered, Trie what the transaction's trie holds
// at that moment (nil = value not present).
type Read struct {
	Pos  int
	Key  int
	Seen *int64
	Trie *int64
}

// Transfer as recorded (account indices).
type Tr struct {
	From, To int
	Amt      uint64
}

// Recorded is what the script contract really did during its last execution.
type Recorded struct {
	Called   bool
	Writes   [][2]int64 // key, value; value = deleted when Del[i]
	Del      []bool
	Trs      []Tr
	Signed   []Tr
	Events   []int
	Reads    []Read
	Real     bool   // recorded around a real contract (faucetsc, vestingsc, zcnsc)
	Class    string // ok | chargeable | internal
	Out      int
	AddTrErr int // number of AddTransfer calls the context refused
}

type scriptSC struct{ last *Recorded }

var theScript = &scriptSC{}

func (s *scriptSC) GetHandlerStats(context.Context, url.Values) (interface{}, error) { return nil, nil }
func (s *scriptSC) GetExecutionStats() map[string]interface{}                        { return map[string]interface{}{} }
func (s *scriptSC) GetName() string                                                  { return "verifscript" }
func (s *scriptSC) GetAddress() string                                               { return ScriptAddress }
func (s *scriptSC) GetCostTable(cstate.StateContextI) (map[string]int, error) {
	return map[string]int{"run": 1}, nil
}

// OutText is the textual output / error message for a token.
func OutText(tok int) string { return fmt.Sprintf("verif-out-%d", tok) }

var ErrScript = errors.New("script failed")

var flakyArmed = map[string]bool{}

// Trace, when non-nil, collects every execution of the script contract (block mode).
var Trace *[]*Recorded

func (s *scriptSC) Execute(t *transaction.Transaction, fn string, input []byte, b cstate.StateContextI) (string, error) {
	rec := &Recorded{Called: true}
	s.last = rec
	if Trace != nil {
		*Trace = append(*Trace, rec)
	}
	var scr Script
	if err := json.Unmarshal(input, &scr); err != nil {
		rec.Class = "chargeable"
		rec.Out = -1
		return "", fmt.Errorf("%s", OutText(-1))
	}
	rec.Out = scr.Out
	for _, o := range scr.Ops {
		switch o.K {
		case "w":
			if _, err := b.InsertTrieNode(NodeKey(o.Key), nodeValue(o.Key, o.Val)); err != nil {
				panic(err)
			}
			rec.Writes = append(rec.Writes, [2]int64{int64(o.Key), o.Val})
			rec.Del = append(rec.Del, false)
		case "d":
			if _, err := b.DeleteTrieNode(NodeKey(o.Key)); err == nil {
				rec.Writes = append(rec.Writes, [2]int64{int64(o.Key), 0})
				rec.Del = append(rec.Del, true)
			}
		case "r":
			rd := Read{Pos: len(rec.Writes), Key: o.Key}
			var err error
			if o.Key >= CacheableFrom {
				v := &CNode{}
				if err = b.GetTrieNode(NodeKey(o.Key), v); err == nil {
					x := v.V
					rd.Seen = &x
				}
			} else {
				v := &NodeVal{}
				if err = b.GetTrieNode(NodeKey(o.Key), v); err == nil {
					x := v.V
					rd.Seen = &x
				}
			}
			if err != nil && err != util.ErrValueNotPresent {
				panic(err)
			}
			tv := &NodeVal{}
			if err := b.GetState().GetNodeValue(util.Path(encryption.Hash(NodeKey(o.Key))), tv); err == nil {
				x := tv.V
				rd.Trie = &x
			} else if err != util.ErrValueNotPresent {
				panic(err)
			}
			rec.Reads = append(rec.Reads, rd)
		case "t":
			if err := b.AddTransfer(state.NewTransfer(AccountID(o.From), AccountID(o.To), currency.Coin(o.Amt))); err != nil {
				rec.AddTrErr++
				// like the real contracts: a refused transfer fails the call
				rec.Class = "chargeable"
				return "", fmt.Errorf("%s", OutText(scr.Out))
			}
			rec.Trs = append(rec.Trs, Tr{o.From, o.To, o.Amt})
		case "s":
			st := &state.SignedTransfer{Transfer: *state.NewTransfer(AccountID(o.From), AccountID(o.To), currency.Coin(o.Amt)),
				SchemeName: "ed25519", PublicKey: "00", Sig: "00"}
			b.AddSignedTransfer(st)
			rec.Signed = append(rec.Signed, Tr{o.From, o.To, o.Amt})
		case "e":
			b.EmitEvent(event.TypeStats, event.EventTag(1000+o.Key), fmt.Sprintf("idx%d", o.Key), nil)
			rec.Events = append(rec.Events, o.Key)
		}
	}
	switch scr.Mode {
	case "flaky": // interrupted (SC context error) the first time it runs after being armed, fine afterwards
		if flakyArmed[t.Hash] {
			delete(flakyArmed, t.Hash)
			rec.Class = "internal"
			return "", transaction.ErrSmartContractContext
		}
	case "fail":
		rec.Class = "chargeable"
		return "", fmt.Errorf("%s", OutText(scr.Out))
	case "internal":
		rec.Class = "internal"
		return "", transaction.ErrSmartContractContext
	case "nodenotfound":
		rec.Class = "internal"
		return "", util.ErrNodeNotFound
	}
	rec.Class = "ok"
	return OutText(scr.Out), nil
}

// ---------- chain set-up ----------

type Env struct {
	C      *chain.Chain
	Events bool
	cfg    *chain.ConfigImpl
}

// Reuse re-installs the environment's configuration as the process-wide one
// (StateContext.Validate reads config.Configuration(), updateState reads the chain's own).
func Reuse(e *Env, _ bool) *Env {
	config.Configuration().ChainConfig = e.cfg
	return e
}

// NewEnv builds a real chain.Chain. feeEnabled drives ChainConfig.IsFeeEnabled (both the chain's
// and the global configuration's); userEvents installs a non-nil EventDb handle so that
// updateState emits user events.
func NewEnv(feeEnabled, userEvents bool) *Env {
	sc.Init()
	smartcontract.ContractMap[ScriptAddress] = theScript
	c := chain.Provider().(*chain.Chain)
	cfg := chain.NewConfigImpl(&chain.ConfigData{IsFeeEnabled: feeEnabled, SmartContractTimeout: time.Minute})
	c.ChainConfig = cfg
	config.Configuration().ChainConfig = cfg
	if userEvents {
		c.EventDb = &event.EventDb{}
	}
	return &Env{C: c, Events: userEvents, cfg: cfg}
}

// ---------- state snapshot ----------

type Acct struct {
	ID    int    `json:"id"`
	Bal   uint64 `json:"bal"`
	Nonce int64  `json:"nonce"`
	Txn   int    `json:"txn"` // index of the stamping txn hash (-1 = genesis stamp, -2 = unknown)
	Round int64  `json:"round"`
}
type Node struct {
	Key int   `json:"key"`
	Val int64 `json:"val"`
}
type Snap struct {
	Accts   []Acct
	Nodes   []Node
	Unknown int // leaves whose path is neither a known account nor a known node key
	Bad     int // leaves at an account address that do not decode as a client state
	BadIDs  []int
}

const GenesisStamp = "0000000000000000000000000000000000000000000000000000000000000000"

type Universe struct {
	acct   map[string]int
	node   map[string]int
	txn    map[string]int
	MaxTxn int
}

func NewUniverse(nTxn, nKeys int) *Universe {
	u := &Universe{acct: map[string]int{}, node: map[string]int{}, txn: map[string]int{}, MaxTxn: nTxn}
	for i := 0; i < MaxAccount; i++ {
		u.acct[string(util.Path(AccountID(i)))] = i
		if up := AccountID(UpperBase + i); up != AccountID(i) {
			u.acct[string(util.Path(up))] = UpperBase + i
		}
	}
	for i := 0; i < nKeys; i++ {
		u.node[string(util.Path(encryption.Hash(NodeKey(i))))] = i
	}
	for i := 0; i < nTxn; i++ {
		u.txn[TxnHash(i)] = i
	}
	u.txn[GenesisStamp] = -1
	return u
}

// Snapshot lists all leaves of the trie.
func (u *Universe) Snapshot(mpt util.MerklePatriciaTrieI) Snap {
	var paths []string
	_ = mpt.Iterate(context.Background(), func(_ context.Context, p util.Path, _ util.Key, n util.Node) error {
		paths = append(paths, string(append(util.Path{}, p...)))
		return nil
	}, util.NodeTypeValueNode)
	var s Snap
	extra := map[string]int{}
	nodePaths := map[string]bool{}
	for k := range InsertedKeys {
		nodePaths[encryption.Hash(k)] = true
	}
	for k, a := range extraAddrs {
		// an address that is the trie path of a recorded contract node holds that node, not an account,
		// until an applied transfer has credited it
		if nodePaths[a] && !CreditedAddrs[a] {
			continue
		}
		extra[string(util.Path(a))] = ExtraBase + k
	}
	for _, p := range paths {
		id, ok := u.acct[p]
		if !ok {
			id, ok = extra[p]
		}
		if ok {
			st := &state.State{}
			if err := mpt.GetNodeValue(util.Path(p), st); err != nil {
				s.Bad++ // a leaf at an account address that is not a client state
				s.BadIDs = append(s.BadIDs, id)
				continue
			}
			ti, ok := u.txn[hex.EncodeToString(st.TxnHashBytes)]
			if !ok {
				ti = -2
			}
			s.Accts = append(s.Accts, Acct{id, uint64(st.Balance), st.Nonce, ti, st.Round})
		} else if k, ok := u.node[p]; ok {
			v := &NodeVal{}
			if err := mpt.GetNodeValue(util.Path(p), v); err != nil {
				panic(err)
			}
			s.Nodes = append(s.Nodes, Node{k, v.V})
		} else {
			s.Unknown++
		}
	}
	sort.Slice(s.Accts, func(i, j int) bool { return s.Accts[i].ID < s.Accts[j].ID })
	sort.Slice(s.Nodes, func(i, j int) bool { return s.Nodes[i].Key < s.Nodes[j].Key })
	return s
}

// ---------- one transaction ----------

type Txn struct {
	Type   int    `json:"type"` // 0 send, 10 data, 1000 smart contract, other = invalid
	From   int    `json:"from"`
	To     int    `json:"to"`
	Value  uint64 `json:"value"`
	Fee    uint64 `json:"fee"`
	Nonce  int64  `json:"nonce"`
	Round  int64  `json:"round"`
	Script Script `json:"script"`
	// a call of a real contract (To = IDFaucet | IDVesting | IDZcn): function name and JSON input
	Fn    string `json:"fn,omitempty"`
	Input string `json:"input,omitempty"`
}

// Ev is a canonical event: K = script|error|unique|user|other.
type Ev struct {
	K     string
	Tag   int    // script tag / error token
	ID    int    // user id
	Bal   uint64 // user
	Nonce int64  // user
}

type Result struct {
	Applied bool
	Status  int
	Output  string
	ErrCls  string // nonce | root | internal | funds | other
	ErrText string
	Panic   string
	Events  []Ev
	Rec     Recorded
}

// State holds the block trie of one history.
type State struct {
	Env *Env
	MPT util.MerklePatriciaTrieI
	U   *Universe
	// as in production (block.ComputeState / miner generateBlock): one StateCache for the chain,
	// one BlockCache per block shared by the block's transactions and committed when the block is
	// done; updateState layers a TransactionCache per transaction on top of it
	sc      *statecache.StateCache
	bc      *statecache.BlockCache
	bcRound int64
	bcHash  string
}

func (s *State) blockCache(round int64, hash string) *statecache.BlockCache {
	if s.sc == nil {
		s.sc = statecache.NewStateCache()
	}
	if s.bc == nil || s.bcRound != round {
		prev := "verif genesis"
		if s.bc != nil {
			s.bc.Commit()
			prev = s.bcHash
		}
		s.bc = statecache.NewBlockCache(s.sc, statecache.Block{Round: round, Hash: hash, PrevHash: prev})
		s.bcRound, s.bcHash = round, hash
	}
	return s.bc
}

func NewState(env *Env, u *Universe, init []Acct, nodes []Node) *State {
	mpt := sc.NewMPT()
	for _, a := range init {
		s := &state.State{}
		stamp := GenesisStamp
		if a.Txn >= 0 {
			stamp = TxnHash(a.Txn)
		}
		_ = s.SetTxnHash(stamp)
		s.Round = a.Round
		s.Balance = currency.Coin(a.Bal)
		s.Nonce = a.Nonce
		if _, err := mpt.Insert(util.Path(AccountID(a.ID)), s); err != nil {
			panic(err)
		}
	}
	for _, n := range nodes {
		if _, err := mpt.Insert(util.Path(encryption.Hash(NodeKey(n.Key))), &NodeVal{n.Val}); err != nil {
			panic(err)
		}
	}
	return &State{Env: env, MPT: mpt, U: u}
}

func classify(err error) string {
	switch {
	case err == chain.ErrWrongNonce:
		return "nonce"
	case err == transaction.ErrSmartContractContext || err == util.ErrNodeNotFound ||
		err == context.DeadlineExceeded || err == context.Canceled:
		return "internal"
	case err == transaction.ErrInsufficientBalance:
		return "funds"
	}
	var ce *common.Error
	if errors.As(err, &ce) && ce.Code == "update_state_failed" {
		return "root"
	}
	if strings.Contains(err.Error(), "insufficient balance") {
		return "funds"
	}
	return "other"
}

// Apply runs one transaction through the real Chain.UpdateState.
// BuildTxn makes the real transaction of history item idx.
func BuildTxn(idx int, t Txn) *transaction.Transaction {
	txn := &transaction.Transaction{}
	txn.Hash = TxnHash(idx)
	txn.ClientID = AccountID(t.From)
	txn.ToClientID = AccountID(t.To)
	txn.Value = currency.Coin(t.Value)
	txn.Fee = currency.Coin(t.Fee)
	txn.Nonce = t.Nonce
	txn.TransactionType = t.Type
	txn.SmartContractData = &transaction.SmartContractData{}
	txn.CreationDate = common.Timestamp(1700000000 + int64(idx))
	if t.Type == transaction.TxnTypeSmartContract {
		in, _ := json.Marshal(t.Script)
		d, _ := json.Marshal(map[string]interface{}{"name": "run", "input": t.Script})
		txn.TransactionData = string(d)
		txn.FunctionName = "run"
		txn.InputData = in
		if t.Fn != "" {
			txn.FunctionName = t.Fn
			txn.InputData = []byte(t.Input)
			txn.TransactionData = fmt.Sprintf(`{"name":%q,"input":%s}`, t.Fn, orNull(t.Input))
		}
	}
	return txn
}

func (s *State) Apply(idx int, t Txn) (res Result) {
	txn := BuildTxn(idx, t)
	b := &block.Block{}
	b.Round = t.Round
	b.Hash = encryption.Hash(fmt.Sprintf("verif block %d", t.Round))
	b.PrevBlock = &block.Block{}
	theScript.last = &Recorded{}
	defer func() {
		if r := recover(); r != nil {
			res.Panic = fmt.Sprint(r)
		}
	}()
	bc := s.blockCache(t.Round, b.Hash)
	evs, err := s.Env.C.UpdateState(context.Background(), b, s.MPT, txn, bc)
	res.Rec = *theScript.last
	if err != nil {
		res.ErrCls = classify(err)
		res.ErrText = err.Error()
		return res
	}
	res.Applied = true
	res.Status = txn.Status
	res.Output = txn.TransactionOutput
	res.Events = canonEvents(s.U, evs)
	return res
}

func canonEvents(u *Universe, evs []event.Event) []Ev {
	var out, users []Ev
	for _, e := range evs {
		switch {
		case e.Type == event.TypeError:
			tok := -1000
			if txt, ok := e.Data.(string); ok {
				_, _ = fmt.Sscanf(txt, "verif-out-%d", &tok)
			}
			out = append(out, Ev{K: "error", Tag: tok})
		case e.Tag == event.TagUniqueAddress:
			out = append(out, Ev{K: "unique"})
		case e.Tag == event.TagAddOrOverwriteUser:
			usr, _ := e.Data.(*event.User)
			id := -100
			if usr != nil {
				if i, ok := u.acct[string(util.Path(usr.UserID))]; ok {
					id = i
				}
				users = append(users, Ev{K: "user", ID: id, Bal: uint64(usr.Balance), Nonce: usr.Nonce})
			} else {
				users = append(users, Ev{K: "user", ID: id})
			}
		case int(e.Tag) >= 1000 && int(e.Tag) < 2000:
			out = append(out, Ev{K: "script", Tag: int(e.Tag) - 1000})
		default:
			out = append(out, Ev{K: "other", Tag: int(e.Tag)})
		}
	}
	// user events are emitted by ranging over a map: order is not an observable here
	sort.SliceStable(users, func(i, j int) bool { return users[i].ID < users[j].ID })
	return append(out, users...)
}

// ---------- genesis ----------

type GenClient struct {
	ID     int    `json:"id"`
	Tokens uint64 `json:"tokens"`
}
type GenGroup struct {
	ID      int         `json:"id"`
	Tokens  uint64      `json:"tokens"`
	Clients []GenClient `json:"clients"`
}

// Genesis runs the real mustInitGBState over a fresh trie; panicked = the code refused the
// distribution.
func Genesis(env *Env, u *Universe, groups []GenGroup) (snap Snap, panicked bool) {
	mpt := sc.NewMPT()
	ctx := sc.NewCtx(mpt, 0, nil)
	is := state.NewInitStates()
	for _, g := range groups {
		st := state.InitState{ID: AccountID(g.ID), Tokens: currency.Coin(g.Tokens)}
		for _, c := range g.Clients {
			st.State = append(st.State, state.IDTokens{ID: AccountID(c.ID), Tokens: currency.Coin(c.Tokens)})
		}
		is.States = append(is.States, st)
	}
	func() {
		defer func() {
			if r := recover(); r != nil {
				panicked = true
			}
		}()
		env.C.VerifMustInitGBState(is, ctx)
	}()
	return u.Snapshot(mpt), panicked
}

// Balance reads one client leaf directly from the block trie.
func (s *State) Balance(id int) (uint64, error) {
	st := &state.State{}
	err := s.MPT.GetNodeValue(util.Path(AccountID(id)), st)
	return uint64(st.Balance), err
}

// ---------- miner.validateTransaction ----------

// Classify runs the real miner.Chain.validateTransaction for a sender whose leaf holds
// stateNonce (nil = no leaf): 0 current, 1 future, 2 past, 3 any other error.
func Classify(stateNonce *int64, txnNonce int64) int {
	var init []Acct
	init = append(init, Acct{ID: FirstUser + 1, Bal: 1, Txn: -1}) // the trie must not be empty
	if stateNonce != nil {
		init = append(init, Acct{ID: FirstUser, Bal: 10, Nonce: *stateNonce, Txn: -1})
	}
	st := NewState(nil, nil, init, nil)
	b := &block.Block{}
	b.CreationDate = common.Timestamp(1700000000)
	txn := &transaction.Transaction{}
	txn.ClientID = AccountID(FirstUser)
	txn.Nonce = txnNonce
	txn.CreationDate = common.Timestamp(1700000000)
	mc := &miner.Chain{}
	_, err := mc.VerifValidateTransaction(b, st.MPT, txn)
	switch err {
	case nil:
		return 0
	case miner.FutureTransaction:
		return 1
	case miner.PastTransaction:
		return 2
	}
	return 3
}

func orNull(s string) string {
	if s == "" {
		return "null"
	}
	return s
}

// ---------- the real faucetsc / vestingsc / zcnsc contracts ----------

var acctIndex map[string]int

// AccountIndex maps a client id string back to its account number (-999 = not in the universe).
func AccountIndex(id string) int {
	if acctIndex == nil {
		acctIndex = map[string]int{}
		for i := 0; i < MaxAccount; i++ {
			acctIndex[AccountID(i)] = i
			acctIndex[AccountID(UpperBase+i)] = UpperBase + i
		}
		for k, a := range extraAddrs {
			acctIndex[a] = ExtraBase + k
		}
	}
	if i, ok := acctIndex[id]; ok {
		return i
	}
	return -999
}

// recSC wraps a real contract: after its Execute returns, what it queued in the state context is
// recorded (before updateState appends the fee transfer).
type recSC struct{ sci.SmartContractInterface }

// InsertedKeys: every key handed to StateContext.InsertTrieNode by the set-up and by the real
// contracts during the current Real history.
var InsertedKeys = map[string]bool{}

// CreditedAddrs: addresses an applied transfer of the current history has credited (maintained by
// the engine).
var CreditedAddrs = map[string]bool{}

// LeafLen: length of the raw value stored at the trie path of client id addr (0 = nothing there).
func (s *State) LeafLen(addr string) int {
	raw, err := s.MPT.GetNodeValueRaw(util.Path(addr))
	if err != nil {
		return 0
	}
	return len(raw)
}

type recCtx struct{ cstate.StateContextI }

func (c *recCtx) InsertTrieNode(key datastore.Key, v util.MPTSerializable) (datastore.Key, error) {
	InsertedKeys[key] = true
	return c.StateContextI.InsertTrieNode(key, v)
}

// NodesAtAccountAddresses lists the recorded contract node keys that are shaped like a client id
// (64 lower-case hex digits) and at whose own address - the trie path of the client with that id -
// a leaf exists, although no transfer has credited that address (skip).
func (s *State) NodesAtAccountAddresses(skip map[string]bool) []string {
	var out []string
	for k := range InsertedKeys {
		if !encryption.IsHash(k) || skip[k] {
			continue
		}
		if raw, err := s.MPT.GetNodeValueRaw(util.Path(k)); err == nil && len(raw) > 0 {
			out = append(out, k)
		}
	}
	sort.Strings(out)
	return out
}

// Node56: install the 56-byte probe node in Real histories (off by default).
var Node56 bool

const Node56Key = "verif:node-of-56-bytes"

// HashShapedKeys: recorded contract node keys usable as a client id, sorted.
func HashShapedKeys() []string {
	var out []string
	for k := range InsertedKeys {
		if encryption.IsHash(k) {
			out = append(out, k)
		}
	}
	sort.Strings(out)
	return out
}

func (p *recSC) Execute(t *transaction.Transaction, fn string, input []byte, b cstate.StateContextI) (string, error) {
	rec := &Recorded{Called: true, Real: true}
	theScript.last = rec
	out, err := p.SmartContractInterface.Execute(t, fn, input, &recCtx{b})
	for _, tr := range b.GetTransfers() {
		rec.Trs = append(rec.Trs, Tr{AccountIndex(tr.ClientID), AccountIndex(tr.ToClientID), uint64(tr.Amount)})
	}
	for _, tr := range b.GetSignedTransfers() {
		rec.Signed = append(rec.Signed, Tr{AccountIndex(tr.ClientID), AccountIndex(tr.ToClientID), uint64(tr.Amount)})
	}
	switch {
	case err == nil:
		rec.Class = "ok"
	case cstate.ErrInvalidState(err) || err == transaction.ErrSmartContractContext:
		rec.Class = "internal"
	default:
		rec.Class = "chargeable"
	}
	return out, err
}

// RealOwner owns the real contracts in Real histories: client FirstUser.
var RealOwner = AccountID(FirstUser)

// Root is the current state root (hex).
func (s *State) Root() string { return util.ToHex(s.MPT.GetRoot()) }

// MinerGlobal reads the miner SC global node straight from the trie (JSON of the settings that
// update_settings can touch).
func (s *State) MinerGlobal() string {
	gn := &minersc.GlobalNode{}
	if err := s.MPT.GetNodeValue(util.Path(encryption.Hash(minersc.GlobalNodeKey)), gn); err != nil {
		return "absent"
	}
	return fmt.Sprintf("max_n=%d min_n=%d max_delegates=%d cost=%v", gn.MaxN, gn.MinN, gn.MaxDelegates, gn.Cost)
}

// ProviderID: id of the miner (0) / sharder (1) installed in Real histories.
func ProviderID(i int) string { return encryption.Hash(fmt.Sprintf("verif provider %d", i)) }

// VestingPoolID is the id vestingsc gives the pool created by transaction idx.
func VestingPoolID(idx int) string { return vestingsc.ADDRESS + ":vestingpool:" + TxnHash(idx) }

// NewRealState: like NewState, plus the real contracts registered in smartcontract.ContractMap and
// their configuration nodes in the trie.
func NewRealState(env *Env, u *Universe, init []Acct) *State {
	smartcontract.ContractMap[faucetsc.ADDRESS] = &recSC{faucetsc.NewFaucetSmartContract()}
	smartcontract.ContractMap[vestingsc.ADDRESS] = &recSC{vestingsc.NewVestingSmartContract()}
	smartcontract.ContractMap[zcnsc.ADDRESS] = &recSC{zcnsc.NewZCNSmartContract()}
	smartcontract.ContractMap[minersc.ADDRESS] = &recSC{minersc.NewMinerSmartContract()}
	st := NewState(env, u, init, nil)
	mgn := &minersc.GlobalNode{
		MaxN: 7, MinN: 3, MaxS: 5, MinS: 1, MaxDelegates: 200,
		TPercent: 0.66, KPercent: 0.75, XPercent: 0.7,
		MaxStake: 1e13, MinStake: 1, MinStakePerDelegate: 1,
		RewardRate: 1, ShareRatio: 0.5, BlockReward: 1e9, MaxCharge: 0.5,
		Epoch: 1000000, RewardDeclineRate: 0.1,
		NumMinerDelegatesRewarded: 10, NumShardersRewarded: 1, NumSharderDelegatesRewarded: 5,
		RewardRoundFrequency: 250, OwnerId: RealOwner, CooldownPeriod: 100,
		Cost: map[string]int{"add_miner": 361, "add_sharder": 331, "update_settings": 137},
	}
	InsertedKeys = map[string]bool{}
	rsetup := &recCtx{sc.NewCtx(st.MPT, 1, sc.Txn(encryption.Hash("verif miner setup"), RealOwner, minersc.ADDRESS, 0, 0))}
	if _, err := rsetup.InsertTrieNode(minersc.GlobalNodeKey, mgn); err != nil {
		panic(err)
	}
	// the miner SC global settings node, stored the way minersc.InitConfig stores it
	if _, err := rsetup.InsertTrieNode(minersc.GLOBALS_KEY, &minersc.GlobalSettings{Version: 1, Fields: map[string]string{"server_chain.block.max_block_size": "10",
		"server_chain.block.max_byte_size": "1638400", "server_chain.block.replicators": "0", "server_chain.block.proposal.max_wait_time": "180ms"}}); err != nil {
		panic(err)
	}
	if Node56 {
		// a contract node whose msgpack encoding is exactly 56 bytes, the size of an encoded client state
		if _, err := rsetup.InsertTrieNode(Node56Key, &minersc.GlobalSettings{Version: 1, Fields: map[string]string{"server_chain.block.max_block_size": "10"}}); err != nil {
			panic(err)
		}
	}
	// a miner and a sharder with empty stake pools: targets of the real minersc addToDelegatePool
	pre := sc.NewCtx(st.MPT, 1, sc.Txn(encryption.Hash("verif provider setup"), RealOwner, minersc.ADDRESS, 0, 0))
	for i, nt := range []minersc.NodeType{minersc.NodeTypeMiner, minersc.NodeTypeSharder} {
		mn := minersc.NewMinerNode()
		mn.ID = ProviderID(i)
		mn.ProviderType = []spenum.Provider{spenum.Miner, spenum.Sharder}[i]
		mn.NodeType = nt
		mn.StakePool = stakepool.NewStakePool()
		mn.StakePool.Minter = cstate.MinterMiner
		mn.StakePool.Settings.DelegateWallet = AccountID(FirstUser + 7)
		mn.StakePool.Settings.MaxNumDelegates = 10
		mn.StakePool.Settings.ServiceChargeRatio = 0.1
		InsertedKeys[mn.GetKey()] = true
		if _, err := pre.InsertTrieNode(mn.GetKey(), mn); err != nil {
			panic(err)
		}
	}
	setup := sc.NewCtx(st.MPT, 1, sc.Txn(encryption.Hash("verif real setup"), RealOwner, faucetsc.ADDRESS, 0, 0))
	fgn := &faucetsc.GlobalNode{ID: faucetsc.ADDRESS, FaucetConfig: &faucetsc.FaucetConfig{PourAmount: 10, MaxPourAmount: 100,
		PeriodicLimit: 250, GlobalLimit: 600, IndividualReset: 5 * time.Second, GlobalReset: 20 * time.Second,
		OwnerId: RealOwner, Cost: map[string]int{}}}
	InsertedKeys[fgn.GetKey()] = true
	if _, err := setup.InsertTrieNode(fgn.GetKey(), fgn); err != nil {
		panic(err)
	}
	v := config.SmartContractConfig
	p := "smart_contracts.vestingsc."
	v.Set(p+"min_lock", 0.000000001)
	v.Set(p+"min_duration", 2*time.Second)
	v.Set(p+"max_duration", 1000*time.Hour)
	v.Set(p+"max_destinations", 3)
	v.Set(p+"max_description_length", 20)
	v.Set(p+"owner_id", RealOwner)
	if err := vestingsc.InitConfig(&recCtx{setup}); err != nil {
		panic(err)
	}
	zgn := &zcnsc.GlobalNode{ID: zcnsc.ADDRESS, ZCNSConfig: &zcnsc.ZCNSConfig{
		MinMintAmount: 1, MinBurnAmount: 5, MinStakeAmount: 1, MinStakePerDelegate: 1, MaxStakeAmount: 1000,
		MinLockAmount: 1, MinAuthorizers: 1, PercentAuthorizers: 0.7, MaxFee: 100, OwnerId: RealOwner, Cost: map[string]int{},
		MaxDelegates: 10, HealthCheckPeriod: time.Hour}}
	if err := zgn.Save(&recCtx{setup}); err != nil {
		panic(err)
	}
	return st
}

// ---------- block mode: the real block.ComputeState ----------

// blockChain is the block.Chainer handed to the real (*Block).ComputeState: the real chain.Chain
// (real UpdateState) over an in-memory node DB and one StateCache.
type blockChain struct {
	*chain.Chain
	db util.NodeDB
	sc *statecache.StateCache
}

func (c *blockChain) GetStateDB() util.NodeDB                                          { return c.db }
func (c *blockChain) GetStateCache() *statecache.StateCache                            { return c.sc }
func (c *blockChain) GetPreviousBlock(_ context.Context, b *block.Block) *block.Block { return b.PrevBlock }
func (c *blockChain) GetBlockStateChange(*block.Block) error                           { return errors.New("not available") }
func (c *blockChain) GetEventDb() *event.EventDb                                       { return nil }
func (c *blockChain) ComputeState(ctx context.Context, pb *block.Block, w ...chan struct{}) error {
	return pb.ComputeState(ctx, c, w...)
}

// BlockRead: key read through the caches vs straight from the block's trie.
type BlockRead struct {
	Where string // "query on block r" | "txn i (round r, attempt k)"
	Key   int
	Seen  *int64
	Trie  *int64
}

type BlocksResult struct {
	Reads       []BlockRead
	Interrupted int    // first attempts that ended StateCancelled
	Failed      string // a block whose final attempt did not compute (history stops there)
	Blocks      int
}

// RunBlocks groups the history by round into blocks and executes each with the real
// block.ComputeState: a block holding an armed flaky call is interrupted (StateCancelled) at that
// call on the first attempt and computed again.  After every computed block each cacheable key is
// read like a query on that block (QueryBlockCache) and from the block's trie.
func RunBlocks(env *Env, init []Acct, txns []Txn) (res BlocksResult) {
	sc.Init()
	bcn := &blockChain{Chain: env.C, db: util.NewMemoryNodeDB(), sc: statecache.NewStateCache()}
	b0 := &block.Block{}
	b0.Hash = encryption.Hash("verif block mode genesis")
	mpt := util.NewMerklePatriciaTrie(bcn.db, 0, nil, statecache.NewEmpty())
	for _, a := range init {
		st := &state.State{}
		_ = st.SetTxnHash(GenesisStamp)
		st.Balance, st.Nonce = currency.Coin(a.Bal), a.Nonce
		if _, err := mpt.Insert(util.Path(AccountID(a.ID)), st); err != nil {
			panic(err)
		}
	}
	b0.ClientState = mpt
	b0.ClientStateHash = mpt.GetRoot()
	b0.SetStateStatus(block.StateSuccessful)
	var trace []*Recorded
	Trace = &trace
	defer func() { Trace = nil }()
	prev := b0
	for i := 0; i < len(txns); {
		j := i
		for j < len(txns) && txns[j].Round == txns[i].Round {
			j++
		}
		b := &block.Block{}
		b.Round = txns[i].Round
		b.Hash = encryption.Hash(fmt.Sprintf("verif block %d", b.Round))
		b.PrevHash = prev.Hash
		b.SetPreviousBlock(prev)
		for k := i; k < j; k++ {
			b.Txns = append(b.Txns, BuildTxn(k, txns[k]))
		}
		// the state hash the block announces: a dry run on a scratch cache (nothing armed)
		scratch := &blockChain{Chain: env.C, db: bcn.db, sc: statecache.NewStateCache()}
		dry := block.CreateStateWithPreviousBlock(prev, bcn.db, b.Round)
		dbc := statecache.NewBlockCache(scratch.sc, statecache.Block{Round: b.Round, Hash: "scratch " + b.Hash})
		ok := true
		for k := i; k < j; k++ {
			if _, err := env.C.UpdateState(context.Background(), b, dry, BuildTxn(k, txns[k]), dbc); err != nil {
				res.Failed = fmt.Sprintf("dry run of txn %d: %v", k, err)
				ok = false
				break
			}
		}
		if !ok {
			return res
		}
		b.ClientStateHash = dry.GetRoot()
		mark := len(trace)
		for k := i; k < j; k++ {
			if txns[k].Type == transaction.TxnTypeSmartContract && txns[k].Script.Mode == "flaky" {
				flakyArmed[TxnHash(k)] = true
			}
		}
		attempt := 1
		err := b.ComputeState(context.Background(), bcn)
		if err != nil && !b.IsStateComputed() && (err == transaction.ErrSmartContractContext) {
			res.Interrupted++
			attempt = 2
			err = b.ComputeState(context.Background(), bcn)
		}
		for k := range flakyArmed {
			delete(flakyArmed, k)
		}
		if err != nil || !b.IsStateComputed() {
			res.Failed = fmt.Sprintf("block of round %d: %v", b.Round, err)
			return res
		}
		res.Blocks++
		for _, rec := range trace[mark:] {
			for _, rd := range rec.Reads {
				res.Reads = append(res.Reads, BlockRead{fmt.Sprintf("a call in the block of round %d (%d attempt(s))", b.Round, attempt), rd.Key, rd.Seen, rd.Trie})
			}
		}
		// a query on the computed block
		qbc := statecache.NewQueryBlockCache(bcn.sc, b.Hash)
		tbc := statecache.NewTransactionCache(qbc)
		qctx := cstate.NewStateContext(b, chain.CreateTxnMPT(b.ClientState, tbc), BuildTxn(399, Txn{From: FirstUser}), nil, nil, nil, nil, nil, nil)
		for key := CacheableFrom; key < CacheableFrom+3; key++ {
			rd := BlockRead{Where: fmt.Sprintf("query on the block of round %d", b.Round), Key: key}
			v := &CNode{}
			if err := qctx.GetTrieNode(NodeKey(key), v); err == nil {
				x := v.V
				rd.Seen = &x
			}
			tv := &NodeVal{}
			if err := b.ClientState.GetNodeValue(util.Path(encryption.Hash(NodeKey(key))), tv); err == nil {
				x := tv.V
				rd.Trie = &x
			}
			res.Reads = append(res.Reads, rd)
		}
		prev = b
		i = j
	}
	return res
}

// AllKeys: every recorded contract node key, sorted.  HashOf: the id-shaped hash of a key.
func AllKeys() []string {
	var out []string
	for k := range InsertedKeys {
		out = append(out, k)
	}
	sort.Strings(out)
	return out
}
func HashOf(k string) string { return encryption.Hash(k) }
