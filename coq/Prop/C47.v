(* C47: Client signatures verify exactly for the signing key (idealised algebra; unforgeability is a
   hardness assumption and is NOT claimed). Only statements; each is closed by [exact] of a lemma
   in Proof/SigAlg.v, Proof/HashEnc.v or Proof/HashFields.v.
   F: any commutative ring without zero divisors (the scalar field of the group), with a boolean
   equality. BLS: public key x.g2 ~ x, H(m) ~ unit vector m. ed25519: Schnorr over the same scalars
   with an abstract challenge hash hc. *)
From ZC Require Import Model.SigAlg Proof.SigAlg Model.HashEnc Proof.HashEnc Gen.HashFields Proof.HashFields.
From Coq Require Import Ring.

(* --- BLS (bls0chain.go) --- *)
Theorem C47_bls_sign_verify : forall F f0 f1 fadd fmul fsub fopp feqb,
  sg_scalars F f0 f1 fadd fmul fsub fopp feqb ->
  forall n x m, bls_verify F f0 f1 fmul feqb n x m (bls_sign F f0 f1 fmul x m) = true.
Proof. exact sgb_bls_sign_verify. Qed.
Print Assumptions C47_bls_sign_verify.

Theorem C47_bls_other_key_fails : forall F f0 f1 fadd fmul fsub fopp feqb,
  sg_scalars F f0 f1 fadd fmul fsub fopp feqb ->
  forall n x x' m, (m < n)%nat -> x <> x' ->
  bls_verify F f0 f1 fmul feqb n x' m (bls_sign F f0 f1 fmul x m) = false.
Proof. exact sgb_bls_other_key_fails. Qed.
Print Assumptions C47_bls_other_key_fails.

Theorem C47_bls_other_hash_fails : forall F f0 f1 fadd fmul fsub fopp feqb,
  sg_scalars F f0 f1 fadd fmul fsub fopp feqb ->
  forall n x m m', (m < n)%nat -> m <> m' -> x <> f0 ->
  bls_verify F f0 f1 fmul feqb n x m' (bls_sign F f0 f1 fmul x m) = false.
Proof. exact sgb_bls_other_hash_fails. Qed.
Print Assumptions C47_bls_other_hash_fails.

Theorem C47_bls_tampered_signature_fails : forall F f0 f1 fadd fmul fsub fopp feqb,
  sg_scalars F f0 f1 fadd fmul fsub fopp feqb ->
  forall n x m d i, (i < n)%nat -> d i <> f0 ->
  bls_verify F f0 f1 fmul feqb n x m (sg_add F fadd (bls_sign F f0 f1 fmul x m) d) = false.
Proof. exact sgb_bls_tampered_signature_fails. Qed.
Print Assumptions C47_bls_tampered_signature_fails.

(* --- ed25519 (ed25519.go) as Schnorr --- *)
Theorem C47_ed_sign_verify : forall F f0 f1 fadd fmul fsub fopp feqb,
  sg_scalars F f0 f1 fadd fmul fsub fopp feqb ->
  forall hc a r m, ed_verify F fadd fmul feqb hc a m (ed_sign F fadd fmul hc a r m) = true.
Proof. exact sgb_ed_sign_verify. Qed.
Print Assumptions C47_ed_sign_verify.

(* the challenge hash is idealised: products hc.a do not collide across keys *)
Theorem C47_ed_other_key_fails : forall F f0 f1 fadd fmul fsub fopp feqb,
  sg_scalars F f0 f1 fadd fmul fsub fopp feqb ->
  forall hc a a' r m, fmul (hc r a m) a <> fmul (hc r a' m) a' ->
  ed_verify F fadd fmul feqb hc a' m (ed_sign F fadd fmul hc a r m) = false.
Proof. exact sgb_ed_other_key_fails. Qed.
Print Assumptions C47_ed_other_key_fails.

Theorem C47_ed_other_hash_fails : forall F f0 f1 fadd fmul fsub fopp feqb,
  sg_scalars F f0 f1 fadd fmul fsub fopp feqb ->
  forall hc a r m m', a <> f0 -> hc r a m <> hc r a m' ->
  ed_verify F fadd fmul feqb hc a m' (ed_sign F fadd fmul hc a r m) = false.
Proof. exact sgb_ed_other_hash_fails. Qed.
Print Assumptions C47_ed_other_hash_fails.

Theorem C47_ed_tampered_S_fails : forall F f0 f1 fadd fmul fsub fopp feqb,
  sg_scalars F f0 f1 fadd fmul fsub fopp feqb ->
  forall hc a r m d, d <> f0 ->
  ed_verify F fadd fmul feqb hc a m
    (fst (ed_sign F fadd fmul hc a r m), fadd (snd (ed_sign F fadd fmul hc a r m)) d) = false.
Proof. exact sgb_ed_tampered_S_fails. Qed.
Print Assumptions C47_ed_tampered_S_fails.

(* --- client id --- *)
(* every place that derives or checks a client id (generated from the Go source) hashes the
   public key bytes; Client.Validate accepts exactly ids equal to that hash *)
Theorem C47_client_id_is_hash_of_key :
  map idr_fn hf_client_id =
    ["client.Client.Validate"; "client.Client.computePublicKeyBytes"; "client.GetIDFromPublicKey";
     "encryption.VerifyPublicKeyClientID"]%string /\
  forallb (fun r => match idr_form r with IdHashOfHexDecode | IdHashOfBytes => true end) hf_client_id = true.
Proof. exact hf_client_id_sites. Qed.
Print Assumptions C47_client_id_is_hash_of_key.

(* the stored key is the hashed key: no method of Client (generated list of all writes to PublicKey /
   PublicKeyBytes / ID) leaves a field changed without recomputing id := Hash(decode PublicKey) ... *)
Theorem C47_client_key_writes_recompute :
  forallb he_pkrule_ok hf_client_key_writes = true /\ hf_client_key_writes <> [].
Proof. exact (conj hf_client_key_writes_ok hf_client_key_writes_nonempty). Qed.
Print Assumptions C47_client_key_writes_recompute.

(* ... so after any sequence of key settings (SetPublicKey, ComputeProperties after decode, Copy/Clone)
   id = Hash(decode(stored PublicKey)) *)
Theorem C47_client_id_is_hash_of_stored_key : forall decode Hash ks s,
  cl_consistent decode Hash s -> cl_consistent decode Hash (cl_run decode Hash s ks).
Proof. exact cl_run_consistent. Qed.
Print Assumptions C47_client_id_is_hash_of_stored_key.

Theorem C47_client_first_key_makes_consistent : forall decode Hash s k b, decode k = Some b ->
  cl_consistent decode Hash (cl_set_public_key decode Hash s k).
Proof. exact cl_set_public_key_fresh. Qed.
Print Assumptions C47_client_first_key_makes_consistent.

(* why the translator must flag a key replaced after the id was computed *)
Theorem C47_client_stale_key_breaks_id : forall decode Hash norm s k b b',
  decode k = Some b -> decode (norm k) = Some b' -> Hash b <> Hash b' ->
  ~ cl_consistent decode Hash (cl_set_public_key_stale decode Hash norm s k).
Proof. exact cl_stale_inconsistent. Qed.
Print Assumptions C47_client_stale_key_breaks_id.

Theorem C47_client_validate : forall id key_hash,
  cl_validate id key_hash = true <-> (id <> ""%string /\ id = key_hash).
Proof. exact cl_validate_spec. Qed.
Print Assumptions C47_client_validate.

(* Non-vacuity over Z_r: a key signs, verifies, and fails under another key / hash *)
Example C47_example :
  let v := bls_verify Z 0%Z 1%Z (zq_mul sx_r) (fun a b => Z.eqb a b) 4 in
  let s := bls_sign Z 0%Z 1%Z (zq_mul sx_r) in
  v (sx_key 0) 1%nat (s (sx_key 0) 1%nat) = true /\
  v (sx_key 1) 1%nat (s (sx_key 0) 1%nat) = false /\
  v (sx_key 0) 2%nat (s (sx_key 0) 1%nat) = false.
Proof. vm_compute. repeat split; reflexivity. Qed.
