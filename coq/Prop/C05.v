(* C05: balances never overdraw or wrap; a transfer larger than the source balance, or one that
   would overflow the destination, fails the whole transaction and leaves every balance unchanged.
   Only statements; each is closed by [exact] of a lemma in Proof/ChainStateC05.v. *)
From ZC Require Import Model.ChainState Proof.ChainState Proof.ChainStateC05.
Open Scope Z_scope.

(* transferAmountWithAssert keeps every stored balance inside [0, 2^64). *)
Theorem C05_transfer_amount_range :
  forall sp m t m', cs_wf m -> 0 <= tr_amt t -> cs_transfer_assert sp m t = ROk m' -> cs_wf m'.
Proof. exact cs_c05_transfer_range. Qed.
Print Assumptions C05_transfer_amount_range.

(* transferAmount returns an error exactly when a non-zero amount names the same account twice,
   exceeds the source balance or would carry the destination to 2^64 or beyond. *)
Theorem C05_transfer_amount_error_iff :
  forall sp m t, cs_wf m -> 0 <= tr_amt t ->
    ((exists e, cs_transfer_amount sp m t = RErr e) <->
     tr_amt t <> 0 /\ (tr_from t = tr_to t \/ cs_bal m (tr_from t) < tr_amt t \/
                       cs_two64 <= cs_bal m (tr_to t) + tr_amt t)).
Proof. exact cs_c05_transfer_error_iff. Qed.
Print Assumptions C05_transfer_amount_error_iff.

(* If, walking through everything the transaction moves (contract-queued or send transfer, fee,
   signed transfers: [cs_queued]) over exact integers, some transfer overdraws its source or
   overflows its destination - also after earlier transfers of the same transaction succeeded -
   the transaction is not applied and the state is unchanged.  Every configuration, state,
   transaction, contract oracle result and id. *)
Theorem C05_failed_transfer_rejects_txn :
  forall cfg st round tx r,
    cs_fails (cs_bal (st_accts st)) (cs_queued cfg tx r) ->
    cs_is_applied (cs_update_state cfg st round tx r) = false /\
    cs_post st (cs_update_state cfg st round tx r) = st.
Proof. exact cs_c05_failed_transfer_rejects. Qed.
Print Assumptions C05_failed_transfer_rejects_txn.

Theorem C05_value_gt_supply_rejected :
  forall cfg st round tx r,
    cs_max_supply < tx_value tx -> cs_is_applied (cs_update_state cfg st round tx r) = false.
Proof. exact cs_c05_value_gt_supply. Qed.
Print Assumptions C05_value_gt_supply_rejected.

(* Every stored balance stays a uint64 across any transaction ... *)
Theorem C05_update_state_range :
  forall cfg st round tx r,
    cs_wf (st_accts st) -> cs_typed_txn cfg tx r ->
    cs_wf (st_accts (cs_post st (cs_update_state cfg st round tx r))).
Proof. exact cs_c05_update_range. Qed.
Print Assumptions C05_update_state_range.

(* ... and across any history (amounts are uint64 values: non-negative). *)
Theorem C05_history_range :
  forall cfg h st,
    cs_wf (st_accts st) -> Forall (cs_typed_item cfg) h -> cs_wf (st_accts (cs_run cfg st h)).
Proof. exact cs_c05_history_range. Qed.
Print Assumptions C05_history_range.

(* An applied transaction leaves in every account the exact integer result of its transfers,
   which is itself inside [0, 2^64): nothing wrapped.  (Ids in canonical spelling, see C01.) *)
Theorem C05_applied_balances_exact :
  forall cfg st round tx r st' status out evs,
    cs_canon_accts (st_accts st) -> cs_canon_txn cfg tx r ->
    cs_wf (st_accts st) -> cs_typed_txn cfg tx r ->
    cs_update_state cfg st round tx r = Applied st' status out evs ->
    forall id,
      cs_bal (st_accts st') id =
      cs_bal (st_accts st) id + cs_inflow (cs_queued cfg tx r) id - cs_outflow (cs_queued cfg tx r) id /\
      0 <= cs_bal (st_accts st') id < cs_two64.
Proof. exact cs_c05_exact. Qed.
Print Assumptions C05_applied_balances_exact.

(* Non-vacuity: a contract call whose third transfer overdraws after two succeeded is rejected
   and changes nothing; the same call without the third transfer is applied; a destination at
   2^64-1 rejects a transfer of 1. *)
Example C05_example :
  let cfg := {| cfg_fee := true; cfg_events := false; cfg_miner := 0; cfg_strict_ids := true |} in
  let A b := {| ac_bal := b; ac_nonce := 0; ac_txn := -1; ac_round := 0 |} in
  let st := {| st_accts := [(1, A 50); (3, A 100); (4, A 18446744073709551615)]; st_nodes := [] |} in
  let tx := {| tx_hash := 0; tx_type := TSC; tx_from := 3; tx_to := 1; tx_value := 60; tx_fee := 5; tx_nonce := 1 |} in
  let T := Build_cs_transfer in
  let bad := SCOk [] [T 3 1 60; T 1 5 100; T 5 6 101] [] [] 0 in
  let good := SCOk [] [T 3 1 60; T 1 5 100] [] [] 0 in
  let over := SCOk [] [T 3 4 1] [] [] 0 in
  cs_wf (st_accts st) /\
  cs_fails (cs_bal (st_accts st)) (cs_queued cfg tx bad) /\
  cs_update_state cfg st 1 tx bad = Rejected ErrFunds /\
  cs_is_applied (cs_update_state cfg st 1 tx good) = true /\
  cs_fails (cs_bal (st_accts st)) (cs_queued cfg tx over) /\
  cs_update_state cfg st 1 tx over = Rejected ErrSumOverflow.
Proof.
  cbv zeta. split; [|split; [|split; [|split; [|split]]]].
  - unfold cs_wf. repeat constructor; vm_compute; congruence.
  - cbn. right. right. left. vm_compute. split; [congruence|left; reflexivity].
  - vm_compute. reflexivity.
  - vm_compute. reflexivity.
  - cbn. left. vm_compute. split; [congruence|right; congruence].
  - vm_compute. reflexivity.
Qed.
