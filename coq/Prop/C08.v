(* C08: State entities serialize losslessly and canonically.
   Only statements; each is closed by [exact] of a lemma in Proof/Msgp.v, Proof/MsgpSchemas.v or
   Proof/StateBin.v.  [mp_ty] is the universe of msgp schemas, [mp_enc]/[mp_dec] the wire format
   of github.com/0chain/msgp as the generated MarshalMsg/UnmarshalMsg use it, [mp_wf t v] says
   that v is a value of schema t (integers in range, lengths below 2^32, map keys in order). *)
From ZC Require Import Model.Msgp Model.StateBin Proof.Msgp Proof.MsgpSchemas Proof.StateBin Gen.MsgpSchema.
Open Scope Z_scope.
Open Scope list_scope.

(* Proved once for every schema: decoding inverts encoding, whatever follows in the buffer. *)
Theorem C08_codec_round_trip :
  forall t, mp_wf_ty t -> forall v rest, mp_wf t v -> mp_dec t (mp_enc t v ++ rest) = Some (v, rest).
Proof. exact mp_dec_enc. Qed.
Print Assumptions C08_codec_round_trip.

(* Re-encoding the decoded value yields identical bytes. *)
Theorem C08_canonical_reencoding :
  forall t v, mp_wf_ty t -> mp_wf t v ->
    exists v', mp_dec t (mp_enc t v) = Some (v', []) /\ mp_enc t v' = mp_enc t v.
Proof. exact mp_enc_dec_enc. Qed.
Print Assumptions C08_canonical_reencoding.

(* Different values never share an encoding (a stored value determines its bytes and back). *)
Theorem C08_encoding_injective :
  forall t v1 v2, mp_wf_ty t -> mp_wf t v1 -> mp_wf t v2 -> mp_enc t v1 = mp_enc t v2 -> v1 = v2.
Proof. exact mp_enc_inj. Qed.
Print Assumptions C08_encoding_injective.

(* Skip (used for unknown keys and by the entitywrapper version peek) passes over exactly one
   encoded value. *)
Theorem C08_skip_passes_encoded_value :
  forall t v rest, mp_wf_ty t -> mp_wf t v -> mp_skip (mp_enc t v ++ rest) = Some rest.
Proof. exact mp_skip_enc. Qed.
Print Assumptions C08_skip_passes_encoded_value.

(* The schemas regenerated from the source tree on every run (Gen/MsgpSchema.v): every one that
   the translator does not report as lossy is inside the theorem ... *)
Theorem C08_tree_schemas_round_trip :
  forall name t, In (name, t) msgp_schemas -> ~ In name msgp_lossy ->
  forall v rest, mp_wf t v -> mp_dec t (mp_enc t v ++ rest) = Some (v, rest).
Proof. exact msgp_schema_dec_enc. Qed.
Print Assumptions C08_tree_schemas_round_trip.

(* ... and the lossy ones are exactly the schemas outside it (none is outside for another reason). *)
Theorem C08_lossy_schemas_exact :
  map fst (filter (fun nt => negb (mp_wf_tyb (snd nt))) msgp_schemas) = msgp_lossy.
Proof. exact msgp_lossy_exact. Qed.
Print Assumptions C08_lossy_schemas_exact.

(* The full statement over the tree, and when it holds. *)
Definition C08_full_statement : Prop :=
  forall name t, In (name, t) msgp_schemas ->
  forall v rest, mp_wf t v -> mp_dec t (mp_enc t v ++ rest) = Some (v, rest).

Theorem C08_full_statement_when_no_lossy_schema : msgp_lossy = [] -> C08_full_statement.
Proof. exact msgp_full_if_no_lossy. Qed.
Print Assumptions C08_full_statement_when_no_lossy_schema.

(* On the current tree the translator finds no lossy schema (msgp_lossy = []), so the full
   statement holds for every schema of the tree.  If a hand-written UnmarshalMsg stops copying its
   fields back (as node.Pool did before 5d92d1d) the translator reports it, this theorem stops
   checking and the engine shows the lost value. *)
Theorem C08_full_statement_holds : C08_full_statement.
Proof. exact msgp_full_holds. Qed.
Print Assumptions C08_full_statement_holds.

(* A type whose hand-written UnmarshalMsg decodes into a shadow value and copies nothing back
   (TDrop, found by the translator in node.Pool) reads back as its zero value; any schema of the
   tree of that form refutes the full statement as soon as it has a non-zero value. *)
Theorem C08_dropping_type_reads_back_zero :
  forall e v rest, mp_wf_ty e -> mp_wf e v ->
    mp_dec (TDrop e) (mp_enc (TDrop e) v ++ rest) = Some (mp_zero e, rest).
Proof. exact mp_drop_reads_zero. Qed.
Print Assumptions C08_dropping_type_reads_back_zero.

Theorem C08_full_statement_refuted_by_dropping_type :
  forall name e v, In (name, TDrop e) msgp_schemas -> mp_wf_ty e -> mp_wf e v -> v <> mp_zero e ->
    ~ C08_full_statement.
Proof. exact msgp_full_refuted_by_drop. Qed.
Print Assumptions C08_full_statement_refuted_by_dropping_type.

(* entitywrapper: MigrateFrom (modelled as the copy of the same-named fields) keeps every field
   that both versions have under the same key and schema, and sets the version field. *)
Theorem C08_migrate_keeps_common :
  forall tag fs_old vs_old fs_new k ft x ftn,
    k <> mp_version_key -> mp_lookup_field k fs_old vs_old = Some (ft, x) ->
    mp_first k fs_new = Some ftn -> mp_ty_eqb ft ftn = true ->
    mp_lookup_field k fs_new (mp_migrate tag fs_old vs_old fs_new) = Some (ftn, x).
Proof. exact mp_migrate_keeps_common. Qed.
Print Assumptions C08_migrate_keeps_common.

Theorem C08_migrate_sets_version :
  forall tag fs_old vs_old fs_new ftn, mp_first mp_version_key fs_new = Some ftn ->
    mp_lookup_field mp_version_key fs_new (mp_migrate tag fs_old vs_old fs_new) = Some (ftn, VStr tag).
Proof. exact mp_migrate_sets_version. Qed.
Print Assumptions C08_migrate_sets_version.

(* Client state leaf (chaincore/state.State), fixed binary layout: with its guard (a 32-byte
   transaction hash, numbers in their Go ranges) Decode inverts Encode, Encode is injective, and
   (since fix 8b489e6) a value of any other size than the 56 bytes Encode writes is not a client state. *)
Theorem C08_state_round_trip :
  forall s, sb_wf s -> exists b, sb_encode s = SbBytes b /\ sb_decode b = Some s.
Proof. exact sb_decode_encode. Qed.
Print Assumptions C08_state_round_trip.

Theorem C08_state_decode_exact_size :
  forall b, length b <> 56%nat -> sb_decode b = None.
Proof. exact sb_decode_exact_size. Qed.
Print Assumptions C08_state_decode_exact_size.

Theorem C08_state_encoding_injective :
  forall s1 s2, sb_wf s1 -> sb_wf s2 -> sb_encode s1 = sb_encode s2 -> s1 = s2.
Proof. exact sb_encode_inj. Qed.
Print Assumptions C08_state_encoding_injective.

(* Non-vacuity.  A wrapper with two versions, a pointer, a map and integers at size-class
   boundaries round trips; without the guard the state layout does not (31- and 33-byte hashes);
   a dropping type loses its value. *)
Example C08_example :
  let v1 := TStruct [(mp_of_string "ID", TStr); (mp_of_string "N", TInt 64)] in
  let v2 := TStruct [(mp_version_key, TStr); (mp_of_string "ID", TStr); (mp_of_string "N", TInt 64);
                     (mp_of_string "M", TMap (TPtr (TUint 64)))] in
  let t := TVer [(mp_v1, v1); (mp_of_string "v2", v2)] in
  let x := VVer (mp_of_string "v2")
             (VStruct [VStr (mp_of_string "v2"); VStr [1; 2; 3]; VInt (-129);
                       VMap [([97], VPtr None); ([98], VPtr (Some (VInt 65536)))]]) in
  mp_wf_tyb t = true /\
  mp_dec t (mp_enc t x) = Some (x, []) /\
  mp_enc t (VVer mp_v1 (VStruct [VStr [1]; VInt 128])) = [130; 162; 73; 68; 161; 1; 161; 78; 209; 0; 128] /\
  mp_migrate (mp_of_string "v2") [(mp_of_string "ID", TStr); (mp_of_string "N", TInt 64)] [VStr [7]; VInt 5]
             [(mp_version_key, TStr); (mp_of_string "ID", TStr); (mp_of_string "N", TInt 64); (mp_of_string "M", TMap (TPtr (TUint 64)))]
    = [VStr (mp_of_string "v2"); VStr [7]; VInt 5; VMap []] /\
  mp_dec (TDrop v1) (mp_enc (TDrop v1) (VStruct [VStr [1]; VInt 128])) = Some (VStruct [VStr []; VInt 0], []) /\
  (let s := {| sb_hash := Some (repeat 7 31); sb_round := 1; sb_balance := 2; sb_nonce := 3 |} in
   match sb_encode s with SbBytes b => sb_decode b <> Some s | SbPanic => False end) /\
  (let s := {| sb_hash := Some (repeat 7 33); sb_round := 1; sb_balance := 2; sb_nonce := 3 |} in
   match sb_encode s with SbBytes b => sb_decode b <> Some s | SbPanic => False end) /\
  sb_encode {| sb_hash := None; sb_round := 1; sb_balance := 2; sb_nonce := 3 |} = SbPanic.
Proof. cbv zeta. repeat split; try (vm_compute; reflexivity); vm_compute; discriminate. Qed.
