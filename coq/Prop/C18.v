(* C18: Bridge mints need a quorum of authorizers and each nonce mints once.
   Only statements; each is closed by [exact] of a lemma in Proof/ZcnMint.v.

   What the real BLS library answers for every signature entry (valid / well-formed but not
   verifying / undecodable) is an input of the model. The code as it is ends verifySignatures as
   PASSED at the first entry (in id order) for which Verify returns (false, nil):
   [if !ok || err != nil { return errors.Wrap(err, ...) }] and errors.Wrap(nil, ...) is nil; the
   entries after it are not even looked up. So the quorum clause is false of the code
   (C18_quorum_refuted), and so is "the fee goes to an authorizer" in general; both are proved for
   all mints whose counted entries contain no well-formed-but-invalid signature (C18_*_partial).
   The other clauses hold in full. *)
From ZC Require Import Model.ZcnMint Proof.ZcnMint.
Open Scope Z_scope.

(* Full quorum statement: a mint implies threshold-many distinct, registered authorizers, each with
   a valid signature in the payload (threshold = RoundToEven(percent_authorizers * number of
   authorizers), the contract's reading of "the configured fraction"). *)
Definition C18_full_quorum_statement : Prop :=
  forall st client p pick st' tr paid cred,
    zm_mint st client p pick = (st', ZmMinted tr paid cred) ->
    exists ids, NoDup ids /\ zm_threshold (zm_pbits st) (zm_count st) <= Z.of_nat (length ids) /\
      forall id, In id ids -> id <> 0 /\ In id (zm_reg st) /\
        exists s, In s (zp_sigs p) /\ zs_id s = id /\ zs_res s = ZsValid.

(* one registered authorizer at 70 %, a payload whose only entry does not verify: minted *)
Theorem C18_quorum_refuted : ~ C18_full_quorum_statement.
Proof. exact zm_quorum_refuted. Qed.
Print Assumptions C18_quorum_refuted.

Theorem C18_quorum_partial :
  forall st client p pick st' tr paid cred,
    zm_mint st client p pick = (st', ZmMinted tr paid cred) ->
    (forall s, In s (zm_counted st p) -> zs_res s <> ZsInvalid) ->
    exists ids, NoDup ids /\ zm_threshold (zm_pbits st) (zm_count st) <= Z.of_nat (length ids) /\
      forall id, In id ids -> id <> 0 /\ In id (zm_reg st) /\
        exists s, In s (zp_sigs p) /\ zs_id s = id /\ zs_res s = ZsValid.
Proof. exact zm_quorum_partial. Qed.
Print Assumptions C18_quorum_partial.

(* The submitter is the receiving client; the receiver gets exactly amount - share from the contract
   wallet (share = max_fee / number of counted entries <= amount); the share is credited to the
   stake pool of exactly one of the listed signers (or to nobody when it is 0 or that
   pool's stake is below min_stake: DistributeRewards pays nothing then); no other pool, and no
   registration, changes. Duplicate, foreign or empty ids never add to the count: the threshold is
   compared with the number of distinct ids, every one of which must be registered. *)
Theorem C18_receiver_amount_and_fee :
  forall st client p pick st' tr paid cred,
    zm_mint st client p pick = (st', ZmMinted tr paid cred) ->
    let share := zm_max_fee st / Z.of_nat (length (zm_counted st p)) in
    zp_receiver p = client /\
    tr = [(zm_wallet, client, zp_amount p - share)] /\ share <= zp_amount p /\
    zm_min_mint st <= zp_amount p /\
    In paid (map zs_id (zm_counted st p)) /\
    (cred = share \/ cred = 0) /\
    exists pool, zm_pool_get paid (zm_pools st) = Some pool /\
      (cred = 0 <-> share = 0 \/ zl_stake pool < zm_min_stake st) /\
      zm_pool_get paid (zm_pools st') = Some {| zl_stake := zl_stake pool; zl_credited := zl_credited pool + cred |} /\
      (forall id, id <> paid -> zm_pool_get id (zm_pools st') = zm_pool_get id (zm_pools st)) /\
      zm_reg st' = zm_reg st /\ zm_count st' = zm_count st.
Proof. exact zm_mint_effect. Qed.
Print Assumptions C18_receiver_amount_and_fee.

(* ... and outside the trigger that signer is a registered authorizer *)
Theorem C18_fee_goes_to_registered_authorizer_partial :
  forall st client p pick st' tr paid cred,
    zm_mint st client p pick = (st', ZmMinted tr paid cred) ->
    (forall s, In s (zm_counted st p) -> zs_res s <> ZsInvalid) ->
    In paid (zm_reg st).
Proof. exact zm_fee_receiver_registered. Qed.
Print Assumptions C18_fee_goes_to_registered_authorizer_partial.

(* Each mint nonce succeeds at most once, over any history of registrations, deletions and mints *)
Theorem C18_nonce_mints_once :
  forall pbits min_mint max_fee min_stake ops,
    NoDup (zm_success_nonces ops (snd (zm_run (zm_init pbits min_mint max_fee min_stake) ops))).
Proof. exact zm_nonce_once. Qed.
Print Assumptions C18_nonce_mints_once.

(* a refused request changes nothing *)
Theorem C18_refused_changes_nothing :
  forall st o st1, zm_step st o = (st1, ZmFail) -> st1 = st.
Proof. exact zm_fail_noop. Qed.
Print Assumptions C18_refused_changes_nothing.

(* Non-vacuity: three authorizers at 70 % (threshold 2); two signers mint, a signer and its own
   duplicate do not, the same nonce does not mint again, a foreign signer spoils the payload, a
   deleted authorizer cannot sign any more, and with two authorizers left only the first two entries of
   a longer list are looked at *)
Example C18_example :
  let s v := {| zs_id := v; zs_res := ZsValid |} in
  snd (zm_run (zm_init zm_p07 10 6 0)
    [ZmRegister true 1; ZmRegister true 2; ZmRegister false 3; ZmRegister true 3;
     ZmMint 100 (Some {| zp_receiver := 100; zp_amount := 100; zp_nonce := 1; zp_sigs := [s 1; s 2] |}) 2;
     ZmMint 100 (Some {| zp_receiver := 100; zp_amount := 100; zp_nonce := 2; zp_sigs := [s 1; s 1] |}) 1;
     ZmMint 100 (Some {| zp_receiver := 100; zp_amount := 100; zp_nonce := 1; zp_sigs := [s 1; s 2] |}) 1;
     ZmMint 101 (Some {| zp_receiver := 100; zp_amount := 100; zp_nonce := 3; zp_sigs := [s 1; s 2] |}) 1;
     ZmMint 100 (Some {| zp_receiver := 100; zp_amount := 100; zp_nonce := 3; zp_sigs := [s 1; s 2; s 7] |}) 1;
     ZmDelete true 2;
     ZmMint 100 (Some {| zp_receiver := 100; zp_amount := 100; zp_nonce := 3; zp_sigs := [s 1; s 2] |}) 1;
     ZmMint 100 (Some {| zp_receiver := 100; zp_amount := 100; zp_nonce := 3; zp_sigs := [s 3; s 1; {| zs_id := 3; zs_res := ZsError |}] |}) 1])
  = [ZmOk; ZmOk; ZmFail; ZmOk; ZmMinted [(zm_wallet, 100, 97)] 2 3; ZmFail; ZmFail; ZmFail; ZmFail; ZmOk; ZmFail; ZmMinted [(zm_wallet, 100, 97)] 1 3].
Proof. vm_compute. reflexivity. Qed.
