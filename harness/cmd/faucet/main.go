// Engine for C17: runs pour / refill / update-settings histories on the real faucetsc contract
// over a real StateContext, checks the property on the observed transfers (oracle) and emits
// cases for the Coq model (Model/Faucet.v).
package main

import (
	"encoding/json"
	"fmt"
	"time"

	cstate "0chain.net/chaincore/chain/state"
	"0chain.net/chaincore/smartcontractinterface"
	"0chain.net/core/config"
	"0chain.net/core/encryption"
	"0chain.net/core/viper"
	"0chain.net/smartcontract/faucetsc"
	"github.com/0chain/common/core/currency"
	"github.com/0chain/common/core/util"
	"verifharness/sc"
	"verifharness/vh"
)

type cfg struct {
	Pour   uint64 `json:"pour"`
	Max    uint64 `json:"max"`
	PLimit uint64 `json:"plimit"`
	GLimit uint64 `json:"glimit"`
	IReset int64  `json:"ireset"` // nanoseconds
	GReset int64  `json:"greset"`
}

type field struct {
	F int    `json:"f"` // 0 pour 1 max 2 plimit 3 glimit 4 ireset 5 greset
	V uint64 `json:"v"` // coins, or nanoseconds
}

type op struct {
	K      string  `json:"k"` // pour|refill|update
	C      int     `json:"c"`
	T      int64   `json:"t"`
	V      uint64  `json:"v,omitempty"`
	Bal    *uint64 `json:"bal"` // faucet balance (pour) / client balance (refill); nil = no state leaf
	Owner  bool    `json:"owner,omitempty"`
	Fields []field `json:"fields,omitempty"`
	Bad    string  `json:"bad,omitempty"` // malformed update: "float"|"neg"|"key"|"decimals"|"json"
}

type hist struct {
	Cfg   cfg    `json:"cfg"`
	Viper bool   `json:"viper"` // initial node created by faucetsc.InitConfig from the viper config
	Ops   []op   `json:"ops"`
	Note  string `json:"note,omitempty"`
}

var (
	ownerID   = encryption.Hash("verif faucet owner")
	fieldKeys = []string{"pour_amount", "max_pour_amount", "periodic_limit", "global_limit", "individual_reset", "global_rest"}
	coqFields = []string{"FPour", "FMax", "FPLimit", "FGLimit", "FIReset", "FGReset"}
	contract  smartcontractinterface.SmartContractInterface
)

func clientID(i int) string { return encryption.Hash(fmt.Sprintf("verif faucet client %d", i)) }

func zcnString(k uint64) string { return fmt.Sprintf("%d.%010d", k/10000000000, k%10000000000) }

type window struct {
	open  bool
	start int64
	sum   uint64
	over  bool // sum no longer fits uint64
}

func elapsed(now, start int64) time.Duration { return time.Unix(now, 0).Sub(time.Unix(start, 0)) }

func (w *window) add(a uint64) {
	s := w.sum + a
	if s < w.sum {
		w.over = true
	}
	w.sum = s
}

type result struct {
	outs  []string
	fails []string // every distinct violated statement of the history, in order of appearance
	kinds map[string]int
}

func (r *result) has(k string) bool {
	for _, f := range r.fails {
		if f == k {
			return true
		}
	}
	return false
}

func readGlobal(ctx *cstate.StateContext) *faucetsc.GlobalNode {
	gn := &faucetsc.GlobalNode{}
	if err := ctx.GetTrieNode(gn.GetKey(), gn); err != nil {
		panic(err)
	}
	return gn
}

// run executes the history on the real contract. The oracle recomputes the reset windows from the
// observed outcomes only (never from the contract's counters).
func run(h hist) result {
	res := result{kinds: map[string]int{}}
	mpt := sc.NewMPT()
	setup := sc.NewCtx(mpt, 1, sc.Txn(encryption.Hash("setup"), ownerID, faucetsc.ADDRESS, 0, 0))
	fc := &faucetsc.FaucetConfig{PourAmount: currency.Coin(h.Cfg.Pour), MaxPourAmount: currency.Coin(h.Cfg.Max),
		PeriodicLimit: currency.Coin(h.Cfg.PLimit), GlobalLimit: currency.Coin(h.Cfg.GLimit),
		IndividualReset: time.Duration(h.Cfg.IReset), GlobalReset: time.Duration(h.Cfg.GReset),
		OwnerId: ownerID, Cost: map[string]int{}}
	if h.Viper {
		v := viper.New()
		p := "smart_contracts.faucetsc."
		v.Set(p+"pour_amount", float64(h.Cfg.Pour)/1e10)
		v.Set(p+"max_pour_amount", float64(h.Cfg.Max)/1e10)
		v.Set(p+"periodic_limit", float64(h.Cfg.PLimit)/1e10)
		v.Set(p+"global_limit", float64(h.Cfg.GLimit)/1e10)
		v.Set(p+"individual_reset", time.Duration(h.Cfg.IReset))
		v.Set(p+"global_reset", time.Duration(h.Cfg.GReset))
		v.Set(p+"owner_id", ownerID)
		config.SmartContractConfig = v
		if err := faucetsc.InitConfig(setup); err != nil {
			panic(err)
		}
		got := readGlobal(setup)
		if uint64(got.PourAmount) != h.Cfg.Pour || uint64(got.MaxPourAmount) != h.Cfg.Max || uint64(got.PeriodicLimit) != h.Cfg.PLimit ||
			uint64(got.GlobalLimit) != h.Cfg.GLimit || int64(got.IndividualReset) != h.Cfg.IReset || int64(got.GlobalReset) != h.Cfg.GReset {
			panic(fmt.Sprintf("viper init produced another configuration: %+v vs %+v", got.FaucetConfig, h.Cfg))
		}
	} else {
		gn := &faucetsc.GlobalNode{FaucetConfig: fc, ID: faucetsc.ADDRESS}
		if _, err := setup.InsertTrieNode(gn.GetKey(), gn); err != nil {
			panic(err)
		}
	}
	clientW := map[int]*window{}
	globalW := &window{}
	// the property speaks about valid configurations (models.go validate); the initial node is never
	// validated by the contract, so histories that start from an invalid one are run and compared
	// with the model but not judged
	c := h.Cfg
	judged := c.Pour >= 1 && c.Pour <= c.Max && c.Max <= c.PLimit && c.PLimit <= c.GLimit && c.IReset >= sec && c.GReset >= c.IReset
	if !judged {
		res.kinds["history-with-invalid-initial-config"]++
	}
	setFail := func(k string) {
		if judged && !res.has(k) {
			res.fails = append(res.fails, k)
		}
	}
	for i, o := range h.Ops {
		sender := clientID(o.C)
		if o.K == "update" && o.Owner {
			sender = ownerID
		}
		txn := sc.Txn(encryption.Hash(fmt.Sprintf("txn %d", i)), sender, faucetsc.ADDRESS, o.V, o.T)
		ctx := sc.NewCtx(mpt, int64(i+2), txn)
		balOf := faucetsc.ADDRESS
		if o.K == "refill" {
			balOf = sender
		}
		if o.K != "update" {
			if o.Bal == nil {
				if _, err := mpt.Delete(util.Path(balOf)); err != nil && err != util.ErrValueNotPresent {
					panic(err)
				}
			} else {
				sc.SetBalance(ctx, balOf, *o.Bal)
			}
		}
		g := readGlobal(ctx) // configuration in force
		rootBefore := util.ToHex(mpt.GetRoot())
		var input []byte
		if o.K == "update" {
			m := map[string]string{}
			for _, f := range o.Fields {
				if f.F >= 4 {
					m[fieldKeys[f.F]] = fmt.Sprintf("%dns", int64(f.V))
				} else {
					m[fieldKeys[f.F]] = zcnString(f.V)
				}
			}
			switch o.Bad {
			case "float":
				m["pour_amount"] = "1x"
			case "neg":
				m["global_limit"] = "-1"
			case "key":
				m["pour_limit"] = "1"
			case "decimals":
				m["periodic_limit"] = "0.00000000001"
			}
			input, _ = json.Marshal(map[string]interface{}{"fields": m})
			if o.Bad == "json" {
				input = []byte("{fields")
			}
		}
		fn := map[string]string{"pour": "pour", "refill": "refill", "update": "update-settings"}[o.K]
		_, err := contract.Execute(txn, fn, input, ctx)
		transfers := ctx.GetTransfers()
		if err != nil {
			res.outs = append(res.outs, "FcFail")
			res.kinds[o.K+"-refused"]++
			// a refused request changes nothing (in the chain the whole transaction is dropped; the
			// contract itself must not have queued a transfer it did not account for)
			if util.ToHex(mpt.GetRoot()) != rootBefore {
				setFail("refused-request-changed-state")
			}
			continue
		}
		now := o.T
		// global window: opens at the first successful request at or after the end of the previous one
		if !globalW.open || elapsed(now, globalW.start) >= g.GlobalReset {
			*globalW = window{open: true, start: now}
		}
		switch o.K {
		case "update":
			res.outs = append(res.outs, "FcUpdated")
			res.kinds["update-ok"]++
			if len(transfers) != 0 {
				setFail("update-moved-tokens")
			}
		case "refill":
			if len(transfers) != 1 || transfers[0].ClientID != sender || transfers[0].ToClientID != faucetsc.ADDRESS {
				setFail("refill-wrong-transfer")
				res.outs = append(res.outs, "FcFail")
				continue
			}
			res.outs = append(res.outs, fmt.Sprintf("(FcRefilled %d)", uint64(transfers[0].Amount)))
			res.kinds["refill-ok"]++
			if uint64(transfers[0].Amount) > *o.Bal {
				setFail("refill-exceeds-client-balance")
			}
		case "pour":
			if len(transfers) != 1 || transfers[0].ClientID != faucetsc.ADDRESS || transfers[0].ToClientID != sender {
				setFail("pour-wrong-transfer")
				res.outs = append(res.outs, "FcFail")
				continue
			}
			a := uint64(transfers[0].Amount)
			res.outs = append(res.outs, fmt.Sprintf("(FcPoured %d)", a))
			res.kinds["pour-ok"]++
			trigger := o.V > uint64(g.PourAmount) && o.V < uint64(g.MaxPourAmount)
			if trigger {
				res.kinds["pour-ok-value-between-pour-and-max"]++
			}
			viol := func(k string) {
				if trigger {
					// the one known cause: limits/balance compared with pour_amount, requested value poured
					setFail("limit-checked-with-pour-amount-not-poured-value")
				} else {
					setFail(k)
				}
			}
			w := clientW[o.C]
			if w == nil || elapsed(now, w.start) >= g.IndividualReset {
				w = &window{open: true, start: now}
				clientW[o.C] = w
				res.kinds["client-window-opened"]++
			}
			w.add(a)
			globalW.add(a)
			if w.over || w.sum > uint64(g.PeriodicLimit) {
				viol("periodic-limit-exceeded")
			}
			if globalW.over || globalW.sum > uint64(g.GlobalLimit) {
				viol("global-limit-exceeded")
			}
			if o.Bal == nil || a > *o.Bal {
				viol("pour-exceeds-faucet-balance")
			}
			// the window the contract keeps for this client must have been restarted at exactly the instant
			// the configured individual_reset (a Duration with nanoseconds) ran out, not earlier or later
			un := &faucetsc.UserNode{ID: sender}
			if err := ctx.GetTrieNode(un.GetKey(faucetsc.ADDRESS), un); err == nil && un.StartTime.Unix() != w.start {
				setFail("window-reset-at-wrong-instant")
			}
		}
		// ... and the same for the global window and global_reset
		if g2 := readGlobal(ctx); g2.StartTime.Unix() != globalW.start {
			setFail("window-reset-at-wrong-instant")
		}
	}
	return res
}

func coqCfg(c cfg) string {
	return fmt.Sprintf("{| fc_pour := %d; fc_max := %d; fc_plimit := %d; fc_glimit := %d; fc_ireset := %s; fc_greset := %s |}",
		c.Pour, c.Max, c.PLimit, c.GLimit, vh.Z(c.IReset), vh.Z(c.GReset))
}

func coqBal(b *uint64) string {
	if b == nil {
		return "None"
	}
	return fmt.Sprintf("(Some %d)", *b)
}

func coqCase(h hist, outs []string) string {
	ops := make([]string, len(h.Ops))
	for i, o := range h.Ops {
		switch o.K {
		case "pour":
			ops[i] = fmt.Sprintf("FcPour %d %s %d %s", o.C, vh.Z(o.T), o.V, coqBal(o.Bal))
		case "refill":
			ops[i] = fmt.Sprintf("FcRefill %d %s %d %s", o.C, vh.Z(o.T), o.V, coqBal(o.Bal))
		default:
			fs := make([]string, len(o.Fields))
			for j, f := range o.Fields {
				v := fmt.Sprintf("%d", f.V)
				if f.F >= 4 {
					v = vh.Z(int64(f.V))
				}
				fs[j] = vh.Pair(coqFields[f.F], v)
			}
			ops[i] = fmt.Sprintf("FcUpdate %s %s %s %s", vh.Bool(o.Owner), vh.Z(o.T), vh.Bool(o.Bad == ""), vh.List(fs))
		}
	}
	return fmt.Sprintf("{| fcc_cfg := %s; fcc_ops := %s; fcc_outs := %s |}", coqCfg(h.Cfg), vh.List(ops), vh.List(outs))
}

const sec = int64(time.Second)

func u64p(v uint64) *uint64 { return &v }

func genCfg(r *vh.Rand, big bool) cfg {
	var c cfg
	if big {
		edges := []uint64{1 << 53, 1<<53 + 1, 1 << 62, 1<<63 - 1, 1 << 63, 1<<64 - 2, 1<<64 - 1, 4000000000000000000}
		c.Pour = r.PickU64(edges)
		c.Max = r.PickU64(edges)
		c.PLimit = r.PickU64(edges)
		c.GLimit = r.PickU64(edges)
		if r.Bool() { // make it a valid chain
			v := []uint64{c.Pour, c.Max, c.PLimit, c.GLimit}
			for i := 0; i < 4; i++ {
				for j := i + 1; j < 4; j++ {
					if v[j] < v[i] {
						v[i], v[j] = v[j], v[i]
					}
				}
			}
			c.Pour, c.Max, c.PLimit, c.GLimit = v[0], v[1], v[2], v[3]
		}
	} else {
		c.Pour = uint64(r.Range(1, 12))
		c.Max = c.Pour + uint64(r.Pick64([]int64{0, 0, 1, 2, 5, 30}))
		c.PLimit = c.Max + uint64(r.Range(0, 40))
		c.GLimit = c.PLimit + uint64(r.Range(0, 60))
		if r.Chance(1, 8) { // configurations validate would refuse (the initial one is never validated)
			switch r.Intn(4) {
			case 0:
				c.Pour = 0
			case 1:
				c.Max = c.Pour - 1
			case 2:
				c.PLimit = c.Max - 1
			default:
				c.GLimit = c.PLimit / 2
			}
		}
	}
	c.IReset = int64(r.Range(1, 30)) * sec
	c.GReset = c.IReset + int64(r.Range(0, 60))*sec
	if r.Bool() { // reset periods with a fractional second: the window ends between two transaction times
		c.IReset += r.Pick64([]int64{1, sec / 2, sec - 1, int64(r.Range(1, 999999999))})
		c.GReset += r.Pick64([]int64{0, sec / 2, sec - 1, int64(r.Range(1, 999999999))})
		if c.GReset < c.IReset {
			c.GReset = c.IReset
		}
	}
	if r.Chance(1, 10) {
		c.GReset = c.IReset - int64(r.Range(1, 2))*sec/2 // shorter global window (invalid)
	}
	if r.Chance(1, 20) {
		c.IReset = r.Pick64([]int64{0, -sec, sec - 1, 1<<63 - 1})
	}
	return c
}

func genHist(r *vh.Rand) hist {
	big := r.Chance(1, 8)
	h := hist{Cfg: genCfg(r, big)}
	if !big && r.Chance(1, 4) {
		h.Viper = true
	}
	cur := h.Cfg
	now := int64(r.Range(0, 2000000000))
	if r.Chance(1, 10) {
		now = r.Pick64([]int64{0, 1, 1 << 33, 1 << 40})
	}
	n := r.Range(2, 30)
	anchor := map[int]int64{} // the generator's idea of where each client's (3 = global) window started
	for i := 0; i < n; i++ {
		switch x := r.Intn(13); {
		case x >= 10: // land within a second of the end of some window
			k := r.Intn(4)
			if a, ok := anchor[k]; ok {
				per := cur.IReset
				if k == 3 {
					per = cur.GReset
				}
				now = a + per/sec + int64(r.Range(-1, 1))
			}
		case x < 6:
			now += int64(r.Range(0, int(cur.IReset/sec/3)+1))
		case x < 8:
			now += cur.IReset/sec + int64(r.Range(-1, 1))
		case x < 9:
			now += cur.GReset/sec + int64(r.Range(-1, 1))
		default:
			now -= int64(r.Range(1, 5)) // clocks of clients differ: creation dates are not monotone
		}
		if now < 0 {
			now = 0
		}
		switch x := r.Intn(20); {
		case x < 15:
			o := op{K: "pour", C: r.Intn(3), T: now}
			if a, ok := anchor[o.C]; !ok || time.Duration(now-a)*time.Second >= time.Duration(cur.IReset) {
				anchor[o.C] = now
			}
			if a, ok := anchor[3]; !ok || time.Duration(now-a)*time.Second >= time.Duration(cur.GReset) {
				anchor[3] = now
			}
			vals := []uint64{0, 0, 1, cur.Pour - 1, cur.Pour, cur.Pour, cur.Pour + 1, cur.Max - 1, cur.Max, cur.Max + 1, cur.PLimit, 1<<64 - 1, 1 << 63}
			o.V = r.PickU64(vals)
			if !big && r.Chance(1, 3) {
				o.V = uint64(r.Range(0, int(cur.Max)+1))
			}
			bals := []uint64{1 << 40, 1 << 40, 1 << 40, cur.Pour, cur.Pour - 1, cur.Pour + 1, cur.Max, 0, 1<<64 - 1, 4000000000000000000}
			o.Bal = u64p(r.PickU64(bals))
			if r.Chance(1, 25) {
				o.Bal = nil
			}
			h.Ops = append(h.Ops, o)
		case x < 17:
			o := op{K: "refill", C: r.Intn(3), T: now, V: uint64(r.Range(0, 50))}
			o.Bal = u64p(o.V + uint64(r.Range(-1, 3)))
			if o.V == 0 && *o.Bal > 10 {
				o.Bal = u64p(0)
			}
			if r.Chance(1, 8) {
				o.Bal = nil
			}
			h.Ops = append(h.Ops, o)
		default:
			o := op{K: "update", C: r.Intn(3), T: now, Owner: !r.Chance(1, 6)}
			nf := r.Range(0, 3)
			nc := cur
			used := map[int]bool{}
			for j := 0; j < nf; j++ {
				f := r.Intn(6)
				if used[f] {
					continue
				}
				used[f] = true
				var v uint64
				switch f {
				case 0:
					v = uint64(r.Range(0, 12))
					nc.Pour = v
				case 1:
					v = nc.Pour + uint64(r.Range(-1, 30))
					nc.Max = v
				case 2:
					v = nc.Max + uint64(r.Range(-1, 40))
					nc.PLimit = v
				case 3:
					v = nc.PLimit + uint64(r.Range(-1, 60))
					nc.GLimit = v
				case 4:
					v = uint64(int64(r.Range(0, 30))*sec + int64(r.Intn(2))*int64(r.Range(1, 999999999)))
					if r.Chance(1, 5) {
						v = uint64(sec - 1)
					}
					nc.IReset = int64(v)
				default:
					v = uint64(nc.IReset + int64(r.Range(-1, 60))*sec + int64(r.Intn(2))*int64(r.Range(1, 999999999)))
					nc.GReset = int64(v)
				}
				if f < 4 && v >= 1000000000000000 { // keep decimal strings within float64's exact digits
					v = 999999999999999
				}
				o.Fields = append(o.Fields, field{f, v})
			}
			if r.Chance(1, 6) {
				o.Bad = []string{"float", "neg", "key", "decimals", "json"}[r.Intn(5)]
			}
			h.Ops = append(h.Ops, o)
			// the generator only needs a rough idea of the configuration in force
			if o.Owner && o.Bad == "" && nc.Pour >= 1 && nc.Pour <= nc.Max && nc.Max <= nc.PLimit && nc.PLimit <= nc.GLimit && nc.IReset >= sec && nc.GReset >= nc.IReset {
				cur = nc
			}
		}
	}
	return h
}

func key(h hist) string {
	b, _ := json.Marshal(h)
	return string(b)
}

func sub(h hist, keep []int) hist {
	h2 := hist{Cfg: h.Cfg, Viper: h.Viper}
	for _, i := range keep {
		h2.Ops = append(h2.Ops, h.Ops[i])
	}
	return h2
}

func main() {
	o := vh.ParseFlags()
	sc.Init()
	contract = faucetsc.NewFaucetSmartContract()
	rep := vh.NewReport("faucet", "C17", o)
	rep.Rule = "random histories of 2-30 requests (75% pour, 10% refill, 15% update-settings) by 3 clients on the real faucetsc.Execute; " +
		"configurations small and mostly valid (1 in 8 invalid, 1 in 8 around 2^53/2^63/2^64/MaxTokenSupply), 1 in 4 created through InitConfig+viper; " +
		"requested values 0, 1, pour±1, max±1, limit, 2^63, 2^64-1; balances around pour_amount, 0, absent; timestamps step around " +
		"individual/global reset ±1 s, aim at the end of a running client/global window ±1 s, and sometimes go back; half of the reset periods have a fractional second; plus directed edge histories. non-trivial = at least two pours succeeded, " +
		"one request was refused and a client window was reopened or a refill/update succeeded; distinct by full history"
	cf := &vh.CasesFile{Imports: []string{"Base.Corr", "Model.Faucet", "Corr.Faucet"}, CaseType: "fc_case", CheckFn: "fc_check"}

	reported := map[string]bool{}
	handle := func(h hist) {
		res := run(h)
		for k, n := range res.kinds {
			rep.CountN(k, n)
		}
		nontriv := res.kinds["pour-ok"] >= 2 && (res.kinds["pour-refused"]+res.kinds["refill-refused"]+res.kinds["update-refused"] > 0) &&
			(res.kinds["client-window-opened"] > 1 || res.kinds["refill-ok"]+res.kinds["update-ok"] > 0)
		rep.Case(key(h), nontriv, h)
		cf.Add(coqCase(h, res.outs))
		rep.CaseInputs = append(rep.CaseInputs, h)
		for _, f := range res.fails {
			if reported[f] {
				continue
			}
			reported[f] = true
			f := f
			keep := vh.ShrinkIdx(len(h.Ops), func(keep []int) bool { r2 := run(sub(h, keep)); return r2.has(f) })
			h2 := sub(h, keep)
			desc := "faucet " + f
			if f == "limit-checked-with-pour-amount-not-poured-value" {
				desc = "a pour with pour_amount < requested value < max_pour_amount exceeded the periodic/global limit or the faucet balance: " +
					"validPourRequest compares pour_amount, pour moves the requested value"
			}
			rep.Violate("C17:"+f, desc, h2)
		}
	}
	finish := func() {
		files, err := cf.Write(o.Out, "C17")
		if err != nil {
			panic(err)
		}
		rep.CaseFiles = files
		rep.ShardSize = 400
		rep.Write(o.Out)
	}

	var rh hist
	if o.LoadReplay(&rh) {
		rep.Note("replay of one history")
		handle(rh)
		finish()
		return
	}
	// directed edge histories
	base := cfg{Pour: 10, Max: 100, PLimit: 100, GLimit: 100, IReset: 3600 * sec, GReset: 7200 * sec}
	handle(hist{Cfg: base, Note: "limits only", Ops: []op{{K: "pour", C: 1, T: 1000, V: 50, Bal: u64p(1000)}, {K: "pour", C: 1, T: 1001, V: 99, Bal: u64p(1000)}}})
	handle(hist{Cfg: base, Note: "Coq witness", Ops: []op{{K: "pour", C: 1, T: 1000, V: 50, Bal: u64p(50)}, {K: "pour", C: 1, T: 1001, V: 99, Bal: u64p(50)}}})
	plain := cfg{Pour: 10, Max: 10, PLimit: 30, GLimit: 50, IReset: 10 * sec, GReset: 20 * sec}
	for _, d := range []int64{9, 10, 11, 19, 20, 21} {
		var ops []op
		for k := 0; k < 4; k++ {
			ops = append(ops, op{K: "pour", C: 0, T: 100 + int64(k), V: 0, Bal: u64p(1000)})
		}
		ops = append(ops, op{K: "pour", C: 1, T: 104, V: 10, Bal: u64p(10)}, op{K: "pour", C: 1, T: 104, V: 10, Bal: u64p(9)},
			op{K: "pour", C: 0, T: 100 + d, V: 0, Bal: u64p(1000)}, op{K: "pour", C: 2, T: 100 + d, V: 10, Bal: u64p(1000)},
			op{K: "pour", C: 2, T: 100 + d + 1, V: 10, Bal: u64p(1000)}, op{K: "pour", C: 1, T: 100 + d + 1, V: 10, Bal: u64p(1000)})
		handle(hist{Cfg: plain, Note: fmt.Sprintf("window edge %d s", d), Ops: ops})
	}
	// a window of 10.5 s (global 20.25 s): transaction times are whole seconds, the window ends between 110 and 111
	frac := cfg{Pour: 10, Max: 10, PLimit: 30, GLimit: 50, IReset: 10*sec + sec/2, GReset: 20*sec + sec/4}
	handle(hist{Cfg: frac, Note: "fractional reset period", Ops: []op{{K: "pour", C: 0, T: 100, V: 0, Bal: u64p(1000)}, {K: "pour", C: 0, T: 105, V: 0, Bal: u64p(1000)},
		{K: "pour", C: 0, T: 110, V: 0, Bal: u64p(1000)}, {K: "pour", C: 0, T: 110, V: 0, Bal: u64p(1000)}, {K: "pour", C: 0, T: 111, V: 0, Bal: u64p(1000)},
		{K: "pour", C: 1, T: 120, V: 0, Bal: u64p(1000)}, {K: "pour", C: 1, T: 121, V: 0, Bal: u64p(1000)}}})
	top := uint64(1<<64 - 1)
	handle(hist{Cfg: cfg{Pour: top - 5, Max: top, PLimit: top, GLimit: top, IReset: sec, GReset: sec}, Note: "AddCoin overflow",
		Ops: []op{{K: "pour", C: 0, T: 5, V: 0, Bal: u64p(top)}, {K: "pour", C: 0, T: 5, V: 0, Bal: u64p(top)}, {K: "pour", C: 1, T: 5, V: 3, Bal: u64p(top)},
			{K: "pour", C: 1, T: 5, V: 3, Bal: u64p(top)}}})
	rnd := vh.NewRand(o.Seed).Fork() // Fork: NewRand(k) is NewRand(1) shifted by k-1 draws
	for i := 0; i < o.N(500, 6000); i++ {
		handle(genHist(rnd))
	}
	rep.Note("directed: the Coq refutation witness, window edges at individual/global reset -1/0/+1 s, AddCoin overflow at 2^64-1")
	finish()
}
