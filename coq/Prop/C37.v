(* C37: Round state transitions are monotone and never deadlock.
   Only statements; each is closed by [exact] of a lemma in Proof/RoundSM.v. *)
From ZC Require Import Model.RoundSM Proof.RoundSM Gen.RoundSections Proof.RoundSections.
Open Scope Z_scope.

(* The phase only moves forward, except through ResetPhase or a Restart that was accepted, which
   requires the phase to be before Share; in one step and between any two consecutive states of
   any history (both for the code as written and with the Restart repair). *)
Theorem C37_phase_forward_except_reset_or_restart :
  forall fx s o, sm_phase (fst (sm_step fx s o)) < sm_phase s ->
    (exists p, o = SmResetPhase p) \/ (o = SmRestart /\ sm_phase s < sm_Share).
Proof. exact sm_phase_forward. Qed.
Print Assumptions C37_phase_forward_except_reset_or_restart.

Theorem C37_phase_forward_history :
  forall fx ops s i a b o,
    nth_error (s :: map fst (sm_run fx s ops)) i = Some a ->
    nth_error (map fst (sm_run fx s ops)) i = Some b ->
    nth_error ops i = Some o -> sm_phase b < sm_phase a ->
    (exists p, o = SmResetPhase p) \/ (o = SmRestart /\ sm_phase a < sm_Share).
Proof. exact sm_phase_forward_history. Qed.
Print Assumptions C37_phase_forward_history.

(* "The timeout count never decreases", over every history. *)
Definition C37_timeout_full_statement : Prop := sm_timeout_never_decreases sm_as_written.

(* False of the code: SetTimeoutCount accepts a count above the configured cap and the next
   IncrementTimeoutCount lowers it to the cap (witness: cap 1, SetTimeoutCount 3, increment). *)
Theorem C37_timeout_never_decreases_refuted : ~ C37_timeout_full_statement.
Proof. exact sm_timeout_never_decreases_refuted. Qed.
Print Assumptions C37_timeout_never_decreases_refuted.

(* Outside the triggers (an increment while the count is above a positive cap; an increment at
   MaxInt64) no operation lowers the count ... *)
Theorem C37_timeout_step_partial :
  forall fx s o, - 2^63 <= sm_tcount s < 2^63 - 1 ->
    (forall prrs perm self cap, o = SmIncTimeout prrs perm self cap -> cap <= 0 \/ sm_tcount s <= cap) ->
    sm_tcount s <= sm_tcount (fst (sm_step fx s o)).
Proof. exact sm_timeout_step_partial. Qed.
Print Assumptions C37_timeout_step_partial.

(* ... and with a constant positive cap and SetTimeoutCount arguments within it, the counts of
   every history are nondecreasing and stay within the cap. *)
Theorem C37_timeout_monotone_within_cap :
  forall fx K number ops, 0 < K < 2^63 - 1 -> Forall (sm_op_cap_ok K) ops ->
    sm_nondecreasing 0 (sm_tcounts fx (sm_init number) ops) /\
    Forall (fun c => 0 <= c <= K) (sm_tcounts fx (sm_init number) ops).
Proof. exact sm_timeout_monotone_capped. Qed.
Print Assumptions C37_timeout_monotone_within_cap.

(* With the two timeout repairs (SetTimeoutCount clamps its argument to the cap; the increment
   stops at MaxInt64) and a constant cap (0 = none), the counts of every history never decrease. *)
Theorem C37_timeout_monotone_after_repair :
  forall fx K number ops, fx_clamp fx = true -> fx_saturate fx = true -> 0 <= K < 2^63 ->
    Forall (sm_op_cap_const K) ops ->
    sm_nondecreasing 0 (sm_tcounts fx (sm_init number) ops).
Proof. exact sm_timeout_monotone_repaired. Qed.
Print Assumptions C37_timeout_monotone_after_repair.

(* At most threshold-many VRF shares, at most one per miner, in every reachable state; an
   accepted AddVRFShare leaves at most [threshold] shares and was not a second share. *)
Theorem C37_shares_bounded_one_per_miner :
  forall fx T number ops, Forall (sm_op_thr_ok T) ops ->
    Forall (fun sr => NoDup (sm_shares (fst sr)) /\ Z.of_nat (length (sm_shares (fst sr))) <= Z.max T 0)
           (sm_run fx (sm_init number) ops).
Proof. exact sm_shares_bounded. Qed.
Print Assumptions C37_shares_bounded_one_per_miner.

Theorem C37_accepted_share_within_threshold :
  forall fx s party threshold,
    snd (sm_step fx s (SmAddShare party threshold)) = Ret (VBool true) ->
    Z.of_nat (length (sm_shares (fst (sm_step fx s (SmAddShare party threshold))))) <= threshold /\
    ~ In party (sm_shares s) /\ In party (sm_shares (fst (sm_step fx s (SmAddShare party threshold)))).
Proof. exact sm_add_share_within_threshold. Qed.
Print Assumptions C37_accepted_share_within_threshold.

(* "Every round operation returns", over every history of the code as written. *)
Definition C37_full_statement : Prop := sm_every_op_returns sm_as_written.

(* False: after AddNotarizedBlock (phase Share) a Restart is rejected and returns with the
   mutex still locked; the next operation that takes the mutex never returns. *)
Theorem C37_every_op_returns_refuted : ~ C37_full_statement.
Proof. exact sm_every_op_returns_refuted. Qed.
Print Assumptions C37_every_op_returns_refuted.

(* The rejected Restart itself returns; and as long as no Restart was rejected every operation
   of the history returns. *)
Theorem C37_rejected_restart_returns :
  forall fx s, sm_held s = false -> snd (sm_step fx s SmRestart) <> Blocked.
Proof. exact sm_rejected_restart_returns. Qed.
Print Assumptions C37_rejected_restart_returns.

Theorem C37_every_op_returns_partial :
  forall fx number ops,
    Forall (fun sr => snd sr <> Ret VRestartRejected) (sm_run fx (sm_init number) ops) ->
    sm_all_return fx number ops.
Proof. exact sm_all_return_partial. Qed.
Print Assumptions C37_every_op_returns_partial.

(* With the Unlock added on the rejected path the full statement holds. *)
Theorem C37_every_op_returns_after_repair : forall fx, fx_restart fx = true -> sm_every_op_returns fx.
Proof. exact sm_every_op_returns_repaired. Qed.
Print Assumptions C37_every_op_returns_after_repair.

(* A finalized round stays finalized under every operation except the unconditional
   ResetFinalizingState; the conditional reset leaves a finalized round untouched. *)
Theorem C37_finalized_stays_finalized :
  forall fx s o, sm_finalized s = true -> o <> SmResetFin ->
    sm_finalized (fst (sm_step fx s o)) = true.
Proof. exact sm_finalized_stays. Qed.
Print Assumptions C37_finalized_stays_finalized.

Theorem C37_conditional_reset_keeps_finalized :
  forall fx s, sm_finalized s = true -> fst (sm_step fx s SmResetFinIfNot) = s.
Proof. exact sm_conditional_reset_keeps_finalized. Qed.
Print Assumptions C37_conditional_reset_keeps_finalized.

(* Interleavings of setPhase (atomic load, then atomic store) by several threads:
   "the phase word never goes down" for every argument list and schedule. *)
Definition C37_concurrent_full_statement : Prop := cs_phase_forward false.

(* False as written: SetPhase(Share) and SetPhase(Verify) both load 0, Share is stored, then
   Verify overwrites it. *)
Theorem C37_lost_update_refuted : ~ C37_concurrent_full_statement.
Proof. exact cs_lost_update_refuted. Qed.
Print Assumptions C37_lost_update_refuted.

(* One thread at a time is fine as written; with a compare-and-swap loop it holds for any
   number of threads and any schedule. *)
Theorem C37_sequential_set_phase_partial :
  forall mem a, cs_nondecreasing mem (cs_run false mem (cs_threads [a]) [0; 0]%nat) = true.
Proof. exact cs_sequential_forward. Qed.
Print Assumptions C37_sequential_set_phase_partial.

Theorem C37_phase_forward_with_cas : cs_phase_forward true.
Proof. exact cs_phase_forward_cas. Qed.
Print Assumptions C37_phase_forward_with_cas.

(* Non-vacuity: a history exercising shares, the phase, a rejected restart and the leak. *)
Example C37_example :
  map snd (sm_run sm_as_written (sm_init 5)
    [SmAddShare 1 2; SmAddShare 1 2; SmAddShare 2 2; SmAddShare 3 2; SmSetPhase 1; SmRestart;
     SmGetShares; SmAddNotarized; SmGetPhase; SmSetTimeout 4 0; SmIncTimeout 9 [2; 1] 1 0; SmGetTimeout;
     SmSetFinalized; SmResetFinIfNot; SmIsFinalized; SmRestart; SmGetPhase; SmIsFinalized])
  = [Ret (VBool true); Ret (VBool false); Ret (VBool true); Ret (VBool false); Ret VUnit; Ret VUnit;
     Ret (VSet []); Ret VUnit; Ret (VInt 3); Ret (VBool true); Ret VUnit; Ret (VInt 5);
     Ret VUnit; Ret VUnit; Ret (VBool true); Ret VRestartRejected; Ret (VInt 3); Blocked].
Proof. vm_compute. reflexivity. Qed.

(* The compare-and-swap loop (load again after a failed swap) ends under fair scheduling: a
   thread that gets 2*(its phase - current phase)+2 turns has returned, whatever the other
   threads do in between - every failed swap means another thread moved the phase forward. *)
Theorem C37_cas_set_phase_terminates :
  forall args mem sched i a, nth_error args i = Some a ->
    (2 * cs_dist a mem + 2 <= count_occ Nat.eq_dec sched i)%nat ->
    exists t', nth_error (snd (cs_final true mem (cs_threads args) sched)) i = Some t' /\ cs_at t' = CsDone.
Proof. exact cs_cas_terminates. Qed.
Print Assumptions C37_cas_set_phase_terminates.

(* A loop that keeps the value loaded before the loop never returns once its swap failed:
   SetPhase(Verify) loads 0, SetPhase(Share) completes, and the first thread spins for good. *)
Theorem C37_stale_cas_loop_never_returns :
  forall n, nth_error (snd (cs_stale_final 0 (cs_threads [1; 3]) ([0; 1; 1]%nat ++ repeat 0%nat n))) 0%nat
            = Some {| cs_arg := 1; cs_at := CsLoaded 0 |}.
Proof. exact cs_stale_loop_spins. Qed.
Print Assumptions C37_stale_cas_loop_never_returns.

(* Restart's test and reset are one step under the mutex: in either order with a concurrent
   AddNotarizedBlock (and with a further Restart afterwards) the round ends at Share or later
   holding the notarized block. *)
Theorem C37_restart_atomic_keeps_notarized_round :
  forall phase,
    ra_safe (ra_run phase [RaCheck; RaAct; RaNotarize]) = true /\
    ra_safe (ra_run phase [RaNotarize; RaCheck; RaAct]) = true /\
    ra_safe (ra_run phase [RaCheck; RaAct; RaNotarize; RaCheck; RaAct]) = true.
Proof. exact ra_atomic_restart_safe. Qed.
Print Assumptions C37_restart_atomic_keeps_notarized_round.

(* A Restart that tests before taking the mutex is not safe: AddNotarizedBlock between test and
   reset is wiped and the phase drops from Share to ShareVRF. *)
Theorem C37_restart_check_then_act_refuted : ra_safe (ra_run 0 [RaCheck; RaNotarize; RaAct]) = false.
Proof. exact ra_check_then_act_refuted. Qed.
Print Assumptions C37_restart_check_then_act_refuted.

(* AddVRFShare's test and insert are one step under the mutex: whatever the order in which any
   number of miners' calls run, at most threshold shares are stored. *)
Theorem C37_add_vrf_share_atomic_bounded :
  forall threshold threads,
    (length (av_shares (av_run threshold (av_atomic_schedule threads))) <= threshold)%nat.
Proof. exact av_atomic_bounded. Qed.
Print Assumptions C37_add_vrf_share_atomic_bounded.

(* With the test in an earlier section than the insert two calls pass the test at threshold 1
   and both insert. *)
Theorem C37_add_vrf_share_split_refuted :
  length (av_shares (av_run 1 [AvCheck 0; AvCheck 1; AvInsert 0; AvInsert 1])) = 2%nat.
Proof. exact av_split_refuted. Qed.
Print Assumptions C37_add_vrf_share_split_refuted.

(* The source keeps them in one write-locked section (fact regenerated from entity.go every run
   by the roundsections translator); the same for Restart's test and reset. *)
Theorem C37_add_vrf_share_is_one_critical_section : rsec_add_vrf_share_atomic = true.
Proof. exact rsec_add_vrf_share_one_section. Qed.
Print Assumptions C37_add_vrf_share_is_one_critical_section.

Theorem C37_restart_is_one_critical_section : rsec_restart_atomic = true.
Proof. exact rsec_restart_one_section. Qed.
Print Assumptions C37_restart_is_one_critical_section.
