(* Lemmas for C16 (vesting), for every share function meeting [vs_share_spec]. *)
From ZC Require Import Model.Vesting.
Open Scope Z_scope.

Definition vs_two63 : Z := 9223372036854775808.
Definition vs_two62 : Z := 4611686018427387904.

(* What the proofs need from the share function, for remainders below [bound]:
   at the end it pays the whole remainder; inside the period it pays something between 0 and the
   remainder; a period before the last transfer is an error. *)
Record vs_share_spec (bound : Z) (share : vs_share_fn) : Prop := {
  ss_end : forall l p f, 0 <= l < bound -> share l p f true = Some l;
  ss_mid : forall l p f, 0 <= l < bound -> 0 <= p < f -> 1 <= f <= vs_two63 ->
           exists a, share l p f false = Some a /\ 0 <= a <= l;
  ss_neg : forall l p f, 0 <= l < bound -> - vs_two63 <= p < 0 -> 0 <= f <= vs_two63 ->
           share l p f false = None }.

(* never above the exact share of the period (needed only for the schedule theorem) *)
Definition vs_share_below_exact (share : vs_share_fn) : Prop :=
  forall l p f a, share l p f false = Some a -> a * f <= l * p.

Definition vs_rem (d : vs_dest) : Z := vd_amount d - vd_vested d.
Fixpoint vs_rem_sum (ds : list vs_dest) : Z :=
  match ds with [] => 0 | d :: tl => vs_rem d + vs_rem_sum tl end.
Fixpoint vs_tr_sum (tr : list (Z * Z * Z)) : Z :=
  match tr with [] => 0 | t :: tl => snd t + vs_tr_sum tl end.

Definition vs_dest_inv (bound S E : Z) (d : vs_dest) : Prop :=
  0 <= vd_vested d <= vd_amount d /\ vd_amount d < bound /\ S <= vd_move d <= E.

Definition vs_inv (bound : Z) (p : vs_pool) : Prop :=
  0 <= vp_balance p < vs_two64 /\
  0 <= vp_start p <= vp_expire p /\ vp_expire p <= vs_two62 /\
  Forall (vs_dest_inv bound (vp_start p) (vp_expire p)) (vp_dests p) /\
  vs_rem_sum (vp_dests p) <= vp_balance p.

Definition vs_st_inv (bound : Z) (st : option vs_pool) : Prop :=
  match st with Some p => vs_inv bound p | None => True end.

(* Go typing of a request plus the range of this development: amounts below [bound],
   timestamps within [0, 2^61] *)
Definition vs_op_wf (bound : Z) (o : vs_op) : Prop :=
  match o with
  | VsAdd _ now value bal start dur dests =>
      0 <= now <= 2 ^ 61 /\ 0 <= start <= 2 ^ 61 /\ 0 <= dur < vs_two63 /\ 0 <= value < vs_two64 /\
      Forall (fun ia => 0 <= snd ia < bound) dests
  | _ => True
  end.

Section Generic.
Variable bound : Z.
Variable share : vs_share_fn.
Hypothesis Hbound : 0 < bound <= vs_two64.
Hypothesis Hspec : vs_share_spec bound share.

Lemma vs_rem_sum_nonneg : forall S E ds, Forall (vs_dest_inv bound S E) ds -> 0 <= vs_rem_sum ds.
Proof.
  induction 1 as [|d tl Hd _ IH]; cbn [vs_rem_sum]; [lia|].
  unfold vs_dest_inv, vs_rem in *. lia.
Qed.

(* destination.unlock on a destination in range, at a clamped time *)
Lemma vs_unlock_spec : forall S E d now a d',
  0 <= S <= E -> E <= vs_two62 -> vs_dest_inv bound S E d -> S <= now <= E ->
  vs_unlock share d now E = Some (a, d') ->
  0 <= a <= vs_rem d /\ vs_dest_inv bound S E d' /\ vs_rem d' = vs_rem d - a /\
  vd_id d' = vd_id d /\ vd_amount d' = vd_amount d /\ vd_vested d' = vd_vested d + a /\
  (now = E -> a = vs_rem d) /\ (vd_move d' = vd_move d \/ vd_move d' = now) /\
  (a = 0 -> vd_move d' = vd_move d) /\ (0 < a -> vd_move d' = now) /\ vd_move d <= now.
Proof.
  intros S E d now a d' HSE HE Hd Hnow H.
  destruct Hd as ((Hv0 & Hva) & Hab & Hm). unfold vs_unlock in H.
  unfold vs_minus_coin in H. destruct (vd_amount d <? vd_vested d) eqn:E1; [apply Z.ltb_lt in E1; lia|].
  set (l := vd_amount d - vd_vested d) in *.
  assert (Hl : 0 <= l < bound) by (unfold l; lia).
  assert (Hshare : exists a0, share l (now - vd_move d) (E - vd_move d) (now =? E) = Some a0 /\
                              0 <= a0 <= l /\ (now = E -> a0 = l) /\ vd_move d <= now).
  { destruct (now =? E) eqn:E2.
    - apply Z.eqb_eq in E2. exists l. rewrite (ss_end _ _ Hspec) by exact Hl.
      repeat split; try lia.
    - apply Z.eqb_neq in E2. destruct (Z_lt_le_dec (now - vd_move d) 0) as [Hneg|Hpos].
      + rewrite (ss_neg _ _ Hspec) in H; [discriminate|exact Hl| |]; unfold vs_two63, vs_two62 in *; lia.
      + destruct (ss_mid _ _ Hspec l (now - vd_move d) (E - vd_move d)) as (a0 & Ha0 & Hr);
          [exact Hl|lia|unfold vs_two63, vs_two62 in *; lia|].
        exists a0. repeat split; try lia. exact Ha0. }
  destruct Hshare as (a0 & Ha0 & Hr & Hend & Hmv). rewrite Ha0 in H.
  destruct (0 <? a0) eqn:E3.
  - apply Z.ltb_lt in E3. unfold vs_add_coin in H.
    destruct (vd_vested d + a0 <? vs_two64) eqn:E4; [|apply Z.ltb_ge in E4; unfold l in *; lia].
    inversion H; subst a d'. clear H. unfold vs_dest_inv, vs_rem. cbn [vd_id vd_amount vd_vested vd_move].
    fold l. repeat split; lia.
  - apply Z.ltb_ge in E3. inversion H; subst a d'. clear H. unfold vs_dest_inv, vs_rem. cbn [vd_id vd_amount vd_vested vd_move].
    fold l. assert (a0 = 0) by lia. subst a0. repeat split; lia.
Qed.

(* ... and it cannot fail once the clock is not behind the last transfer *)
Lemma vs_unlock_total : forall S E d now,
  0 <= S <= E -> E <= vs_two62 -> vs_dest_inv bound S E d -> S <= now <= E -> vd_move d <= now ->
  exists a d', vs_unlock share d now E = Some (a, d').
Proof.
  intros S E d now HSE HE Hd Hnow Hmv.
  destruct Hd as ((Hv0 & Hva) & Hab & Hm). unfold vs_unlock, vs_minus_coin.
  destruct (vd_amount d <? vd_vested d) eqn:E1; [apply Z.ltb_lt in E1; lia|].
  set (l := vd_amount d - vd_vested d).
  assert (Hl : 0 <= l < bound) by (unfold l; lia).
  assert (Hshare : exists a0, share l (now - vd_move d) (E - vd_move d) (now =? E) = Some a0 /\ 0 <= a0 <= l).
  { destruct (now =? E) eqn:E2.
    - exists l. rewrite (ss_end _ _ Hspec) by exact Hl. split; [reflexivity|lia].
    - apply Z.eqb_neq in E2.
      apply (ss_mid _ _ Hspec); [exact Hl|lia|unfold vs_two63, vs_two62 in *; lia]. }
  destruct Hshare as (a0 & Ha0 & Hr). rewrite Ha0.
  destruct (0 <? a0); [|eauto]. unfold vs_add_coin.
  destruct (vd_vested d + a0 <? vs_two64) eqn:E4; [eauto|]. apply Z.ltb_ge in E4. unfold l in *. lia.
Qed.

Lemma vs_trigger_loop_spec : forall S E now ds bal b2 ds2 tr,
  0 <= S <= E -> E <= vs_two62 -> S <= now <= E ->
  Forall (vs_dest_inv bound S E) ds -> vs_rem_sum ds <= bal ->
  vs_trigger_loop share ds bal now E = Some (b2, ds2, tr) ->
  Forall (vs_dest_inv bound S E) ds2 /\ b2 = bal - vs_tr_sum tr /\
  vs_rem_sum ds2 = vs_rem_sum ds - vs_tr_sum tr /\ 0 <= vs_tr_sum tr /\
  (now = E -> vs_rem_sum ds2 = 0) /\ length ds2 = length ds /\
  Forall (fun t => fst (fst t) = vs_contract /\ 0 < snd t) tr.
Proof.
  intros S E now ds. induction ds as [|d tl IH]; intros bal b2 ds2 tr HSE HE Hnow Hds Hsum H.
  - cbn in H. inversion H; subst. cbn. repeat split; auto; lia.
  - inversion Hds as [|? ? Hd Htl]; subst. cbn [vs_trigger_loop] in H. cbn [vs_rem_sum] in Hsum.
    destruct (vs_unlock share d now E) as [[a d']|] eqn:EU; [|discriminate].
    destruct (vs_unlock_spec _ _ _ _ _ _ HSE HE Hd Hnow EU) as (Ha & Hd' & Hrem & _ & _ & _ & Hend & _).
    pose proof (vs_rem_sum_nonneg _ _ _ Htl) as Hnn.
    destruct (a =? 0) eqn:EA.
    + apply Z.eqb_eq in EA. subst a.
      destruct (vs_trigger_loop share tl bal now E) as [[[b3 ds3] tr3]|] eqn:EL; [|discriminate].
      destruct (IH bal b3 ds3 tr3 HSE HE Hnow Htl ltac:(lia) EL) as (I1 & I2 & I3 & I4 & I5 & I6 & I7).
      inversion H; subst. clear H.
      cbn [vs_rem_sum length]. repeat split; auto; lia.
    + apply Z.eqb_neq in EA. destruct (bal <? a) eqn:EB; [discriminate|]. apply Z.ltb_ge in EB.
      destruct (vs_trigger_loop share tl (bal - a) now E) as [[[b3 ds3] tr3]|] eqn:EL; [|discriminate].
      destruct (IH (bal - a) b3 ds3 tr3 HSE HE Hnow Htl ltac:(lia) EL) as (I1 & I2 & I3 & I4 & I5 & I6 & I7).
      inversion H; subst. clear H.
      cbn [vs_rem_sum vs_tr_sum length snd fst]. repeat split; auto; try lia.
      constructor; [cbn; split; [reflexivity|lia]|exact I7].
Qed.

Lemma vs_trigger_loop_total : forall S E now ds bal,
  0 <= S <= E -> E <= vs_two62 -> S <= now <= E ->
  Forall (vs_dest_inv bound S E) ds -> vs_rem_sum ds <= bal ->
  Forall (fun d => vd_move d <= now) ds ->
  vs_trigger_loop share ds bal now E <> None.
Proof.
  intros S E now ds. induction ds as [|d tl IH]; intros bal HSE HE Hnow Hds Hsum Hmv; [cbn; discriminate|].
  inversion Hds as [|? ? Hd Htl]; subst. inversion Hmv as [|? ? Hm Hmtl]; subst.
  cbn [vs_trigger_loop]. cbn [vs_rem_sum] in Hsum.
  destruct (vs_unlock_total _ _ _ _ HSE HE Hd Hnow Hm) as (a & d' & EU). rewrite EU.
  destruct (vs_unlock_spec _ _ _ _ _ _ HSE HE Hd Hnow EU) as (Ha & _).
  pose proof (vs_rem_sum_nonneg _ _ _ Htl) as Hnn.
  destruct (a =? 0).
  - specialize (IH bal HSE HE Hnow Htl ltac:(lia) Hmtl).
    destruct (vs_trigger_loop share tl bal now E) as [[[? ?] ?]|]; [discriminate|contradiction].
  - destruct (bal <? a) eqn:EB; [apply Z.ltb_lt in EB; lia|].
    specialize (IH (bal - a) HSE HE Hnow Htl ltac:(lia) Hmtl).
    destruct (vs_trigger_loop share tl (bal - a) now E) as [[[? ?] ?]|]; [discriminate|contradiction].
Qed.

Lemma vs_clamp_range : forall p now, vp_start p <= vp_expire p -> vp_start p <= vs_clamp p now <= vp_expire p.
Proof.
  intros p now H. unfold vs_clamp.
  destruct (vp_expire p <? now) eqn:E1; [lia|]. apply Z.ltb_ge in E1.
  destruct (now <? vp_start p) eqn:E2; [lia|]. apply Z.ltb_ge in E2. lia.
Qed.

Lemma vs_need_exact : forall S E ds, Forall (vs_dest_inv bound S E) ds -> vs_rem_sum ds < vs_two64 ->
  vs_need ds = Some (vs_rem_sum ds).
Proof.
  induction 1 as [|d tl Hd Htl IH]; intros Hlt; [reflexivity|].
  cbn [vs_need vs_rem_sum] in *. pose proof (vs_rem_sum_nonneg _ _ _ Htl).
  destruct Hd as ((Hv0 & Hva) & Hab & Hm). unfold vs_rem in *.
  rewrite IH by lia. unfold vs_minus_coin.
  destruct (vd_amount d <? vd_vested d) eqn:E1; [apply Z.ltb_lt in E1; lia|].
  unfold vs_add_coin. destruct (_ <? vs_two64) eqn:E2; [f_equal; lia|apply Z.ltb_ge in E2; lia].
Qed.

(* the owner's withdrawal: exactly the excess, refused only when there is none *)
Lemma vs_drain_spec : forall p, vs_inv bound p ->
  vs_pool_drain p =
  if vp_balance p - vs_rem_sum (vp_dests p) =? 0 then None
  else Some (vs_set_balance p (vs_rem_sum (vp_dests p)),
             [(vs_contract, vp_owner p, vp_balance p - vs_rem_sum (vp_dests p))]).
Proof.
  intros p (Hb & Ht & HE & Hds & Hsum). unfold vs_pool_drain, vs_excess.
  pose proof (vs_rem_sum_nonneg _ _ _ Hds) as Hnn.
  rewrite (vs_need_exact _ _ _ Hds) by lia.
  rewrite Z.mod_small by (unfold vs_two64 in *; lia).
  destruct (_ =? 0) eqn:E0; [reflexivity|].
  destruct (vp_balance p <? _) eqn:E1; [apply Z.ltb_lt in E1; lia|].
  f_equal. f_equal. f_equal. lia.
Qed.

Lemma vs_find_in : forall id ds d, vs_find id ds = Some d -> In d ds /\ vd_id d = id.
Proof.
  induction ds as [|x tl IH]; intros d H; [discriminate|]. cbn [vs_find] in H.
  destruct (vd_id x =? id) eqn:E.
  - inversion H; subst. split; [left; reflexivity|apply Z.eqb_eq; exact E].
  - destruct (IH _ H). split; [right; assumption|assumption].
Qed.

Lemma vs_replace_first_spec : forall S E id d d' ds,
  Forall (vs_dest_inv bound S E) ds -> vs_find id ds = Some d -> vs_dest_inv bound S E d' ->
  Forall (vs_dest_inv bound S E) (vs_replace_first id d' ds) /\
  vs_rem_sum (vs_replace_first id d' ds) = vs_rem_sum ds - vs_rem d + vs_rem d' /\
  length (vs_replace_first id d' ds) = length ds.
Proof.
  intros S E id d d' ds. induction ds as [|x tl IH]; intros Hds Hf Hd'; [discriminate|].
  inversion Hds as [|? ? Hx Htl]; subst. cbn [vs_find vs_replace_first] in *.
  destruct (vd_id x =? id).
  - inversion Hf; subst. cbn [vs_rem_sum length]. repeat split; [constructor; assumption|lia].
  - destruct (IH Htl Hf Hd') as (I1 & I2 & I3). cbn [vs_rem_sum length].
    repeat split; [constructor; assumption|lia|lia].
Qed.

Lemma vs_filter_spec : forall S E (f : vs_dest -> bool) ds,
  Forall (vs_dest_inv bound S E) ds ->
  Forall (vs_dest_inv bound S E) (filter f ds) /\ vs_rem_sum (filter f ds) <= vs_rem_sum ds.
Proof.
  intros S E f ds. induction 1 as [|x tl Hx Htl IH]; [split; [constructor|cbn; lia]|].
  destruct IH as [I1 I2]. cbn [filter vs_rem_sum]. destruct (f x); cbn [vs_rem_sum].
  - split; [constructor; assumption|lia].
  - split; [assumption|]. destruct Hx as ((? & ?) & _). unfold vs_rem. lia.
Qed.

(* vestingPool.vest *)
Lemma vs_vest_spec : forall p dest now, vs_inv bound p ->
  match vs_pool_vest share p dest now with
  | VestOk p' tr =>
      vs_inv bound p' /\ vp_start p' = vp_start p /\ vp_expire p' = vp_expire p /\ vp_owner p' = vp_owner p /\
      exists d a, vs_find dest (vp_dests p) = Some d /\ tr = [(vs_contract, dest, a)] /\ 0 < a <= vs_rem d /\
                  vp_balance p' = vp_balance p - a /\
                  vs_rem_sum (vp_dests p') = vs_rem_sum (vp_dests p) - a /\
                  (vp_expire p <= now -> a = vs_rem d)
  | VestZero p' =>
      vs_inv bound p' /\ vp_start p' = vp_start p /\ vp_expire p' = vp_expire p /\ vp_owner p' = vp_owner p /\
      vp_balance p' = vp_balance p /\ vs_rem_sum (vp_dests p') = vs_rem_sum (vp_dests p) /\
      exists d, vs_find dest (vp_dests p) = Some d /\ (vp_expire p <= now -> vs_rem d = 0)
  | VestErr => True
  end.
Proof.
  intros p dest now (Hb & Ht & HE & Hds & Hsum). unfold vs_pool_vest.
  destruct (vs_find dest (vp_dests p)) as [d|] eqn:EF; [|exact I].
  destruct (vs_find_in _ _ _ EF) as [Hin Hid].
  assert (Hd : vs_dest_inv bound (vp_start p) (vp_expire p) d) by (rewrite Forall_forall in Hds; auto).
  pose proof (vs_clamp_range p now ltac:(lia)) as Hc.
  destruct (vs_unlock share d (vs_clamp p now) (vp_expire p)) as [[a d']|] eqn:EU; [|exact I].
  destruct (vs_unlock_spec _ _ _ _ _ _ Ht HE Hd Hc EU) as (Ha & Hd' & Hrem & _ & _ & _ & Hend & _).
  destruct (vs_replace_first_spec _ _ _ _ _ _ Hds EF Hd') as (R1 & R2 & R3).
  assert (Hcl : vp_expire p <= now -> vs_clamp p now = vp_expire p).
  { intros Hn. unfold vs_clamp. destruct (vp_expire p <? now) eqn:E1; [reflexivity|].
    apply Z.ltb_ge in E1. destruct (now <? vp_start p) eqn:E2; [apply Z.ltb_lt in E2; lia|lia]. }
  assert (Hrd : vs_rem d <= vs_rem_sum (vp_dests p)).
  { clear -Hin Hds. induction Hds as [|x tl Hx Htl IH]; [contradiction|]. cbn [vs_rem_sum].
    pose proof (vs_rem_sum_nonneg _ _ _ Htl). destruct Hx as ((? & ?) & _).
    destruct Hin as [->|Hin]; [lia|]. specialize (IH Hin). unfold vs_rem in *. lia. }
  destruct (a =? 0) eqn:EA.
  - apply Z.eqb_eq in EA. subst a. unfold vs_inv, vs_set_dests. cbn [vp_balance vp_start vp_expire vp_dests vp_owner].
    repeat split; auto; try lia. exists d. split; [reflexivity|]. intros Hn. specialize (Hend (Hcl Hn)). lia.
  - apply Z.eqb_neq in EA. destruct (vp_balance p <? a) eqn:EB; [exact I|]. apply Z.ltb_ge in EB.
    unfold vs_inv, vs_set_dests, vs_set_balance. cbn [vp_balance vp_start vp_expire vp_dests vp_owner].
    repeat split; auto; try lia.
    exists d, a. repeat split; auto; try lia; try (intros Hn; apply Hend, Hcl, Hn).
Qed.

(* vestingPool.trigger *)
Lemma vs_pool_trigger_spec : forall p now p' tr, vs_inv bound p ->
  vs_pool_trigger share p now = Some (p', tr) ->
  vs_inv bound p' /\ vp_start p' = vp_start p /\ vp_expire p' = vp_expire p /\ vp_owner p' = vp_owner p /\
  vp_balance p' = vp_balance p - vs_tr_sum tr /\ 0 <= vs_tr_sum tr /\
  vs_rem_sum (vp_dests p') = vs_rem_sum (vp_dests p) - vs_tr_sum tr /\
  (vp_expire p <= now -> vs_rem_sum (vp_dests p') = 0).
Proof.
  intros p now p' tr (Hb & Ht & HE & Hds & Hsum) H. unfold vs_pool_trigger in H.
  destruct (vp_balance p =? 0); [discriminate|].
  pose proof (vs_clamp_range p now ltac:(lia)) as Hc.
  destruct (vs_trigger_loop share (vp_dests p) (vp_balance p) (vs_clamp p now) (vp_expire p)) as [[[b ds] tr0]|] eqn:EL; [|discriminate].
  inversion H; subst p' tr. clear H.
  destruct (vs_trigger_loop_spec _ _ _ _ _ _ _ _ Ht HE Hc Hds Hsum EL) as (L1 & L2 & L3 & L4 & L5 & L6 & L7).
  pose proof (vs_rem_sum_nonneg _ _ _ L1) as Hnn.
  unfold vs_inv, vs_set_dests, vs_set_balance. cbn [vp_balance vp_start vp_expire vp_dests vp_owner].
  repeat split; auto; try lia.
  intros Hn. apply L5. unfold vs_clamp. destruct (vp_expire p <? now) eqn:E1; [reflexivity|].
  apply Z.ltb_ge in E1. destruct (now <? vp_start p) eqn:E2; [apply Z.ltb_lt in E2; lia|lia].
Qed.

Lemma vs_want_spec : forall dests w, vs_want dests = Some w ->
  Forall (fun ia => 0 <= snd ia < bound) dests ->
  w = fold_right (fun ia acc => snd ia + acc) 0 dests /\ 0 <= w < vs_two64.
Proof.
  induction dests as [|[i a] tl IH]; intros w H Hwf.
  - inversion H; subst. cbn. unfold vs_two64. lia.
  - inversion Hwf as [|? ? Ha Htl]; subst. cbn [vs_want] in H.
    destruct (vs_want tl) as [w0|]; [|discriminate]. destruct (IH _ eq_refl Htl) as [I1 I2].
    unfold vs_add_coin in H. destruct (w0 + a <? vs_two64) eqn:E; [|discriminate].
    apply Z.ltb_lt in E. inversion H; subst. cbn [fold_right snd] in *. lia.
Qed.

(* every request keeps the pool invariant *)
Lemma vs_step_inv : forall conf st o, vs_st_inv bound st -> vs_op_wf bound o ->
  vs_st_inv bound (fst (vs_step share conf st o)).
Proof.
  intros conf st o Hst Hwf. destruct o as [client now value bal start dur dests|client now|client now|client now dest|client now];
    destruct st as [p|]; cbn [vs_step fst]; try exact Hst; try exact I.
  - (* add *)
    cbn [vs_op_wf] in Hwf. destruct Hwf as (Hn & Hs & Hd & Hv & Hds).
    set (start' := if start =? 0 then now else start).
    destruct (_ || _ || _ || _ || _) eqn:EC; [exact I|].
    destruct (vs_want dests) as [want|] eqn:EW; [|exact I].
    destruct ((value <? want) || (value <? vc_min_lock conf)) eqn:EV; [exact I|].
    destruct bal as [b|]; [|exact I].
    destruct ((b <? value) || (value =? 0)) eqn:EB; [exact I|].
    cbn [fst vs_st_inv]. apply orb_false_iff in EV. destruct EV as [EV _]. apply Z.ltb_ge in EV.
    destruct (vs_want_spec _ _ EW Hds) as [Hw Hwr].
    assert (Hst' : 0 <= start' <= 2 ^ 61) by (unfold start'; destruct (start =? 0); lia).
    assert (Hq : 0 <= Z.quot dur vs_second < 2 ^ 61).
    { unfold vs_second, vs_two63 in *. split; [apply Z.quot_pos; lia|].
      apply Z.quot_lt_upper_bound; lia. }
    unfold vs_inv. cbn [vp_balance vp_start vp_expire vp_dests vp_owner].
    repeat split; try (unfold vs_two62; lia).
    + rewrite Forall_map. rewrite Forall_forall in Hds |- *. intros ia Hia. specialize (Hds ia Hia).
      unfold vs_dest_inv. cbn [vd_vested vd_amount vd_move]. lia.
    + assert (vs_rem_sum (map (fun ia => {| vd_id := fst ia; vd_amount := snd ia; vd_vested := 0; vd_last := start'; vd_move := start' |}) dests) = want).
      { rewrite Hw. clear. induction dests as [|x tl IH]; [reflexivity|]. cbn [map vs_rem_sum fold_right]. rewrite IH.
        unfold vs_rem. cbn. lia. }
      lia.
  - (* trigger *)
    destruct (negb (client =? vp_owner p) || (Z.of_nat (length (vp_dests p)) =? 0)); [exact Hst|].
    destruct (vs_pool_trigger share p now) as [[p' tr]|] eqn:ET; [|exact Hst].
    cbn [fst vs_st_inv]. apply (vs_pool_trigger_spec _ _ _ _ Hst ET).
  - (* unlock *)
    destruct (client =? vp_owner p).
    + rewrite (vs_drain_spec _ Hst). destruct (_ =? 0) eqn:E0; [exact Hst|]. cbn [fst vs_st_inv].
      destruct Hst as (Hb & Ht & HE & Hds & Hsum). pose proof (vs_rem_sum_nonneg _ _ _ Hds).
      unfold vs_inv, vs_set_balance. cbn [vp_balance vp_start vp_expire vp_dests vp_owner].
      repeat split; auto; lia.
    + pose proof (vs_vest_spec p client now Hst) as HV.
      destruct (vs_pool_vest share p client now) as [p' tr|p'|]; try exact Hst.
      cbn [fst vs_st_inv]. apply HV.
  - (* stop *)
    destruct (negb (client =? vp_owner p) || (vp_expire p <? now)); [exact Hst|].
    pose proof (vs_vest_spec p dest now Hst) as HV.
    destruct (vs_pool_vest share p dest now) as [p' tr|p'|]; try exact Hst; cbn [fst vs_st_inv].
    + destruct HV as ((Hb & Ht & HE & Hds & Hsum) & _).
      destruct (vs_filter_spec _ _ (fun d => negb (vd_id d =? dest)) _ Hds) as [F1 F2].
      unfold vs_inv, vs_set_dests. cbn [vp_balance vp_start vp_expire vp_dests vp_owner]. repeat split; auto; lia.
    + destruct HV as ((Hb & Ht & HE & Hds & Hsum) & _).
      destruct (vs_filter_spec _ _ (fun d => negb (vd_id d =? dest)) _ Hds) as [F1 F2].
      unfold vs_inv, vs_set_dests. cbn [vp_balance vp_start vp_expire vp_dests vp_owner]. repeat split; auto; lia.
  - (* delete *)
    destruct (negb (client =? vp_owner p)); [exact Hst|].
    destruct (if 0 <? vp_balance p then vs_pool_trigger share p now else Some (p, [])) as [[p1 tr1]|]; [|exact Hst].
    destruct (if 0 <? vp_balance (vs_set_dests p1 []) then vs_pool_drain (vs_set_dests p1 []) else Some (vs_set_dests p1 [], [])) as [[p2 tr2]|];
      [exact I|exact Hst].
Qed.

Lemma vs_run_cons : forall conf st o tl,
  vs_run share conf st (o :: tl) =
  (fst (vs_run share conf (fst (vs_step share conf st o)) tl),
   snd (vs_step share conf st o) :: snd (vs_run share conf (fst (vs_step share conf st o)) tl)).
Proof.
  intros. cbn [vs_run]. destruct (vs_step share conf st o) as [st1 out]. cbn [fst snd].
  destruct (vs_run share conf st1 tl); reflexivity.
Qed.

Lemma vs_run_inv : forall conf ops st, vs_st_inv bound st -> Forall (vs_op_wf bound) ops ->
  vs_st_inv bound (fst (vs_run share conf st ops)).
Proof.
  induction ops as [|o tl IH]; intros st Hst Hwf; [exact Hst|].
  inversion Hwf; subst. rewrite vs_run_cons. cbn [fst]. apply IH; [apply vs_step_inv; assumption|assumption].
Qed.

Lemma vs_tr_sum_app : forall a b, vs_tr_sum (a ++ b) = vs_tr_sum a + vs_tr_sum b.
Proof. induction a as [|x tl IH]; intros b; cbn [app vs_tr_sum]; [lia|rewrite IH; lia]. Qed.

(* the owner can always delete the pool once the clock is not behind the last transfer: the
   request succeeds, the pool is gone and everything it held has been paid out *)
Lemma vs_delete_spec : forall conf p now, vs_inv bound p ->
  Forall (fun d => vd_move d <= vs_clamp p now) (vp_dests p) ->
  exists tr, vs_step share conf (Some p) (VsDelete (vp_owner p) now) = (None, VsOk tr) /\
             vs_tr_sum tr = vp_balance p.
Proof.
  intros conf p now Hinv Hmv. cbn [vs_step]. rewrite Z.eqb_refl. cbn [negb].
  destruct Hinv as (Hb & Ht & HE & Hds & Hsum).
  assert (Hinv : vs_inv bound p) by (repeat split; auto; lia).
  pose proof (vs_clamp_range p now ltac:(lia)) as Hc.
  assert (HT : exists p1 tr1, (if 0 <? vp_balance p then vs_pool_trigger share p now else Some (p, [])) = Some (p1, tr1) /\
                vs_inv bound p1 /\ vp_owner p1 = vp_owner p /\ vp_balance p1 = vp_balance p - vs_tr_sum tr1).
  { destruct (0 <? vp_balance p) eqn:E0.
    - apply Z.ltb_lt in E0. unfold vs_pool_trigger.
      destruct (vp_balance p =? 0) eqn:E1; [apply Z.eqb_eq in E1; lia|].
      pose proof (vs_trigger_loop_total _ _ _ _ _ Ht HE Hc Hds Hsum Hmv) as Htot.
      destruct (vs_trigger_loop share (vp_dests p) (vp_balance p) (vs_clamp p now) (vp_expire p)) as [[[b ds] tr0]|] eqn:EL; [|contradiction].
      eexists _, tr0. split; [reflexivity|].
      assert (ET : vs_pool_trigger share p now = Some (vs_set_dests (vs_set_balance p b) ds, tr0)).
      { unfold vs_pool_trigger. rewrite E1, EL. reflexivity. }
      destruct (vs_pool_trigger_spec _ _ _ _ Hinv ET) as (I1 & _ & _ & I4 & I5 & _). auto.
    - exists p, []. cbn [vs_tr_sum]. repeat split; auto; lia. }
  destruct HT as (p1 & tr1 & HT & Hinv1 & Hown1 & Hbal1). rewrite HT.
  set (p2 := vs_set_dests p1 []).
  assert (Hinv2 : vs_inv bound p2).
  { destruct Hinv1 as (B1 & T1 & E1 & D1 & S1). unfold p2, vs_inv, vs_set_dests. cbn [vp_balance vp_start vp_expire vp_dests vp_owner vs_rem_sum].
    repeat split; auto; try lia. }
  destruct (0 <? vp_balance p2) eqn:E2.
  - apply Z.ltb_lt in E2. rewrite (vs_drain_spec _ Hinv2). unfold p2 at 1 2. cbn [vs_set_dests vp_dests vp_balance vs_rem_sum].
    unfold p2 in E2. cbn [vs_set_dests vp_balance] in E2.
    destruct (vp_balance p1 - 0 =? 0) eqn:E3; [apply Z.eqb_eq in E3; lia|].
    eexists. split; [reflexivity|]. rewrite vs_tr_sum_app. cbn [vs_tr_sum snd]. unfold p2. cbn [vs_set_dests vp_balance vp_dests vs_rem_sum]. lia.
  - apply Z.ltb_ge in E2. unfold p2 in E2. cbn [vs_set_dests vp_balance] in E2.
    destruct Hinv1 as (B1 & _). eexists. split; [reflexivity|]. rewrite vs_tr_sum_app. cbn [vs_tr_sum]. lia.
Qed.

(* the owner can always withdraw the excess: refused only when there is none *)
Lemma vs_owner_unlock_spec : forall conf p now, vs_inv bound p ->
  let excess := vp_balance p - vs_rem_sum (vp_dests p) in
  vs_step share conf (Some p) (VsUnlock (vp_owner p) now) =
  if excess =? 0 then (Some p, VsFail)
  else (Some (vs_set_balance p (vs_rem_sum (vp_dests p))), VsOk [(vs_contract, vp_owner p, excess)]).
Proof.
  intros conf p now Hinv excess. cbn [vs_step]. rewrite Z.eqb_refl. rewrite (vs_drain_spec _ Hinv).
  fold excess. destruct (excess =? 0); reflexivity.
Qed.

Lemma vs_find_replace_first : forall id d' ds, vs_find id ds <> None -> vd_id d' = id ->
  vs_find id (vs_replace_first id d' ds) = Some d'.
Proof.
  induction ds as [|x tl IH]; intros Hf Hid; [contradiction|]. cbn [vs_find vs_replace_first] in *.
  destruct (vd_id x =? id) eqn:E; cbn [vs_find].
  - rewrite Hid, Z.eqb_refl. reflexivity.
  - rewrite E. apply IH; assumption.
Qed.

Lemma vs_rem_le_sum : forall S E d ds, Forall (vs_dest_inv bound S E) ds -> In d ds -> vs_rem d <= vs_rem_sum ds.
Proof.
  intros S E d ds Hds Hin. induction Hds as [|x tl Hx Htl IH]; [contradiction|]. cbn [vs_rem_sum].
  pose proof (vs_rem_sum_nonneg _ _ _ Htl). destruct Hx as ((? & ?) & _).
  destruct Hin as [->|Hin]; [lia|]. specialize (IH Hin). unfold vs_rem in *. lia.
Qed.

(* by expiry a destination can receive exactly its amount: its unlock at/after expiry succeeds,
   pays exactly the remainder and leaves vested = amount *)
Lemma vs_dest_unlock_at_expiry : forall conf p c now d, vs_inv bound p ->
  c <> vp_owner p -> vp_expire p <= now -> vs_find c (vp_dests p) = Some d -> 0 < vs_rem d ->
  exists p' d', vs_step share conf (Some p) (VsUnlock c now) = (Some p', VsOk [(vs_contract, c, vs_rem d)]) /\
    vs_find c (vp_dests p') = Some d' /\ vd_vested d' = vd_amount d' /\ vd_amount d' = vd_amount d /\
    vp_balance p' = vp_balance p - vs_rem d.
Proof.
  intros conf p c now d Hinv Hc Hnow EF Hrem. cbn [vs_step].
  destruct (c =? vp_owner p) eqn:EO; [apply Z.eqb_eq in EO; contradiction|].
  destruct Hinv as (Hb & Ht & HE & Hds & Hsum).
  destruct (vs_find_in _ _ _ EF) as [Hin Hid].
  assert (Hd : vs_dest_inv bound (vp_start p) (vp_expire p) d) by (rewrite Forall_forall in Hds; auto).
  assert (Hcl : vs_clamp p now = vp_expire p).
  { unfold vs_clamp. destruct (vp_expire p <? now) eqn:E1; [reflexivity|].
    apply Z.ltb_ge in E1. destruct (now <? vp_start p) eqn:E2; [apply Z.ltb_lt in E2; lia|lia]. }
  unfold vs_pool_vest. rewrite EF, Hcl.
  assert (HcE : vp_start p <= vp_expire p <= vp_expire p) by lia.
  destruct (vs_unlock_total _ _ _ _ Ht HE Hd HcE ltac:(destruct Hd as (_ & _ & ?); lia)) as (a & d' & EU).
  rewrite EU.
  destruct (vs_unlock_spec _ _ _ _ _ _ Ht HE Hd HcE EU) as (Ha & Hd' & Hr' & Hid' & Ham' & Hv' & Hend & _).
  specialize (Hend eq_refl). subst a.
  pose proof (vs_rem_le_sum _ _ _ _ Hds Hin) as Hle.
  destruct (vs_rem d =? 0) eqn:E0; [apply Z.eqb_eq in E0; lia|].
  destruct (vp_balance p <? vs_rem d) eqn:EB; [apply Z.ltb_lt in EB; lia|].
  eexists _, d'. split; [reflexivity|]. cbn [vs_set_balance vs_set_dests vp_dests vp_balance].
  split; [apply vs_find_replace_first; [rewrite EF; discriminate|lia]|].
  unfold vs_rem in *. repeat split; lia.
Qed.

End Generic.

(* ---------- vested never decreases: holds for every share function ---------- *)

Definition vs_dest_le (d d' : vs_dest) : Prop :=
  vd_id d' = vd_id d /\ vd_amount d' = vd_amount d /\ vd_vested d <= vd_vested d'.
Definition vs_dests_mono (ds ds' : list vs_dest) : Prop :=
  forall d', In d' ds' -> exists d, In d ds /\ vs_dest_le d d'.

Lemma vs_unlock_mono : forall share d now e a d', vs_unlock share d now e = Some (a, d') -> vs_dest_le d d'.
Proof.
  intros share d now e a d' H. unfold vs_unlock in H.
  destruct (vs_minus_coin _ _); [|discriminate]. destruct (share _ _ _ _) as [a0|]; [|discriminate].
  destruct (0 <? a0) eqn:E.
  - apply Z.ltb_lt in E. unfold vs_add_coin in H. destruct (_ <? vs_two64); [|discriminate].
    inversion H; subst. unfold vs_dest_le. cbn. lia.
  - inversion H; subst. unfold vs_dest_le. cbn. lia.
Qed.

Lemma vs_trigger_loop_mono : forall share now e ds bal b2 ds2 tr,
  vs_trigger_loop share ds bal now e = Some (b2, ds2, tr) -> vs_dests_mono ds ds2.
Proof.
  intros share now e ds. induction ds as [|d tl IH]; intros bal b2 ds2 tr H.
  - cbn in H. inversion H; subst. intros d' [].
  - cbn [vs_trigger_loop] in H. destruct (vs_unlock share d now e) as [[a d1]|] eqn:EU; [|discriminate].
    pose proof (vs_unlock_mono _ _ _ _ _ _ EU) as Hm.
    destruct (a =? 0).
    + destruct (vs_trigger_loop share tl bal now e) as [[[b3 ds3] tr3]|] eqn:EL; [|discriminate].
      inversion H; subst. intros d' [<-|Hin]; [exists d; split; [left; reflexivity|exact Hm]|].
      destruct (IH _ _ _ _ EL d' Hin) as (d0 & Hd0 & Hle). exists d0. split; [right; exact Hd0|exact Hle].
    + destruct (bal <? a); [discriminate|].
      destruct (vs_trigger_loop share tl (bal - a) now e) as [[[b3 ds3] tr3]|] eqn:EL; [|discriminate].
      inversion H; subst. intros d' [<-|Hin]; [exists d; split; [left; reflexivity|exact Hm]|].
      destruct (IH _ _ _ _ EL d' Hin) as (d0 & Hd0 & Hle). exists d0. split; [right; exact Hd0|exact Hle].
Qed.

Lemma vs_dest_le_refl : forall d, vs_dest_le d d.
Proof. intros d. unfold vs_dest_le. lia. Qed.

Lemma vs_replace_first_mono : forall id d d' ds, vs_find id ds = Some d -> vs_dest_le d d' ->
  vs_dests_mono ds (vs_replace_first id d' ds).
Proof.
  intros id d d' ds. induction ds as [|x tl IH]; intros Hf Hle; [discriminate|].
  cbn [vs_find vs_replace_first] in *. destruct (vd_id x =? id).
  - inversion Hf; subst. intros y [<-|Hin]; [exists d; split; [left; reflexivity|exact Hle]|].
    exists y. split; [right; exact Hin|apply vs_dest_le_refl].
  - intros y [<-|Hin]; [exists x; split; [left; reflexivity|apply vs_dest_le_refl]|].
    destruct (IH Hf Hle y Hin) as (d0 & Hd0 & H0). exists d0. split; [right; exact Hd0|exact H0].
Qed.

Lemma vs_vest_mono : forall share p dest now,
  match vs_pool_vest share p dest now with
  | VestOk p' _ | VestZero p' => vs_dests_mono (vp_dests p) (vp_dests p')
  | VestErr => True
  end.
Proof.
  intros share p dest now. unfold vs_pool_vest.
  destruct (vs_find dest (vp_dests p)) as [d|] eqn:EF; [|exact I].
  destruct (vs_unlock share d (vs_clamp p now) (vp_expire p)) as [[a d']|] eqn:EU; [|exact I].
  pose proof (vs_replace_first_mono _ _ _ _ EF (vs_unlock_mono _ _ _ _ _ _ EU)) as Hm.
  destruct (a =? 0); [exact Hm|]. destruct (vp_balance p <? a); [exact I|exact Hm].
Qed.

Lemma vs_filter_mono : forall (f : vs_dest -> bool) ds ds0, vs_dests_mono ds0 ds -> vs_dests_mono ds0 (filter f ds).
Proof. intros f ds ds0 H d' Hin. apply filter_In in Hin. apply H, Hin. Qed.

(* vested tokens of a destination never decrease, whatever the request and the share function *)
Lemma vs_step_mono : forall share conf p o p',
  fst (vs_step share conf (Some p) o) = Some p' -> vs_dests_mono (vp_dests p) (vp_dests p').
Proof.
  intros share conf p o p' H.
  assert (Hrefl : forall q, vs_dests_mono (vp_dests q) (vp_dests q)).
  { intros q d' Hin. exists d'. split; [exact Hin|apply vs_dest_le_refl]. }
  destruct o as [client now value bal start dur dests|client now|client now|client now dest|client now]; cbn [vs_step fst] in H.
  - inversion H; subst. apply Hrefl.
  - destruct (negb _ || _); [inversion H; subst; apply Hrefl|].
    destruct (vs_pool_trigger share p now) as [[p1 tr]|] eqn:ET; cbn [fst] in H; [|inversion H; subst; apply Hrefl].
    inversion H; subst. unfold vs_pool_trigger in ET. destruct (vp_balance p =? 0); [discriminate|].
    destruct (vs_trigger_loop _ _ _ _ _) as [[[b ds] tr0]|] eqn:EL; [|discriminate].
    inversion ET; subst. cbn [vs_set_dests vp_dests]. eapply vs_trigger_loop_mono; eauto.
  - destruct (client =? vp_owner p).
    + unfold vs_pool_drain in H. destruct (vs_excess p) as [over|]; [|inversion H; subst; apply Hrefl].
      destruct (over =? 0); [inversion H; subst; apply Hrefl|].
      destruct (vp_balance p <? over); cbn [fst] in H; inversion H; subst; cbn [vs_set_balance vp_dests]; apply Hrefl.
    + pose proof (vs_vest_mono share p client now) as HV.
      destruct (vs_pool_vest share p client now) as [p1 tr|p1|]; cbn [fst] in H; inversion H; subst; auto.
  - destruct (negb _ || _); [inversion H; subst; apply Hrefl|].
    pose proof (vs_vest_mono share p dest now) as HV.
    destruct (vs_pool_vest share p dest now) as [p1 tr|p1|]; cbn [fst] in H; inversion H; subst; auto;
      cbn [vs_set_dests vp_dests]; apply vs_filter_mono; exact HV.
  - destruct (negb _); [inversion H; subst; apply Hrefl|].
    destruct (if 0 <? vp_balance p then _ else _) as [[p1 tr1]|]; [|inversion H; subst; apply Hrefl].
    destruct (if 0 <? vp_balance (vs_set_dests p1 []) then _ else _) as [[p2 tr2]|]; cbn [fst] in H; [discriminate|].
    inversion H; subst; apply Hrefl.
Qed.

(* ---------- never ahead of the linear schedule: needs a share function that never pays more
   than the exact share of the period ---------- *)
Definition vs_on_schedule (S E : Z) (d : vs_dest) : Prop :=
  vd_vested d * (E - S) <= vd_amount d * (vd_move d - S).

Definition vs_st_sched (st : option vs_pool) : Prop :=
  match st with Some p => Forall (vs_on_schedule (vp_start p) (vp_expire p)) (vp_dests p) | None => True end.

Section Schedule.
Variable bound : Z.
Variable share : vs_share_fn.
Hypothesis Hbound : 0 < bound <= vs_two64.
Hypothesis Hspec : vs_share_spec bound share.
Hypothesis Hbelow : vs_share_below_exact share.

Lemma vs_unlock_sched : forall S E d now a d',
  0 <= S <= E -> E <= vs_two62 -> vs_dest_inv bound S E d -> S <= now <= E -> vs_on_schedule S E d ->
  vs_unlock share d now E = Some (a, d') -> vs_on_schedule S E d'.
Proof.
  intros S E d now a d' HSE HE Hd Hnow Hon EU.
  destruct (vs_unlock_spec bound share Hbound Hspec _ _ _ _ _ _ HSE HE Hd Hnow EU)
    as (Ha & _ & _ & _ & Ham & Hv & Hend & _ & Hm0 & Hm1 & Hmn).
  unfold vs_on_schedule in *. rewrite Ham, Hv.
  destruct (Z.eq_dec a 0) as [->|Hne].
  - rewrite (Hm0 eq_refl). replace (vd_vested d + 0) with (vd_vested d) by lia. exact Hon.
  - rewrite (Hm1 ltac:(lia)). destruct Hd as ((Hv0 & Hva) & Hab & Hm). unfold vs_rem in *.
    destruct (Z.eq_dec now E) as [->|HnE].
    + specialize (Hend eq_refl). apply Z.mul_le_mono_nonneg_r; lia.
    + assert (Hex : a * (E - vd_move d) <= (vd_amount d - vd_vested d) * (now - vd_move d)).
      { unfold vs_unlock in EU. unfold vs_minus_coin in EU.
        destruct (vd_amount d <? vd_vested d); [discriminate|].
        assert (En : (now =? E) = false) by (apply Z.eqb_neq; exact HnE). rewrite En in EU.
        destruct (share _ _ _ false) as [a0|] eqn:ES; [|discriminate].
        pose proof (Hbelow _ _ _ _ ES) as HB.
        destruct (0 <? a0) eqn:E0.
        - unfold vs_add_coin in EU. destruct (_ <? vs_two64); [|discriminate]. inversion EU; subst. exact HB.
        - inversion EU; subst. lia. }
      set (v := vd_vested d) in *. set (A := vd_amount d) in *. set (m := vd_move d) in *.
      assert (Hf : 0 < E - m) by lia.
      apply Z.mul_le_mono_pos_r with (p := E - m); [exact Hf|].
      assert (T1 : a * (E - m) * (E - S) <= (A - v) * (now - m) * (E - S)) by (apply Z.mul_le_mono_nonneg_r; lia).
      assert (T2 : v * (E - S) * (E - m - (now - m)) <= A * (m - S) * (E - m - (now - m))) by (apply Z.mul_le_mono_nonneg_r; lia).
      nia.
Qed.

Lemma vs_trigger_loop_sched : forall S E now ds bal b2 ds2 tr,
  0 <= S <= E -> E <= vs_two62 -> S <= now <= E ->
  Forall (vs_dest_inv bound S E) ds -> Forall (vs_on_schedule S E) ds ->
  vs_trigger_loop share ds bal now E = Some (b2, ds2, tr) -> Forall (vs_on_schedule S E) ds2.
Proof.
  intros S E now ds. induction ds as [|d tl IH]; intros bal b2 ds2 tr HSE HE Hnow Hds Hon H.
  - cbn in H. inversion H; subst. constructor.
  - inversion Hds as [|? ? Hd Htl]; subst. inversion Hon as [|? ? Hod Hotl]; subst.
    cbn [vs_trigger_loop] in H.
    destruct (vs_unlock share d now E) as [[a d1]|] eqn:EU; [|discriminate].
    pose proof (vs_unlock_sched _ _ _ _ _ _ HSE HE Hd Hnow Hod EU) as Hd1.
    destruct (a =? 0).
    + destruct (vs_trigger_loop share tl bal now E) as [[[b3 ds3] tr3]|] eqn:EL; [|discriminate].
      pose proof (IH _ _ _ _ HSE HE Hnow Htl Hotl EL). inversion H; subst. constructor; assumption.
    + destruct (bal <? a); [discriminate|].
      destruct (vs_trigger_loop share tl (bal - a) now E) as [[[b3 ds3] tr3]|] eqn:EL; [|discriminate].
      pose proof (IH _ _ _ _ HSE HE Hnow Htl Hotl EL). inversion H; subst. constructor; assumption.
Qed.

Lemma vs_replace_first_forall : forall (P : vs_dest -> Prop) id d' ds,
  Forall P ds -> P d' -> Forall P (vs_replace_first id d' ds).
Proof.
  intros P id d' ds H Hd'. induction H as [|x tl Hx Htl IH]; [constructor|].
  cbn [vs_replace_first]. destruct (vd_id x =? id); constructor; assumption.
Qed.

Lemma vs_filter_forall : forall (P : vs_dest -> Prop) f ds, Forall P ds -> Forall P (filter f ds).
Proof.
  intros P f ds H. rewrite Forall_forall in *. intros x Hx. apply filter_In in Hx. apply H, Hx.
Qed.

Lemma vs_vest_sched : forall p dest now, vs_inv bound p -> vs_st_sched (Some p) ->
  match vs_pool_vest share p dest now with
  | VestOk p' _ | VestZero p' => vs_st_sched (Some p') /\ vp_start p' = vp_start p /\ vp_expire p' = vp_expire p
  | VestErr => True
  end.
Proof.
  intros p dest now (Hb & Ht & HE & Hds & Hsum) Hon. cbn [vs_st_sched] in Hon. unfold vs_pool_vest.
  destruct (vs_find dest (vp_dests p)) as [d|] eqn:EF; [|exact I].
  destruct (vs_find_in _ _ _ EF) as [Hin _].
  assert (Hd : vs_dest_inv bound (vp_start p) (vp_expire p) d) by (rewrite Forall_forall in Hds; auto).
  assert (Hod : vs_on_schedule (vp_start p) (vp_expire p) d) by (rewrite Forall_forall in Hon; auto).
  pose proof (vs_clamp_range p now ltac:(lia)) as Hc.
  destruct (vs_unlock share d (vs_clamp p now) (vp_expire p)) as [[a d']|] eqn:EU; [|exact I].
  pose proof (vs_unlock_sched _ _ _ _ _ _ Ht HE Hd Hc Hod EU) as Hd'.
  pose proof (vs_replace_first_forall _ dest d' _ Hon Hd') as HR.
  destruct (a =? 0); [cbn; auto|]. destruct (vp_balance p <? a); [exact I|cbn; auto].
Qed.

Lemma vs_step_sched : forall conf st o, vs_st_inv bound st -> vs_st_sched st -> vs_op_wf bound o ->
  vs_st_sched (fst (vs_step share conf st o)).
Proof.
  intros conf st o Hst Hon Hwf.
  destruct o as [client now value bal start dur dests|client now|client now|client now dest|client now];
    destruct st as [p|]; cbn [vs_step fst]; try exact Hon; try exact I.
  - set (start' := if start =? 0 then now else start).
    destruct (_ || _ || _ || _ || _); [exact I|].
    destruct (vs_want dests) as [want|]; [|exact I].
    destruct ((value <? want) || (value <? vc_min_lock conf)); [exact I|].
    destruct bal as [b|]; [|exact I].
    destruct ((b <? value) || (value =? 0)); [exact I|].
    cbn [fst vs_st_sched vp_dests vp_start vp_expire]. rewrite Forall_map. rewrite Forall_forall. intros ia _.
    unfold vs_on_schedule. cbn [vd_vested vd_amount vd_move]. lia.
  - destruct (negb _ || _); [exact Hon|].
    destruct (vs_pool_trigger share p now) as [[p' tr]|] eqn:ET; [|exact Hon].
    cbn [fst]. unfold vs_pool_trigger in ET. destruct (vp_balance p =? 0); [discriminate|].
    destruct (vs_trigger_loop _ _ _ _ _) as [[[b ds] tr0]|] eqn:EL; [|discriminate].
    inversion ET; subst. cbn [vs_st_sched vs_set_dests vs_set_balance vp_dests vp_start vp_expire].
    destruct Hst as (Hb & Ht & HE & Hds & Hsum).
    eapply vs_trigger_loop_sched; eauto. apply vs_clamp_range. lia.
  - destruct (client =? vp_owner p).
    + unfold vs_pool_drain. destruct (vs_excess p) as [over|]; [|exact Hon].
      destruct (over =? 0); [exact Hon|]. destruct (vp_balance p <? over); exact Hon.
    + pose proof (vs_vest_sched p client now Hst Hon) as HV.
      destruct (vs_pool_vest share p client now) as [p' tr|p'|]; try exact Hon. cbn [fst]. apply HV.
  - destruct (negb _ || _); [exact Hon|].
    pose proof (vs_vest_sched p dest now Hst Hon) as HV.
    destruct (vs_pool_vest share p dest now) as [p' tr|p'|]; try exact Hon; cbn [fst];
      destruct HV as (HV & HS & HE); cbn [vs_st_sched vs_set_dests vp_dests vp_start vp_expire] in *;
      apply vs_filter_forall; exact HV.
  - destruct (negb _); [exact Hon|].
    destruct (if 0 <? vp_balance p then _ else _) as [[p1 tr1]|]; [|exact Hon].
    destruct (if 0 <? vp_balance (vs_set_dests p1 []) then _ else _) as [[p2 tr2]|]; [exact I|exact Hon].
Qed.

Lemma vs_run_sched : forall conf ops st, vs_st_inv bound st -> vs_st_sched st -> Forall (vs_op_wf bound) ops ->
  vs_st_sched (fst (vs_run share conf st ops)).
Proof.
  induction ops as [|o tl IH]; intros st Hst Hon Hwf; [exact Hon|].
  inversion Hwf; subst. rewrite vs_run_cons. cbn [fst].
  apply IH; [apply (vs_step_inv bound share Hbound Hspec); assumption|apply vs_step_sched; assumption|assumption].
Qed.

End Schedule.

(* ---------- instances ---------- *)

(* the share computed in integers: what destination.unlock computes *)
Notation vs_share_exact := vs_share_int.

Lemma vs_share_exact_spec : vs_share_spec vs_two64 vs_share_exact.
Proof.
  split; unfold vs_share_int.
  - reflexivity.
  - intros l p f Hl Hp Hf. destruct (p <? 0) eqn:E1; [apply Z.ltb_lt in E1; lia|].
    destruct (f <=? p) eqn:E2; [apply Z.leb_le in E2; lia|]. cbn [orb].
    eexists. split; [reflexivity|]. split.
    + apply Z.div_pos; nia.
    + apply Z.div_le_upper_bound; nia.
  - intros l p f Hl Hp Hf. destruct (p <? 0) eqn:E1; [reflexivity|apply Z.ltb_ge in E1; lia].
Qed.

Lemma vs_share_exact_below : vs_share_below_exact vs_share_exact.
Proof.
  intros l p f a H. unfold vs_share_int in H.
  destruct (p <? 0) eqn:E1; [discriminate|]. destruct (f <=? p) eqn:E2; [discriminate|].
  cbn [orb] in H. inversion H; subst. apply Z.leb_gt in E2. apply Z.ltb_ge in E1.
  rewrite Z.mul_comm. apply Z.mul_div_le. lia.
Qed.

Lemma vs_bound64 : 0 < vs_two64 <= vs_two64.
Proof. unfold vs_two64. lia. Qed.

(* the full statement for the integer share *)
Definition vs_full_statement (share : vs_share_fn) : Prop :=
  forall conf ops, Forall (vs_op_wf vs_two64) ops ->
    vs_st_inv vs_two64 (fst (vs_run share conf None ops)) /\ vs_st_sched (fst (vs_run share conf None ops)).

Lemma vs_exact_full : vs_full_statement vs_share_exact.
Proof.
  intros conf ops Hwf. split.
  - exact (vs_run_inv _ _ vs_bound64 vs_share_exact_spec conf ops None I Hwf).
  - exact (vs_run_sched _ _ vs_bound64 vs_share_exact_spec vs_share_exact_below conf ops None I I Hwf).
Qed.

Lemma vs_exact_rights :
  (forall conf p now, vs_inv vs_two64 p ->
     Forall (fun d => vd_move d <= vs_clamp p now) (vp_dests p) ->
     exists tr, vs_step vs_share_exact conf (Some p) (VsDelete (vp_owner p) now) = (None, VsOk tr) /\
                vs_tr_sum tr = vp_balance p) /\
  (forall conf p c now d, vs_inv vs_two64 p ->
     c <> vp_owner p -> vp_expire p <= now -> vs_find c (vp_dests p) = Some d -> 0 < vs_rem d ->
     exists p' d', vs_step vs_share_exact conf (Some p) (VsUnlock c now) = (Some p', VsOk [(vs_contract, c, vs_rem d)]) /\
       vs_find c (vp_dests p') = Some d' /\ vd_vested d' = vd_amount d' /\ vd_amount d' = vd_amount d /\
       vp_balance p' = vp_balance p - vs_rem d) /\
  (forall conf p now, vs_inv vs_two64 p ->
     let excess := vp_balance p - vs_rem_sum (vp_dests p) in
     vs_step vs_share_exact conf (Some p) (VsUnlock (vp_owner p) now) =
     if excess =? 0 then (Some p, VsFail)
     else (Some (vs_set_balance p (vs_rem_sum (vp_dests p))), VsOk [(vs_contract, vp_owner p, excess)])).
Proof.
  split; [|split].
  - exact (vs_delete_spec _ _ vs_bound64 vs_share_exact_spec).
  - exact (vs_dest_unlock_at_expiry _ _ vs_bound64 vs_share_exact_spec).
  - exact (vs_owner_unlock_spec vs_two64 vs_share_exact).
Qed.

(* the owner's trigger cannot be refused on a pool that holds tokens and destinations once the
   clock is not behind the last transfer *)
Lemma vs_owner_trigger_total : forall bound share, 0 < bound <= vs_two64 -> vs_share_spec bound share ->
  forall conf p now, vs_inv bound p -> vp_dests p <> [] -> 0 < vp_balance p ->
  Forall (fun d => vd_move d <= vs_clamp p now) (vp_dests p) ->
  exists p' tr, vs_step share conf (Some p) (VsTrigger (vp_owner p) now) = (Some p', VsOk tr) /\
                vp_balance p' = vp_balance p - vs_tr_sum tr.
Proof.
  intros bound share Hb Hs conf p now Hinv Hne Hbal Hmv. cbn [vs_step]. rewrite Z.eqb_refl. cbn [negb orb].
  destruct (Z.of_nat (length (vp_dests p)) =? 0) eqn:E0.
  { apply Z.eqb_eq in E0. destruct (vp_dests p); [contradiction|cbn in E0; lia]. }
  pose proof Hinv as (B & Ht & HE & Hds & Hsum).
  pose proof (vs_clamp_range p now ltac:(lia)) as Hc.
  unfold vs_pool_trigger. destruct (vp_balance p =? 0) eqn:E1; [apply Z.eqb_eq in E1; lia|].
  pose proof (vs_trigger_loop_total bound share Hb Hs _ _ _ _ _ Ht HE Hc Hds Hsum Hmv) as Htot.
  destruct (vs_trigger_loop share (vp_dests p) (vp_balance p) (vs_clamp p now) (vp_expire p)) as [[[b ds] tr0]|] eqn:EL; [|contradiction].
  destruct (vs_trigger_loop_spec bound share Hb Hs _ _ _ _ _ _ _ _ Ht HE Hc Hds Hsum EL) as (_ & L2 & _).
  eexists _, tr0. split; [reflexivity|]. cbn [vs_set_dests vs_set_balance vp_balance]. exact L2.
Qed.

Lemma vs_exact_trigger : forall conf p now, vs_inv vs_two64 p -> vp_dests p <> [] -> 0 < vp_balance p ->
  Forall (fun d => vd_move d <= vs_clamp p now) (vp_dests p) ->
  exists p' tr, vs_step vs_share_int conf (Some p) (VsTrigger (vp_owner p) now) = (Some p', VsOk tr) /\
                vp_balance p' = vp_balance p - vs_tr_sum tr.
Proof. exact (vs_owner_trigger_total _ _ vs_bound64 vs_share_exact_spec). Qed.
