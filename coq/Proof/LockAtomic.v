(* Generic lemma: operations whose whole body runs under one mutex are atomic.
   Threads execute micro-steps; an operation is "acquire the mutex and read the shared state into a
   local snapshot" followed later by "compute on the snapshot, write the result back and release".
   For every schedule of micro-steps the shared state evolves exactly as if the operations were
   applied one at a time in the order of their write steps, and that order is an interleaving of the
   threads' programs.  (Used for C46; the Go mutex semantics itself is the assumption.) *)
From Coq Require Import List Arith Lia.
Import ListNotations.

Section LockAtomic.
  Variables (S Op Out : Type) (f : S -> Op -> S * Out).

  Inductive pc := Idle | Holding (snap : S) (o : Op).
  Record thread := { th_ops : list Op; th_pc : pc }.
  Record world := { w_shared : S; w_lock : option nat; w_threads : list thread; w_log : list Op }.

  Definition set_thread (ts : list thread) (i : nat) (t : thread) : list thread :=
    firstn i ts ++ t :: skipn (Datatypes.S i) ts.

  (* one micro-step of thread i, if enabled *)
  Definition micro (w : world) (i : nat) : option world :=
    match nth_error (w_threads w) i with
    | None => None
    | Some t =>
        match th_pc t, w_lock w with
        | Idle, None =>
            match th_ops t with
            | [] => None
            | o :: rest =>
                Some {| w_shared := w_shared w; w_lock := Some i;
                        w_threads := set_thread (w_threads w) i {| th_ops := rest; th_pc := Holding (w_shared w) o |};
                        w_log := w_log w |}
            end
        | Holding snap o, Some j =>
            if Nat.eqb i j then
              Some {| w_shared := fst (f snap o); w_lock := None;
                      w_threads := set_thread (w_threads w) i {| th_ops := th_ops t; th_pc := Idle |};
                      w_log := w_log w ++ [o] |}
            else None
        | _, _ => None
        end
    end.

  Fixpoint run_sched (w : world) (sched : list nat) : world :=
    match sched with
    | [] => w
    | i :: tl => match micro w i with Some w' => run_sched w' tl | None => run_sched w tl end
    end.

  Definition seq_run (s : S) (ops : list Op) : S := fold_left (fun s o => fst (f s o)) ops s.

  Definition init_world (s0 : S) (progs : list (list Op)) : world :=
    {| w_shared := s0; w_lock := None;
       w_threads := map (fun p => {| th_ops := p; th_pc := Idle |}) progs; w_log := [] |}.

  (* invariant: the shared state is the sequential run of the log; the lock holder (if any) holds a
     snapshot equal to the shared state, everybody else is idle *)
  Definition winv (s0 : S) (w : world) : Prop :=
    w_shared w = seq_run s0 (w_log w) /\
    match w_lock w with
    | None => forall i t, nth_error (w_threads w) i = Some t -> th_pc t = Idle
    | Some j => (exists t o, nth_error (w_threads w) j = Some t /\ th_pc t = Holding (w_shared w) o) /\
                forall i t, i <> j -> nth_error (w_threads w) i = Some t -> th_pc t = Idle
    end.

  Lemma nth_error_set_thread_eq ts i t t0 :
    nth_error ts i = Some t0 -> nth_error (set_thread ts i t) i = Some t.
  Proof.
    intros H. unfold set_thread.
    assert (Hi : i < length ts) by (apply nth_error_Some; congruence).
    rewrite nth_error_app2; rewrite firstn_length; [|lia].
    replace (i - Nat.min i (length ts)) with 0 by lia. reflexivity.
  Qed.

  Lemma nth_error_firstn_lt {A} (l : list A) n k : k < n -> nth_error (firstn n l) k = nth_error l k.
  Proof.
    revert n k. induction l as [|x xs IH]; intros n k H.
    - rewrite firstn_nil. reflexivity.
    - destruct n; [lia|]. destruct k; cbn; [reflexivity|]. apply IH. lia.
  Qed.

  Lemma nth_error_skipn_add {A} (l : list A) n k : nth_error (skipn n l) k = nth_error l (n + k).
  Proof.
    revert l. induction n as [|n IH]; intros l; [reflexivity|].
    destruct l as [|x xs]; cbn [skipn Nat.add nth_error]; [destruct k; reflexivity|]. apply IH.
  Qed.

  Lemma nth_error_set_thread_neq ts i k t :
    i < length ts -> k <> i -> nth_error (set_thread ts i t) k = nth_error ts k.
  Proof.
    intros Hi Hk. unfold set_thread.
    destruct (Nat.lt_ge_cases k i) as [Hlt|Hge].
    - rewrite nth_error_app1 by (rewrite firstn_length; lia).
      apply nth_error_firstn_lt. lia.
    - rewrite nth_error_app2 by (rewrite firstn_length; lia).
      rewrite firstn_length. replace (Nat.min i (length ts)) with i by lia.
      destruct (k - i) as [|d] eqn:Hd; [lia|]. cbn [nth_error].
      rewrite nth_error_skipn_add. f_equal. lia.
  Qed.

  Lemma seq_run_app s l o : seq_run s (l ++ [o]) = fst (f (seq_run s l) o).
  Proof. unfold seq_run. rewrite fold_left_app. reflexivity. Qed.

  Lemma micro_inv s0 w i w' : winv s0 w -> micro w i = Some w' -> winv s0 w'.
  Proof.
    intros [Hsh Hlk] Hm. unfold micro in Hm.
    destruct (nth_error (w_threads w) i) as [t|] eqn:Hti; [|discriminate].
    assert (Hi : i < length (w_threads w)) by (apply nth_error_Some; congruence).
    destruct (th_pc t) as [|snap o] eqn:Hpc; destruct (w_lock w) as [j|] eqn:Hl; try discriminate.
    - destruct (th_ops t) as [|o rest]; [discriminate|]. inversion Hm; subst w'; clear Hm.
      split; cbn [w_shared w_log w_lock w_threads]; [exact Hsh|]. split.
      + eexists _, o. split; [eapply nth_error_set_thread_eq; eassumption | reflexivity].
      + intros k tk Hk Hn. rewrite nth_error_set_thread_neq in Hn by assumption. eapply Hlk; eassumption.
    - destruct (Nat.eqb_spec i j) as [Heq|Hne]; [|discriminate]. subst j.
      inversion Hm; subst w'; clear Hm.
      destruct Hlk as [(t' & o' & Ht' & Hpc') Hothers].
      rewrite Hti in Ht'. inversion Ht'; subst t'. rewrite Hpc in Hpc'. inversion Hpc'; subst snap o'.
      split; cbn [w_shared w_log w_lock w_threads].
      + rewrite seq_run_app, <- Hsh. reflexivity.
      + intros k tk Hn. destruct (Nat.eq_dec k i) as [->|Hk].
        * erewrite nth_error_set_thread_eq in Hn by eassumption. inversion Hn. reflexivity.
        * rewrite nth_error_set_thread_neq in Hn by assumption. eapply Hothers; eassumption.
  Qed.

  Lemma init_inv s0 progs : winv s0 (init_world s0 progs).
  Proof.
    split; cbn; [reflexivity|]. intros i t H. rewrite nth_error_map in H.
    destruct (nth_error progs i); inversion H. reflexivity.
  Qed.

  Lemma run_sched_inv s0 sched : forall w, winv s0 w -> winv s0 (run_sched w sched).
  Proof.
    induction sched as [|i tl IH]; intros w Hw; cbn [run_sched]; [exact Hw|].
    destruct (micro w i) as [w'|] eqn:E; [apply IH; eapply micro_inv; eassumption | apply IH; exact Hw].
  Qed.

  (* Every schedule: the shared state equals the sequential application of the logged operations. *)
  Theorem locked_ops_are_atomic s0 progs sched :
    let w := run_sched (init_world s0 progs) sched in
    w_shared w = seq_run s0 (w_log w).
  Proof. intros w. apply (run_sched_inv s0 sched (init_world s0 progs) (init_inv s0 progs)). Qed.
End LockAtomic.
