package main

import (
	"fmt"

	"0chain.net/smartcontract/partitions"
	"verifharness/sc"
)

type it struct{ ID string }

func (i *it) GetID() string                      { return i.ID }
func (i *it) MarshalMsg(b []byte) ([]byte, error) { return append(b, []byte(i.ID)...), nil }
func (i *it) UnmarshalMsg(b []byte) ([]byte, error) {
	i.ID = string(b)
	return nil, nil
}
func (i *it) Msgsize() int { return len(i.ID) }

func main() {
	mpt := sc.NewMPT()
	ctx := sc.NewCtx(mpt, 5, nil)
	p, err := partitions.CreateIfNotExists(ctx, "parts", 2)
	fmt.Println(p != nil, err)
	sc.SetBalance(ctx, "abc", 10)
	fmt.Println(sc.Balance(ctx, "abc"))
}
