package main

import (
	"fmt"
	"reflect"
	"sort"
	"strings"

	"github.com/0chain/common/core/util"
	"verifharness/vh"
)

// candidates for making an instance's encoding exceed util.MPTMaxAllowableNodeSize: maps with
// string keys, slices, strings reachable through exported fields (nil pointers are allocated)
type cand struct {
	v    reflect.Value
	prio int
}

func collect(v reflect.Value, depth int, out *[]cand) {
	if depth <= 0 {
		return
	}
	switch v.Kind() {
	case reflect.Ptr:
		if !ours(v.Type().Elem()) || v.Type().Elem().Kind() != reflect.Struct || !v.CanSet() && v.IsNil() {
			return
		}
		if v.IsNil() {
			v.Set(reflect.New(v.Type().Elem()))
		}
		collect(v.Elem(), depth-1, out)
	case reflect.Struct:
		if !ours(v.Type()) {
			return
		}
		for i := 0; i < v.NumField(); i++ {
			if f := v.Field(i); f.CanSet() {
				collect(f, depth-1, out)
			}
		}
	case reflect.Map:
		if v.Type().Key().Kind() == reflect.String {
			*out = append(*out, cand{v, 0})
		}
	case reflect.Slice:
		*out = append(*out, cand{v, 1})
	case reflect.String:
		*out = append(*out, cand{v, 2})
	}
}

func zeroElem(t reflect.Type, i int) reflect.Value {
	e := reflect.New(t).Elem()
	switch t.Kind() {
	case reflect.Ptr:
		if t.Elem().Kind() == reflect.Struct {
			e.Set(reflect.New(t.Elem()))
		}
	case reflect.String:
		e.SetString(fmt.Sprintf("verif-big-%d", i))
	case reflect.Int, reflect.Int8, reflect.Int16, reflect.Int32, reflect.Int64:
		e.SetInt(int64(i % 100))
	case reflect.Uint, reflect.Uint8, reflect.Uint16, reflect.Uint32, reflect.Uint64:
		e.SetUint(uint64(i % 100))
	}
	return e
}

func grow(c reflect.Value, n int) {
	switch c.Kind() {
	case reflect.Map:
		m := reflect.MakeMapWithSize(c.Type(), n)
		for i := 0; i < n; i++ {
			k := reflect.New(c.Type().Key()).Elem()
			k.SetString(fmt.Sprintf("verif-big-key-%d", i))
			m.SetMapIndex(k, zeroElem(c.Type().Elem(), i))
		}
		c.Set(m)
	case reflect.Slice:
		s := reflect.MakeSlice(c.Type(), n, n)
		for i := 0; i < n; i++ {
			s.Index(i).Set(zeroElem(c.Type().Elem(), i))
		}
		c.Set(s)
	case reflect.String:
		c.SetString(strings.Repeat("x", n))
	}
}

// inflate grows one container of v until its msgp encoding is larger than the trie accepts.
func inflate(t vtype, v value) (ok bool) {
	defer func() {
		if r := recover(); r != nil {
			ok = false
		}
	}()
	root := reflect.ValueOf(t.fillRoot(v))
	if root.Kind() != reflect.Ptr || root.IsNil() {
		return false
	}
	var cs []cand
	collect(root.Elem(), 5, &cs)
	sort.SliceStable(cs, func(i, j int) bool { return cs[i].prio < cs[j].prio })
	for _, c := range cs {
		old := reflect.New(c.v.Type()).Elem()
		old.Set(c.v)
		good := func() (g bool) {
			defer func() {
				if r := recover(); r != nil {
					g = false
				}
			}()
			prev := -1
			for n := 1 << 12; n <= 1<<21; n <<= 1 {
				grow(c.v, n)
				b, err := v.MarshalMsg(nil)
				if err != nil {
					return false
				}
				if len(b) > util.MPTMaxAllowableNodeSize {
					return true
				}
				if prev >= 0 && len(b)-prev < n/4 {
					return false // this container is not part of the encoding
				}
				prev = len(b)
			}
			return false
		}()
		if good {
			return true
		}
		c.v.Set(old)
	}
	return false
}

var inflatable = map[string]bool{}

// one oversized instance per type, built once (the engine never mutates it)
var bigCache = map[string]value{}

func bigInstance(t vtype) value {
	if v, ok := bigCache[t.name]; ok {
		return v
	}
	v, _ := gen(t, vh.NewRand(2))
	if !inflate(t, v) {
		v = nil
	}
	bigCache[t.name] = v
	return v
}
