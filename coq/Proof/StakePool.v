(* Lemmas about Model/StakePool.v: reward distribution (C10). *)
From ZC Require Import Model.StakePool.
Open Scope Z_scope.

Definition sp_coin (z : Z) : Prop := 0 <= z < sp_max.
Definition sp_dp_wf (p : sp_dpool) : Prop := sp_coin (dp_bal p) /\ sp_coin (dp_reward p).
Definition sp_wf (sp : sp_pool) : Prop := Forall sp_dp_wf (sp_pools sp) /\ sp_coin (sp_reward sp).

Lemma sp_max_pos : 0 < sp_max.
Proof. reflexivity. Qed.

Lemma sp_add_coin_some : forall a b c, sp_add_coin a b = Some c -> c = a + b /\ a + b < sp_max.
Proof.
  unfold sp_add_coin; intros a b c H. destruct (Z.ltb_spec (a + b) sp_max); inversion H; lia.
Qed.

Lemma sp_wrap_small : forall z, 0 <= z < sp_max -> sp_wrap z = z.
Proof. intros; unfold sp_wrap; apply Z.mod_small; lia. Qed.

Lemma sp_with_reward_same : forall p, sp_with_reward p (dp_reward p) = p.
Proof. destruct p; reflexivity. Qed.

(* [sp_cred ps incs ps']: ps' is ps with the i-th reward increased by the non-negative incs[i];
   nothing else changes *)
Inductive sp_cred : list sp_dpool -> list Z -> list sp_dpool -> Prop :=
| sp_cred_nil : sp_cred [] [] []
| sp_cred_cons : forall p i ps il ps', 0 <= i -> sp_cred ps il ps' ->
    sp_cred (p :: ps) (i :: il) (sp_with_reward p (dp_reward p + i) :: ps').

Definition sp_zadd (a b : list Z) : list Z := map (fun xy => fst xy + snd xy) (combine a b).

Lemma sp_cred_len : forall ps il ps', sp_cred ps il ps' -> length il = length ps /\ length ps' = length ps.
Proof. induction 1; simpl; lia. Qed.

Lemma sp_cred_sum : forall ps il ps', sp_cred ps il ps' ->
  sp_sum_rewards ps' = sp_sum_rewards ps + sp_sum il.
Proof. induction 1; simpl in *; lia. Qed.

Lemma sp_cred_nonneg : forall ps il ps', sp_cred ps il ps' -> Forall (fun i => 0 <= i) il.
Proof. induction 1; constructor; auto. Qed.

Lemma sp_cred_cons' : forall p i ps il ps' p', 0 <= i -> sp_cred ps il ps' ->
  p' = sp_with_reward p (dp_reward p + i) -> sp_cred (p :: ps) (i :: il) (p' :: ps').
Proof. intros; subst; constructor; assumption. Qed.

Lemma sp_with_reward_zero : forall p, p = sp_with_reward p (dp_reward p + 0).
Proof. destruct p; unfold sp_with_reward; simpl; f_equal; lia. Qed.

Lemma sp_cred_zeros : forall ps, sp_cred ps (map (fun _ => 0) ps) ps.
Proof.
  induction ps as [|p tl IH]; simpl; [constructor|].
  apply sp_cred_cons'; [lia|exact IH|apply sp_with_reward_zero].
Qed.

Lemma sp_cred_trans : forall ps a ps1, sp_cred ps a ps1 -> forall b ps2, sp_cred ps1 b ps2 ->
  sp_cred ps (sp_zadd a b) ps2.
Proof.
  induction 1 as [|p i ps il ps' Hi H IH]; intros b ps2 H2; inversion H2; subst.
  - constructor.
  - unfold sp_zadd; simpl. fold (sp_zadd il il0).
    apply sp_cred_cons'; [lia|apply IH; assumption|].
    unfold sp_with_reward; simpl; f_equal; lia.
Qed.

Lemma sp_zadd_sum : forall a b, length a = length b -> sp_sum (sp_zadd a b) = sp_sum a + sp_sum b.
Proof.
  induction a as [|x a IH]; destruct b as [|y b]; simpl; intros H; try discriminate; [reflexivity|].
  unfold sp_zadd in *; simpl. rewrite IH by lia. lia.
Qed.

Lemma sp_zadd_assoc : forall a b c, sp_zadd (sp_zadd a b) c = sp_zadd a (sp_zadd b c).
Proof.
  unfold sp_zadd. induction a as [|x a IH]; intros [|y b] [|z c]; simpl; try reflexivity.
  f_equal; [lia|apply IH].
Qed.

Lemma sp_cred_props : forall ps il ps', sp_cred ps il ps' ->
  map dp_bal ps' = map dp_bal ps /\ map dp_id ps' = map dp_id ps /\
  map dp_status ps' = map dp_status ps /\ map dp_staked_at ps' = map dp_staked_at ps.
Proof. induction 1; simpl; intuition congruence. Qed.

Lemma sp_reward_le_sum : forall ps p, Forall (fun q => 0 <= dp_reward q) ps -> In p ps ->
  dp_reward p <= sp_sum_rewards ps.
Proof.
  induction ps as [|q tl IH]; simpl; intros p HF Hin; [contradiction|].
  destruct Hin as [->|Hin]; inversion HF; subst.
  - assert (0 <= sp_sum_rewards tl). { clear -H2. induction H2; simpl; lia. } lia.
  - specialize (IH p H2 Hin). lia.
Qed.

Lemma sp_sum_rewards_nonneg : forall ps, Forall (fun q => 0 <= dp_reward q) ps -> 0 <= sp_sum_rewards ps.
Proof. induction 1; simpl; lia. Qed.

Lemma sp_sum_nonneg : forall l, Forall (fun i => 0 <= i) l -> 0 <= sp_sum l.
Proof. induction 1; simpl; lia. Qed.

Lemma sp_cred_keeps_nonneg : forall ps il ps', sp_cred ps il ps' ->
  Forall (fun q => 0 <= dp_reward q) ps -> Forall (fun q => 0 <= dp_reward q) ps'.
Proof.
  induction 1; intros HF; inversion HF; subst; constructor; auto. simpl; lia.
Qed.

Section Distribute.
  Variable chargef : f64 -> Z -> option Z.
  Variable sharef : Z -> Z -> Z -> option Z.
  Hypothesis sharef_nonneg : forall a b c r, sharef a b c = Some r -> 0 <= r.

  Lemma sp_share_loop_spec : forall ps vl stake vb ps' incs vbf,
    0 <= vb -> sp_share_loop sharef vl stake vb ps = Some (ps', incs, vbf) ->
    sp_cred ps incs ps' /\ 0 <= vbf /\ sp_sum incs = vb - vbf.
  Proof.
    induction ps as [|p tl IH]; intros vl stake vb ps' incs vbf Hvb H; simpl in H.
    - inversion H; subst. split; [constructor|]. simpl; lia.
    - destruct (Z.eqb_spec vb 0) as [->|Hne].
      + inversion H; subst. split; [apply (sp_cred_zeros (p :: tl))|].
        split; [lia|]. simpl. clear. induction tl; simpl; lia.
      + destruct (sharef vl (dp_bal p) stake) as [r|] eqn:Hr; [|discriminate].
        apply sharef_nonneg in Hr.
        destruct (Z.gtb_spec r vb) as [Hgt|Hle].
        * destruct (sp_add_coin (dp_reward p) vb) as [nr|] eqn:Ha; [|discriminate].
          destruct (sp_share_loop sharef vl stake 0 tl) as [[[tl' il] vbf']|] eqn:Hl; [|discriminate].
          inversion H; subst. apply sp_add_coin_some in Ha. destruct Ha as [-> _].
          apply IH in Hl; [|lia]. destruct Hl as (Hc & Hv & Hs).
          split; [constructor; [lia|assumption]|]. simpl; lia.
        * destruct (sp_add_coin (dp_reward p) r) as [nr|] eqn:Ha; [|discriminate].
          destruct (sp_share_loop sharef vl stake (vb - r) tl) as [[[tl' il] vbf']|] eqn:Hl; [|discriminate].
          inversion H; subst. apply sp_add_coin_some in Ha. destruct Ha as [-> _].
          apply IH in Hl; [|lia]. destruct Hl as (Hc & Hv & Hs).
          split; [constructor; [lia|assumption]|]. simpl; lia.
  Qed.

  (* ones k n = 1 for the first k positions (of n), then 0 *)
  Fixpoint sp_ones (k n : nat) : list Z :=
    match n with
    | O => []
    | S n' => match k with O => 0 :: sp_ones O n' | S k' => 1 :: sp_ones k' n' end
    end.

  Lemma sp_ones_sum : forall n k, (k <= n)%nat -> sp_sum (sp_ones k n) = Z.of_nat k.
  Proof.
    induction n as [|n IH]; intros k Hk.
    - assert (k = O) by lia. subst; reflexivity.
    - destruct k as [|k].
      + change (sp_sum (sp_ones 0 (S n))) with (0 + sp_sum (sp_ones 0 n)). rewrite IH by lia. reflexivity.
      + change (sp_sum (sp_ones (S k) (S n))) with (1 + sp_sum (sp_ones k n)). rewrite IH by lia. lia.
  Qed.

  Lemma sp_ones_len : forall n k, length (sp_ones k n) = n.
  Proof. induction n; intros k; simpl; [reflexivity|]. destruct k; simpl; rewrite IHn; reflexivity. Qed.

  Lemma sp_bump_first_spec : forall k ps incs ps' incs',
    length incs = length ps ->
    Forall (fun q => 0 <= dp_reward q) ps -> Forall (fun i => 0 <= i) incs ->
    sp_sum_rewards ps + Z.of_nat k < sp_max -> sp_sum incs + Z.of_nat k < sp_max ->
    sp_bump_first k ps incs = (ps', incs') ->
    sp_cred ps (sp_ones k (length ps)) ps' /\ incs' = sp_zadd incs (sp_ones k (length ps)).
  Proof.
    induction k as [|k IH]; intros ps incs ps' incs' Hlen HF HI Hs1 Hs2 H.
    - assert (E : sp_bump_first 0 ps incs = (ps, incs)) by (destruct ps; reflexivity).
      rewrite E in H; inversion H; subst. clear - Hlen.
      split.
      + clear. induction ps' as [|p tl IHp]; simpl; [constructor|].
        apply sp_cred_cons'; [lia|exact IHp|apply sp_with_reward_zero].
      + revert incs' Hlen. induction ps' as [|p tl IHp]; intros [|i il] Hl; simpl in *; try discriminate; try reflexivity.
        unfold sp_zadd; simpl. f_equal; [lia|]. apply IHp; lia.
    - destruct ps as [|p tl]; destruct incs as [|i il]; simpl in Hlen; try discriminate.
      + inversion H; subst. split; [constructor|reflexivity].
      + simpl in H. destruct (sp_bump_first k tl il) as [tl' il'] eqn:Hb. inversion H; subst.
        inversion HF; subst. inversion HI; subst. simpl in Hs1, Hs2.
        pose proof (sp_sum_rewards_nonneg tl H3). pose proof (sp_sum_nonneg il H5).
        apply IH in Hb; try assumption; try lia. destruct Hb as (Hc & He).
        rewrite !sp_wrap_small by (unfold sp_max in *; lia).
        split; [simpl; constructor; [lia|assumption]|].
        simpl. unfold sp_zadd; simpl. f_equal. exact He.
  Qed.

  Lemma sp_add_all_spec : forall share ps incs ps' incs',
    length incs = length ps -> 0 <= share ->
    sp_add_all share ps incs = Some (ps', incs') ->
    sp_cred ps (map (fun _ => share) ps) ps' /\ incs' = sp_zadd incs (map (fun _ => share) ps).
  Proof.
    induction ps as [|p tl IH]; intros [|i il] ps' incs' Hlen Hs H; simpl in *; try discriminate.
    - inversion H; subst. split; [constructor|reflexivity].
    - destruct (sp_add_coin (dp_reward p) share) as [nr|] eqn:Ha; [|discriminate].
      destruct (sp_add_coin i share) as [ni|] eqn:Hb; [|discriminate].
      destruct (sp_add_all share tl il) as [[tl' il']|] eqn:Hc; [|discriminate].
      inversion H; subst. apply sp_add_coin_some in Ha, Hb. destruct Ha as [-> _]. destruct Hb as [-> _].
      apply IH in Hc; [|lia|lia]. destruct Hc as (Hc1 & ->).
      split; [constructor; assumption|]. unfold sp_zadd; simpl. reflexivity.
  Qed.

  Lemma sp_const_sum : forall (ps : list sp_dpool) s, sp_sum (map (fun _ => s) ps) = s * Z.of_nat (length ps).
  Proof. induction ps; intros s; simpl length; simpl map; simpl sp_sum; [lia|]. rewrite IHps. lia. Qed.

  (* equallyDistributeRewards hands out exactly [coins], each pool gets coins/n or coins/n + 1 *)
  Lemma sp_equal_spec : forall coins ps incs ps2 incs2,
    length incs = length ps -> 0 < coins ->
    Forall (fun q => 0 <= dp_reward q) ps -> Forall (fun i => 0 <= i) incs ->
    sp_sum_rewards ps + coins < sp_max -> sp_sum incs + coins < sp_max ->
    sp_equal coins ps incs = SpOk (ps2, incs2) ->
    exists e, sp_cred ps e ps2 /\ incs2 = sp_zadd incs e /\ sp_sum e = coins /\
      Forall (fun x => x = coins / Z.of_nat (length ps) \/ x = coins / Z.of_nat (length ps) + 1) e.
  Proof.
    intros coins ps incs ps2 incs2 Hlen Hc HF HI Hs1 Hs2 H. unfold sp_equal in H.
    set (n := Z.of_nat (length ps)) in *.
    destruct (Z.eqb_spec n 0) as [|Hn]; [discriminate|].
    assert (Hn0 : 0 < n) by lia.
    destruct (sp_int64 coins) as [c|] eqn:Hi; [|discriminate].
    assert (c = coins) by (unfold sp_int64 in Hi; destruct (coins <? 2 ^ 63); inversion Hi; reflexivity). subst c.
    pose proof (Z.div_mod coins n ltac:(lia)) as Hdm.
    pose proof (Z.mod_pos_bound coins n Hn0) as Hmb.
    assert (Hdiv0 : 0 <= coins / n) by (apply Z.div_pos; lia).
    destruct (Z.eqb_spec (coins / n) 0) as [Hz|Hnz].
    - inversion H as [Hb]; clear H.
      assert (Hcn : coins < n) by (rewrite Hz in Hdm; lia).
      destruct (sp_bump_first (Z.to_nat coins) ps incs) as [a b] eqn:Hbf. inversion Hb; subst.
      apply sp_bump_first_spec in Hbf; try assumption; try (rewrite Z2Nat.id; lia).
      destruct Hbf as (Hcr & ->).
      exists (sp_ones (Z.to_nat coins) (length ps)). repeat split; try assumption.
      + rewrite sp_ones_sum by lia. rewrite Z2Nat.id; lia.
      + fold n. rewrite Hz. clear. generalize (Z.to_nat coins). induction (length ps); intros k; simpl; [constructor|].
        destruct k; constructor; auto.
    - destruct (sp_add_all (coins / n) ps incs) as [[ps1 incs1]|] eqn:Ha; [|discriminate].
      inversion H as [Hb]; clear H.
      apply sp_add_all_spec in Ha; [|assumption|assumption]. destruct Ha as (Hc1 & ->).
      destruct (sp_bump_first (Z.to_nat (coins mod n)) ps1 (sp_zadd incs (map (fun _ => coins / n) ps))) as [a b] eqn:Hbf.
      inversion Hb; subst.
      pose proof (sp_cred_len _ _ _ Hc1) as [Hl1 Hl2].
      pose proof (sp_cred_sum _ _ _ Hc1) as Hsum1. rewrite sp_const_sum in Hsum1. fold n in Hsum1.
      assert (Hzl : length (sp_zadd incs (map (fun _ : sp_dpool => coins / n) ps)) = length ps1).
      { unfold sp_zadd. rewrite map_length, combine_length, map_length. lia. }
      apply sp_bump_first_spec in Hbf; try assumption.
      + destruct Hbf as (Hc2 & ->). rewrite Hl2 in *.
        exists (sp_zadd (map (fun _ => coins / n) ps) (sp_ones (Z.to_nat (coins mod n)) (length ps))).
        split; [eapply sp_cred_trans; eassumption|].
        split.
        { apply sp_zadd_assoc. }
        split.
        { rewrite sp_zadd_sum by (rewrite map_length, sp_ones_len; reflexivity).
          rewrite sp_const_sum, sp_ones_sum by lia. fold n. rewrite Z2Nat.id by lia. lia. }
        { fold n. generalize (coins / n) as s. clear. intros s. generalize (Z.to_nat (coins mod n)) as k. unfold sp_zadd.
          induction ps as [|p tl IHp]; intros k; simpl; [constructor|].
          destruct k; simpl; constructor; auto; lia. }
      + eapply sp_cred_keeps_nonneg; eassumption.
      + unfold sp_zadd. revert Hdiv0. generalize (coins / n) as s. clear - HI Hlen. intros s Hdiv0. revert incs HI Hlen.
        induction ps as [|p tl IHp]; intros [|i il] HI Hl; simpl in *; try discriminate; constructor.
        * simpl. inversion HI; subst. lia.
        * inversion HI; subst. apply IHp; [assumption|lia].
      + rewrite Hsum1. rewrite Z2Nat.id by lia. nia.
      + rewrite sp_zadd_sum by (rewrite map_length; lia). rewrite sp_const_sum. fold n.
        rewrite Z2Nat.id by lia. nia.
  Qed.
End Distribute.

Lemma sp_stake_sum_spec : forall ps acc s, sp_stake_sum ps acc = Some s -> s = acc + sp_sum_bal ps.
Proof.
  induction ps as [|p tl IH]; simpl; intros acc s H.
  - inversion H; lia.
  - destruct (sp_add_coin acc (dp_bal p)) as [a|] eqn:Ha; [|discriminate].
    apply sp_add_coin_some in Ha. destruct Ha as [-> _]. apply IH in H. lia.
Qed.

Lemma sp_wf_rewards_nonneg : forall sp, sp_wf sp -> Forall (fun q => 0 <= dp_reward q) (sp_pools sp).
Proof.
  intros sp [H _]. eapply Forall_impl; [|exact H]. intros a [_ [Ha _]]. exact Ha.
Qed.

Section Top.
  Variable chargef : f64 -> Z -> option Z.
  Variable sharef : Z -> Z -> Z -> option Z.
  Hypothesis sharef_nonneg : forall a b c r, sharef a b c = Some r -> 0 <= r.

  (* what the proportional loop followed by the equal pass does to a list of pools *)
  Definition sp_split_res (vl stake : Z) (ps : list sp_dpool) : sp_res (list sp_dpool * list Z) :=
    match sp_share_loop sharef vl stake vl ps with
    | None => SpErr
    | Some (ps1, incs1, vb) => if vb >? 0 then sp_equal vb ps1 incs1 else SpOk (ps1, incs1)
    end.

  Lemma sp_split_spec : forall vl stake ps,
    0 < vl -> ps <> [] -> Forall (fun q => 0 <= dp_reward q) ps -> sp_sum_rewards ps + vl < sp_max ->
    sp_split_res vl stake ps <> SpPanic /\
    forall ps2 incs2, sp_split_res vl stake ps = SpOk (ps2, incs2) ->
      sp_cred ps incs2 ps2 /\ sp_sum incs2 = vl.
  Proof.
    intros vl stake ps Hvl Hne HF Hs. unfold sp_split_res.
    pose proof (sp_sum_rewards_nonneg _ HF) as Hsnn.
    destruct (sp_share_loop sharef vl stake vl ps) as [[[ps1 incs1] vb]|] eqn:Hl; [|split; [discriminate|intros; discriminate]].
    apply sp_share_loop_spec in Hl; [|assumption|lia]. destruct Hl as (Hc & Hvb & Hsum).
    pose proof (sp_cred_len _ _ _ Hc) as [Hl1 Hl2].
    destruct (Z.gtb_spec vb 0) as [Hgt|Hle].
    - assert (Hn : Z.of_nat (length ps1) <> 0) by (destruct ps; [contradiction|simpl in *; lia]).
      pose proof (sp_cred_nonneg _ _ _ Hc) as Hnn. pose proof (sp_sum_nonneg _ Hnn).
      split.
      + unfold sp_equal. destruct (Z.eqb_spec (Z.of_nat (length ps1)) 0); [contradiction|].
        destruct (sp_int64 vb); [|discriminate].
        destruct (vb / Z.of_nat (length ps1) =? 0); [discriminate|].
        destruct (sp_add_all _ _ _) as [[? ?]|]; discriminate.
      + intros ps2 incs2 He.
        apply (sp_equal_spec) in He; try assumption; try lia.
        * destruct He as (e & Hc2 & -> & Hse & _).
          split; [eapply sp_cred_trans; eassumption|].
          rewrite sp_zadd_sum; [lia|]. pose proof (sp_cred_len _ _ _ Hc2). lia.
        * eapply sp_cred_keeps_nonneg; eassumption.
        * rewrite (sp_cred_sum _ _ _ Hc). lia.
    - split; [discriminate|]. intros ps2 incs2 He. inversion He; subst. split; [assumption|lia].
  Qed.

  Lemma sp_take_charge_spec : forall sp value sr charge vl,
    sp_coin (sp_reward sp) -> (forall c, chargef (ss_charge (sp_set sp)) value = Some c -> 0 <= c) ->
    0 <= value < sp_max ->
    sp_take_charge chargef sp value = Some (sr, charge, vl) ->
    sr = sp_reward sp + charge /\ vl = value - charge /\ 0 <= charge <= value.
  Proof.
    unfold sp_take_charge. intros sp value sr charge vl Hr Hc Hv H.
    destruct (chargef (ss_charge (sp_set sp)) value) as [c0|] eqn:Hcf; [|discriminate].
    specialize (Hc c0 eq_refl). cbv zeta in H.
    set (c := if c0 >? value then value else c0) in *.
    assert (Hcr : 0 <= c <= value) by (unfold c; destruct (Z.gtb_spec c0 value); lia).
    destruct (Z.gtb_spec c 0).
    - destruct (sp_add_coin (sp_reward sp) c) as [x|] eqn:Ha; [|discriminate]. inversion H; subst.
      apply sp_add_coin_some in Ha. destruct Ha as [-> _].
      rewrite sp_wrap_small by (unfold sp_max in *; lia). lia.
    - inversion H; subst. rewrite sp_wrap_small by (unfold sp_max in *; lia). lia.
  Qed.

  (* DistributeRewards, paid branch: the provider and delegate increments add up to value, the
     deferred assertion cannot fire *)
  Lemma sp_distribute_body_spec : forall sp value,
    sp_wf sp -> 0 < value -> sp_total_rewards sp + value < sp_max ->
    (forall c, chargef (ss_charge (sp_set sp)) value = Some c -> 0 <= c) ->
    sp_distribute_body chargef sharef sp value <> SpPanic /\
    forall sp' charge incs, sp_distribute_body chargef sharef sp value = SpOk (sp', charge, incs) ->
      sp_deferred_ok charge incs value = true /\
      sp_reward sp' = sp_reward sp + charge /\ 0 <= charge <= value /\
      (exists e, sp_cred (sp_pools sp) e (sp_pools sp') /\ sp_sum e = value - charge) /\
      sp_set sp' = sp_set sp /\ sp_killed sp' = sp_killed sp.
  Proof.
    intros sp value Hwf Hv Hsum Hch. unfold sp_distribute_body.
    pose proof (sp_wf_rewards_nonneg _ Hwf) as Hnn. pose proof (sp_sum_rewards_nonneg _ Hnn) as Hsn.
    destruct Hwf as [Hwfp Hwfr]. unfold sp_total_rewards in Hsum. unfold sp_coin in Hwfr.
    destruct (sp_pools sp) as [|p0 tl0] eqn:Hps.
    - destruct (sp_add_coin (sp_reward sp) value) as [r|] eqn:Ha; [|split; [discriminate|intros; discriminate]].
      split; [discriminate|]. intros sp' charge incs H; inversion H; subst.
      apply sp_add_coin_some in Ha. destruct Ha as [-> _]. simpl.
      unfold sp_deferred_ok. simpl. rewrite Z.add_0_r, sp_wrap_small by (unfold sp_max in *; lia).
      rewrite Z.eqb_refl. repeat split; try lia. exists []. split; [constructor|simpl; lia].
    - rewrite <- Hps in *.
      destruct (sp_take_charge chargef sp value) as [[[sr charge] vl]|] eqn:Ht; [|split; [discriminate|intros; discriminate]].
      apply sp_take_charge_spec in Ht; try assumption; [|lia]. destruct Ht as (-> & -> & Hc).
      destruct (Z.eqb_spec (value - charge) 0) as [Hz|Hnz].
      + split; [discriminate|]. intros sp' c incs H; inversion H; subst. simpl.
        unfold sp_deferred_ok. simpl. rewrite Z.add_0_r, sp_wrap_small by (unfold sp_max in *; lia).
        split; [apply Z.eqb_eq; lia|]. repeat split; try lia.
        exists (map (fun _ => 0) (sp_pools sp)). split; [apply sp_cred_zeros|].
        rewrite Hz. clear. induction (sp_pools sp); simpl; lia.
      + destruct (sp_stake sp) as [stake|]; [|split; [discriminate|intros; discriminate]].
        destruct (stake =? 0); [split; [discriminate|intros; discriminate]|].
        assert (Hne : sp_pools sp <> []) by (rewrite Hps; discriminate).
        destruct (sp_split_spec (value - charge) stake (sp_pools sp) ltac:(lia) Hne Hnn ltac:(lia)) as [Hnp Hok].
        unfold sp_split_res in Hnp, Hok.
        destruct (sp_share_loop sharef (value - charge) stake (value - charge) (sp_pools sp)) as [[[ps1 incs1] vb]|];
          [|split; [discriminate|intros; discriminate]].
        destruct (vb >? 0).
        * destruct (sp_equal vb ps1 incs1) as [[ps2 incs2]| |] eqn:He; [|split; [discriminate|intros; discriminate]|contradiction].
          split; [discriminate|]. intros sp' c incs H; inversion H; subst. simpl.
          destruct (Hok _ _ eq_refl) as [Hcr Hs].
          unfold sp_deferred_ok. rewrite Hs, sp_wrap_small by (unfold sp_max in *; lia).
          split; [apply Z.eqb_eq; lia|]. repeat split; try lia. exists incs. split; assumption.
        * split; [discriminate|]. intros sp' c incs H; inversion H; subst. simpl.
          destruct (Hok _ _ eq_refl) as [Hcr Hs].
          unfold sp_deferred_ok. rewrite Hs, sp_wrap_small by (unfold sp_max in *; lia).
          split; [apply Z.eqb_eq; lia|]. repeat split; try lia. exists incs. split; assumption.
  Qed.

  (* DistributeRewards: exact split, no panic, nothing for a killed / under-staked provider *)
  Lemma sp_distribute_exact : forall sp value,
    sp_wf sp -> 0 <= value -> sp_total_rewards sp + value < sp_max ->
    (forall c, chargef (ss_charge (sp_set sp)) value = Some c -> 0 <= c) ->
    sp_distribute chargef sharef sp value <> SpPanic /\
    forall sp', sp_distribute chargef sharef sp value = SpOk sp' ->
      exists total, sp_stake sp = Some total /\
        if (value =? 0) || sp_killed sp || (total <? ss_minstake (sp_set sp)) then sp' = sp
        else sp_total_rewards sp' = sp_total_rewards sp + value /\
             sp_reward sp <= sp_reward sp' /\
             (exists e, sp_cred (sp_pools sp) e (sp_pools sp')) /\
             sp_set sp' = sp_set sp /\ sp_killed sp' = sp_killed sp.
  Proof.
    intros sp value Hwf Hv Hsum Hch. unfold sp_distribute.
    destruct (sp_stake sp) as [total|]; [|split; [discriminate|intros; discriminate]].
    destruct ((value =? 0) || sp_killed sp || (total <? ss_minstake (sp_set sp))) eqn:Hskip.
    - split; [discriminate|]. intros sp' H; inversion H; subst. exists total. rewrite Hskip. auto.
    - assert (Hv0 : 0 < value).
      { apply orb_false_iff in Hskip. destruct Hskip as [Hs _]. apply orb_false_iff in Hs. destruct Hs as [Hs _].
        apply Z.eqb_neq in Hs. lia. }
      destruct (sp_distribute_body_spec sp value Hwf Hv0 Hsum Hch) as [Hnp Hok].
      destruct (sp_distribute_body chargef sharef sp value) as [[[sp1 charge] incs]| |] eqn:Hb;
        [|split; [discriminate|intros; discriminate]|contradiction].
      destruct (Hok _ _ _ eq_refl) as (Hd & Hr & Hc & (e & Hcr & Hse) & Hset & Hk).
      rewrite Hd. split; [discriminate|]. intros sp' H. injection H as <-. exists total. rewrite Hskip.
      split; [reflexivity|]. split.
      + unfold sp_total_rewards. rewrite (sp_cred_sum _ _ _ Hcr). lia.
      + split; [lia|]. split; [exists e; assumption|]. split; assumption.
  Qed.
End Top.

(* ---------- DistributeRewardsRandN: write back of the selected pools ---------- *)

Fixpoint sp_unit (i : nat) (x : Z) (n : nat) {struct n} : list Z :=
  match n with
  | O => []
  | S n' => match i with O => x :: map (fun _ => 0) (seq 0 n') | S i' => 0 :: sp_unit i' x n' end
  end.

Lemma sp_unit_len : forall n i x, length (sp_unit i x n) = n.
Proof.
  induction n; intros i x; simpl; [reflexivity|]. destruct i; simpl; [rewrite map_length, seq_length|rewrite IHn]; reflexivity.
Qed.

Lemma sp_zeros_sum : forall (A : Type) (l : list A), sp_sum (map (fun _ => 0) l) = 0.
Proof. induction l; simpl; lia. Qed.

Lemma sp_zeros_nth : forall (A : Type) (l : list A) j, nth j (map (fun _ => 0) l) 0 = 0.
Proof. induction l; intros [|j]; simpl; auto. Qed.

Lemma sp_unit_sum : forall n i x, (i < n)%nat -> sp_sum (sp_unit i x n) = x.
Proof.
  induction n; intros i x Hi; [lia|]. destruct i; simpl.
  - rewrite sp_zeros_sum; lia.
  - rewrite IHn by lia. lia.
Qed.

Lemma sp_unit_nth : forall n i x j, j <> i -> nth j (sp_unit i x n) 0 = 0.
Proof.
  induction n; intros i x j Hj; simpl; [destruct j; reflexivity|].
  destruct i; destruct j; simpl; try reflexivity; try congruence.
  - apply sp_zeros_nth.
  - apply IHn; congruence.
Qed.

Lemma sp_zadd_nth : forall a b j, length a = length b -> nth j (sp_zadd a b) 0 = nth j a 0 + nth j b 0.
Proof.
  unfold sp_zadd. induction a as [|x a IH]; intros [|y b] j H; simpl in *; try discriminate.
  - destruct j; reflexivity.
  - destruct j; simpl; [reflexivity|]. apply IH; lia.
Qed.

Lemma sp_zadd_len : forall a b, length a = length b -> length (sp_zadd a b) = length a.
Proof. intros; unfold sp_zadd; rewrite map_length, combine_length; lia. Qed.

Lemma sp_replace_nth_len : forall l i x, length (sp_replace_nth i x l) = length l.
Proof. induction l; intros [|i] x; simpl; auto. Qed.

Lemma sp_replace_nth_other : forall l i x j, j <> i -> nth j (sp_replace_nth i x l) sp_dflt = nth j l sp_dflt.
Proof.
  induction l; intros [|i] x [|j] H; simpl; try reflexivity; try congruence. apply IHl; congruence.
Qed.

Lemma sp_cred_replace : forall ps i inc, (i < length ps)%nat -> 0 <= inc ->
  sp_cred ps (sp_unit i inc (length ps))
    (sp_replace_nth i (sp_with_reward (nth i ps sp_dflt) (dp_reward (nth i ps sp_dflt) + inc)) ps).
Proof.
  induction ps as [|p tl IH]; intros i inc Hi Hinc; simpl in *; [lia|].
  destruct i; simpl.
  - constructor; [assumption|]. rewrite <- (map_length (fun _ => 0) tl) at 1.
    replace (map (fun _ : nat => 0) (seq 0 (length (map (fun _ : sp_dpool => 0) tl)))) with (map (fun _ : sp_dpool => 0) tl).
    + apply sp_cred_zeros.
    + rewrite map_length. clear. generalize 0%nat. induction tl; intros s; simpl; [reflexivity|]. f_equal. apply IHtl.
  - apply sp_cred_cons'; [lia|apply IH; [lia|assumption]|apply sp_with_reward_zero].
Qed.

Lemma sp_chosen_same : forall sl i x ps, ~ In i sl ->
  map (fun k => nth k (sp_replace_nth i x ps) sp_dflt) sl = map (fun k => nth k ps sp_dflt) sl.
Proof.
  induction sl as [|k sl IH]; intros i x ps Hn; simpl; [reflexivity|].
  rewrite sp_replace_nth_other by (intros ->; apply Hn; left; reflexivity).
  f_equal. apply IH. intros H; apply Hn; right; exact H.
Qed.

Lemma sp_write_back_spec : forall sel vals ps e,
  NoDup sel -> Forall (fun i => (i < length ps)%nat) sel ->
  sp_cred (map (fun i => nth i ps sp_dflt) sel) e vals ->
  exists e', sp_cred ps e' (sp_write_back sel vals ps) /\ sp_sum e' = sp_sum e /\
             forall j, ~ In j sel -> nth j e' 0 = 0.
Proof.
  induction sel as [|i sl IH]; intros vals ps e Hnd Hin Hc; simpl in Hc.
  - inversion Hc; subst. simpl. exists (map (fun _ => 0) ps).
    split; [apply sp_cred_zeros|]. split; [apply sp_zeros_sum|]. intros; apply sp_zeros_nth.
  - inversion Hc as [|p0 i0 psx il ps' Hi0 Hct]; subst.
    inversion Hnd as [|? ? Hni Hnds]; subst. inversion Hin as [|? ? Hlt Hins]; subst. simpl.
    set (v := sp_with_reward (nth i ps sp_dflt) (dp_reward (nth i ps sp_dflt) + i0)).
    pose proof (sp_cred_replace ps i i0 Hlt Hi0) as Hrep. fold v in Hrep.
    destruct (IH ps' (sp_replace_nth i v ps) il Hnds) as (e1 & Hc1 & Hs1 & Hz1).
    + eapply Forall_impl; [|exact Hins]. intros a Ha. rewrite sp_replace_nth_len. exact Ha.
    + rewrite sp_chosen_same by assumption. assumption.
    + pose proof (sp_cred_len _ _ _ Hc1) as [Hl1 _]. rewrite sp_replace_nth_len in Hl1.
      exists (sp_zadd (sp_unit i i0 (length ps)) e1).
      split; [eapply sp_cred_trans; eassumption|].
      split.
      * rewrite sp_zadd_sum by (rewrite sp_unit_len; lia). rewrite sp_unit_sum by assumption. simpl. lia.
      * intros j Hj. rewrite sp_zadd_nth by (rewrite sp_unit_len; lia).
        rewrite sp_unit_nth by (intros ->; apply Hj; left; reflexivity).
        rewrite Hz1; [reflexivity|]. intros Hin'; apply Hj; right; exact Hin'.
Qed.

Lemma sp_replace_nth_sum : forall l i x, (i < length l)%nat ->
  sp_sum_rewards (sp_replace_nth i x l) = sp_sum_rewards l - dp_reward (nth i l sp_dflt) + dp_reward x.
Proof.
  induction l as [|p tl IH]; intros [|i] x Hi; simpl in *; try lia. rewrite IH by lia. lia.
Qed.

Lemma sp_replace_nth_nonneg : forall l i x, Forall (fun q => 0 <= dp_reward q) l -> 0 <= dp_reward x ->
  Forall (fun q => 0 <= dp_reward q) (sp_replace_nth i x l).
Proof.
  induction l as [|p tl IH]; intros [|i] x HF Hx; simpl; inversion HF; subst; constructor; auto.
Qed.

Lemma sp_chosen_sum_le : forall sel ps,
  NoDup sel -> Forall (fun i => (i < length ps)%nat) sel -> Forall (fun q => 0 <= dp_reward q) ps ->
  sp_sum_rewards (map (fun i => nth i ps sp_dflt) sel) <= sp_sum_rewards ps /\
  Forall (fun q => 0 <= dp_reward q) (map (fun i => nth i ps sp_dflt) sel).
Proof.
  induction sel as [|i sl IH]; intros ps Hnd Hin HF; simpl.
  - split; [apply sp_sum_rewards_nonneg; assumption|constructor].
  - inversion Hnd as [|? ? Hni Hnds]; subst. inversion Hin as [|? ? Hlt Hins]; subst.
    set (z := sp_with_reward (nth i ps sp_dflt) 0).
    assert (Hri : 0 <= dp_reward (nth i ps sp_dflt)).
    { rewrite Forall_forall in HF. apply HF. apply nth_In. assumption. }
    destruct (IH (sp_replace_nth i z ps) Hnds) as [Hle HFs].
    + eapply Forall_impl; [|exact Hins]. intros a Ha. rewrite sp_replace_nth_len. exact Ha.
    + apply sp_replace_nth_nonneg; [assumption|simpl; lia].
    + rewrite sp_chosen_same in Hle, HFs by assumption.
      rewrite sp_replace_nth_sum in Hle by assumption. simpl in Hle.
      split; [lia|constructor; assumption].
Qed.

Lemma sp_selection_len : forall n draws len, length draws = Z.to_nat n -> 0 <= n ->
  Z.of_nat (length (sp_selection n draws len)) <= n.
Proof.
  intros n draws len Hd Hn. unfold sp_selection. destruct (Z.geb_spec n (Z.of_nat len)).
  - rewrite seq_length. lia.
  - rewrite Hd. rewrite Z2Nat.id; lia.
Qed.

Lemma sp_stake_sum_nil_or_pos : forall ps, sp_stake_sum ps 0 = Some 0 \/ ps <> [] \/ sp_stake_sum ps 0 = None.
Proof. destruct ps; [left; reflexivity|right; left; discriminate]. Qed.

Section TopRandN.
  Variable chargef : f64 -> Z -> option Z.
  Variable sharef : Z -> Z -> Z -> option Z.
  Hypothesis sharef_nonneg : forall a b c r, sharef a b c = Some r -> 0 <= r.

  (* DistributeRewardsRandN: only selected pools are credited and the total is exact (when the
     selected pools hold no stake the remainder goes to the provider) *)
  Lemma sp_distribute_randn_spec : forall sp value n draws,
    sp_wf sp -> 0 <= value -> sp_total_rewards sp + value < sp_max ->
    (forall c, chargef (ss_charge (sp_set sp)) value = Some c -> 0 <= c) ->
    let sel := sp_selection n draws (length (sp_pools sp)) in
    NoDup sel -> Forall (fun i => (i < length (sp_pools sp))%nat) sel ->
    sp_distribute_randn chargef sharef sp value n draws <> SpPanic /\
    forall sp', sp_distribute_randn chargef sharef sp value n draws = SpOk sp' ->
      exists total, sp_stake sp = Some total /\
        if (value =? 0) || sp_killed sp || (total <? ss_minstake (sp_set sp)) then sp' = sp
        else
          sp_reward sp <= sp_reward sp' /\ sp_set sp' = sp_set sp /\ sp_killed sp' = sp_killed sp /\
          (exists e, sp_cred (sp_pools sp) e (sp_pools sp') /\ forall j, ~ In j sel -> nth j e 0 = 0) /\
          sp_total_rewards sp' = sp_total_rewards sp + value.
  Proof.
    intros sp value n draws Hwf Hv Hsum Hch sel Hnd Hin. unfold sp_distribute_randn. fold sel.
    destruct (sp_stake sp) as [total|]; [|split; [discriminate|intros; discriminate]].
    destruct ((value =? 0) || sp_killed sp || (total <? ss_minstake (sp_set sp))) eqn:Hskip.
    { split; [discriminate|]. intros sp' H; inversion H; subst. exists total. rewrite Hskip. auto. }
    assert (Hv0 : 0 < value).
    { apply orb_false_iff in Hskip. destruct Hskip as [Hs _]. apply orb_false_iff in Hs. destruct Hs as [Hs _].
      apply Z.eqb_neq in Hs. lia. }
    pose proof (sp_wf_rewards_nonneg _ Hwf) as Hnn. pose proof (sp_sum_rewards_nonneg _ Hnn) as Hsn.
    destruct Hwf as [Hwfp Hwfr]. unfold sp_total_rewards in Hsum. unfold sp_coin in Hwfr.
    destruct (sp_pools sp) as [|p0 tl0] eqn:Hps.
    - destruct (sp_add_coin (sp_reward sp) value) as [r|] eqn:Ha; [|split; [discriminate|intros; discriminate]].
      split; [discriminate|]. intros sp' H. injection H as <-. exists total. rewrite Hskip.
      split; [reflexivity|]. apply sp_add_coin_some in Ha. destruct Ha as [-> _]. simpl.
      split; [lia|]. split; [reflexivity|]. split; [reflexivity|].
      split; [exists []; split; [constructor|intros [|j] _; reflexivity]|].
      unfold sp_total_rewards; simpl. rewrite Hps; simpl. lia.
    - rewrite <- Hps in *.
      assert (Hne : sp_pools sp <> []) by (rewrite Hps; discriminate).
      destruct (sp_take_charge chargef sp value) as [[[sr charge] vl]|] eqn:Ht; [|split; [discriminate|intros; discriminate]].
      apply sp_take_charge_spec in Ht; try assumption; [|lia]. destruct Ht as (-> & -> & Hc).
      destruct (Z.eqb_spec (value - charge) 0) as [Hz|Hnz].
      + split; [discriminate|]. intros sp' H. injection H as <-. exists total. rewrite Hskip.
        split; [reflexivity|]. simpl. split; [lia|]. split; [reflexivity|]. split; [reflexivity|].
        split; [exists (map (fun _ => 0) (sp_pools sp)); split; [apply sp_cred_zeros|intros; apply sp_zeros_nth]|].
        unfold sp_total_rewards; simpl. lia.
      + set (chosen := map (fun i => nth i (sp_pools sp) sp_dflt) sel) in *.
        destruct (sp_stake_sum chosen 0) as [stake|] eqn:Hst; [|split; [discriminate|intros; discriminate]].
        destruct (Z.eqb_spec stake 0) as [->|Hsnz].
        * destruct (sp_add_coin (sp_reward sp + charge) (value - charge)) as [sr2|] eqn:Ha2; [|split; [discriminate|intros; discriminate]].
          apply sp_add_coin_some in Ha2. destruct Ha2 as [-> _].
          split; [discriminate|]. intros sp' H. injection H as <-. exists total. rewrite Hskip.
          split; [reflexivity|]. simpl. split; [lia|]. split; [reflexivity|]. split; [reflexivity|].
          split; [exists (map (fun _ => 0) (sp_pools sp)); split; [apply sp_cred_zeros|intros; apply sp_zeros_nth]|].
          unfold sp_total_rewards; simpl. lia.
        * assert (Hcne : chosen <> []) by (intros E; rewrite E in Hst; simpl in Hst; inversion Hst; lia).
          destruct (sp_chosen_sum_le sel (sp_pools sp) Hnd Hin Hnn) as [Hcle Hcnn]. fold chosen in Hcle, Hcnn.
          destruct (sp_split_spec sharef sharef_nonneg (value - charge) stake chosen ltac:(lia) Hcne Hcnn ltac:(lia)) as [Hnp Hok].
          unfold sp_split_res in Hnp, Hok.
          destruct (sp_share_loop sharef (value - charge) stake (value - charge) chosen) as [[[ps1 incs1] vb]|];
            [|split; [discriminate|intros; discriminate]].
          assert (Hfin : forall ps2 incs2, sp_cred chosen incs2 ps2 -> sp_sum incs2 = value - charge ->
                   let sp' := sp_upd sp (sp_write_back sel ps2 (sp_pools sp)) (sp_reward sp + charge) in
                   sp_reward sp <= sp_reward sp' /\ sp_set sp' = sp_set sp /\ sp_killed sp' = sp_killed sp /\
                   (exists e, sp_cred (sp_pools sp) e (sp_pools sp') /\ forall j, ~ In j sel -> nth j e 0 = 0) /\
                   sp_total_rewards sp' = sp_total_rewards sp + value).
          { intros ps2 incs2 Hcr Hs. simpl.
            destruct (sp_write_back_spec sel ps2 (sp_pools sp) incs2 Hnd Hin Hcr) as (e' & Hc' & Hs' & Hz').
            split; [lia|]. split; [reflexivity|]. split; [reflexivity|].
            split; [exists e'; split; assumption|].
            unfold sp_total_rewards; simpl. rewrite (sp_cred_sum _ _ _ Hc'). lia. }
          destruct (vb >? 0).
          -- destruct (sp_equal vb ps1 incs1) as [[ps2 incs2]| |] eqn:He; [|split; [discriminate|intros; discriminate]|contradiction].
             split; [discriminate|]. intros sp' H. injection H as <-. exists total. rewrite Hskip.
             split; [reflexivity|]. destruct (Hok _ _ eq_refl) as [Hcr Hs].
             destruct (Hfin _ _ Hcr Hs) as (A & B & C & D & E). repeat split; assumption.
          -- split; [discriminate|]. intros sp' H. injection H as <-. exists total. rewrite Hskip.
             split; [reflexivity|]. destruct (Hok _ _ eq_refl) as [Hcr Hs].
             destruct (Hfin _ _ Hcr Hs) as (A & B & C & D & E). repeat split; assumption.
  Qed.
End TopRandN.

(* ---------- nothing for a killed / under-staked provider, concrete float facts ---------- *)

Lemma sp_skip_gets_nothing : forall chargef sharef sp value total n draws,
  sp_stake sp = Some total ->
  value = 0 \/ sp_killed sp = true \/ total < ss_minstake (sp_set sp) ->
  sp_distribute chargef sharef sp value = SpOk sp /\
  sp_distribute_randn chargef sharef sp value n draws = SpOk sp.
Proof.
  intros chargef sharef sp value total n draws Hs H. unfold sp_distribute, sp_distribute_randn. rewrite Hs.
  assert (E : (value =? 0) || sp_killed sp || (total <? ss_minstake (sp_set sp)) = true).
  { destruct H as [->|[->|H]].
    - reflexivity.
    - rewrite orb_true_r. reflexivity.
    - apply Z.ltb_lt in H. rewrite H. apply orb_true_r. }
  rewrite E. split; reflexivity.
Qed.

Lemma f64_to_u64_range : forall x, 0 <= f64_to_u64 x < sp_max.
Proof.
  intros x. unfold f64_to_u64, sp_max. destruct (f64_trunc x) as [z|]; [|lia].
  destruct ((z <? 2 ^ 64) && (- 2 ^ 63 <? z)); [apply Z.mod_pos_bound|]; lia.
Qed.

Lemma sp_chargef_go_range : forall ratio v c, sp_chargef_go ratio v = Some c -> 0 <= c < sp_max.
Proof.
  unfold sp_chargef_go, f64_float_to_coin. intros ratio v c H.
  destruct (f64_ltb _ _); inversion H. apply f64_to_u64_range.
Qed.

Lemma sp_sharef_go_range : forall a b c r, sp_sharef_go a b c = Some r -> 0 <= r < sp_max.
Proof.
  unfold sp_sharef_go, f64_mult_coin, f64_float_to_coin. intros a b c r H.
  repeat (destruct (f64_ltb _ _); [discriminate|]). cbv zeta in H.
  repeat (destruct (f64_ltb _ _); [discriminate|]).
  inversion H. apply f64_to_u64_range.
Qed.

Lemma sp_sharef_go_nonneg : forall a b c r, sp_sharef_go a b c = Some r -> 0 <= r.
Proof. intros a b c r H. apply sp_sharef_go_range in H. lia. Qed.

(* with the Go floats no hypothesis about the float results remains *)
Lemma sp_chargef_go_nonneg : forall sp value c, sp_chargef_go (ss_charge (sp_set sp)) value = Some c -> 0 <= c.
Proof. intros sp value c H. apply sp_chargef_go_range in H. lia. Qed.

Lemma sp_distribute_exact_go : forall sp value,
  sp_wf sp -> 0 <= value -> sp_total_rewards sp + value < sp_max ->
  sp_distribute sp_chargef_go sp_sharef_go sp value <> SpPanic /\
  forall sp', sp_distribute sp_chargef_go sp_sharef_go sp value = SpOk sp' ->
    exists total, sp_stake sp = Some total /\
      if (value =? 0) || sp_killed sp || (total <? ss_minstake (sp_set sp)) then sp' = sp
      else sp_total_rewards sp' = sp_total_rewards sp + value /\
           sp_reward sp <= sp_reward sp' /\
           (exists e, sp_cred (sp_pools sp) e (sp_pools sp')) /\
           sp_set sp' = sp_set sp /\ sp_killed sp' = sp_killed sp.
Proof.
  intros sp value Hwf Hv Hs. apply sp_distribute_exact; try assumption.
  - exact sp_sharef_go_nonneg.
  - apply sp_chargef_go_nonneg.
Qed.

Lemma sp_distribute_randn_exact_go : forall sp value n draws,
  sp_wf sp -> 0 <= value -> sp_total_rewards sp + value < sp_max ->
  let sel := sp_selection n draws (length (sp_pools sp)) in
  NoDup sel -> Forall (fun i => (i < length (sp_pools sp))%nat) sel ->
  sp_distribute_randn sp_chargef_go sp_sharef_go sp value n draws <> SpPanic /\
  forall sp', sp_distribute_randn sp_chargef_go sp_sharef_go sp value n draws = SpOk sp' ->
    exists total, sp_stake sp = Some total /\
      if (value =? 0) || sp_killed sp || (total <? ss_minstake (sp_set sp)) then sp' = sp
      else
        sp_reward sp <= sp_reward sp' /\ sp_set sp' = sp_set sp /\ sp_killed sp' = sp_killed sp /\
        (exists e, sp_cred (sp_pools sp) e (sp_pools sp') /\ forall j, ~ In j sel -> nth j e 0 = 0) /\
        sp_total_rewards sp' = sp_total_rewards sp + value.
Proof.
  intros sp value n draws Hwf Hv Hs sel Hnd Hin.
  apply (sp_distribute_randn_spec sp_chargef_go sp_sharef_go sp_sharef_go_nonneg); try assumption.
  apply sp_chargef_go_nonneg.
Qed.

(* ---------- regression witnesses of the two repaired defects (vm_compute) ---------- *)

Definition sp_ratio_in_unit (r : f64) : Prop := f64_leb f64_zero r = true /\ f64_leb r (f64_of_Z 1) = true.

Definition sp_mk_dp (id bal reward : Z) : sp_dpool :=
  {| dp_id := id; dp_bal := bal; dp_reward := reward; dp_status := 0; dp_staked_at := 0 |}.

(* former F-10a: ratio 1.0, value 2^53 + 3, float64(value) = 2^53 + 4: the charge is clamped *)
Definition sp_witness_f10a : sp_pool :=
  {| sp_pools := [sp_mk_dp 1 100 0; sp_mk_dp 2 100 0]; sp_reward := 0;
     sp_set := {| ss_wallet := 9; ss_maxdel := 10; ss_minstake := 0; ss_charge := f64_of_bits 4607182418800017408 |};
     sp_killed := false |}.

Lemma sp_witness_f10a_run :
  match sp_distribute sp_chargef_go sp_sharef_go sp_witness_f10a 9007199254740995 with
  | SpOk sp' => sp_reward sp' = 9007199254740995 /\ map dp_reward (sp_pools sp') = [0; 0]
  | _ => False
  end.
Proof. vm_compute. split; reflexivity. Qed.

(* former zero-stake drop: one selected delegate without stake, ratio 0.1, value 1000 *)
Definition sp_witness_zero_sel : sp_pool :=
  {| sp_pools := [sp_mk_dp 1 0 0; sp_mk_dp 2 100 0]; sp_reward := 0;
     sp_set := {| ss_wallet := 9; ss_maxdel := 10; ss_minstake := 0; ss_charge := f64_of_bits 4591870180066957722 |};
     sp_killed := false |}.

Lemma sp_witness_zero_sel_run :
  match sp_distribute_randn sp_chargef_go sp_sharef_go sp_witness_zero_sel 1000 1 [0%nat] with
  | SpOk sp' => sp_reward sp' = 1000 /\ map dp_reward (sp_pools sp') = [0; 0]
  | _ => False
  end.
Proof. vm_compute. split; reflexivity. Qed.

(* ---------- proportionality up to rounding ---------- *)

Lemma sp_Forall2_nth : forall (R : sp_dpool -> Z -> Prop) ps xs i, Forall2 R ps xs -> (i < length ps)%nat ->
  R (nth i ps sp_dflt) (nth i xs 0).
Proof.
  intros R ps xs i H. revert i. induction H; intros i Hi; simpl in *; [lia|].
  destruct i; [assumption|]. apply IHForall2. lia.
Qed.

Lemma sp_Forall_nth : forall (P : Z -> Prop) xs i, Forall P xs -> (i < length xs)%nat -> P (nth i xs 0).
Proof.
  intros P xs i H. revert i. induction H; intros i Hi; simpl in *; [lia|].
  destruct i; [assumption|]. apply IHForall. lia.
Qed.

Section Proportional.
  Variable sharef : Z -> Z -> Z -> option Z.
  Variable eps : Z.
  Hypothesis eps_nonneg : 0 <= eps.
  Hypothesis sharef_nonneg : forall a b c r, sharef a b c = Some r -> 0 <= r.
  Variable vmax : Z.
  Hypothesis sharef_acc : forall vl b s r, 0 < s < sp_max -> 0 <= b <= s -> 0 <= vl <= vmax ->
    sharef vl b s = Some r -> Z.abs (r * s - vl * b) <= eps * s.

  Definition sp_up (vl S : Z) (p : sp_dpool) (x : Z) : Prop := 0 <= x /\ x * S <= vl * dp_bal p + eps * S.
  Definition sp_lo (vl S : Z) (p : sp_dpool) (x : Z) : Prop := vl * dp_bal p - eps * S <= x * S.

  Lemma sp_up_zeros : forall vl S ps, 0 < S -> 0 <= vl -> Forall (fun p => 0 <= dp_bal p) ps ->
    Forall2 (sp_up vl S) ps (map (fun _ => 0) ps).
  Proof.
    intros vl S ps HS Hvl HF. induction HF; simpl; constructor; auto. unfold sp_up. nia.
  Qed.

  Lemma sp_share_loop_bounds : forall ps vl S vb ps' incs vbf,
    0 < S -> 0 <= vl -> 0 <= vb -> Forall (fun p => 0 <= dp_bal p) ps ->
    S < sp_max -> vl <= vmax -> Forall (fun p => dp_bal p <= S) ps ->
    sp_share_loop sharef vl S vb ps = Some (ps', incs, vbf) ->
    Forall2 (sp_up vl S) ps incs /\ (0 < vbf -> Forall2 (sp_lo vl S) ps incs).
  Proof.
    induction ps as [|p tl IH]; intros vl S vb ps' incs vbf HS Hvl Hvb HF HSm Hvm HFle H.
    - simpl in H. inversion H; subst. split; [constructor|intros; constructor].
    - pose proof H as Hspec. apply (sp_share_loop_spec sharef sharef_nonneg) in Hspec; [|assumption].
      simpl in H. inversion HF as [|? ? Hb HFt]; subst. inversion HFle as [|? ? Hble HFlet]; subst.
      destruct (Z.eqb_spec vb 0) as [->|Hne].
      + inversion H; subst. split; [|lia]. apply (sp_up_zeros vl S (p :: tl)); assumption.
      + destruct (sharef vl (dp_bal p) S) as [r|] eqn:Hr; [|discriminate].
        pose proof (sharef_nonneg _ _ _ _ Hr) as Hr0. pose proof (sharef_acc _ _ _ _ (conj HS HSm) (conj Hb Hble) (conj Hvl Hvm) Hr) as Hacc.
        destruct (Z.gtb_spec r vb) as [Hgt|Hle].
        * destruct (sp_add_coin (dp_reward p) vb) as [nr|]; [|discriminate].
          destruct (sp_share_loop sharef vl S 0 tl) as [[[tl' il] vbf']|] eqn:Hl; [|discriminate].
          inversion H; subst.
          pose proof Hl as Hl2. apply (sp_share_loop_spec sharef sharef_nonneg) in Hl2; [|lia].
          destruct Hl2 as (Hc & Hv0 & Hsm). pose proof (sp_sum_nonneg _ (sp_cred_nonneg _ _ _ Hc)).
          apply IH in Hl; try assumption; try lia. destruct Hl as [Hu _].
          split; [|lia]. constructor; [|assumption]. unfold sp_up. split; [lia|]. nia.
        * destruct (sp_add_coin (dp_reward p) r) as [nr|]; [|discriminate].
          destruct (sp_share_loop sharef vl S (vb - r) tl) as [[[tl' il] vbf']|] eqn:Hl; [|discriminate].
          inversion H; subst.
          apply IH in Hl; try assumption; try lia. destruct Hl as [Hu Hlo].
          split.
          -- constructor; [|assumption]. unfold sp_up. split; [lia|]. lia.
          -- intros Hpos. constructor; [|apply Hlo; assumption]. unfold sp_lo. lia.
  Qed.

  Lemma sp_up_slack : forall vl S ps xs, Forall2 (sp_up vl S) ps xs ->
    0 <= vl * sp_sum_bal ps + Z.of_nat (length ps) * (eps * S) - sp_sum xs * S.
  Proof.
    induction 1 as [|p x ps xs [Hx0 Hx] HF IH]; simpl length; simpl sp_sum_bal; simpl sp_sum; [lia|].
    rewrite Nat2Z.inj_succ. nia.
  Qed.

  Lemma sp_up_slack_nth : forall vl S ps xs i, Forall2 (sp_up vl S) ps xs -> (i < length ps)%nat ->
    vl * dp_bal (nth i ps sp_dflt) + eps * S - nth i xs 0 * S
    <= vl * sp_sum_bal ps + Z.of_nat (length ps) * (eps * S) - sp_sum xs * S.
  Proof.
    intros vl S ps xs i H. revert i.
    induction H as [|p x ps xs [Hx0 Hx] HF IH]; intros i Hi; simpl length in *; [simpl in Hi; lia|].
    simpl sp_sum_bal; simpl sp_sum. rewrite Nat2Z.inj_succ.
    destruct i; simpl nth.
    - pose proof (sp_up_slack _ _ _ _ HF). nia.
    - specialize (IH i ltac:(lia)). nia.
  Qed.

  Lemma sp_lo_total : forall vl S ps xs, Forall2 (sp_lo vl S) ps xs ->
    vl * sp_sum_bal ps - Z.of_nat (length ps) * (eps * S) <= sp_sum xs * S.
  Proof.
    induction 1 as [|p x ps xs Hx HF IH]; simpl length; simpl sp_sum_bal; simpl sp_sum; [lia|].
    rewrite Nat2Z.inj_succ. unfold sp_lo in Hx. nia.
  Qed.

  Variable chargef : f64 -> Z -> option Z.

  Lemma sp_share_proportional_aux : forall sp value sp' charge incs stake,
    sp_wf sp -> 0 < value -> sp_total_rewards sp + value < sp_max ->
    (forall c, chargef (ss_charge (sp_set sp)) value = Some c -> 0 <= c) ->
    sp_stake sp = Some stake -> value <= vmax ->
    sp_distribute_body chargef sharef sp value = SpOk (sp', charge, incs) -> sp_pools sp <> [] ->
    exists e, sp_cred (sp_pools sp) e (sp_pools sp') /\ sp_sum e = value - charge /\
      forall i, (i < length (sp_pools sp))%nat ->
        Z.abs (nth i e 0 * stake - (value - charge) * dp_bal (nth i (sp_pools sp) sp_dflt))
        <= ((Z.of_nat (length (sp_pools sp)) + 1) * eps + 1) * stake.
  Proof.
    intros sp value sp' charge incs stake Hwf Hv Hsum Hch Hst Hvmax H Hne.
    assert (Hstmax : stake < sp_max).
    { unfold sp_stake in Hst. destruct (sp_pools sp) as [|p0 tl0]; [contradiction|]. simpl in Hst.
      destruct (sp_add_coin 0 (dp_bal p0)) as [a0|] eqn:Ea; [|discriminate].
      apply sp_add_coin_some in Ea. destruct Ea as [-> Ea]. revert Hst Ea. generalize (0 + dp_bal p0).
      clear. induction tl0 as [|q tl IH]; simpl; intros a Hst Ha; [inversion Hst; subst; exact Ha|].
      destruct (sp_add_coin a (dp_bal q)) as [a1|] eqn:E1; [|discriminate].
      apply sp_add_coin_some in E1. destruct E1 as [-> E1]. eapply IH; eassumption. }
    pose proof (sp_wf_rewards_nonneg _ Hwf) as Hnn. pose proof (sp_sum_rewards_nonneg _ Hnn) as Hsn.
    assert (Hbal : Forall (fun p => 0 <= dp_bal p) (sp_pools sp)).
    { destruct Hwf as [Hp _]. eapply Forall_impl; [|exact Hp]. intros a [[Ha _] _]. exact Ha. }
    assert (HS : stake = sp_sum_bal (sp_pools sp)).
    { unfold sp_stake in Hst. apply sp_stake_sum_spec in Hst. lia. }
    assert (HS0 : 0 <= stake).
    { rewrite HS. clear - Hbal. induction Hbal; simpl; lia. }
    destruct Hwf as [Hwfp Hwfr]. unfold sp_total_rewards in Hsum. unfold sp_coin in Hwfr.
    unfold sp_distribute_body in H.
    destruct (sp_pools sp) as [|p0 tl0] eqn:Hps; [contradiction|]. rewrite <- Hps in *.
    set (n := Z.of_nat (length (sp_pools sp))).
    assert (Hn1 : 1 <= n) by (unfold n; rewrite Hps; simpl length; lia).
    destruct (sp_take_charge chargef sp value) as [[[sr c] vl]|] eqn:Ht; [|discriminate].
    apply sp_take_charge_spec in Ht; try assumption; [|lia]. destruct Ht as (-> & -> & Hc).
    destruct (Z.eqb_spec (value - c) 0) as [Hz|Hnz].
    - injection H as <- <- <-. simpl. exists (map (fun _ => 0) (sp_pools sp)).
      split; [apply sp_cred_zeros|]. split; [rewrite sp_zeros_sum; lia|].
      intros i Hi. rewrite sp_zeros_nth, Hz. simpl. nia.
    - rewrite Hst in H. destruct (Z.eqb_spec stake 0) as [|Hs0]; [discriminate|].
      assert (HSpos : 0 < stake) by lia.
      destruct (sp_share_loop sharef (value - c) stake (value - c) (sp_pools sp)) as [[[ps1 incs1] vb]|] eqn:Hl; [|discriminate].
      pose proof Hl as Hspec. apply (sp_share_loop_spec sharef sharef_nonneg) in Hspec; [|lia].
      destruct Hspec as (Hcr & Hvb & Hsm).
      assert (Hble : Forall (fun p => dp_bal p <= stake) (sp_pools sp)).
      { rewrite HS. clear - Hbal. induction Hbal as [|p l Hp Hl IH]; [constructor|].
        assert (0 <= sp_sum_bal l) by (clear - Hl; induction Hl; simpl; lia).
        constructor; [simpl; lia|]. eapply Forall_impl; [|exact IH]. intros a Ha. simpl in *. lia. }
      apply sp_share_loop_bounds in Hl; try assumption; try lia. destruct Hl as [Hup Hlo].
      pose proof (sp_cred_len _ _ _ Hcr) as [Hl1 Hl2].
      destruct (Z.gtb_spec vb 0) as [Hgt|Hle].
      + destruct (sp_equal vb ps1 incs1) as [[ps2 incs2]| |] eqn:He; try discriminate.
        injection H as <- <- <-. simpl.
        pose proof (sp_cred_nonneg _ _ _ Hcr) as Hinn. pose proof (sp_sum_nonneg _ Hinn).
        apply sp_equal_spec in He; try assumption; try lia.
        * destruct He as (e2 & Hc2 & -> & Hse & Hq).
          pose proof (sp_cred_len _ _ _ Hc2) as [Hl3 _].
          exists (sp_zadd incs1 e2). split; [eapply sp_cred_trans; eassumption|].
          split; [rewrite sp_zadd_sum by lia; lia|].
          intros i Hi. rewrite sp_zadd_nth by lia.
          pose proof (sp_Forall2_nth _ _ _ i Hup Hi) as [Hx0 Hx].
          pose proof (sp_Forall2_nth _ _ _ i (Hlo Hgt) Hi) as Hxl. unfold sp_lo in Hxl.
          pose proof (sp_Forall_nth _ _ i Hq ltac:(lia)) as Hy. cbv beta in Hy. rewrite Hl2 in Hy. fold n in Hy.
          pose proof (sp_lo_total _ _ _ _ (Hlo Hgt)) as Htot. rewrite <- HS in Htot. fold n in Htot.
          set (x := nth i incs1 0) in *. set (y := nth i e2 0) in *.
          set (b := dp_bal (nth i (sp_pools sp) sp_dflt)) in *.
          set (q := vb / n) in *.
          assert (Hq0 : 0 <= q) by (apply Z.div_pos; lia).
          assert (Hqn : q * n <= vb) by (unfold q; pose proof (Z.mul_div_le vb n ltac:(lia)); lia).
          assert (Hvbn : vb <= n * eps) by nia.
          assert (Hqe : q <= eps) by nia.
          assert (HB : 0 <= eps * stake) by nia.
          assert (HQ : 0 <= q * stake <= eps * stake) by nia.
          assert (HN : eps * stake <= n * eps * stake) by nia.
          replace ((x + y) * stake) with (x * stake + y * stake) by ring.
          replace (((n + 1) * eps + 1) * stake) with (n * eps * stake + eps * stake + stake) by ring.
          destruct Hy as [->| ->].
          -- apply Z.abs_le. lia.
          -- replace ((q + 1) * stake) with (q * stake + stake) by ring. apply Z.abs_le. lia.
        * eapply sp_cred_keeps_nonneg; eassumption.
        * rewrite (sp_cred_sum _ _ _ Hcr). lia.
      + injection H as <- <- <-. simpl. exists incs1. split; [assumption|]. split; [lia|].
        intros i Hi.
        pose proof (sp_Forall2_nth _ _ _ i Hup Hi) as [Hx0 Hx].
        pose proof (sp_up_slack_nth _ _ _ _ i Hup Hi) as Hsl. rewrite <- HS in Hsl. fold n in Hsl.
        set (x := nth i incs1 0) in *. set (b := dp_bal (nth i (sp_pools sp) sp_dflt)) in *.
        assert (HB : 0 <= eps * stake) by nia.
        assert (HN : eps * stake <= n * eps * stake) by nia.
        replace (((n + 1) * eps + 1) * stake) with (n * eps * stake + eps * stake + stake) by ring.
        apply Z.abs_le. nia.
  Qed.
End Proportional.

Lemma sp_share_proportional :
  forall (chargef : f64 -> Z -> option Z) (sharef : Z -> Z -> Z -> option Z) (eps vmax : Z),
  0 <= eps ->
  (forall a b c r, sharef a b c = Some r -> 0 <= r) ->
  (forall vl b s r, 0 < s < sp_max -> 0 <= b <= s -> 0 <= vl <= vmax ->
     sharef vl b s = Some r -> Z.abs (r * s - vl * b) <= eps * s) ->
  forall sp value sp' charge incs stake,
  sp_wf sp -> 0 < value -> sp_total_rewards sp + value < sp_max ->
  (forall c, chargef (ss_charge (sp_set sp)) value = Some c -> 0 <= c) ->
  sp_stake sp = Some stake -> value <= vmax ->
  sp_distribute_body chargef sharef sp value = SpOk (sp', charge, incs) -> sp_pools sp <> [] ->
  exists e, sp_cred (sp_pools sp) e (sp_pools sp') /\ sp_sum e = value - charge /\
    forall i, (i < length (sp_pools sp))%nat ->
      Z.abs (nth i e 0 * stake - (value - charge) * dp_bal (nth i (sp_pools sp) sp_dflt))
      <= ((Z.of_nat (length (sp_pools sp)) + 1) * eps + 1) * stake.
Proof.
  intros chargef sharef eps vmax He Hn Ha. intros. eapply sp_share_proportional_aux; eassumption.
Qed.
