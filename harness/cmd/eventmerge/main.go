// Engine for C20 (query DB records every bridge and pool event): generates the event list of a block
// (burn tickets, authorizer burns, bridge mints, additive pool/stake events, overwrite-type user events,
// chain events, events without merger), runs the real mergeEvents (hook) and the real handler for burn
// tickets on an in-memory (sqlite) EventDb, judges the result with the property and emits the blocks as
// cases for the Coq model. The handlers that update authorizer totals use PostgreSQL-only SQL (unnest) and
// are not executed: totals are checked on what the merge hands to them.
package main

import (
	"context"
	"encoding/json"
	"fmt"
	"sort"
	"strings"

	"0chain.net/chaincore/state"
	"0chain.net/core/common"
	"0chain.net/core/config"
	"0chain.net/smartcontract/dbs/event"
	"github.com/0chain/common/core/currency"
	"verifharness/sc"
	"verifharness/vh"
)

type ev struct {
	Kind   string `json:"kind"`             // burn | aburn | mint | lock | unlock | rplock | reward | user | chain | unique | nomerger | error
	Index  int    `json:"index"`            // Ethereum address / client token (the event index)
	Amount int64  `json:"amount,omitempty"` // amount (burn ticket, burn, mint, lock, reward) or balance (user)
}

type blockIn struct {
	Round  int64   `json:"round"`
	Events []ev    `json:"events,omitempty"`
	Fields *fblock `json:"field_block,omitempty"`    // a field block (fields.go) instead of an event list
	Ticket *thist  `json:"ticket_history,omitempty"` // a burn-ticket history through ProcessEvents (tickets.go)
}

var tagOf = map[string]event.EventTag{
	"burn": event.TagAddBurnTicket, "aburn": event.TagAuthorizerBurn, "mint": event.TagAddBridgeMint,
	"lock": event.TagLockStakePool, "unlock": event.TagUnlockStakePool, "rplock": event.TagLockReadPool,
	"reward": event.TagUpdateUserCollectedRewards, "user": event.TagAddOrOverwriteUser,
	"chain": event.TagFinalizeBlock, "unique": event.TagUniqueAddress, "nomerger": event.TagToChallengePool, "error": event.TagAddBlock,
}

// identifier names of the tags (as in the generated merger table) and the Coq constants of Corr/EventMerge.v
var tagName = map[string]string{"burn": "TagAddBurnTicket", "aburn": "TagAuthorizerBurn", "mint": "TagAddBridgeMint", "lock": "TagLockStakePool",
	"unlock": "TagUnlockStakePool", "rplock": "TagLockReadPool", "reward": "TagUpdateUserCollectedRewards", "user": "TagAddOrOverwriteUser",
	"chain": "TagFinalizeBlock", "unique": "TagUniqueAddress", "nomerger": "TagToChallengePool", "error": "TagAddBlock"}
var tagCoq = map[string]string{"burn": "tgBurn", "aburn": "tgABurn", "mint": "tgMint", "lock": "tgLock", "unlock": "tgUnlock", "rplock": "tgRpLock",
	"reward": "tgReward", "user": "tgUser", "chain": "tgChain", "unique": "tgUnique", "nomerger": "tgNoMerger", "error": "tgError"}

func kindOfTag(t event.EventTag) string {
	for k, v := range tagOf {
		if v == t {
			return k
		}
	}
	return ""
}

var bridge = map[string]bool{"burn": true, "aburn": true, "mint": true}
var additive = map[string]bool{"lock": true, "unlock": true, "rplock": true, "reward": true}

func id(tok int) string { return fmt.Sprintf("id-%03d", tok) }

// hash token of the i-th event of a block (burn tickets are identified by their transaction hash)
func hashTok(round int64, i int) int { return int(round)*1000 + i }

func realEvents(b blockIn) []event.Event {
	var out []event.Event
	for i, e := range b.Events {
		r := event.Event{Type: event.TypeStats, Tag: tagOf[e.Kind], Index: id(e.Index), BlockNumber: b.Round}
		switch e.Kind {
		case "burn":
			r.Data = &event.BurnTicket{EthereumAddress: id(e.Index), Hash: fmt.Sprintf("h-%d", hashTok(b.Round, i)), Amount: currency.Coin(e.Amount), Nonce: b.Round*1000 + int64(i)}
		case "aburn":
			r.Data = state.Burn{Burner: id(e.Index), Amount: currency.Coin(e.Amount)}
		case "mint":
			r.Data = &event.BridgeMint{UserID: id(e.Index), MintNonce: b.Round*1000 + int64(i), Amount: currency.Coin(e.Amount), Signers: []string{"auth-1", "auth-2"}}
		case "lock", "unlock":
			r.Data = event.DelegatePoolLock{Client: id(e.Index), ProviderId: "prov", Amount: e.Amount}
		case "rplock":
			r.Data = event.ReadPoolLock{Client: id(e.Index), PoolId: id(e.Index), Amount: e.Amount}
		case "reward":
			r.Data = event.UserAggregate{UserID: id(e.Index), CollectedReward: e.Amount}
		case "user":
			r.Data = event.User{UserID: id(e.Index), Balance: currency.Coin(e.Amount), Nonce: int64(i)}
		case "chain":
			r.Type = event.TypeChain
			r.Data = "block"
		case "unique":
			r.Data = id(e.Index)
		case "nomerger":
			r.Data = "x"
		case "error":
			r.Type = event.TypeError
			r.Data = "some error"
		}
		out = append(out, r)
	}
	return out
}

type item struct {
	key    int
	amount int64
}

func tokOf(s string) int {
	var t int
	if _, err := fmt.Sscanf(s, "id-%d", &t); err == nil {
		return t
	}
	if _, err := fmt.Sscanf(s, "h-%d", &t); err == nil {
		return t
	}
	return -1
}

// items of a merged event: one (key, amount) per datum
func itemsOf(e event.Event) ([]item, bool) {
	var out []item
	switch d := e.Data.(type) {
	case []event.BurnTicket:
		for _, x := range d {
			out = append(out, item{tokOf(x.Hash), int64(x.Amount)})
		}
	case []state.Burn:
		for _, x := range d {
			out = append(out, item{tokOf(x.Burner), int64(x.Amount)})
		}
	case []event.BridgeMint:
		for _, x := range d {
			out = append(out, item{tokOf(x.UserID), int64(x.Amount)})
		}
	case []event.DelegatePoolLock:
		for _, x := range d {
			out = append(out, item{tokOf(x.Client), x.Amount})
		}
	case []event.ReadPoolLock:
		for _, x := range d {
			out = append(out, item{tokOf(x.Client), x.Amount})
		}
	case []event.UserAggregate:
		for _, x := range d {
			out = append(out, item{tokOf(x.UserID), x.CollectedReward})
		}
	case []event.User:
		for _, x := range d {
			out = append(out, item{tokOf(x.UserID), int64(x.Balance)})
		}
	default:
		return nil, false
	}
	return out, true
}

type blockOut struct {
	err     string
	merged  map[string][]item // tag name -> items
	order   []string          // tag names in output order
	others  int
	tickets []item // rows added to burn_tickets by the handler
	hErr    string
}

var edb *event.EventDb

func runBlock(b blockIn) (o blockOut) {
	o.merged = map[string][]item{}
	defer func() {
		if r := recover(); r != nil {
			o.err = fmt.Sprint("panic: ", r)
		}
	}()
	out, err := event.VerifGovMergeEvents(b.Round, fmt.Sprintf("block-%d", b.Round), realEvents(b))
	if err != nil {
		o.err = err.Error()
		return
	}
	before := map[string]bool{}
	var rows []event.BurnTicket
	must(edb.Get().Find(&rows).Error)
	for _, r := range rows {
		before[r.Hash] = true
	}
	for _, e := range out {
		if e.Type == event.TypeStats && e.Index == fmt.Sprintf("block-%d", b.Round) {
			its, ok := itemsOf(e)
			if !ok {
				o.err = fmt.Sprintf("merged event of tag %v has unexpected data %T", e.Tag, e.Data)
				return
			}
			name := kindOfTag(e.Tag)
			if name == "" {
				o.err = fmt.Sprintf("merged event with unexpected tag %d", e.Tag)
				return
			}
			o.merged[name] = its
			o.order = append(o.order, name)
			if e.Tag == event.TagAddBurnTicket {
				if err := event.VerifGovAddStat(edb, e); err != nil {
					o.hErr = err.Error()
				}
			}
		} else {
			o.others++
		}
	}
	rows = nil
	must(edb.Get().Find(&rows).Error)
	for _, r := range rows {
		if !before[r.Hash] {
			o.tickets = append(o.tickets, item{tokOf(r.Hash), int64(r.Amount)})
		}
	}
	return
}

type viol struct{ sig, desc string }

func judge(b blockIn, o blockOut, count func(string)) []viol {
	var vs []viol
	add := func(sig, f string, a ...interface{}) {
		vs = append(vs, viol{"C20:" + sig, fmt.Sprintf("round %d: ", b.Round) + fmt.Sprintf(f, a...)})
	}
	if o.err != "" {
		add("merge-error", "%s", o.err)
		return vs
	}
	// what the block contains, per kind
	type agg struct {
		n      int
		perKey map[int]int64
		dupIdx bool
	}
	in := map[string]*agg{}
	seenIdx := map[string]map[int]bool{}
	wantOthers := 0
	for i, e := range b.Events {
		count("event-" + e.Kind)
		switch e.Kind {
		case "chain", "unique", "nomerger":
			wantOthers++
			continue
		case "error":
			continue
		}
		a := in[e.Kind]
		if a == nil {
			a = &agg{perKey: map[int]int64{}}
			in[e.Kind] = a
			seenIdx[e.Kind] = map[int]bool{}
		}
		a.n++
		key := e.Index
		if e.Kind == "burn" {
			key = hashTok(b.Round, i)
		}
		a.perKey[key] += e.Amount
		if seenIdx[e.Kind][e.Index] {
			a.dupIdx = true
		}
		seenIdx[e.Kind][e.Index] = true
	}
	if o.others != wantOthers {
		add("unmerged-event-dropped", "%d chain / unique-address / merger-less events went in, %d came out", wantOthers, o.others)
	}
	for kind, a := range in {
		name := tagName[kind]
		got := o.merged[kind]
		sum := map[int]int64{}
		for _, it := range got {
			sum[it.key] += it.amount
		}
		switch {
		case bridge[kind]:
			// append-only rows / additive totals: every event must still be there
			lost := a.n - len(got)
			same := lost == 0
			for k, v := range a.perKey {
				if sum[k] != v {
					same = false
				}
			}
			if !same {
				what := map[string]string{"burn": "burn-ticket", "aburn": "authorizer-burn", "mint": "bridge-mint"}[kind]
				if a.dupIdx && lost > 0 {
					add(what+"-overwritten-in-merge", "%d %s events in the block, %d after the merge: events with the same index (Ethereum address / client) overwrite each other (withUniqueEventOverwrite)", a.n, name, len(got))
				} else {
					add("bridge-event-lost", "%s: in %v, after the merge %v", name, a.perKey, sum)
				}
			}
		case additive[kind]:
			for k, v := range a.perKey {
				if sum[k] != v {
					add("additive-event-sum-changed", "%s: client %d locked/collected %d in the block, the merged event says %d", name, k, v, sum[k])
					break
				}
			}
			if len(sum) != len(a.perKey) {
				add("additive-event-sum-changed", "%s: %d clients in the block, %d in the merged event", name, len(a.perKey), len(sum))
			}
		}
	}
	// the query DB must hold one ticket per burn of the block
	if a := in["burn"]; a != nil {
		merged := o.merged["burn"]
		if o.hErr != "" {
			add("burn-ticket-handler-error", "%s", o.hErr)
		} else if len(o.tickets) < len(merged) {
			add("burn-tickets-after-first-not-stored", "the merged TagAddBurnTicket event carries %d tickets, the handler stored %d row(s): only element 0 is passed to addBurnTicket", len(merged), len(o.tickets))
		} else if len(o.tickets) > a.n {
			add("burn-ticket-rows-invented", "%d burns, %d rows", a.n, len(o.tickets))
		}
		for _, t := range o.tickets {
			if a.perKey[t.key] != t.amount {
				add("burn-ticket-row-wrong", "row for ticket %d has amount %d", t.key, t.amount)
			}
		}
	}
	return vs
}

// ---------- generation ----------

func genBlock(r *vh.Rand, round int64) blockIn {
	b := blockIn{Round: round}
	n := r.Range(1, 14)
	kinds := []string{"burn", "burn", "aburn", "mint", "lock", "unlock", "rplock", "reward", "user", "chain", "unique", "nomerger", "error"}
	spread := r.Range(1, 5) // few distinct indices => collisions
	for i := 0; i < n; i++ {
		k := kinds[r.Intn(len(kinds))]
		e := ev{Kind: k, Index: 1 + r.Intn(spread), Amount: int64(r.Range(1, 1000))}
		if r.Chance(1, 15) {
			e.Amount = []int64{0, 1, 1 << 40, 9007199254740993}[r.Intn(4)]
		}
		b.Events = append(b.Events, e)
		if k == "burn" && r.Chance(2, 3) {
			// a burn emits both events
			b.Events = append(b.Events, ev{Kind: "aburn", Index: 11 + r.Intn(spread), Amount: e.Amount})
		}
	}
	return b
}

// ---------- Coq case ----------

func coqItems(xs []item) string {
	s := make([]string, len(xs))
	for i, x := range xs {
		s[i] = vh.Pair(fmt.Sprint(x.key), vh.Z(x.amount))
	}
	return vh.List(s)
}

func coqCase(b blockIn, o blockOut) string {
	var es []string
	for i, e := range b.Events {
		ty := "EtStats"
		switch e.Kind {
		case "chain":
			ty = "EtChain"
		case "error":
			ty = "EtOther"
		}
		key := e.Index
		if e.Kind == "burn" {
			key = hashTok(b.Round, i)
		}
		data := vh.List([]string{vh.Pair(fmt.Sprint(key), vh.Z(e.Amount))})
		if e.Kind == "chain" || e.Kind == "unique" || e.Kind == "nomerger" || e.Kind == "error" {
			data = "[]"
		}
		es = append(es, fmt.Sprintf("(Build_em_event %s %s %d %s)", ty, tagCoq[e.Kind], e.Index, data))
	}
	var ms []string
	for _, name := range o.order {
		ms = append(ms, vh.Pair(tagCoq[name], coqItems(o.merged[name])))
	}
	return fmt.Sprintf("(EcBlock (Build_em_case %s %s %s %s))", vh.List(es), vh.List(ms), vh.Nat(o.others), coqItems(o.tickets))
}

func must(err error) {
	if err != nil {
		panic(err)
	}
}

func main() {
	o := vh.ParseFlags()
	rep := vh.NewReport("eventmerge", "C20", o)
	rep.Rule = "blocks of 1-20 events over 1-5 colliding indices: burn tickets (with the authorizer burn of the same transaction), bridge mints, stake lock/unlock, " +
		"read pool locks, collected rewards, user overwrites, chain events, unique-address events, stats events without merger, non-stats events; amounts 1-1000 and " +
		"edge values; real mergeEvents + real burn-ticket handler on an in-memory sqlite EventDb; field blocks: for every withEventMerge merger of the generated table (and the stake pool penalty tag) " +
		"2-7 events of one tag over 1-3 identities, every field (scalars, delegate maps with 1-3 of 4 pools) zero/empty with probability 1/2, plus all zero/non-zero combinations directed; per identity, field and map key the merged data must sum to the events; burn-ticket histories of 2-5 blocks through the real EventDb.ProcessEvents (nonces count up per address, so (A,n) and (B,n) overlap within and across blocks; a quarter end with a block repeating a stored pair, which must be rejected): after every block the stored tickets of every address are exactly those emitted; busy blocks of 65-300 distinct identities per tag with repeats placed after the 64th/65th/128th/129th distinct identity and at the end; non-trivial = at least one bridge event, one additive event and two events sharing an index; distinct by event list"
	sc.Init()
	common.SetupRootContext(context.Background())
	var err error
	edb, err = event.NewInMemoryEventDb(config.DbAccess{}, config.DbSettings{})
	must(err)
	cf := &vh.CasesFile{Imports: []string{"Base.Corr", "Model.EventMerge", "Corr.EventMerge"}, CaseType: "em_anycase", CheckFn: "em_check_any", Shard: 100}
	handle := func(b blockIn) {
		out := runBlock(b)
		local := map[string]int{}
		vs := judge(b, out, func(s string) { local[s]++ })
		for s, n := range local {
			rep.CountN(s, n)
		}
		nb, na := 0, 0
		idx := map[string]bool{}
		dup := false
		for _, e := range b.Events {
			if bridge[e.Kind] {
				nb++
			}
			if additive[e.Kind] {
				na++
			}
			k := fmt.Sprintf("%s/%d", e.Kind, e.Index)
			if idx[k] {
				dup = true
			}
			idx[k] = true
		}
		key, _ := json.Marshal(b.Events)
		rep.Case(string(key), nb > 0 && na > 0 && dup, b)
		if out.err == "" {
			cf.Add(coqCase(b, out))
			rep.CaseInputs = append(rep.CaseInputs, b)
		}
		for _, v := range vs {
			dupSig := false
			for _, old := range rep.Violations {
				dupSig = dupSig || old.Signature == v.sig
			}
			if dupSig {
				continue
			}
			keep := vh.ShrinkIdx(len(b.Events), func(keep []int) bool {
				b2 := blockIn{Round: b.Round + 100000}
				for _, i := range keep {
					b2.Events = append(b2.Events, b.Events[i])
				}
				for _, x := range judge(b2, runBlock(b2), func(string) {}) {
					if x.sig == v.sig {
						return true
					}
				}
				return false
			})
			b2 := blockIn{Round: b.Round}
			for _, i := range keep {
				b2.Events = append(b2.Events, b.Events[i])
			}
			rep.Violate(v.sig, v.desc, b2)
		}
	}
	additiveInTable := map[string]bool{}
	for _, m := range loadMergers() {
		additiveInTable[m.Tag] = m.Kind == "EmMerge" && m.Additive
	}
	handleFields := func(b fblock) {
		out := runFields(b)
		vs := judgeFields(b, out)
		rep.Count("field-block-" + b.Tag)
		dup, zero := false, false
		seen := map[int]bool{}
		for _, e := range b.Events {
			dup = dup || seen[e.Index]
			seen[e.Index] = true
			for fi, f := range e.Fields {
				zero = zero || len(f) == 0 || (b.Fields[fi].Kind == "scalar" && f[0].Val == 0)
			}
		}
		key, _ := json.Marshal(b)
		rep.Case(string(key), dup && zero, blockIn{Round: b.Round, Fields: &b})
		// a tag that is not MfAdd in the table (the penalty tag under the overwrite middleware) is judged by the oracle only
		// (busy blocks beyond 140 events are judged by the oracle only: the case files stay small)
		if out.err == "" && additiveInTable[b.Tag] && len(b.Events) <= 140 {
			cf.Add(coqFieldCase(b, out))
			rep.CaseInputs = append(rep.CaseInputs, blockIn{Round: b.Round, Fields: &b})
		}
		for _, v := range vs {
			dupSig := false
			for _, old := range rep.Violations {
				dupSig = dupSig || old.Signature == v.sig
			}
			if dupSig {
				continue
			}
			keep := vh.ShrinkIdx(len(b.Events), func(keep []int) bool {
				b2 := b
				b2.Round += 100000
				b2.Events = nil
				for _, i := range keep {
					b2.Events = append(b2.Events, b.Events[i])
				}
				for _, x := range judgeFields(b2, runFields(b2)) {
					if x.sig == v.sig {
						return true
					}
				}
				return false
			})
			b2 := b
			b2.Events = nil
			for _, i := range keep {
				b2.Events = append(b2.Events, b.Events[i])
			}
			rep.Violate(v.sig, v.desc, blockIn{Round: b.Round, Fields: &b2})
		}
	}
	var tround int64 = 500000
	handleTickets := func(h thist) {
		res := runTickets(h, &tround)
		rep.Count("ticket-history")
		key, _ := json.Marshal(h)
		rep.Case("tickets:"+string(key), len(h.Blocks) >= 2, blockIn{Ticket: &h})
		for i := range res.blocks {
			cf.Add(coqCase(res.blocks[i], res.outs[i]))
			rep.CaseInputs = append(rep.CaseInputs, blockIn{Ticket: &h})
		}
		for _, v := range res.vs {
			dupSig := false
			for _, old := range rep.Violations {
				dupSig = dupSig || old.Signature == v.sig
			}
			if dupSig {
				continue
			}
			// shrink: drop blocks, then burns, while the signature stays
			fails := func(h2 thist) bool {
				if len(h2.Blocks) == 0 {
					return false
				}
				for _, x := range runTickets(h2, &tround).vs {
					if x.sig == v.sig {
						return true
					}
				}
				return false
			}
			type pos struct{ b, i int }
			var all []pos
			for b := range h.Blocks {
				for i := range h.Blocks[b].Burns {
					all = append(all, pos{b, i})
				}
			}
			build := func(keep []int) thist {
				h2 := thist{Blocks: make([]tblock, len(h.Blocks))}
				for b := range h.Blocks {
					h2.Blocks[b].Dup = h.Blocks[b].Dup
				}
				for _, k := range keep {
					h2.Blocks[all[k].b].Burns = append(h2.Blocks[all[k].b].Burns, h.Blocks[all[k].b].Burns[all[k].i])
				}
				var nb []tblock
				for _, b := range h2.Blocks {
					if len(b.Burns) > 0 {
						nb = append(nb, b)
					}
				}
				h2.Blocks = nb
				return h2
			}
			keep := vh.ShrinkIdx(len(all), func(keep []int) bool { return fails(build(keep)) })
			hs := build(keep)
			rep.Violate(v.sig, v.desc, blockIn{Ticket: &hs})
		}
	}
	finish := func() {
		files, err := cf.Write(o.Out, "C20")
		must(err)
		rep.CaseFiles = files
		rep.ShardSize = 100
		rep.Write(o.Out)
	}
	var rb blockIn
	if o.LoadReplay(&rb) {
		if rb.Round == 0 {
			rb.Round = 1
		}
		if rb.Ticket != nil {
			handleTickets(*rb.Ticket)
		} else if rb.Fields != nil {
			rb.Fields.Round = rb.Round
			handleFields(*rb.Fields)
		} else {
			handle(rb)
		}
		finish()
		return
	}
	// directed blocks first
	round := int64(1)
	for _, es := range [][]ev{
		{{Kind: "burn", Index: 1, Amount: 5}, {Kind: "aburn", Index: 11, Amount: 5}, {Kind: "burn", Index: 1, Amount: 7}, {Kind: "aburn", Index: 11, Amount: 7}},
		{{Kind: "burn", Index: 1, Amount: 5}, {Kind: "burn", Index: 2, Amount: 9}},
		{{Kind: "mint", Index: 3, Amount: 4}, {Kind: "mint", Index: 3, Amount: 6}},
		{{Kind: "lock", Index: 7, Amount: 5}, {Kind: "lock", Index: 8, Amount: 9}, {Kind: "lock", Index: 7, Amount: 7}, {Kind: "chain"}, {Kind: "unique", Index: 2}, {Kind: "error"}},
		{{Kind: "burn", Index: 1, Amount: 5}},
	} {
		handle(blockIn{Round: round, Events: es})
		round++
	}
	rnd := vh.NewRand(o.Seed)
	for i := 0; i < o.N(400, 6000); i++ {
		handle(genBlock(rnd, round))
		round++
	}
	// burn-ticket histories through the real ProcessEvents
	trnd := vh.NewRand(o.Seed ^ 0x71c4)
	handleTickets(thist{Blocks: []tblock{{Burns: []tburn{{1, 1, 100}}}, {Burns: []tburn{{1, 2, 200}, {2, 1, 300}}}, {Burns: []tburn{{2, 2, 400}, {2, 3, 500}}}}})
	for i := 0; i < o.N(40, 600); i++ {
		handleTickets(genTickets(trnd))
	}
	// every additive merger of the generated table, field by field
	type target struct {
		tag string
		fs  []genField
	}
	var targets []target
	for _, m := range loadMergers() {
		if m.Kind != "EmMerge" || keyedReplace[m.Tag] {
			continue
		}
		p, ok := payloads[m.Tag]
		if !ok {
			rep.Violate("C20:additive-merger-not-exercised:"+m.Tag, "the merger table has a withEventMerge merger for "+m.Tag+" ("+m.Type+") the engine has no payload for", nil)
			continue
		}
		if !m.Additive || !sameFields(m.Fields, p.spec) {
			rep.Note("merge function of %s: the translator reads [%s] %s, the handler consumes [%s]; exercised with the handler's fields", m.Tag, fieldNames(m.Fields), m.Why, fieldNames(p.spec))
		}
		targets = append(targets, target{m.Tag, p.spec})
	}
	if !additiveInTable["TagStakePoolPenalty"] {
		targets = append(targets, target{"TagStakePoolPenalty", payloads["TagStakePoolPenalty"].spec})
	}
	frnd := vh.NewRand(o.Seed ^ 0x5eed)
	for _, t := range targets {
		for mask := 0; mask < 1<<len(t.fs); mask++ {
			for _, oddFirst := range []bool{false, true} {
				handleFields(directedFields(frnd, t.tag, t.fs, mask, oddFirst, round))
				round++
			}
		}
		for i := 0; i < o.N(12, 300); i++ {
			handleFields(genFields(frnd, t.tag, t.fs, round))
			round++
		}
		// busy blocks: 65-300 distinct identities
		for i, d := range []int{frnd.Range(65, 72), frnd.Range(66, 127), frnd.Range(129, 200), frnd.Range(200, 300)} {
			if i >= o.N(3, 4) {
				break
			}
			handleFields(busyFields(frnd, t.tag, t.fs, d, round))
			round++
		}
	}
	rep.Note("authorizer totals are compared on the merged event (what reaches updateAuthorizersTotalBurn / the mint handler): those handlers use PostgreSQL-only SQL (unnest) and cannot run on sqlite; burn_tickets rows are read back from the sqlite EventDb")
	_ = sort.Ints
	_ = strings.TrimSpace
	finish()
}
