(* C03: each account's transactions apply once, in strict nonce order.
   Only statements; each is closed by [exact] of a lemma in Proof/ChainStateC03.v.
   Nonces are int64 in the code: [cs_wrap_i64] is the wrap of nonce+1; the history theorems
   carry the hypothesis that no nonce reaches 2^63 (initial nonce + history length < 2^63). *)
From ZC Require Import Model.ChainState Proof.ChainState Proof.ChainStateC03.
Open Scope Z_scope.

(* Applied => the transaction's nonce is the sender's nonce in state plus one.  Every
   configuration, state, transaction type, contract oracle result and id. *)
Theorem C03_applied_iff_next_nonce :
  forall cfg st round tx r st' s o e,
    cs_update_state cfg st round tx r = Applied st' s o e ->
    tx_nonce tx = cs_wrap_i64 (cs_nonce (st_accts st) (tx_from tx) + 1).
Proof. exact cs_c03_applied_next_nonce. Qed.
Print Assumptions C03_applied_iff_next_nonce.

Theorem C03_applied_next_nonce_exact :
  forall cfg st round tx r st' s o e,
    0 <= cs_nonce (st_accts st) (tx_from tx) < cs_two63 - 1 ->
    cs_update_state cfg st round tx r = Applied st' s o e ->
    tx_nonce tx = cs_nonce (st_accts st) (tx_from tx) + 1.
Proof. exact cs_c03_applied_next_nonce_exact. Qed.
Print Assumptions C03_applied_next_nonce_exact.

(* Any other nonce (duplicate, skipped, past, future): not applied, state unchanged. *)
Theorem C03_wrong_nonce_rejected :
  forall cfg st round tx r,
    tx_nonce tx <> cs_wrap_i64 (cs_nonce (st_accts st) (tx_from tx) + 1) ->
    cs_is_applied (cs_update_state cfg st round tx r) = false /\
    cs_post st (cs_update_state cfg st round tx r) = st.
Proof. exact cs_c03_wrong_nonce_rejected. Qed.
Print Assumptions C03_wrong_nonce_rejected.

(* Every applied transaction - successful or chargeably failed - raises the sender's nonce by
   exactly one and no other account's nonce.  (Ids in canonical spelling, see C01.) *)
Theorem C03_applied_bumps_by_one :
  forall cfg st round tx r st' s o e,
    cs_canon_accts (st_accts st) -> cs_canon_txn cfg tx r ->
    cs_update_state cfg st round tx r = Applied st' s o e ->
    cs_nonce (st_accts st') (tx_from tx) = cs_wrap_i64 (cs_nonce (st_accts st) (tx_from tx) + 1) /\
    (forall id, id <> tx_from tx -> cs_nonce (st_accts st') id = cs_nonce (st_accts st) id).
Proof. exact cs_c03_applied_bumps. Qed.
Print Assumptions C03_applied_bumps_by_one.

Theorem C03_rejected_keeps_state :
  forall cfg st round tx r,
    cs_is_applied (cs_update_state cfg st round tx r) = false ->
    cs_post st (cs_update_state cfg st round tx r) = st.
Proof. exact cs_c03_rejected_keeps. Qed.
Print Assumptions C03_rejected_keeps_state.

(* Over any history (any senders, any nonces, any order, any contract behaviour): the nonces of
   the applied transactions of a sender are n0+1, n0+2, ... in order of application, and the
   sender's final nonce is n0 + their number. *)
Theorem C03_history_consecutive :
  forall cfg h st s,
    cs_canon_accts (st_accts st) -> Forall (cs_canon_item cfg) h ->
    0 <= cs_nonce (st_accts st) s -> cs_nonce (st_accts st) s + Z.of_nat (length h) < cs_two63 ->
    cs_consecutive (cs_nonce (st_accts st) s) (cs_applied_nonces cfg st h s) /\
    cs_nonce (st_accts (cs_run cfg st h)) s =
      cs_nonce (st_accts st) s + Z.of_nat (length (cs_applied_nonces cfg st h s)).
Proof. exact cs_c03_history. Qed.
Print Assumptions C03_history_consecutive.

(* Hence no nonce is applied twice (no signed transaction can be applied twice) and none is
   skipped: the i-th applied nonce is n0 + 1 + i. *)
Theorem C03_no_double_apply_no_gap :
  forall cfg h st s,
    cs_canon_accts (st_accts st) -> Forall (cs_canon_item cfg) h ->
    0 <= cs_nonce (st_accts st) s -> cs_nonce (st_accts st) s + Z.of_nat (length h) < cs_two63 ->
    NoDup (cs_applied_nonces cfg st h s) /\
    (forall i, (i < length (cs_applied_nonces cfg st h s))%nat ->
               nth i (cs_applied_nonces cfg st h s) 0 = cs_nonce (st_accts st) s + 1 + Z.of_nat i).
Proof. exact cs_c03_no_double_apply. Qed.
Print Assumptions C03_no_double_apply_no_gap.

(* Block generation (miner.validateTransaction) calls a nonce "current" exactly when
   validateNonce in updateState accepts it. *)
Theorem C03_classify_sound :
  forall n t, cs_i64 n -> cs_i64 t ->
    (cs_classify (Some n) t = ClsCurrent <-> cs_wrap_i64 (n + 1) = t).
Proof. exact cs_c03_classify_sound. Qed.
Print Assumptions C03_classify_sound.

Theorem C03_classify_absent_leaf :
  forall t, cs_classify None t = ClsCurrent <-> t = 1.
Proof. exact cs_c03_classify_absent. Qed.
Print Assumptions C03_classify_absent_leaf.

(* Non-vacuity: duplicates, a gap, a past and a future nonce around three applied ones (one of
   them a chargeably failed call). *)
Example C03_example :
  let cfg := {| cfg_fee := true; cfg_events := false; cfg_miner := 0; cfg_strict_ids := true |} in
  let A b n := {| ac_bal := b; ac_nonce := n; ac_txn := -1; ac_round := 0 |} in
  let st := {| st_accts := [(1, A 50 0); (3, A 100 4)]; st_nodes := [] |} in
  let tx n ty := {| tx_hash := n; tx_type := ty; tx_from := 3; tx_to := 1; tx_value := 0; tx_fee := 1; tx_nonce := n |} in
  let h := [(1, tx 5 TData, SCInternal); (1, tx 5 TData, SCInternal); (1, tx 7 TData, SCInternal);
            (1, tx 6 TSC, SCChargeable 9); (1, tx 4 TData, SCInternal); (1, tx 9 TData, SCInternal);
            (1, tx 7 TSC, SCOk [] [] [] [] 0)] in
  map cs_is_applied (cs_outcomes cfg st h) = [true; false; false; true; false; false; true] /\
  cs_applied_nonces cfg st h 3 = [5; 6; 7] /\
  cs_nonce (st_accts (cs_run cfg st h)) 3 = 7.
Proof. vm_compute. repeat split; reflexivity. Qed.
