// Engine for C28: executes random blocks on a real MerklePatriciaTrie over the previous block's
// state, publishes the change set with the real block.NewBlockStateChange, and applies the honest
// and every tampered variant with the real Block.ApplyBlockStateChange (stub Chainer) on a syncing
// copy of the block.  Oracle = the property; one Gallina case per application.
package main

import (
	"bytes"
	"context"
	"encoding/hex"
	"fmt"
	"sort"

	"0chain.net/chaincore/block"
	"0chain.net/chaincore/state"
	"0chain.net/chaincore/transaction"
	"0chain.net/core/datastore"
	"0chain.net/core/encryption"
	"0chain.net/core/memorystore"
	"0chain.net/smartcontract/dbs/event"
	"github.com/0chain/common/core/logging"
	"github.com/0chain/common/core/statecache"
	"github.com/0chain/common/core/util"
	"verifharness/vh"
)

// ---------- replayable input ----------

type op struct {
	K   int    `json:"k"`             // key index
	V   string `json:"v,omitempty"`   // value; "" = delete
}
type hist struct {
	Prev    []op   `json:"prev"`    // state of the previous block
	Ops     []op   `json:"ops"`     // executed by the block
	Tamper  string `json:"tamper"`  // none | block-hash | state-hash | count+1 | count-1 | drop | dup | alter | extra | swap-root | subst | empty | no-compute | no-compute-same
	Idx     int    `json:"idx"`     // node index for drop/dup/alter/swap-root
	PrevGone bool  `json:"prev_gone"` // the syncing node has no computed previous state (falls back to the state DB)
	// Chain: further blocks after Ops; every block of the chain is obtained by state-change sync
	// on top of the previous SYNCED block (nothing persisted in between), then Next is executed on top.
	Chain [][]op `json:"chain,omitempty"`
	Next  []op   `json:"next,omitempty"`
}

type stubChain struct{ db util.NodeDB }

func (s *stubChain) GetPreviousBlock(ctx context.Context, b *block.Block) *block.Block { return nil }
func (s *stubChain) GetBlockStateChange(b *block.Block) error                       { return nil }
func (s *stubChain) ComputeState(ctx context.Context, pb *block.Block, waitC ...chan struct{}) error {
	return nil
}
func (s *stubChain) GetStateDB() util.NodeDB { return s.db }
func (s *stubChain) UpdateState(ctx context.Context, b *block.Block, bState util.MerklePatriciaTrieI, txn *transaction.Transaction,
	blockStateCache *statecache.BlockCache, waitC ...chan struct{}) ([]event.Event, error) {
	return nil, nil
}
func (s *stubChain) GetEventDb() *event.EventDb             { return nil }
func (s *stubChain) GetStateCache() *statecache.StateCache { return statecache.NewStateCache() }

func path(k int) util.Path { return util.Path(encryption.Hash(fmt.Sprintf("key-%d", k))) }

func applyOps(mpt util.MerklePatriciaTrieI, ops []op, want map[int]string) {
	for _, o := range ops {
		if o.V == "" {
			if _, err := mpt.Delete(path(o.K)); err == nil {
				delete(want, o.K)
			}
		} else {
			if _, err := mpt.Insert(path(o.K), &util.SecureSerializableValue{Buffer: []byte(o.V)}); err != nil {
				panic(err)
			}
			want[o.K] = o.V
		}
	}
}

// node table: hash -> small integer id (the model's hash)
type ids struct {
	m map[string]int
}

func (t *ids) id(h []byte) int {
	k := string(h)
	if v, ok := t.m[k]; ok {
		return v
	}
	v := len(t.m) + 1
	t.m[k] = v
	return v
}

func childHashes(n util.Node) [][]byte {
	var out [][]byte
	switch x := n.(type) {
	case *util.FullNode:
		for _, c := range x.Children {
			if c != nil {
				out = append(out, c)
			}
		}
	case *util.ExtensionNode:
		out = append(out, x.NodeKey)
	}
	return out
}

func nodeTerm(t *ids, n util.Node) string {
	var cs []string
	for _, c := range childHashes(n) {
		cs = append(cs, vh.Z(int64(t.id(c))))
	}
	return vh.Pair(vh.Z(int64(t.id(n.GetHashBytes()))), vh.List(cs))
}

type outcome struct {
	status string // ok nochange block-hash state-hash state-root malformed invalid other
	root   []byte
}

func classify(err error) string {
	switch {
	case err == nil:
		return "ok"
	case err == block.ErrBlockHashMismatch:
		return "block-hash"
	case err == block.ErrBlockStateHashMismatch:
		return "state-hash"
	case err == state.ErrMalformedPartialState:
		return "malformed"
	}
	if ce, ok := err.(interface{ Error() string }); ok && len(ce.Error()) >= 16 && ce.Error()[:16] == "state_root_error" {
		return "state-root"
	}
	return "other:" + err.Error()
}

// run executes one history; returns the Coq case, counts, and the first oracle failure.
func run(h hist, kinds map[string]int) (caseTerm string, fail string) {
	defer func() {
		if r := recover(); r != nil {
			caseTerm, fail = "", "publish-or-apply-panics"
		}
	}()
	stateDB := util.NewMemoryNodeDB()
	// previous block, state computed
	pb := block.NewBlock("", 10)
	pb.Hash = encryption.Hash("prev-block")
	pmpt := util.NewMerklePatriciaTrie(util.NewLevelNodeDB(util.NewMemoryNodeDB(), stateDB, false), 10, nil, statecache.NewEmpty())
	want := map[int]string{}
	applyOps(pmpt, h.Prev, want)
	pb.ClientState = pmpt
	pb.ClientStateHash = pmpt.GetRoot()
	pb.SetStateStatus(block.StateSuccessful)
	// the state DB of the syncing node holds the previous state as well
	if err := pmpt.SaveChanges(context.Background(), stateDB, false); err != nil {
		panic(err)
	}
	prevWant := map[int]string{}
	for k, v := range want {
		prevWant[k] = v
	}

	// the block as executed by its generator
	b := block.NewBlock("", 11)
	b.Hash = encryption.Hash("the-block")
	b.PrevBlock = pb
	b.PrevHash = pb.Hash
	b.ClientState = block.CreateStateWithPreviousBlock(pb, stateDB, b.Round)
	applyOps(b.ClientState, h.Ops, want)
	b.ClientStateHash = b.ClientState.GetRoot()
	b.StateChangesCount = b.ClientState.GetChangeCount()
	execRoot := append([]byte{}, b.ClientStateHash...)

	bsc, err := block.NewBlockStateChange(b)
	if err != nil {
		// a block that changes nothing publishes no change set
		kinds["no-change-set:"+err.Error()]++
		return "", ""
	}
	if len(bsc.Nodes) != b.StateChangesCount {
		return "", "change-count-differs-from-published-nodes"
	}
	if h.Tamper == "none" {
		if f := wireCodec(bsc, kinds); f != "" {
			return "", f
		}
	}

	// the syncing node's copy of the block
	pb2 := pb
	if h.PrevGone {
		pb2 = block.NewBlock("", 10)
		pb2.Hash = pb.Hash
		pb2.ClientStateHash = pb.ClientStateHash
	}
	b2 := block.NewBlock("", 11)
	b2.Hash = b.Hash
	b2.PrevBlock = pb2
	b2.PrevHash = pb.Hash
	b2.ClientStateHash = append([]byte{}, execRoot...)
	b2.StateChangesCount = b.StateChangesCount

	// tampered copy of the change set
	cs := &block.StateChange{}
	cs.Version = bsc.Version
	cs.Block = bsc.Block
	cs.Hash = append(util.Key{}, bsc.Hash...)
	cs.StartRoot = bsc.StartRoot
	cs.Nodes = append([]util.Node{}, bsc.Nodes...)
	cs.DeadNodes = append([]util.Node{}, bsc.DeadNodes...)
	idx := 0
	if len(cs.Nodes) > 0 {
		idx = ((h.Idx % len(cs.Nodes)) + len(cs.Nodes)) % len(cs.Nodes)
	}
	compute := true
	honest := false
	switch h.Tamper {
	case "none":
		honest = true
	case "block-hash":
		cs.Block = encryption.Hash("another-block")
	case "state-hash":
		b2.ClientStateHash = encryption.RawHash("another-state") // the block declares another state than the set
	case "count+1":
		b2.StateChangesCount++
	case "count-1":
		b2.StateChangesCount--
	case "drop":
		cs.Nodes = append(cs.Nodes[:idx:idx], cs.Nodes[idx+1:]...)
	case "dup":
		cs.Nodes = append(cs.Nodes, cs.Nodes[idx])
	case "alter":
		cs.Nodes[idx] = alter(cs.Nodes[idx])
	case "extra":
		cs.Nodes = append(cs.Nodes, util.NewLeafNode(util.Path("0"), util.Path("123"), 11, &util.SecureSerializableValue{Buffer: []byte("bogus")}))
	case "swap-root":
		if bytes.Equal(cs.Nodes[idx].GetHashBytes(), cs.Hash) {
			idx = (idx + 1) % len(cs.Nodes)
		}
		if bytes.Equal(cs.Nodes[idx].GetHashBytes(), cs.Hash) {
			kinds["swap-root-not-applicable"]++
			return "", ""
		}
		cs.Hash = cs.Nodes[idx].GetHashBytes()
		b2.ClientStateHash = append([]byte{}, cs.Hash...)
	case "subst":
		// withhold one new node and pad with an old node that the new ones refer to
		old := oldChild(cs.Nodes, pmpt)
		if old == nil || len(cs.Nodes) < 2 {
			kinds["subst-not-applicable"]++
			return "", ""
		}
		di := idx
		if bytes.Equal(cs.Nodes[di].GetHashBytes(), cs.Hash) {
			di = (di + 1) % len(cs.Nodes)
		}
		cs.Nodes = append(cs.Nodes[:di:di], cs.Nodes[di+1:]...)
		cs.Nodes = append(cs.Nodes, old)
	case "drop-dup":
		// one changed leaf withheld, another node sent twice: count, root and block hash stay right
		li := -1
		for k := 0; k < len(cs.Nodes); k++ {
			j := (idx + k) % len(cs.Nodes)
			if _, ok := cs.Nodes[j].(*util.LeafNode); ok && !bytes.Equal(cs.Nodes[j].GetHashBytes(), cs.Hash) {
				li = j
				break
			}
		}
		if li < 0 || len(cs.Nodes) < 2 {
			kinds["drop-dup-not-applicable"]++
			return "", ""
		}
		dj := (li + 1) % len(cs.Nodes)
		dupNode := cs.Nodes[dj]
		cs.Nodes = append(cs.Nodes[:li:li], cs.Nodes[li+1:]...)
		cs.Nodes = append(cs.Nodes, dupNode)
	case "empty":
		cs.Nodes = nil
	case "no-compute":
		compute = false
	case "no-compute-same":
		compute = false
		b2.ClientStateHash = append([]byte{}, pb.ClientStateHash...)
		cs.Hash = append(util.Key{}, pb.ClientStateHash...)
	default:
		panic("tamper " + h.Tamper)
	}

	prevRootBefore := append([]byte{}, pmpt.GetRoot()...)
	var out outcome
	if compute {
		// as received from the network: encoded, decoded (separate node objects) and validated by
		// the entity framework (FromMsgpack runs ComputeProperties)
		wire := datastore.ToMsgpack(cs).Bytes()
		rx := block.StateChangeProvider().(*block.StateChange)
		if err := datastore.FromMsgpack(wire, rx); err != nil {
			out.status = "invalid"
		} else {
			cs = rx
		}
	}
	if out.status == "" {
		err := b2.ApplyBlockStateChange(cs, &stubChain{db: stateDB})
		out.status = classify(err)
		if err == nil && b2.ClientState == nil {
			out.status = "nochange"
		}
		if err == nil && b2.ClientState != nil {
			out.root = b2.ClientState.GetRoot()
		}
	}
	kinds[h.Tamper+"->"+out.status]++

	// ---------- oracle: the property statement ----------
	readAll := func(m util.MerklePatriciaTrieI, exp map[int]string) (wrong, missing int) {
		for k, v := range exp {
			var got util.SecureSerializableValue
			err := m.GetNodeValue(path(k), &got)
			switch {
			case err != nil:
				missing++
			case string(got.Buffer) != v:
				wrong++
			}
		}
		return
	}
	switch {
	case honest:
		if out.status != "ok" {
			fail = "honest-change-rejected"
		} else if !bytes.Equal(out.root, execRoot) {
			fail = "honest-change-other-root"
		} else if w, m := readAll(b2.ClientState, want); w+m > 0 {
			fail = "honest-change-state-differs"
		} else {
			// deleted keys are gone
			for k := range prevWant {
				if _, ok := want[k]; !ok {
					var got util.SecureSerializableValue
					if b2.ClientState.GetNodeValue(path(k), &got) == nil {
						fail = "honest-change-state-differs"
					}
				}
			}
		}
	case h.Tamper == "block-hash" || h.Tamper == "state-hash" || h.Tamper == "count+1" || h.Tamper == "count-1":
		if out.status == "ok" || out.status == "nochange" {
			fail = "mismatching-change-accepted:" + h.Tamper
		}
	case h.Tamper == "drop" || h.Tamper == "dup" || h.Tamper == "extra" || h.Tamper == "empty" || h.Tamper == "drop-dup":
		// the node count no longer matches the block's
		if out.status == "ok" || out.status == "nochange" {
			fail = "mismatching-change-accepted:" + h.Tamper
		}
	case h.Tamper == "alter" || h.Tamper == "swap-root":
		if out.status == "ok" || out.status == "nochange" {
			fail = "altered-change-accepted:" + h.Tamper
		}
	}
	if !honest && out.status == "ok" && fail == "" {
		// whatever is accepted must be the declared state: every key of the executed state reads back
		w, m := readAll(b2.ClientState, want)
		if w > 0 {
			fail = "accepted-change-yields-wrong-value"
		} else if m > 0 {
			kinds["accepted-incomplete-state"]++
			fail = "accepted-incomplete-state:" + h.Tamper
		}
	}
	if out.status != "ok" && fail == "" {
		// rejected: the block got no state and the local previous state is what it was
		if b2.ClientState != nil && out.status != "nochange" {
			fail = "rejected-change-left-a-state"
		}
		if !bytes.Equal(pmpt.GetRoot(), prevRootBefore) {
			fail = "rejected-change-touched-previous-state"
		}
		if w, m := readAll(pmpt, prevWant); w+m > 0 {
			fail = "rejected-change-touched-previous-state"
		}
	}
	if len(out.status) > 5 && out.status[:5] == "other" && fail == "" {
		fail = "unexpected-error"
	}

	// ---------- Coq case ----------
	t := &ids{m: map[string]int{}}
	var nodes []string
	for _, n := range cs.Nodes {
		nodes = append(nodes, nodeTerm(t, n))
	}
	var local []string
	if hs, ok := collect(pmpt); ok {
		for _, n := range hs {
			local = append(local, nodeTerm(t, n))
		}
	}
	prevState := "None"
	if b2.PrevBlock != nil {
		prevState = vh.Some(vh.Z(int64(t.id(b2.PrevBlock.ClientStateHash))))
	}
	bh := func(s string) string { return vh.Z(int64(t.id([]byte("blk:" + s)))) }
	st := map[string]string{"ok": "SoOk", "nochange": "SoNoChange", "block-hash": "(SoErr EBlockHash)", "state-hash": "(SoErr EStateHash)",
		"state-root": "(SoErr EStateRoot)", "malformed": "(SoErr EMalformed)", "invalid": "(SoErr EInvalid)"}[out.status]
	if st == "" {
		st = "SoOther"
	}
	rootT := "0"
	if out.root != nil {
		rootT = vh.Z(int64(t.id(out.root)))
	}
	caseTerm = fmt.Sprintf("{| scc_local := "+vh.List(local)+"; scc_block := {| sb_hash := %s; sb_state := %s; sb_count := %s; sb_prev_state := %s |}; "+
		"scc_change := {| sc_blk := %s; sc_root := %s; sc_nodes := %s |}; scc_computed := %s; scc_status := %s; scc_root := %s |}",
		bh(b2.Hash), vh.Z(int64(t.id(b2.ClientStateHash))), vh.Nat(b2.StateChangesCount), prevState,
		bh(cs.Block), vh.Z(int64(t.id(cs.Hash))), vh.List(nodes), vh.Bool(compute), st, rootT)
	return caseTerm, fail
}

// runChain: blocks 1..K executed by a generator, each published with NewBlockStateChange; a syncing
// node that holds only the persisted previous state applies them one after the other, each on top
// of the previous synced block; after every apply every key of the executed state must read back,
// and a block executed on top of the last synced state must give the generator's root.
func runChain(h hist, kinds map[string]int) (terms []string, fail string) {
	defer func() {
		if r := recover(); r != nil {
			terms, fail = nil, "publish-or-apply-panics"
		}
	}()
	stateDB := util.NewMemoryNodeDB()
	pb := block.NewBlock("", 10)
	pb.Hash = encryption.Hash("prev-block")
	pmpt := util.NewMerklePatriciaTrie(util.NewLevelNodeDB(util.NewMemoryNodeDB(), stateDB, false), 10, nil, statecache.NewEmpty())
	want := map[int]string{}
	applyOps(pmpt, h.Prev, want)
	pb.ClientState = pmpt
	pb.ClientStateHash = pmpt.GetRoot()
	pb.SetStateStatus(block.StateSuccessful)
	if err := pmpt.SaveChanges(context.Background(), stateDB, false); err != nil {
		panic(err)
	}
	// the syncing node's previous block: same state, read from the persisted DB
	spb := block.NewBlock("", 10)
	spb.Hash = pb.Hash
	spb.ClientStateHash = pb.ClientStateHash
	spb.ClientState = util.NewMerklePatriciaTrie(util.NewLevelNodeDB(util.NewMemoryNodeDB(), stateDB, false), 10, pb.ClientStateHash, statecache.NewEmpty())
	spb.SetStateStatus(block.StateSuccessful)

	all := append([][]op{h.Ops}, h.Chain...)
	gprev, sprev := pb, spb
	for i, ops := range all {
		rnd := int64(11 + i)
		gb := block.NewBlock("", rnd)
		gb.Hash = encryption.Hash(fmt.Sprintf("chain-block-%d", i))
		gb.PrevBlock, gb.PrevHash = gprev, gprev.Hash
		gb.ClientState = block.CreateStateWithPreviousBlock(gprev, stateDB, rnd)
		applyOps(gb.ClientState, ops, want)
		gb.ClientStateHash = gb.ClientState.GetRoot()
		gb.StateChangesCount = gb.ClientState.GetChangeCount()
		gb.SetStateStatus(block.StateSuccessful)
		bsc, err := block.NewBlockStateChange(gb)
		if err != nil {
			kinds["chain-no-change-set"]++
			return terms, "" // a block that changes nothing ends the chain
		}
		if f := wireCodec(bsc, kinds); f != "" {
			return terms, f
		}
		wire := datastore.ToMsgpack(bsc).Bytes()
		rx := block.StateChangeProvider().(*block.StateChange)
		if err := datastore.FromMsgpack(wire, rx); err != nil {
			return terms, "honest-change-rejected"
		}
		sb := block.NewBlock("", rnd)
		sb.Hash = gb.Hash
		sb.PrevBlock, sb.PrevHash = sprev, sprev.Hash
		sb.ClientStateHash = append([]byte{}, gb.ClientStateHash...)
		sb.StateChangesCount = gb.StateChangesCount
		var local []util.Node
		if sprev.ClientState != nil {
			local, _ = collect(sprev.ClientState)
		}
		err = sb.ApplyBlockStateChange(rx, &stubChain{db: stateDB})
		kinds[fmt.Sprintf("chain-block-%d->%s", min(i, 3), classify(err))]++
		if err != nil || sb.ClientState == nil {
			return terms, "honest-change-rejected"
		}
		if !bytes.Equal(sb.ClientState.GetRoot(), gb.ClientStateHash) {
			return terms, "honest-change-other-root"
		}
		// every key of the executed state, not only the root
		for k, v := range want {
			var got util.SecureSerializableValue
			if err := sb.ClientState.GetNodeValue(path(k), &got); err != nil || string(got.Buffer) != v {
				return terms, "synced-chain-state-differs"
			}
		}
		if _, ok := collect(sb.ClientState); !ok {
			return terms, "synced-chain-state-differs"
		}
		// Coq case for this apply
		t := &ids{m: map[string]int{}}
		var nodes, loc []string
		for _, n := range rx.Nodes {
			nodes = append(nodes, nodeTerm(t, n))
		}
		for _, n := range local {
			loc = append(loc, nodeTerm(t, n))
		}
		bh := vh.Z(int64(t.id([]byte("blk:" + sb.Hash))))
		rootT := vh.Z(int64(t.id(sb.ClientStateHash)))
		terms = append(terms, fmt.Sprintf("{| scc_local := %s; scc_block := {| sb_hash := %s; sb_state := %s; sb_count := %s; sb_prev_state := %s |}; "+
			"scc_change := {| sc_blk := %s; sc_root := %s; sc_nodes := %s |}; scc_computed := true; scc_status := SoOk; scc_root := %s |}",
			vh.List(loc), bh, rootT, vh.Nat(sb.StateChangesCount), vh.Some(vh.Z(int64(t.id(sprev.ClientStateHash)))),
			bh, vh.Z(int64(t.id(rx.Hash))), vh.List(nodes), rootT))
		gprev, sprev = gb, sb
	}
	// one more block executed on top of the last synced state and on top of the generator's
	if len(h.Next) > 0 {
		rnd := int64(11 + len(all))
		gs := block.CreateStateWithPreviousBlock(gprev, stateDB, rnd)
		ss := block.CreateStateWithPreviousBlock(sprev, stateDB, rnd)
		w2 := map[int]string{}
		func() {
			defer func() {
				if recover() != nil {
					fail = "execution-on-synced-state-fails"
				}
			}()
			applyOps(gs, h.Next, w2)
			applyOps(ss, h.Next, map[int]string{})
		}()
		if fail == "" && !bytes.Equal(gs.GetRoot(), ss.GetRoot()) {
			fail = "execution-on-synced-state-differs"
		}
		kinds["chain-next-block-executed"]++
	}
	return terms, fail
}

// wireCodec: the published state change encoded and decoded (msgpack and JSON) keeps its nodes
// and its dead nodes as sets, its root and its block hash.
func wireCodec(bsc *block.StateChange, kinds map[string]int) string {
	set := func(ns []util.Node) string {
		var hs []string
		for _, n := range ns {
			if n != nil {
				hs = append(hs, n.GetHash())
			}
		}
		sort.Strings(hs)
		return fmt.Sprint(hs)
	}
	for _, codec := range []string{"msgpack", "json"} {
		rx := block.StateChangeProvider().(*block.StateChange)
		var err error
		if codec == "json" {
			err = datastore.FromJSON(datastore.ToJSON(bsc).Bytes(), rx)
		} else {
			err = datastore.FromMsgpack(datastore.ToMsgpack(bsc).Bytes(), rx)
		}
		kinds["wire-codec-"+codec]++
		switch {
		case err != nil:
			return "wire-codec-decode-fails:" + codec
		case set(rx.Nodes) != set(bsc.Nodes):
			return "wire-codec-changes-nodes:" + codec
		case set(rx.DeadNodes) != set(bsc.DeadNodes):
			return "wire-codec-changes-dead-nodes:" + codec
		case !bytes.Equal(rx.Hash, bsc.Hash) || rx.Block != bsc.Block:
			return "wire-codec-changes-root-or-block:" + codec
		}
	}
	return ""
}

// collect returns every node of the trie's state.
func collect(m util.MerklePatriciaTrieI) (out []util.Node, ok bool) {
	ok = true
	root := m.GetRoot()
	if len(root) == 0 {
		return nil, true
	}
	var walk func(h []byte)
	walk = func(h []byte) {
		n, err := m.GetNodeDB().GetNode(h)
		if err != nil || n == nil {
			ok = false
			return
		}
		out = append(out, n)
		for _, c := range childHashes(n) {
			walk(c)
		}
	}
	walk(root)
	return
}

// alter returns a node with the same shape and another content (so another hash).
func alter(n util.Node) util.Node {
	switch x := n.(type) {
	case *util.LeafNode:
		c := x.Clone().(*util.LeafNode)
		c.SetValue(&util.SecureSerializableValue{Buffer: append([]byte("tampered:"), x.GetValueBytes()...)})
		return c
	case *util.FullNode:
		c := x.Clone().(*util.FullNode)
		for i := range c.Children {
			if c.Children[i] == nil {
				c.Children[i] = encryption.RawHash("bogus child")
				return c
			}
		}
		c.Children[0] = nil
		return c
	case *util.ExtensionNode:
		c := x.Clone().(*util.ExtensionNode)
		c.Path = append(util.Path{}, c.Path...)
		if len(c.Path) > 0 {
			if c.Path[0] == '0' {
				c.Path[0] = '1'
			} else {
				c.Path[0] = '0'
			}
		}
		return c
	}
	return n
}

// oldChild finds a node of the previous state that a new node refers to.
func oldChild(nodes []util.Node, prev util.MerklePatriciaTrieI) util.Node {
	in := map[string]bool{}
	for _, n := range nodes {
		in[string(n.GetHashBytes())] = true
	}
	for _, n := range nodes {
		for _, c := range childHashes(n) {
			if !in[string(c)] {
				if old, err := prev.GetNodeDB().GetNode(c); err == nil {
					return old
				}
			}
		}
	}
	return nil
}

func genOps(r *vh.Rand, n, keys int, delOK bool) []op {
	var ops []op
	for i := 0; i < n; i++ {
		o := op{K: r.Intn(keys)}
		if !delOK || !r.Chance(1, 4) {
			o.V = fmt.Sprintf("v%d-%d", r.Intn(5), r.Intn(3))
		}
		ops = append(ops, o)
	}
	return ops
}

func key(h hist) string { return fmt.Sprintf("%v", h) }

var tampers = []string{"none", "block-hash", "state-hash", "count+1", "count-1", "drop", "dup", "alter", "extra", "swap-root", "subst", "drop-dup", "empty", "no-compute", "no-compute-same"}

func main() {
	o := vh.ParseFlags()
	rep := vh.NewReport("statechange", "C28", o)
	rep.CaseInputs = []interface{}{}
	rep.Rule = "previous state of 0-24 keys, block of 1-12 inserts/updates/deletes (also of equal values and of absent keys) over 4-40 colliding keys on the real MPT; " +
		"the published change set applied honestly and with every tampering (other block hash, other declared state hash, count +-1, each node dropped / duplicated / altered, " +
		"chains of 2-5 consecutive blocks each synced on top of the previous synced block (nothing persisted in between), every key compared after each apply and one more block executed on top; an extra node, the root swapped for an inner node, a new node withheld and padded with an old one, empty set, no ComputeProperties) on a syncing copy with and without a computed previous state; " +
		"non-trivial = the change set has at least 3 nodes; distinct by input"
	cf := &vh.CasesFile{Imports: []string{"Base.Corr", "Model.StateChange", "Corr.StateChange"}, CaseType: "scc_case", CheckFn: "scc_check", Shard: 150}
	logging.InitLogging("development", "")
	block.SetupEntity(memorystore.GetStorageProvider())
	block.SetupStateChange(memorystore.GetStorageProvider())

	handle := func(h hist, toCoq bool) {
		kinds := map[string]int{}
		if len(h.Chain) > 0 {
			terms, fail := runChain(h, kinds)
			for k, n := range kinds {
				rep.CountN(k, n)
			}
			rep.Case(key(h), len(terms) >= 2, h)
			if toCoq {
				for _, tm := range terms {
					cf.Add(tm)
					rep.CaseInputs = append(rep.CaseInputs, h)
				}
			}
			if fail != "" {
				h2 := h
				for len(h2.Chain) > 1 { // shortest failing chain
					h3 := h2
					h3.Chain = h2.Chain[:len(h2.Chain)-1]
					if _, f := runChain(h3, map[string]int{}); f != fail {
						break
					}
					h2 = h3
				}
				rep.Violate("C28:"+fail, "chain of synced blocks: "+fail, h2)
			}
			return
		}
		term, fail := run(h, kinds)
		for k, n := range kinds {
			rep.CountN(k, n)
		}
		if term == "" && fail == "" {
			return
		}
		rep.Case(key(h), len(h.Ops) >= 2, h)
		if toCoq && term != "" {
			cf.Add(term)
			rep.CaseInputs = append(rep.CaseInputs, h)
		}
		if fail != "" {
			// minimise the executed ops and the previous state
			h2 := h
			keepO := vh.ShrinkIdx(len(h.Ops), func(keep []int) bool {
				h3 := h2
				h3.Ops = nil
				for _, i := range keep {
					h3.Ops = append(h3.Ops, h.Ops[i])
				}
				_, f := run(h3, map[string]int{})
				return f == fail
			})
			var ops []op
			for _, i := range keepO {
				ops = append(ops, h.Ops[i])
			}
			h2.Ops = ops
			keepP := vh.ShrinkIdx(len(h.Prev), func(keep []int) bool {
				h3 := h2
				h3.Prev = nil
				for _, i := range keep {
					h3.Prev = append(h3.Prev, h.Prev[i])
				}
				_, f := run(h3, map[string]int{})
				return f == fail
			})
			var prev []op
			for _, i := range keepP {
				prev = append(prev, h.Prev[i])
			}
			h2.Prev = prev
			rep.Violate("C28:"+fail, "state change sync: "+fail, h2)
		}
	}

	var rh hist
	if o.LoadReplay(&rh) {
		handle(rh, true)
	} else {
		rnd := vh.NewRand(o.Seed)
		// chains of 2-5 consecutive blocks, all obtained by sync, nothing persisted in between
		for i := 0; i < o.N(40, 400); i++ {
			keys := rnd.Range(4, 40)
			h := hist{Tamper: "none", Prev: genOps(rnd, rnd.Range(0, 24), keys, false), Ops: genOps(rnd, rnd.Range(1, 8), keys, true),
				Next: genOps(rnd, rnd.Range(1, 6), keys, true)}
			for j := rnd.Range(1, 4); j > 0; j-- {
				h.Chain = append(h.Chain, genOps(rnd, rnd.Range(1, 8), keys, true))
			}
			handle(h, i < o.N(15, 60))
		}
		for i := 0; i < o.N(60, 600); i++ {
			keys := rnd.Range(4, 40)
			base := hist{Prev: genOps(rnd, rnd.Range(0, 24), keys, false), Ops: genOps(rnd, rnd.Range(1, 12), keys, true), PrevGone: rnd.Chance(1, 5)}
			// the number of nodes is known only after execution: enumerate node indices generously
			for _, tm := range tampers {
				switch tm {
				case "drop", "dup", "alter", "swap-root", "subst", "drop-dup":
					n := o.N(3, 40)
					for j := 0; j < n; j++ {
						h := base
						h.Tamper, h.Idx = tm, j
						if n == 3 {
							h.Idx = rnd.Intn(64)
						}
						handle(h, i < o.N(40, 200) && j == 0)
					}
				default:
					h := base
					h.Tamper = tm
					handle(h, i < o.N(40, 200))
				}
			}
		}
	}
	var notes []string
	for _, n := range rep.Notes {
		notes = append(notes, n)
	}
	sort.Strings(notes)
	rep.Notes = notes
	files, err := cf.Write(o.Out, "C28")
	if err != nil {
		panic(err)
	}
	rep.CaseFiles = files
	rep.ShardSize = 150
	rep.Write(o.Out)
	_ = hex.EncodeToString
}
