(* Concrete states used as refutation witnesses and non-vacuity examples for C12 (and later
   properties): one allocation on two blobbers, a third blobber free to take over. *)
From Coq Require Import ZArith List Bool.
From ZC Require Import Model.F64 Model.Storage Proof.StorageUtil Proof.Storage.
Import ListNotations.
Open Scope Z_scope.

Definition sw_f0 : f64 := f64_of_Z 0.

Definition sw_conf : ss_conf :=
  {| cf_tu_ns := 3600000000000; cf_vr := f64_div (f64_of_Z 1) (f64_of_Z 40); cf_slash := f64_div (f64_of_Z 1) (f64_of_Z 10);
     cf_cancel := f64_div (f64_of_Z 1) (f64_of_Z 5); cf_kill_slash := f64_div (f64_of_Z 1) (f64_of_Z 2);
     cf_max_wp := 1000000000000; cf_min_wp := 0; cf_max_rp := 1000000000000; cf_min_alloc := 1024; cf_min_blobber_cap := 1024;
     cf_mccr := 720; cf_min_lock_w := 10; cf_min_lock_r := 10; cf_nvr := 2;
     cf_free_data := 1; cf_free_parity := 1; cf_free_size := 1048576; cf_free_frac := sw_f0;
     cf_free_max_wp := 1000000000000; cf_free_max_rp := 1000000000000;
     cf_max_indiv_free := 1000000000000; cf_max_total_free := 10000000000000;
     cf_owner := 300; cf_sc := 1000; cf_electra := Some 0; cf_demeter := Some 0; cf_ent := false |}.

Definition sw_blobber (id : Z) (killed : bool) (allocd saved wp offers : Z) : ss_blobber :=
  {| bl_id := id; bl_cap := 107374182400; bl_allocd := allocd; bl_saved := saved; bl_killed := killed; bl_shut := false;
     bl_notavail := false; bl_wp := wp; bl_rp := 100000000; bl_pools := [5000000000000]; bl_offers := offers;
     bl_spkilled := killed; bl_minstake := 0; bl_rewards := 0; bl_wallet := 400 + id |}.

Definition sw_ba (b cpiv used : Z) : ss_balloc :=
  {| ba_blobber := b; ba_size := 1073741824; ba_wp := 1000000000; ba_rp := 100000000; ba_cpiv := cpiv;
     ba_chreward := 0; ba_penalty := 0; ba_returned := 0; ba_readrew := 0; ba_used := used; ba_lf := 1010; ba_ls := 1010;
     ba_tot := 0; ba_open := 0; ba_succ := 0; ba_fail := 0; ba_root := 1; ba_lwm := Some (used, 1010, 0) |}.

Definition sw_alloc (cp : Z) (bas : list ss_balloc) (used : Z) : ss_alloc :=
  {| al_id := 1; al_owner := 100; al_start := 1000; al_exp := 4600; al_size := 1073741824; al_data := 1; al_parity := 1;
     al_wpool := 100000000000; al_mtc := cp; al_mb := 0; al_mtv := 0; al_tpe := false; al_ent := false;
     al_used := used; al_tot := 0; al_open := 0; al_succ := 0; al_fail := 0;
     al_rr := (0, 1000000000000); al_wr := (0, 1000000000000); al_cp := Some cp; al_bas := bas; al_ocs := []; al_chnode := false; al_tu := 3600000000000 |}.

Definition sw_state (a : ss_alloc) (b0 b1 b2 : ss_blobber) : ss_state :=
  {| st_allocs := [a]; st_blobbers := [b0; b1; b2]; st_validators := []; st_rpools := [];
     st_bals := [(100, 100000000000000); (1000, 100000097384982)]; st_assigners := []; st_reads := []; st_chals := [] |}.

(* blobber 0 holds 97384982 of the pool and has been killed; the owner replaces it by blobber 2
   (the code saves the pool since the fix of replaceBlobber; Allocated/offers of the killed blobber stay) *)
Definition sw_killed_state : ss_state :=
  sw_state (sw_alloc 97384982 [sw_ba 0 97384982 104857600; sw_ba 1 0 0] 52428800)
           (sw_blobber 0 true 1073741824 104857600 1000000000 1000000000)
           (sw_blobber 1 false 1073741824 0 1000000000 1000000000)
           (sw_blobber 2 false 0 0 1000000000 0).
Definition sw_killed_txn : Z * Z * ss_op := (1020, 1010, OpUpdate 100 1 0 0 false false (Some 2) (Some 0) None).

(* F-12b: blobber 1 stores 1 GB but holds no value (late marker); it lowered its price; the owner extends *)
Definition sw_wrap_state : ss_state :=
  sw_state (sw_alloc 990000000 [sw_ba 0 990000000 1073741824; sw_ba 1 0 1073741824] 1073741824)
           (sw_blobber 0 false 1073741824 1073741824 1000000000 1000000000)
           (sw_blobber 1 false 1073741824 1073741824 100000000 1000000000)
           (sw_blobber 2 false 0 0 1000000000 0).
Definition sw_wrap_txn : Z * Z * ss_op := (1040, 1010, OpUpdate 100 1 0 0 true false None None None).

(* a healthy history on the same state: upload by blobber 1, then the owner cancels *)
Definition sw_ok_txns : list (Z * Z * ss_op) :=
  [(1040, 1010, OpCommit 1 1 100 2 1 1048576 1040 true); (1050, 1011, OpWPLock 100 1 5000);
   (1060, 1012, OpCancel 100 1)].

(* C09: a free-storage marker worth 10^10 with free_allocation_settings.read_pool_fraction = 0.1:
   9*10^9 are transferred from the contract owner into the write pool, 10^9 appear in the
   recipient's read pool without any transfer. The contract holds exactly the stakes before. *)
Definition sw_free_conf : ss_conf :=
  {| cf_tu_ns := 3600000000000; cf_vr := f64_div (f64_of_Z 1) (f64_of_Z 40); cf_slash := f64_div (f64_of_Z 1) (f64_of_Z 10);
     cf_cancel := f64_div (f64_of_Z 1) (f64_of_Z 5); cf_kill_slash := f64_div (f64_of_Z 1) (f64_of_Z 2);
     cf_max_wp := 1000000000000; cf_min_wp := 0; cf_max_rp := 1000000000000; cf_min_alloc := 1024; cf_min_blobber_cap := 1024;
     cf_mccr := 720; cf_min_lock_w := 10; cf_min_lock_r := 10; cf_nvr := 2;
     cf_free_data := 1; cf_free_parity := 1; cf_free_size := 1048576; cf_free_frac := f64_div (f64_of_Z 1) (f64_of_Z 10);
     cf_free_max_wp := 1000000000000; cf_free_max_rp := 1000000000000;
     cf_max_indiv_free := 1000000000000; cf_max_total_free := 10000000000000;
     cf_owner := 300; cf_sc := 1000; cf_electra := Some 0; cf_demeter := Some 0; cf_ent := false |}.

Definition sw_free_state : ss_state :=
  {| st_allocs := [];
     st_blobbers := [sw_blobber 0 false 0 0 1000000000 0; sw_blobber 1 false 0 0 1000000000 0; sw_blobber 2 false 0 0 1000000000 0];
     st_validators := []; st_rpools := [];
     st_bals := [(300, 100000000000000); (1000, 15000000000000)];
     st_assigners := [{| as_id := 700; as_indiv := 100000000000; as_total := 1000000000000; as_redeemed := 0; as_nonces := []; as_key := 0 |}];
     st_reads := []; st_chals := [] |}.

Definition sw_free_txn : Z * Z * ss_op := (1020, 1010, OpFreeAlloc 7 101 700 101 (Some 10000000000) 1 0 [0; 1]).
