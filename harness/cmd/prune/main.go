// Engine for C27: drives the real chain.finalizeBlock (SaveChanges + dead-node recording at the
// block's round) and chain.pruneClientState over a RocksDB-backed PNodeDB (scratch directory)
// with blocks executed on the real MerklePatriciaTrie, then iterates the full state of every
// finalized block against the persistent node DB.  A recording proxy around the trie's
// ChangeCollector captures the AddChange/DeleteChange calls of every block for the collector model.
package main

import (
	"bytes"
	"context"
	"fmt"
	"os"
	"path/filepath"
	"sort"

	"0chain.net/chaincore/block"
	"0chain.net/chaincore/chain"
	"0chain.net/chaincore/client"
	"0chain.net/chaincore/node"
	"0chain.net/chaincore/round"
	"0chain.net/core/datastore"
	"0chain.net/core/encryption"
	"0chain.net/core/memorystore"
	"0chain.net/core/viper"
	"github.com/0chain/common/core/logging"
	"github.com/0chain/common/core/util"
	"go.uber.org/zap"
	"verifharness/vh"
)

// ---------- replayable input ----------

type op struct {
	K int    `json:"k"`
	V string `json:"v,omitempty"` // "" = delete
}
type step struct {
	Kind string `json:"kind"` // block | prune | rollback
	Back int    `json:"back,omitempty"` // rollback: blocks of the chain abandoned (a fork wins)
	Ops  []op   `json:"ops,omitempty"`
	Skip int    `json:"skip,omitempty"` // rounds skipped before this block (empty rounds)
	Sync string `json:"sync,omitempty"` // block: its state is obtained from the wire-encoded state change ("msgpack" | "json") instead of execution
}
type hist struct {
	Start int    `json:"start"` // round of the first block
	Count int    `json:"count"` // server_chain.state.prune_below_count
	Steps []step `json:"steps"`
}

// ---------- recording proxy around the change collector ----------

type micro struct {
	add      bool
	old, new string // hashes ("" = nil old)
}
type recorder struct {
	util.ChangeCollectorI
	log *[]micro
	org map[string]int64
}

func (r *recorder) AddChange(o, n util.Node) {
	m := micro{add: true, new: n.GetHash()}
	r.org[m.new] = int64(n.GetOrigin())
	if o != nil {
		m.old = o.GetHash()
		r.org[m.old] = int64(o.GetOrigin())
	}
	*r.log = append(*r.log, m)
	r.ChangeCollectorI.AddChange(o, n)
}
func (r *recorder) DeleteChange(o util.Node) {
	r.org[o.GetHash()] = int64(o.GetOrigin())
	*r.log = append(*r.log, micro{old: o.GetHash()})
	r.ChangeCollectorI.DeleteChange(o)
}

// pruneRec wraps the persistent node DB and records the version of every PruneBelowVersion call.
type pruneRec struct {
	*util.PNodeDB
	versions *[]int64
}

func (p *pruneRec) PruneBelowVersion(ctx context.Context, version int64) error {
	*p.versions = append(*p.versions, version)
	return p.PNodeDB.PruneBelowVersion(ctx, version)
}

type bsh struct{}

func (bsh) SaveMagicBlock() chain.MagicBlockSaveFunc { return nil }
func (bsh) UpdatePendingBlock(ctx context.Context, b *block.Block, txns []datastore.Entity) {}
func (bsh) UpdateFinalizedBlock(ctx context.Context, b *block.Block) error                  { return nil }

func path(k int) util.Path { return util.Path(encryption.Hash(fmt.Sprintf("key-%d", k))) }

type ids struct{ m map[string]int }

func (t *ids) id(h string) int {
	if v, ok := t.m[h]; ok {
		return v
	}
	v := len(t.m) + 1
	t.m[h] = v
	return v
}

type blockRec struct {
	synced  bool
	blk     *block.Block
	fork    int
	round   int
	root    []byte
	want    map[int]string
	adds    []string // hashes of the nodes the block saved (its changes)
	dels    []string // hashes recorded dead at its round (GetDeletes)
	micros  []micro
	nodeSet []string // all node hashes of its state (collected when it was finalized)
	origins map[string]int64
}

var minerID = encryption.Hash("verif miner")

func newChain(dir string, count int) *chain.Chain {
	viper.Set("server_chain.state.prune_below_count", count)
	viper.Set("server_chain.block.min_generators", 1)
	viper.Set("server_chain.block.generators_percent", 0.2)
	viper.Set("server_chain.block.consensus.threshold_by_count", 66)
	chain.SetupStateDB(dir)
	c := chain.Provider().(*chain.Chain)
	mb := c.GetCurrentMagicBlock()
	n := node.Provider()
	sig := encryption.NewED25519Scheme()
	if err := sig.GenerateKeys(); err != nil {
		panic(err)
	}
	n.PublicKey = sig.GetPublicKey()
	n.Type = node.NodeTypeMiner
	n.ProtocolStats = &chain.MinerStats{}
	if err := mb.Miners.AddNode(n); err != nil {
		panic(err)
	}
	minerID = n.GetKey()
	c.SetMagicBlock(mb)
	chain.SetServerChain(c)
	return c
}

// allNodes iterates the full state under root against ndb; ok=false when a node is missing.
func allNodes(ndb util.NodeDB, root []byte) (hashes []string, origins map[string]int64, ok bool) {
	origins = map[string]int64{}
	if len(root) == 0 {
		return nil, origins, true
	}
	ok = true
	var walk func(h []byte)
	walk = func(h []byte) {
		n, err := ndb.GetNode(h)
		if err != nil || n == nil {
			ok = false
			return
		}
		hashes = append(hashes, util.ToHex(h))
		origins[util.ToHex(h)] = int64(n.GetOrigin())
		switch x := n.(type) {
		case *util.FullNode:
			for _, c := range x.Children {
				if c != nil {
					walk(c)
				}
			}
		case *util.ExtensionNode:
			walk(x.NodeKey)
		}
	}
	walk(root)
	return
}

type stepOut struct {
	kind     string
	blk      *blockRec
	readable []bool
	ver      int64 // version passed to PruneBelowVersion (-1: none)
	r0       int
}

type result struct {
	org      map[string]int64 // origin of every node hash seen
	outs     []stepOut
	maxLfb   int
	blocks   []*blockRec // the current finalized chain
	readable [][]bool // after every prune step: per finalized block, full iteration succeeded
	chains   [][]*blockRec // the finalized chain at each prune
	all      []*blockRec   // every block ever finalized (hypothesis checks)
	pruneAt  []int    // index into blocks (number of blocks finalized) at each prune
	lfbAt    []int    // lfb round at each prune
	fail     string
	failInfo string
}

func run(h hist, scratch string, kinds map[string]int) (res result) {
	defer func() {
		if r := recover(); r != nil {
			res.fail = "finalize-or-prune-panics"
			res.failInfo = fmt.Sprint(r)
		}
	}()
	dir := filepath.Join(scratch, "db")
	_ = os.RemoveAll(dir)
	_ = os.MkdirAll(filepath.Join(dir, "data/rocksdb/state/log"), 0o755)
	c := newChain(dir, h.Count)
	defer func() {
		chain.CloseStateDB()
		_ = os.RemoveAll(dir)
	}()
	ctx := context.Background()
	pndb := c.GetStateDB().(*util.PNodeDB)
	var versions []int64
	c.VerifSetStateDB(&pruneRec{PNodeDB: pndb, versions: &versions})
	prunedMax := int64(-1)

	// genesis-like latest finalized block with an empty state
	gb := block.NewBlock("", int64(h.Start-1))
	gb.Hash = encryption.Hash(fmt.Sprintf("genesis-%d", h.Start))
	gb.MinerID = minerID
	gb.ClientState = util.NewMerklePatriciaTrie(pndb, util.Sequence(h.Start-1), nil, nil)
	gb.ClientStateHash = gb.ClientState.GetRoot()
	gb.SetStateStatus(block.StateSuccessful)
	gr := round.NewRound(gb.Round)
	c.AddRound(gr)
	gr.Finalize(gb)
	c.SetLatestFinalizedBlock(gb)

	res.org = map[string]int64{}
	prev := gb
	want := map[int]string{}
	rnd := h.Start
	fork := 0
	noSkip := false
	for _, st := range h.Steps {
		switch st.Kind {
		case "block":
			if !noSkip { // after a roll back every round is finalized again (no round is skipped)
				rnd += st.Skip
			}
			b := block.NewBlock("", int64(rnd))
			b.Hash = encryption.Hash(fmt.Sprintf("block-%d-fork-%d", rnd, fork))
			b.MinerID = minerID
			b.RoundRank = 0
			b.PrevBlock = prev // (SetPreviousBlock would renumber the round: rounds can be skipped here)
			b.PrevHash = prev.Hash
			st8 := block.CreateStateWithPreviousBlock(prev, pndb, b.Round)
			rec := &blockRec{round: rnd, blk: b, fork: fork}
			mpt := st8.(*util.MerklePatriciaTrie)
			mpt.ChangeCollector = &recorder{ChangeCollectorI: mpt.ChangeCollector, log: &rec.micros, org: res.org}
			b.ClientState = st8
			for _, o := range st.Ops {
				if o.V == "" {
					if _, err := st8.Delete(path(o.K)); err == nil {
						delete(want, o.K)
						kinds["op-delete"]++
					} else {
						kinds["op-delete-absent"]++
					}
				} else {
					if want[o.K] == o.V {
						kinds["op-insert-same-value"]++
					} else if _, ok := want[o.K]; ok {
						kinds["op-update"]++
					} else {
						kinds["op-insert"]++
					}
					if _, err := st8.Insert(path(o.K), &util.SecureSerializableValue{Buffer: []byte(o.V)}); err != nil {
						panic(err)
					}
					want[o.K] = o.V
				}
			}
			b.ClientStateHash = st8.GetRoot()
			b.StateChangesCount = st8.GetChangeCount()
			b.SetStateStatus(block.StateSuccessful)
			if st.Sync != "" {
				// the node does not execute the block: it receives the published state change over the
				// wire and applies it (GetBlockStateChange -> ApplyBlockStateChange -> MergeDB)
				if bsc, err := block.NewBlockStateChange(b); err == nil {
					rx := block.StateChangeProvider().(*block.StateChange)
					if st.Sync == "json" {
						err = datastore.FromJSON(datastore.ToJSON(bsc).Bytes(), rx)
					} else {
						err = datastore.FromMsgpack(datastore.ToMsgpack(bsc).Bytes(), rx)
					}
					if err != nil {
						res.fail = "state-change-wire-decode-fails"
						res.failInfo = err.Error()
						return
					}
					sb := block.NewBlock("", b.Round)
					sb.Hash, sb.MinerID, sb.RoundRank = b.Hash, b.MinerID, b.RoundRank
					sb.PrevBlock, sb.PrevHash = prev, prev.Hash
					sb.ClientStateHash = append([]byte{}, b.ClientStateHash...)
					sb.StateChangesCount = b.StateChangesCount
					if err := sb.ApplyBlockStateChange(rx, c); err != nil || sb.ClientState == nil {
						res.fail = "honest-state-change-rejected"
						res.failInfo = fmt.Sprint(err)
						return
					}
					b, st8 = sb, sb.ClientState
					rec.blk, rec.synced, rec.micros = sb, true, nil
					kinds["block-state-synced-"+st.Sync]++
				}
			}
			_, changes, _, _ := st8.GetChanges()
			for _, ch := range changes {
				rec.adds = append(rec.adds, ch.New.GetHash())
				res.org[ch.New.GetHash()] = int64(ch.New.GetOrigin())
			}
			for _, d := range st8.GetDeletes() {
				rec.dels = append(rec.dels, d.GetHash())
				res.org[d.GetHash()] = int64(d.GetOrigin())
			}
			sort.Strings(rec.adds)
			sort.Strings(rec.dels)
			if c.GetRound(b.Round) == nil {
				rd := round.NewRound(b.Round)
				rd.SetRandomSeed(int64(rnd)*7919+1, 1)
				c.AddRound(rd)
			}
			c.AddBlock(b)
			if err := c.VerifFinalizeBlock(ctx, b, bsh{}); err != nil {
				res.fail = "finalize-block-fails"
				res.failInfo = err.Error()
				return
			}
			rec.root = append([]byte{}, b.ClientStateHash...)
			rec.want = map[int]string{}
			for k, v := range want {
				rec.want[k] = v
			}
			var ok bool
			rec.nodeSet, rec.origins, ok = allNodes(pndb, rec.root)
			for k, v := range rec.origins {
				res.org[k] = v
			}
			if !ok {
				res.fail = "finalized-state-not-in-persistent-db"
				return
			}
			res.blocks = append(res.blocks, rec)
			res.all = append(res.all, rec)
			res.outs = append(res.outs, stepOut{kind: "block", blk: rec})
			if rnd > res.maxLfb {
				res.maxLfb = rnd
			}
			prev = b
			rnd++
			kinds["block-finalized"]++
			if fork > 0 {
				kinds["block-finalized-again-after-rollback"]++
				if len(rec.dels) == 0 {
					kinds["refinalized-round-with-empty-deletes"]++
				}
			}
		case "prune":
			lfb := c.GetLatestFinalizedBlock()
			nv := len(versions)
			c.VerifPruneClientState(ctx)
			kinds["prune-called"]++
			ver := int64(-1)
			if len(versions) > nv {
				ver = versions[len(versions)-1]
				kinds["prune-below-version"]++
				if ver > prunedMax {
					prunedMax = ver
				}
				// C27_prune_version_behind_lfb on the real code
				if ver > lfb.Round-int64(h.Count) && res.fail == "" {
					res.fail = "prune-version-too-close-to-lfb"
					res.failInfo = fmt.Sprintf("version %d, lfb %d, count %d", ver, lfb.Round, h.Count)
				}
			} else {
				kinds["prune-abandoned-or-nothing"]++
			}
			var rd []bool
			for _, br := range res.blocks {
				_, _, ok := allNodes(pndb, br.root)
				rd = append(rd, ok)
			}
			res.readable = append(res.readable, rd)
			res.chains = append(res.chains, append([]*blockRec{}, res.blocks...))
			res.pruneAt = append(res.pruneAt, len(res.blocks))
			res.lfbAt = append(res.lfbAt, res.maxLfb)
			res.outs = append(res.outs, stepOut{kind: "prune", readable: rd, ver: ver})
			_ = lfb
		case "rollback":
			// a fork wins: finalizeRound sets the LFB back to the common ancestor; the rounds
			// after it are finalized again with other blocks.  Never below what may be pruned.
			back := st.Back
			for back > 0 && (len(res.blocks)-1-back < 0 || int64(res.blocks[len(res.blocks)-1-back].round) < prunedMax) {
				back--
			}
			if back == 0 {
				kinds["rollback-not-applicable"]++
				continue
			}
			t := res.blocks[len(res.blocks)-1-back]
			res.blocks = res.blocks[:len(res.blocks)-back]
			c.SetLatestOwnFinalizedBlockRound(t.blk.Round)
			c.SetLatestFinalizedBlock(t.blk)
			prev = t.blk
			want = map[int]string{}
			for k, v := range t.want {
				want[k] = v
			}
			rnd = t.round + 1
			fork++
			noSkip = true
			res.outs = append(res.outs, stepOut{kind: "rollback", r0: t.round})
			kinds["rollback"]++
		}
	}
	return
}

// oracle: the property on the implementation's observed behaviour
func oracle(h hist, res result, kinds map[string]int) string {
	if res.fail != "" {
		return res.fail
	}
	for _, br := range res.all {
		// hypothesis of the theorem, checked on the real trie: what a block records dead is not part of its own state,
		// and what it adds carries the block's round as origin
		in := map[string]bool{}
		for _, x := range br.nodeSet {
			in[x] = true
		}
		for _, d := range br.dels {
			if in[d] {
				return "collector-records-live-node-dead"
			}
		}
		for _, a := range br.adds {
			if o, ok := br.origins[a]; ok && o != int64(br.round) {
				if os.Getenv("VERIF_DEBUG") != "" {
					fmt.Fprintln(os.Stderr, "ORIGIN", o, "round", br.round, "start", h.Start)
				}
				return "new-node-origin-is-not-the-block-round"
			}
		}
	}
	for pi, rd := range res.readable {
		lfb := res.lfbAt[pi]
		for bi, ok := range rd {
			br := res.chains[pi][bi]
			if br.round >= lfb-h.Count {
				if !ok {
					return "retained-block-state-unreadable"
				}
				kinds["retained-block-readable"]++
			} else if ok {
				kinds["older-block-still-readable"]++
			} else {
				kinds["older-block-pruned"]++
			}
		}
	}
	return ""
}

func coqCase(h hist, res result) string {
	t := &ids{m: map[string]int{}}
	hs := func(x string) string { return vh.Pair(vh.Z(res.org[x]), vh.Z(int64(t.id(x)))) }
	hl := func(xs []string) string {
		out := make([]string, len(xs))
		for i, x := range xs {
			out[i] = hs(x)
		}
		return vh.List(out)
	}
	var steps []string
	for _, so := range res.outs {
		switch so.kind {
		case "block":
			br := so.blk
			var ms []string
			for _, m := range br.micros {
				if m.add {
					o := "None"
					if m.old != "" {
						o = vh.Some(hs(m.old))
					}
					ms = append(ms, fmt.Sprintf("(McAdd %s %s)", o, hs(m.new)))
				} else {
					ms = append(ms, fmt.Sprintf("(McDel %s)", hs(m.old)))
				}
			}
			if br.synced {
				steps = append(steps, fmt.Sprintf("(PsSynced %s %s %s %s)", vh.Z(int64(br.round)), hl(br.adds), hl(br.dels), hl(br.nodeSet)))
			} else {
				steps = append(steps, fmt.Sprintf("(PsBlock %s %s %s %s %s)", vh.Z(int64(br.round)), vh.List(ms), hl(br.adds), hl(br.dels), hl(br.nodeSet)))
			}
		case "prune":
			var rd []string
			for _, ok := range so.readable {
				rd = append(rd, vh.Bool(ok))
			}
			ver := "None"
			if so.ver >= 0 {
				ver = vh.Some(vh.Z(so.ver))
			}
			steps = append(steps, fmt.Sprintf("(PsPrune %s %s)", vh.List(rd), ver))
		case "rollback":
			steps = append(steps, fmt.Sprintf("(PsRollback %s)", vh.Z(int64(so.r0))))
		}
	}
	return fmt.Sprintf("{| prc_start := %s; prc_count := %s; prc_steps := %s |}", vh.Z(int64(h.Start)), vh.Z(int64(h.Count)), vh.List(steps))
}

func genHist(r *vh.Rand, big bool) hist {
	starts := []int{60, 88, 95, 99, 100, 101, 180, 195}
	h := hist{Start: starts[r.Intn(len(starts))], Count: r.Range(2, 9)}
	n := r.Range(12, 50)
	if big {
		n = r.Range(60, 130)
	}
	keys := r.Range(4, 32)
	vals := []string{"a", "b", "c"}
	for i := 0; i < n; i++ {
		if i > 0 && r.Chance(1, 6) {
			h.Steps = append(h.Steps, step{Kind: "prune"})
		}
		if i > 3 && r.Chance(1, 10) {
			// a fork wins: the last 1-3 blocks are abandoned and their rounds finalized again,
			// 1 in 2 times starting with a block that changes nothing
			h.Steps = append(h.Steps, step{Kind: "rollback", Back: r.Range(1, h.Count+3)})
			if r.Bool() {
				// a prune tick before the winning fork is finalized again
				h.Steps = append(h.Steps, step{Kind: "prune"})
			}
			if r.Bool() {
				h.Steps = append(h.Steps, step{Kind: "block"})
				i++
			}
		}
		st := step{Kind: "block"}
		if r.Chance(1, 15) {
			st.Skip = r.Range(1, 3)
		}
		no := r.Range(0, 6)
		for j := 0; j < no; j++ {
			o := op{K: r.Intn(keys)}
			switch r.Intn(8) {
			case 0, 1:
				// delete
			default:
				o.V = vals[r.Intn(len(vals))]
			}
			st.Ops = append(st.Ops, o)
			// delete-then-recreate of the identical value inside one block
			if r.Chance(1, 5) && o.V != "" {
				st.Ops = append(st.Ops, op{K: o.K}, op{K: o.K, V: o.V})
			}
		}
		if r.Chance(1, 4) {
			st.Sync = []string{"msgpack", "json"}[r.Intn(2)]
		}
		h.Steps = append(h.Steps, st)
	}
	h.Steps = append(h.Steps, step{Kind: "prune"})
	return h
}

// targetedSync: a stretch of blocks whose state is synced over the wire, finalized, then pruned past.
func targetedSync(r *vh.Rand, variant int) hist {
	count := r.Range(2, 5)
	h := hist{Start: 90 + r.Intn(6), Count: count}
	for i := 0; i < 14+count; i++ {
		st := step{Kind: "block", Ops: []op{{K: i % 5, V: []string{"a", "b"}[i%2]}, {K: 5 + i%3, V: "c"}}}
		if i%7 == 6 {
			st.Ops = append(st.Ops, op{K: (i + 1) % 5})
		}
		if i >= 2 {
			st.Sync = []string{"msgpack", "json"}[(i+variant)%2]
		}
		h.Steps = append(h.Steps, st)
		if i > 8 && i%3 == 0 {
			h.Steps = append(h.Steps, step{Kind: "prune"})
		}
	}
	h.Steps = append(h.Steps, step{Kind: "prune"})
	return h
}

// targeted: a round finalized with deletes, rolled back, finalized again by a block that changes
// nothing (or something else), then pruned above that round.
func targeted(r *vh.Rand, variant int) hist {
	count := r.Range(2, 5)
	h := hist{Start: 93 + r.Intn(4), Count: count}
	ins := func(ks ...int) step {
		st := step{Kind: "block"}
		for _, k := range ks {
			st.Ops = append(st.Ops, op{K: k, V: "a"})
		}
		return st
	}
	h.Steps = append(h.Steps, ins(1, 2, 3), ins(4, 5), ins(6))
	// X: deletes/updates nodes of the common ancestor's state
	x := step{Kind: "block", Ops: []op{{K: 1}, {K: 4, V: "b"}}}
	h.Steps = append(h.Steps, x)
	if variant%2 == 1 {
		h.Steps = append(h.Steps, step{Kind: "block", Ops: []op{{K: 2}}})
		h.Steps = append(h.Steps, step{Kind: "rollback", Back: 2})
	} else {
		h.Steps = append(h.Steps, step{Kind: "rollback", Back: 1})
	}
	// Y: the winning fork changes nothing in that round (variant 2,3: something else)
	if variant >= 2 {
		h.Steps = append(h.Steps, step{Kind: "block", Ops: []op{{K: 9, V: "c"}}})
	} else {
		h.Steps = append(h.Steps, step{Kind: "block"})
	}
	for i := 0; i < 12+count; i++ {
		h.Steps = append(h.Steps, step{Kind: "block", Ops: []op{{K: 10 + r.Intn(4), V: "a"}}})
	}
	h.Steps = append(h.Steps, step{Kind: "prune"})
	return h
}

// targetedDeep: the common ancestor is below a multiple of 100, the abandoned fork crosses it by
// more than prune_below_count rounds, and pruneClientState ticks after the roll back, before the
// winning fork is finalized again (the summary ring still holds the abandoned fork).
func targetedDeep(r *vh.Rand, variant int) hist {
	count := r.Range(2, 4)
	anc := 96 + r.Intn(3) // ancestor round 96..98
	h := hist{Start: anc - 3, Count: count}
	for i := 0; i < 4; i++ { // ... up to the ancestor
		h.Steps = append(h.Steps, step{Kind: "block", Ops: []op{{K: i, V: "a"}, {K: i + 10, V: "b"}}})
	}
	depth := (100 - anc) + count + 1 + variant%2 // fork A reaches at least round 100+count
	for i := 0; i < depth; i++ {
		// fork A deletes and rewrites nodes of the ancestor's state
		h.Steps = append(h.Steps, step{Kind: "block", Ops: []op{{K: i % 4}, {K: 10 + i%4, V: "c"}}})
	}
	h.Steps = append(h.Steps, step{Kind: "rollback", Back: depth}, step{Kind: "prune"})
	for i := 0; i < depth+count+3; i++ { // the winning fork, with prune ticks on the way
		h.Steps = append(h.Steps, step{Kind: "block", Ops: []op{{K: 20 + i%3, V: "a"}}})
		if variant >= 2 && i%2 == 1 {
			h.Steps = append(h.Steps, step{Kind: "prune"})
		}
	}
	h.Steps = append(h.Steps, step{Kind: "prune"})
	return h
}

func key(h hist) string { return fmt.Sprintf("%v", h) }

func main() {
	o := vh.ParseFlags()
	rep := vh.NewReport("prune", "C27", o)
	rep.CaseInputs = []interface{}{}
	rep.Rule = "histories of 12-50 (oracle-only: 60-130) finalized blocks starting at rounds 60/88/95/99/100/101/180/195 (pruning aligns to multiples of 100), " +
		"0-6 inserts/updates/deletes per block over 4-32 keys and 3 values (equal values re-inserted, delete-then-recreate of the identical value inside one block, " +
		"deletes of absent keys), 1 in 4 blocks with their state obtained from the wire-encoded (msgpack / JSON) state change through ApplyBlockStateChange instead of execution, empty rounds, roll backs of the LFB by 1-3 blocks after which the rounds are finalized again with other blocks (1 in 2 starting with a block that changes nothing), prune_below_count 2-9, pruneClientState called after 1 in 6 blocks and at the end, on a RocksDB PNodeDB; " +
		"after every prune the full state of every finalized block is iterated. non-trivial = at least one prune deleted nodes of an older block while a retained block was read; distinct by input"
	cf := &vh.CasesFile{Imports: []string{"Base.Corr", "Model.Prune", "Corr.Prune"}, CaseType: "prc_case", CheckFn: "prc_check", Shard: 12}
	logging.Logger = zap.NewNop()
	logging.N2n = zap.NewNop()
	client.SetClientSignatureScheme("ed25519")
	round.SetupEntity(memorystore.GetStorageProvider())
	block.SetupEntity(memorystore.GetStorageProvider())
	block.SetupBlockSummaryEntity(memorystore.GetStorageProvider())
	block.SetupStateChange(memorystore.GetStorageProvider())
	node.Self.Node.Type = node.NodeTypeMiner
	scratch := filepath.Join("/var/tmp/vs", fmt.Sprintf("codec-c27-%d", os.Getpid()))
	_ = os.MkdirAll(scratch, 0o755)
	defer os.RemoveAll(scratch)

	handle := func(h hist, toCoq bool) {
		kinds := map[string]int{}
		res := run(h, scratch, kinds)
		fail := oracle(h, res, kinds)
		for k, n := range kinds {
			rep.CountN(k, n)
		}
		rep.Case(key(h), kinds["older-block-pruned"] > 0 && kinds["retained-block-readable"] > 0, h)
		if toCoq && res.fail == "" {
			cf.Add(coqCase(h, res))
			rep.CaseInputs = append(rep.CaseInputs, h)
		}
		if fail != "" {
			if os.Getenv("VERIF_DEBUG") != "" {
				fmt.Fprintln(os.Stderr, "FAIL", fail, res.failInfo)
			}
			keep := vh.ShrinkIdx(len(h.Steps), func(keep []int) bool {
				h2 := hist{Start: h.Start, Count: h.Count}
				for _, i := range keep {
					h2.Steps = append(h2.Steps, h.Steps[i])
				}
				k2 := map[string]int{}
				return oracle(h2, run(h2, scratch, k2), k2) == fail
			})
			h2 := hist{Start: h.Start, Count: h.Count}
			for _, i := range keep {
				h2.Steps = append(h2.Steps, h.Steps[i])
			}
			rep.Violate("C27:"+fail, "pruning: "+fail+" "+res.failInfo, h2)
		}
	}
	var rh hist
	if o.LoadReplay(&rh) {
		handle(rh, true)
	} else {
		rnd := vh.NewRand(o.Seed)
		for v := 0; v < 4; v++ {
			handle(targeted(rnd, v), true)
		}
		for v := 0; v < 4; v++ {
			handle(targetedDeep(rnd, v), true)
		}
		for v := 0; v < 2; v++ {
			handle(targetedSync(rnd, v), true)
		}
		for i := 0; i < o.N(22, 300); i++ {
			handle(genHist(rnd, false), true)
		}
		for i := 0; i < o.N(5, 100); i++ {
			handle(genHist(rnd, true), false)
		}
	}
	files, err := cf.Write(o.Out, "C27")
	if err != nil {
		panic(err)
	}
	rep.CaseFiles = files
	rep.ShardSize = 12
	rep.Write(o.Out)
	_ = bytes.Equal
}
