(* Model of core/util/orderbuffer/orderbuffer.go (property C46).
   Definitions only; proofs are in Proof/OrderBuffer.v. *)
From Coq Require Export List ZArith Bool Arith Lia.
Export ListNotations.
Open Scope Z_scope.

(* Item{Round int64; Data interface{}}: Data is compared with ==, modelled as a Z token. *)
Definition ob_item : Type := (Z * Z)%type.
Definition ob_round (it : ob_item) : Z := fst it.
Definition ob_data (it : ob_item) : Z := snd it.
Definition ob_dflt : ob_item := (0, 0).

Record ob_buf := { ob_max : nat; ob_items : list ob_item }.

Definition ob_new (max : nat) : ob_buf := {| ob_max := max; ob_items := [] |}.

(* search: the Go loop, transcribed with explicit fuel.
     left, right := 0, len; for left < right { middle := (left+right)/2;
       if buf[middle].Round <= r { left = middle+1 } else { right = middle } }; return left *)
Fixpoint ob_search_go (fuel : nat) (buf : list ob_item) (r : Z) (left right : nat) : option nat :=
  match fuel with
  | O => None
  | S f =>
      if Nat.ltb left right then
        let middle := Nat.div (left + right) 2 in
        if Z.leb (ob_round (nth middle buf ob_dflt)) r
        then ob_search_go f buf r (S middle) right
        else ob_search_go f buf r left middle
      else Some left
  end.

Definition ob_search (buf : list ob_item) (r : Z) : option nat :=
  ob_search_go (S (length buf)) buf r 0%nat (length buf).

(* insert at index: append(Item{}); copy(buf[index+1:], buf[index:]); buf[index] = item *)
Definition ob_insert_at (idx : nat) (it : ob_item) (buf : list ob_item) : list ob_item :=
  firstn idx buf ++ it :: skipn idx buf.

Inductive ob_result := ObOk (b : ob_buf) | ObOutOfFuel.

Definition ob_add (b : ob_buf) (r d : Z) : ob_result :=
  match ob_search (ob_items b) r with
  | None => ObOutOfFuel
  | Some idx =>
      let dup :=
        match idx with
        | O => false
        | S i => Z.eqb (ob_data (nth i (ob_items b) ob_dflt)) d
        end in
      if dup then ObOk b
      else
        let l := ob_insert_at idx (r, d) (ob_items b) in
        ObOk {| ob_max := ob_max b;
                ob_items := if Nat.ltb (ob_max b) (length l) then firstn (ob_max b) l else l |}
  end.

Definition ob_first (b : ob_buf) : option ob_item := hd_error (ob_items b).

Definition ob_pop (b : ob_buf) : ob_buf * option ob_item :=
  match ob_items b with
  | [] => (b, None)
  | x :: tl => ({| ob_max := ob_max b; ob_items := tl |}, Some x)
  end.

(* operations and observable outputs, used by the theorems over histories and by the
   correspondence check *)
Inductive ob_op := OpAdd (r d : Z) | OpFirst | OpPop.
Inductive ob_out := OutAdd | OutItem (o : option ob_item) | OutFuel.

Definition ob_step (b : ob_buf) (o : ob_op) : ob_buf * ob_out :=
  match o with
  | OpAdd r d => match ob_add b r d with ObOk b' => (b', OutAdd) | ObOutOfFuel => (b, OutFuel) end
  | OpFirst => (b, OutItem (ob_first b))
  | OpPop => let '(b', x) := ob_pop b in (b', OutItem x)
  end.

Fixpoint ob_run (b : ob_buf) (ops : list ob_op) : ob_buf * list ob_out :=
  match ops with
  | [] => (b, [])
  | o :: tl => let '(b1, out) := ob_step b o in
               let '(b2, outs) := ob_run b1 tl in (b2, out :: outs)
  end.
