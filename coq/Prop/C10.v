(* C10: Reward distribution splits the amount exactly.
   Model: Model/StakePool.v (DistributeRewards, DistributeRewardsRandN, equallyDistributeRewards).
   Only statements; each is closed by [exact] of a lemma in Proof/StakePool.v. *)
From ZC Require Import Model.StakePool Proof.StakePool Proof.StakePoolF64.
Open Scope Z_scope.

Definition C10_ratio_in_unit (r : f64) : Prop := sp_ratio_in_unit r.

(* DistributeRewards, for arbitrary non-negative results of the two float computations
   ([chargef], [sharef]): never panics; a killed / under-staked provider or a zero value changes
   nothing; otherwise provider increment + delegate increments = value exactly, only rewards
   change (sp_cred) and no reward decreases. *)
Theorem C10_distribute_exact :
  forall (chargef : f64 -> Z -> option Z) (sharef : Z -> Z -> Z -> option Z),
  (forall a b c r, sharef a b c = Some r -> 0 <= r) ->
  forall sp value,
  sp_wf sp -> 0 <= value -> sp_total_rewards sp + value < sp_max ->
  (forall c, chargef (ss_charge (sp_set sp)) value = Some c -> 0 <= c) ->
  sp_distribute chargef sharef sp value <> SpPanic /\
  forall sp', sp_distribute chargef sharef sp value = SpOk sp' ->
    exists total, sp_stake sp = Some total /\
      if (value =? 0) || sp_killed sp || (total <? ss_minstake (sp_set sp)) then sp' = sp
      else sp_total_rewards sp' = sp_total_rewards sp + value /\
           sp_reward sp <= sp_reward sp' /\
           (exists e, sp_cred (sp_pools sp) e (sp_pools sp')) /\
           sp_set sp' = sp_set sp /\ sp_killed sp' = sp_killed sp.
Proof. exact sp_distribute_exact. Qed.
Print Assumptions C10_distribute_exact.

(* the same for the float64 code of the Go implementation: no hypothesis about floats remains
   (any ratio, any value; the former F-10a trigger ratio 1, value 2^53+3 included) *)
Theorem C10_distribute_exact_go :
  forall sp value,
  sp_wf sp -> 0 <= value -> sp_total_rewards sp + value < sp_max ->
  sp_distribute sp_chargef_go sp_sharef_go sp value <> SpPanic /\
  forall sp', sp_distribute sp_chargef_go sp_sharef_go sp value = SpOk sp' ->
    exists total, sp_stake sp = Some total /\
      if (value =? 0) || sp_killed sp || (total <? ss_minstake (sp_set sp)) then sp' = sp
      else sp_total_rewards sp' = sp_total_rewards sp + value /\
           sp_reward sp <= sp_reward sp' /\
           (exists e, sp_cred (sp_pools sp) e (sp_pools sp')) /\
           sp_set sp' = sp_set sp /\ sp_killed sp' = sp_killed sp.
Proof. exact sp_distribute_exact_go. Qed.
Print Assumptions C10_distribute_exact_go.

(* DistributeRewardsRandN: pools outside the selection (at most N are selected) keep their
   reward and the total is exact (without selected stake the remainder goes to the provider). *)
Theorem C10_randn_exact :
  forall (chargef : f64 -> Z -> option Z) (sharef : Z -> Z -> Z -> option Z),
  (forall a b c r, sharef a b c = Some r -> 0 <= r) ->
  forall sp value n draws,
  sp_wf sp -> 0 <= value -> sp_total_rewards sp + value < sp_max ->
  (forall c, chargef (ss_charge (sp_set sp)) value = Some c -> 0 <= c) ->
  let sel := sp_selection n draws (length (sp_pools sp)) in
  NoDup sel -> Forall (fun i => (i < length (sp_pools sp))%nat) sel ->
  sp_distribute_randn chargef sharef sp value n draws <> SpPanic /\
  forall sp', sp_distribute_randn chargef sharef sp value n draws = SpOk sp' ->
    exists total, sp_stake sp = Some total /\
      if (value =? 0) || sp_killed sp || (total <? ss_minstake (sp_set sp)) then sp' = sp
      else
        sp_reward sp <= sp_reward sp' /\ sp_set sp' = sp_set sp /\ sp_killed sp' = sp_killed sp /\
        (exists e, sp_cred (sp_pools sp) e (sp_pools sp') /\ forall j, ~ In j sel -> nth j e 0 = 0) /\
        sp_total_rewards sp' = sp_total_rewards sp + value.
Proof. exact sp_distribute_randn_spec. Qed.
Print Assumptions C10_randn_exact.

Theorem C10_randn_exact_go :
  forall sp value n draws,
  sp_wf sp -> 0 <= value -> sp_total_rewards sp + value < sp_max ->
  let sel := sp_selection n draws (length (sp_pools sp)) in
  NoDup sel -> Forall (fun i => (i < length (sp_pools sp))%nat) sel ->
  sp_distribute_randn sp_chargef_go sp_sharef_go sp value n draws <> SpPanic /\
  forall sp', sp_distribute_randn sp_chargef_go sp_sharef_go sp value n draws = SpOk sp' ->
    exists total, sp_stake sp = Some total /\
      if (value =? 0) || sp_killed sp || (total <? ss_minstake (sp_set sp)) then sp' = sp
      else
        sp_reward sp <= sp_reward sp' /\ sp_set sp' = sp_set sp /\ sp_killed sp' = sp_killed sp /\
        (exists e, sp_cred (sp_pools sp) e (sp_pools sp') /\ forall j, ~ In j sel -> nth j e 0 = 0) /\
        sp_total_rewards sp' = sp_total_rewards sp + value.
Proof. exact sp_distribute_randn_exact_go. Qed.
Print Assumptions C10_randn_exact_go.

(* regression witnesses of the two repaired defects: ratio 1 / value 2^53+3 now credits exactly
   the value (all of it charge); a selected delegate without stake sends the remainder to the
   provider *)
Example C10_former_charge_wrap_now_exact :
  match sp_distribute sp_chargef_go sp_sharef_go sp_witness_f10a 9007199254740995 with
  | SpOk sp' => sp_reward sp' = 9007199254740995 /\ map dp_reward (sp_pools sp') = [0; 0]
  | _ => False
  end.
Proof. exact sp_witness_f10a_run. Qed.

Example C10_former_zero_stake_drop_now_exact :
  match sp_distribute_randn sp_chargef_go sp_sharef_go sp_witness_zero_sel 1000 1 [0%nat] with
  | SpOk sp' => sp_reward sp' = 1000 /\ map dp_reward (sp_pools sp') = [0; 0]
  | _ => False
  end.
Proof. exact sp_witness_zero_sel_run. Qed.

(* at most N pools are selected (rand.Perm(..)[:n] has n entries; n >= len selects all) *)
Theorem C10_randn_at_most_n :
  forall n draws len, length draws = Z.to_nat n -> 0 <= n ->
  Z.of_nat (length (sp_selection n draws len)) <= n.
Proof. exact sp_selection_len. Qed.
Print Assumptions C10_randn_at_most_n.

(* a killed or under-staked provider (or a zero payment) receives nothing, in both variants *)
Theorem C10_killed_or_understaked_gets_nothing :
  forall chargef sharef sp value total n draws,
  sp_stake sp = Some total ->
  value = 0 \/ sp_killed sp = true \/ total < ss_minstake (sp_set sp) ->
  sp_distribute chargef sharef sp value = SpOk sp /\
  sp_distribute_randn chargef sharef sp value n draws = SpOk sp.
Proof. exact sp_skip_gets_nothing. Qed.
Print Assumptions C10_killed_or_understaked_gets_nothing.

(* each delegate's share is proportional to its stake up to rounding: if the float product is
   within eps of the exact share (for stakes b <= s < 2^64 and amounts up to vmax), every
   increment is within (n+1)*eps + 1 of value_left*b_i/stake *)
Theorem C10_share_proportional :
  forall (chargef : f64 -> Z -> option Z) (sharef : Z -> Z -> Z -> option Z) (eps vmax : Z),
  0 <= eps ->
  (forall a b c r, sharef a b c = Some r -> 0 <= r) ->
  (forall vl b s r, 0 < s < sp_max -> 0 <= b <= s -> 0 <= vl <= vmax ->
     sharef vl b s = Some r -> Z.abs (r * s - vl * b) <= eps * s) ->
  forall sp value sp' charge incs stake,
  sp_wf sp -> 0 < value -> sp_total_rewards sp + value < sp_max ->
  (forall c, chargef (ss_charge (sp_set sp)) value = Some c -> 0 <= c) ->
  sp_stake sp = Some stake -> value <= vmax ->
  sp_distribute_body chargef sharef sp value = SpOk (sp', charge, incs) -> sp_pools sp <> [] ->
  exists e, sp_cred (sp_pools sp) e (sp_pools sp') /\ sp_sum e = value - charge /\
    forall i, (i < length (sp_pools sp))%nat ->
      Z.abs (nth i e 0 * stake - (value - charge) * dp_bal (nth i (sp_pools sp) sp_dflt))
      <= ((Z.of_nat (length (sp_pools sp)) + 1) * eps + 1) * stake.
Proof. exact sp_share_proportional. Qed.
Print Assumptions C10_share_proportional.

(* the float bound itself, for the expression as Go computes it (two uint64 -> float64
   conversions, one division, one multiplication, truncation): proved with Flocq over the
   SpecFloat operations; this theorem and the next depend on the real-number axioms of the Coq
   standard library (through Flocq/Reals), the other C10 theorems do not *)
Theorem C10_float_share_within_rounding :
  forall vl b s r,
  0 <= b <= s -> 0 < s < 2 ^ 64 -> 0 <= vl < 2 ^ 63 ->
  sp_sharef_go vl b s = Some r ->
  Z.abs (r * s - vl * b) <= (2 + vl / 2 ^ 50) * s.
Proof. exact sp_sharef_go_accurate. Qed.
Print Assumptions C10_float_share_within_rounding.

(* proportionality of DistributeRewards with the real binary64 code, no float hypothesis:
   every delegate's increment is within (n+1)*(2 + value/2^50) + 1 of value_left*b_i/stake,
   for every paid value below 2^63 *)
Theorem C10_share_proportional_f64 :
  forall sp value sp' charge incs stake,
  sp_wf sp -> 0 < value < 2 ^ 63 -> sp_total_rewards sp + value < sp_max ->
  sp_stake sp = Some stake ->
  sp_distribute_body sp_chargef_go sp_sharef_go sp value = SpOk (sp', charge, incs) -> sp_pools sp <> [] ->
  exists e, sp_cred (sp_pools sp) e (sp_pools sp') /\ sp_sum e = value - charge /\
    forall i, (i < length (sp_pools sp))%nat ->
      Z.abs (nth i e 0 * stake - (value - charge) * dp_bal (nth i (sp_pools sp) sp_dflt))
      <= ((Z.of_nat (length (sp_pools sp)) + 1) * (2 + value / 2 ^ 50) + 1) * stake.
Proof. exact sp_share_proportional_f64. Qed.
Print Assumptions C10_share_proportional_f64.

(* Non-vacuity: the run of the real code on value 1000, ratio 0.3, stakes 1,2,3 (credited
   300 + 117 + 233 + 350) satisfies all hypotheses of the theorems above. *)
Example C10_example :
  let sp := {| sp_pools := [ {| dp_id := 1; dp_bal := 1; dp_reward := 0; dp_status := 0; dp_staked_at := 0 |};
                             {| dp_id := 2; dp_bal := 2; dp_reward := 0; dp_status := 0; dp_staked_at := 0 |};
                             {| dp_id := 3; dp_bal := 3; dp_reward := 0; dp_status := 0; dp_staked_at := 0 |} ];
               sp_reward := 0;
               sp_set := {| ss_wallet := 9; ss_maxdel := 10; ss_minstake := 0;
                            ss_charge := f64_of_bits 4599075939470750515 |};
               sp_killed := false |} in
  match sp_distribute sp_chargef_go sp_sharef_go sp 1000 with
  | SpOk sp' => sp_reward sp' = 300 /\ map dp_reward (sp_pools sp') = [117; 233; 350]
  | _ => False
  end /\ sp_chargef_go (ss_charge (sp_set sp)) 1000 = Some 300.
Proof. vm_compute. repeat split; reflexivity. Qed.
