(* Correspondence for C11: a case is a history of lock / unlock / reward / collect transactions
   on one provider's stake pool, executed through the real contract entry points (minersc,
   storagesc) or the stakepool package (authorizer style), with per transaction outcome and
   queued transfers, and the final pool.  [spl_check] re-runs the model. *)
From ZC Require Import Base.Corr Model.StakePool Proof.StakePoolLock.
Open Scope Z_scope.

Inductive spl_op :=
| LLock (client value time : Z) (cbal : option Z)
| LUnlock (client now : Z)         (* now = wall clock of the node when the unlock ran *)
| LReward (value : Z)
| LCollect (client : Z).

Record spl_case := {
  spl_minter : Z; spl_ssc : Z; spl_vmin : Z; spl_vmax : Z;
  spl_offers : option Z;            (* Some total_offers for storagesc pools *)
  spl_min_lock : Z;                 (* stakepool.min_lock_period in seconds *)
  spl_pools : list (Z * Z * Z * Z); (* id, balance, reward, staked_at *)
  spl_reward : Z; spl_wallet : Z; spl_maxdel : Z; spl_minstake : Z; spl_charge_bits : Z; spl_killed : bool;
  spl_ops : list spl_op;
  spl_outs : list (bool * list (Z * Z * Z));   (* succeeded?, transfers (from, to, amount) *)
  spl_final : list (Z * Z * Z);     (* id, balance, reward *)
  spl_final_reward : Z
}.

Definition spl_mk_pool (c : spl_case) : sp_pool :=
  {| sp_pools := map (fun x => match x with (id, b, r, t) =>
                   {| dp_id := id; dp_bal := b; dp_reward := r; dp_status := 0; dp_staked_at := t |} end) (spl_pools c);
     sp_reward := spl_reward c;
     sp_set := {| ss_wallet := spl_wallet c; ss_maxdel := spl_maxdel c; ss_minstake := spl_minstake c;
                  ss_charge := f64_of_bits (spl_charge_bits c) |};
     sp_killed := spl_killed c |}.

Definition spl_step (c : spl_case) (sp : sp_pool) (op : spl_op) : sp_pool * (bool * list sp_transfer) :=
  let vs := {| vs_min := spl_vmin c; vs_max := spl_vmax c |} in
  let run := fun s o => let '(s', l) := sp_hstep sp_chargef_go sp_sharef_go (spl_minter c) (spl_ssc c) vs (spl_offers c) s o in (s', map snd l) in
  match op with
  | LLock cl v t cb =>
      let tx := {| tx_client := cl; tx_to := spl_ssc c; tx_value := v; tx_time := t |} in
      match sp_stake_pool_lock tx cb sp vs with
      | Some _ => let '(sp', trs) := run sp (HLock tx cb) in (sp', (true, trs))
      | None => (sp, (false, []))
      end
  | LUnlock cl now =>
      let allowed := match sp_find cl (sp_pools sp) with
                     | Some dp => sp_unlock_allowed dp (spl_min_lock c) now
                     | None => true end in
      if allowed then
        match sp_unlock (spl_minter c) (spl_ssc c) cl (spl_offers c) sp with
        | Some _ => let '(sp', trs) := run sp (HUnlock cl) in (sp', (true, trs))
        | None => (sp, (false, []))
        end
      else (sp, (false, []))
  | LReward v =>
      match sp_distribute sp_chargef_go sp_sharef_go sp v with
      | SpOk _ => let '(sp', trs) := run sp (HReward v) in (sp', (true, trs))
      | _ => (sp, (false, []))
      end
  | LCollect cl =>
      match sp_mint_rewards (spl_minter c) cl sp with
      | Some _ => let '(sp', trs) := run sp (HCollect cl) in (sp', (true, trs))
      | None => (sp, (false, []))
      end
  end.

Fixpoint spl_run (c : spl_case) (sp : sp_pool) (ops : list spl_op) : sp_pool * list (bool * list sp_transfer) :=
  match ops with
  | [] => (sp, [])
  | op :: tl => let '(sp1, o) := spl_step c sp op in
                let '(sp2, os) := spl_run c sp1 tl in (sp2, o :: os)
  end.

Definition spl_tr_eqb (t : sp_transfer) (x : Z * Z * Z) : bool :=
  match x with (f, to, a) => (tr_from t =? f) && (tr_to t =? to) && (tr_amount t =? a) end.

Fixpoint spl_list_eqb2 {A B} (eqb : A -> B -> bool) (l1 : list A) (l2 : list B) : bool :=
  match l1, l2 with
  | [], [] => true
  | x :: t1, y :: t2 => eqb x y && spl_list_eqb2 eqb t1 t2
  | _, _ => false
  end.

Definition spl_out_eqb (o : bool * list sp_transfer) (x : bool * list (Z * Z * Z)) : bool :=
  Bool.eqb (fst o) (fst x) && spl_list_eqb2 spl_tr_eqb (snd o) (snd x).

Definition spl_dp_eqb (p : sp_dpool) (x : Z * Z * Z) : bool :=
  match x with (id, b, r) => (dp_id p =? id) && (dp_bal p =? b) && (dp_reward p =? r) end.

Definition spl_check (c : spl_case) : bool :=
  let '(sp, outs) := spl_run c (spl_mk_pool c) (spl_ops c) in
  spl_list_eqb2 spl_out_eqb outs (spl_outs c) &&
  spl_list_eqb2 spl_dp_eqb (sp_pools sp) (spl_final c) && (sp_reward sp =? spl_final_reward c).
