// Engine "hash": properties C29 (block hash commits to contents), C30 (transaction signature binds
// fields), C47 (client signatures verify exactly for the signing key), C32 (batched signature
// checks agree with individual checks). Runs the real chaincore/block, chaincore/transaction,
// chaincore/client and core/encryption code, evaluates the property statements on the observed
// behaviour and emits Gallina cases for the Coq models.
package main

import (
	"fmt"
	"os"

	"verifharness/vh"
)

func main() {
	o := vh.ParseFlags()
	switch o.Prop {
	case "C29":
		runC29(o)
	case "C30":
		runC30(o)
	case "C47":
		runC47(o)
	case "C32":
		runC32(o)
	default:
		fmt.Fprintln(os.Stderr, "hash engine: -prop must be one of C29 C30 C47 C32")
		os.Exit(2)
	}
}
