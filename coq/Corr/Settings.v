(* Correspondence for C48: a case is one history of governance transactions executed on the real
   contract (engine harness/cmd/settings) with, per operation, the observed outcome class and the
   settings that changed; [st_check] re-runs the model and compares those observables and the
   final pending-changes node. *)
From ZC Require Import Base.Corr Model.Settings.
Open Scope Z_scope.

Record st_case := {
  sc_k : st_contract;
  sc_env : st_env;
  sc_init : st_store;                                   (* the contract's settings before the first op *)
  sc_ops : list st_op;
  sc_obs : list (st_out * list (string * st_val));      (* per op: outcome, settings whose value changed *)
  sc_pend : list (string * string)                      (* storagesc pending changes after the last op *)
}.

Definition st_out_eqb (a b : st_out) : bool :=
  match a, b with
  | OutOk, OutOk | OutErrOwner, OutErrOwner | OutReject, OutReject | OutPanic, OutPanic => true
  | _, _ => false
  end.

Definition st_kv_eqb (a b : string * st_val) : bool := (String.eqb (fst a) (fst b) && st_val_eqb (snd a) (snd b))%bool.

Definition st_incl (a b : list (string * st_val)) : bool := forallb (fun x => existsb (st_kv_eqb x) b) a.

(* settings of [after] that are new or differ from [before] *)
Definition st_diff (before after : st_store) : list (string * st_val) :=
  filter (fun kv => match st_get before (fst kv) with
                    | Some v => negb (st_val_eqb v (snd kv))
                    | None => true
                    end) after.

Fixpoint st_check_ops (k : st_contract) (env : st_env) (s : st_state) (ops : list st_op)
         (obs : list (st_out * list (string * st_val))) : option st_state :=
  match ops, obs with
  | [], [] => Some s
  | o :: ops', (out, ch) :: obs' =>
      let '(s', out') := st_step k env s o in
      let d := st_diff (g_conf s) (g_conf s') in
      if (st_out_eqb out out' && st_incl d ch && st_incl ch d)%bool then st_check_ops k env s' ops' obs' else None
  | _, _ => None
  end.

Definition st_ss_eqb (a b : string * string) : bool := (String.eqb (fst a) (fst b) && String.eqb (snd a) (snd b))%bool.

Definition st_check (c : st_case) : bool :=
  match st_check_ops (sc_k c) (sc_env c) {| g_conf := sc_init c; g_pend := [] |} (sc_ops c) (sc_obs c) with
  | None => false
  | Some s =>
      let p := map (fun e => (e_key e, e_val e)) (g_pend s) in
      (forallb (fun x => existsb (st_ss_eqb x) (sc_pend c)) p && forallb (fun x => existsb (st_ss_eqb x) p) (sc_pend c))%bool
  end.
