(* The VRF message format is not an injective encoding of (round, timeout, previous seed);
   it is injective in the previous seed for a fixed round and timeout count. *)
From Coq Require Import ZArith String DecimalString HexadecimalString HexadecimalZ.
From ZC Require Import Model.VRFMsg.
Open Scope Z_scope.

Definition vrfm_injective : Prop :=
  forall r tc s r' tc' s', vrfm_msg r tc s = vrfm_msg r' tc' s' -> (r, tc, s) = (r', tc', s').

(* round 1 / timeout 12 and round 11 / timeout 2 sign the same message *)
Lemma vrfm_not_injective : ~ vrfm_injective.
Proof.
intro inj. specialize (inj 1 12 255 11 2 255).
assert (e : vrfm_msg 1 12 255 = vrfm_msg 11 2 255) by (vm_compute; reflexivity).
apply inj in e. discriminate e.
Qed.

Lemma vrfm_collision_witness : vrfm_msg 1 12 255 = vrfm_msg 11 2 255 /\ (1, 12) <> (11, 2).
Proof. split; [vm_compute; reflexivity | discriminate]. Qed.

Lemma vrfm_append_cancel (a b c : string) : (a ++ b = a ++ c)%string -> b = c.
Proof. induction a as [|x a IH]; simpl; intro e; [exact e | injection e; exact IH]. Qed.

Lemma vrfm_to_hex_not_nil z :
  Z.to_hex_int z <> Hexadecimal.Pos Hexadecimal.Nil /\
  Z.to_hex_int z <> Hexadecimal.Neg Hexadecimal.Nil.
Proof.
split; intro e; pose proof (of_to z) as ot; rewrite e in ot; simpl in ot; subst z;
  vm_compute in e; discriminate e.
Qed.

Lemma vrfm_hex_inj a b : vrfm_hex a = vrfm_hex b -> a = b.
Proof.
unfold vrfm_hex; intro e.
destruct (vrfm_to_hex_not_nil a) as [a1 a2]; destruct (vrfm_to_hex_not_nil b) as [b1 b2].
pose proof (HexadecimalString.NilZero.isi _ a1 a2) as ia.
pose proof (HexadecimalString.NilZero.isi _ b1 b2) as ib.
rewrite e in ia; rewrite ia in ib; injection ib; apply to_int_inj.
Qed.

(* for a given round and timeout count, different previous seeds give different messages *)
Lemma vrfm_injective_in_seed r tc s s' : vrfm_msg r tc s = vrfm_msg r tc s' -> s = s'.
Proof.
unfold vrfm_msg; intro e.
apply vrfm_append_cancel in e; apply vrfm_append_cancel in e; exact (vrfm_hex_inj _ _ e).
Qed.
