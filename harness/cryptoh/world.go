// Package cryptoh builds, for the engines of C33 and C31, a set of miners with real BLS keys, a
// magic block holding them, a completed distributed key generation (real chaincore/threshold/bls
// code) and, per "view", a real chain.Chain + miner.Chain whose self node is one of the miners.
package cryptoh

import (
	"context"
	"encoding/hex"
	"errors"
	"os"
	"path/filepath"
	"sync"
	"time"

	"0chain.net/chaincore/block"
	"0chain.net/chaincore/chain"
	"0chain.net/chaincore/client"
	"0chain.net/chaincore/node"
	"0chain.net/chaincore/round"
	"0chain.net/chaincore/threshold/bls"
	"0chain.net/chaincore/transaction"
	"0chain.net/core/common"
	"0chain.net/core/config"
	"0chain.net/core/datastore"
	"0chain.net/core/encryption"
	"0chain.net/core/memorystore"
	"0chain.net/core/viper"
	"0chain.net/miner"
	"github.com/0chain/common/core/logging"
	"github.com/gomodule/redigo/redis"
	hb "github.com/herumi/bls-go-binary/bls"
	"verifharness/vh"
)

// ---------- deterministic CSPRNG for the library ----------

// Draws serves 32-byte draws to the library's CSPRNG (bls.SetRandFunc), then a PRNG stream.
type Draws struct {
	Q     [][]byte
	Extra *vh.Rand
}

func (d *Draws) Read(b []byte) (int, error) {
	if len(d.Q) > 0 && len(d.Q[0]) == len(b) {
		copy(b, d.Q[0])
		d.Q = d.Q[1:]
		return len(b), nil
	}
	for i := range b {
		b[i] = byte(d.Extra.U64())
	}
	return len(b), nil
}

// WithRand runs f with the library CSPRNG replaced by a stream derived from seed.
func WithRand(seed uint64, f func()) {
	hb.SetRandFunc(&Draws{Extra: vh.NewRand(seed)})
	defer hb.SetRandFunc(nil)
	f()
}

// ---------- store ----------

type memStore struct{}

func (memStore) Read(context.Context, datastore.Key, datastore.Entity) error {
	return errors.New("verif store: not found")
}
func (memStore) Write(context.Context, datastore.Entity) error      { return nil }
func (memStore) InsertIfNE(context.Context, datastore.Entity) error { return nil }
func (memStore) Delete(context.Context, datastore.Entity) error     { return nil }
func (memStore) Merge(context.Context, datastore.Entity) error      { return nil }
func (memStore) MultiRead(context.Context, datastore.EntityMetadata, []datastore.Key, []datastore.Entity) error {
	return nil
}
func (memStore) MultiWrite(context.Context, datastore.EntityMetadata, []datastore.Entity) error {
	return nil
}
func (memStore) MultiDelete(context.Context, datastore.EntityMetadata, []datastore.Entity) error {
	return nil
}
func (memStore) AddToCollection(context.Context, datastore.CollectionEntity) error { return nil }
func (memStore) MultiAddToCollection(context.Context, datastore.EntityMetadata, []datastore.Entity) error {
	return nil
}
func (memStore) DeleteFromCollection(context.Context, datastore.CollectionEntity) error { return nil }
func (memStore) MultiDeleteFromCollection(context.Context, datastore.EntityMetadata, []datastore.Entity) error {
	return nil
}
func (memStore) GetCollectionSize(context.Context, datastore.EntityMetadata, string) int64 { return 0 }
func (memStore) IterateCollection(context.Context, datastore.EntityMetadata, string, datastore.CollectionIteratorHandler) error {
	return nil
}

// ---------- process-wide set-up ----------

var (
	once    sync.Once
	scratch string
)

// Cleanup removes the scratch directory.
func Cleanup() {
	if scratch != "" {
		chain.CloseStateDB()
		_ = os.RemoveAll(scratch)
	}
}

// Setup initialises loggers, configuration and entity metadata once per process.
func Setup() {
	once.Do(func() {
		_ = os.MkdirAll("/var/tmp/vs", 0o755)
		d, err := os.MkdirTemp("/var/tmp/vs", "crypto-state-")
		if err != nil {
			panic(err)
		}
		scratch = d
		if err := os.Chdir(d); err != nil {
			panic(err)
		}
		logging.InitLogging("development", "")
		if err := hb.Init(hb.CurveFp254BNb); err != nil {
			panic(err)
		}
		viper.Set("server_chain.client.signature_scheme", "bls0chain")
		config.SetServerChainID(config.GetMainChainID())
		client.SetClientSignatureScheme("bls0chain")
		transaction.SetTxnTimeout(600)
		common.SetupRootContext(context.Background())
		st := memStore{}
		memorystore.AddPool("txndb", &redis.Pool{Dial: func() (redis.Conn, error) { return nil, errors.New("verif: no redis") }})
		memorystore.AddPool("clientdb", &redis.Pool{Dial: func() (redis.Conn, error) { return nil, errors.New("verif: no redis") }})
		transaction.SetupEntity(st)
		client.SetupEntity(st)
		block.SetupEntity(st)
		block.SetupBlockSummaryEntity(st)
		round.SetupEntity(st)
		round.SetupVRFShareEntity(st)
		if err := os.MkdirAll(filepath.Join(d, "data/rocksdb/state"), 0o755); err != nil {
			panic(err)
		}
		chain.SetupEntity(st, d)
		go func() {
			for range chain.UpdateNodes {
			}
		}()
	})
}

// ---------- miners, magic block, DKG ----------

type Miner struct {
	Scheme *encryption.BLS0ChainScheme
	Pub    string
	ID     string
	Node   *node.Node
}

type World struct {
	T, N   int
	Miners []*Miner // in the order of creation; index = "miner number" of the scenarios
	MB     *block.MagicBlock
	DKGs   []*bls.DKG
	IDs    []bls.PartyID
	GSK    bls.Key // group secret (sum of the constant coefficients), reference only
}

// NewMinerKey makes a miner with a fresh key pair drawn from the installed CSPRNG.
func NewMinerKey(typ node.NodeType, port int) *Miner {
	s := encryption.NewBLS0ChainScheme()
	if err := s.GenerateKeys(); err != nil {
		panic(err)
	}
	pkb, _ := hex.DecodeString(s.GetPublicKey())
	id := encryption.Hash(pkb)
	nd, err := node.NewNode(map[interface{}]interface{}{
		"type": typ, "public_ip": "127.0.0.1", "n2n_ip": "127.0.0.1", "port": port,
		"id": id, "public_key": s.GetPublicKey(),
	})
	if err != nil {
		panic(err)
	}
	nd.Status = node.NodeStatusActive
	return &Miner{Scheme: s, Pub: s.GetPublicKey(), ID: id, Node: nd}
}

// NewWorld creates n miners, their magic block (starting round 1) and runs the DKG with
// threshold t among them; all randomness comes from seed.
func NewWorld(t, n int, seed uint64) *World {
	Setup()
	w := &World{T: t, N: n}
	WithRand(seed, func() {
		np := node.NewPool(node.NodeTypeMiner)
		for i := 0; i < n; i++ {
			m := NewMinerKey(node.NodeTypeMiner, 7000+i)
			w.Miners = append(w.Miners, m)
			if err := np.AddNode(m.Node); err != nil {
				panic(err)
			}
		}
		mb := block.NewMagicBlock()
		mb.Miners = np
		mb.Sharders = node.NewPool(node.NodeTypeSharder)
		mb.T, mb.N, mb.K = t, n, n
		mb.StartingRound = 1
		mb.MagicBlockNumber = 1
		// DKG
		w.DKGs = make([]*bls.DKG, n)
		w.IDs = make([]bls.PartyID, n)
		mpkMap := map[bls.PartyID][]bls.PublicKey{}
		mb.Mpks = block.NewMpks()
		for j := 0; j < n; j++ {
			w.DKGs[j] = bls.MakeDKG(t, n, w.Miners[j].ID)
			w.DKGs[j].MagicBlockNumber = mb.MagicBlockNumber
			w.DKGs[j].StartingRound = mb.StartingRound
			w.IDs[j] = w.DKGs[j].ID
			mpks := w.DKGs[j].GetMPKs()
			mpkMap[w.IDs[j]] = mpks
			e := &block.MPK{ID: w.Miners[j].ID}
			for _, pk := range mpks {
				e.Mpk = append(e.Mpk, pk.GetHexString())
			}
			mb.Mpks.Mpks[w.Miners[j].ID] = e
			w.GSK.Add(&w.DKGs[j].VerifMsk()[0])
		}
		for j := 0; j < n; j++ {
			for i := 0; i < n; i++ {
				sh, err := w.DKGs[j].ComputeDKGKeyShare(w.IDs[i])
				if err != nil {
					panic(err)
				}
				if !w.DKGs[i].ValidateShare(mpkMap[w.IDs[j]], sh) {
					panic("cryptoh: honest share rejected")
				}
				if err := w.DKGs[i].AddSecretShare(w.IDs[j], sh.GetHexString(), false); err != nil {
					panic(err)
				}
			}
		}
		for i := 0; i < n; i++ {
			w.DKGs[i].AggregateSecretKeyShares()
			if err := w.DKGs[i].AggregatePublicKeyShares(mpkMap); err != nil {
				panic(err)
			}
		}
		mb.Hash = mb.GetHash()
		w.MB = mb
	})
	return w
}

// View is one miner's node: a real chain with the world's magic block and a miner chain.
type View struct {
	Self   int
	C      *chain.Chain
	MC     *miner.Chain
	cancel context.CancelFunc
}

func (v *View) Close() { v.cancel() }

// NewView builds the chain of miner number self. The package-level miner chain and node.Self
// are re-pointed to this view (one view is active at a time). dkg decides server_chain.dkg.
func (w *World) NewView(self int, dkg bool, threshold int) *View {
	Setup()
	me := w.Miners[self]
	node.Self = &node.SelfNode{}
	node.Self.Node = me.Node
	if err := node.Self.SetSignatureScheme(me.Scheme); err != nil {
		panic(err)
	}
	c := chain.Provider().(*chain.Chain)
	c.ID = datastore.ToKey(config.GetServerChainID())
	data := &chain.ConfigData{
		IsDkgEnabled: dkg, MinBlockSize: 1, BlockSize: 1000, MaxBlockCost: 100000, TxnCostFeeCoeff: 1000000,
		MaxByteSize: 1 << 20, ValidationBatchSize: 10, ClientSignatureScheme: "bls0chain",
		BlockProposalMaxWaitTime: 2 * time.Minute, SmartContractTimeout: time.Minute,
		MinGenerators: 1, GeneratorsPercent: 0.2, RoundRange: 10000000, ThresholdByCount: threshold,
		ThresholdByStake: 0, TxnExempt: map[string]bool{},
	}
	c.ChainConfig = chain.NewConfigImpl(data)
	config.Configuration().ChainConfig = c.ChainConfig
	c.SetupStateCache()
	ctx, cancel := context.WithCancel(context.Background())
	go c.StartLFMBWorker(ctx)
	if err := c.UpdateMagicBlock(w.MB); err != nil {
		panic(err)
	}
	chain.SetServerChain(c)
	miner.SetupMinerChain(c)
	mc := miner.GetMinerChain()
	if err := mc.SetDKG(w.DKGs[self], w.MB.StartingRound); err != nil {
		panic(err)
	}
	return &View{Self: self, C: c, MC: mc, cancel: cancel}
}
