(* C02: a failing contract call only pays its fee and consumes its nonce.
   Only statements; each is closed by [exact] of a lemma in Proof/ChainStateC02.v.
   The contract call is an oracle result: whatever the call wrote, queued or emitted before it
   returned its error is, by [SCChargeable], not an input of the model at all - the engine runs
   script contracts that do write, queue and emit before failing and compares the whole leaf
   listing with this model. *)
From ZC Require Import Model.ChainState Proof.ChainState Proof.ChainStateC02.
Open Scope Z_scope.

(* A chargeably failed call that is applied: contract nodes untouched; status = TxnError and the
   output is the error text; every client leaf other than the sender's and (when a non-zero fee
   is charged) the fee wallet's is identical, stamps included; the sender pays exactly the fee
   and the fee wallet receives exactly it; the sender's nonce goes up by one and nobody else's;
   the events are the error event, then (with an event database) the first-use marker and user
   events that restate only those two accounts' final states.  With fees disabled or fee = 0
   only the sender's leaf changes.  (Ids in canonical spelling, see C01.) *)
Theorem C02_chargeable_only_fee_nonce :
  forall cfg st round tx msg st' status out evs,
    cs_canon_accts (st_accts st) -> cs_canon_txn cfg tx (SCChargeable msg) ->
    tx_type tx = TSC ->
    cs_update_state cfg st round tx (SCChargeable msg) = Applied st' status out evs ->
    let fee := cs_fee_of cfg tx in
    let from := tx_from tx in
    let miner := cfg_miner cfg in
    st_nodes st' = st_nodes st /\ status = 2 /\ out = Some msg /\
    (fee <> 0 -> from <> miner) /\
    (forall id, id <> from -> (fee <> 0 -> id <> miner) -> cs_get id (st_accts st') = cs_get id (st_accts st)) /\
    cs_bal (st_accts st') from = cs_bal (st_accts st) from - fee /\
    (from <> miner -> cs_bal (st_accts st') miner = cs_bal (st_accts st) miner + fee) /\
    cs_nonce (st_accts st') from = cs_wrap_i64 (cs_nonce (st_accts st) from + 1) /\
    (forall id, id <> from -> cs_nonce (st_accts st') id = cs_nonce (st_accts st) id) /\
    exists users,
      evs = EvError msg ::
            (if cfg_events cfg
             then (if cs_nonce (st_accts st) from =? 0 then [EvUnique] else []) ++ users
             else []) /\
      (forall e, In e users ->
                 e = cs_user_event (st_accts st') from \/ (fee <> 0 /\ e = cs_user_event (st_accts st') miner)).
Proof. exact cs_c02_chargeable. Qed.
Print Assumptions C02_chargeable_only_fee_nonce.

(* An internal failure (timeout, missing node) never applies the transaction. *)
Theorem C02_internal_failure_rejected :
  forall cfg st round tx,
    tx_type tx = TSC -> cs_is_applied (cs_update_state cfg st round tx SCInternal) = false.
Proof. exact cs_c02_internal_rejected. Qed.
Print Assumptions C02_internal_failure_rejected.

(* Later reads.  A contract reads nodes through StateContext.GetTrieNode, i.e. through the
   transaction cache, the block cache shared by the block's transactions, the chain's state cache
   and finally the trie; in the model all of that is the committed node map.  After ANY history the
   committed nodes are the initial ones overwritten by the writes of the successfully applied calls
   only ([cs_committed_writes]): nothing a chargeably failed, internally failed or rejected call
   wrote while it ran can be seen by any later read.  The engine runs the real chain with a real
   StateCache / per-block BlockCache, lets script contracts write cacheable values and then fail,
   and compares every later GetTrieNode result with this. *)
Theorem C02_later_reads_see_only_committed_writes :
  forall cfg h st,
    st_nodes (cs_run cfg st h) = cs_apply_writes (cs_committed_writes cfg st h) (st_nodes st).
Proof. exact cs_c02_nodes_after_history. Qed.
Print Assumptions C02_later_reads_see_only_committed_writes.

Theorem C02_failed_call_invisible_to_reads :
  forall cfg st round tx r k,
    (forall ws trs sg evs out, r <> SCOk ws trs sg evs out) ->
    cs_get k (st_nodes (cs_post st (cs_update_state cfg st round tx r))) = cs_get k (st_nodes st).
Proof. exact cs_c02_failed_call_invisible. Qed.
Print Assumptions C02_failed_call_invisible_to_reads.

(* Non-vacuity: a failing call by a first-time sender with a fee, events on. *)
Example C02_example :
  let cfg := {| cfg_fee := true; cfg_events := true; cfg_miner := 0; cfg_strict_ids := true |} in
  let A b n := {| ac_bal := b; ac_nonce := n; ac_txn := -1; ac_round := 0 |} in
  let st := {| st_accts := [(0, A 7 0); (1, A 50 0); (3, A 100 0)]; st_nodes := [(2, 5)] |} in
  let tx := {| tx_hash := 9; tx_type := TSC; tx_from := 3; tx_to := 1; tx_value := 40; tx_fee := 4; tx_nonce := 1 |} in
  cs_update_state cfg st 6 tx (SCChargeable 77) =
  Applied {| st_accts := [(0, {| ac_bal := 11; ac_nonce := 0; ac_txn := 9; ac_round := 6 |}); (1, A 50 0);
                          (3, {| ac_bal := 96; ac_nonce := 1; ac_txn := 9; ac_round := 6 |})];
             st_nodes := [(2, 5)] |}
          2 (Some 77) [EvError 77; EvUnique; EvUser 0 11 0; EvUser 3 96 1].
Proof. vm_compute. reflexivity. Qed.
