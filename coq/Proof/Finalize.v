(* Proofs for C36 over Model/Finalize.v. *)
From ZC Require Import Model.Finalize.

(* a is an ancestor of b (or b itself) *)
Definition fz_ancestor (t : fz_tree) (a b : nat) : Prop := exists k, fz_anc t k b = Some a.
(* every parent lies in an earlier round / exactly one round earlier *)
Definition fz_decreasing (t : fz_tree) : Prop := forall b p, fz_par t b = Some p -> fz_rnd t p < fz_rnd t b.
Definition fz_uniform (t : fz_tree) : Prop := forall b p, fz_par t b = Some p -> fz_rnd t b = S (fz_rnd t p).
(* the blocks listed under a round belong to that round *)
Definition fz_known_ok (t : fz_tree) (known : fz_rounds) : Prop :=
  forall rn ids b, fz_lookup known rn = Some ids -> In b ids -> fz_rnd t b = rn.

Lemma fz_uniform_decreasing : forall t, fz_uniform t -> fz_decreasing t.
Proof. intros t H b p Hp. rewrite (H b p Hp). lia. Qed.

Lemma fz_anc_add : forall t a c b,
  fz_anc t (a + c) b = match fz_anc t a b with Some x => fz_anc t c x | None => None end.
Proof.
  induction a as [|a IH]; intros c b; cbn; [reflexivity|].
  destruct (fz_par t b); [apply IH|reflexivity].
Qed.

Lemma fz_ancestor_refl : forall t b, fz_ancestor t b b.
Proof. intros. exists 0. reflexivity. Qed.

Lemma fz_ancestor_trans : forall t a b c, fz_ancestor t a b -> fz_ancestor t b c -> fz_ancestor t a c.
Proof.
  intros t a b c [k1 H1] [k2 H2]. exists (k2 + k1). rewrite fz_anc_add, H2. exact H1.
Qed.

Lemma fz_anc_round : forall t, fz_uniform t -> forall k b x, fz_anc t k b = Some x -> fz_rnd t b = fz_rnd t x + k.
Proof.
  intros t Hu. induction k as [|k IH]; intros b x H; cbn in H.
  - inversion H; subst. lia.
  - destruct (fz_par t b) as [p|] eqn:E; [|discriminate].
    rewrite (Hu b p E). rewrite (IH p x H). lia.
Qed.

(* ------------------------------------------------------------------------------------------ *)
(* one pass to the previous blocks *)
Lemma fz_existsb_in : forall x l, existsb (Nat.eqb x) l = true <-> In x l.
Proof.
  intros. rewrite existsb_exists. split.
  - intros (y & Hy & E). apply Nat.eqb_eq in E. now subst.
  - intros H. exists x. split; [assumption|apply Nat.eqb_refl].
Qed.

Lemma fz_prevs_some : forall t F acc P, fz_prevs t F acc = Some P ->
  (forall x, In x P <-> In x acc \/ exists b, In b F /\ fz_par t b = Some x) /\
  (NoDup acc -> NoDup P) /\ (forall b, In b F -> fz_par t b <> None).
Proof.
  induction F as [|b tl IH]; intros acc P H; cbn in H.
  - inversion H; subst. split; [|split; [auto|intros b []]].
    intros x. split; [auto|]. intros [Hx|(b & [] & _)]. assumption.
  - destruct (fz_par t b) as [p|] eqn:E; [|discriminate].
    destruct (existsb (Nat.eqb p) acc) eqn:Ex.
    + destruct (IH _ _ H) as (I1 & I2 & I3). split; [|split; [assumption|]].
      * intros x. rewrite I1. split.
        -- intros [Hx|(b' & Hb' & Hp')]; [now left|]. right. exists b'. split; [now right|assumption].
        -- intros [Hx|(b' & [->|Hb'] & Hp')]; [now left| |].
           ++ left. rewrite E in Hp'. inversion Hp'; subst. now apply fz_existsb_in.
           ++ right. eauto.
      * intros b' [->|Hb']; [congruence|auto].
    + destruct (IH _ _ H) as (I1 & I2 & I3). split; [|split].
      * intros x. rewrite I1. split.
        -- intros [Hx|(b' & Hb' & Hp')].
           ++ apply in_app_or in Hx. destruct Hx as [Hx|[<-|[]]]; [now left|].
              right. exists b. split; [now left|assumption].
           ++ right. exists b'. split; [now right|assumption].
        -- intros [Hx|(b' & [->|Hb'] & Hp')].
           ++ left. apply in_or_app. now left.
           ++ left. apply in_or_app. right. rewrite E in Hp'. inversion Hp'. now left.
           ++ right. eauto.
      * intros Hn. apply I2.
        assert (~ In p acc) as Hni by (rewrite <- fz_existsb_in; congruence).
        clear -Hn Hni. induction acc as [|a acc IHa]; cbn; [constructor; [tauto|constructor]|].
        inversion Hn; subst. constructor.
        -- intros Hc. apply in_app_or in Hc. destruct Hc as [Hc|[Hc|[]]]; [contradiction|].
           apply Hni. now left.
        -- apply IHa; [assumption|]. intros Hc. apply Hni. now right.
      * intros b' [->|Hb']; [congruence|auto].
Qed.

Lemma fz_prevs_none : forall t F acc, fz_prevs t F acc = None -> exists b, In b F /\ fz_par t b = None.
Proof.
  induction F as [|b tl IH]; intros acc H; cbn in H; [discriminate|].
  destruct (fz_par t b) as [p|] eqn:E.
  - destruct (existsb (Nat.eqb p) acc); destruct (IH _ H) as (b' & Hb' & Hp'); exists b'; split; auto; now right.
  - exists b. split; [now left|assumption].
Qed.

Lemma fz_all_equal_singleton : forall (P : list nat) y, NoDup P -> P <> [] -> (forall x, In x P -> x = y) -> P = [y].
Proof.
  intros [|a [|b P]] y Hn Hne Hall; [congruence| |].
  - f_equal. apply Hall. now left.
  - exfalso. inversion Hn; subst. apply H1.
    rewrite (Hall a (or_introl eq_refl)). rewrite (Hall b (or_intror (or_introl eq_refl))). now left.
Qed.

(* the frontier after one pass, related to the frontier before *)
Lemma fz_prevs_step : forall t F P, F <> [] -> fz_prevs t F [] = Some P ->
  P <> [] /\ NoDup P /\
  (forall x, In x P <-> exists b, In b F /\ fz_par t b = Some x) /\
  (forall b, In b F -> exists p, fz_par t b = Some p /\ In p P).
Proof.
  intros t F P Hne H. destruct (fz_prevs_some _ _ _ _ H) as (I1 & I2 & I3).
  assert (forall x, In x P <-> exists b, In b F /\ fz_par t b = Some x) as I1'.
  { intros x. rewrite I1. cbn. split; [intros [[]|Hx]; assumption|auto]. }
  assert (forall b, In b F -> exists p, fz_par t b = Some p /\ In p P) as I4.
  { intros b Hb. destruct (fz_par t b) as [p|] eqn:E; [|exfalso; eapply I3; eassumption].
    exists p. split; [reflexivity|]. apply I1'. eauto. }
  split; [|split; [apply I2; constructor|split; assumption]].
  destruct F as [|b tl]; [congruence|]. destruct (I4 b (or_introl eq_refl)) as (p & _ & Hp).
  intros ->. exact Hp.
Qed.

(* common ancestors of the frontier, one generation up, are the common ancestors of the new frontier *)
Lemma fz_common_step : forall t F P j y, F <> [] -> fz_prevs t F [] = Some P ->
  (forall b, In b F -> fz_anc t (S j) b = Some y) -> forall p, In p P -> fz_anc t j p = Some y.
Proof.
  intros t F P j y Hne H Hall p Hp.
  destruct (fz_prevs_step _ _ _ Hne H) as (_ & _ & I1 & _).
  apply I1 in Hp. destruct Hp as (b & Hb & Hpb). specialize (Hall b Hb). cbn in Hall. now rewrite Hpb in Hall.
Qed.

(* second loop: the result is the nearest block that is the same-generation ancestor of every
   block of the frontier *)
Lemma fz_back_some : forall t fuel F x, F <> [] -> fz_back t fuel F = FzSome x ->
  exists k, 1 <= k /\ (forall b, In b F -> fz_anc t k b = Some x) /\
    (forall j y, 1 <= j -> j < k -> ~ (forall b, In b F -> fz_anc t j b = Some y)).
Proof.
  intros t. induction fuel as [|f IH]; intros F x Hne H; cbn in H; [discriminate|].
  destruct (fz_prevs t F []) as [P|] eqn:E; [|discriminate].
  destruct (fz_prevs_step _ _ _ Hne E) as (Pne & Pnd & I1 & I4).
  assert (forall z, P = [z] ->
    exists k, 1 <= k /\ (forall b, In b F -> fz_anc t k b = Some z) /\
      (forall j y, 1 <= j -> j < k -> ~ (forall b, In b F -> fz_anc t j b = Some y))) as Hsingle.
  { intros z ->. exists 1. split; [lia|]. split; [|intros; lia].
    intros b Hb. destruct (I4 b Hb) as (p & Hp & [<-|[]]). cbn. now rewrite Hp. }
  destruct P as [|z [|z2 P']]; [congruence| |].
  - inversion H; subst. now apply Hsingle.
  - destruct (IH _ _ Pne H) as (k & Hk & Hall & Hmin).
    exists (S k). split; [lia|]. split.
    + intros b Hb. destruct (I4 b Hb) as (p & Hp & Hin). cbn. rewrite Hp. now apply Hall.
    + intros j y Hj Hlt Hc. destruct j as [|j]; [lia|].
      destruct j as [|j].
      * (* all parents equal y: the new frontier would be a singleton *)
        assert (z :: z2 :: P' = [y]) as Habs; [|discriminate].
        apply fz_all_equal_singleton; [assumption|assumption|].
        intros p Hp. pose proof (fz_common_step t F _ 0 y Hne E Hc p Hp) as H0. cbn in H0. congruence.
      * apply (Hmin (S j) y); [lia|lia|]. intros p Hp. exact (fz_common_step t F _ (S j) y Hne E Hc p Hp).
Qed.

Lemma fz_back_none : forall t fuel F, F <> [] -> fz_back t fuel F = FzNone ->
  forall j y, 1 <= j -> ~ (forall b, In b F -> fz_anc t j b = Some y).
Proof.
  intros t. induction fuel as [|f IH]; intros F Hne H j y Hj Hc; cbn in H; [discriminate|].
  destruct (fz_prevs t F []) as [P|] eqn:E.
  - destruct (fz_prevs_step _ _ _ Hne E) as (Pne & Pnd & I1 & I4).
    destruct P as [|z [|z2 P']]; [congruence|discriminate|].
    destruct j as [|j]; [lia|]. destruct j as [|j].
    + assert (z :: z2 :: P' = [y]) as Habs; [|discriminate].
      apply fz_all_equal_singleton; [assumption|assumption|].
      intros p Hp. pose proof (fz_common_step t F _ 0 y Hne E Hc p Hp) as H0. cbn in H0. congruence.
    + apply (IH _ Pne H (S j) y); [lia|]. intros p Hp. exact (fz_common_step t F _ (S j) y Hne E Hc p Hp).
  - destruct (fz_prevs_none _ _ _ E) as (b & Hb & Hp). specialize (Hc b Hb).
    destruct j; [lia|]. cbn in Hc. rewrite Hp in Hc. discriminate.
Qed.

(* the loop ends: fuel above the rounds of the frontier is enough *)
Lemma fz_back_fuel : forall t, fz_decreasing t -> forall fuel F, F <> [] ->
  (forall b, In b F -> fz_rnd t b < fuel) -> fz_back t fuel F <> FzFuel.
Proof.
  intros t Hd. induction fuel as [|f IH]; intros F Hne Hr.
  - destruct F as [|b tl]; [congruence|]. specialize (Hr b (or_introl eq_refl)). lia.
  - cbn. destruct (fz_prevs t F []) as [P|] eqn:E; [|discriminate].
    destruct (fz_prevs_step _ _ _ Hne E) as (Pne & Pnd & I1 & I4).
    destruct P as [|z [|z2 P']]; [congruence|discriminate|].
    apply IH; [assumption|]. intros p Hp. apply I1 in Hp. destruct Hp as (b & Hb & Hpb).
    specialize (Hr b Hb). specialize (Hd b p Hpb). lia.
Qed.

(* ------------------------------------------------------------------------------------------ *)
(* first loop: the latest round in (lfbr, r] that has notarized blocks *)
Definition fz_latest_nonempty (known : fz_rounds) (lfbr r rho : nat) (S : list nat) : Prop :=
  lfbr < rho /\ rho <= r /\ S <> [] /\ fz_lookup known rho = Some S /\
  forall rho', rho < rho' -> rho' <= r -> fz_lookup known rho' = Some [].

Lemma fz_find_start_spec : forall known lfbr fuel rn S, fz_find_start known lfbr fuel rn = S -> S <> [] ->
  exists rho, fz_latest_nonempty known lfbr rn rho S.
Proof.
  intros known lfbr. induction fuel as [|f IH]; intros rn S H Hne; cbn in H; [congruence|].
  destruct (Nat.leb_spec rn lfbr); [congruence|].
  destruct (fz_lookup known rn) as [[|a ids]|] eqn:E; [|subst|congruence].
  - destruct (IH _ _ H Hne) as (rho & H1 & H2 & H3 & H4 & H5).
    exists rho. split; [assumption|]. split; [lia|]. split; [assumption|]. split; [assumption|].
    intros rho' Hlt Hle. destruct (Nat.eq_dec rho' rn) as [->|Hn]; [assumption|]. apply H5; lia.
  - exists rn. split; [lia|]. split; [lia|]. split; [discriminate|]. split; [assumption|]. intros; lia.
Qed.

(* ------------------------------------------------------------------------------------------ *)
(* ComputeFinalizedBlock *)
Lemma fz_compute_some : forall t known lfbr r fb, fz_compute t known lfbr r = FzSome fb ->
  exists rho S k, fz_latest_nonempty known lfbr r rho S /\ 1 <= k /\
    (forall b, In b S -> fz_anc t k b = Some fb) /\
    (forall j c, 1 <= j -> (forall b, In b S -> fz_anc t j b = Some c) -> k <= j /\ fz_anc t (j - k) fb = Some c) /\
    fz_rnd t fb <> r.
Proof.
  intros t known lfbr r fb H. unfold fz_compute in H.
  destruct (fz_find_start known lfbr (S r) r) as [|s0 S'] eqn:Es; [discriminate|].
  set (S := s0 :: S') in *. assert (S <> []) as Hne by discriminate.
  destruct (fz_find_start_spec _ _ _ _ _ Es Hne) as (rho & Hl).
  destruct (fz_back t (Datatypes.S r) S) as [x| |] eqn:Eb; try discriminate.
  destruct (Nat.eqb_spec (fz_rnd t x) r); [discriminate|]. inversion H; subst x.
  destruct (fz_back_some _ _ _ _ Hne Eb) as (k & Hk & Hall & Hmin).
  exists rho, S, k. split; [assumption|]. split; [assumption|]. split; [assumption|]. split; [|assumption].
  intros j c Hj Hc.
  assert (k <= j) as Hle.
  { destruct (Nat.le_gt_cases k j); [assumption|]. exfalso. eapply Hmin; eassumption. }
  split; [assumption|].
  specialize (Hall s0 (or_introl eq_refl)). specialize (Hc s0 (or_introl eq_refl)).
  replace j with (k + (j - k)) in Hc by lia. rewrite fz_anc_add, Hall in Hc. exact Hc.
Qed.

(* with rounds exactly one apart: the result lies in an earlier round and is the deepest block
   that is a proper ancestor of every notarized block of the latest non-empty round *)
Lemma fz_compute_deepest_common_ancestor : forall t known lfbr r fb,
  fz_uniform t -> fz_known_ok t known -> fz_compute t known lfbr r = FzSome fb ->
  exists rho S, fz_latest_nonempty known lfbr r rho S /\
    fz_rnd t fb < rho /\
    (forall b, In b S -> fz_ancestor t fb b) /\
    (forall c, (forall b, In b S -> fz_ancestor t c b /\ c <> b) -> fz_ancestor t c fb).
Proof.
  intros t known lfbr r fb Hu Hk H.
  destruct (fz_compute_some _ _ _ _ _ H) as (rho & S & k & Hl & Hk1 & Hall & Hmax & _).
  exists rho, S. split; [assumption|].
  destruct Hl as (L1 & L2 & L3 & L4 & L5).
  destruct S as [|s0 S']; [congruence|].
  assert (forall b, In b (s0 :: S') -> fz_rnd t b = rho) as Hr by (intros b Hb; eapply Hk; eassumption).
  split; [|split].
  - pose proof (fz_anc_round t Hu _ _ _ (Hall s0 (or_introl eq_refl))) as E.
    rewrite (Hr s0 (or_introl eq_refl)) in E. lia.
  - intros b Hb. exists k. auto.
  - intros c Hc.
    (* every b reaches c in the same number of generations: rho - round c *)
    assert (forall b, In b (s0 :: S') -> fz_anc t (rho - fz_rnd t c) b = Some c /\ 1 <= rho - fz_rnd t c) as Hsame.
    { intros b Hb. destruct (Hc b Hb) as [[jb Hjb] Hneq].
      pose proof (fz_anc_round t Hu _ _ _ Hjb) as E. rewrite (Hr b Hb) in E.
      replace (rho - fz_rnd t c) with jb by lia. split; [assumption|].
      destruct jb; [cbn in Hjb; congruence|lia]. }
    destruct (Hsame s0 (or_introl eq_refl)) as [_ Hj1].
    destruct (Hmax (rho - fz_rnd t c) c Hj1 (fun b Hb => proj1 (Hsame b Hb))) as [_ Hfin].
    eexists. exact Hfin.
Qed.

(* nil result: no such round, or the blocks have no common ancestor that can be reached *)
Lemma fz_compute_none : forall t known lfbr r, fz_uniform t -> fz_known_ok t known ->
  fz_compute t known lfbr r = FzNone ->
  (forall rho S, ~ fz_latest_nonempty known lfbr r rho S) \/
  (exists rho S, fz_latest_nonempty known lfbr r rho S /\
     forall j c, 1 <= j -> ~ (forall b, In b S -> fz_anc t j b = Some c)).
Proof.
  intros t known lfbr r Hu Hk H. unfold fz_compute in H.
  destruct (fz_find_start known lfbr (S r) r) as [|s0 S'] eqn:Es.
  - left. intros rho S (L1 & L2 & L3 & L4 & L5).
    (* the scan from r down would have found rho *)
    assert (forall fuel rn, rho <= rn -> rn - lfbr <= fuel -> rn <= r ->
              fz_find_start known lfbr fuel rn = S) as G.
    { induction fuel as [|f IHf]; intros rn H1 H2 H3; [lia|]. cbn.
      destruct (Nat.leb_spec rn lfbr); [lia|].
      destruct (Nat.eq_dec rn rho) as [->|Hn].
      - rewrite L4. destruct S; [congruence|reflexivity].
      - rewrite (L5 rn) by lia. apply IHf; lia. }
    rewrite (G (Datatypes.S r) r) in Es by lia. congruence.
  - set (S := s0 :: S') in *. assert (S <> []) as Hne by discriminate.
    destruct (fz_find_start_spec _ _ _ _ _ Es Hne) as (rho & Hl).
    right. exists rho, S. split; [assumption|].
    destruct (fz_back t (Datatypes.S r) S) as [x| |] eqn:Eb; try discriminate.
    + (* a result in round r itself is impossible *)
      destruct (Nat.eqb_spec (fz_rnd t x) r) as [E|]; [|discriminate].
      destruct (fz_back_some _ _ _ _ Hne Eb) as (k & Hk1 & Hall & _).
      pose proof (fz_anc_round t Hu _ _ _ (Hall s0 (or_introl eq_refl))) as E2.
      destruct Hl as (L1 & L2 & L3 & L4 & L5).
      rewrite (Hk rho S s0 L4 (or_introl eq_refl)) in E2. lia.
    + eapply fz_back_none; eassumption.
Qed.

Lemma fz_compute_terminates : forall t known lfbr r, fz_decreasing t -> fz_known_ok t known ->
  fz_compute t known lfbr r <> FzFuel.
Proof.
  intros t known lfbr r Hd Hk. unfold fz_compute.
  destruct (fz_find_start known lfbr (S r) r) as [|s0 S'] eqn:Es; [discriminate|].
  set (S := s0 :: S') in *. assert (S <> []) as Hne by discriminate.
  destruct (fz_find_start_spec _ _ _ _ _ Es Hne) as (rho & L1 & L2 & L3 & L4 & L5).
  assert (fz_back t (Datatypes.S r) S <> FzFuel) as Hf.
  { apply fz_back_fuel; [assumption|assumption|]. intros b Hb. rewrite (Hk rho S b L4 Hb). lia. }
  destruct (fz_back t (Datatypes.S r) S); try congruence.
  destruct (Nat.eqb (fz_rnd t b) r); discriminate.
Qed.

(* ------------------------------------------------------------------------------------------ *)
(* finalizeRound *)
Lemma fz_lookup_set_same : forall {A} (l : list (nat * A)) n v, fz_lookup (fz_set l n v) n = Some v.
Proof.
  induction l as [|[k x] tl IH]; intros n v; cbn.
  - now rewrite Nat.eqb_refl.
  - destruct (Nat.eqb_spec k n); cbn.
    + now rewrite Nat.eqb_refl.
    + destruct (Nat.eqb_spec k n); [contradiction|apply IH].
Qed.

Lemma fz_lookup_set_other : forall {A} (l : list (nat * A)) n m v, n <> m ->
  fz_lookup (fz_set l n v) m = fz_lookup l m.
Proof.
  induction l as [|[k x] tl IH]; intros n m v Hne; cbn.
  - destruct (Nat.eqb_spec n m); [contradiction|reflexivity].
  - destruct (Nat.eqb_spec k n); cbn.
    + subst k. destruct (Nat.eqb_spec n m); [contradiction|reflexivity].
    + destruct (Nat.eqb_spec k m); [reflexivity|now apply IH].
Qed.

(* rounds strictly increasing along the list *)
Fixpoint fz_asc (t : fz_tree) (l : list nat) : Prop :=
  match l with
  | [] => True
  | x :: tl => Forall (fun y => fz_rnd t x < fz_rnd t y) tl /\ fz_asc t tl
  end.

Lemma fz_walk_ok : forall t plfb maxback, fz_decreasing t -> forall fuel b acc chain,
  fz_asc t (rev acc) -> (forall y, In y acc -> fz_rnd t b < fz_rnd t y) ->
  (forall y, In y acc -> fz_rnd t plfb < fz_rnd t y) ->
  fz_walk t plfb maxback fuel b acc = FwOk chain ->
  fz_asc t (rev chain) /\ forall y, In y chain -> fz_rnd t plfb < fz_rnd t y.
Proof.
  intros t plfb maxback Hd. induction fuel as [|f IH]; intros b acc chain Ha Hb Hp H; cbn in H; [discriminate|].
  destruct (Nat.eqb b plfb || Nat.leb (fz_rnd t b) (fz_rnd t plfb)) eqn:Ec.
  - inversion H; subst. split; assumption.
  - apply orb_false_iff in Ec. destruct Ec as [_ Ec]. apply Nat.leb_gt in Ec.
    destruct (fz_par t b) as [p|] eqn:Ep; [|discriminate].
    assert (fz_asc t (rev (acc ++ [b]))) as Ha'.
    { rewrite rev_app_distr. cbn. split; [|assumption].
      apply Forall_forall. intros y Hy. apply in_rev in Hy. now apply Hb. }
    assert (forall y, In y (acc ++ [b]) -> fz_rnd t plfb < fz_rnd t y) as Hp'.
    { intros y Hy. apply in_app_or in Hy. destruct Hy as [Hy|[<-|[]]]; [auto|assumption]. }
    destruct (Nat.eqb (fz_rnd t p) (fz_rnd t plfb) && negb (Nat.eqb p plfb)); [discriminate|].
    destruct (Nat.leb maxback (length (acc ++ [b]))).
    + inversion H; subst. split; assumption.
    + apply (IH p (acc ++ [b]) chain); try assumption.
      intros y Hy. specialize (Hd b p Ep). apply in_app_or in Hy.
      destruct Hy as [Hy|[<-|[]]]; [specialize (Hb y Hy); lia|assumption].
Qed.

(* the finalized block of the LFB's round is the LFB; no later round is finalized *)
Definition fz_inv (t : fz_tree) (st : fz_state) : Prop :=
  fz_lookup (fz_finhash st) (fz_rnd t (fz_lfb st)) = Some (fz_lfb st) /\
  (forall rho h, fz_lookup (fz_finhash st) rho = Some h -> rho <= fz_rnd t (fz_lfb st)).

Definition fz_extends (t : fz_tree) (st : fz_state) (res : fz_state * list (nat * bool)) : Prop :=
  fz_inv t (fst res) /\ fz_known (fst res) = fz_known st /\ fz_ancestor t (fz_lfb st) (fz_lfb (fst res)) /\
  (* every block the worker accepted extends the finalized block before it *)
  (forall fb, In (fb, true) (snd res) -> fz_ancestor t (fz_lfb st) fb /\ fz_ancestor t fb (fz_lfb (fst res))).

Lemma fz_extends_nop : forall t st, fz_inv t st -> fz_extends t st (st, []).
Proof.
  intros t st Hi. split; [assumption|]. split; [reflexivity|]. split; [apply fz_ancestor_refl|]. intros ? [].
Qed.

Lemma fz_handoff_chain : forall t r chain st, fz_inv t st -> fz_asc t chain ->
  Forall (fun x => fz_rnd t (fz_lfb st) < fz_rnd t x) chain ->
  fz_extends t st (fz_handoff t st r chain).
Proof.
  intros t r. induction chain as [|fb tl IH]; intros st Hi Ha Hf; cbn [fz_handoff].
  - now apply fz_extends_nop.
  - destruct Ha as [Ha1 Ha2]. inversion Hf as [|? ? Hf1 Hf2]; subst.
    destruct (Nat.ltb (r - fz_rnd t fb) 3); [apply IH; assumption|].
    destruct (fz_par t fb) as [p|] eqn:Ep; [|now apply fz_extends_nop].
    destruct (fz_lookup (fz_known st) (fz_rnd t fb)) as [ids|] eqn:Ek; [|now apply fz_extends_nop].
    destruct (negb (existsb (Nat.eqb fb) ids)); [now apply fz_extends_nop|].
    destruct (fz_worker_accepts t st fb) eqn:Ew.
    + (* accepted: the previous block is the current LFB *)
      unfold fz_worker_accepts in Ew. rewrite Ep in Ew.
      destruct (fz_rnd t fb) as [|pr] eqn:Er; [discriminate|].
      destruct (fz_lookup (fz_known st) pr); [|discriminate].
      destruct (fz_lookup (fz_finhash st) pr) as [h|] eqn:Eh; [|discriminate].
      apply Nat.eqb_eq in Ew. subst h. destruct Hi as [J K].
      assert (pr = fz_rnd t (fz_lfb st)) as Epr by (specialize (K _ _ Eh); lia).
      assert (p = fz_lfb st) as -> by (rewrite Epr in Eh; congruence).
      set (st1 := {| fz_lfb := fb; fz_known := fz_known st; fz_finhash := fz_set (fz_finhash st) (S pr) fb |}).
      assert (fz_inv t st1) as Hi1.
      { split; cbn; rewrite Er.
        - apply fz_lookup_set_same.
        - intros rho h Hl. destruct (Nat.eq_dec (S pr) rho) as [<-|Hn]; [lia|].
          rewrite fz_lookup_set_other in Hl by assumption. specialize (K _ _ Hl). lia. }
      assert (Forall (fun x => fz_rnd t (fz_lfb st1) < fz_rnd t x) tl) as Hf1'.
      { cbn. rewrite Er. assumption. }
      specialize (IH st1 Hi1 Ha2 Hf1').
      destruct (fz_handoff t st1 r tl) as [st2 hs] eqn:E2.
      destruct IH as (I1 & I2 & I3 & I4). cbn [fst snd] in *.
      assert (fz_ancestor t (fz_lfb st) fb) as Hstep by (exists 1; cbn; now rewrite Ep).
      split; [assumption|]. split; [assumption|]. split; [eapply fz_ancestor_trans; eassumption|].
      cbn [fst snd]. intros fb' [E|Hin].
      * inversion E; subst fb'. split; assumption.
      * destruct (I4 fb' Hin) as [H1 H2]. split; [eapply fz_ancestor_trans; eassumption|assumption].
    + split; [assumption|]. split; [reflexivity|]. split; [apply fz_ancestor_refl|].
      cbn [fst snd]. intros fb' [E|[]]. discriminate.
Qed.

(* the notarized blocks known in rounds after the LFB's, up to r, descend from the LFB *)
Definition fz_descend_from_lfb (t : fz_tree) (st : fz_state) (r : nat) : Prop :=
  forall rho ids b, fz_lookup (fz_known st) rho = Some ids -> fz_rnd t (fz_lfb st) < rho -> rho <= r ->
    In b ids -> fz_ancestor t (fz_lfb st) b.

Lemma fz_finalize_extends : forall t ahead st r, fz_uniform t -> fz_known_ok t (fz_known st) -> fz_inv t st ->
  fz_descend_from_lfb t st r -> fz_extends t st (fz_finalize t ahead st r).
Proof.
  intros t ahead st r Hu Hk Hi Hdesc. unfold fz_finalize.
  pose proof (fz_extends_nop t st Hi) as Hnop.
  destruct (Nat.leb r (fz_rnd t (fz_lfb st))); [exact Hnop|].
  destruct (fz_compute t (fz_known st) (fz_rnd t (fz_lfb st)) r) as [l| |] eqn:Ec; try exact Hnop.
  destruct (Nat.eqb_spec l (fz_lfb st)); [exact Hnop|].
  destruct (Nat.ltb_spec (fz_rnd t (fz_lfb st)) (fz_rnd t l)) as [Hlt|Hge].
  - destruct (Nat.leb (2 * ahead) (r - fz_rnd t l)); [exact Hnop|].
    destruct (fz_walk t (fz_lfb st) ahead (S (fz_rnd t l)) l []) as [frchain| |] eqn:Ew; try exact Hnop.
    destruct (fz_walk_ok t (fz_lfb st) ahead (fz_uniform_decreasing t Hu) (S (fz_rnd t l)) l [] frchain I
                (fun y (H : In y []) => match H with end) (fun y (H : In y []) => match H with end) Ew) as [W1 W2].
    apply fz_handoff_chain; [assumption|assumption|].
    apply Forall_forall. intros x Hx. apply W2. now apply in_rev.
  - (* the roll-back branch cannot be taken when everything descends from the LFB *)
    exfalso.
    destruct (fz_compute_some _ _ _ _ _ Ec) as (rho & S & k & Hl & Hk1 & Hall & Hmax & _).
    destruct Hl as (L1 & L2 & L3 & L4 & L5).
    assert (forall b, In b S -> fz_anc t (rho - fz_rnd t (fz_lfb st)) b = Some (fz_lfb st)) as Hsame.
    { intros b Hb. destruct (Hdesc rho S b L4 L1 L2 Hb) as [jb Hjb].
      pose proof (fz_anc_round t Hu _ _ _ Hjb) as E. rewrite (Hk rho S b L4 Hb) in E.
      replace (rho - fz_rnd t (fz_lfb st)) with jb by lia. assumption. }
    destruct (Hmax (rho - fz_rnd t (fz_lfb st)) (fz_lfb st) ltac:(lia) Hsame) as [Hle Hfin].
    pose proof (fz_anc_round t Hu _ _ _ Hfin) as E.
    destruct (rho - fz_rnd t (fz_lfb st) - k) eqn:Ed.
    + cbn in Hfin. congruence.
    + lia.
Qed.

(* adding a notarized block keeps the table of rounds consistent *)
Lemma fz_add_known_ok : forall t known b, fz_known_ok t known -> fz_known_ok t (fz_add_known known (fz_rnd t b) b).
Proof.
  intros t known b Hk. unfold fz_add_known.
  destruct (fz_lookup known (fz_rnd t b)) as [ids|] eqn:E.
  - destruct (existsb (Nat.eqb b) ids); [assumption|].
    intros rn ids' b' Hl Hin. destruct (Nat.eq_dec (fz_rnd t b) rn) as [<-|Hn].
    + rewrite fz_lookup_set_same in Hl. inversion Hl; subst. apply in_app_or in Hin.
      destruct Hin as [Hin|[<-|[]]]; [eapply Hk; eassumption|reflexivity].
    + rewrite fz_lookup_set_other in Hl by assumption. eapply Hk; eassumption.
  - intros rn ids' b' Hl Hin. destruct (Nat.eq_dec (fz_rnd t b) rn) as [<-|Hn].
    + rewrite fz_lookup_set_same in Hl. inversion Hl; subst. destruct Hin as [<-|[]]. reflexivity.
    + rewrite fz_lookup_set_other in Hl by assumption. eapply Hk; eassumption.
Qed.

(* histories: at every finalizeRound the known notarized blocks above the LFB descend from it *)
Fixpoint fz_good_run (t : fz_tree) (ahead : nat) (st : fz_state) (ops : list fz_op) : Prop :=
  match ops with
  | [] => True
  | o :: tl =>
      match o with FzFinalize r => fz_descend_from_lfb t st r | FzAdd _ => True end /\
      fz_good_run t ahead (fst (fz_step t ahead st o)) tl
  end.

(* each state's LFB descends from the one before: finalized blocks form one chain *)
Fixpoint fz_chain_run (t : fz_tree) (ahead : nat) (st : fz_state) (ops : list fz_op) : Prop :=
  match ops with
  | [] => True
  | o :: tl =>
      fz_ancestor t (fz_lfb st) (fz_lfb (fst (fz_step t ahead st o))) /\
      (forall fb, In (fb, true) (snd (fz_step t ahead st o)) ->
         fz_ancestor t (fz_lfb st) fb /\ fz_ancestor t fb (fz_lfb (fst (fz_step t ahead st o)))) /\
      fz_chain_run t ahead (fst (fz_step t ahead st o)) tl
  end.

Lemma fz_single_chain : forall t ahead, fz_uniform t -> forall ops st,
  fz_known_ok t (fz_known st) -> fz_inv t st -> fz_good_run t ahead st ops -> fz_chain_run t ahead st ops.
Proof.
  intros t ahead Hu. induction ops as [|o tl IH]; intros st Hk Hi Hg; cbn; [exact I|].
  destruct Hg as [Hg1 Hg2]. destruct o as [b|r].
  - cbn in *. split; [apply fz_ancestor_refl|]. split; [intros ? []|].
    apply IH; [now apply fz_add_known_ok|exact Hi|exact Hg2].
  - cbn [fz_step] in *.
    destruct (fz_finalize_extends t ahead st r Hu Hk Hi Hg1) as (I1 & I2 & I3 & I4).
    split; [assumption|]. split; [assumption|].
    apply IH; [rewrite I2; assumption|assumption|assumption].
Qed.

Lemma fz_init_inv : forall t g rounds, fz_rnd t g = 0 -> fz_inv t (fz_init g rounds) /\ fz_known_ok t (fz_known (fz_init g rounds)).
Proof.
  intros t g rounds Hg. split; [split|].
  - cbn. rewrite Hg. reflexivity.
  - cbn. intros rho h Hl. destruct rho; [lia|]. cbn in Hl. discriminate.
  - intros rn ids b Hl Hin. cbn in Hl. exfalso.
    induction rounds as [|n tl IH]; cbn in Hl; [discriminate|].
    destruct (Nat.eqb n rn); [inversion Hl; subst; destruct Hin|auto].
Qed.

(* ------------------------------------------------------------------------------------------ *)
(* the walk back from the computed block: the connectivity test comes before the cut-off, so
   whenever the computed block is at most [maxback] rounds above the LFB every block of the
   walked chain descends from the LFB (otherwise the walk returns without a chain) *)
Lemma fz_walk_connects : forall t plfb maxback, fz_uniform t -> forall fuel b acc chain R,
  length acc + fz_rnd t b = R ->
  (forall x, In x acc -> fz_ancestor t b x) ->
  (acc <> [] -> fz_rnd t plfb <= fz_rnd t b /\ (fz_rnd t b = fz_rnd t plfb -> b = plfb)) ->
  fz_walk t plfb maxback fuel b acc = FwOk chain ->
  (forall x, In x chain -> fz_ancestor t plfb x) \/ (maxback <= length chain /\ fz_rnd t plfb + maxback < R).
Proof.
  intros t plfb maxback Hu. induction fuel as [|f IH]; intros b acc chain R HR Hanc Hne H; cbn in H; [discriminate|].
  destruct (Nat.eqb b plfb || Nat.leb (fz_rnd t b) (fz_rnd t plfb)) eqn:Ec.
  - inversion H; subst chain. left. intros x Hx.
    assert (b = plfb) as ->; [|auto].
    apply orb_true_iff in Ec. destruct Ec as [Ec|Ec]; [now apply Nat.eqb_eq|].
    apply Nat.leb_le in Ec. destruct acc as [|a acc']; [destruct Hx|].
    destruct (Hne ltac:(discriminate)) as [H1 H2]. apply H2. lia.
  - apply orb_false_iff in Ec. destruct Ec as [Eb Ec]. apply Nat.leb_gt in Ec. apply Nat.eqb_neq in Eb.
    destruct (fz_par t b) as [p|] eqn:Ep; [|discriminate].
    pose proof (Hu b p Ep) as Hr.
    assert (forall x, In x (acc ++ [b]) -> fz_ancestor t p x) as Hanc'.
    { intros x Hx. apply in_app_or in Hx.
      assert (fz_ancestor t p b) as Hpb by (exists 1; cbn; now rewrite Ep).
      destruct Hx as [Hx|[<-|[]]]; [eapply fz_ancestor_trans; [exact Hpb|auto]|assumption]. }
    destruct (Nat.eqb (fz_rnd t p) (fz_rnd t plfb) && negb (Nat.eqb p plfb)) eqn:Ek; [discriminate|].
    assert (fz_rnd t p = fz_rnd t plfb -> p = plfb) as Hk.
    { intros E. apply andb_false_iff in Ek. destruct Ek as [Ek|Ek].
      - apply Nat.eqb_neq in Ek. contradiction.
      - apply negb_false_iff in Ek. now apply Nat.eqb_eq. }
    destruct (Nat.leb_spec maxback (length (acc ++ [b]))) as [Hm|Hm].
    + inversion H; subst chain.
      destruct (Nat.eq_dec (fz_rnd t p) (fz_rnd t plfb)) as [E|E].
      * left. rewrite <- (Hk E). exact Hanc'.
      * right. split; [assumption|]. rewrite app_length in *. cbn in *. lia.
    + apply (IH p (acc ++ [b]) chain R); try assumption.
      * rewrite app_length. cbn. lia.
      * intros _. split; [lia|assumption].
Qed.

Lemma fz_handoff_subset : forall t r chain st fb v, In (fb, v) (snd (fz_handoff t st r chain)) -> In fb chain.
Proof.
  intros t r. induction chain as [|x tl IH]; intros st fb v H; cbn [fz_handoff] in H; [destruct H|].
  destruct (Nat.ltb (r - fz_rnd t x) 3); [right; eauto|].
  destruct (fz_par t x); [|destruct H].
  destruct (fz_lookup (fz_known st) (fz_rnd t x)) as [ids|]; [|destruct H].
  destruct (negb (existsb (Nat.eqb x) ids)); [destruct H|].
  destruct (fz_worker_accepts t st x).
  - match type of H with context [fz_handoff t ?s r tl] => destruct (fz_handoff t s r tl) as [st2 hs] eqn:E; pose proof (IH s fb v) as IH' end.
    cbn in H. destruct H as [H|H].
    + inversion H; subst. now left.
    + right. apply IH'. now rewrite E.
  - cbn in H. destruct H as [H|[]]. inversion H; subst. now left.
Qed.

(* every block finalizeRound hands to the finalized-block worker (accepted or not) descends
   from the LFB, unless the computed block is more than [ahead] rounds above the LFB *)
Lemma fz_handed_blocks_descend : forall t ahead st r fb v, fz_uniform t ->
  In (fb, v) (snd (fz_finalize t ahead st r)) ->
  fz_ancestor t (fz_lfb st) fb \/
  exists l, fz_compute t (fz_known st) (fz_rnd t (fz_lfb st)) r = FzSome l /\ fz_rnd t (fz_lfb st) + ahead < fz_rnd t l.
Proof.
  intros t ahead st r fb v Hu H. unfold fz_finalize in H.
  destruct (Nat.leb r (fz_rnd t (fz_lfb st))); [destruct H|].
  destruct (fz_compute t (fz_known st) (fz_rnd t (fz_lfb st)) r) as [l| |] eqn:Ec; try destruct H.
  destruct (Nat.eqb l (fz_lfb st)); [destruct H|].
  destruct (Nat.ltb (fz_rnd t (fz_lfb st)) (fz_rnd t l)).
  - destruct (Nat.leb (2 * ahead) (r - fz_rnd t l)); [destruct H|].
    destruct (fz_walk t (fz_lfb st) ahead (S (fz_rnd t l)) l []) as [frchain| |] eqn:Ew; try destruct H.
    apply fz_handoff_subset in H. apply in_rev in H.
    assert (length (@nil nat) + fz_rnd t l = fz_rnd t l) as HR by reflexivity.
    assert (@nil nat <> [] -> fz_rnd t (fz_lfb st) <= fz_rnd t l /\ (fz_rnd t l = fz_rnd t (fz_lfb st) -> l = fz_lfb st)) as Hn0
      by (intros Hc; congruence).
    destruct (fz_walk_connects t (fz_lfb st) ahead Hu _ _ _ _ (fz_rnd t l) HR
                (fun x (Hx : In x []) => match Hx with end) Hn0 Ew) as [Hall|[_ Hgap]].
    + left. auto.
    + right. exists l. split; [reflexivity|assumption].
  - destruct (fz_common_ancestor t (fz_lfb st) l); destruct H.
Qed.
