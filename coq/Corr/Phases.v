(* Correspondence for C38: a case is a history of blocks executed on the real miner contract (engine
   harness/cmd/phases): per block the DKG transactions with the outcome class of each, the oracle values
   of the phase step (results of the move / phase function, recorded on a fork of the state), and after
   the block the stored phase node and the key sets of the DKG lists. [vc_check] re-runs the model. *)
From ZC Require Import Base.Corr Model.Phases.
Open Scope Z_scope.

Record vc_obs := {
  vo_res : list dk_res;                 (* outcome of each transaction *)
  vo_out : ph_out;                      (* phase step: saved / error / panic *)
  vo_pn : option (Z * Z * Z * Z);       (* stored PhaseNode: phase, start, current, restarts *)
  vo_miners : list Z; vo_T : Z; vo_K : Z;
  vo_mpks : list Z; vo_gsos : list Z; vo_waited : list Z
}.

Record vc_case := {
  vc_rounds : list (Z * Z);             (* PhaseRounds *)
  vc_is_vc : bool;
  vc_blocks : list vc_block;
  vc_obs_l : list vc_obs
}.

Definition dk_res_eqb (a b : dk_res) : bool :=
  match a, b with DAccept, DAccept | DReject, DReject | DPanic, DPanic => true | _, _ => false end.
Definition ph_out_eqb (a b : ph_out) : bool :=
  match a, b with PSaved, PSaved | PError, PError | PPanic, PPanic => true | _, _ => false end.

Definition set_eqb (a b : list Z) : bool := (forallb (fun x => dk_mem x b) a && forallb (fun x => dk_mem x a) b)%bool.

Definition pn_eqb (a : option ph_node) (b : option (Z * Z * Z * Z)) : bool :=
  match a, b with
  | None, None => true
  | Some pn, Some (p, s, c, r) => (Z.eqb (pn_phase pn) p && Z.eqb (pn_start pn) s && Z.eqb (pn_current pn) c && Z.eqb (pn_restarts pn) r)%bool
  | _, _ => false
  end.

Definition vc_rounds_fn (l : list (Z * Z)) (p : Z) : Z := match ph_assoc l p with Some r => r | None => 0 end.

Fixpoint vc_check_blocks (rounds : Z -> Z) (is_vc : bool) (s : vc_state) (bs : list vc_block) (os : list vc_obs) : bool :=
  match bs, os with
  | [], [] => true
  | b :: bs', o :: os' =>
      let '(s', rs, out) := vc_block_step rounds is_vc s b in
      let d := vs_dk s' in
      (list_eqb dk_res_eqb rs (vo_res o) && ph_out_eqb out (vo_out o) && pn_eqb (vs_pn s') (vo_pn o) &&
       set_eqb (dk_miners d) (vo_miners o) && Z.eqb (dk_T d) (vo_T o) && Z.eqb (dk_K d) (vo_K o) &&
       set_eqb (dk_mpks d) (vo_mpks o) && set_eqb (dk_gsos d) (vo_gsos o) && set_eqb (dk_waited d) (vo_waited o) &&
       vc_check_blocks rounds is_vc s' bs' os')%bool
  | _, _ => false
  end.

Definition vc_check (c : vc_case) : bool :=
  vc_check_blocks (vc_rounds_fn (vc_rounds c)) (vc_is_vc c)
                  {| vs_pn := None; vs_dk := {| dk_miners := []; dk_T := 0; dk_K := 0; dk_mpks_node := false; dk_mpks := []; dk_gsos := []; dk_waited := [] |} |}
                  (vc_blocks c) (vc_obs_l c).

(* diagnosis helper (not used by the check): first block whose observables differ and which ones *)
Fixpoint vc_diag (rounds : Z -> Z) (is_vc : bool) (s : vc_state) (bs : list vc_block) (os : list vc_obs) (i : nat)
  : option (nat * list bool * vc_state) :=
  match bs, os with
  | b :: bs', o :: os' =>
      let '(s', rs, out) := vc_block_step rounds is_vc s b in
      let d := vs_dk s' in
      let flags := [list_eqb dk_res_eqb rs (vo_res o); ph_out_eqb out (vo_out o); pn_eqb (vs_pn s') (vo_pn o);
                    set_eqb (dk_miners d) (vo_miners o); Z.eqb (dk_T d) (vo_T o); Z.eqb (dk_K d) (vo_K o);
                    set_eqb (dk_mpks d) (vo_mpks o); set_eqb (dk_gsos d) (vo_gsos o); set_eqb (dk_waited d) (vo_waited o)] in
      if forallb (fun x => x) flags then vc_diag rounds is_vc s' bs' os' (S i) else Some (i, flags, s')
  | _, _ => None
  end.
Definition vc_diag_case (c : vc_case) :=
  vc_diag (vc_rounds_fn (vc_rounds c)) (vc_is_vc c)
          {| vs_pn := None; vs_dk := {| dk_miners := []; dk_T := 0; dk_K := 0; dk_mpks_node := false; dk_mpks := []; dk_gsos := []; dk_waited := [] |} |}
          (vc_blocks c) (vc_obs_l c) 0.
