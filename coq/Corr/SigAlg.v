(* Correspondence for C47 / C32: cases are SYMBOLIC descriptions of keys and signatures (integer
   combinations of base secret keys and of hash points) that the Go engine realises with real
   herumi / ed25519 objects and runs through core/encryption; the model evaluates the same
   descriptions over Z_r (r = BN254 group order) and must predict every verification result. *)
From ZC Require Import Base.Corr Model.SigAlg Model.HashEnc.
From Coq Require Import String.
Open Scope Z_scope.

Definition sc_eqb (a b : Z) : bool := Z.eqb (a mod sx_r) (b mod sx_r).
Definition sc_add := zq_add sx_r.
Definition sc_mul := zq_mul sx_r.
Definition sc_sub := zq_sub sx_r.

Definition sc_scalar (s : sx_scalar) : Z := sx_eval_scalar sx_r sx_key s.
Definition sc_point (p : sx_point) : sg_G Z := sx_eval_point sx_r sx_key p.

(* stand-in for SHA-512(R || A || M) mod L: any fixed function without accidental relations *)
Definition sc_hc (R A : Z) (m : nat) : Z :=
  sc_add (sc_mul R 7919) (sc_add (sc_mul A 104729) (Z.of_nat m * 1299709 + 15485863)).

Record sc_item := { sci_key : sx_scalar; sci_msg : nat; sci_sig : sx_point }.

Inductive sc_case :=
| ScBls (n : nat) (key : sx_scalar) (msg : nat) (sig : sx_point) (ok : bool)
| ScEd (signer verifier : nat) (msg_signed msg_verified : nat) (tamper : nat) (ok : bool)
| ScAgg (n bs : nat) (items : list sc_item) (indiv : list bool) (agg : nat)
(* an acceptor of (public key, client id) pairs given the id spelling and the canonical hash of the key *)
| ScId (id canonical : string) (accepted : bool).

Definition sc_to_item (it : sc_item) : ag_item Z :=
  {| ai_key := sc_scalar (sci_key it); ai_msg := sci_msg it; ai_sig := sc_point (sci_sig it) |}.

Definition sc_verdict_code (v : ag_verdict) : nat :=
  match v with AgAccept => 0 | AgReject => 1 | AgPanic => 2 end.

Definition sc_check (c : sc_case) : bool :=
  match c with
  | ScBls n key msg sig ok =>
      Bool.eqb (bls_verify Z 0 1 sc_mul sc_eqb n (sc_scalar key) msg (sc_point sig)) ok
  | ScEd signer verifier ms mv tamper ok =>
      let a := sx_key signer in
      let r := sc_add (sx_key (signer + 50)) (Z.of_nat ms) in
      let '(R, Sg) := ed_sign Z sc_add sc_mul sc_hc a r ms in
      let sg := match tamper with
                | O => (R, Sg)
                | 1%nat => (R, sc_add Sg 1)
                | _ => (sc_add R 1, Sg)
                end in
      Bool.eqb (ed_verify Z sc_add sc_mul sc_eqb sc_hc (sx_key verifier) mv sg) ok
  | ScAgg n bs items indiv agg =>
      let its := map sc_to_item items in
      list_eqb Bool.eqb (map (ag_item_valid Z 0 1 sc_mul sc_eqb n) its) indiv
      && Nat.eqb (sc_verdict_code (ag_run Z 0 1 sc_add sc_mul sc_eqb n bs its)) agg
  | ScId id canonical accepted => Bool.eqb (cl_accepts_id id canonical) accepted
  end.
