(* Model of entity hashing and validation (properties C29, C30, part of C47).
   - chaincore/block/entity.go       getHashData / ComputeHash / Validate
   - chaincore/transaction/entity.go HashData / ComputeHash / ComputeProperties / ValidateWrtTime
   - chaincore/client/entity.go      client id = Hash(public key bytes)
   The ordered field tables themselves are NOT written here: they are generated from the Go source
   by harness/translators/hashfields into Gen/HashFields.v on every run.
   Definitions only; proofs are in Proof/HashEnc.v. *)
From Coq Require Export List ZArith Bool String Ascii Lia.
From Coq Require Import DecimalString DecimalZ.
Export ListNotations.
Open Scope string_scope.

(* ---------- the shape of a generated table ---------- *)

(* how a Go field is turned into a piece of the hashed string *)
Inductive he_enc :=
| EncRaw      (* the string field itself (ids, hashes) *)
| EncDec      (* strconv.FormatInt / FormatUint / Itoa / common.TimeToString: decimal *)
| EncHashOf   (* encryption.Hash(field) *)
| EncMerkle.  (* root of util.MerkleTree over the listed leaf field of every element *)

Record he_entry := {
  he_path : string;    (* Go selector path from the receiver, "Txns[].Hash" for merkle leaves *)
  he_enc_of : he_enc;
  he_guard : string;   (* "" or the pointer path that must be non-nil for the piece to be written *)
  he_lazy : string     (* "" or the method that fills the field when it is the empty string *)
}.

Inductive he_idform := IdHashOfHexDecode | IdHashOfBytes.
Record he_idrule := { idr_fn : string; idr_arg : string; idr_form : he_idform }.

(* how a method of Client leaves the key / id fields after writing one of them *)
Inductive he_pkwrite :=
| PkThenRecompute   (* computePublicKeyBytes / SetPublicKey runs afterwards: id := Hash(decode PublicKey) *)
| PkRollback        (* restores the value the field had on entry *)
| PkDecode          (* a decoder fills the fields; ComputeProperties recomputes the id after decoding *)
| PkStale.          (* the field is changed and the id is not recomputed from it *)
Record he_pkrule := { pkw_fn : string; pkw_field : string; pkw_rhs : string; pkw_kind : he_pkwrite }.

(* ---------- values and objects ---------- *)

Inductive he_val :=
| VStr (s : string)
| VInt (z : Z)
| VList (l : list string)
| VNil.                      (* nil pointer / absent *)

(* an object maps Go paths to values; for a lazy entry with guard g and method m the pseudo path
   g ++ "." ++ m ++ "()" holds what the method would return *)
Definition he_obj := string -> he_val.

Definition he_lazy_path (e : he_entry) : string := he_guard e ++ "." ++ he_lazy e ++ "()".

(* ---------- encoders ---------- *)

Definition he_dec (z : Z) : string := NilEmpty.string_of_int (Z.to_int z).

Definition he_colon : ascii := ":"%char.

Fixpoint he_nocolon (s : string) : bool :=
  match s with
  | EmptyString => true
  | String c s' => negb (Ascii.eqb c he_colon) && he_nocolon s'
  end.

Definition he_join (l : list string) : string := String.concat ":" l.

(* inverse of he_join on colon-free pieces; used by the injectivity proof *)
Fixpoint he_split (s : string) : list string :=
  match s with
  | EmptyString => [EmptyString]
  | String c s' =>
      if Ascii.eqb c he_colon then EmptyString :: he_split s'
      else match he_split s' with
           | h :: t => String c h :: t
           | [] => [String c EmptyString]
           end
  end.

(* util.MerkleTree.ComputeTree, one level: adjacent pairs, the last element paired with itself
   when the level has odd length *)
Fixpoint he_level (mh : string -> string -> string) (l : list string) : list string :=
  match l with
  | [] => []
  | [a] => [mh a a]
  | a :: b :: t => mh a b :: he_level mh t
  end.

Fixpoint he_mroot_go (mh : string -> string -> string) (fuel : nat) (l : list string) : string :=
  match fuel with
  | O => ""
  | S f => match he_level mh l with
           | [x] => x
           | l' => he_mroot_go mh f l'
           end
  end.

(* GetRoot: "" for no leaves (tree = [""]), MHash(a,a) for one leaf, else the top of the tree *)
Definition he_mroot (mh : string -> string -> string) (l : list string) : string :=
  match l with
  | [] => ""
  | _ => he_mroot_go mh (S (List.length l)) l
  end.

Section Enc.
  Variable Hash : string -> string.                 (* encryption.Hash on strings *)
  Variable mroot : list string -> string.            (* merkle root of a leaf list *)

  (* the value an entry commits to: for a lazy entry the method result replaces "" *)
  Definition he_eff (e : he_entry) (o : he_obj) : he_val :=
    match o (he_path e) with
    | VStr s => if (String.eqb (he_lazy e) "" || negb (String.eqb s "")) then VStr s
                else o (he_lazy_path e)
    | v => v
    end.

  (* None = the object does not have the Go type the entry expects;
     Some None = piece omitted (guard pointer nil); Some (Some s) = piece written *)
  Definition he_piece (e : he_entry) (o : he_obj) : option (option string) :=
    let guarded_out := match he_guard e with
                       | EmptyString => false
                       | g => match o g with VNil => true | _ => false end
                       end in
    if guarded_out then Some None
    else match he_enc_of e, he_eff e o with
         | EncRaw, VStr s => Some (Some s)
         | EncDec, VInt z => Some (Some (he_dec z))
         | EncHashOf, VStr s => Some (Some (Hash s))
         | EncMerkle, VList l => Some (Some (mroot l))
         | _, _ => None
         end.

  Fixpoint he_pieces (tbl : list he_entry) (o : he_obj) : option (list string) :=
    match tbl with
    | [] => Some []
    | e :: tl =>
        match he_piece e o, he_pieces tl o with
        | Some (Some s), Some r => Some (s :: r)
        | Some None, Some r => Some r
        | _, _ => None
        end
    end.

  Definition he_data (tbl : list he_entry) (o : he_obj) : option string :=
    option_map he_join (he_pieces tbl o).

  Definition he_hash (tbl : list he_entry) (o : he_obj) : option string :=
    option_map Hash (he_data tbl o).
End Enc.

(* ---------- table-level decision procedures (run by vm_compute on the generated tables) ---------- *)

Definition he_is_guarded (e : he_entry) : bool := negb (String.eqb (he_guard e) "").

(* shape needed by the injectivity argument: the first entry is always written and only the last
   entry may be guarded (omitted when its pointer is nil) *)
Fixpoint he_tail_ok (tl : list he_entry) : bool :=
  match tl with
  | [] => true
  | [e] => true
  | e :: tl' => negb (he_is_guarded e) && he_tail_ok tl'
  end.

Definition he_tbl_ok (tbl : list he_entry) : bool :=
  match tbl with
  | [] => false
  | e :: tl => negb (he_is_guarded e) && he_tail_ok tl
  end.

Definition he_txn_hashes : string := "Txns[].Hash".
Definition he_txn_outputs : string := "Txns[].OutputHash".

Definition he_is_txn_hash_entry (e : he_entry) : bool :=
  match he_enc_of e with
  | EncMerkle => String.eqb (he_path e) he_txn_hashes && String.eqb (he_lazy e) ""
                 && negb (he_is_guarded e)
  | _ => false
  end.

(* merkle entries are over the transaction hashes, or over the outputs of the same transactions
   provided the transaction-hash root is in the table too (it fixes the number of leaves) *)
Definition he_merkle_ok (tbl : list he_entry) : bool :=
  forallb (fun e => match he_enc_of e with
                    | EncMerkle =>
                        String.eqb (he_lazy e) ""
                        && (String.eqb (he_path e) he_txn_hashes
                            || (String.eqb (he_path e) he_txn_outputs
                                && existsb he_is_txn_hash_entry tbl))
                    | _ => true
                    end) tbl.

Definition he_paths (tbl : list he_entry) : list string := map he_path tbl.

Definition he_mem (s : string) (l : list string) : bool := existsb (String.eqb s) l.

(* what a table covers: the paths it writes and the pointers whose presence it encodes *)
Definition he_covered (tbl : list he_entry) : list string := he_paths tbl ++ map he_guard tbl.

(* the required Go paths that the table does not cover *)
Definition he_missing (tbl : list he_entry) (required : list string) : list string :=
  filter (fun r => negb (he_mem r (he_covered tbl))) required.

(* does mutating the Go path [p] change the hashed string, according to the table?
   [lazy_empty]: the lazily filled field is currently "" (then the result of the lazy method, written
   as the pseudo path "MagicBlock.GetHash()", is what is hashed; otherwise only the stored string is).
   Paths are written as the engine prints them: "Txns[].Hash" for an element field. *)
Definition he_entry_binds (lazy_empty : bool) (p : string) (e : he_entry) : bool :=
  String.eqb p (he_path e)
  || (he_is_guarded e && String.eqb p (he_guard e))
  || (negb (String.eqb (he_lazy e) "") && lazy_empty && String.eqb p (he_lazy_path e)).

Definition he_binds (tbl : list he_entry) (lazy_empty : bool) (p : string) : bool :=
  existsb (he_entry_binds lazy_empty p) tbl.

(* property lists, as Go field paths *)
(* C29: generator, parent, round, seed, transactions, outputs, resulting state, magic block *)
Definition C29_required : list string :=
  ["MinerID"; "PrevHash"; "Round"; "RoundRandomSeed"; "Txns[].Hash"; "Txns[].OutputHash";
   "ClientStateHash"; "MagicBlock"].
(* C30: time, nonce, sender, recipient, value, data, fee, type *)
Definition C30_required : list string :=
  ["CreationDate"; "Nonce"; "ClientID"; "ToClientID"; "Value"; "TransactionData"; "Fee";
   "TransactionType"].

(* ---------- Block.Validate ---------- *)

Inductive bk_verdict :=
| BkOk | BkBadChain | BkNoHash | BkNoMiner | BkUnknownMiner | BkDuplicateTxns | BkHashMismatch
| BkSigError | BkBadSignature.

Record bk_in := {
  bki_chain_ok : bool;          (* config.ValidChain(b.ChainID) *)
  bki_hash : string;            (* b.Hash *)
  bki_miner : string;           (* b.MinerID *)
  bki_miner_known : bool;       (* node.GetNode(b.MinerID) != nil *)
  bki_ntxns : nat;              (* len(b.Txns) *)
  bki_txnsmap : option nat;     (* None: b.TxnsMap == nil; Some n: len(b.TxnsMap) *)
  bki_computed : string;        (* b.ComputeHash() *)
  bki_sig : option bool         (* miner.Verify(b.Signature, b.Hash): None = error *)
}.

Definition bk_validate (i : bk_in) : bk_verdict :=
  if negb (bki_chain_ok i) then BkBadChain
  else if String.eqb (bki_hash i) "" then BkNoHash
  else if String.eqb (bki_miner i) "" then BkNoMiner
  else if negb (bki_miner_known i) then BkUnknownMiner
  else if match bki_txnsmap i with
          | Some n => negb (Nat.eqb (bki_ntxns i) n)
          | None => false
          end then BkDuplicateTxns
  else if negb (String.eqb (bki_hash i) (bki_computed i)) then BkHashMismatch
  else match bki_sig i with
       | None => BkSigError
       | Some false => BkBadSignature
       | Some true => BkOk
       end.

(* ComputeProperties / ComputeTxnMap: TxnsMap is the set of transaction hashes *)
Definition bk_txnsmap_of (hashes : list string) : nat := List.length (nodup string_dec hashes).

(* ---------- Transaction.ComputeProperties + ValidateWrtTime ---------- *)

Inductive tx_verdict :=
| TxOk | TxBadScData | TxNoPublicKey | TxKeyIdMismatch   (* ComputeProperties *)
| TxBadTo | TxBadChain | TxNoHash | TxTime | TxSelf | TxHashMismatch | TxSigError | TxBadSignature
| TxOutputMismatch.

Record tx_in := {
  txi_sc_data_ok : bool;     (* type != smart contract, or TransactionData is valid JSON for it *)
  txi_pk_empty : bool;       (* PublicKey == "" *)
  txi_client_empty : bool;   (* ClientID == "" before ComputeProperties *)
  txi_key_id : option string;(* Hash(hex-decoded PublicKey); None = not hex *)
  txi_client : string;       (* ClientID as given *)
  txi_to : string;
  txi_to_is_hash : bool;     (* encryption.IsHash(ToClientID) *)
  txi_chain_ok : bool;
  txi_hash : string;
  txi_in_time : bool;        (* common.WithinTime(ts, CreationDate, TXN_TIME_TOLERANCE) *)
  txi_computed : string;     (* ComputeHash() with the client id after ComputeProperties *)
  txi_sig : option bool;     (* scheme(PublicKey).Verify(Signature, Hash): None = error *)
  txi_output_hash : string;
  txi_output_computed : string
}.

(* client id after ComputeProperties *)
Definition tx_client_after (i : tx_in) : string :=
  if txi_client_empty i then match txi_key_id i with Some id => id | None => "" end
  else txi_client i.

Definition tx_compute_properties (i : tx_in) : tx_verdict :=
  if negb (txi_sc_data_ok i) then TxBadScData
  else if txi_pk_empty i then TxNoPublicKey
  else match txi_key_id i with
       | None => TxKeyIdMismatch
       | Some id => if txi_client_empty i then TxOk
                    else if String.eqb id (txi_client i) then TxOk else TxKeyIdMismatch
       end.

Definition tx_validate_wrt_time (i : tx_in) : tx_verdict :=
  if negb (txi_to_is_hash i) && negb (String.eqb (txi_to i) "") then TxBadTo
  else if negb (txi_chain_ok i) then TxBadChain
  else if String.eqb (txi_hash i) "" then TxNoHash
  else if negb (txi_in_time i) then TxTime
  else if String.eqb (tx_client_after i) (txi_to i) then TxSelf
  else if negb (String.eqb (txi_hash i) (txi_computed i)) then TxHashMismatch
  else match txi_sig i with
       | None => TxSigError
       | Some false => TxBadSignature
       | Some true =>
           if negb (String.eqb (txi_output_hash i) "")
              && negb (String.eqb (txi_output_hash i) (txi_output_computed i))
           then TxOutputMismatch else TxOk
       end.

(* the acceptance path of a submitted transaction: ComputeProperties, then ValidateWrtTime *)
Definition tx_accept (i : tx_in) : tx_verdict :=
  match tx_compute_properties i with
  | TxOk => tx_validate_wrt_time i
  | v => v
  end.

(* ---------- client id ---------- *)

(* every derivation site in the generated table hashes the (decoded) public key bytes *)
Definition he_idrule_ok (r : he_idrule) : bool :=
  match idr_form r with IdHashOfHexDecode | IdHashOfBytes => true end.

(* VerifyPublicKeyClientID / Transaction.ComputeClientID: the id is accepted for a key exactly when it
   is, character for character, the canonical (lower-case hex) hash of the key bytes *)
Definition cl_accepts_id (id key_hash : string) : bool := String.eqb id key_hash.

(* Client.Validate: id non-empty and equal to Hash(PublicKeyBytes) *)
Definition cl_validate (id key_hash : string) : bool :=
  negb (String.eqb id "") && String.eqb id key_hash.

(* ---------- a transaction object seen through validation (used by the C30 theorems) ---------- *)

Record tx_env := {
  txe_chain_ok : bool;
  txe_in_time : bool;                                   (* clock *)
  txe_is_hash : string -> bool;                         (* encryption.IsHash *)
  txe_key_id : string -> option string;                 (* Hash(hex.Decode(pk)) *)
  txe_sig : string -> string -> string -> option bool;  (* scheme(pk).Verify(sig, hash) *)
  txe_sc_ok : he_val -> he_val -> bool                  (* type, data: JSON check of ComputeProperties *)
}.

Definition he_str (o : he_obj) (p : string) : string :=
  match o p with VStr s => s | _ => "" end.

Definition he_upd (o : he_obj) (p : string) (v : he_val) : he_obj :=
  fun q => if String.eqb q p then v else o q.

Section TxOf.
  Variable Hash : string -> string.
  Variable mroot : list string -> string.
  Variable tbl : list he_entry.   (* the generated table of Transaction.HashData *)
  Variable env : tx_env.

  Definition tx_in_of (o : he_obj) : tx_in :=
    let pk := he_str o "PublicKey" in
    let kid := txe_key_id env pk in
    let client_after :=
      if String.eqb (he_str o "ClientID") "" then match kid with Some id => id | None => "" end
      else he_str o "ClientID" in
    {| txi_sc_data_ok := txe_sc_ok env (o "TransactionType") (o "TransactionData");
       txi_pk_empty := String.eqb pk "";
       txi_client_empty := String.eqb (he_str o "ClientID") "";
       txi_key_id := kid;
       txi_client := he_str o "ClientID";
       txi_to := he_str o "ToClientID";
       txi_to_is_hash := txe_is_hash env (he_str o "ToClientID");
       txi_chain_ok := txe_chain_ok env;
       txi_hash := he_str o "Hash";
       txi_in_time := txe_in_time env;
       txi_computed := match he_hash Hash mroot tbl (he_upd o "ClientID" (VStr client_after)) with
                       | Some h => h | None => "" end;
       txi_sig := txe_sig env pk (he_str o "Signature") (he_str o "Hash");
       txi_output_hash := he_str o "OutputHash";
       txi_output_computed := Hash (he_str o "TransactionOutput") |}.
End TxOf.

(* objects written as association lists (absent path = VNil) *)
Fixpoint he_obj_of (l : list (string * he_val)) : he_obj :=
  fun p => match l with
           | [] => VNil
           | (q, v) :: tl => if String.eqb p q then v else he_obj_of tl p
           end.

(* the idealisation under which the commitment theorems are stated *)
Definition he_ideal (Hash : string -> string) (mh : string -> string -> string)
           (leaf : string -> Prop) : Prop :=
  (forall a b, Hash a = Hash b -> a = b) /\          (* collision resistance, idealised *)
  (forall s, he_nocolon (Hash s) = true) /\           (* hashes are hex strings *)
  (forall a b c d, mh a b = mh c d -> a = c /\ b = d) /\ (* MHash(a,b)=Hash(a+b) on fixed-length hashes *)
  (forall a b, he_nocolon (mh a b) = true) /\
  (forall a b, ~ leaf (mh a b)) /\                    (* a transaction hash is never an inner node *)
  (forall a b, mh a b <> "").

(* ---------- the key / id fields of a Client (chaincore/client/entity.go) ---------- *)
(* decode = hex.DecodeString (None on error), Hash = encryption.Hash on bytes *)
Record cl_state := { cl_pk : string; cl_bytes : string; cl_id : string }.

Section Client.
  Variable decode : string -> option string.
  Variable Hash : string -> string.

  (* the stored key is the hashed key *)
  Definition cl_consistent (s : cl_state) : Prop :=
    decode (cl_pk s) = Some (cl_bytes s) /\ cl_id s = Hash (cl_bytes s).

  (* SetPublicKey / (PublicKey := k; ComputeProperties): a write followed by computePublicKeyBytes;
     on a decode error SetPublicKey rolls the key back and nothing else has changed *)
  Definition cl_set_public_key (s : cl_state) (k : string) : cl_state :=
    match decode k with
    | Some b => {| cl_pk := k; cl_bytes := b; cl_id := Hash b |}
    | None => s
    end.

  (* the shape the translator flags as PkStale: the stored key is replaced by a normalised spelling
     after the id was computed from the spelling passed in *)
  Definition cl_set_public_key_stale (norm : string -> string) (s : cl_state) (k : string) : cl_state :=
    match decode k with
    | Some b => {| cl_pk := norm k; cl_bytes := b; cl_id := Hash b |}
    | None => s
    end.
End Client.

Definition he_pkrule_ok (r : he_pkrule) : bool :=
  match pkw_kind r with PkStale => false | _ => true end.
