(* C07: The state cache never disagrees with the state trie.
   Only statements; each is closed by [exact] of a lemma in Proof/StateCache.v.

   [sc_run (sc_init m) ops] runs any history of reads (GetTrieNode), inserts (of new objects or of
   objects the caller holds and may have mutated; also inserts the trie rejects), deletes, in-place mutations of held objects,
   transaction commits / discards and block commits / discards over the model of
   StateContext + TransactionCache / BlockCache / StateCache + trie.  The mode [m] says whether the
   entity type's Clone and CopyFrom are deep; the theorems need only a deep Clone (every type in
   the tree clones by a msgp round trip); CopyFrom may be shallow (partitions.Partitions). *)
From ZC Require Import Model.StateCache Proof.StateCache Proof.StateCacheMain.
Open Scope Z_scope.

(* In every reachable state a read through the caches returns exactly what the transaction's trie
   holds at that key (present with that content, or absent). *)
Theorem C07_cached_get_eq_trie :
  forall m ops k, md_clone_deep m = true ->
  let st := fst (sc_run (sc_init m) ops) in
  snd (sc_step st (SGet k)) = SOData (sc_trie_view st k).
Proof. exact sc_reachable_get_eq_trie. Qed.
Print Assumptions C07_cached_get_eq_trie.

(* Mutating an object returned by a read (or handed to an insert) never changes what any later
   read returns. *)
Theorem C07_mutate_returned_no_effect :
  forall m ops i t k, md_clone_deep m = true ->
  let st := fst (sc_run (sc_init m) ops) in
  snd (sc_step (fst (sc_step st (SMutate i t))) (SGet k)) = snd (sc_step st (SGet k)) /\
  sc_cache_view (fst (sc_step st (SMutate i t))) k = sc_cache_view st k.
Proof. exact sc_mutate_no_effect_lemma. Qed.
Print Assumptions C07_mutate_returned_no_effect.

(* A transaction that is discarded leaves no trace: whatever it read, wrote, deleted or mutated,
   after the discard every key is answered by the caches and by the trie exactly as before it began. *)
Theorem C07_discard_leaves_no_trace :
  forall m ops txn_ops, md_clone_deep m = true -> forallb sc_is_txn_op txn_ops = true ->
  let st := fst (sc_run (sc_init m) ops) in
  let st0 := fst (sc_step st SDiscardTxn) in
  let st1 := fst (sc_step (fst (sc_run st0 txn_ops)) SDiscardTxn) in
  forall k, sc_cache_view st1 k = sc_cache_view st0 k /\ sc_trie_view st1 k = sc_trie_view st0 k /\
            snd (sc_step st1 (SGet k)) = snd (sc_step st0 (SGet k)).
Proof. exact sc_reachable_discard_no_trace. Qed.
Print Assumptions C07_discard_leaves_no_trace.

(* The deep Clone is necessary: with a type whose Clone shares memory, a caller that mutates the
   object it inserted changes what the cache answers, while the trie keeps the inserted value. *)
Theorem C07_shallow_clone_refuted :
  let m := {| md_clone_deep := false; md_copy_deep := true |} in
  let st := fst (sc_run (sc_init m) [SInsert 1 5; SMutate 0%nat 9]) in
  snd (sc_step st (SGet 1)) = SOData (Some (5, 9)) /\ sc_trie_view st 1 = Some (5, 5).
Proof. exact sc_shallow_clone_witness. Qed.
Print Assumptions C07_shallow_clone_refuted.

(* Non-vacuity, with the copy discipline of partitions.Partitions (deep Clone, shallow CopyFrom):
   insert, commit, read through the block cache, mutate the returned object, read again, delete in
   a transaction that is discarded, commit the block and read through the state cache, an insert
   the trie rejects followed by reads in the same and in the next transaction. *)
Example C07_example :
  let m := {| md_clone_deep := true; md_copy_deep := false |} in
  snd (sc_run (sc_init m)
         [SInsert 1 5; SCommitTxn; SGet 1; SMutate 1%nat 7; SGet 1; SDelete 1; SGet 1; SDiscardTxn;
          SGet 1; SCommitBlock; SGet 1; SInsertH 2 1%nat; SGet 2; SGet 3; SInsertRej 1; SGet 1; SCommitTxn; SGet 1]) =
  [SOOk; SOOk; SOData (Some (5, 5)); SOOk; SOData (Some (5, 5)); SOOk; SOData None; SOOk;
   SOData (Some (5, 5)); SOOk; SOData (Some (5, 5)); SOOk; SOData (Some (7, 7)); SOData None;
   SOErr; SOData (Some (5, 5)); SOOk; SOData (Some (5, 5))].
Proof. vm_compute. reflexivity. Qed.

(* The third clause at the place where it is decided, Chain.updateState (model Model/ChainState.v,
   engine chainstate run with -prop C07 on the real chain with a real StateCache and one BlockCache
   per block): after any history of transactions the node values every later read returns - through
   transaction cache, block cache, state cache and trie - are the initial ones overwritten by the
   writes of the successfully applied calls only; a call that failed (chargeably or internally) or
   whose transaction was rejected leaves nothing behind for any key. *)
From ZC Require Model.ChainState Proof.ChainState Proof.ChainStateC02.
Theorem C07_failed_txn_invisible_to_later_reads :
  (forall cfg h st,
      ChainState.st_nodes (ChainState.cs_run cfg st h) =
      ChainState.cs_apply_writes (ChainStateC02.cs_committed_writes cfg st h) (ChainState.st_nodes st)) /\
  (forall cfg st round tx r k,
      (forall ws trs sg evs out, r <> ChainState.SCOk ws trs sg evs out) ->
      ChainState.cs_get k (ChainState.st_nodes (ChainState.cs_post st (ChainState.cs_update_state cfg st round tx r)))
      = ChainState.cs_get k (ChainState.st_nodes st)).
Proof. exact (conj ChainStateC02.cs_c02_nodes_after_history ChainStateC02.cs_c02_failed_call_invisible). Qed.
Print Assumptions C07_failed_txn_invisible_to_later_reads.
