(* C19: Bridge burns lock the value and advance the burn nonce by one.
   Only statements; each is closed by [exact] of a lemma in Proof/ZcnBurn.v. *)
From ZC Require Import Model.ZcnBurn Proof.ZcnBurn.
Open Scope Z_scope.

(* After any history (shorter than 2^63 - 1 requests: the nonce is an int64 incremented with ++),
   a successful burn queues exactly one transfer, of exactly the transaction value, from the
   burner to the contract wallet; reports and stores nonce + 1 for the target address; and leaves
   the nonce of every other address unchanged. *)
Theorem C19_burn_moves_value_and_nonce_plus_one :
  forall min ops client value p st1 tr a n,
    Z.of_nat (length ops) < zb_two63 - 1 ->
    let st := fst (zb_run (zb_init min) ops) in
    zb_step st (ZbBurn client value p) = (st1, ZbBurned tr a n) ->
    tr = [(client, zb_wallet, value)] /\
    n = zb_get a (zb_nonces st) + 1 /\
    zb_get a (zb_nonces st1) = zb_get a (zb_nonces st) + 1 /\
    (forall b, b <> a -> zb_get b (zb_nonces st1) = zb_get b (zb_nonces st)).
Proof. exact zb_reachable_plus_one. Qed.
Print Assumptions C19_burn_moves_value_and_nonce_plus_one.

(* hence the nonce of an address is the number of successful burns to it, over any history *)
Theorem C19_nonce_counts_burns :
  forall min ops a, Z.of_nat (length ops) < zb_two63 ->
    zb_get a (zb_nonces (fst (zb_run (zb_init min) ops))) = zb_count a (snd (zb_run (zb_init min) ops)).
Proof. exact zb_nonce_counts. Qed.
Print Assumptions C19_nonce_counts_burns.

(* Burns below the minimum amount or without a target address are refused ... *)
Theorem C19_below_min_or_no_address_refused :
  forall st client value p,
    value < zb_min st \/ p = ZbMalformed \/ p = ZbEmptyAddress ->
    zb_step st (ZbBurn client value p) = (st, ZbFail).
Proof. exact zb_below_min_or_no_address_fails. Qed.
Print Assumptions C19_below_min_or_no_address_refused.

(* ... only those are refused ... *)
Theorem C19_burn_succeeds_iff :
  forall st client value p,
    snd (zb_step st (ZbBurn client value p)) <> ZbFail <-> (zb_min st <= value /\ exists a, p = ZbAddress a).
Proof. exact zb_burn_succeeds_iff. Qed.
Print Assumptions C19_burn_succeeds_iff.

(* ... and any refused request changes nothing (no nonce, no transfer: the outcome carries none). *)
Theorem C19_refused_changes_nothing :
  forall st o st1, zb_step st o = (st1, ZbFail) -> st1 = st.
Proof. exact zb_fail_noop. Qed.
Print Assumptions C19_refused_changes_nothing.

(* Non-vacuity: burns to two addresses interleaved with refused ones and a settings change. *)
Example C19_example :
  zb_run (zb_init 10)
    [ZbBurn 1 10 (ZbAddress 7); ZbBurn 2 9 (ZbAddress 7); ZbBurn 2 50 ZbEmptyAddress; ZbBurn 2 50 (ZbAddress 8);
     ZbSetMin true true 60; ZbBurn 1 59 (ZbAddress 7); ZbBurn 3 60 (ZbAddress 7); ZbBurn 3 60 ZbMalformed]
  = ({| zb_min := 60; zb_nonces := [(7, 2); (8, 1)] |},
     [ZbBurned [(1, zb_wallet, 10)] 7 1; ZbFail; ZbFail; ZbBurned [(2, zb_wallet, 50)] 8 1; ZbUpdated; ZbFail;
      ZbBurned [(3, zb_wallet, 60)] 7 2; ZbFail]).
Proof. vm_compute. reflexivity. Qed.
