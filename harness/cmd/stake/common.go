package main

import (
	"fmt"
	"math"
	"math/big"

	"verifharness/vh"
)

// hexID: 64 hex digit id (AddTransfer wants hash-like ids); string order = numeric order.
func hexID(n int) string { return fmt.Sprintf("%064x", n) }

const (
	two53          = uint64(1) << 53
	two63          = uint64(1) << 63
	maxU64         = math.MaxUint64
	maxTokenSupply = uint64(4e18)
)

var coinEdges = []uint64{0, 1, 2, 3, 7, 10, 99, 1000, 1e10, two53 - 1, two53, two53 + 1, two53 + 3,
	maxTokenSupply, 1 << 62, two63 - 1, two63, two63 + 1, maxU64 - 1, maxU64}

// genCoin: edge value, small, medium or a uniformly random magnitude.
func genCoin(r *vh.Rand) uint64 {
	switch r.Intn(10) {
	case 0, 1:
		return r.PickU64(coinEdges)
	case 2, 3, 4:
		return uint64(r.Intn(50))
	case 5, 6:
		return uint64(r.Intn(1000000)) * 1e6
	case 7:
		return two53 + uint64(r.Intn(64)) - 32
	default:
		return r.U64() >> uint(r.Intn(64))
	}
}

// genRealistic: below the token supply
func genRealistic(r *vh.Rand) uint64 {
	switch r.Intn(6) {
	case 0:
		return uint64(r.Intn(20))
	case 1:
		return uint64(r.Intn(100000))
	case 2:
		return uint64(r.Intn(1000)) * 1e10
	case 3:
		return two53 + uint64(r.Intn(64)) - 32
	default:
		return r.U64() % maxTokenSupply
	}
}

var ratioEdges = []float64{0, 1, 0.5, 0.1, 0.3, 0.25, 0.9999999999999999, 1e-17, 0.16, 0.99}
var ratioBad = []float64{-0.5, 1.5, 2, math.Inf(1), math.NaN(), -1e-300, 1e300}

func genRatio(r *vh.Rand, allowBad bool) float64 {
	if allowBad && r.Chance(1, 25) {
		return ratioBad[r.Intn(len(ratioBad))]
	}
	if r.Chance(1, 2) {
		return ratioEdges[r.Intn(len(ratioEdges))]
	}
	return float64(r.U64()>>11) / float64(uint64(1)<<53)
}

func inUnit(f float64) bool { return f >= 0 && f <= 1 }

func bz(v uint64) *big.Int { return new(big.Int).SetUint64(v) }

func optZ(v *int64) string {
	if v == nil {
		return "None"
	}
	return vh.Some(vh.Z(*v))
}
