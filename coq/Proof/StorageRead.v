(* E-storage proofs, C15: read markers. *)
From Coq Require Import ZArith List Bool Lia.
From ZC Require Import Model.F64 Model.Storage Proof.StorageUtil Proof.StorageFrame.
Import ListNotations.
Open Scope Z_scope.

(* what commitBlobberRead charges for [n] newly read blocks at read price [rp] *)
Definition ss_read_value (rp n : Z) : Z :=
  f64_to_u64 (f64_mul (f64_of_Z rp) (ss_size_gb (ss_i64 (n * ss_CHUNK)))).

Definition ss_last0 (o : option Z) : Z := match o with Some n => n | None => 0 end.

Lemma ss_read_last_set : forall b c a n l b' c' a',
  ss_read_last b' c' a' (ss_read_set b c a n l) =
  if (b' =? b) && (c' =? c) && (a' =? a) then Some n else ss_read_last b' c' a' l.
Proof.
  induction l as [|[[[b0 c0] a0] n0] tl IH]; intros b' c' a'; cbn.
  - destruct ((b' =? b) && (c' =? c) && (a' =? a)); reflexivity.
  - destruct ((b =? b0) && (c =? c0) && (a =? a0)) eqn:E; cbn.
    + apply andb_true_iff in E. destruct E as [E E3]. apply andb_true_iff in E. destruct E as [E1 E2].
      apply Z.eqb_eq in E1, E2, E3. subst. destruct ((b' =? b0) && (c' =? c0) && (a' =? a0)); reflexivity.
    + rewrite IH. destruct ((b' =? b0) && (c' =? c0) && (a' =? a0)) eqn:E'; [|reflexivity].
      apply andb_true_iff in E'. destruct E' as [E' E3]. apply andb_true_iff in E'. destruct E' as [E1 E2].
      apply Z.eqb_eq in E1, E2, E3. subst.
      replace ((b0 =? b) && (c0 =? c) && (a0 =? a)) with false; [reflexivity|].
      rewrite (Z.eqb_sym b0 b), (Z.eqb_sym c0 c), (Z.eqb_sym a0 a). symmetry. exact E.
Qed.

(* everything a successful redeem establishes *)
Theorem ss_read_spec : forall c s client blobber alloc ts ctr id_ok sig_ok s',
  ss_read c s client blobber alloc ts ctr id_ok sig_ok = Some s' ->
  id_ok = true /\ sig_ok = true /\ 0 < ctr /\
  let last := ss_read_last blobber client alloc (st_reads s) in
  ss_last0 last <= ctr /\ (match last with Some n => n <= ctr | None => True end) /\
  ctr - ss_last0 last <= (2 ^ 63 - 1) / ss_CHUNK /\
  exists a d b,
    ss_find_alloc alloc (st_allocs s) = Some a /\ ss_find_ba blobber (al_bas a) = Some d /\
    ss_find_blobber blobber (st_blobbers s) = Some b /\ al_start a <= ts <= al_exp a /\
    let v := ss_read_value (ba_rp d) (ctr - ss_last0 last) in
    v <= ss_assoc0 client (st_rpools s) /\
    (forall k, ss_assoc0 k (st_rpools s') = if k =? client then ss_assoc0 client (st_rpools s) - v else ss_assoc0 k (st_rpools s)) /\
    (forall b' c' a', ss_read_last b' c' a' (st_reads s') =
                      if (b' =? blobber) && (c' =? client) && (a' =? alloc) then Some ctr else ss_read_last b' c' a' (st_reads s)) /\
    exists b1, ss_distribute b v = Some b1 /\ ss_find_blobber blobber (st_blobbers s') = Some b1 /\
    st_bals s' = st_bals s.
Proof.
  unfold ss_read; intros c s client blobber alloc ts ctr id_ok sig_ok s' H.
  guard_inv H. guard_inv H. guard_inv H. guard_inv H. bind_as H a Ea. guard_inv H. bind_as H d Ed. bind_as H b Eb.
  guard_inv H. guard_inv H. bind_as H b1 Eb1. bind_as H rr Err. inversion H; subst. clear H.
  apply andb_true_iff in G0. destruct G0 as [G0 _]. apply Z.ltb_lt in G0.
  apply andb_true_iff in G3. destruct G3 as [G3a G3b]. apply Z.leb_le in G3a, G3b.
  apply andb_true_iff in G4. destruct G4 as [_ G4]. apply Z.leb_le in G4. apply Z.leb_le in G5.
  set (last := ss_read_last blobber client alloc (st_reads s)) in *.
  assert (Hl : ss_last0 last <= ctr /\ match last with Some n => n <= ctr | None => True end).
  { destruct last as [n|]; cbn; [apply Z.leb_le in G1; lia | lia]. }
  destruct Hl as [Hl1 Hl2].
  assert (Hv : match last with Some n => n | None => 0 end = ss_last0 last) by reflexivity.
  rewrite Hv in *. fold (ss_read_value (ba_rp d) (ctr - ss_last0 last)) in *.
  repeat split; auto.
  exists a, d, b. repeat split; auto.
  - intros k. cbn. apply ss_assoc0_set.
  - intros b' c' a'. cbn. apply ss_read_last_set.
  - exists b1. split; [exact Eb1|]. split; [|reflexivity]. cbn.
    clear - Eb Eb1. assert (Hid : bl_id b1 = bl_id b).
    { unfold ss_distribute in Eb1. destruct ((ss_read_value (ba_rp d) (ctr - ss_last0 last) =? 0) || bl_spkilled b || (ss_stake b <? bl_minstake b)); [inversion Eb1; reflexivity|].
      destruct (bl_pools b); [inversion Eb1; reflexivity|]. destruct (ss_stake b =? 0); [discriminate | inversion Eb1; reflexivity]. }
    revert Eb. generalize (st_blobbers s). induction l as [|x tl IH]; cbn; intros H; [discriminate|].
    destruct (Z.eqb_spec (bl_id x) blobber).
    + inversion H; subst. rewrite Hid, Z.eqb_refl. cbn. rewrite Hid, Z.eqb_refl. reflexivity.
    + assert (bl_id b = blobber) by (clear - H; induction tl as [|y tl IH]; cbn in H; [discriminate|]; destruct (Z.eqb_spec (bl_id y) blobber); [inversion H; subst; auto | auto]).
      rewrite Hid, H0. destruct (Z.eqb_spec (bl_id x) blobber); [contradiction|]. cbn.
      destruct (Z.eqb_spec (bl_id x) blobber); [contradiction|]. apply IH. exact H.
Qed.

Lemma ss_read_foreign_rejected : forall c s client blobber alloc ts ctr id_ok sig_ok,
  id_ok = false \/ sig_ok = false -> ss_read c s client blobber alloc ts ctr id_ok sig_ok = None.
Proof.
  intros. destruct (ss_read c s client blobber alloc ts ctr id_ok sig_ok) eqn:E; [|reflexivity].
  apply ss_read_spec in E. destruct E as [E1 [E2 _]]. destruct H; congruence.
Qed.

Lemma ss_read_older_rejected : forall c s client blobber alloc ts ctr id_ok sig_ok n,
  ss_read_last blobber client alloc (st_reads s) = Some n -> ctr < n ->
  ss_read c s client blobber alloc ts ctr id_ok sig_ok = None.
Proof.
  intros. destruct (ss_read c s client blobber alloc ts ctr id_ok sig_ok) eqn:E; [|reflexivity].
  apply ss_read_spec in E. destruct E as [_ [_ [_ [_ [E _]]]]]. rewrite H in E. lia.
Qed.

(* for an accepted delta the byte count does not wrap *)
Lemma ss_read_value_no_wrap : forall rp n, 0 <= n <= (2 ^ 63 - 1) / ss_CHUNK ->
  ss_read_value rp n = f64_to_u64 (f64_mul (f64_of_Z rp) (ss_size_gb (n * ss_CHUNK))).
Proof.
  intros rp n Hn. unfold ss_read_value. f_equal. f_equal. f_equal.
  unfold ss_i64. assert (Hc : ss_CHUNK = 65536) by reflexivity. rewrite Hc in *.
  assert (Hq : (2 ^ 63 - 1) / 65536 = 140737488355327) by reflexivity. rewrite Hq in Hn.
  rewrite Z.mod_small; lia.
Qed.

(* a replayed counter reads zero new blocks; zero blocks cost nothing whenever the price converts
   to a finite float (true of every uint64, see the example in Prop/C15.v) *)
Definition f64_finite_or_zero (x : f64) : Prop :=
  match x with SpecFloat.S754_finite _ _ _ | SpecFloat.S754_zero _ => True | _ => False end.

Lemma ss_read_value_zero_blocks : forall rp, f64_finite_or_zero (f64_of_Z rp) -> ss_read_value rp 0 = 0.
Proof.
  intros rp H. unfold ss_read_value. replace (ss_size_gb (ss_i64 (0 * ss_CHUNK))) with (SpecFloat.S754_zero false) by (vm_compute; reflexivity).
  destruct (f64_of_Z rp); cbn in H; try contradiction; cbn; reflexivity.
Qed.

(* ---------- counters never decrease, whatever the transaction ---------- *)

Lemma ss_rp_lock_reads : forall c s a b v s', ss_rp_lock c s a b v = Some s' -> st_reads s' = st_reads s.
Proof. unfold ss_rp_lock; intros. crush H; misc_base. unfold st_misc in *. cbn in *. congruence. Qed.
Lemma ss_rp_unlock_reads : forall c s a s', ss_rp_unlock c s a = Some s' -> st_reads s' = st_reads s.
Proof. unfold ss_rp_unlock; intros. crush H; misc_base. unfold st_misc in *. cbn in *. congruence. Qed.
Lemma ss_add_assigner_reads : forall c s a n k i t s', ss_add_assigner c s a n k i t = Some s' -> st_reads s' = st_reads s.
Proof. unfold ss_add_assigner; intros. crush H; misc_base. reflexivity. Qed.
Lemma ss_free_alloc_reads : forall c s now id sender ass rec coin nonce sig bl s',
  ss_free_alloc c s now id sender ass rec coin nonce sig bl = Some s' -> st_reads s' = st_reads s.
Proof.
  unfold ss_free_alloc; intros. crush H; misc_base.
  match goal with Hx : ss_new_alloc _ _ _ _ _ _ _ _ _ _ _ _ _ _ _ = Some _ |- _ => apply ss_new_alloc_misc in Hx; unfold st_misc in Hx end.
  cbn. congruence.
Qed.

Lemma misc_reads : forall s s', st_misc s' = st_misc s -> st_reads s' = st_reads s.
Proof. unfold st_misc; intros; congruence. Qed.

Theorem ss_apply_counter_monotone : forall c s now round o s' b cl al n,
  ss_apply c s now round o = Some s' -> ss_read_last b cl al (st_reads s) = Some n ->
  exists n', ss_read_last b cl al (st_reads s') = Some n' /\ n <= n'.
Proof.
  intros c s now round o s' b cl al n H Hn.
  assert (Same : st_reads s' = st_reads s -> exists n', ss_read_last b cl al (st_reads s') = Some n' /\ n <= n').
  { intros ->. exists n. split; [exact Hn | lia]. }
  destruct o; cbn [ss_apply] in H; try discriminate.
  - apply Same, misc_reads. eapply ss_new_alloc_misc; eauto.
  - apply Same, misc_reads. eapply ss_wp_lock_misc; eauto.
  - apply Same, misc_reads. eapply ss_commit_misc; eauto.
  - destruct sel as [[[x y] z]|]; [apply Same, misc_reads; eapply ss_gen_chal_misc; eauto | inversion H; subst; apply Same; reflexivity].
  - apply Same, misc_reads. eapply ss_chal_resp_misc; eauto.
  - unfold ss_update in H. destruct (ss_update_f c s now round sender alloc value size extend set_tpe add remove new_owner) as [[s2 f]|] eqn:E; [|discriminate].
    cbn in H. inversion H; subst. apply Same, misc_reads. eapply ss_update_f_misc; eauto.
  - apply Same, misc_reads. eapply ss_finalize_misc; eauto.
  - apply Same, misc_reads. eapply ss_cancel_misc; eauto.
  - apply Same. eapply ss_rp_lock_reads; eauto.
  - apply Same. eapply ss_rp_unlock_reads; eauto.
  - apply ss_read_spec in H. destruct H as [_ [_ [_ [_ [Hle [_ [a [d [bb [_ [_ [_ [_ [_ [_ [Hr _]]]]]]]]]]]]]]]].
    rewrite Hr. destruct ((b =? blobber) && (cl =? client) && (al =? alloc)) eqn:E.
    + apply andb_true_iff in E. destruct E as [E E3]. apply andb_true_iff in E. destruct E as [E1 E2].
      apply Z.eqb_eq in E1, E2, E3. subst. rewrite Hn in Hle. exists ctr. split; [reflexivity | exact Hle].
    + exists n. split; [exact Hn | lia].
  - apply Same, misc_reads. eapply ss_kill_misc; eauto.
  - apply Same, misc_reads. eapply ss_shutdown_misc; eauto.
  - apply Same, misc_reads. eapply ss_upd_blobber_misc; eauto.
  - apply Same. eapply ss_add_assigner_reads; eauto.
  - apply Same. eapply ss_free_alloc_reads; eauto.
Qed.
