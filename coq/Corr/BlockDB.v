(* Correspondence for C26: a case is one database written by the real sharder/blockdb
   (records, the two files it produced, the lookups on the reopened database and on truncated
   copies of the files, as observed); [bdc_check] re-runs the model.  Compression is
   instantiated by the table of (stored, plain) pairs observed in the case. *)
From ZC Require Import Base.Corr Model.BlockDB Gen.BlockDBLoop Proof.BlockDBSrc.
Open Scope Z_scope.

Inductive bdc_out := OcRec (p : list Z) | OcNotFound | OcTimeout | OcErr | OcPanic | OcOpenFailed.
Inductive bdc_open := OoOk (hdr : list Z) | OoErr | OoPanic.

Record bdc_cut := {
  bdc_cut_d : nat; bdc_cut_h : nat;
  bdc_cut_open : bdc_open;
  bdc_cut_looks : list (list Z * bdc_out) }.

Record bdc_case := {
  bdc_klen : nat;
  bdc_comp : bool;
  bdc_ws : list (list Z * list Z);        (* key, stored payload, in write order *)
  bdc_plain : list (list Z);              (* plain payloads (compressed cases only) *)
  bdc_sh : list Z;                        (* stored dbHeader bytes *)
  bdc_hdr_plain : option (list Z);        (* Some: a dbHeader was set *)
  bdc_old : list Z;                       (* data file left at the path by a crashed earlier writer *)
  bdc_data : list Z; bdc_hdr : list Z;    (* .dat and .idx as written by the real code *)
  bdc_open_out : bdc_open;
  bdc_looks : list (list Z * bdc_out);
  bdc_session : list (list Z * bdc_out);  (* lookups one after the other on ONE open handle *)
  bdc_cuts : list bdc_cut }.

Definition bdc_bytes_eqb := list_eqb Z.eqb.

Fixpoint bdc_tbl (t : list (list Z * list Z)) (s : list Z) : option (list Z) :=
  match t with
  | [] => None
  | (k, v) :: tl => if bdc_bytes_eqb k s then Some v else bdc_tbl tl s
  end.

Definition bdc_decomp (c : bdc_case) (s : list Z) : option (list Z) :=
  if bdc_comp c then
    (* gozstd.Decompress of an empty input returns an empty output and no error (observed) *)
    match s with [] => Some [] | _ =>
    bdc_tbl (match bdc_hdr_plain c with Some p => [(bdc_sh c, p)] | None => [] end
             ++ combine (map snd (bdc_ws c)) (bdc_plain c)) s end
  else Some s.

Definition bdc_out_eqb (a b : bdc_out) : bool :=
  match a, b with
  | OcRec x, OcRec y => bdc_bytes_eqb x y
  | OcNotFound, OcNotFound | OcTimeout, OcTimeout | OcErr, OcErr | OcPanic, OcPanic
  | OcOpenFailed, OcOpenFailed => true
  | _, _ => false
  end.

Definition bdc_open_eqb (a b : bdc_open) : bool :=
  match a, b with
  | OoOk x, OoOk y => bdc_bytes_eqb x y
  | OoErr, OoErr | OoPanic, OoPanic => true
  | _, _ => false
  end.

(* Open as the caller sees it: index, then the dbHeader (if one is set) is decompressed *)
Definition bdc_model_open (c : bdc_case) (h : list Z) : bdc_open * option (list Z) :=
  match bd_open (bdc_klen c) h with
  | BdOpenErr => (OoErr, None)
  | BdOpenPanic => (OoPanic, None)
  | BdOpened buf rest =>
      match bdc_hdr_plain c with
      | None => (OoOk [], Some buf)
      | Some _ => match bdc_decomp c rest with
                  | Some p => (OoOk p, Some buf)
                  | None => (OoErr, None)
                  end
      end
  end.

Definition bdc_model_look (c : bdc_case) (buf : option (list Z)) (data key : list Z) : bdc_out :=
  match buf with
  | None => OcOpenFailed
  | Some b =>
      match bd_read_src (bd_fuel b (bdc_klen c)) (bdc_klen c) b data key with
      | BdRec s => match bdc_decomp c s with Some p => OcRec p | None => OcErr end
      | BdReadNotFound => OcNotFound
      | BdReadErr => OcErr
      | BdReadPanic => OcPanic
      | BdReadFuel => OcTimeout
      end
  end.

Definition bdc_looks_ok (c : bdc_case) (buf : option (list Z)) (data : list Z) (ls : list (list Z * bdc_out)) : bool :=
  forallb (fun kl => bdc_out_eqb (bdc_model_look c buf data (fst kl)) (snd kl)) ls.

Definition bdc_check (c : bdc_case) : bool :=
  let db := bd_write_all bd_create (bdc_ws c) in
  let hfile := bd_header_file db (bdc_sh c) in
  let '(op, buf) := bdc_model_open c hfile in
  let disk := bd_data_over (bdc_old c) (bd_data db) in
  bdc_bytes_eqb disk (bdc_data c) &&
  bdc_bytes_eqb hfile (bdc_hdr c) &&
  bdc_open_eqb op (bdc_open_out c) &&
  bdc_looks_ok c buf disk (bdc_looks c) &&
  (* the model's Read is a function of (files, key): order and repetition cannot matter *)
  bdc_looks_ok c buf disk (bdc_session c) &&
  forallb (fun ct =>
    let d' := bd_data_over (bdc_old c) (firstn (bdc_cut_d ct) (bd_data db)) in
    let h' := firstn (bdc_cut_h ct) hfile in
    let '(op', buf') := bdc_model_open c h' in
    bdc_open_eqb op' (bdc_cut_open ct) && bdc_looks_ok c buf' d' (bdc_cut_looks ct)) (bdc_cuts c).
