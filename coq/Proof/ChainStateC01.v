(* C01: supply conservation for the model of updateState, over single transfers, single
   transactions (every contract oracle result), histories, and the genesis distribution. *)
From ZC Require Import Model.ChainState Proof.ChainState.
Open Scope Z_scope.

Lemma cs_c01_transfer : forall sp m t m',
    cs_transfer_assert sp m t = ROk m' -> cs_total m' = cs_total m.
Proof.
  intros sp m t m' H. apply cs_transfer_assert_ok in H. eapply cs_transfer_amount_total; eauto.
Qed.

Lemma cs_c01_transfer_failure_keeps : forall sp m t,
    (exists m', cs_transfer_assert sp m t = ROk m' /\ cs_total m' = cs_total m) \/
    (exists e, cs_transfer_assert sp m t = RErr e).
Proof.
  intros sp m t. destruct (cs_transfer_assert sp m t) as [m'|e|] eqn:E.
  - left. exists m'. split; [reflexivity|]. eapply cs_c01_transfer; eauto.
  - right. exists e. reflexivity.
  - exfalso. exact (cs_transfer_assert_no_panic _ _ _ E).
Qed.

(* the transaction as its own context sees it conserves the supply, for every id whatsoever *)
Lemma cs_c01_update_ideal : forall cfg st round tx r,
    cs_total (st_accts (cs_post st (cs_update_ideal cfg st round tx r))) = cs_total (st_accts st).
Proof.
  intros cfg st round tx r.
  destruct (cs_update_ideal cfg st round tx r) as [st' status out evs|e|] eqn:E; cbn [cs_post]; try reflexivity.
  apply cs_update_ideal_effect in E. cbv zeta in E. destruct E as (T & _). exact T.
Qed.

Lemma cs_c01_update : forall cfg st round tx r,
    cs_canon_accts (st_accts st) -> cs_canon_txn cfg tx r ->
    cs_total (st_accts (cs_post st (cs_update_state cfg st round tx r))) = cs_total (st_accts st).
Proof.
  intros cfg st round tx r Hs Ht. rewrite cs_update_state_canon_eq by assumption.
  apply cs_c01_update_ideal.
Qed.

Lemma cs_c01_history : forall cfg h st,
    cs_canon_accts (st_accts st) -> Forall (cs_canon_item cfg) h ->
    cs_total (st_accts (cs_run cfg st h)) = cs_total (st_accts st).
Proof.
  intros cfg h. unfold cs_run. induction h as [|it tl IH]; intros st Hs Hh; cbn [fold_left].
  - reflexivity.
  - inversion Hh; subst. rewrite IH; [|apply cs_step_canon; assumption|assumption].
    destruct it as [[round tx] r]. unfold cs_step. apply cs_c01_update; assumption.
Qed.

(* with the strict IsHash (the code as repaired): every reachable transaction conserves the supply *)
Lemma cs_c01_update_reachable : forall cfg st round tx r,
    cfg_strict_ids cfg = true -> cs_canon_accts (st_accts st) -> cs_reachable_txn cfg tx r ->
    cs_total (st_accts (cs_post st (cs_update_state cfg st round tx r))) = cs_total (st_accts st).
Proof.
  intros cfg st round tx r S Cs R. rewrite cs_update_state_reachable_eq by assumption.
  apply cs_c01_update_ideal.
Qed.

Lemma cs_c01_history_reachable : forall cfg h st,
    cfg_strict_ids cfg = true -> cs_canon_accts (st_accts st) -> Forall (cs_reachable_item cfg) h ->
    cs_total (st_accts (cs_run cfg st h)) = cs_total (st_accts st) /\
    cs_canon_accts (st_accts (cs_run cfg st h)).
Proof.
  intros cfg h. unfold cs_run. induction h as [|it tl IH]; intros st S Cs Hh; cbn [fold_left].
  - split; [reflexivity|exact Cs].
  - inversion Hh; subst.
    destruct (IH (cs_step cfg st it) S) as (T & C); [apply cs_step_reachable_canon; assumption|assumption|].
    split; [|exact C]. rewrite T.
    destruct it as [[round tx] r]. unfold cs_step. apply cs_c01_update_reachable; assumption.
Qed.

(* an upper-case destination is refused: the transaction is not applied and nothing changes *)
Lemma cs_c01_uppercase_send_rejected : forall cfg st round tx r,
    cfg_strict_ids cfg = true -> tx_type tx = TSend -> cs_upper_base <= tx_to tx ->
    cs_is_applied (cs_update_state cfg st round tx r) = false /\
    cs_post st (cs_update_state cfg st round tx r) = st.
Proof.
  intros cfg st round tx r S TY UP.
  assert (NA : cs_is_applied (cs_update_state cfg st round tx r) = false).
  { unfold cs_update_state.
    destruct (cs_update_ideal cfg st round tx r) as [st' s o e| |] eqn:E; try reflexivity.
    apply cs_update_ideal_applied_hash in E. destruct E as (_ & HT & _).
    pose proof (cs_is_hash_strict cfg _ S (HT TY)) as C. unfold cs_canon_id in C. lia. }
  split; [exact NA|].
  destruct (cs_update_state cfg st round tx r); cbn in *; [discriminate|reflexivity|reflexivity].
Qed.

(* the full statement (no restriction on ids) and its refutation: a send to the upper-case
   spelling of an existing account's id destroys the amount *)
Definition cs_c01_full_statement : Prop :=
  forall cfg st round tx r,
    cs_total (st_accts (cs_post st (cs_update_state cfg st round tx r))) = cs_total (st_accts st).

Definition cs_c01_witness_cfg := {| cfg_fee := true; cfg_events := false; cfg_miner := 0; cfg_strict_ids := false |}.
Definition cs_c01_witness_state :=
  {| st_accts := [(3, {| ac_bal := 1000; ac_nonce := 0; ac_txn := -1; ac_round := 0 |});
                  (4, {| ac_bal := 1000; ac_nonce := 0; ac_txn := -1; ac_round := 0 |})];
     st_nodes := [] |}.
Definition cs_c01_witness_txn :=
  {| tx_hash := 0; tx_type := TSend; tx_from := 3; tx_to := cs_upper_base + 4; tx_value := 100;
     tx_fee := 0; tx_nonce := 1 |}.

Lemma cs_c01_witness :
  let st' := cs_post cs_c01_witness_state
               (cs_update_state cs_c01_witness_cfg cs_c01_witness_state 7 cs_c01_witness_txn SCInternal) in
  cs_total (st_accts cs_c01_witness_state) = 2000 /\ cs_total (st_accts st') = 1900 /\
  map fst (st_accts st') = [3; 4].
Proof. vm_compute. repeat split; reflexivity. Qed.

Lemma cs_c01_refuted : ~ cs_c01_full_statement.
Proof.
  intros H.
  specialize (H cs_c01_witness_cfg cs_c01_witness_state 7 cs_c01_witness_txn SCInternal).
  vm_compute in H. discriminate H.
Qed.

(* ---------- genesis ---------- *)
Lemma cs_bal_fresh : forall m k, ~ In k (cs_keys m) -> cs_bal m k = 0.
Proof.
  intros m k H. unfold cs_bal. destruct (cs_get k m) eqn:E; [|reflexivity].
  exfalso. apply H. apply cs_get_In in E. unfold cs_keys. apply in_map_iff. exists (k, c). auto.
Qed.

Lemma cs_gen_clients_total : forall cl m tr m' tr',
    (forall id, In id (map fst cl) -> ~ In id (cs_keys m)) -> NoDup (map fst cl) ->
    cs_gen_clients cl m tr = Some (m', tr') ->
    cs_total m' = cs_total m + (tr' - tr) /\
    (forall k, In k (cs_keys m') -> In k (cs_keys m) \/ In k (map fst cl)).
Proof.
  induction cl as [|[id tok] tl IH]; intros m tr m' tr' Fresh ND H; cbn [cs_gen_clients] in H.
  - inversion H; subst. split; [lia|auto].
  - unfold cs_add_coin in H. destruct (tr + tok <? cs_two64); [|discriminate].
    cbn [map fst] in ND, Fresh. inversion ND as [|? ? NI ND']; subst.
    assert (Fresh' : forall x, In x (map fst tl) -> ~ In x (cs_keys (cs_put id (cs_gen_acct tok) m))).
    { intros x Hx Hk. apply cs_keys_put in Hk. destruct Hk as [->|Hk]; [contradiction|].
      exact (Fresh x (or_intror Hx) Hk). }
    destruct (IH _ _ _ _ Fresh' ND' H) as (T & K). split.
    + rewrite T, cs_total_put, (cs_bal_fresh m id) by (apply Fresh; left; reflexivity).
      cbn [cs_gen_acct ac_bal]. lia.
    + intros k Hk. apply K in Hk. destruct Hk as [Hk|Hk]; [|right; right; exact Hk].
      apply cs_keys_put in Hk. destruct Hk as [->|Hk]; [right; left; reflexivity|left; exact Hk].
Qed.

Lemma cs_nodup_app : forall {A} (l1 l2 : list A),
    NoDup (l1 ++ l2) -> NoDup l1 /\ NoDup l2 /\ (forall x, In x l1 -> ~ In x l2).
Proof.
  induction l1 as [|y ys IH]; intros l2 ND; cbn [app] in ND.
  - split; [constructor|split; [exact ND|intros x []]].
  - inversion ND as [|? ? NI ND']; subst. destruct (IH _ ND') as (N1 & N2 & D).
    split; [|split; [exact N2|]].
    + constructor; [|exact N1]. intros Hin. apply NI. apply in_or_app. left. exact Hin.
    + intros x [->|Hx]; [|apply D; exact Hx]. intros Hin. apply NI. apply in_or_app. right. exact Hin.
Qed.

Lemma cs_gen_groups_total : forall gs m total m' total',
    (forall id, In id (cs_gen_ids gs) -> ~ In id (cs_keys m)) -> NoDup (cs_gen_ids gs) ->
    cs_gen_groups gs m total = Some (m', total') ->
    cs_total m' = cs_total m + (total' - total).
Proof.
  induction gs as [|[[gid tok] cl] tl IH]; intros m total m' total' Fresh ND H; cbn [cs_gen_groups] in H.
  - inversion H; subst. lia.
  - unfold cs_add_coin in H. destruct (total + tok <? cs_two64); [|discriminate].
    destruct (cs_gen_clients cl m 0) as [[m1 transferred]|] eqn:EC; [|discriminate].
    unfold cs_minus_coin in H. destruct (transferred <=? tok); [|discriminate].
    assert (Eids : forall g : cs_init_group,
               cs_gen_ids (g :: tl) = map fst (snd g) ++ fst (fst g) :: cs_gen_ids tl).
    { intros g. unfold cs_gen_ids. cbn [flat_map]. rewrite <- app_assoc. reflexivity. }
    rewrite Eids in ND. cbn [fst snd] in ND.
    assert (Fresh0 : forall id, In id (map fst cl ++ gid :: cs_gen_ids tl) -> ~ In id (cs_keys m)).
    { intros id Hid. apply Fresh. rewrite Eids. exact Hid. }
    clear Fresh. rename Fresh0 into Fresh.
    destruct (cs_nodup_app _ _ ND) as (NDc & NDr & Disj).
    assert (FreshC : forall x, In x (map fst cl) -> ~ In x (cs_keys m)).
    { intros x Hx. apply Fresh. apply in_or_app. left. exact Hx. }
    destruct (cs_gen_clients_total _ _ _ _ _ FreshC NDc EC) as (T1 & K1).
    assert (FreshG : ~ In gid (cs_keys m1)).
    { intros Hk. apply K1 in Hk. destruct Hk as [Hk|Hk].
      - apply (Fresh gid); [apply in_or_app; right; left; reflexivity|exact Hk].
      - apply (Disj gid Hk). left. reflexivity. }
    inversion NDr as [|? ? NIg NDt]; subst.
    assert (Fresh2 : forall x, In x (cs_gen_ids tl) -> ~ In x (cs_keys (cs_put gid (cs_gen_acct (tok - transferred)) m1))).
    { intros x Hx Hk. apply cs_keys_put in Hk. destruct Hk as [->|Hk]; [contradiction|].
      apply K1 in Hk. destruct Hk as [Hk|Hk].
      - apply (Fresh x); [apply in_or_app; right; right; exact Hx|exact Hk].
      - apply (Disj x Hk). right. exact Hx. }
    rewrite (IH _ _ _ _ Fresh2 NDt H), cs_total_put, (cs_bal_fresh m1 gid FreshG), T1.
    cbn [cs_gen_acct ac_bal]. lia.
Qed.

Lemma cs_c01_genesis : forall gs m,
    NoDup (cs_gen_ids gs) -> cs_genesis gs = Some m -> cs_total m = cs_max_supply.
Proof.
  intros gs m ND H. unfold cs_genesis in H.
  destruct (cs_gen_groups gs [] 0) as [[m0 total]|] eqn:E; [|discriminate].
  destruct (Z.eqb_spec total cs_max_supply); [|discriminate]. inversion H; subst.
  apply cs_gen_groups_total in E; [|intros id _ []|exact ND].
  rewrite E. cbn [cs_total fold_right]. lia.
Qed.

(* the supply stays MaxTokenSupply on every state reachable from a genesis distribution *)
Lemma cs_c01_reachable_supply_strict : forall gs m cfg nodes h,
    cfg_strict_ids cfg = true ->
    NoDup (cs_gen_ids gs) -> cs_genesis gs = Some m ->
    cs_canon_accts m -> Forall (cs_reachable_item cfg) h ->
    cs_total (st_accts (cs_run cfg {| st_accts := m; st_nodes := nodes |} h)) = cs_max_supply.
Proof.
  intros gs m cfg nodes h S ND G C H.
  destruct (cs_c01_history_reachable cfg h {| st_accts := m; st_nodes := nodes |} S C H) as (T & _).
  rewrite T. cbn [st_accts]. eapply cs_c01_genesis; eauto.
Qed.

(* a signed transfer to an id the strict IsHash refuses fails the transaction *)
Definition cs_c01_strict_cfg := {| cfg_fee := true; cfg_events := false; cfg_miner := 0; cfg_strict_ids := true |}.
Lemma cs_c01_signed_noncanonical_rejected : forall cfg st round tx ws trs signed evs out,
    cfg_strict_ids cfg = true -> tx_type tx = TSC ->
    Exists (fun t => ~ cs_canon_id (tr_to t)) signed ->
    cs_is_applied (cs_update_state cfg st round tx (SCOk ws trs signed evs out)) = false /\
    cs_post st (cs_update_state cfg st round tx (SCOk ws trs signed evs out)) = st.
Proof.
  intros cfg st round tx ws trs signed evs out S TY EX.
  assert (NA : cs_is_applied (cs_update_state cfg st round tx (SCOk ws trs signed evs out)) = false).
  { unfold cs_update_state.
    destruct (cs_update_ideal cfg st round tx (SCOk ws trs signed evs out)) as [st' s o e| |] eqn:E; try reflexivity.
    apply cs_update_ideal_applied_hash in E. destruct E as (_ & _ & HS).
    specialize (HS ws trs signed evs out TY eq_refl).
    apply Exists_exists in EX. destruct EX as (t & It & Nt). rewrite Forall_forall in HS.
    exfalso. apply Nt. apply (cs_is_hash_strict cfg); auto. }
  split; [exact NA|].
  destruct (cs_update_state cfg st round tx (SCOk ws trs signed evs out)); cbn in *; [discriminate|reflexivity|reflexivity].
Qed.

Lemma cs_c01_signed_example :
  let tx := {| tx_hash := 0; tx_type := TSC; tx_from := 3; tx_to := 1; tx_value := 0; tx_fee := 0; tx_nonce := 1 |} in
  let r := SCOk [] [] [Build_cs_transfer 3 (cs_upper_base + 4) 100] [] 0 in
  cs_update_state cs_c01_strict_cfg cs_c01_witness_state 7 tx r = Rejected ErrBadTo.
Proof. vm_compute. reflexivity. Qed.

Lemma cs_c01_reachable_supply : forall gs m cfg nodes h,
    NoDup (cs_gen_ids gs) -> cs_genesis gs = Some m ->
    cs_canon_accts m -> Forall (cs_canon_item cfg) h ->
    cs_total (st_accts (cs_run cfg {| st_accts := m; st_nodes := nodes |} h)) = cs_max_supply.
Proof.
  intros. rewrite cs_c01_history by assumption. cbn [st_accts]. eapply cs_c01_genesis; eauto.
Qed.
