// Engine for C42: builds real node.Pool sharder pools in several insertion orders, asks a real
// chain.Chain (IsBlockSharderFromHash, IsBlockSharder, CanShardBlockWithReplicators) and the real
// HashPoolScorer/XORHashScorer, checks the property statement on the observed behaviour (oracle)
// and emits the cases for the Coq model.
package main

import (
	"encoding/hex"
	"fmt"
	"sort"
	"strings"
	"time"

	"0chain.net/chaincore/block"
	"0chain.net/chaincore/chain"
	"0chain.net/chaincore/node"
	"0chain.net/chaincore/round"
	"0chain.net/core/encryption"
	"verifharness/sc"
	"verifharness/vh"
)

type nodeSpec struct {
	PK  string `json:"pk"`            // hex public key (32 bytes, ed25519 scheme): id = sha3(pk)
	IDB string `json:"idb,omitempty"` // "" = never SetID (idBytes nil); "id" = SetID(own id) as NewNode does; else hex passed to SetID before AddNode
}

// addOp = one Pool.AddNode call: pool P (0 = the sharder pool under test, 1 = another pool that may
// share node objects with it), node spec S; New = create a fresh node object for the spec instead of
// re-using the object created last for it.
type addOp struct {
	P   int  `json:"p"`
	S   int  `json:"s"`
	New bool `json:"new,omitempty"`
}

type input struct {
	Specs   []nodeSpec `json:"specs"` // two specs may carry the same public key (same id, other object / idBytes)
	Hist    []addOp    `json:"hist"`
	Hash    string     `json:"hash"`
	K       int        `json:"k"`
	Queries []int      `json:"queries"` // index into Specs (its key), or -1 for a node outside the pool
	// Local: per-process state of the node objects this process holds for the given specs (what the status
	// monitor and the network layer write: Status, LastActiveTime, error count, Info, Host/Port). The answers
	// are computed on this view and again after resetting it; they must not differ.
	Local []localState `json:"local,omitempty"`
}

type localState struct {
	S        int   `json:"s"`
	Inactive bool  `json:"inactive,omitempty"`
	Errors   int64 `json:"errors,omitempty"`
	Other    bool  `json:"other,omitempty"` // LastActiveTime, Info, Host, Port, Description
}

func applyLocal(n *node.Node, l localState, reset bool) {
	if reset {
		n.SetStatus(node.NodeStatusActive)
		n.SetErrorCount(0)
		n.SetLastActiveTime(time.Time{})
		n.SetInfo(node.Info{})
		n.Host, n.Port, n.Description = "", 0, ""
		return
	}
	if l.Inactive {
		n.SetStatus(node.NodeStatusInactive)
	}
	n.SetErrorCount(l.Errors)
	if l.Other {
		n.SetLastActiveTime(time.Unix(1700000000, 0))
		n.SetInfo(node.Info{BuildTag: "verif", StateMissingNodes: 7})
		n.Host, n.Port, n.Description = "10.1.2.3", 7171, "view"
	}
}

func specKey(s nodeSpec) string {
	pkb, err := hex.DecodeString(s.PK)
	if err != nil {
		panic(err)
	}
	return encryption.Hash(pkb)
}

func mkNode(s nodeSpec) *node.Node {
	n := node.Provider()
	n.Type = node.NodeTypeSharder
	n.SetSignatureSchemeType("ed25519")
	n.PublicKey = s.PK
	pkb, err := hex.DecodeString(s.PK)
	if err != nil {
		panic(err)
	}
	id := encryption.Hash(pkb)
	switch s.IDB {
	case "":
	case "id":
		if err := n.SetID(id); err != nil {
			panic(err)
		}
	default:
		if err := n.SetID(s.IDB); err != nil {
			panic(err)
		}
	}
	return n
}

func buildPool(specs []nodeSpec, order []int) (*node.Pool, map[string]*node.Node) {
	p := node.NewPool(node.NodeTypeSharder)
	objs := map[string]*node.Node{}
	for _, i := range order {
		n := mkNode(specs[i])
		if err := p.AddNode(n); err != nil {
			panic(err)
		}
		objs[n.GetKey()] = n
	}
	return p, objs
}

type world struct {
	c *chain.Chain
}

func (w *world) setup(p *node.Pool, k int) {
	w.c.ChainConfig = chain.NewConfigImpl(&chain.ConfigData{NumReplicators: k})
	w.c.MagicBlockStorage = round.NewRoundStartingStorage()
	mb := block.NewMagicBlock()
	mb.Miners = node.NewPool(node.NodeTypeMiner)
	mb.Sharders = p
	w.c.SetMagicBlock(mb)
}

type answer struct {
	is     *bool // nil = panic
	with   *bool
	nodes  []string // keys, sorted
	viaBlk *bool
}

func (w *world) ask(hash string, n *node.Node) (a answer) {
	func() {
		defer func() { _ = recover() }()
		b := w.c.IsBlockSharderFromHash(7, hash, n)
		a.is = &b
	}()
	func() {
		defer func() { _ = recover() }()
		bk := &block.Block{}
		bk.Hash = hash
		bk.Round = 7
		b := w.c.IsBlockSharder(bk, n)
		a.viaBlk = &b
	}()
	func() {
		defer func() { _ = recover() }()
		b, ns := w.c.CanShardBlockWithReplicators(7, hash, n)
		a.with = &b
		for _, x := range ns {
			a.nodes = append(a.nodes, x.GetKey())
		}
		sort.Strings(a.nodes)
	}()
	return
}

func eqBoolPtr(a, b *bool) bool {
	if a == nil || b == nil {
		return a == b
	}
	return *a == *b
}

func eqStrs(a, b []string) bool {
	if len(a) != len(b) {
		return false
	}
	for i := range a {
		if a[i] != b[i] {
			return false
		}
	}
	return true
}

type outcome struct {
	fails   []string
	fail    string
	kinds   map[string]int
	coq     string
	nontriv bool
}

func optBool(b *bool) string {
	if b == nil {
		return "None"
	}
	return "(Some " + vh.Bool(*b) + ")"
}

func run(w *world, in input) outcome {
	out := outcome{kinds: map[string]int{}}
	setFail := func(f string) {
		if out.fail == "" {
			out.fail = f
		}
		for _, x := range out.fails {
			if x == f {
				return
			}
		}
		out.fails = append(out.fails, f)
	}
	pools := []*node.Pool{node.NewPool(node.NodeTypeSharder), node.NewPool(node.NodeTypeSharder)}
	objs := make([]*node.Node, len(in.Specs))
	cur0 := map[string]int{} // key -> spec of the object pool 0 holds for it
	var hist0 []int
	shared := map[*node.Node]int{}
	for _, a := range in.Hist {
		if a.S < 0 || a.S >= len(in.Specs) || a.P < 0 || a.P > 1 {
			continue
		}
		if objs[a.S] == nil || a.New {
			objs[a.S] = mkNode(in.Specs[a.S])
		}
		if err := pools[a.P].AddNode(objs[a.S]); err != nil {
			panic(err)
		}
		shared[objs[a.S]] |= 1 << uint(a.P)
		if a.P == 0 {
			k := specKey(in.Specs[a.S])
			if _, had := cur0[k]; had {
				out.kinds["readd-existing-key"]++
			}
			cur0[k] = a.S
			hist0 = append(hist0, a.S)
		}
	}
	for _, m := range shared {
		if m == 3 {
			out.kinds["node-object-in-two-pools"]++
		}
	}
	p1 := pools[0]
	dupKeys := len(hist0) != len(cur0)
	if dupKeys {
		out.kinds["pool-with-replaced-node"]++
	}

	// the pool's node list must be a duplicate-free listing of its key set, holding the map's objects
	keys := p1.Keys()
	sort.Strings(keys)
	listed := p1.CopyNodes()
	objs1 := map[string]*node.Node{}
	var setIdx []string
	stale := false
	if len(listed) != len(keys) || p1.Size() != len(keys) || len(keys) != len(cur0) {
		setFail("pool-nodes-not-a-duplicate-free-listing-of-the-key-set")
	}
	for i, nd := range listed {
		if i < len(keys) && nd.GetKey() != keys[i] {
			setFail("pool-nodes-not-a-duplicate-free-listing-of-the-key-set")
		}
		if p1.GetNode(nd.GetKey()) != nd {
			setFail("pool-nodes-not-a-duplicate-free-listing-of-the-key-set")
		}
		setIdx = append(setIdx, fmt.Sprintf("%d", nd.SetIndex))
		if nd.SetIndex != i {
			stale = true
		}
	}
	if stale {
		out.kinds["setindex-differs-from-position"]++
	}
	for _, k := range keys {
		objs1[k] = p1.GetNode(k)
	}

	// this process' view of the sharders: per-process node state
	for _, l := range in.Local {
		if l.S >= 0 && l.S < len(in.Specs) {
			if n := objs1[specKey(in.Specs[l.S])]; n != nil {
				applyLocal(n, l, false)
				out.kinds["node-with-process-local-state"]++
				if l.Inactive {
					out.kinds["node-locally-inactive"]++
				}
			}
		}
	}

	// scores as the real scorer sees them
	scorer := node.NewHashPoolScorer(encryption.NewXORHashScorer())
	var scores []*node.Score
	scorePanic := false
	func() {
		defer func() {
			if e := recover(); e != nil {
				scorePanic = true
			}
		}()
		scores = scorer.ScoreHashString(p1, in.Hash)
	}()
	_, hexErr := hex.DecodeString(in.Hash)
	switch {
	case scorePanic:
		out.kinds["hash-shorter-than-id-panic"]++
	case hexErr != nil:
		out.kinds["hash-not-hex"]++
	default:
		out.kinds["hash-ok"]++
	}
	scoreOf := map[string]int32{}
	for _, s := range scores {
		scoreOf[s.Node.GetKey()] = s.Score
	}
	n := p1.Size()
	switch {
	case in.K <= 0:
		out.kinds["k-disabled"]++
	case in.K > n:
		out.kinds["k-greater-than-n"]++
	case in.K == n:
		out.kinds["k-equals-n"]++
	default:
		out.kinds["k-within"]++
	}

	// all nodes of the pool + the requested queries
	w.setup(p1, in.K)
	ans1 := map[string]answer{}
	for _, k := range keys {
		ans1[k] = w.ask(in.Hash, objs1[k])
	}
	foreign := mkNode(nodeSpec{PK: strings.Repeat("ee", 32), IDB: "id"})
	ansForeign := w.ask(in.Hash, foreign)

	// the same process after its local node state is reset (= another process' view of the same sharder set)
	if len(in.Local) > 0 {
		for _, l := range in.Local {
			if l.S >= 0 && l.S < len(in.Specs) {
				if n := objs1[specKey(in.Specs[l.S])]; n != nil {
					applyLocal(n, l, true)
				}
			}
		}
		for _, k := range keys {
			b := w.ask(in.Hash, objs1[k])
			out.kinds["oracle-same-set-on-other-process-view"]++
			if !eqBoolPtr(b.is, ans1[k].is) || !eqBoolPtr(b.with, ans1[k].with) || !eqStrs(b.nodes, ans1[k].nodes) {
				setFail("set-depends-on-process-local-node-state")
			}
		}
	}

	// ---- oracle: the property statement on the implementation ----
	var set1 []string
	anyPanic := false
	for _, k := range keys {
		a := ans1[k]
		if a.is == nil || a.with == nil {
			anyPanic = true
			continue
		}
		if *a.is {
			set1 = append(set1, k)
		}
		if !eqBoolPtr(a.is, a.with) || !eqBoolPtr(a.is, a.viaBlk) {
			setFail("isblocksharder-disagrees-with-canshardblockwithreplicators")
		}
	}
	if anyPanic && in.K <= 0 {
		setFail("not-everyone-when-replication-disabled")
	}
	if anyPanic && !scorePanic {
		setFail("lookup-panics-although-scoring-succeeds")
	}
	if !anyPanic && !scorePanic {
		if in.K <= 0 {
			if len(set1) != n {
				setFail("not-everyone-when-replication-disabled")
			}
			for _, k := range keys {
				if !eqStrs(ans1[k].nodes, keys) {
					setFail("not-everyone-when-replication-disabled")
				}
			}
			if ansForeign.is == nil || !*ansForeign.is {
				setFail("not-everyone-when-replication-disabled")
			}
		} else {
			for _, k := range keys {
				if !eqStrs(ans1[k].nodes, set1) {
					setFail("replicator-list-differs-from-isblocksharder-set")
				}
			}
			if ansForeign.is != nil && *ansForeign.is {
				setFail("node-outside-the-sharder-set-is-replicator")
			}
			if hexErr == nil && in.K <= n {
				if len(set1) < in.K {
					setFail("fewer-replicators-than-configured")
				}
				out.kinds["oracle-at-least-k"]++
				if len(set1) > in.K {
					out.kinds["tie-at-cutoff-extends-set"]++
				}
				// the set is the top by score: x in set iff fewer than k nodes score strictly higher
				for _, k := range keys {
					better := 0
					for _, k2 := range keys {
						if scoreOf[k2] > scoreOf[k] {
							better++
						}
					}
					if (better < in.K) != *ans1[k].is {
						setFail("set-is-not-the-k-best-scores-with-ties")
					}
				}
			}
		}
		// every node computes the same set from the sharder SET alone: fresh pools over the current key set
		// (fresh node objects, three insertion orders) and a clone must give the same answers
		var curSpecs []nodeSpec
		for _, k := range keys {
			curSpecs = append(curSpecs, in.Specs[cur0[k]])
		}
		nn := len(curSpecs)
		orders := [][]int{make([]int, nn), make([]int, nn), nil}
		for i := 0; i < nn; i++ {
			orders[0][i] = i
			orders[1][i] = nn - 1 - i
		}
		for i := 0; i < nn; i += 2 {
			orders[2] = append(orders[2], i)
		}
		for i := 1; i < nn; i += 2 {
			orders[2] = append(orders[2], i)
		}
		alts := []*node.Pool{}
		altObjs := []map[string]*node.Node{}
		for _, ord := range orders {
			p2, o2 := buildPool(curSpecs, ord)
			alts, altObjs = append(alts, p2), append(altObjs, o2)
		}
		pc := p1.Clone()
		oc := map[string]*node.Node{}
		for _, x := range pc.CopyNodes() {
			oc[x.GetKey()] = x
		}
		alts, altObjs = append(alts, pc), append(altObjs, oc)
		for ai, p := range alts {
			w.setup(p, in.K)
			for _, k := range keys {
				a := w.ask(in.Hash, altObjs[ai][k])
				out.kinds["oracle-same-set-as-fresh-pool"]++
				if !eqBoolPtr(a.is, ans1[k].is) || !eqStrs(a.nodes, ans1[k].nodes) {
					setFail("set-depends-on-pool-history-or-insertion-order")
				}
			}
		}
		w.setup(p1, in.K)
	}

	// ---- Coq case ----
	// keys are printed as their rank among all keys of the case (order-preserving renaming)
	allKeys := append([]string{}, keys...)
	allKeys = append(allKeys, foreign.GetKey())
	sort.Strings(allKeys)
	rank := map[string]int{}
	for i, k := range allKeys {
		rank[k] = i
	}
	keyZ := func(k string) string { return fmt.Sprintf("%d", rank[k]) }
	nodes := make([]string, len(hist0))
	for i, si := range hist0 {
		s := in.Specs[si]
		id := specKey(s)
		idb := s.IDB
		if idb == "id" {
			idb = id
		}
		nodes[i] = fmt.Sprintf("{| rpr_key := %s; rpr_idb := %s |}", keyZ(id), vh.Str(strings.ToLower(idb)))
	}
	hashT := "None"
	if _, err := hex.DecodeString(in.Hash); err == nil {
		hashT = "(Some " + vh.Str(strings.ToLower(in.Hash)) + ")"
	}
	scoresT := "None"
	if !scorePanic {
		var ss []string
		for _, k := range keys {
			if hexErr == nil {
				ss = append(ss, vh.Pair(keyZ(k), fmt.Sprintf("%d", scoreOf[k])))
			}
		}
		scoresT = "(Some " + vh.List(ss) + ")"
	}
	var qs []string
	q := func(key string, a answer) {
		with := "None"
		if a.with != nil {
			ks := make([]string, len(a.nodes))
			for i, x := range a.nodes {
				ks[i] = keyZ(x)
			}
			with = "(Some " + vh.Pair(vh.Bool(*a.with), vh.List(ks)) + ")"
		}
		qs = append(qs, fmt.Sprintf("{| rpq_key := %s; rpq_is := %s; rpq_with := %s |}", keyZ(key), optBool(a.is), with))
	}
	for _, qi := range in.Queries {
		if qi < 0 || qi >= len(in.Specs) {
			q(foreign.GetKey(), ansForeign)
			continue
		}
		k := specKey(in.Specs[qi])
		if a, ok := ans1[k]; ok {
			q(k, a)
		}
	}
	out.coq = fmt.Sprintf("{| rpc_nodes := %s; rpc_setidx := %s; rpc_hash := %s; rpc_k := %s; rpc_scores := %s; rpc_queries := %s |}",
		vh.List(nodes), vh.List(setIdx), hashT, vh.Z(int64(in.K)), scoresT, vh.List(qs))
	out.nontriv = !anyPanic && !scorePanic && hexErr == nil && in.K >= 1 && in.K < n && len(set1) < n
	return out
}

// ---------- generators ----------

func randHex(r *vh.Rand, n int) string {
	b := make([]byte, n)
	for i := range b {
		b[i] = byte(r.Intn(256))
	}
	return hex.EncodeToString(b)
}

func idOf(pk string) []byte {
	pkb, _ := hex.DecodeString(pk)
	b, _ := hex.DecodeString(encryption.Hash(pkb))
	return b
}

func gen(r *vh.Rand, malformed bool) input {
	var in input
	hmode := r.Intn(2)
	n := r.Range(0, 12)
	if r.Chance(1, 8) {
		n = r.Range(13, 30)
	}
	mode := r.Intn(6) // 0-2: ids set as NewNode does; 3: none (magic-block decode path); 4: mixed; 5: short crafted ids
	for i := 0; i < n; i++ {
		s := nodeSpec{PK: randHex(r, 32)}
		switch mode {
		case 0, 1, 2:
			s.IDB = "id"
		case 3:
		case 4:
			if r.Bool() {
				s.IDB = "id"
			}
		default:
			s.IDB = hex.EncodeToString([]byte{[]byte{0, 1, 3, 7, 15, 255, 128, 85}[r.Intn(8)]})
		}
		in.Specs = append(in.Specs, s)
	}
	// hash: random, near one node's id (few differing bits), equal to an id, all zero / all ones
	switch r.Intn(6) {
	case 0, 1:
		in.Hash = randHex(r, 32)
	case 2:
		if n > 0 {
			b := idOf(in.Specs[r.Intn(n)].PK)
			for i := 0; i < r.Intn(6); i++ {
				b[r.Intn(32)] ^= 1 << uint(r.Intn(8))
			}
			in.Hash = hex.EncodeToString(b)
		} else {
			in.Hash = randHex(r, 32)
		}
	case 3:
		in.Hash = strings.Repeat("00", 32)
	case 4:
		in.Hash = strings.Repeat("ff", 32)
	default:
		in.Hash = randHex(r, 32)
	}
	ks := []int{-1, 0, 1, 1, 2, 2, 3, n - 1, n, n + 1, n + 5, n / 2}
	in.K = ks[r.Intn(len(ks))]
	if malformed {
		switch r.Intn(6) {
		case 0:
			in.Hash = "zz" + randHex(r, 31)
		case 1:
			in.Hash = randHex(r, 16) // shorter than the ids: index out of range in Score
		case 2:
			in.Hash = ""
		case 3:
			in.Hash = randHex(r, 64)
		case 4:
			if n > 0 { // the same public key added twice: AddNode replaces the node object
				d := in.Specs[r.Intn(n)]
				if r.Bool() {
					d.IDB = ""
				}
				in.Specs = append(in.Specs, d)
			}
		default:
			in.K = []int{-1 << 31, 1 << 30, -5}[r.Intn(3)]
		}
	}
	// AddNode history: 1/2 plain (every spec once into pool 0, shuffled); else a longer history over
	// two pools with re-adds of existing keys (same or new object) and node objects shared by both pools
	if hmode == 0 {
		for _, i := range r.Perm(len(in.Specs)) {
			in.Hist = append(in.Hist, addOp{P: 0, S: i, New: true})
		}
	} else {
		ns := len(in.Specs)
		for _, i := range r.Perm(ns) {
			if r.Chance(4, 5) {
				in.Hist = append(in.Hist, addOp{P: 0, S: i, New: true})
			}
		}
		for j := 0; j < r.Range(ns, 3*ns+2) && ns > 0; j++ {
			a := addOp{P: 0, S: r.Intn(ns), New: r.Chance(1, 3)}
			if r.Chance(2, 5) {
				a.P = 1
			}
			in.Hist = append(in.Hist, a)
		}
		// typical trouble: object goes to the other pool (its SetIndex is rewritten there), sometimes back
		for j := 0; j < r.Range(0, 3) && ns > 0; j++ {
			s := r.Intn(ns)
			in.Hist = append(in.Hist, addOp{P: 0, S: s}, addOp{P: 1, S: s})
			if r.Bool() {
				in.Hist = append(in.Hist, addOp{P: 0, S: s})
			}
		}
	}
	if r.Chance(1, 2) {
		for i := range in.Specs {
			if r.Chance(1, 3) {
				in.Local = append(in.Local, localState{S: i, Inactive: r.Chance(2, 3), Errors: int64(r.Intn(3)), Other: r.Bool()})
			}
		}
	}
	for i := 0; i < 3 && len(in.Specs) > 0; i++ {
		in.Queries = append(in.Queries, r.Intn(len(in.Specs)))
	}
	in.Queries = append(in.Queries, -1)
	return in
}

func key(in input) string {
	var b strings.Builder
	fmt.Fprintf(&b, "%s|%d", in.Hash, in.K)
	for _, n := range in.Specs {
		fmt.Fprintf(&b, "|%s,%s", n.PK, n.IDB)
	}
	for _, a := range in.Hist {
		fmt.Fprintf(&b, "|%d,%d,%v", a.P, a.S, a.New)
	}
	fmt.Fprintf(&b, "|%v", in.Local)
	return b.String()
}

func hasFail(o outcome, f string) bool {
	for _, x := range o.fails {
		if x == f {
			return true
		}
	}
	return false
}

func poolSize(in input) int {
	seen := map[string]bool{}
	for _, a := range in.Hist {
		if a.P == 0 && a.S >= 0 && a.S < len(in.Specs) {
			seen[in.Specs[a.S].PK] = true
		}
	}
	return len(seen)
}

func main() {
	o := vh.ParseFlags()
	sc.Init()
	rep := vh.NewReport("replicate", "C42", o)
	rep.Rule = "sharder pools of 0-30 nodes built by real Pool.AddNode histories (half: every node once in a shuffled order; half: histories over two pools with re-adds of existing keys by the same or a new object and node objects shared by both pools, so SetIndex fields are stale), each compared with fresh pools over the same key set in three insertion orders and with a clone; in half of the inputs a third of the node objects carry per-process state (Status inactive, error count, LastActiveTime, Info, Host/Port) and every answer is computed on that view and again after resetting it; ids set as NewNode does / never set " +
		"(magic-block decode path) / mixed / crafted 1-byte ids (dense ties); hashes random, a few bits from a node id, all-zero, all-one; k in {-1,0,1,2,3,n/2,n-1,n,n+1,n+5}; " +
		"malformed stream: non-hex, short (panic), empty, long hashes, repeated public key, extreme k; exhaustive: all multisets of <=4 one-byte ids x k=0..5; " +
		"non-trivial = valid hash, 1 <= k < n and a proper subset of the sharders chosen; distinct by node list, hash and k"
	cf := &vh.CasesFile{Imports: []string{"Base.Corr", "Model.Replicate", "Corr.Replicate"}, CaseType: "rp_case", CheckFn: "rp_check", Shard: 40}
	w := &world{c: chain.Provider().(*chain.Chain)}

	handle := func(in input, toCoq bool) {
		res := run(w, in)
		for k, n := range res.kinds {
			rep.CountN(k, n)
		}
		rep.Case(key(in), res.nontriv, in)
		if toCoq {
			cf.Add(res.coq)
			rep.CaseInputs = append(rep.CaseInputs, in)
		}
		for _, failKind := range res.fails {
			mk := func(keep []int) input {
				in2 := in
				in2.Hist = nil
				for _, i := range keep {
					in2.Hist = append(in2.Hist, in.Hist[i])
				}
				in2.Queries = []int{-1}
				for i := range in2.Specs {
					in2.Queries = append(in2.Queries, i)
				}
				return in2
			}
			keep := vh.ShrinkIdx(len(in.Hist), func(keep []int) bool { return hasFail(run(w, mk(keep)), failKind) })
			in2 := mk(keep)
			// drop the specs the kept history does not mention
			used := map[int]int{}
			var specs []nodeSpec
			for i := range in2.Hist {
				s := in2.Hist[i].S
				if _, ok := used[s]; !ok {
					used[s] = len(specs)
					specs = append(specs, in2.Specs[s])
				}
				in2.Hist[i].S = used[s]
			}
			in2.Specs = specs
			in2.Queries = []int{-1}
			for i := range specs {
				in2.Queries = append(in2.Queries, i)
			}
			if !hasFail(run(w, in2), failKind) {
				in2 = mk(keep)
			}
			rep.Violate("C42:"+failKind, "replicating sharders: "+failKind, in2)
		}
	}
	finish := func() {
		files, err := cf.Write(o.Out, "C42")
		if err != nil {
			panic(err)
		}
		rep.CaseFiles = files
		rep.ShardSize = 40
		rep.Write(o.Out)
	}
	var rin input
	if o.LoadReplay(&rin) {
		rep.Note("replay of one input")
		handle(rin, true)
		finish()
		return
	}
	rnd := vh.NewRand(o.Seed)
	// pools above 12 nodes go to the oracle always, to the model only every 10th (large literals are slow to type-check)
	for i := 0; i < o.N(300, 3000); i++ {
		in := gen(rnd, false)
		handle(in, i < o.N(170, 1700) && (poolSize(in) <= 12 && len(in.Hist) <= 40 || i%10 == 0))
	}
	for i := 0; i < o.N(100, 1000); i++ {
		in := gen(rnd, true)
		handle(in, i < o.N(60, 600) && (poolSize(in) <= 12 && len(in.Hist) <= 40 || i%10 == 0))
	}
	// exhaustive small scope: multisets of at most 4 one-byte ids (scores 0,1,2,3,8 against hash 00), k = 0..5
	ids := []string{"00", "01", "03", "07", "ff"}
	nExh := 0
	var rec func(start int, cur []string)
	rec = func(start int, cur []string) {
		if len(cur) > 0 {
			for k := 0; k <= 5; k++ {
				in := input{Hash: "00", K: k, Queries: []int{-1}}
				for i, idb := range cur {
					in.Specs = append(in.Specs, nodeSpec{PK: fmt.Sprintf("%064x", 1000+nExh*7+i), IDB: idb})
					in.Queries = append(in.Queries, i)
				}
				for _, j := range rnd.Perm(len(in.Specs)) {
					in.Hist = append(in.Hist, addOp{P: 0, S: j, New: true})
				}
				nExh++
				handle(in, nExh%o.N(8, 2) == 0)
			}
		}
		if len(cur) == 4 {
			return
		}
		for i := start; i < len(ids); i++ {
			rec(i, append(append([]string{}, cur...), ids[i]))
		}
	}
	rec(0, nil)
	rep.Note("exhaustive: %d inputs = all multisets of 1-4 one-byte ids out of %v (scores 0,1,2,3,8) x k=0..5, checked by the oracle; every %d-th also compared with the model", nExh, ids, o.N(8, 2))
	finish()
}
