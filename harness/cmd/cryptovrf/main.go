// Engine for C33: real DKG keys (chaincore/threshold/bls), real VRF share signing, the real
// admission path of package miner (mc.AddVRFShare -> verifyVRFShare -> Round.AddVRFShare ->
// ThresholdNumBLSSigReceived -> CalBlsGpSign -> computeRoundRandomSeed) for several miners'
// views of the same round fed with different subsets and orders of valid and invalid shares.
// Oracle = the property: only verified shares counted, one per miner, no seed below t, all
// views that complete derive the same seed (the hash of the group signature).
package main

import (
	"context"
	"fmt"
	"math/big"
	"sort"
	"strconv"
	"strings"

	"0chain.net/chaincore/block"
	"0chain.net/chaincore/node"
	"0chain.net/chaincore/round"
	"0chain.net/chaincore/threshold/bls"
	"0chain.net/chaincore/transaction"
	"0chain.net/core/encryption"
	"0chain.net/smartcontract/minersc"
	"verifharness/cryptoh"
	"verifharness/sc"
	"verifharness/vh"
)

type ev struct {
	Miner int    `json:"miner"` // index of the sending miner; -1 = a registered node outside the magic block
	Kind  string `json:"kind"`  // valid | othermsg | otherkey | garbage | zero | sum
	TC    int    `json:"tc"`    // RoundTimeoutCount field of the share minus the round's current timeout count
}

type view struct {
	Self int    `json:"self"`
	Evs  []ev   `json:"evs"`            // shares arriving before any restart
	More [][]ev `json:"more,omitempty"` // per later phase: Round.Restart + IncrementTimeoutCount, then these shares
}

type scen struct {
	T         int    `json:"t"`
	N         int    `json:"n"`
	WorldSeed uint64 `json:"world_seed"`
	Round     int64  `json:"round"`
	Timeout   int    `json:"timeout"`
	PrevSeed  int64  `json:"prev_seed"`
	Views     []view `json:"views"`
	// Lens, when set, makes this a "contribute" scenario: miner j publishes a public polynomial with
	// Lens[j] coefficients through the real minersc contributeMpk (-1 = a sender outside the DKG set;
	// an index listed twice in Again contributes a second time); the accepted ones form the DKG.
	Lens  []int `json:"lens,omitempty"`
	Again []int `json:"again,omitempty"`
	// Reagg, when set, makes this a "re-aggregation" scenario: every party's DKG object is aggregated
	// for the first N parties, then the set changes (ops) and the SAME objects are aggregated again;
	// they must agree with objects built freshly from the final set.
	Reagg []reop `json:"reagg,omitempty"`
}

// reop is one membership change before the second aggregation.
type reop struct {
	Op string `json:"op"` // drop | replace (the party draws a new polynomial) | add (a new party joins)
	P  int    `json:"p"`  // party index (drop, replace)
}

type outcome struct {
	fails []string // oracle failure kinds
	descs map[string]string
	hist  map[string]int
	coq   []string
}

func (o *outcome) fail(kind, desc string) {
	if _, ok := o.descs[kind]; !ok {
		o.fails = append(o.fails, kind)
		o.descs[kind] = desc
	}
}

var groupOrder, _ = new(big.Int).SetString("16798108731015832284940804142231733909759579603404752749028378864165570215949", 10)

func lagrangeHints(idHex []string) string {
	if len(idHex) < 2 {
		return "[]"
	}
	xs := make([]*big.Int, len(idHex))
	for i, h := range idHex {
		xs[i], _ = new(big.Int).SetString(h, 16)
	}
	var out []string
	for i := range xs {
		num, den := big.NewInt(1), big.NewInt(1)
		for j := range xs {
			if xs[j].Cmp(xs[i]) == 0 {
				continue
			}
			num.Mod(num.Mul(num, xs[j]), groupOrder)
			d := new(big.Int).Sub(xs[j], xs[i])
			den.Mod(den.Mul(den, d.Mod(d, groupOrder)), groupOrder)
		}
		inv := new(big.Int).ModInverse(den, groupOrder)
		if inv == nil {
			inv = big.NewInt(0)
		}
		out = append(out, fmt.Sprintf("0x%x", num.Mod(num.Mul(num, inv), groupOrder)))
	}
	return vh.List(out)
}

func zx(h string) string { return "0x" + h }

func partyHex(minerID string) string {
	id := bls.ComputeIDdkg(minerID)
	return id.GetHexString()
}

func seedOf(sigHex string) int64 {
	rbo := encryption.Hash(sigHex)
	u, err := strconv.ParseUint(rbo[0:16], 16, 64)
	if err != nil {
		panic(err)
	}
	return int64(u)
}

var worlds = map[string]*cryptoh.World{}

func world(t, n int, seed uint64) *cryptoh.World {
	k := fmt.Sprintf("%d/%d/%d", t, n, seed)
	if w, ok := worlds[k]; ok {
		return w
	}
	w := cryptoh.NewWorld(t, n, seed)
	worlds[k] = w
	return w
}

var strangers = map[uint64]*cryptoh.Miner{}

func stranger(seed uint64) *cryptoh.Miner {
	if s, ok := strangers[seed]; ok {
		return s
	}
	var s *cryptoh.Miner
	cryptoh.WithRand(seed^0x5eed, func() { s = cryptoh.NewMinerKey(node.NodeTypeSharder, 9000) })
	strangers[seed] = s
	return s
}

// run executes one scenario; a panic of the code under test is reported as a failure.
func run(s scen) (res *outcome) {
	defer func() {
		if r := recover(); r != nil {
			res = &outcome{descs: map[string]string{}, hist: map[string]int{}}
			res.fail("node-panics", fmt.Sprintf("the code under test panicked: %v", r))
		}
	}()
	return run1(s)
}

func run1(s scen) *outcome {
	if len(s.Lens) > 0 {
		return runContribute(s)
	}
	if len(s.Reagg) > 0 {
		return runReagg(s)
	}
	o := &outcome{descs: map[string]string{}, hist: map[string]int{}}
	w := world(s.T, s.N, s.WorldSeed)
	// hypothesis of the model
	seenID := map[string]bool{}
	for _, id := range w.IDs {
		d := id.GetDecString()
		if d == "0" || seenID[d] {
			o.fail("party-ids-collide", "generated miner ids give equal or zero party ids")
		}
		seenID[d] = true
	}
	var refMsg string
	seedByMsg := map[string]int64{}
	for vi, vw := range s.Views {
		v := w.NewView(vw.Self, true, 66)
		rn := s.Round
		pr := v.MC.AddRound(v.MC.CreateRound(round.NewRound(rn - 1)))
		if s.PrevSeed != 0 && !v.MC.SetRandomSeed(pr, s.PrevSeed) {
			panic("cannot set previous seed")
		}
		v.MC.AddRound(v.MC.CreateRound(round.NewRound(rn)))
		v.C.SetCurrentRound(rn + 1)
		mr := v.MC.GetMinerRound(rn)
		if s.Timeout > 0 {
			mr.SetTimeoutCount(s.Timeout)
		}
		phases := append([][]ev{vw.Evs}, vw.More...)
		for pi, evs := range phases {
			if pi > 0 {
				// what restartRound does when the round times out: drop the collected shares, move to the
				// next timeout count (the message changes), then shares are sent again
				if err := mr.Restart(); err != nil {
					o.hist["restart-refused"]++
					break
				}
				mr.IncrementTimeoutCount(s.PrevSeed, v.C.GetMiners(rn))
				o.hist["restart"]++
			}
			curTC := mr.GetTimeoutCount()
			msg, err := v.MC.GetBlsMessageForRound(mr.Round)
			if err != nil {
				o.hist["no-message"]++
				break
			}
			if pi > 0 {
				// nothing to compare: the timeout count after a restart depends on the votes seen
			} else if vi == 0 {
				refMsg = msg
			} else if msg != refMsg {
				o.fail("message-differs-between-views", fmt.Sprintf("%q vs %q", refMsg, msg))
			}
			otherMsg := fmt.Sprintf("%v%v%v", rn+1, curTC, strconv.FormatInt(s.PrevSeed, 16))
			// the view's own share through the real GetBlsShare
			own, err := v.MC.GetBlsShare(context.Background(), mr.Round)
			if err != nil || own != w.DKGs[vw.Self].Sign(msg).GetHexString() {
				o.fail("own-share-not-dkg-signature", fmt.Sprintf("GetBlsShare of miner %d: %v", vw.Self, err))
			}
			gsig := w.GSK.Sign(msg)
			expSeed := seedOf(gsig.GetHexString())

			validSeen := map[int]bool{} // miners whose valid share (right tc) has arrived
			var coqEvs, coqOks []string
			var accOrder []int
			for ei, e := range evs {
				var party *node.Node
				var signer int
				if e.Miner >= 0 {
					party = w.Miners[e.Miner].Node
					signer = e.Miner
				} else {
					party = stranger(s.WorldSeed).Node
					signer = 0
				}
				var share string
				dlog := "None"
				isValid := false
				switch e.Kind {
				case "valid":
					share = w.DKGs[signer].Sign(msg).GetHexString()
					dlog = "(Some " + zx(w.DKGs[signer].Si.GetHexString()) + ")"
					isValid = e.Miner >= 0
				case "othermsg":
					share = w.DKGs[signer].Sign(otherMsg).GetHexString()
				case "otherkey":
					o2 := (signer + 1) % s.N
					share = w.DKGs[o2].Sign(msg).GetHexString()
					dlog = "(Some " + zx(w.DKGs[o2].Si.GetHexString()) + ")"
					isValid = e.Miner >= 0 && w.DKGs[o2].Si.IsEqual(&w.DKGs[signer].Si)
				case "garbage":
					share = "zz not hex"
				case "zero":
					share = "0"
					dlog = "(Some 0x0)"
				case "sum":
					o2 := (signer + 1) % s.N
					sg := w.DKGs[signer].Sign(msg)
					sg.Add(w.DKGs[o2].Sign(msg))
					share = sg.GetHexString()
					var k bls.Key
					k = w.DKGs[signer].Si
					k.Add(&w.DKGs[o2].Si)
					dlog = "(Some " + zx(k.GetHexString()) + ")"
					isValid = false
				}
				vrfs := &round.VRFShare{Round: rn, Share: share, RoundTimeoutCount: curTC + e.TC}
				vrfs.SetParty(party)
				before := len(mr.GetVRFShares())
				ok := v.MC.AddVRFShare(context.Background(), mr, vrfs)
				o.hist[fmt.Sprintf("add-%s-%v", e.Kind, ok)]++
				tcOK := e.TC == 0
				if isValid && tcOK && e.Miner >= 0 {
					validSeen[e.Miner] = true
				}
				if ok {
					accOrder = append(accOrder, e.Miner)
					if !isValid || !tcOK {
						o.fail("invalid-share-counted", fmt.Sprintf("view %d event %d (%+v) was admitted", vi, ei, e))
					}
				}
				// state oracle after every step
				shares := mr.GetVRFShares()
				if len(shares) > s.T {
					o.hist["more-than-t-shares"]++ // not part of the property; the model comparison reports it
				}
				if ok != (len(shares) == before+1) {
					o.fail("add-result-inconsistent", fmt.Sprintf("view %d event %d: result %v, shares %d -> %d", vi, ei, ok, before, len(shares)))
				}
				for key, sh := range shares {
					idx := -1
					for i, m := range w.Miners {
						if m.ID == key {
							idx = i
						}
					}
					if idx < 0 || sh.Share != w.DKGs[idx].Sign(msg).GetHexString() {
						o.fail("invalid-share-counted", fmt.Sprintf("view %d holds a share under key %s that is not that miner's signature on the round message", vi, key))
					}
				}
				if mr.HasRandomSeed() && len(validSeen) < s.T {
					o.fail("seed-below-t", fmt.Sprintf("view %d has a seed after %d valid shares, t=%d", vi, len(validSeen), s.T))
				}
				coqEvs = append(coqEvs, fmt.Sprintf("(Build_vzc_ev %s %s %s)", vh.Bool(tcOK), zx(partyHex(party.ID)), dlog))
				coqOks = append(coqOks, vh.Bool(ok))
			}
			// end of stream
			complete := mr.IsVRFComplete()
			o.hist[fmt.Sprintf("view-complete-%v", complete)]++
			seedTerm := "None"
			var hints string = "[]"
			if len(validSeen) >= s.T && !complete {
				o.fail("no-seed-at-threshold", fmt.Sprintf("view %d received %d valid shares (t=%d) and has no seed", vi, len(validSeen), s.T))
			}
			if complete {
				got := mr.GetRandomSeed()
				if prev, ok := seedByMsg[msg]; ok && prev != got {
					o.fail("seed-disagreement", fmt.Sprintf("two views derived different seeds %d and %d for the message %q", prev, got, msg))
				}
				seedByMsg[msg] = got
				if got != expSeed {
					o.fail("seed-disagreement", fmt.Sprintf("view %d derived seed %d, the group signature gives %d", vi, got, expSeed))
				}
				if mr.GetVRFOutput() != encryption.Hash(gsig.GetHexString()) {
					o.fail("seed-disagreement", fmt.Sprintf("view %d VRF output is not the hash of the group signature", vi))
				}
				// witness for the model: scalar recovery over the admitted miners
				var sks []bls.Key
				var idv []bls.PartyID
				var idh []string
				for _, mi := range accOrder {
					if mi >= 0 {
						sks = append(sks, w.DKGs[mi].Si)
						idv = append(idv, w.IDs[mi])
						idh = append(idh, w.IDs[mi].GetHexString())
					}
				}
				var wk bls.Key
				if len(sks) > 0 && wk.Recover(sks, idv) == nil && encryption.Hash(wk.Sign(msg).GetHexString()) == mr.GetVRFOutput() {
					seedTerm = "(Some " + zx(wk.GetHexString()) + ")"
					hints = lagrangeHints(idh)
				} else {
					seedTerm = "(Some 0x0)" // a seed that is not explained by the admitted shares
					o.fail("seed-not-from-admitted-shares", fmt.Sprintf("view %d", vi))
				}
			}
			var mem []string
			for i := range w.Miners {
				mem = append(mem, "("+zx(w.IDs[i].GetHexString())+", "+zx(w.DKGs[i].Si.GetHexString())+")")
			}
			var adm []string
			for key := range mr.GetVRFShares() {
				adm = append(adm, zx(partyHex(key)))
			}
			sort.Strings(adm)
			o.coq = append(o.coq, fmt.Sprintf("(Build_vzc_case (%s) (%s) (%s) (%s) (%s) (%s) (%s) (%s) (%s) (%s) (%s) (%s) ([]) ([]))",
				vh.Nat(s.T), vh.Z(rn), vh.Z(int64(curTC)), vh.Z(s.PrevSeed), vh.Str(msg), vh.List(mem), zx(w.GSK.GetHexString()),
				vh.List(coqEvs), vh.List(coqOks), vh.List(adm), hints, seedTerm))
		}
		v.Close()
	}
	return o
}

// ---------- contributeMpk -> DKG -> seed from every t-subset ----------

func subsets(n, k, limit int, r *vh.Rand) [][]int {
	var out [][]int
	var rec func(start int, cur []int)
	rec = func(start int, cur []int) {
		if len(out) >= limit {
			return
		}
		if len(cur) == k {
			out = append(out, append([]int{}, cur...))
			return
		}
		for i := start; i < n; i++ {
			rec(i+1, append(cur, i))
		}
	}
	rec(0, nil)
	return out
}

func runContribute(s scen) *outcome {
	o := &outcome{descs: map[string]string{}, hist: map[string]int{}}
	T, N := s.T, s.N
	type mn struct {
		id     string
		pid    bls.PartyID
		dkg    *bls.DKG
		member bool
		ok     bool
	}
	var ms []*mn
	cryptoh.WithRand(s.WorldSeed, func() {
		for j, l := range s.Lens {
			id := encryption.Hash(fmt.Sprintf("contribute %d miner %d", s.WorldSeed, j))
			m := &mn{id: id, pid: bls.ComputeIDdkg(id), member: l >= 0}
			if l < 0 {
				l = T
			}
			if l < 1 {
				l = 1
			}
			m.dkg = bls.MakeDKG(l, N, id)
			ms = append(ms, m)
		}
	})
	mpt := sc.NewMPT()
	balances := sc.NewCtx(mpt, 100, nil)
	if _, err := balances.InsertTrieNode(minersc.GlobalNodeKey, &minersc.GlobalNode{}); err != nil {
		panic(err)
	}
	pn := &minersc.PhaseNode{Phase: minersc.Contribute, StartRound: 90, CurrentRound: 100}
	if _, err := balances.InsertTrieNode(pn.GetKey(), pn); err != nil {
		panic(err)
	}
	dmn := minersc.NewDKGMinerNodes()
	dmn.T, dmn.K, dmn.N = T, T, N
	for _, m := range ms {
		if m.member {
			sn := &minersc.SimpleNode{}
			sn.ID = m.id
			dmn.SimpleNodes[m.id] = sn
		}
	}
	if _, err := balances.InsertTrieNode(minersc.DKGMinersKey, dmn); err != nil {
		panic(err)
	}
	msc := minersc.NewMinerSmartContract()
	var coqM []string
	contribute := func(j int) {
		m := ms[j]
		mpk := &block.MPK{ID: m.id}
		for _, pk := range m.dkg.GetMPKs() {
			mpk.Mpk = append(mpk.Mpk, pk.GetHexString())
		}
		txn := &transaction.Transaction{ClientID: m.id}
		_, err := msc.Execute(txn, "contributeMpk", mpk.Encode(), balances)
		had := m.ok
		acc := err == nil
		o.hist[fmt.Sprintf("contribute-len%+d-%v", len(mpk.Mpk)-T, acc)]++
		if acc && len(mpk.Mpk) != T {
			o.fail("mpk-of-wrong-length-accepted", fmt.Sprintf("contributeMpk accepted a public polynomial with %d coefficients, T=%d", len(mpk.Mpk), T))
		}
		if acc && (!m.member || had) {
			o.fail("mpk-of-wrong-sender-accepted", fmt.Sprintf("contributeMpk accepted miner %d (in the DKG set: %v, already contributed: %v)", j, m.member, had))
		}
		if !acc && m.member && !had && len(mpk.Mpk) == T {
			o.fail("valid-mpk-rejected", fmt.Sprintf("contributeMpk rejected a first polynomial with T=%d coefficients of a DKG miner: %v", T, err))
		}
		if acc {
			m.ok = true
		}
		coqM = append(coqM, fmt.Sprintf("((%s, %s), (%s, %s))", vh.Bool(m.member), vh.Bool(had), vh.Nat(len(mpk.Mpk)), vh.Bool(acc)))
	}
	for j := range ms {
		contribute(j)
	}
	for _, j := range s.Again {
		if j < len(ms) {
			contribute(j)
		}
	}
	o.coq = append(o.coq, fmt.Sprintf("(Build_vzc_case (%s) (0) (0) (0) (%s) ([]) (0) ([]) ([]) ([]) ([]) (None) (%s) ([]))",
		vh.Nat(T), vh.Str("000"), vh.List(coqM)))

	// what the chain recorded defines the DKG instance
	mpks := block.NewMpks()
	if err := balances.GetTrieNode(minersc.MinersMPKKey, mpks); err != nil {
		o.hist["no-mpks-recorded"]++
		return o
	}
	var qual []*mn
	for _, m := range ms {
		if _, ok := mpks.Mpks[m.id]; ok {
			qual = append(qual, m)
		}
	}
	if len(qual) < T {
		o.hist["fewer-than-t-qualified"]++
		return o
	}
	mpkMap, err := mpks.GetMpkMap()
	if err != nil {
		panic(err)
	}
	nodes := make([]*bls.DKG, len(qual))
	cryptoh.WithRand(s.WorldSeed+1, func() {
		for i, m := range qual {
			d := bls.MakeDKG(T, N, m.id) // as SetDKGSFromStore: MakeDKG(mb.T, mb.N, self)
			for _, from := range qual {
				sij, err := from.dkg.ComputeDKGKeyShare(m.pid)
				if err != nil {
					panic(err)
				}
				if !d.ValidateShare(mpkMap[from.pid], sij) {
					o.fail("share-of-recorded-mpk-rejected", "a share derived from a recorded polynomial does not validate")
				}
				if err := d.AddSecretShare(from.pid, sij.GetHexString(), false); err != nil {
					panic(err)
				}
			}
			d.AggregateSecretKeyShares()
			if err := d.AggregatePublicKeyShares(mpkMap); err != nil {
				panic(err)
			}
			nodes[i] = d
		}
	})
	msg := fmt.Sprintf("%v%v%v", s.Round, s.Timeout, strconv.FormatInt(s.PrevSeed, 16))
	sigs := make([]string, len(qual))
	idh := make([]string, len(qual))
	for i, m := range qual {
		sg := nodes[i].Sign(msg)
		sigs[i] = sg.GetHexString()
		idh[i] = m.pid.GetHexString()
		for h := range qual {
			if !nodes[h].VerifySignature(sg, msg, m.pid) {
				o.fail("share-of-qualified-miner-rejected", fmt.Sprintf("VRF share of qualified miner %d rejected by miner %d", i, h))
			}
		}
	}
	sets := subsets(len(qual), T, 80, nil)
	all := make([]int, len(qual))
	for i := range all {
		all[i] = i
	}
	sets = append(sets, all)
	var first int64
	var firstSet []int
	for k, set := range sets {
		var sg, from []string
		for _, i := range set {
			sg = append(sg, sigs[i])
			from = append(from, idh[i])
		}
		gs, err := nodes[k%len(nodes)].CalBlsGpSign(sg, from)
		if err != nil {
			o.fail("recovery-failed", err.Error())
			continue
		}
		sd := seedOf(gs.GetHexString())
		o.hist["subset-seeds"]++
		if k == 0 {
			first, firstSet = sd, set
		} else if sd != first {
			o.fail("seed-depends-on-share-subset", fmt.Sprintf("verified shares of miners %v give seed %d, of miners %v seed %d (T=%d, %d qualified)", firstSet, first, set, sd, T, len(qual)))
		}
	}
	return o
}

// ---------- one DKG object aggregated twice with different sets vs a fresh object ----------

func runReagg(s scen) *outcome {
	o := &outcome{descs: map[string]string{}, hist: map[string]int{}}
	T, N := s.T, s.N
	type party struct {
		id     string
		pid    bls.PartyID
		dealer *bls.DKG // holds the party's polynomial
		reused *bls.DKG // the object that lives through both aggregations
		in     bool
	}
	var ps []*party
	mk := func(j int, gen int) *party {
		id := encryption.Hash(fmt.Sprintf("reagg %d party %d", s.WorldSeed, j))
		d := bls.MakeDKG(T, N, id)
		return &party{id: id, pid: bls.ComputeIDdkg(id), dealer: d, reused: bls.MakeDKG(T, N, id), in: true}
	}
	mpkMapOf := func() map[bls.PartyID][]bls.PublicKey {
		m := map[bls.PartyID][]bls.PublicKey{}
		for _, p := range ps {
			if p.in {
				m[p.pid] = p.dealer.GetMPKs()
			}
		}
		return m
	}
	aggregate := func(get func(*party) *bls.DKG, force bool) {
		mm := mpkMapOf()
		for _, p := range ps {
			if !p.in {
				continue
			}
			d := get(p)
			for _, from := range ps {
				if !from.in {
					continue
				}
				sh, err := from.dealer.ComputeDKGKeyShare(p.pid)
				if err != nil {
					panic(err)
				}
				if !d.ValidateShare(mm[from.pid], sh) {
					o.fail("honest-share-rejected", "a share of the final set does not validate")
				}
				if err := d.AddSecretShare(from.pid, sh.GetHexString(), force); err != nil {
					panic(err)
				}
			}
			if err := d.AggregatePublicKeyShares(mm); err != nil {
				panic(err)
			}
			d.AggregateSecretKeyShares()
		}
	}
	var oldSig = map[int]string{}
	msg := fmt.Sprintf("%v%v%v", s.Round, s.Timeout, strconv.FormatInt(s.PrevSeed, 16))
	var fresh = map[*party]*bls.DKG{}
	cryptoh.WithRand(s.WorldSeed, func() {
		for j := 0; j < N; j++ {
			ps = append(ps, mk(j, 0))
		}
		aggregate(func(p *party) *bls.DKG { return p.reused }, false)
		for j, p := range ps {
			oldSig[j] = p.reused.Sign(msg).GetHexString() // a share under the key of the first aggregation
		}
		// the set changes (view change Wait step retried): drop / replace / add
		var dropped []string
		for _, op := range s.Reagg {
			switch op.Op {
			case "drop":
				if op.P < len(ps) && ps[op.P].in {
					ps[op.P].in = false
					dropped = append(dropped, ps[op.P].id)
				}
			case "replace":
				if op.P < len(ps) && ps[op.P].in {
					ps[op.P].dealer = bls.MakeDKG(T, N, ps[op.P].id)
				}
			case "add":
				ps = append(ps, mk(len(ps), 1))
			}
			o.hist["reagg-"+op.Op]++
		}
		for _, p := range ps {
			if p.in {
				p.reused.DeleteFromSet(dropped)
			}
		}
		aggregate(func(p *party) *bls.DKG { return p.reused }, true)
		// fresh objects from the final set (what SetDKGSFromStore builds)
		for _, p := range ps {
			if p.in {
				fresh[p] = bls.MakeDKG(T, N, p.id)
			}
		}
		aggregate(func(p *party) *bls.DKG { return fresh[p] }, false)
	})
	var final []*party
	for _, p := range ps {
		if p.in {
			final = append(final, p)
		}
	}
	if len(final) < T {
		o.hist["reagg-fewer-than-t"]++
		return o
	}
	// per-party keys, verdicts and seeds of the reused objects against the fresh ones
	var coqR []string
	for _, p := range final {
		if !p.reused.Si.IsEqual(&fresh[p].Si) {
			o.fail("reaggregated-dkg-secret-differs-from-fresh", fmt.Sprintf("party %s..: the aggregated secret of the reused object differs from a fresh object's", p.id[:8]))
		}
	}
	for vi, v := range final {
		for qi, q := range ps {
			pkR, pkF := v.reused.GetPublicKeyByID(q.pid), fresh[v].GetPublicKeyByID(q.pid)
			if !pkR.IsEqual(&pkF) {
				o.fail("reaggregated-dkg-key-share-differs-from-fresh", fmt.Sprintf("view of party %d: the public key share held for party %d (in final set: %v) differs between the object aggregated twice and a fresh object", vi, qi, q.in))
			}
			// genuine share of the final DKG, and a share under the key of the first aggregation
			shares := map[string]string{"old": oldSig[qi]}
			if q.in {
				shares["genuine"] = fresh[q].Sign(msg).GetHexString()
			}
			for kind, hx := range shares {
				if hx == "" {
					continue
				}
				var sg bls.Sign
				if err := sg.SetHexString(hx); err != nil {
					panic(err)
				}
				vr, vf := v.reused.VerifySignature(&sg, msg, q.pid), fresh[v].VerifySignature(&sg, msg, q.pid)
				o.hist[fmt.Sprintf("reagg-verdict-%s-%v", kind, vf)]++
				if vr != vf {
					o.fail("reaggregated-dkg-verdict-differs-from-fresh", fmt.Sprintf("view of party %d: a %s share of party %d is judged %v by the object aggregated twice and %v by a fresh object", vi, kind, qi, vr, vf))
				}
				if kind == "genuine" && !vf {
					o.fail("share-of-qualified-miner-rejected", fmt.Sprintf("fresh view %d rejects the genuine share of party %d", vi, qi))
				}
			}
		}
		// seed from the first T shares each object counts
		seedVia := func(d *bls.DKG) (int64, bool) {
			var sg, from []string
			for qi, q := range ps {
				cands := []string{oldSig[qi]}
				if q.in {
					cands = append(cands, fresh[q].Sign(msg).GetHexString())
				}
				for _, hx := range cands {
					var x bls.Sign
					if hx == "" || x.SetHexString(hx) != nil || !d.VerifySignature(&x, msg, q.pid) {
						continue
					}
					sg = append(sg, hx)
					from = append(from, q.pid.GetHexString())
					break
				}
				if len(sg) == T {
					break
				}
			}
			if len(sg) < T {
				return 0, false
			}
			gs, err := d.CalBlsGpSign(sg, from)
			if err != nil {
				return 0, false
			}
			return seedOf(gs.GetHexString()), true
		}
		sr, okr := seedVia(v.reused)
		sf, okf := seedVia(fresh[v])
		if okr != okf || sr != sf {
			o.fail("reaggregated-dkg-seed-differs-from-fresh", fmt.Sprintf("view of party %d: T counted shares give seed %d (%v) with the object aggregated twice and %d (%v) with a fresh object", vi, sr, okr, sf, okf))
		}
		// for the model: the aggregated secret is a function of the final dealer set
		var css []string
		for _, q := range final {
			var cs []string
			for _, c := range q.dealer.VerifMsk() {
				cs = append(cs, zx(c.GetHexString()))
			}
			css = append(css, vh.List(cs))
		}
		pkOK := v.reused.GetPublicKeyByID(v.pid)
		coqR = append(coqR, fmt.Sprintf("((%s, %s), (%s, %s))", vh.List(css), zx(v.pid.GetHexString()), zx(v.reused.Si.GetHexString()), vh.Bool(pkOK.IsEqual(v.reused.Si.GetPublicKey()))))
		if vi >= 1 {
			coqR = coqR[:len(coqR)-1] // one party per scenario goes to the model
		}
	}
	o.coq = append(o.coq, fmt.Sprintf("(Build_vzc_case (%s) (0) (0) (0) (%s) ([]) (0) ([]) ([]) ([]) ([]) (None) ([]) (%s))",
		vh.Nat(T), vh.Str("000"), vh.List(coqR)))
	return o
}

// ---------- generation ----------

var badKinds = []string{"othermsg", "otherkey", "garbage", "zero", "sum"}

func genPhase(r *vh.Rand, t, n int) []ev {
	var v view
	mode := r.Intn(5)
	perm := r.Perm(n)
	k := n
	switch mode {
	case 0: // exactly t valid shares
		k = t
	case 1: // fewer than t
		k = r.Intn(t)
	case 2: // all miners
	default:
		k = r.Range(t, n)
	}
	for _, mi := range perm[:k] {
		// invalid noise before / instead / after the valid share of this miner
		if r.Chance(1, 3) {
			v.Evs = append(v.Evs, ev{mi, badKinds[r.Intn(len(badKinds))], 0})
		}
		if r.Chance(1, 8) {
			v.Evs = append(v.Evs, ev{mi, "valid", 1 + r.Intn(2)}) // share of a later timeout
		}
		v.Evs = append(v.Evs, ev{mi, "valid", 0})
		if r.Chance(1, 5) {
			v.Evs = append(v.Evs, ev{mi, "valid", 0}) // duplicate
		}
		if r.Chance(1, 6) {
			v.Evs = append(v.Evs, ev{-1, []string{"valid", "zero", "garbage"}[r.Intn(3)], 0})
		}
	}
	if mode == 1 {
		// pad with invalid shares up to and beyond t events
		for i := 0; i < t+2; i++ {
			v.Evs = append(v.Evs, ev{perm[r.Intn(n)], badKinds[r.Intn(len(badKinds))], 0})
		}
	}
	return v.Evs
}

// stalePhase: fewer than t valid shares (the round then times out and restarts).
func stalePhase(r *vh.Rand, t, n int) []ev {
	var evs []ev
	for _, mi := range r.Perm(n)[:r.Intn(t)] {
		evs = append(evs, ev{mi, "valid", 0})
		if r.Chance(1, 4) {
			evs = append(evs, ev{mi, badKinds[r.Intn(len(badKinds))], 0})
		}
	}
	return evs
}

func genView(r *vh.Rand, t, n int) view {
	v := view{Self: r.Intn(n)}
	switch r.Intn(3) {
	case 0: // no restart
		v.Evs = genPhase(r, t, n)
	case 1: // one or two timeouts with stale shares, then a normal phase
		v.Evs = stalePhase(r, t, n)
		if r.Chance(1, 3) {
			v.More = append(v.More, stalePhase(r, t, n))
		}
		v.More = append(v.More, genPhase(r, t, n))
	default: // restart after any phase (possibly after the VRF completed)
		v.Evs = genPhase(r, t, n)
		v.More = append(v.More, genPhase(r, t, n))
	}
	return v
}

func gen(r *vh.Rand, t, n int, wseed uint64) scen {
	s := scen{T: t, N: n, WorldSeed: wseed, Round: int64(r.Range(2, 5000))}
	switch r.Intn(6) {
	case 0:
		s.Round = 11
	case 1:
		s.Round = 1 << 40
	}
	s.Timeout = []int{0, 0, 0, 1, 2, 12}[r.Intn(6)]
	s.PrevSeed = int64(r.U64())
	switch r.Intn(6) {
	case 0:
		s.PrevSeed = 1
	case 1:
		s.PrevSeed = -1
	case 2:
		s.PrevSeed = 9223372036854775807
	case 3:
		s.PrevSeed = -9223372036854775808
	}
	nv := r.Range(2, 3)
	for i := 0; i < nv; i++ {
		s.Views = append(s.Views, genView(r, t, n))
	}
	return s
}

func key(s scen) string {
	var b strings.Builder
	fmt.Fprintf(&b, "%d|%d|%d|%d|%d|%d|%v|%v|%v", s.T, s.N, s.WorldSeed, s.Round, s.Timeout, s.PrevSeed, s.Lens, s.Again, s.Reagg)
	for _, v := range s.Views {
		fmt.Fprintf(&b, "|%d:%v:%v", v.Self, v.Evs, v.More)
	}
	return b.String()
}

func main() {
	o := vh.ParseFlags()
	cryptoh.Setup()
	defer cryptoh.Cleanup()
	rep := vh.NewReport("cryptovrf", "C33", o)
	rep.Rule = "worlds of n miners with real keys and a real DKG of threshold t ((1,1) to (7,10), thorough to (14,20)); per scenario 2-3 miners' views of " +
		"one round (round, timeout count, previous seed incl. edge values), each fed through the real mc.AddVRFShare with a random subset and order of " +
		"valid shares mixed with shares for another message, of another key, undecodable, zero, summed, of a later timeout count, duplicates and " +
		"shares of a node outside the magic block; in two of three views the round is restarted (Round.Restart + IncrementTimeoutCount) after a phase with fewer than t shares or after any phase, and shares for the new timeout count follow; plus contribute scenarios: 3-7 miners publish public polynomials with T-1, T, T+1, T+2 coefficients (also a non-member, a second contribution) through the real minersc contributeMpk, the recorded ones form the DKG and every T-subset (up to 80) and the full set of verified shares must give one seed; plus re-aggregation scenarios: every party's DKG object is aggregated, the dealer set changes (drop / replace a polynomial / add a party), the same objects are aggregated again and compared with objects built freshly from the final set (key shares, VerifySignature verdicts on genuine and old-key shares, seed of the first T counted shares); non-trivial = at least one share rejected, one view completed and one view (or prefix) below t; " +
		"distinct by all inputs"
	cf := &vh.CasesFile{Imports: []string{"Base.Corr", "Model.DKGZ", "Model.VRFAdmit", "Model.VRFZ", "Corr.VRF"}, CaseType: "vzc_case", CheckFn: "vzc_check", Shard: 18}

	handle := func(s scen) {
		out := run(s)
		for k, n := range out.hist {
			rep.CountN(k, n)
		}
		rep.Count(fmt.Sprintf("t=%d,n=%d", s.T, s.N))
		rejected := 0
		for k, n := range out.hist {
			if strings.HasPrefix(k, "add-") && strings.HasSuffix(k, "-false") {
				rejected += n
			}
		}
		rep.Case(key(s), rejected > 0 && out.hist["view-complete-true"] > 0 && s.T >= 2, s)
		for ci, c := range out.coq {
			if (s.T >= 4 || o.Tier == "quick" && ci >= 2) && ci >= 1 {
				continue // the model re-runs one view of the larger instances (the oracle judged all)
			}
			cf.Add(c)
			rep.CaseInputs = append(rep.CaseInputs, s)
		}
		for _, k := range out.fails {
			// minimise: drop views, then events, while the same failure remains
			min := s
			keep := vh.ShrinkIdx(len(min.Views), func(keep []int) bool {
				if len(keep) == 0 {
					return false
				}
				s2 := min
				s2.Views = nil
				for _, i := range keep {
					s2.Views = append(s2.Views, min.Views[i])
				}
				_, bad := run(s2).descs[k]
				return bad
			})
			var vs []view
			for _, i := range keep {
				vs = append(vs, min.Views[i])
			}
			min.Views = vs
			for vi := range min.Views {
				// drop later phases from the end, then events of every phase
				for len(min.Views[vi].More) > 0 {
					s2 := min
					s2.Views = append([]view{}, min.Views...)
					vv := min.Views[vi]
					vv.More = vv.More[:len(vv.More)-1]
					s2.Views[vi] = vv
					if _, bad := run(s2).descs[k]; !bad {
						break
					}
					min = s2
				}
				for ph := 0; ph <= len(min.Views[vi].More); ph++ {
					get := func(vv *view) *[]ev {
						if ph == 0 {
							return &vv.Evs
						}
						return &vv.More[ph-1]
					}
					base := min.Views[vi]
					evs := append([]ev{}, *get(&base)...)
					mk := func(keep []int) scen {
						s2 := min
						s2.Views = append([]view{}, min.Views...)
						vv := view{Self: base.Self, Evs: append([]ev{}, base.Evs...)}
						for _, m := range base.More {
							vv.More = append(vv.More, append([]ev{}, m...))
						}
						var es []ev
						for _, i := range keep {
							es = append(es, evs[i])
						}
						*get(&vv) = es
						s2.Views[vi] = vv
						return s2
					}
					keepE := vh.ShrinkIdx(len(evs), func(keep []int) bool {
						_, bad := run(mk(keep)).descs[k]
						return bad
					})
					min = mk(keepE)
				}
			}
			desc := out.descs[k]
			if d2, ok := run(min).descs[k]; ok {
				desc = d2
			}
			rep.Violate("C33:"+k, desc, min)
		}
	}
	finish := func() {
		files, err := cf.Write(o.Out, "C33")
		if err != nil {
			panic(err)
		}
		rep.CaseFiles = files
		rep.ShardSize = 18
		rep.Write(o.Out)
	}
	var rs scen
	if o.LoadReplay(&rs) {
		handle(rs)
		finish()
		return
	}
	rnd := vh.NewRand(o.Seed)
	type tn struct{ t, n int }
	shapes := []tn{{1, 1}, {1, 3}, {2, 2}, {2, 3}, {3, 4}, {3, 5}, {4, 6}, {5, 7}, {7, 10}}
	if o.Thorough() {
		shapes = append(shapes, tn{6, 9}, tn{9, 12}, tn{10, 10}, tn{14, 20})
	}
	for _, sh := range shapes {
		wseed := rnd.U64() % 1000000
		for k := 0; k < o.N(6, 40); k++ {
			handle(gen(rnd, sh.t, sh.n, wseed))
		}
	}
	// contributeMpk with polynomials of T-1, T, T+1, T+2 coefficients, then the DKG of the accepted ones
	for k := 0; k < o.N(10, 80); k++ {
		n := rnd.Range(3, 7)
		t := rnd.Range(2, n-1)
		c := scen{T: t, N: n, WorldSeed: rnd.U64() % 1000000, Round: int64(rnd.Range(2, 5000)), Timeout: rnd.Intn(3), PrevSeed: int64(rnd.U64())}
		for j := 0; j < n; j++ {
			l := t
			switch rnd.Intn(8) {
			case 0:
				l = t + 1
			case 1:
				l = t - 1
			case 2:
				l = t + 2
			}
			c.Lens = append(c.Lens, l)
		}
		if k%3 == 0 {
			c.Lens[n-1] = t + 1 // at least one polynomial of degree t, as the last miner
		}
		if rnd.Chance(1, 3) {
			c.Lens = append(c.Lens, -1)
		}
		if rnd.Chance(1, 2) {
			c.Again = append(c.Again, rnd.Intn(n))
		}
		handle(c)
	}
	// one DKG object aggregated, the set changed, aggregated again -- against fresh objects
	for k := 0; k < o.N(10, 60); k++ {
		n := rnd.Range(3, 6)
		t := rnd.Range(2, n-1)
		c := scen{T: t, N: n, WorldSeed: rnd.U64() % 1000000, Round: int64(rnd.Range(2, 5000)), Timeout: rnd.Intn(3), PrevSeed: int64(rnd.U64())}
		nops := rnd.Range(1, 2)
		for i := 0; i < nops; i++ {
			switch rnd.Intn(3) {
			case 0:
				c.Reagg = append(c.Reagg, reop{"drop", rnd.Intn(n)})
			case 1:
				c.Reagg = append(c.Reagg, reop{"replace", rnd.Intn(n)})
			default:
				c.Reagg = append(c.Reagg, reop{"add", 0})
			}
		}
		handle(c)
	}
	finish()
}
