// Package stg: a real StorageSmartContract on a real StateContext (in-memory MPT) for engine
// E-storage. Every transaction runs on a child MPT that is merged only when the contract
// succeeded and every queued transfer could be paid (what chain.updateState does).
package stg

import (
	"encoding/hex"
	"encoding/json"
	"fmt"
	"sort"
	"strings"
	"time"

	"0chain.net/chaincore/block"
	cstate "0chain.net/chaincore/chain/state"
	"0chain.net/chaincore/state"
	"0chain.net/chaincore/transaction"
	"0chain.net/core/common"
	"0chain.net/core/encryption"
	"0chain.net/smartcontract/storagesc"
	"github.com/0chain/common/core/currency"
	"github.com/0chain/common/core/statecache"
	"github.com/0chain/common/core/util"
	"github.com/herumi/bls-go-binary/bls"
	"verifharness/sc"
)

const ADDRESS = storagesc.ADDRESS

// Key is a client with a real BLS key pair.
type Key struct {
	ID     string
	PK     string
	Scheme *encryption.BLS0ChainScheme
}

// NewKey derives a real BLS key pair deterministically from a label (so that runs and replays see
// the same ids); the id is Hash(pubkey bytes) as the chain derives it.
func NewKey(label string) *Key {
	var sk bls.SecretKey
	if err := sk.SetLittleEndianMod(encryption.RawHash("verif key " + label)); err != nil {
		panic(err)
	}
	pk := sk.GetPublicKey().SerializeToHexStr()
	s := encryption.NewBLS0ChainScheme()
	if err := s.ReadKeys(strings.NewReader(pk + "\n" + hex.EncodeToString(sk.GetLittleEndian()) + "\n")); err != nil {
		panic(err)
	}
	b, err := hex.DecodeString(pk)
	if err != nil {
		panic(err)
	}
	return &Key{ID: encryption.Hash(b), PK: pk, Scheme: s}
}

func (k *Key) Sign(hash string) string {
	s, err := k.Scheme.Sign(hash)
	if err != nil {
		panic(err)
	}
	return s
}

type Transfer struct {
	From, To string
	Amount   uint64
}

// Result of one executed transaction.
type Result struct {
	OK        bool
	Err       string
	Resp      string
	Transfers []Transfer // queued by the contract (applied only when OK)
	TxnHash   string
	Round     int64
	Sender    string // txn.ClientID
	Func      string // called function
	Value     uint64 // txn.Value
}

type World struct {
	MPT    util.MerklePatriciaTrieI
	SSC    *storagesc.StorageSmartContract
	Round  int64
	NTxn   int
	Salt   string
	Owner  string // conf.OwnerId
	events int
}

func NewWorld(salt string) *World {
	sc.Init()
	w := &World{MPT: sc.NewMPT(), Salt: salt, Round: 1000}
	w.SSC = storagesc.NewStorageSmartContract().(*storagesc.StorageSmartContract)
	return w
}

// SeedAt is the round random seed of the block at `round` (used by the contract to pick the
// rewarded validators).
func (w *World) SeedAt(round int64) int64 { return round*7919 + 13 }

func (w *World) blockAt(round int64) *block.Block {
	bk := &block.Block{}
	bk.Round = round
	bk.PrevHash = encryption.Hash(fmt.Sprintf("%s-prev-%d", w.Salt, round))
	bk.SetRoundRandomSeed(w.SeedAt(round))
	return bk
}

func (w *World) ctxOn(mpt util.MerklePatriciaTrieI, round int64, txn *transaction.Transaction) *cstate.StateContext {
	bk := w.blockAt(round)
	mb := &block.MagicBlock{}
	if txn == nil {
		txn = &transaction.Transaction{}
		txn.Hash = encryption.Hash("verif read")
	}
	return cstate.NewStateContext(bk, mpt, txn,
		func(int64) *block.MagicBlock { return mb },
		func() *block.Block { return bk },
		func() *block.MagicBlock { return mb },
		func() encryption.SignatureScheme { return encryption.NewBLS0ChainScheme() },
		func() *block.Block { return bk },
		nil)
}

// child returns a child MPT of the committed state with its own (empty) value cache; the
// committed trie's own cache is never used (values cached there would go stale on merge).
func (w *World) child() util.MerklePatriciaTrieI {
	tdb := util.NewLevelNodeDB(util.NewMemoryNodeDB(), w.MPT.GetNodeDB(), false)
	return util.NewMerklePatriciaTrie(tdb, w.MPT.GetVersion(), w.MPT.GetRoot(), statecache.NewEmpty())
}

// View returns a read context on (a throw-away child of) the committed state.
func (w *World) View() *cstate.StateContext { return w.ctxOn(w.child(), w.Round, nil) }

// Direct runs f on the committed state without transaction semantics (setup only).
func (w *World) Direct(f func(ctx *cstate.StateContext) error) {
	m := w.child()
	if err := f(w.ctxOn(m, w.Round, nil)); err != nil {
		panic(err)
	}
	if err := w.MPT.MergeMPTChanges(m); err != nil {
		panic(err)
	}
}

func (w *World) SetBalance(id string, v uint64) {
	w.Direct(func(ctx *cstate.StateContext) error { sc.SetBalance(ctx, id, v); return nil })
}

func (w *World) Balance(id string) uint64 { return sc.Balance(w.View(), id) }

func (w *World) InstallFork(name string, round int64) {
	w.Direct(func(ctx *cstate.StateContext) error {
		hf := cstate.NewHardFork(name, round)
		_, err := ctx.InsertTrieNode(hf.GetKey(), hf)
		return err
	})
}

// Exec runs one smart-contract transaction at the next round.
func (w *World) Exec(from *Key, fn string, input []byte, value uint64, now int64) Result {
	return w.ExecAs(from.ID, from.PK, fn, input, value, now)
}

func (w *World) ExecAs(fromID, fromPK, fn string, input []byte, value uint64, now int64) (res Result) {
	w.Round++
	w.NTxn++
	txn := &transaction.Transaction{}
	txn.Hash = encryption.Hash(fmt.Sprintf("%s-txn-%d", w.Salt, w.NTxn))
	txn.ClientID = fromID
	txn.PublicKey = fromPK
	txn.ToClientID = ADDRESS
	txn.Value = currency.Coin(value)
	txn.CreationDate = common.Timestamp(now)
	txn.TransactionType = transaction.TxnTypeSmartContract
	res.TxnHash = txn.Hash
	res.Round = w.Round
	res.Sender, res.Func, res.Value = fromID, fn, value

	tmpt := w.child()
	ctx := w.ctxOn(tmpt, w.Round, txn)

	defer func() {
		if r := recover(); r != nil {
			res.OK = false
			res.Err = fmt.Sprintf("PANIC: %v", r)
		}
	}()
	resp, err := w.SSC.Execute(txn, fn, input, ctx)
	for _, t := range ctx.GetTransfers() {
		res.Transfers = append(res.Transfers, Transfer{t.ClientID, t.ToClientID, uint64(t.Amount)})
	}
	if err != nil {
		res.Err = err.Error()
		return
	}
	res.Resp = resp
	// apply transfers as chain.transferAmount does: balance check, debit, credit
	for _, t := range res.Transfers {
		if t.Amount == 0 {
			continue
		}
		fb, _ := ctx.GetClientBalance(t.From)
		if uint64(fb) < t.Amount {
			res.Err = fmt.Sprintf("transfer %s->%s %d: insufficient balance %d", short(t.From), short(t.To), t.Amount, fb)
			return
		}
		setBal(ctx, t.From, uint64(fb)-t.Amount)
		tb, _ := ctx.GetClientBalance(t.To)
		setBal(ctx, t.To, uint64(tb)+t.Amount)
	}
	if err := w.MPT.MergeMPTChanges(tmpt); err != nil {
		panic(err)
	}
	res.OK = true
	return
}

func setBal(ctx *cstate.StateContext, id string, v uint64) {
	s := state.State{}
	_ = s.SetTxnHash("0000000000000000000000000000000000000000000000000000000000000000")
	s.Balance = currency.Coin(v)
	if _, err := ctx.SetClientState(id, &s); err != nil {
		panic(err)
	}
}

func short(s string) string {
	if len(s) > 8 {
		return s[:8]
	}
	return s
}

// ---------- configuration ----------

// Conf is the part of the storagesc configuration the histories vary.
type Conf struct {
	TimeUnitSec        int64   `json:"tu"`
	ValidatorReward    float64 `json:"vr"`
	BlobberSlash       float64 `json:"bs"`
	CancellationCharge float64 `json:"cc"`
	MaxWritePrice      uint64  `json:"maxwp"`
	MinWritePrice      uint64  `json:"minwp"`
	MaxReadPrice       uint64  `json:"maxrp"`
	MinAllocSize       int64   `json:"minsz"`
	MaxChalRounds      int64   `json:"mccr"`
	MinLockW           uint64  `json:"mlw"`
	MinLockR           uint64  `json:"mlr"`
	KillSlash          float64 `json:"ks"`
	MinStake           uint64  `json:"minstake"`
	MaxStake           uint64  `json:"maxstake"`
	ValidatorsPerChal  int     `json:"vpc"`
	NumValRewarded     int     `json:"nvr"`
	MaxBlobbersPerAll  int     `json:"mbpa"`
	FreeData           int     `json:"fd"`
	FreeParity         int     `json:"fp"`
	FreeSize           int64   `json:"fs"`
	FreeReadFrac       float64 `json:"frf"`
	FreeMaxWP          uint64  `json:"fmaxwp"`
	FreeMaxRP          uint64  `json:"fmaxrp"`
	MaxIndivFree       uint64  `json:"mif"`
	MaxTotalFree       uint64  `json:"mtf"`
	Electra            int64   `json:"electra"` // activation round; <0 = not installed
	Demeter            int64   `json:"demeter"`
}

func (w *World) InstallConfig(c Conf, owner string) {
	w.Owner = owner
	w.Direct(func(ctx *cstate.StateContext) error {
		conf := storagesc.VerifNewConfig()
		conf.TimeUnit = time.Duration(c.TimeUnitSec) * time.Second
		conf.ChallengeEnabled = true
		conf.ValidatorsPerChallenge = c.ValidatorsPerChal
		conf.NumValidatorsRewarded = c.NumValRewarded
		conf.MaxBlobberSelectForChallenge = 5
		conf.MaxBlobbersPerAllocation = c.MaxBlobbersPerAll
		conf.MinAllocSize = c.MinAllocSize
		conf.MinBlobberCapacity = 1024
		conf.ValidatorReward = c.ValidatorReward
		conf.BlobberSlash = c.BlobberSlash
		conf.MaxReadPrice = currency.Coin(c.MaxReadPrice)
		conf.MaxWritePrice = currency.Coin(c.MaxWritePrice)
		conf.MinWritePrice = currency.Coin(c.MinWritePrice)
		conf.MaxDelegates = 200
		conf.MaxChallengeCompletionRounds = c.MaxChalRounds
		conf.MaxCharge = 0.5
		conf.MinStake = currency.Coin(c.MinStake)
		conf.MaxStake = currency.Coin(c.MaxStake)
		conf.MinStakePerDelegate = 0
		conf.HealthCheckPeriod = time.Hour
		conf.ReadPool.MinLock = currency.Coin(c.MinLockR)
		conf.WritePool.MinLock = currency.Coin(c.MinLockW)
		conf.StakePool.KillSlash = c.KillSlash
		conf.BlockReward.BlockReward = 18 * 1e9
		conf.BlockReward.BlockRewardChangePeriod = 125000000
		conf.BlockReward.BlockRewardChangeRatio = 0.1
		conf.BlockReward.TriggerPeriod = 30
		conf.BlockReward.Gamma.Alpha, conf.BlockReward.Gamma.A, conf.BlockReward.Gamma.B = 0.2, 10, 9
		conf.BlockReward.Zeta.Mu, conf.BlockReward.Zeta.I, conf.BlockReward.Zeta.K = 0.2, 1, 0.9
		conf.BlockReward.QualifyingStake = 1
		conf.CancellationCharge = c.CancellationCharge
		conf.MaxIndividualFreeAllocation = currency.Coin(c.MaxIndivFree)
		conf.MaxTotalFreeAllocation = currency.Coin(c.MaxTotalFree)
		conf.FreeAllocationSettings.DataShards = c.FreeData
		conf.FreeAllocationSettings.ParityShards = c.FreeParity
		conf.FreeAllocationSettings.Size = c.FreeSize
		conf.FreeAllocationSettings.ReadPoolFraction = c.FreeReadFrac
		conf.FreeAllocationSettings.WritePriceRange = storagesc.PriceRange{Min: 0, Max: currency.Coin(c.FreeMaxWP)}
		conf.FreeAllocationSettings.ReadPriceRange = storagesc.PriceRange{Min: 0, Max: currency.Coin(c.FreeMaxRP)}
		conf.OwnerId = owner
		if err := storagesc.VerifSaveConfig(conf, ctx); err != nil {
			return err
		}
		return storagesc.InitPartitions(ctx)
	})
	if c.Electra >= 0 {
		w.InstallFork("electra", c.Electra)
	}
	if c.Demeter >= 0 {
		w.InstallFork("demeter", c.Demeter)
	}
}

// ---------- transaction inputs (the JSON the contract decodes) ----------

func J(v interface{}) []byte {
	b, err := json.Marshal(v)
	if err != nil {
		panic(err)
	}
	return b
}

type M = map[string]interface{}

func AddBlobberInput(k *Key, capacity int64, wp, rp uint64, wallet string, charge float64, url string, enterprise ...bool) []byte {
	ent := len(enterprise) > 0 && enterprise[0]
	return J(M{
		"id": k.ID, "url": url, "capacity": capacity,
		"terms":               M{"read_price": rp, "write_price": wp},
		"stake_pool_settings": M{"delegate_wallet": wallet, "num_delegates": 10, "service_charge": charge},
		"is_restricted":       false, "is_enterprise": ent,
	})
}

func AddValidatorInput(k *Key, wallet string, url string) []byte {
	return J(M{"id": k.ID, "url": url,
		"stake_pool_settings": M{"delegate_wallet": wallet, "num_delegates": 10, "service_charge": 0.1}})
}

func StakeInput(kind int, providerID string) []byte {
	// spenum.Provider: blobber = 3, validator = 4
	pt := 3
	if kind == 1 {
		pt = 4
	}
	return J(M{"provider_type": pt, "provider_id": providerID})
}

type PriceRange struct{ Min, Max uint64 }

func NewAllocInput(data, parity int, size int64, owner, ownerPK string, blobbers []string, rr, wr PriceRange, thirdParty bool) []byte {
	tickets := make([]string, len(blobbers))
	return J(M{"data_shards": data, "parity_shards": parity, "size": size, "owner_id": owner, "owner_public_key": ownerPK,
		"blobbers": blobbers, "blobber_auth_tickets": tickets,
		"read_price_range":  M{"min": rr.Min, "max": rr.Max},
		"write_price_range": M{"min": wr.Min, "max": wr.Max}, "third_party_extendable": thirdParty})
}

// NewEnterpriseAllocInput: is_enterprise request; tickets[i] = blobber i's signature over the owner's id.
func NewEnterpriseAllocInput(data, parity int, size int64, owner, ownerPK string, blobbers, tickets []string, rr, wr PriceRange, thirdParty bool) []byte {
	return J(M{"data_shards": data, "parity_shards": parity, "size": size, "owner_id": owner, "owner_public_key": ownerPK,
		"blobbers": blobbers, "blobber_auth_tickets": tickets, "is_enterprise": true,
		"read_price_range":  M{"min": rr.Min, "max": rr.Max},
		"write_price_range": M{"min": wr.Min, "max": wr.Max}, "third_party_extendable": thirdParty})
}

func LockInput(allocID string) []byte { return J(M{"allocation_id": allocID}) }

type UpdateReq struct {
	ID       string
	Size     int64
	Extend   bool
	AddID    string
	RemoveID string
	SetTPE   bool
	OwnerID  string
}

func UpdateAllocInput(u UpdateReq) []byte {
	return J(M{"id": u.ID, "size": u.Size, "extend": u.Extend, "add_blobber_id": u.AddID, "remove_blobber_id": u.RemoveID,
		"set_third_party_extendable": u.SetTPE, "owner_id": u.OwnerID})
}

// WriteMarkerInput builds a v1 write marker signed by `signer` and the commit_connection input.
func WriteMarkerInput(signer *Key, allocID, blobberID, clientID, root, prevRoot string, size, ts int64) []byte {
	hashData := fmt.Sprintf("%s:%s:%s:%s:%s:%s:%d:%d", root, prevRoot, "", allocID, blobberID, clientID, size, ts)
	sig := signer.Sign(encryption.Hash(hashData))
	wm := M{"allocation_root": root, "prev_allocation_root": prevRoot, "file_meta_root": "", "allocation_id": allocID,
		"size": size, "blobber_id": blobberID, "timestamp": ts, "client_id": clientID, "signature": sig}
	return J(M{"allocation_root": root, "prev_allocation_root": prevRoot, "write_marker": wm})
}

// ReadMarkerInput builds a read marker signed by `signer` (normally the client itself).
func ReadMarkerInput(signer *Key, clientID, clientPK, blobberID, allocID, ownerID string, ts, counter int64) []byte {
	hashData := fmt.Sprintf("%v:%v:%v:%v:%v:%v:%v", allocID, blobberID, clientID, clientPK, ownerID, counter, ts)
	sig := signer.Sign(encryption.Hash(hashData))
	return J(M{"read_marker": M{"client_id": clientID, "client_public_key": clientPK, "blobber_id": blobberID,
		"allocation_id": allocID, "owner_id": ownerID, "timestamp": ts, "counter": counter, "signature": sig}})
}

type Ticket struct {
	Validator *Key
	Result    bool
	BadSig    bool
}

func ChallengeResponseInput(chID, blobberID string, ts int64, tickets []Ticket) []byte {
	var vts []M
	for _, t := range tickets {
		data := fmt.Sprintf("%v:%v:%v:%v:%v:%v", chID, blobberID, t.Validator.ID, t.Validator.PK, t.Result, ts)
		h := encryption.Hash(data)
		if t.BadSig {
			h = encryption.Hash(data + "x")
		}
		vts = append(vts, M{"challenge_id": chID, "blobber_id": blobberID, "validator_id": t.Validator.ID,
			"validator_key": t.Validator.PK, "success": t.Result, "timestamp": ts, "signature": t.Validator.Sign(h)})
	}
	return J(M{"challenge_id": chID, "validation_tickets": vts})
}

func ProviderInput(id string) []byte { return J(M{"provider_id": id}) }

func GenChallengeInput(round int64) []byte { return J(M{"round": round}) }

func AddAssignerInput(name, pk string, indiv, total float64) []byte {
	return J(M{"name": name, "public_key": pk, "individual_limit": indiv, "total_limit": total})
}

// FreeMarkerInput: marker signed by `signer` over "<recipient>:<%f tokens>:<nonce>:<blobber ids>" hex encoded.
func FreeMarkerInput(signer *Key, assigner, recipient, recipientPK string, tokens float64, nonce int64, blobbers []string) []byte {
	ids := ""
	for _, b := range blobbers {
		ids += b
	}
	marker := fmt.Sprintf("%s:%f:%d:%s", recipient, tokens, nonce, ids)
	sig := signer.Sign(hex.EncodeToString([]byte(marker)))
	mk := J(M{"assigner": assigner, "recipient": recipient, "free_tokens": tokens, "nonce": nonce, "signature": sig, "blobbers": blobbers})
	return J(M{"recipient_public_key": recipientPK, "marker": string(mk), "blobbers": blobbers})
}

func SortedKeys(m map[string]bool) []string {
	out := make([]string, 0, len(m))
	for k := range m {
		out = append(out, k)
	}
	sort.Strings(out)
	return out
}
